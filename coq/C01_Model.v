(* C01 — executable model of the dense matrix / vector kernels of dune-common
   (densematrix.hh, densevector.hh, fmatrix.hh, fvector.hh, dynmatrix.hh, dynvector.hh,
    diagonalmatrix.hh, scalarmatrixview.hh, transpose.hh, dotproduct.hh, math.hh).
   Definitions only (no proofs): the model must run even when a proof breaks.

   Numbers: an arbitrary carrier R with the operations the C++ code uses on the field type K
   (record c01_ops; no laws here — the laws are hypotheses of the proofs).  Instances at the
   end of the file: Z (int, double holding integers), Gaussian integers Z*Z (complex<double>
   holding Gaussian integers), Z mod p (the harness prime-field class).
   Storage: a vector is `list R` (FieldVector::_data, DynamicVector::_data), a matrix is the
   list of its rows `list (list R)` (FieldMatrix::_data, DynamicMatrix::_data), a diagonal
   matrix is the list of its diagonal (DiagonalMatrix::diag_).
   Every kernel is the accumulation loop of the C++ code, in the code's loop order, updating
   the destination in place (c01_upd = assignment to one component):
       for (i = 0; i < n; ++i) body      ~~>   c01_for n (fun i state => body) state          *)
From Coq Require Import List ZArith Bool Arith.
Import ListNotations.

Record c01_ops (R : Type) : Type := C01_Ops {
  c01_O : R;                         (* K(0) *)
  c01_I : R;                         (* K(1) *)
  c01_add : R -> R -> R;
  c01_mul : R -> R -> R;
  c01_sub : R -> R -> R;
  c01_opp : R -> R;
  c01_conj : R -> R;                 (* conjugateComplex / conj of dotproduct.hh *)
  c01_div : R -> R -> option R;      (* None: division by zero or not exact in the carrier *)
  c01_eqb : R -> R -> bool }.
Arguments c01_O {R}. Arguments c01_I {R}. Arguments c01_add {R}. Arguments c01_mul {R}.
Arguments c01_sub {R}. Arguments c01_opp {R}. Arguments c01_conj {R}. Arguments c01_div {R}.
Arguments c01_eqb {R}.

(* x[i] = v  (out of range: no effect; the checked variant below reports it) *)
Fixpoint c01_upd {T : Type} (l : list T) (i : nat) (v : T) : list T :=
  match l, i with
  | [], _ => []
  | _ :: t, O => v :: t
  | h :: t, S i' => h :: c01_upd t i' v
  end.

(* for (i = 0; i < n; ++i) s = body i s *)
Definition c01_for {S : Type} (n : nat) (body : nat -> S -> S) (s : S) : S :=
  fold_left (fun s i => body i s) (seq 0 n) s.

Section Model.
Context {R : Type} (K : c01_ops R).
Local Notation zero := (c01_O K).
Local Notation add := (c01_add K).
Local Notation mul := (c01_mul K).
Local Notation sub := (c01_sub K).
Local Notation opp := (c01_opp K).
Local Notation conj := (c01_conj K).

Definition c01_at (x : list R) (i : nat) : R := nth i x zero.                 (* x[i] *)
Definition c01_row (A : list (list R)) (i : nat) : list R := nth i A [].      (* A[i] *)
Definition c01_get (A : list (list R)) (i j : nat) : R := c01_at (c01_row A i) j.   (* A[i][j] *)
Definition c01_set2 (A : list (list R)) (i j : nat) (v : R) : list (list R) :=      (* A[i][j] = v *)
  c01_upd A i (c01_upd (c01_row A i) j v).
Definition c01_rows (A : list (list R)) : nat := length A.                    (* mat_rows(): _data.size() *)
Definition c01_cols (A : list (list R)) : nat :=                              (* mat_cols(): _data.front().size() *)
  match A with [] => 0 | r :: _ => length r end.
Definition c01_vzero (n : nat) : list R := repeat zero n.                      (* FieldVector(): _data{} *)
Definition c01_mzero (r c : nat) : list (list R) := repeat (c01_vzero c) r.    (* FieldMatrix() *)

(* ------------------------------------------------------------------ DenseMatrix kernels (densematrix.hh 366-523)
   shared by FieldMatrix, DynamicMatrix, ScalarMatrixView (all derive from DenseMatrix) *)

(* y = A x :   for i<rows { y[i] = 0; for j<cols y[i] += A[i][j]*x[j]; } *)
Definition c01_mv (A : list (list R)) (x y : list R) : list R :=
  c01_for (c01_rows A) (fun i yy =>
    c01_for (c01_cols A) (fun j yy => c01_upd yy i (add (c01_at yy i) (mul (c01_get A i j) (c01_at x j))))
            (c01_upd yy i zero)) y.

(* y = A^T x : for i<cols { y[i] = 0; for j<rows y[i] += A[j][i]*x[j]; } *)
Definition c01_mtv (A : list (list R)) (x y : list R) : list R :=
  c01_for (c01_cols A) (fun i yy =>
    c01_for (c01_rows A) (fun j yy => c01_upd yy i (add (c01_at yy i) (mul (c01_get A j i) (c01_at x j))))
            (c01_upd yy i zero)) y.

(* y += A x *)
Definition c01_umv (A : list (list R)) (x y : list R) : list R :=
  c01_for (c01_rows A) (fun i yy =>
    c01_for (c01_cols A) (fun j yy => c01_upd yy i (add (c01_at yy i) (mul (c01_get A i j) (c01_at x j)))) yy) y.

(* y += A^T x : for i<rows for j<cols y[j] += A[i][j]*x[i] *)
Definition c01_umtv (A : list (list R)) (x y : list R) : list R :=
  c01_for (c01_rows A) (fun i yy =>
    c01_for (c01_cols A) (fun j yy => c01_upd yy j (add (c01_at yy j) (mul (c01_get A i j) (c01_at x i)))) yy) y.

(* y += A^H x : y[j] += conjugateComplex(A[i][j])*x[i] *)
Definition c01_umhv (A : list (list R)) (x y : list R) : list R :=
  c01_for (c01_rows A) (fun i yy =>
    c01_for (c01_cols A) (fun j yy => c01_upd yy j (add (c01_at yy j) (mul (conj (c01_get A i j)) (c01_at x i)))) yy) y.

(* y -= A x *)
Definition c01_mmv (A : list (list R)) (x y : list R) : list R :=
  c01_for (c01_rows A) (fun i yy =>
    c01_for (c01_cols A) (fun j yy => c01_upd yy i (sub (c01_at yy i) (mul (c01_get A i j) (c01_at x j)))) yy) y.

(* y -= A^T x *)
Definition c01_mmtv (A : list (list R)) (x y : list R) : list R :=
  c01_for (c01_rows A) (fun i yy =>
    c01_for (c01_cols A) (fun j yy => c01_upd yy j (sub (c01_at yy j) (mul (c01_get A i j) (c01_at x i)))) yy) y.

(* y -= A^H x *)
Definition c01_mmhv (A : list (list R)) (x y : list R) : list R :=
  c01_for (c01_rows A) (fun i yy =>
    c01_for (c01_cols A) (fun j yy => c01_upd yy j (sub (c01_at yy j) (mul (conj (c01_get A i j)) (c01_at x i)))) yy) y.

(* y += alpha A x : y[i] += alpha * A[i][j] * x[j]   (left-associated product) *)
Definition c01_usmv (alpha : R) (A : list (list R)) (x y : list R) : list R :=
  c01_for (c01_rows A) (fun i yy =>
    c01_for (c01_cols A) (fun j yy => c01_upd yy i (add (c01_at yy i) (mul (mul alpha (c01_get A i j)) (c01_at x j)))) yy) y.

(* y += alpha A^T x *)
Definition c01_usmtv (alpha : R) (A : list (list R)) (x y : list R) : list R :=
  c01_for (c01_rows A) (fun i yy =>
    c01_for (c01_cols A) (fun j yy => c01_upd yy j (add (c01_at yy j) (mul (mul alpha (c01_get A i j)) (c01_at x i)))) yy) y.

(* y += alpha A^H x *)
Definition c01_usmhv (alpha : R) (A : list (list R)) (x y : list R) : list R :=
  c01_for (c01_rows A) (fun i yy =>
    c01_for (c01_cols A) (fun j yy => c01_upd yy j (add (c01_at yy j) (mul (mul alpha (conj (c01_get A i j))) (c01_at x i)))) yy) y.

(* ------------------------------------------------------------------ DenseVector (densevector.hh) *)

(* x += y *)
Definition c01_vadd (x y : list R) : list R :=
  c01_for (length x) (fun i v => c01_upd v i (add (c01_at v i) (c01_at y i))) x.
(* x -= y *)
Definition c01_vsub (x y : list R) : list R :=
  c01_for (length x) (fun i v => c01_upd v i (sub (c01_at v i) (c01_at y i))) x.
(* z = x; z += y / z -= y  (operator+, operator-) *)
Definition c01_vplus (x y : list R) : list R := c01_vadd x y.
Definition c01_vminus (x y : list R) : list R := c01_vsub x y.
(* x += k, x -= k, x *= k *)
Definition c01_vadds (x : list R) (k : R) : list R :=
  c01_for (length x) (fun i v => c01_upd v i (add (c01_at v i) k)) x.
Definition c01_vsubs (x : list R) (k : R) : list R :=
  c01_for (length x) (fun i v => c01_upd v i (sub (c01_at v i) k)) x.
Definition c01_vscale (x : list R) (k : R) : list R :=
  c01_for (length x) (fun i v => c01_upd v i (mul (c01_at v i) k)) x.
(* x /= k : None as soon as one component division is undefined *)
Definition c01_vdiv (x : list R) (k : R) : option (list R) :=
  c01_for (length x) (fun i s => match s with
                                 | None => None
                                 | Some v => match c01_div K (c01_at v i) k with
                                             | None => None
                                             | Some q => Some (c01_upd v i q)
                                             end
                                 end) (Some x).
(* x.axpy(a, y) : x[i] += a*y[i] *)
Definition c01_vaxpy (x : list R) (a : R) (y : list R) : list R :=
  c01_for (length x) (fun i v => c01_upd v i (add (c01_at v i) (mul a (c01_at y i)))) x.
(* operator-() : `V result;  for i<size() result[i] = -this[i];`
   res0 is the freshly constructed `result`: n zeros for FieldVector, and for DynamicVector the EMPTY
   vector in the code as it stands (every store is then out of bounds: None), a copy of *this after
   fix C01-1.  Checked stores. *)
Definition c01_vneg_from (res0 x : list R) : option (list R) :=
  c01_for (length x) (fun i s => match s with
                                 | None => None
                                 | Some res => if i <? length res then Some (c01_upd res i (opp (c01_at x i))) else None
                                 end) (Some res0).
(* x == y : first differing component decides *)
Definition c01_veq (x y : list R) : bool :=
  c01_for (length x) (fun i (b : bool) => if b then c01_eqb K (c01_at x i) (c01_at y i) else false) true.
(* operator* : result += x[i]*y[i]  (x^T y) *)
Definition c01_vdotT (x y : list R) : R :=
  c01_for (length x) (fun i r => add r (mul (c01_at x i) (c01_at y i))) zero.
(* dot : result += conj(x[i])*y[i]  (x^H y, dotproduct.hh) *)
Definition c01_vdot (x y : list R) : R :=
  c01_for (length x) (fun i r => add r (mul (conj (c01_at x i)) (c01_at y i))) zero.
(* FieldVector friend operators: v*k, k*v, v/k into a fresh result *)
Definition c01_fv_muls (x : list R) (k : R) : list R :=
  c01_for (length x) (fun i res => c01_upd res i (mul (c01_at x i) k)) (c01_vzero (length x)).
Definition c01_fv_smul (k : R) (x : list R) : list R :=
  c01_for (length x) (fun i res => c01_upd res i (mul k (c01_at x i))) (c01_vzero (length x)).
Definition c01_fv_divs (x : list R) (k : R) : option (list R) :=
  c01_for (length x) (fun i s => match s with
                                 | None => None
                                 | Some res => match c01_div K (c01_at x i) k with
                                               | None => None
                                               | Some q => Some (c01_upd res i q)
                                               end
                                 end) (Some (c01_vzero (length x))).

(* ------------------------------------------------------------------ DenseMatrix vector-space part: row-wise *)
Definition c01_madd (A B : list (list R)) : list (list R) :=        (* A += B : this[i] += x[i] *)
  c01_for (c01_rows A) (fun i M => c01_upd M i (c01_vadd (c01_row M i) (c01_row B i))) A.
Definition c01_msub (A B : list (list R)) : list (list R) :=
  c01_for (c01_rows A) (fun i M => c01_upd M i (c01_vsub (c01_row M i) (c01_row B i))) A.
Definition c01_mscale (A : list (list R)) (k : R) : list (list R) :=
  c01_for (c01_rows A) (fun i M => c01_upd M i (c01_vscale (c01_row M i) k)) A.
Definition c01_mdiv (A : list (list R)) (k : R) : option (list (list R)) :=
  c01_for (c01_rows A) (fun i s => match s with
                                   | None => None
                                   | Some M => match c01_vdiv (c01_row M i) k with
                                               | None => None
                                               | Some r => Some (c01_upd M i r)
                                               end
                                   end) (Some A).
Definition c01_maxpy (A : list (list R)) (a : R) (B : list (list R)) : list (list R) :=
  c01_for (c01_rows A) (fun i M => c01_upd M i (c01_vaxpy (c01_row M i) a (c01_row B i))) A.
Definition c01_meq (A B : list (list R)) : bool :=
  c01_for (c01_rows A) (fun i (b : bool) => if b then c01_veq (c01_row A i) (c01_row B i) else false) true.
(* operator-() : `MAT result; result[i][j] = -A[i][j]` with checked stores; res0 as for c01_vneg_from *)
Definition c01_mneg_from (res0 A : list (list R)) : option (list (list R)) :=
  c01_for (c01_rows A) (fun i s =>
    c01_for (c01_cols A) (fun j s => match s with
                                     | None => None
                                     | Some res => if (i <? length res) && (j <? length (c01_row res i))
                                                   then Some (c01_set2 res i j (opp (c01_get A i j))) else None
                                     end) s) (Some res0).

(* ------------------------------------------------------------------ products *)

(* leftmultiply(M): C = copy of *this; this[i][j] = 0; for k<rows this[i][j] += M[i][k]*C[k][j] *)
Definition c01_leftmultiply (A M : list (list R)) : list (list R) :=
  let C := A in
  c01_for (c01_rows A) (fun i T =>
    c01_for (c01_cols A) (fun j T =>
      c01_for (c01_rows A) (fun k T => c01_set2 T i j (add (c01_get T i j) (mul (c01_get M i k) (c01_get C k j))))
              (c01_set2 T i j zero)) T) A.
(* rightmultiply(M): this[i][j] = 0; for k<cols this[i][j] += C[i][k]*M[k][j] *)
Definition c01_rightmultiply (A M : list (list R)) : list (list R) :=
  let C := A in
  c01_for (c01_rows A) (fun i T =>
    c01_for (c01_cols A) (fun j T =>
      c01_for (c01_cols A) (fun k T => c01_set2 T i j (add (c01_get T i j) (mul (c01_get C i k) (c01_get M k j))))
              (c01_set2 T i j zero)) T) A.
(* generic triple loop into a fresh r x p result: res[i][j] = 0; for k<n res[i][j] += A[i][k]*B[k][j]
   (FieldMatrix operator*(FieldMatrix), rightmultiplyany, FMatrixHelp::multMatrix) *)
Definition c01_fm_mul (r n p : nat) (A B : list (list R)) : list (list R) :=
  c01_for r (fun i T =>
    c01_for p (fun j T =>
      c01_for n (fun k T => c01_set2 T i j (add (c01_get T i j) (mul (c01_get A i k) (c01_get B k j))))
              (c01_set2 T i j zero)) T) (c01_mzero r p).
(* A.leftmultiplyany(M) = M*A,  M is l x rows:  C[i][j] += M[i][k]*A[k][j] *)
Definition c01_leftmultiplyany (l : nat) (A M : list (list R)) : list (list R) :=
  c01_fm_mul l (c01_rows A) (c01_cols A) M A.
Definition c01_rightmultiplyany (l : nat) (A M : list (list R)) : list (list R) :=
  c01_fm_mul (c01_rows A) (c01_cols A) l A M.
(* FieldMatrix * Other (not a FieldMatrix): for j<rows  B.mtv(A[j], result[j]);  the kernel `mtvB x y`
   is the mtv of the other representation *)
Definition c01_mul_via_mtv (mtvB : list R -> list R -> list R) (r p : nat) (A : list (list R)) : list (list R) :=
  c01_for r (fun j T => c01_upd T j (mtvB (c01_row A j) (c01_row T j))) (c01_mzero r p).
(* column view of a matrix as a vector / store a vector into column j *)
Definition c01_col (r : nat) (B : list (list R)) (j : nat) : list R := map (fun i => c01_get B i j) (seq 0 r).
Definition c01_setcol (r : nat) (T : list (list R)) (j : nat) (v : list R) : list (list R) :=
  c01_for r (fun i T => c01_set2 T i j (c01_at v i)) T.
(* Other * FieldMatrix: for j<cols  A.mv(column j of B, column j of result) *)
Definition c01_mul_via_mv (mvA : list R -> list R -> list R) (r n p : nat) (B : list (list R)) : list (list R) :=
  c01_for p (fun j T => c01_setcol r T j (mvA (c01_col n B j) (c01_col r T j))) (c01_mzero r p).
(* A * transpose(B) (transpose.hh): for j<rows(A)  B.mv(A[j], result[j]) *)
Definition c01_mul_by_transposed (mvB : list R -> list R -> list R) (r p : nat) (A : list (list R)) : list (list R) :=
  c01_for r (fun j T => c01_upd T j (mvB (c01_row A j) (c01_row T j))) (c01_mzero r p).

(* transposed(): AT[j][i] = A[i][j] into a fresh cols x rows matrix *)
Definition c01_transposed (A : list (list R)) : list (list R) :=
  c01_for (c01_rows A) (fun i T =>
    c01_for (c01_cols A) (fun j T => c01_set2 T j i (c01_get A i j)) T) (c01_mzero (c01_cols A) (c01_rows A)).

(* FieldMatrix friend operators into a fresh result *)
Definition c01_fm_binop (f : R -> R -> R) (r c : nat) (A B : list (list R)) : list (list R) :=
  c01_for r (fun i T => c01_for c (fun j T => c01_set2 T i j (f (c01_get A i j) (c01_get B i j))) T) (c01_mzero r c).
Definition c01_fm_plus := c01_fm_binop add.
Definition c01_fm_minus := c01_fm_binop sub.
Definition c01_fm_muls (r c : nat) (A : list (list R)) (k : R) : list (list R) :=
  c01_for r (fun i T => c01_for c (fun j T => c01_set2 T i j (mul (c01_get A i j) k)) T) (c01_mzero r c).
Definition c01_fm_smul (r c : nat) (k : R) (A : list (list R)) : list (list R) :=
  c01_for r (fun i T => c01_for c (fun j T => c01_set2 T i j (mul k (c01_get A i j))) T) (c01_mzero r c).
Definition c01_fm_divs (r c : nat) (A : list (list R)) (k : R) : option (list (list R)) :=
  c01_for r (fun i s => c01_for c (fun j s =>
     match s with
     | None => None
     | Some T => match c01_div K (c01_get A i j) k with
                 | None => None
                 | Some q => Some (c01_set2 T i j q)
                 end
     end) s) (Some (c01_mzero r c)).

(* ------------------------------------------------------------------ FieldMatrix<K,1,1> specialisation (fmatrix.hh 385-654) *)
Definition c01_fm11_mul_row (p : nat) (A B : list (list R)) : list (list R) :=      (* A(1x1) * B(1xp): result[0][j] = A[0][0]*B[0][j] *)
  c01_for p (fun j T => c01_set2 T 0 j (mul (c01_get A 0 0) (c01_get B 0 j))) (c01_mzero 1 p).
Definition c01_fm11_leftmultiplyany (l : nat) (A M : list (list R)) : list (list R) := (* C[j][0] = M[j][0]*A[0][0] *)
  c01_for l (fun j T => c01_set2 T j 0 (mul (c01_get M j 0) (c01_get A 0 0))) (c01_mzero l 1).
Definition c01_fm11_rightmultiply (A M : list (list R)) : list (list R) :=            (* _data[0] *= M[0][0] *)
  c01_set2 A 0 0 (mul (c01_get A 0 0) (c01_get M 0 0)).
Definition c01_fm11_rightmultiplyany (l : nat) (A M : list (list R)) : list (list R) := (* C[0][j] = M[0][j]*_data[0] *)
  c01_for l (fun j T => c01_set2 T 0 j (mul (c01_get M 0 j) (c01_get A 0 0))) (c01_mzero 1 l).
Definition c01_fm11_binop (f : R -> R -> R) (A B : list (list R)) : list (list R) := [[f (c01_get A 0 0) (c01_get B 0 0)]].
Definition c01_fm11_scalar_r (f : R -> R -> R) (A : list (list R)) (k : R) : list (list R) := [[f (c01_get A 0 0) k]].
Definition c01_fm11_scalar_l (f : R -> R -> R) (k : R) (A : list (list R)) : list (list R) := [[f k (c01_get A 0 0)]].
Definition c01_fm11_transposed (A : list (list R)) : list (list R) := A.

(* ------------------------------------------------------------------ DiagonalMatrix<K,n>, n >= 2 (diagonalmatrix.hh); d = diag_ *)
Definition c01_dg_mv (d x y : list R) : list R :=
  c01_for (length d) (fun i yy => c01_upd yy i (mul (c01_at d i) (c01_at x i))) y.
Definition c01_dg_mtv (d x y : list R) : list R := c01_dg_mv d x y.
Definition c01_dg_umv (d x y : list R) : list R :=
  c01_for (length d) (fun i yy => c01_upd yy i (add (c01_at yy i) (mul (c01_at d i) (c01_at x i)))) y.
Definition c01_dg_umtv (d x y : list R) : list R :=
  c01_for (length d) (fun i yy => c01_upd yy i (add (c01_at yy i) (mul (c01_at d i) (c01_at x i)))) y.
Definition c01_dg_umhv (d x y : list R) : list R :=
  c01_for (length d) (fun i yy => c01_upd yy i (add (c01_at yy i) (mul (conj (c01_at d i)) (c01_at x i)))) y.
Definition c01_dg_mmv (d x y : list R) : list R :=
  c01_for (length d) (fun i yy => c01_upd yy i (sub (c01_at yy i) (mul (c01_at d i) (c01_at x i)))) y.
Definition c01_dg_mmtv (d x y : list R) : list R :=
  c01_for (length d) (fun i yy => c01_upd yy i (sub (c01_at yy i) (mul (c01_at d i) (c01_at x i)))) y.
Definition c01_dg_mmhv (d x y : list R) : list R :=
  c01_for (length d) (fun i yy => c01_upd yy i (sub (c01_at yy i) (mul (conj (c01_at d i)) (c01_at x i)))) y.
Definition c01_dg_usmv (alpha : R) (d x y : list R) : list R :=
  c01_for (length d) (fun i yy => c01_upd yy i (add (c01_at yy i) (mul (mul alpha (c01_at d i)) (c01_at x i)))) y.
Definition c01_dg_usmtv (alpha : R) (d x y : list R) : list R :=
  c01_for (length d) (fun i yy => c01_upd yy i (add (c01_at yy i) (mul (mul alpha (c01_at d i)) (c01_at x i)))) y.
Definition c01_dg_usmhv (alpha : R) (d x y : list R) : list R :=
  c01_for (length d) (fun i yy => c01_upd yy i (add (c01_at yy i) (mul (mul alpha (conj (c01_at d i))) (c01_at x i)))) y.
(* Diagonal * Diagonal: result.diagonal(i) = A.diagonal(i)*B.diagonal(i) *)
Definition c01_dg_mul (a b : list R) : list R :=
  c01_for (length a) (fun i res => c01_upd res i (mul (c01_at a i) (c01_at b i))) (c01_vzero (length a)).
Definition c01_dg_transposed (d : list R) : list R := d.
(* the dense matrix a diagonal matrix stands for; also DenseMatrixAssigner<Dense, DiagonalMatrix>:
   dense = 0; dense[i][i] = diag[i] *)
Definition c01_dg_to_dense (d : list R) : list (list R) :=
  c01_for (length d) (fun i T => c01_set2 T i i (c01_at d i)) (c01_mzero (length d) (length d)).
(* DenseMatrixAssigner for a dense right-hand side: copy row by row *)
Definition c01_assign_dense (B : list (list R)) : list (list R) :=
  c01_for (c01_rows B) (fun i T => c01_upd T i (c01_row B i)) (c01_mzero (c01_rows B) (c01_cols B)).

(* ------------------------------------------------------------------ TransposedMatrixWrapper (transpose.hh):
   mv := wrapped mtv, mtv := wrapped mv; asDense: MT[j][i] = M[i][j] *)
Definition c01_tw_mv (mtvW : list R -> list R -> list R) (x y : list R) : list R := mtvW x y.
Definition c01_tw_mtv (mvW : list R -> list R -> list R) (x y : list R) : list R := mvW x y.
Definition c01_tw_asdense (A : list (list R)) : list (list R) := c01_transposed A.

(* ------------------------------------------------------------------ assignment from a scalar / from another vector
   (DenseVector::operator=(const value_type&), operator=(const DenseVector<W>&), the FieldVector / DynamicVector
   converting constructors; DenseMatrixAssigner for a scalar: std::fill over the rows) *)
Definition c01_fill (x : list R) (k : R) : list R :=
  c01_for (length x) (fun i v => c01_upd v i k) x.
Definition c01_vassign (x y : list R) : list R :=
  c01_for (length x) (fun i v => c01_upd v i (c01_at y i)) x.
Definition c01_mfill (A : list (list R)) (k : R) : list (list R) :=
  c01_for (c01_rows A) (fun i M => c01_upd M i (c01_fill (c01_row M i) k)) A.

(* ------------------------------------------------------------------ assignment / conversion INTO AN EXISTING OBJECT (round 6).
   T0 = what the target object holds BEFORE the assignment (any entries; for the dynamic classes any shape, even no rows).
   c01_dg_to_dense / c01_assign_dense above are the same loops started from a value-initialised target. *)
(* std::copy(begin(src), end(src), begin(dst)) *)
Definition c01_copy_into (src dst : list R) : list R :=
  c01_for (length src) (fun j v => c01_upd v j (c01_at src j)) dst.
(* Impl::DenseMatrixAssigner<Dense, RHS with row iterators>::apply (densematrix.hh 81-96):
   for (tIt = begin(dense), sIt = begin(rhs); sIt != end(rhs); ++tIt, ++sIt) std::copy of the source row *sIt over the target row *tIt *)
Definition c01_assign_dense_into (T0 B : list (list R)) : list (list R) :=
  c01_for (c01_rows B) (fun i T => c01_upd T i (c01_copy_into (c01_row B i) (c01_row T i))) T0.
(* DenseMatrixAssigner<Dense, DiagonalMatrix<field,N>>::apply (diagonalmatrix.hh 1108-1121):
   denseMatrix = field(0); for (i < N) denseMatrix[i][i] = rhs.diagonal()[i];
   zerofill: the leading `denseMatrix = field(0);` is present (token re-read from the source, Params_gen) *)
Definition c01_assign_diag_into (zerofill : bool) (T0 : list (list R)) (d : list R) : list (list R) :=
  c01_for (length d) (fun i T => c01_set2 T i i (c01_at d i)) (if zerofill then c01_mfill T0 zero else T0).
(* DynamicMatrix::operator=(T const& rhs), T not a number (dynmatrix.hh 114-121), before Base::operator=(rhs):
   _data.resize(rhs.N()); std::fill(_data.begin(), _data.end(), row_type(rhs.M(), K(0)));   (n = rhs.N(), m = rhs.M()) *)
Definition c01_dm_prepare (T0 : list (list R)) (n m : nat) : list (list R) :=
  c01_for n (fun i T => c01_upd T i (c01_vzero m)) (firstn n T0 ++ repeat [] (n - length T0)).
Definition c01_dm_assign_dense (T0 B : list (list R)) : list (list R) :=
  c01_assign_dense_into (c01_dm_prepare T0 (c01_rows B) (c01_cols B)) B.
Definition c01_dm_assign_diag (zerofill : bool) (T0 : list (list R)) (d : list R) : list (list R) :=
  c01_assign_diag_into zerofill (c01_dm_prepare T0 (length d) (length d)) d.
(* FieldMatrix::operator=(const FieldMatrix<T,ROWS,COLS>& x), other field type (fmatrix.hh 158-165):
   for (i < ROWS) _data[i] = x[i];   with FieldVector::operator=(const FieldVector<T,SIZE>&): for (j < SIZE) _data[j] = x[j] *)
Definition c01_fm_assign_rows (T0 X : list (list R)) : list (list R) :=
  c01_for (c01_rows T0) (fun i T => c01_upd T i (c01_vassign (c01_row T i) (c01_row X i))) T0.
(* defaulted copy / move assignment (FieldMatrix, FieldVector, DiagonalMatrix: std::array; DynamicMatrix, DynamicVector:
   std::vector, which takes the size of the source): the target becomes the source, whatever it held *)
Definition c01_copy_assign {T : Type} (T0 S : T) : T := S.
(* FieldVector<K,1>::operator=(const DenseVector<T>&) / (const FieldVector<T,1>&): _data = other[0] *)
Definition c01_fv1_assign (x y : list R) : list R := [c01_at y 0].
(* ScalarVectorView / ScalarMatrixView copy assignment: *dataP_ = *(other.dataP_)  on the store of scalars (a: target cell, m: source cell);
   assignment from a scalar: *dataP_ = k *)
Definition c01_cell_assign (st : list R) (a m : nat) : list R := c01_upd st a (c01_at st m).
Definition c01_cell_fill (st : list R) (a : nat) (k : R) : list R := c01_upd st a k.

(* FMatrixHelp::multTransposedMatrix: ret[i][j] = 0; for k<rows ret[i][j] += A[k][i]*A[k][j]   (ret = A^T A) *)
Definition c01_mult_transposed (r c : nat) (A T0 : list (list R)) : list (list R) :=
  c01_for c (fun i T =>
    c01_for c (fun j T =>
      c01_for r (fun k T => c01_set2 T i j (add (c01_get T i j) (mul (c01_get A k i) (c01_get A k j))))
              (c01_set2 T i j zero)) T) T0.

(* ------------------------------------------------------------------ norms that are exact on integers (densevector.hh 622-722,
   densematrix.hh 528-605): nrm is |.| (one_norm, infinity_norm on real fields), |re|+|im| (one_norm_real,
   infinity_norm_real) or |.|^2 (two_norm2); the result type is the real type, modelled by Z *)
Definition c01_norm_sum (nrm : R -> Z) (x : list R) : Z :=
  c01_for (length x) (fun i res => Z.add res (nrm (c01_at x i))) 0%Z.
Definition c01_norm_max (nrm : R -> Z) (x : list R) : Z :=
  c01_for (length x) (fun i res => Z.max (nrm (c01_at x i)) res) 0%Z.
(* frobenius_norm2: sum over the rows of two_norm2; infinity_norm(_real): max over the rows of one_norm(_real) *)
Definition c01_mnorm_sum (nrm : R -> Z) (A : list (list R)) : Z :=
  c01_for (c01_rows A) (fun i res => Z.add res (c01_norm_sum nrm (c01_row A i))) 0%Z.
Definition c01_mnorm_inf (nrm : R -> Z) (A : list (list R)) : Z :=
  c01_for (c01_rows A) (fun i res => Z.max (c01_norm_sum nrm (c01_row A i)) res) 0%Z.

(* ------------------------------------------------------------------ kernels built from the tokens of the source
   (tools/params.d/C01.py -> Params_gen.v): one descriptor per kernel says which loop bound (rows() / cols()) the outer and the
   inner loop have, which loop variable indexes the destination y[.], the entry A[.][.] and the source x[.], whether the entry
   is conjugated, multiplied by alpha, added or subtracted, and whether y[outer] is reset to 0 first. *)
Record c01_kdesc : Type := C01_KD {
  kd_outer_rows : bool; kd_inner_rows : bool; kd_tgt_outer : bool; kd_a_swapped : bool; kd_x_outer : bool;
  kd_conj : bool; kd_alpha : bool; kd_plus : bool; kd_reset : bool }.
Definition c01_kdesc_of (l : list bool) : c01_kdesc :=
  match l with
  | [a; b; c; d; e; f; g; h; i] => C01_KD a b c d e f g h i
  | _ => C01_KD true false true false false false false true false
  end.
Definition c01_kernel_step (d : c01_kdesc) (alpha : R) (A : list (list R)) (x : list R) (o n : nat) (yy : list R) : list R :=
  let t := if kd_tgt_outer d then o else n in
  let a := if kd_a_swapped d then c01_get A n o else c01_get A o n in
  let a := if kd_conj d then conj a else a in
  let a := if kd_alpha d then mul alpha a else a in
  let xv := c01_at x (if kd_x_outer d then o else n) in
  c01_upd yy t ((if kd_plus d then add else sub) (c01_at yy t) (mul a xv)).
Definition c01_kernel_gen (d : c01_kdesc) (alpha : R) (A : list (list R)) (x y : list R) : list R :=
  c01_for (if kd_outer_rows d then c01_rows A else c01_cols A) (fun o yy =>
    c01_for (if kd_inner_rows d then c01_rows A else c01_cols A) (fun n yy => c01_kernel_step d alpha A x o n yy)
            (if kd_reset d then c01_upd yy o zero else yy)) y.

(* the same kernel as a transformer of the three C++ objects: `A` and `x` are read through their references in every iteration,
   only `y` is written (the frame of the kernel is part of the statement, not of the encoding) *)
Record c01_objs : Type := C01_Objs { c01_oA : list (list R); c01_ox : list R; c01_oy : list R }.
Definition c01_kernel_objs (d : c01_kdesc) (alpha : R) (s : c01_objs) : c01_objs :=
  c01_for (if kd_outer_rows d then c01_rows (c01_oA s) else c01_cols (c01_oA s)) (fun o s =>
    c01_for (if kd_inner_rows d then c01_rows (c01_oA s) else c01_cols (c01_oA s))
            (fun n s => C01_Objs (c01_oA s) (c01_ox s) (c01_kernel_step d alpha (c01_oA s) (c01_ox s) o n (c01_oy s)))
            (if kd_reset d then C01_Objs (c01_oA s) (c01_ox s) (c01_upd (c01_oy s) o zero) else s)) s.

(* DiagonalMatrix kernels from their tokens: y[i] (=|+=|-=) [alpha *] [conj] diag[i] * x[i] *)
Definition c01_dg_kernel_gen (l : list bool) (alpha : R) (d x y : list R) : list R :=
  match l with
  | [cj; al; plus; assign] =>
    c01_for (length d) (fun i yy =>
      let a := if cj then conj (c01_at d i) else c01_at d i in
      let a := if al then mul alpha a else a in
      c01_upd yy i (if assign then mul a (c01_at x i) else (if plus then add else sub) (c01_at yy i) (mul a (c01_at x i)))) y
  | _ => y
  end.

(* ------------------------------------------------------------------ aliased in-place products  A.rightmultiply(A), A.leftmultiply(A)
   literal: the loops as written, with M the SAME object as *this: M[k][j] reads entries that were already overwritten;
   after fix C01-5 the aliased call goes through a copy of M, i.e. it is c01_rightmultiply A A / c01_leftmultiply A A *)
Definition c01_rightmultiply_self_literal (A : list (list R)) : list (list R) :=
  let C := A in
  c01_for (c01_rows A) (fun i T =>
    c01_for (c01_cols A) (fun j T =>
      c01_for (c01_cols A) (fun k T => c01_set2 T i j (add (c01_get T i j) (mul (c01_get C i k) (c01_get T k j))))
              (c01_set2 T i j zero)) T) A.
Definition c01_leftmultiply_self_literal (A : list (list R)) : list (list R) :=
  let C := A in
  c01_for (c01_rows A) (fun i T =>
    c01_for (c01_cols A) (fun j T =>
      c01_for (c01_rows A) (fun k T => c01_set2 T i j (add (c01_get T i j) (mul (c01_get T i k) (c01_get C k j))))
              (c01_set2 T i j zero)) T) A.
Definition c01_rightmultiply_self (A : list (list R)) : list (list R) := c01_rightmultiply A A.
Definition c01_leftmultiply_self (A : list (list R)) : list (list R) := c01_leftmultiply A A.

(* ------------------------------------------------------------------ FieldVector<K,1> / FieldMatrix<K,1,1> used like the scalar they hold
   (fvector.hh 423-596 free operators, conversion operators; fmatrix.hh 1x1 operator+/-(scalar)) *)
Definition c01_fv1_op (f : R -> R -> R) (a : list R) (k : R) : list R := [f (c01_at a 0) k].      (* a op k *)
Definition c01_fv1_op_l (f : R -> R -> R) (k : R) (a : list R) : list R := [f k (c01_at a 0)].    (* k op a *)
Definition c01_fv1_conv (a : list R) : R := c01_at a 0.                                             (* operator K& *)
Definition c01_fm11_conv (A : list (list R)) : R := c01_get A 0 0.                                 (* operator const K& *)

End Model.

(* ------------------------------------------------------------------ instances *)
Local Open Scope Z_scope.

(* int / double holding integers: Z; division defined when exact *)
Definition c01_Z_div (a k : Z) : option Z :=
  if Z.eqb k 0 then None else if Z.eqb (a mod k) 0 then Some (a / k) else None.
Definition c01_Z_ops : c01_ops Z :=
  C01_Ops Z 0 1 Z.add Z.mul Z.sub Z.opp (fun a => a) c01_Z_div Z.eqb.

(* complex<double> holding Gaussian integers: pairs (re, im) *)
Definition c01_G_add (a b : Z * Z) : Z * Z := (fst a + fst b, snd a + snd b).
Definition c01_G_mul (a b : Z * Z) : Z * Z := (fst a * fst b - snd a * snd b, fst a * snd b + snd a * fst b).
Definition c01_G_sub (a b : Z * Z) : Z * Z := (fst a - fst b, snd a - snd b).
Definition c01_G_opp (a : Z * Z) : Z * Z := (- fst a, - snd a).
Definition c01_G_conj (a : Z * Z) : Z * Z := (fst a, - snd a).
Definition c01_G_eqb (a b : Z * Z) : bool := Z.eqb (fst a) (fst b) && Z.eqb (snd a) (snd b).
Definition c01_G_div (a k : Z * Z) : option (Z * Z) :=
  let n := fst k * fst k + snd k * snd k in
  let t := c01_G_mul a (c01_G_conj k) in
  match c01_Z_div (fst t) n, c01_Z_div (snd t) n with
  | Some p, Some q => Some (p, q)
  | _, _ => None
  end.
Definition c01_G_ops : c01_ops (Z * Z) :=
  C01_Ops (Z * Z) (0, 0) (1, 0) c01_G_add c01_G_mul c01_G_sub c01_G_opp c01_G_conj c01_G_div c01_G_eqb.

(* Z mod p (representatives 0..p-1); division through Fermat inverse (p prime) *)
Fixpoint c01_P_pow (p : Z) (a : Z) (e : positive) : Z :=
  match e with
  | xH => a mod p
  | xO e' => let h := c01_P_pow p a e' in (h * h) mod p
  | xI e' => let h := c01_P_pow p a e' in (((h * h) mod p) * a) mod p
  end.
Definition c01_P_div (p : Z) (a k : Z) : option Z :=
  if Z.eqb (k mod p) 0 then None
  else match p - 2 with
       | Zpos e => Some ((a * c01_P_pow p k e) mod p)
       | _ => Some (a mod p)
       end.
Definition c01_P_ops (p : Z) : c01_ops Z :=
  C01_Ops Z 0 (1 mod p) (fun a b => (a + b) mod p) (fun a b => (a * b) mod p) (fun a b => (a - b) mod p)
          (fun a => (- a) mod p) (fun a => a) (c01_P_div p) (fun a b => Z.eqb (a mod p) (b mod p)).

(* absolute values used by the norms, per instance *)
Definition c01_Z_abs (a : Z) : Z := Z.abs a.
Definition c01_Z_abs2 (a : Z) : Z := a * a.
Definition c01_G_absreal (a : Z * Z) : Z := Z.abs (fst a) + Z.abs (snd a).
Definition c01_G_abs2 (a : Z * Z) : Z := fst a * fst a + snd a * snd a.
(* the comparison operators of FieldVector<K,1> with K = int, double: > >= < <= *)
Definition c01_Z_cmp4 (a b : Z) : list bool := [Z.gtb a b; Z.geb a b; Z.ltb a b; Z.leb a b].
