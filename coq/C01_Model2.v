(* C01 — executable model, part 2 (definitions only): in-place vector operations as transformers of the two C++ objects,
   aliased calls (x += x), the view operator+ of finding F-C01-4, resize, the sparsity pattern of DiagonalMatrix. *)
From Coq Require Import List ZArith Bool Arith.
From DuneV Require Import C01_Model.
Import ListNotations.

Section Model2.
Context {R : Type} (K : c01_ops R).

(* x op= y  (DenseVector += -= axpy...): `for i<size() x[i] = f(x[i], y[i])`, y read through its reference in every iteration *)
Record c01_vobjs : Type := C01_VObjs { c01_vx : list R; c01_vy : list R }.
Definition c01_vec_inplace_objs (f : R -> R -> R) (s : c01_vobjs) : c01_vobjs :=
  c01_for (length (c01_vx s)) (fun i s => C01_VObjs (c01_upd (c01_vx s) i (f (c01_at K (c01_vx s) i) (c01_at K (c01_vy s) i))) (c01_vy s)) s.
Definition c01_vec_inplace (f : R -> R -> R) (x y : list R) : list R :=
  c01_for (length x) (fun i v => c01_upd v i (f (c01_at K v i) (c01_at K y i))) x.
(* the same call with both arguments the same object: x op= x *)
Definition c01_vec_inplace_self (f : R -> R -> R) (x : list R) : list R :=
  c01_for (length x) (fun i v => c01_upd v i (f (c01_at K v i) (c01_at K v i))) x.

(* ScalarVectorView x (+|-) y: `derived_type z = asImp(); z op= y; return z` where z is ANOTHER VIEW OF THE SAME SCALAR:
   (value of the result, value of the viewed scalar x afterwards) *)
Definition c01_view_binop (f : R -> R -> R) (x y : R) : R * R := let z := f x y in (z, z).

(* ------------------------------------------------------------------ scalar views as reference cells
   A ScalarMatrixView / ScalarVectorView is the ADDRESS of a scalar in a store `st`; copying a view copies the address (the copy is an
   alias), AutonomousValue<View> is a FieldMatrix<K,1,1> / FieldVector<K,1> holding the VALUE.  Owning 1x1 objects are cells of their own.
   a = cell of the receiver, m = cell of the factor (m = a: the factor is a view of the receiver's scalar). *)
Local Notation zero := (c01_O K).
Local Notation add := (c01_add K).
Local Notation mul := (c01_mul K).
(* DenseMatrix::leftmultiply / rightmultiply as written up to commit de29db7: C = copy of *this; this[0][0] = 0; this[0][0] += M[0][0]*C[0][0].
   copy_alias = true: the copy C is declared with the view type itself (`const MAT C(asImp())`), i.e. an alias of the receiver's cell;
   copy_alias = false: AutonomousValue<MAT>, the value *)
Definition c01_cell_leftmultiply_literal (copy_alias : bool) (st : list R) (a m : nat) : list R :=
  let c := c01_at K st a in
  let st1 := c01_upd st a zero in
  let cv := if copy_alias then c01_at K st1 a else c in
  c01_upd st1 a (add (c01_at K st1 a) (mul (c01_at K st1 m) cv)).
Definition c01_cell_rightmultiply_literal (copy_alias : bool) (st : list R) (a m : nat) : list R :=
  let c := c01_at K st a in
  let st1 := c01_upd st a zero in
  let cv := if copy_alias then c01_at K st1 a else c in
  c01_upd st1 a (add (c01_at K st1 a) (mul cv (c01_at K st1 m))).
(* after fix C01-6: accumulate into the autonomous copy, assign it back: C[0][0] = 0; C[0][0] += M[0][0]*this[0][0]; *this = C *)
Definition c01_cell_leftmultiply (st : list R) (a m : nat) : list R :=
  c01_upd st a (add zero (mul (c01_at K st m) (c01_at K st a))).
Definition c01_cell_rightmultiply (st : list R) (a m : nat) : list R :=
  c01_upd st a (add zero (mul (c01_at K st a) (c01_at K st m))).
(* a op= b on cells (+=, -=, axpy: f combines the receiver's value with the argument's), elementwise: aliasing is harmless *)
Definition c01_cell_inplace (f : R -> R -> R) (st : list R) (a m : nat) : list R :=
  c01_upd st a (f (c01_at K st a) (c01_at K st m)).
(* unary minus of a view as written: `result = asImp()` is an alias, result[0] = -this[0]: (returned value, store afterwards) *)
Definition c01_cell_neg_literal (st : list R) (a : nat) : R * list R :=
  let st1 := c01_upd st a (c01_opp K (c01_at K st a)) in (c01_at K st1 a, st1).
(* after fix C01-7 the results of + - and unary - are autonomous values: the store is not touched *)
Definition c01_cell_neg (st : list R) (a : nat) : R * list R := (c01_opp K (c01_at K st a), st).
Definition c01_cell_binop (f : R -> R -> R) (st : list R) (a m : nat) : R * list R := (f (c01_at K st a) (c01_at K st m), st).

(* ------------------------------------------------------------------ the SCALAR argument is the entry i0 of the receiver, passed by
   const reference (x *= x[0], x.axpy(x[0], y), ...): g i a k = new value of component i from its old value a and the scalar k.
   literal: the loops as written before fix C01-8 re-read the scalar through the reference in every iteration;
   c01_vec_elem: the scalar is read once, before the loop (by-value copy) *)
Definition c01_vec_elem_literal (g : nat -> R -> R -> R) (x : list R) (i0 : nat) : list R :=
  c01_for (length x) (fun i v => c01_upd v i (g i (c01_at K v i) (c01_at K v i0))) x.
Definition c01_vec_elem (g : nat -> R -> R -> R) (x : list R) (i0 : nat) : list R :=
  let k := c01_at K x i0 in c01_for (length x) (fun i v => c01_upd v i (g i (c01_at K v i) k)) x.

(* DynamicVector::resize(n, k) (std::vector semantics), DynamicMatrix::resize(r, c, v) (all entries lost) *)
Definition c01_resize (x : list R) (n : nat) (k : R) : list R := firstn n x ++ repeat k (n - length x).
Definition c01_mresize (r c : nat) (v : R) : list (list R) := repeat (repeat v c) r.

(* DiagonalMatrix::exists(i,j) *)
Definition c01_dg_exists (i j : nat) : bool := Nat.eqb i j.
End Model2.
