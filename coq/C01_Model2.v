(* C01 — executable model, part 2 (definitions only): in-place vector operations as transformers of the two C++ objects,
   aliased calls (x += x), the view operator+ of finding F-C01-4, resize, the sparsity pattern of DiagonalMatrix. *)
From Coq Require Import List ZArith Bool Arith.
From DuneV Require Import C01_Model.
Import ListNotations.

Section Model2.
Context {R : Type} (K : c01_ops R).

(* x op= y  (DenseVector += -= axpy...): `for i<size() x[i] = f(x[i], y[i])`, y read through its reference in every iteration *)
Record c01_vobjs : Type := C01_VObjs { c01_vx : list R; c01_vy : list R }.
Definition c01_vec_inplace_objs (f : R -> R -> R) (s : c01_vobjs) : c01_vobjs :=
  c01_for (length (c01_vx s)) (fun i s => C01_VObjs (c01_upd (c01_vx s) i (f (c01_at K (c01_vx s) i) (c01_at K (c01_vy s) i))) (c01_vy s)) s.
Definition c01_vec_inplace (f : R -> R -> R) (x y : list R) : list R :=
  c01_for (length x) (fun i v => c01_upd v i (f (c01_at K v i) (c01_at K y i))) x.
(* the same call with both arguments the same object: x op= x *)
Definition c01_vec_inplace_self (f : R -> R -> R) (x : list R) : list R :=
  c01_for (length x) (fun i v => c01_upd v i (f (c01_at K v i) (c01_at K v i))) x.

(* ScalarVectorView x (+|-) y: `derived_type z = asImp(); z op= y; return z` where z is ANOTHER VIEW OF THE SAME SCALAR:
   (value of the result, value of the viewed scalar x afterwards) *)
Definition c01_view_binop (f : R -> R -> R) (x y : R) : R * R := let z := f x y in (z, z).

(* DynamicVector::resize(n, k) (std::vector semantics), DynamicMatrix::resize(r, c, v) (all entries lost) *)
Definition c01_resize (x : list R) (n : nat) (k : R) : list R := firstn n x ++ repeat k (n - length x).
Definition c01_mresize (r c : nat) (v : R) : list (list R) := repeat (repeat v c) r.

(* DiagonalMatrix::exists(i,j) *)
Definition c01_dg_exists (i j : nat) : bool := Nat.eqb i j.
End Model2.
