(* C01 — proofs, part 1: loop algebra and the matrix-vector kernels.
   The kernels of C01_Model.v (in-place accumulation loops in the loop order of the C++ code) are shown
   equal to the algebraic definitions of C01_Spec.v (structural sums) for ALL shapes, entries and scalars,
   over any carrier whose operations satisfy the commutative-ring laws (ring_theory, Leibniz equality).
   No law about conj is needed: the Hermitian kernels conjugate entrywise, exactly as A^H is defined. *)
From Coq Require Import List ZArith Bool Arith Lia Ring.
From DuneV Require Import C01_Model C01_Spec.
Import ListNotations.

(* ------------------------------------------------------------------ lists, updates, loops (no algebra) *)
Lemma c01_upd_length : forall (T : Type) (l : list T) i v, length (c01_upd l i v) = length l.
Proof. induction l; destruct i; simpl; intros; auto. Qed.

Lemma c01_nth_upd_eq : forall (T : Type) (l : list T) i v d, i < length l -> nth i (c01_upd l i v) d = v.
Proof. induction l; destruct i; simpl; intros; try lia; auto. apply IHl; lia. Qed.

Lemma c01_nth_upd_neq : forall (T : Type) (l : list T) i j v d, i <> j -> nth j (c01_upd l i v) d = nth j l d.
Proof. induction l; destruct i; destruct j; simpl; intros; try lia; auto. Qed.

Lemma c01_nth_upd : forall (T : Type) (l : list T) i j v d, i < length l ->
  nth j (c01_upd l i v) d = if Nat.eqb i j then v else nth j l d.
Proof.
  intros. destruct (Nat.eqb_spec i j).
  - subst. apply c01_nth_upd_eq; auto.
  - apply c01_nth_upd_neq; auto.
Qed.

Lemma c01_upd_same : forall (T : Type) (l : list T) i d, c01_upd l i (nth i l d) = l.
Proof. induction l; destruct i; simpl; intros; auto. f_equal. apply IHl. Qed.

Lemma c01_upd_upd : forall (T : Type) (l : list T) i a b, c01_upd (c01_upd l i a) i b = c01_upd l i b.
Proof. induction l; destruct i; simpl; intros; auto. f_equal. apply IHl. Qed.

Lemma c01_for_0 : forall (S : Type) (body : nat -> S -> S) s, c01_for 0 body s = s.
Proof. reflexivity. Qed.

Lemma c01_for_S : forall (S : Type) n (body : nat -> S -> S) s, c01_for (Datatypes.S n) body s = body n (c01_for n body s).
Proof. intros. unfold c01_for. rewrite seq_S, fold_left_app. reflexivity. Qed.

(* loops whose bodies agree on every state satisfying an invariant *)
Lemma c01_for_ext_inv : forall (S : Type) (Inv : S -> Prop) n (b1 b2 : nat -> S -> S) s,
  Inv s -> (forall i t, i < n -> Inv t -> b1 i t = b2 i t /\ Inv (b1 i t)) ->
  c01_for n b1 s = c01_for n b2 s /\ Inv (c01_for n b1 s).
Proof.
  induction n; intros.
  - rewrite !c01_for_0. auto.
  - rewrite !c01_for_S. destruct (IHn b1 b2 s H) as [E I]. { intros. apply H0; auto. }
    destruct (H0 n (c01_for n b1 s)) as [E2 I2]; auto. rewrite <- E. auto.
Qed.

Lemma c01_for_ext : forall (S : Type) n (b1 b2 : nat -> S -> S) s,
  (forall i t, i < n -> b1 i t = b2 i t) -> c01_for n b1 s = c01_for n b2 s.
Proof. intros. apply (c01_for_ext_inv S (fun _ => True)); auto. Qed.

(* for i<n: y[i] = F i y[i]  — a pointwise map of the first n components *)
Lemma c01_for_upd_pointwise : forall (T : Type) (d : T) (F : nat -> T -> T) n (y : list T), n <= length y ->
  length (c01_for n (fun i yy => c01_upd yy i (F i (nth i yy d))) y) = length y /\
  forall k, nth k (c01_for n (fun i yy => c01_upd yy i (F i (nth i yy d))) y) d = if k <? n then F k (nth k y d) else nth k y d.
Proof.
  induction n; intros.
  - rewrite c01_for_0. split; auto.
  - rewrite c01_for_S. destruct (IHn y) as [L P]; [lia|].
    split. { rewrite c01_upd_length. auto. }
    intro k. rewrite c01_nth_upd by lia. rewrite P.
    destruct (Nat.eqb_spec n k).
    + subst. rewrite Nat.ltb_irrefl. destruct (Nat.ltb_spec k (S k)); [auto|lia].
    + rewrite P. destruct (Nat.ltb_spec k n); destruct (Nat.ltb_spec k (S n)); try lia; auto.
Qed.

(* the inner loop of the row-pattern kernels: for j<c: y[i] = step j y[i] *)
Lemma c01_inner_row : forall (T : Type) (d : T) (step : nat -> T -> T) c i (y : list T), i < length y ->
  c01_for c (fun j yy => c01_upd yy i (step j (nth i yy d))) y
  = c01_upd y i (fold_left (fun v j => step j v) (seq 0 c) (nth i y d)).
Proof.
  induction c; intros.
  - rewrite c01_for_0. simpl. symmetry. apply c01_upd_same.
  - rewrite c01_for_S, IHc by auto. rewrite seq_S, fold_left_app. simpl.
    rewrite c01_nth_upd_eq by auto. apply c01_upd_upd.
Qed.

(* row pattern:  for i<r { y = pre i y; for j<c y[i] = step i j y[i] }   where pre only touches component i *)
Definition c01_rowloop {T : Type} (d : T) (pre : nat -> list T -> list T) (step : nat -> nat -> T -> T) (r c : nat) (y : list T) : list T :=
  c01_for r (fun i yy => c01_for c (fun j yy => c01_upd yy i (step i j (nth i yy d))) (pre i yy)) y.

Lemma c01_rowloop_spec : forall (T : Type) (d : T) pre (P : nat -> T -> T) step r c (y : list T),
  (forall i yy, i < length yy -> length (pre i yy) = length yy /\ forall k, nth k (pre i yy) d = if Nat.eqb i k then P i (nth i yy d) else nth k yy d) ->
  r <= length y ->
  length (c01_rowloop d pre step r c y) = length y /\
  forall k, nth k (c01_rowloop d pre step r c y) d =
            if k <? r then fold_left (fun v j => step k j v) (seq 0 c) (P k (nth k y d)) else nth k y d.
Proof.
  unfold c01_rowloop. induction r; intros.
  - rewrite c01_for_0. auto.
  - rewrite c01_for_S. destruct (IHr c y H) as [L Q]; [lia|].
    set (yy := c01_for r _ y) in *.
    destruct (H r yy) as [Lp Np]; [lia|].
    rewrite c01_inner_row by lia.
    split. { rewrite c01_upd_length. lia. }
    intro k. rewrite c01_nth_upd by lia. rewrite !Np, Nat.eqb_refl.
    destruct (Nat.eqb_spec r k).
    + subst. rewrite Q, Nat.ltb_irrefl. destruct (Nat.ltb_spec k (S k)); [auto|lia].
    + rewrite Q. destruct (Nat.ltb_spec k r); destruct (Nat.ltb_spec k (S r)); try lia; auto.
Qed.

(* column pattern:  for i<r for j<c y[j] = step i j y[j] *)
Definition c01_colloop {T : Type} (d : T) (step : nat -> nat -> T -> T) (r c : nat) (y : list T) : list T :=
  c01_for r (fun i yy => c01_for c (fun j yy => c01_upd yy j (step i j (nth j yy d))) yy) y.

Lemma c01_colloop_spec : forall (T : Type) (d : T) step r c (y : list T), c <= length y ->
  length (c01_colloop d step r c y) = length y /\
  forall k, nth k (c01_colloop d step r c y) d =
            if k <? c then fold_left (fun v i => step i k v) (seq 0 r) (nth k y d) else nth k y d.
Proof.
  unfold c01_colloop. induction r; intros.
  - rewrite c01_for_0. simpl. split; auto. intro k. destruct (k <? c); auto.
  - rewrite c01_for_S. destruct (IHr c y H) as [L Q].
    set (yy := c01_for r _ y) in *.
    destruct (c01_for_upd_pointwise T d (step r) c yy) as [L2 Q2]; [lia|].
    split; [lia|]. intro k. rewrite Q2, Q. rewrite seq_S, fold_left_app. simpl.
    destruct (k <? c); auto.
Qed.

(* ------------------------------------------------------------------ map2, shapes *)
Lemma c01s_map2_length : forall (A B C : Type) (f : A -> B -> C) x y, length (c01s_map2 f x y) = Nat.min (length x) (length y).
Proof. induction x; destruct y; simpl; auto. Qed.

Lemma c01s_map2_nth : forall (A B C : Type) (f : A -> B -> C) x y k da db dc,
  k < length x -> k < length y -> nth k (c01s_map2 f x y) dc = f (nth k x da) (nth k y db).
Proof. induction x; destruct y; destruct k; simpl; intros; try lia; auto. apply IHx; lia. Qed.

Lemma c01_nth_map_seq : forall (T : Type) (f : nat -> T) n k d, k < n -> nth k (map f (seq 0 n)) d = f k.
Proof.
  intros. rewrite nth_indep with (d' := f 0) by (rewrite map_length, seq_length; auto).
  rewrite map_nth, seq_nth by auto. reflexivity.
Qed.

Lemma c01_nth_map_default : forall (A B : Type) (f : A -> B) l i da db, f da = db -> nth i (map f l) db = f (nth i l da).
Proof. intros. subst. apply map_nth. Qed.

Section Algebra.
Context {R : Type} (K : c01_ops R).
Local Notation zero := (c01_O K).
Local Notation one := (c01_I K).
Local Notation add := (c01_add K).
Local Notation mul := (c01_mul K).
Local Notation sub := (c01_sub K).
Local Notation opp := (c01_opp K).
Local Notation conj := (c01_conj K).
Hypothesis Rth : ring_theory zero one add mul sub opp (@eq R).
Add Ring C01Ring : Rth.

(* sum over an index list *)
Definition c01_sumf (f : nat -> R) (l : list nat) : R := c01s_sum K (map f l).

Lemma c01_sumf_cons : forall f a l, c01_sumf f (a :: l) = add (f a) (c01_sumf f l).
Proof. reflexivity. Qed.

Lemma c01_sumf_ext : forall f g l, (forall j, In j l -> f j = g j) -> c01_sumf f l = c01_sumf g l.
Proof. unfold c01_sumf. intros. f_equal. apply map_ext_in. auto. Qed.

Lemma c01_sumf_shift : forall f n, c01_sumf f (seq 1 n) = c01_sumf (fun j => f (S j)) (seq 0 n).
Proof. intros. unfold c01_sumf. rewrite <- seq_shift, map_map. reflexivity. Qed.

Lemma c01_fold_add : forall f l a, fold_left (fun v j => add v (f j)) l a = add a (c01_sumf f l).
Proof.
  induction l; intros; simpl.
  - unfold c01_sumf; simpl. ring.
  - rewrite IHl, c01_sumf_cons. ring.
Qed.

Lemma c01_fold_sub : forall f l a, fold_left (fun v j => sub v (f j)) l a = sub a (c01_sumf f l).
Proof.
  induction l; intros; simpl.
  - unfold c01_sumf; simpl. ring.
  - rewrite IHl, c01_sumf_cons. ring.
Qed.

Lemma c01_sumf_scale : forall a f l, c01_sumf (fun j => mul a (f j)) l = mul a (c01_sumf f l).
Proof.
  induction l; simpl.
  - unfold c01_sumf; simpl. ring.
  - rewrite !c01_sumf_cons, IHl. ring.
Qed.

Lemma c01_sumf_zero : forall l, c01_sumf (fun _ => zero) l = zero.
Proof. induction l; [reflexivity|]. rewrite c01_sumf_cons, IHl. ring. Qed.

(* sum_i sum_j = sum_j sum_i *)
Lemma c01_sumf_add : forall f g l, c01_sumf (fun j => add (f j) (g j)) l = add (c01_sumf f l) (c01_sumf g l).
Proof.
  induction l.
  - unfold c01_sumf; simpl. ring.
  - rewrite !c01_sumf_cons, IHl. ring.
Qed.

Lemma c01_sumf_swap : forall (f : nat -> nat -> R) l1 l2,
  c01_sumf (fun i => c01_sumf (fun j => f i j) l2) l1 = c01_sumf (fun j => c01_sumf (fun i => f i j) l1) l2.
Proof.
  induction l1; intros.
  - unfold c01_sumf at 1; simpl. symmetry. etransitivity; [|apply c01_sumf_zero with (l := l2)].
    apply c01_sumf_ext. intros. reflexivity.
  - rewrite c01_sumf_cons, IHl1. rewrite <- c01_sumf_add. apply c01_sumf_ext. intros. rewrite c01_sumf_cons. reflexivity.
Qed.

(* dot products as indexed sums *)
Lemma c01_dot_sumf : forall n (u x : list R), length u = n -> length x = n ->
  c01s_dot K u x = c01_sumf (fun j => mul (nth j u zero) (nth j x zero)) (seq 0 n).
Proof.
  induction n; intros.
  - destruct u; destruct x; simpl in *; try lia. reflexivity.
  - destruct u as [|a u]; destruct x as [|b x]; simpl in *; try lia.
    unfold c01s_dot. simpl. change (seq 1 n) with (seq 1 n).
    rewrite c01_sumf_cons. f_equal. rewrite c01_sumf_shift. simpl. apply IHn; lia.
Qed.

Lemma c01_dot_nil_l : forall x, c01s_dot K [] x = zero.
Proof. reflexivity. Qed.

(* shapes and entries *)
Lemma c01_wf_row : forall r c (A : list (list R)) i, c01s_wf r c A -> i < r -> length (c01_row A i) = c.
Proof.
  unfold c01s_wf, c01_row. intros r c A i [L F] Hi. rewrite Forall_forall in F. apply F. apply nth_In. lia.
Qed.

Lemma c01_wf_cols : forall r c (A : list (list R)), c01s_wf r c A -> 0 < r -> c01_cols A = c.
Proof.
  unfold c01s_wf, c01_cols. intros r c A [L F] Hr. destruct A; simpl in *; [lia|]. inversion F; auto.
Qed.

Lemma c01_nth_mat_vec : forall (A : list (list R)) x k, nth k (c01s_mat_vec K A x) zero = c01s_dot K (c01_row A k) x.
Proof.
  intros. unfold c01s_mat_vec, c01_row.
  change zero with ((fun row => c01s_dot K row x) []) at 1. apply map_nth.
Qed.

Lemma c01_mat_vec_length : forall (A : list (list R)) x, length (c01s_mat_vec K A x) = length A.
Proof. intros. apply map_length. Qed.

Lemma c01_transpose_length : forall c (A : list (list R)), length (c01s_transpose K c A) = c.
Proof. intros. unfold c01s_transpose. rewrite map_length, seq_length. reflexivity. Qed.

Lemma c01_transpose_row : forall c (A : list (list R)) k, k < c ->
  c01_row (c01s_transpose K c A) k = map (fun row => nth k row zero) A.
Proof.
  intros. unfold c01_row, c01s_transpose. apply c01_nth_map_seq. auto.
Qed.

Lemma c01_transpose_wf : forall r c (A : list (list R)), length A = r -> c01s_wf c r (c01s_transpose K c A).
Proof.
  intros. split. apply c01_transpose_length.
  unfold c01s_transpose. rewrite Forall_forall. intros row Hin. apply in_map_iff in Hin. destruct Hin as [j [E _]].
  subst. rewrite map_length. auto.
Qed.

Lemma c01_transpose_get : forall c (A : list (list R)) k i, k < c -> c01_get K (c01s_transpose K c A) k i = c01_get K A i k.
Proof.
  intros. unfold c01_get. fold (c01_row (c01s_transpose K c A) k). rewrite c01_transpose_row by auto.
  unfold c01_at, c01_row.
  apply (c01_nth_map_default _ _ (fun row => nth k row zero)). destruct k; reflexivity.
Qed.

Lemma c01_conjm_wf : forall r c (A : list (list R)), c01s_wf r c A -> c01s_wf r c (c01s_conjm K A).
Proof.
  unfold c01s_wf, c01s_conjm. intros r c A [L F]. split. rewrite map_length; auto.
  rewrite Forall_forall in *. intros row Hin. apply in_map_iff in Hin. destruct Hin as [u [E Hu]]. subst.
  rewrite map_length. auto.
Qed.

Lemma c01_conjm_get : forall r c (A : list (list R)) i j, c01s_wf r c A -> i < r -> j < c ->
  c01_get K (c01s_conjm K A) i j = conj (c01_get K A i j).
Proof.
  intros. unfold c01_get, c01_at, c01_row, c01s_conjm.
  assert (length (nth i A []) = c) by (apply (c01_wf_row r c A i); auto).
  destruct H as [L F].
  rewrite nth_indep with (d' := map conj []) by (rewrite map_length; lia). rewrite map_nth.
  rewrite nth_indep with (d' := conj zero) by (rewrite map_length; lia). rewrite map_nth. reflexivity.
Qed.

(* (M x)_k as an indexed sum of entries *)
Lemma c01_mat_vec_entry : forall r c (A : list (list R)) x k, c01s_wf r c A -> length x = c -> k < r ->
  nth k (c01s_mat_vec K A x) zero = c01_sumf (fun j => mul (c01_get K A k j) (c01_at K x j)) (seq 0 c).
Proof.
  intros. rewrite c01_nth_mat_vec. rewrite (c01_dot_sumf c); auto. apply (c01_wf_row r c); auto.
Qed.

(* the three modes: entry (k, i) of op m A for an r x c matrix A *)
Definition c01_mode_entry (m : c01s_mode) (A : list (list R)) (k i : nat) : R :=
  match m with
  | C01_N => c01_get K A k i
  | C01_T => c01_get K A i k
  | C01_H => conj (c01_get K A i k)
  end.

Lemma c01_op_entry : forall m r c (A : list (list R)) x k, c01s_wf r c A ->
  length x = (match m with C01_N => c | _ => r end) -> k < (match m with C01_N => r | _ => c end) ->
  nth k (c01s_mat_vec K (c01s_op K m c A) x) zero
  = c01_sumf (fun i => mul (c01_mode_entry m A k i) (c01_at K x i)) (seq 0 (match m with C01_N => c | _ => r end)).
Proof.
  intros. destruct m; simpl in *.
  - apply (c01_mat_vec_entry r c); auto.
  - rewrite (c01_mat_vec_entry c r); auto. 2: apply c01_transpose_wf; destruct H; auto.
    apply c01_sumf_ext. intros. rewrite c01_transpose_get by auto. reflexivity.
  - assert (W : c01s_wf c r (c01s_transpose K c A)) by (apply c01_transpose_wf; destruct H; auto).
    unfold c01s_herm. rewrite (c01_mat_vec_entry c r); auto. 2: apply c01_conjm_wf; auto.
    apply c01_sumf_ext. intros j Hj. apply in_seq in Hj.
    rewrite (c01_conjm_get c r) by (auto; lia). rewrite c01_transpose_get by auto. reflexivity.
Qed.

Lemma c01_op_length : forall m r c (A : list (list R)) x, c01s_wf r c A ->
  length (c01s_mat_vec K (c01s_op K m c A) x) = (match m with C01_N => r | _ => c end).
Proof.
  intros. rewrite c01_mat_vec_length. destruct m; simpl.
  - destruct H; auto.
  - apply c01_transpose_length.
  - unfold c01s_herm, c01s_conjm. rewrite map_length. apply c01_transpose_length.
Qed.

(* list extensionality through nth *)
Lemma c01_list_ext : forall (u v : list R), length u = length v -> (forall k, k < length u -> nth k u zero = nth k v zero) -> u = v.
Proof. intros. apply nth_ext with (d := zero) (d' := zero); auto. Qed.

(* ------------------------------------------------------------------ the eleven dense kernels *)

(* pre-steps of the row loops *)
Lemma c01_pre_id : forall i (yy : list R), i < length yy ->
  length ((fun (_ : nat) (l : list R) => l) i yy) = length yy /\
  forall k, nth k ((fun (_ : nat) (l : list R) => l) i yy) zero = if Nat.eqb i k then (fun (_ : nat) v => v) i (nth i yy zero) else nth k yy zero.
Proof. intros. split; auto. intro k. destruct (Nat.eqb_spec i k); subst; auto. Qed.

Lemma c01_pre_reset : forall i (yy : list R), i < length yy ->
  length ((fun i (l : list R) => c01_upd l i zero) i yy) = length yy /\
  forall k, nth k ((fun i (l : list R) => c01_upd l i zero) i yy) zero = if Nat.eqb i k then (fun (_ : nat) (_ : R) => zero) i (nth i yy zero) else nth k yy zero.
Proof. intros. split. apply c01_upd_length. intro k. apply c01_nth_upd. auto. Qed.

Section Kernels.
Variables (r c : nat) (A : list (list R)).
Hypothesis WF : c01s_wf r c A.
Hypothesis Rpos : 0 < r.

Let rowsA : c01_rows A = r. Proof. destruct WF; auto. Qed.
Let colsA : c01_cols A = c. Proof. apply (c01_wf_cols r c); auto. Qed.

(* y = A x *)
Lemma P_mv : forall x y, length x = c -> length y = r -> c01_mv K A x y = c01s_assign K C01_N c A x.
Proof.
  intros. unfold c01_mv. rewrite rowsA, colsA.
  change (c01_for r _ y) with (c01_rowloop zero (fun i l => c01_upd l i zero) (fun i j v => add v (mul (c01_get K A i j) (c01_at K x j))) r c y).
  destruct (c01_rowloop_spec R zero (fun i l => c01_upd l i zero) (fun _ _ => zero) (fun i j v => add v (mul (c01_get K A i j) (c01_at K x j))) r c y) as [L P];
    [apply c01_pre_reset | lia |].
  apply c01_list_ext.
  - rewrite L. unfold c01s_assign. rewrite (c01_op_length C01_N r c); auto.
  - intros k Hk. rewrite L in Hk. rewrite P. destruct (Nat.ltb_spec k r); [|lia].
    unfold c01s_assign. rewrite (c01_op_entry C01_N r c); auto. simpl.
    rewrite c01_fold_add. ring.
Qed.

(* y = A^T x *)
Lemma P_mtv : forall x y, length x = r -> length y = c -> c01_mtv K A x y = c01s_assign K C01_T c A x.
Proof.
  intros. unfold c01_mtv. rewrite rowsA, colsA.
  change (c01_for c _ y) with (c01_rowloop zero (fun i l => c01_upd l i zero) (fun i j v => add v (mul (c01_get K A j i) (c01_at K x j))) c r y).
  destruct (c01_rowloop_spec R zero (fun i l => c01_upd l i zero) (fun _ _ => zero) (fun i j v => add v (mul (c01_get K A j i) (c01_at K x j))) c r y) as [L P];
    [apply c01_pre_reset | lia |].
  apply c01_list_ext.
  - rewrite L. unfold c01s_assign. rewrite (c01_op_length C01_T r c); auto.
  - intros k Hk. rewrite L in Hk. rewrite P. destruct (Nat.ltb_spec k c); [|lia].
    unfold c01s_assign. rewrite (c01_op_entry C01_T r c); auto. simpl.
    rewrite c01_fold_add. ring.
Qed.

(* generic row-pattern update kernels: y (+|-)= (alpha) A x *)
Lemma c01_row_kernel : forall (step : nat -> nat -> R -> R) (comb : R -> R -> R) x y,
  length x = c -> length y = r ->
  (forall k v, k < r -> fold_left (fun v j => step k j v) (seq 0 c) v
                       = comb v (c01_sumf (fun j => mul (c01_get K A k j) (c01_at K x j)) (seq 0 c))) ->
  c01_rowloop zero (fun _ l => l) step r c y = c01s_map2 comb y (c01s_mat_vec K (c01s_op K C01_N c A) x).
Proof.
  intros step comb x y Hx Hy Hstep.
  destruct (c01_rowloop_spec R zero (fun _ l => l) (fun _ v => v) step r c y) as [L P]; [apply c01_pre_id | lia |].
  assert (LM : length (c01s_mat_vec K (c01s_op K C01_N c A) x) = r) by (rewrite (c01_op_length C01_N r c); auto).
  apply c01_list_ext.
  - rewrite L, c01s_map2_length, LM. lia.
  - intros k Hk. rewrite L in Hk. rewrite P. destruct (Nat.ltb_spec k r); [|lia].
    rewrite (c01s_map2_nth _ _ _ comb y _ k zero zero zero) by lia.
    rewrite (c01_op_entry C01_N r c); auto. simpl. apply Hstep. auto.
Qed.

(* generic column-pattern update kernels: y (+|-)= (alpha) A^T x  /  A^H x *)
Lemma c01_col_kernel : forall (m : c01s_mode) (step : nat -> nat -> R -> R) (comb : R -> R -> R) x y,
  m <> C01_N -> length x = r -> length y = c ->
  (forall k v, k < c -> fold_left (fun v i => step i k v) (seq 0 r) v
                       = comb v (c01_sumf (fun i => mul (c01_mode_entry m A k i) (c01_at K x i)) (seq 0 r))) ->
  c01_colloop zero step r c y = c01s_map2 comb y (c01s_mat_vec K (c01s_op K m c A) x).
Proof.
  intros m step comb x y Hm Hx Hy Hstep.
  destruct (c01_colloop_spec R zero step r c y) as [L P]; [lia|].
  assert (LM : length (c01s_mat_vec K (c01s_op K m c A) x) = c) by (rewrite (c01_op_length m r c); auto; destruct m; tauto).
  apply c01_list_ext.
  - rewrite L, c01s_map2_length, LM. lia.
  - intros k Hk. rewrite L in Hk. rewrite P. destruct (Nat.ltb_spec k c); [|lia].
    rewrite (c01s_map2_nth _ _ _ comb y _ k zero zero zero) by lia.
    rewrite (c01_op_entry m r c); auto; try (destruct m; tauto).
    destruct m; try tauto; apply Hstep; auto.
Qed.

Lemma P_umv : forall x y, length x = c -> length y = r -> c01_umv K A x y = c01s_plus K C01_N c A x y.
Proof.
  intros. unfold c01_umv, c01s_plus, c01s_vadd. rewrite rowsA, colsA.
  apply (c01_row_kernel (fun i j v => add v (mul (c01_get K A i j) (c01_at K x j))) add); auto.
  intros. apply c01_fold_add.
Qed.

Lemma P_mmv : forall x y, length x = c -> length y = r -> c01_mmv K A x y = c01s_minus K C01_N c A x y.
Proof.
  intros. unfold c01_mmv, c01s_minus, c01s_vsub. rewrite rowsA, colsA.
  apply (c01_row_kernel (fun i j v => sub v (mul (c01_get K A i j) (c01_at K x j))) sub); auto.
  intros. apply c01_fold_sub.
Qed.

Lemma P_usmv : forall alpha x y, length x = c -> length y = r -> c01_usmv K alpha A x y = c01s_plus_scaled K alpha C01_N c A x y.
Proof.
  intros. unfold c01_usmv, c01s_plus_scaled. rewrite rowsA, colsA.
  assert (LM : length (c01s_mat_vec K (c01s_op K C01_N c A) x) = r) by (rewrite (c01_op_length C01_N r c); auto).
  transitivity (c01s_map2 (fun v s => add v (mul alpha s)) y (c01s_mat_vec K (c01s_op K C01_N c A) x)).
  - apply (c01_row_kernel (fun i j v => add v (mul (mul alpha (c01_get K A i j)) (c01_at K x j))) (fun v s => add v (mul alpha s))); auto.
    intros. rewrite c01_fold_add. rewrite <- c01_sumf_scale. f_equal. apply c01_sumf_ext. intros. ring.
  - unfold c01s_vadd, c01s_vscale. generalize (c01s_mat_vec K (c01s_op K C01_N c A) x). clear.
    induction y; destruct l; simpl; auto. f_equal. apply IHy.
Qed.

Lemma P_umtv : forall x y, length x = r -> length y = c -> c01_umtv K A x y = c01s_plus K C01_T c A x y.
Proof.
  intros. unfold c01_umtv, c01s_plus, c01s_vadd. rewrite rowsA, colsA.
  apply (c01_col_kernel C01_T (fun i j v => add v (mul (c01_get K A i j) (c01_at K x i))) add); auto. discriminate.
  intros. apply c01_fold_add.
Qed.

Lemma P_umhv : forall x y, length x = r -> length y = c -> c01_umhv K A x y = c01s_plus K C01_H c A x y.
Proof.
  intros. unfold c01_umhv, c01s_plus, c01s_vadd. rewrite rowsA, colsA.
  apply (c01_col_kernel C01_H (fun i j v => add v (mul (conj (c01_get K A i j)) (c01_at K x i))) add); auto. discriminate.
  intros. apply c01_fold_add.
Qed.

Lemma P_mmtv : forall x y, length x = r -> length y = c -> c01_mmtv K A x y = c01s_minus K C01_T c A x y.
Proof.
  intros. unfold c01_mmtv, c01s_minus, c01s_vsub. rewrite rowsA, colsA.
  apply (c01_col_kernel C01_T (fun i j v => sub v (mul (c01_get K A i j) (c01_at K x i))) sub); auto. discriminate.
  intros. apply c01_fold_sub.
Qed.

Lemma P_mmhv : forall x y, length x = r -> length y = c -> c01_mmhv K A x y = c01s_minus K C01_H c A x y.
Proof.
  intros. unfold c01_mmhv, c01s_minus, c01s_vsub. rewrite rowsA, colsA.
  apply (c01_col_kernel C01_H (fun i j v => sub v (mul (conj (c01_get K A i j)) (c01_at K x i))) sub); auto. discriminate.
  intros. apply c01_fold_sub.
Qed.

Lemma c01_map2_scaled : forall alpha (y l : list R),
  c01s_map2 (fun v s => add v (mul alpha s)) y l = c01s_vadd K y (c01s_vscale K alpha l).
Proof. unfold c01s_vadd, c01s_vscale. induction y; destruct l; simpl; auto. f_equal. apply IHy. Qed.

Lemma P_usmtv : forall alpha x y, length x = r -> length y = c -> c01_usmtv K alpha A x y = c01s_plus_scaled K alpha C01_T c A x y.
Proof.
  intros. unfold c01_usmtv, c01s_plus_scaled. rewrite rowsA, colsA. rewrite <- c01_map2_scaled.
  apply (c01_col_kernel C01_T (fun i j v => add v (mul (mul alpha (c01_get K A i j)) (c01_at K x i))) (fun v s => add v (mul alpha s))); auto. discriminate.
  intros. rewrite c01_fold_add. rewrite <- c01_sumf_scale. f_equal. apply c01_sumf_ext. intros. simpl. ring.
Qed.

Lemma P_usmhv : forall alpha x y, length x = r -> length y = c -> c01_usmhv K alpha A x y = c01s_plus_scaled K alpha C01_H c A x y.
Proof.
  intros. unfold c01_usmhv, c01s_plus_scaled. rewrite rowsA, colsA. rewrite <- c01_map2_scaled.
  apply (c01_col_kernel C01_H (fun i j v => add v (mul (mul alpha (conj (c01_get K A i j))) (c01_at K x i))) (fun v s => add v (mul alpha s))); auto. discriminate.
  intros. rewrite c01_fold_add. rewrite <- c01_sumf_scale. f_equal. apply c01_sumf_ext. intros. simpl. ring.
Qed.

End Kernels.
End Algebra.

Section Bundles.
Context {R : Type} (K : c01_ops R).
Hypothesis Rth : ring_theory (c01_O K) (c01_I K) (c01_add K) (c01_mul K) (c01_sub K) (c01_opp K) (@eq R).

Lemma P_kernels_dense : forall r c (A : list (list R)) (alpha : R), c01s_wf r c A -> 0 < r ->
  (forall x y, length x = c -> length y = r ->
     c01_mv K A x y = c01s_assign K C01_N c A x /\
     c01_umv K A x y = c01s_plus K C01_N c A x y /\
     c01_mmv K A x y = c01s_minus K C01_N c A x y /\
     c01_usmv K alpha A x y = c01s_plus_scaled K alpha C01_N c A x y) /\
  (forall x y, length x = r -> length y = c ->
     c01_mtv K A x y = c01s_assign K C01_T c A x /\
     c01_umtv K A x y = c01s_plus K C01_T c A x y /\
     c01_umhv K A x y = c01s_plus K C01_H c A x y /\
     c01_mmtv K A x y = c01s_minus K C01_T c A x y /\
     c01_mmhv K A x y = c01s_minus K C01_H c A x y /\
     c01_usmtv K alpha A x y = c01s_plus_scaled K alpha C01_T c A x y /\
     c01_usmhv K alpha A x y = c01s_plus_scaled K alpha C01_H c A x y).
Proof.
  intros r c A alpha WF Hr. split; intros x y Hx Hy.
  - repeat split.
    + apply (P_mv K Rth r c); auto.
    + apply (P_umv K Rth r c); auto.
    + apply (P_mmv K Rth r c); auto.
    + apply (P_usmv K Rth r c); auto.
  - repeat split.
    + apply (P_mtv K Rth r c); auto.
    + apply (P_umtv K Rth r c); auto.
    + apply (P_umhv K Rth r c); auto.
    + apply (P_mmtv K Rth r c); auto.
    + apply (P_mmhv K Rth r c); auto.
    + apply (P_usmtv K Rth r c); auto.
    + apply (P_usmhv K Rth r c); auto.
Qed.
End Bundles.
