(* C01 — proofs, part 14 (round 6): assignment / conversion INTO AN EXISTING OBJECT.  The target's previous content T0 is
   universally quantified: static targets hold arbitrary entries of the static shape, dynamic targets arbitrary rows of
   arbitrary (even ragged / zero) shape. *)
From Coq Require Import List ZArith Bool Arith Lia Ring.
From DuneV Require Import C01_Model C01_Model2 C01_Spec C01_Proofs C01_Proofs_Ops C01_Proofs_Mul C01_Proofs_Conv C01_Proofs_Extra C01_Proofs_Cells.
Import ListNotations.

Lemma c01_map_const_seq : forall (T : Type) (x : T) n s, map (fun _ => x) (seq s n) = repeat x n.
Proof. induction n; simpl; intros; auto. f_equal. apply IHn. Qed.

Section Asg.
Context {R : Type} (K : c01_ops R).
Local Notation zero := (c01_O K).
Local Notation wf := (@c01s_wf R).
Local Notation get := (c01_get K).

Lemma c01_wf_row_length : forall r c (A : list (list R)) i, wf r c A -> i < r -> length (c01_row A i) = c.
Proof.
  intros r c A i [L F] Hi. unfold c01_row. rewrite Forall_forall in F. apply F. apply nth_In. lia.
Qed.

(* std::copy over a destination of the same length overwrites every component *)
Lemma P_copy_into : forall (src dst : list R), length dst = length src -> c01_copy_into K src dst = src.
Proof.
  intros src dst L. unfold c01_copy_into.
  destruct (c01_vec_loop_n K (fun i _ => c01_at K src i) (length src) dst) as [L2 P]. { lia. }
  apply (c01_list_ext K). { rewrite L2. auto. }
  intros k Hk. rewrite L2, L in Hk. rewrite P. destruct (Nat.ltb_spec k (length src)); [reflexivity | lia].
Qed.

Lemma P_assign_dense_into : forall r c (T0 B : list (list R)), wf r c B -> wf r c T0 -> c01_assign_dense_into K T0 B = B.
Proof.
  intros r c T0 B WB WT. unfold c01_assign_dense_into.
  assert (LB : length B = r) by (destruct WB; auto). assert (LT : length T0 = r) by (destruct WT; auto).
  replace (c01_rows B) with r by auto.
  rewrite (c01_rows_loop (fun i row => c01_copy_into K (c01_row B i) row) r T0 LT).
  apply nth_ext with (d := []) (d' := []). { rewrite map_length, seq_length. auto. }
  intros i Hi. rewrite map_length, seq_length in Hi. rewrite (c01_nth_map_seq _ _ r i []) by auto.
  change (nth i B []) with (c01_row B i). apply P_copy_into. rewrite (c01_wf_row_length r c T0), (c01_wf_row_length r c B); auto.
Qed.

(* DynamicMatrix::operator=: whatever the matrix held (any number of rows of any lengths), after resize + fill it is the n x m zero matrix *)
Lemma P_dm_prepare : forall (T0 : list (list R)) n m, c01_dm_prepare K T0 n m = c01_mzero K n m.
Proof.
  intros. unfold c01_dm_prepare.
  assert (L : length (firstn n T0 ++ repeat [] (n - length T0)) = n).
  { rewrite app_length, firstn_length, repeat_length. lia. }
  rewrite (c01_rows_loop (fun _ _ => c01_vzero K m) n _ L). unfold c01_mzero. apply c01_map_const_seq.
Qed.

Lemma c01_mapconst : forall r c (A : list (list R)) (k : R), wf r c A -> map (map (fun _ => k)) A = repeat (repeat k c) r.
Proof.
  intros r c A k [L F]. subst r. induction A; simpl; auto.
  inversion F; subst. f_equal; auto. clear. induction a; simpl; auto. f_equal; auto.
Qed.
Lemma c01_mapzero : forall r c (A : list (list R)), wf r c A -> map (map (fun _ => zero)) A = c01_mzero K r c.
Proof. intros. unfold c01_mzero, c01_vzero. apply c01_mapconst. auto. Qed.

(* the diagonal assigner WITH its zero-fill: the dense matrix of the diagonal, whatever the target held *)
Lemma P_assign_diag_into : forall (T0 : list (list R)) d, wf (length d) (length d) T0 -> c01_assign_diag_into K true T0 d = c01s_diag K d.
Proof.
  intros T0 d W. unfold c01_assign_diag_into.
  rewrite (P_mfill K _ _ T0 zero W), (c01_mapzero _ _ T0 W). exact (P_dg_to_dense K d).
Qed.

Lemma P_dm_assign_dense : forall r c (T0 B : list (list R)), wf r c B -> 0 < r -> c01_dm_assign_dense K T0 B = B.
Proof.
  intros r c T0 B WB Hr. unfold c01_dm_assign_dense. rewrite P_dm_prepare.
  assert (LB : length B = r) by (destruct WB; auto). replace (c01_rows B) with r by auto. rewrite (c01_wf_cols r c B) by auto.
  apply (P_assign_dense_into r c); auto. apply c01_mzero_wf.
Qed.

Lemma P_dm_assign_diag : forall (T0 : list (list R)) d, c01_dm_assign_diag K true T0 d = c01s_diag K d.
Proof. intros. unfold c01_dm_assign_diag. rewrite P_dm_prepare. apply P_assign_diag_into. apply c01_mzero_wf. Qed.

Lemma P_fm_assign_rows : forall r c (T0 X : list (list R)), wf r c X -> wf r c T0 -> c01_fm_assign_rows K T0 X = X.
Proof.
  intros r c T0 X WX WT. unfold c01_fm_assign_rows.
  assert (LX : length X = r) by (destruct WX; auto). assert (LT : length T0 = r) by (destruct WT; auto).
  replace (c01_rows T0) with r by auto.
  rewrite (c01_rows_loop (fun i row => c01_vassign K row (c01_row X i)) r T0 LT).
  apply nth_ext with (d := []) (d' := []). { rewrite map_length, seq_length. auto. }
  intros i Hi. rewrite map_length, seq_length in Hi. rewrite (c01_nth_map_seq _ _ r i []) by auto.
  change (nth i X []) with (c01_row X i). apply (P_vassign K). rewrite (c01_wf_row_length r c T0), (c01_wf_row_length r c X); auto.
Qed.

Lemma P_cell_assign : forall (st : list R) a m j k, a < length st ->
  c01_at K (c01_cell_assign K st a m) j = (if Nat.eqb a j then c01_at K st m else c01_at K st j) /\
  c01_at K (c01_cell_fill st a k) j = (if Nat.eqb a j then k else c01_at K st j).
Proof. intros. unfold c01_cell_assign, c01_cell_fill. split; apply (c01_at_upd K); auto. Qed.

Lemma P_assignment_into : forall r c (T0 Tany B : list (list R)) (Td : list (list R)) (d x y : list R) (k : R),
  wf r c B -> wf r c T0 -> 0 < r -> wf (length d) (length d) Td -> length x = length y ->
  c01_assign_dense_into K T0 B = B /\ c01_fm_assign_rows K T0 B = B /\ c01_copy_assign T0 B = B /\
  c01_dm_assign_dense K Tany B = B /\
  c01_assign_diag_into K true Td d = c01s_diag K d /\ c01_dm_assign_diag K true Tany d = c01s_diag K d /\
  c01_mfill T0 k = map (map (fun _ => k)) B /\
  c01_vassign K x y = y /\ c01_copy_into K y x = y /\ c01_fill x k = map (fun _ => k) y /\ c01_copy_assign x y = y /\
  (length y = 1 -> c01_fv1_assign K x y = y).
Proof.
  intros r c T0 Tany B Td d x y k WB WT Hr WD Lxy. repeat split.
  - apply (P_assign_dense_into r c); auto.
  - apply (P_fm_assign_rows r c); auto.
  - apply (P_dm_assign_dense r c); auto.
  - apply P_assign_diag_into; auto.
  - apply P_dm_assign_diag.
  - rewrite (P_mfill K r c T0 k WT). rewrite (c01_mapconst r c T0 k WT), (c01_mapconst r c B k WB). reflexivity.
  - apply (P_vassign K). auto.
  - apply P_copy_into. auto.
  - rewrite (P_fill K). clear - Lxy. revert y Lxy. induction x; destruct y; simpl; intros; try discriminate; auto. f_equal. apply IHx. lia.
  - intros L1. unfold c01_fv1_assign, c01_at. destruct y as [|a [|b y]]; simpl in *; try discriminate. reflexivity.
Qed.
End Asg.

(* WITHOUT the zero-fill the diagonal assigner is correct only for targets whose off-diagonal part is already zero:
   a FieldMatrix<int,2,2> holding {{1,2},{3,4}} assigned DiagonalMatrix{5,6} would keep 2 and 3 *)
Lemma P_assign_diag_without_zerofill_refuted :
  exists (T0 : list (list Z)) d, c01s_wf (length d) (length d) T0 /\
    c01_assign_diag_into c01_Z_ops false T0 d <> c01s_diag c01_Z_ops d /\
    c01_assign_diag_into c01_Z_ops false (c01_mzero c01_Z_ops 2 2) d = c01s_diag c01_Z_ops d.
Proof.
  exists [[1; 2]; [3; 4]]%Z, [5; 6]%Z. split; [|split].
  - split; [reflexivity | repeat constructor].
  - vm_compute. intro H. discriminate H.
  - vm_compute. reflexivity.
Qed.
