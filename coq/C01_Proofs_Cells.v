(* C01 — proofs, part 13: scalar views as reference cells — the in-place products as written with AutonomousValue are alias-free for
   views on distinct scalars; with the copy declared as the view type (an alias) they return zero; two views of ONE scalar as receiver
   and factor break the loops of de29db7 (finding F-C01-7) and are correct after fix C01-6; unary minus / + / - of views (F-C01-4). *)
From Coq Require Import List ZArith Bool Arith Lia Ring.
From DuneV Require Import C01_Model C01_Model2 C01_Spec C01_Proofs.
Import ListNotations.

Section Cells.
Context {R : Type} (K : c01_ops R).
Local Notation zero := (c01_O K).
Local Notation add := (c01_add K).
Local Notation mul := (c01_mul K).
Hypothesis Rth : ring_theory zero (c01_I K) add mul (c01_sub K) (c01_opp K) (@eq R).
Add Ring C01Ring13 : Rth.

Lemma c01_at_upd : forall (st : list R) a v j, a < length st -> c01_at K (c01_upd st a v) j = if Nat.eqb a j then v else c01_at K st j.
Proof. intros. unfold c01_at. apply c01_nth_upd. auto. Qed.

(* as written (AutonomousValue copy), receiver and factor on DISTINCT cells: the receiver's cell gets the product, every other cell
   (the factor's in particular) is unchanged — the kernels are alias-free for views *)
Lemma P_cells_autonomous : forall (st : list R) a m, a < length st -> a <> m ->
  c01_cell_leftmultiply_literal K false st a m = c01_upd st a (mul (c01_at K st m) (c01_at K st a)) /\
  c01_cell_rightmultiply_literal K false st a m = c01_upd st a (mul (c01_at K st a) (c01_at K st m)).
Proof.
  intros st a m Ha Hm. unfold c01_cell_leftmultiply_literal, c01_cell_rightmultiply_literal.
  rewrite !c01_at_upd by auto. rewrite Nat.eqb_refl. destruct (Nat.eqb_spec a m); [contradiction|].
  rewrite !c01_upd_upd. split; f_equal; ring.
Qed.

(* the copy declared with the view type is an alias of the receiver's cell: the product is lost, the receiver becomes 0 *)
Lemma P_cells_alias_copy : forall (st : list R) a m, a < length st ->
  c01_cell_leftmultiply_literal K true st a m = c01_upd st a zero /\ c01_cell_rightmultiply_literal K true st a m = c01_upd st a zero.
Proof.
  intros st a m Ha. unfold c01_cell_leftmultiply_literal, c01_cell_rightmultiply_literal.
  rewrite !c01_at_upd by auto. rewrite Nat.eqb_refl. rewrite !c01_upd_upd. split; f_equal; destruct (Nat.eqb a m); ring.
Qed.

(* receiver and factor are two views of ONE scalar: the loops of de29db7 read the factor after zeroing the receiver (F-C01-7) *)
Lemma P_cells_same_scalar_literal : forall (st : list R) a, a < length st ->
  c01_cell_leftmultiply_literal K false st a a = c01_upd st a zero /\ c01_cell_rightmultiply_literal K false st a a = c01_upd st a zero.
Proof.
  intros st a Ha. unfold c01_cell_leftmultiply_literal, c01_cell_rightmultiply_literal.
  rewrite !c01_at_upd by auto. rewrite Nat.eqb_refl. rewrite !c01_upd_upd. split; f_equal; ring.
Qed.

(* after fix C01-6 (accumulate into the autonomous copy, assign back) the product is right for ANY pair of cells, equal or not *)
Lemma P_cells_fixed : forall (st : list R) a m,
  c01_cell_leftmultiply K st a m = c01_upd st a (mul (c01_at K st m) (c01_at K st a)) /\
  c01_cell_rightmultiply K st a m = c01_upd st a (mul (c01_at K st a) (c01_at K st m)).
Proof. intros. unfold c01_cell_leftmultiply, c01_cell_rightmultiply. split; f_equal; ring. Qed.

(* frame of every cell operation: only the receiver's cell changes *)
Lemma P_cells_frame : forall (f : R -> R -> R) (st : list R) a m j, a < length st -> j <> a ->
  c01_at K (c01_cell_leftmultiply K st a m) j = c01_at K st j /\ c01_at K (c01_cell_rightmultiply K st a m) j = c01_at K st j /\
  c01_at K (c01_cell_inplace K f st a m) j = c01_at K st j /\
  snd (c01_cell_neg K st a) = st /\ snd (c01_cell_binop K f st a m) = st.
Proof.
  intros. unfold c01_cell_leftmultiply, c01_cell_rightmultiply, c01_cell_inplace, c01_cell_neg, c01_cell_binop. simpl.
  rewrite !c01_at_upd by auto. destruct (Nat.eqb_spec a j); [congruence|]. auto.
Qed.

(* unary minus of a view as written returns the right value but negates the viewed scalar (F-C01-4 family) *)
Lemma P_cells_neg_literal : forall (st : list R) a, a < length st ->
  fst (c01_cell_neg_literal K st a) = c01_opp K (c01_at K st a) /\ snd (c01_cell_neg_literal K st a) = c01_upd st a (c01_opp K (c01_at K st a)) /\
  fst (c01_cell_neg K st a) = c01_opp K (c01_at K st a).
Proof.
  intros. unfold c01_cell_neg_literal, c01_cell_neg. simpl. rewrite c01_at_upd by auto. rewrite Nat.eqb_refl. auto.
Qed.
End Cells.

Lemma P_cells_refuted :
  c01_cell_leftmultiply_literal c01_Z_ops true [3; 5]%Z 0 1 = [0; 5]%Z /\            (* the seeded change: copy is an alias *)
  c01_cell_leftmultiply_literal c01_Z_ops false [3; 5]%Z 0 1 = [15; 5]%Z /\          (* as written: correct on distinct scalars *)
  c01_cell_leftmultiply_literal c01_Z_ops false [3]%Z 0 0 = [0]%Z /\                  (* two views of one scalar: F-C01-7 *)
  c01_cell_leftmultiply c01_Z_ops [3]%Z 0 0 = [9]%Z /\                                (* after fix C01-6 *)
  snd (c01_cell_neg_literal c01_Z_ops [3]%Z 0) = [-3]%Z.                              (* -view alters the scalar: F-C01-4 *)
Proof. repeat split; vm_compute; reflexivity. Qed.
