(* C01 — proofs, part 6: conversions between representations (DenseMatrixAssigner) and Diagonal * Diagonal. *)
From Coq Require Import List ZArith Bool Arith Lia Ring.
From DuneV Require Import C01_Model C01_Spec C01_Proofs C01_Proofs_Ops C01_Proofs_Mul.
Import ListNotations.

Lemma c01_nth_repeat : forall (T : Type) (x d : T) n i, i < n -> nth i (repeat x n) d = x.
Proof. induction n; destruct i; simpl; intros; try lia; auto. apply IHn; lia. Qed.

Section Conv.
Context {R : Type} (K : c01_ops R).
Local Notation zero := (c01_O K).
Local Notation add := (c01_add K).
Local Notation mul := (c01_mul K).
Local Notation wf := (@c01s_wf R).
Local Notation get := (c01_get K).
Hypothesis Rth : ring_theory zero (c01_I K) add mul (c01_sub K) (c01_opp K) (@eq R).
Add Ring C01Ring6 : Rth.

Lemma c01_mzero_get : forall r c i j, get (c01_mzero K r c) i j = zero.
Proof.
  intros. unfold c01_get, c01_at, c01_row, c01_mzero, c01_vzero.
  destruct (Nat.lt_ge_cases i r).
  - rewrite c01_nth_repeat by auto. destruct (Nat.lt_ge_cases j c); [apply c01_nth_repeat; auto | apply nth_overflow; rewrite repeat_length; lia].
  - rewrite (nth_overflow (repeat (repeat zero c) r) []) by (rewrite repeat_length; lia). destruct j; reflexivity.
Qed.

(* dense = diagonal:  dense = 0; dense[i][i] = d[i] *)
Lemma P_dg_to_dense : forall d, c01_dg_to_dense K d = c01s_diag K d.
Proof.
  intros d. unfold c01_dg_to_dense. set (n := length d).
  assert (X : wf n n (c01_for n (fun i T => c01_set2 T i i (c01_at K d i)) (c01_mzero K n n)) /\
              forall i j, i < n -> j < n ->
                get (c01_for n (fun i T => c01_set2 T i i (c01_at K d i)) (c01_mzero K n n)) i j
                = if Nat.eqb i j && (i <? n) then c01_at K d i else zero).
  { apply (c01_for_inv _ (fun k T => wf n n T /\ forall i j, i < n -> j < n ->
              get T i j = if Nat.eqb i j && (i <? k) then c01_at K d i else zero)).
    - split. apply c01_mzero_wf. intros. rewrite c01_mzero_get, andb_false_r. reflexivity.
    - intros k T Hk [WT PT]. split. { apply c01_set2_wf; auto. }
      intros i j Hi Hj. rewrite (c01_get_set2 K n n) by auto. rewrite PT by auto.
      destruct (Nat.eqb_spec k i); destruct (Nat.eqb_spec k j); destruct (Nat.eqb_spec i j);
        destruct (Nat.ltb_spec i k); destruct (Nat.ltb_spec i (S k)); subst; simpl; try lia; auto. }
  destruct X as [W P]. apply (c01_mat_ext K n n); auto. { apply c01_diag_wf. }
  intros i j Hi Hj. rewrite P by auto. rewrite (c01_diag_get K) by auto.
  destruct (Nat.ltb_spec i n); [|lia]. rewrite andb_true_r. reflexivity.
Qed.

(* dense = dense (other representation): rows are copied *)
Lemma P_assign_dense : forall r c B, wf r c B -> 0 < r -> c01_assign_dense K B = B.
Proof.
  intros r c B WB Hr. unfold c01_assign_dense. assert (LB : length B = r) by (destruct WB; auto).
  replace (c01_rows B) with r by auto. rewrite (c01_wf_cols r c B) by auto.
  rewrite (c01_rows_loop (fun i _ => c01_row B i) r) by (destruct (c01_mzero_wf K r c); auto).
  rewrite (c01_map_rows (fun row => row) r B LB). apply map_id.
Qed.

(* Diagonal * Diagonal *)
Lemma P_dg_mul : forall a b, length b = length a ->
  c01s_diag K (c01_dg_mul K a b) = c01s_mat_mul K (length a) (c01s_diag K a) (c01s_diag K b).
Proof.
  intros a b Hb. set (n := length a).
  assert (E : c01_dg_mul K a b = map (fun i => mul (c01_at K a i) (c01_at K b i)) (seq 0 n)).
  { unfold c01_dg_mul. apply (c01_fresh_loop K). }
  assert (L : length (c01_dg_mul K a b) = n) by (rewrite E, map_length, seq_length; auto).
  assert (WD : wf n n (c01s_diag K (c01_dg_mul K a b))) by (rewrite <- L at 1 2; apply c01_diag_wf).
  assert (Wb : wf n n (c01s_diag K b)) by (unfold n; rewrite <- Hb; apply c01_diag_wf).
  apply (c01_product_ext K Rth n n n (c01s_diag K a) (c01s_diag K b)); auto. { apply c01_diag_wf. }
  intros i j Hi Hj. rewrite (c01_diag_get K) by lia.
  transitivity (c01_sumf K (fun k => mul (if Nat.eqb i k then c01_at K a i else zero) (get (c01s_diag K b) k j)) (seq 0 n)).
  - rewrite (c01_sumf_delta K Rth (fun k => get (c01s_diag K b) k j)) by auto.
    rewrite (c01_diag_get K) by lia. unfold c01_at at 1. rewrite E. rewrite c01_nth_map_seq by auto.
    destruct (Nat.eqb i j); ring.
  - apply c01_sumf_ext. intros k Hk. apply in_seq in Hk. rewrite (c01_diag_get K a) by (unfold n in *; lia). reflexivity.
Qed.
End Conv.

Section Bundles6.
Context {R : Type} (K : c01_ops R).
Hypothesis Rth : ring_theory (c01_O K) (c01_I K) (c01_add K) (c01_mul K) (c01_sub K) (c01_opp K) (@eq R).
Lemma P_conversions : forall r c (B : list (list R)) (a b : list R), c01s_wf r c B -> 0 < r -> length b = length a ->
  c01_assign_dense K B = B /\ c01_dg_to_dense K a = c01s_diag K a /\ c01_dg_transposed a = a /\
  c01s_diag K (c01_dg_mul K a b) = c01s_mat_mul K (length a) (c01s_diag K a) (c01s_diag K b).
Proof.
  intros. repeat split.
  - apply (P_assign_dense K r c); auto.
  - apply (P_dg_to_dense K).
  - apply (P_dg_mul K Rth); auto.
Qed.
End Bundles6.
