(* C01 — proofs, part 9: division by a scalar (DenseVector /=, DenseMatrix /=, FieldVector v/k, FieldMatrix A/k).
   The option-valued loops of the model equal the structural componentwise quotient of the spec; under the laws of a
   carrier with division (c01_div_laws) entrywise division by alpha <> 0 is the inverse of entrywise multiplication. *)
From Coq Require Import List ZArith Bool Arith Lia Ring.
From DuneV Require Import C01_Model C01_Spec C01_Proofs C01_Proofs_Ops C01_Proofs_Mul C01_Proofs_Views.
Import ListNotations.

(* all-or-nothing sequencing of optional results *)
Fixpoint c01_seqopt {T : Type} (l : list (option T)) : option (list T) :=
  match l with
  | [] => Some []
  | o :: l' => match o, c01_seqopt l' with Some a, Some r => Some (a :: r) | _, _ => None end
  end.

Lemma c01_seqopt_app : forall (T : Type) (l : list (option T)) o,
  c01_seqopt (l ++ [o]) = match c01_seqopt l, o with Some q, Some b => Some (q ++ [b]) | _, _ => None end.
Proof.
  induction l; simpl; intros.
  - destruct o; auto.
  - rewrite IHl. destruct a; destruct (c01_seqopt l); destruct o; auto.
Qed.

Lemma c01_seqopt_length : forall (T : Type) (l : list (option T)) q, c01_seqopt l = Some q -> length q = length l.
Proof.
  induction l; simpl; intros. { inversion H. auto. }
  destruct a; [|discriminate]. destruct (c01_seqopt l) eqn:E; [|discriminate]. inversion H. simpl. f_equal. auto.
Qed.

(* in-place loop: v[i] = f(v[i]) or fail *)
Lemma c01_optloop_inplace : forall (T : Type) (d : T) (f : T -> option T) x n, n <= length x ->
  c01_for n (fun i s => match s with
                        | None => None
                        | Some v => match f (nth i v d) with None => None | Some q => Some (c01_upd v i q) end
                        end) (Some x)
  = match c01_seqopt (map f (firstn n x)) with Some q => Some (q ++ skipn n x) | None => None end.
Proof.
  induction n; intros.
  - rewrite c01_for_0. reflexivity.
  - rewrite c01_for_S, IHn by lia.
    destruct (c01_split_at T x n) as [a [E1 E2]]; [lia|].
    rewrite E2, map_app. simpl. rewrite c01_seqopt_app.
    destruct (c01_seqopt (map f (firstn n x))) eqn:E; auto.
    assert (Lq : length l = n). { rewrite (c01_seqopt_length _ _ _ E), map_length, firstn_length. lia. }
    rewrite E1. rewrite app_nth2 by lia. rewrite Lq, Nat.sub_diag. simpl.
    destruct (f a); auto. f_equal. rewrite <- Lq at 1. rewrite c01_upd_app. rewrite <- app_assoc. reflexivity.
Qed.

Lemma c01_upd_app_n : forall (T : Type) (q : list T) a rest v n, length q = n -> c01_upd (q ++ a :: rest) n v = q ++ v :: rest.
Proof. intros. subst. apply c01_upd_app. Qed.

(* fresh-result loop: res[i] = g i or fail *)
Lemma c01_optloop_fresh : forall (T : Type) (g : nat -> option T) n (res0 : list T), n <= length res0 ->
  c01_for n (fun i s => match s with
                        | None => None
                        | Some res => match g i with None => None | Some q => Some (c01_upd res i q) end
                        end) (Some res0)
  = match c01_seqopt (map g (seq 0 n)) with Some q => Some (q ++ skipn n res0) | None => None end.
Proof.
  induction n; intros.
  - rewrite c01_for_0. reflexivity.
  - rewrite c01_for_S, IHn by lia. rewrite seq_S, map_app. simpl. rewrite c01_seqopt_app.
    destruct (c01_seqopt (map g (seq 0 n))) eqn:E; auto.
    assert (Lq : length l = n). { rewrite (c01_seqopt_length _ _ _ E), map_length, seq_length. auto. }
    destruct (g n); auto. f_equal.
    destruct (c01_split_at T res0 n) as [a [E1 _]]; [lia|]. rewrite E1.
    rewrite (c01_upd_app_n T l a (skipn (S n) res0) t n Lq). rewrite <- app_assoc. reflexivity.
Qed.

Lemma c01_map_seq_nth_gen : forall (T U : Type) (d : T) (f : T -> U) (x : list T),
  map (fun i => f (nth i x d)) (seq 0 (length x)) = map f x.
Proof.
  intros. destruct x as [|a x0] eqn:Ex. { reflexivity. } rewrite <- Ex.
  apply nth_ext with (d := f d) (d' := f d). { rewrite !map_length, seq_length. auto. }
  intros i Hi. rewrite map_length, seq_length in Hi.
  rewrite (c01_nth_map_seq U (fun i => f (nth i x d))) by auto. rewrite map_nth. reflexivity.
Qed.

Section Div.
Context {R : Type} (K : c01_ops R).
Local Notation zero := (c01_O K).
Local Notation mul := (c01_mul K).
Local Notation wf := (@c01s_wf R).
Local Notation get := (c01_get K).

Lemma c01_vdiv_seqopt : forall x k, c01s_vdiv K x k = c01_seqopt (map (fun a => c01_div K a k) x).
Proof. induction x; simpl; intros; auto. rewrite IHx. reflexivity. Qed.
Lemma c01_mdiv_seqopt : forall A k, c01s_mdiv K A k = c01_seqopt (map (fun row => c01s_vdiv K row k) A).
Proof. induction A; simpl; intros; auto. rewrite IHA. reflexivity. Qed.

(* DenseMatrix /= : row by row *)
Lemma P_mdiv : forall A k, c01_mdiv K A k = c01s_mdiv K A k.
Proof.
  intros. unfold c01_mdiv, c01_rows, c01_row.
  rewrite (c01_optloop_inplace (list R) [] (fun row => c01_vdiv K row k) A (length A)) by lia.
  rewrite firstn_all, skipn_all, c01_mdiv_seqopt.
  rewrite (map_ext _ _ (fun row => P_vdiv K row k)).
  destruct (c01_seqopt (map (fun row => c01s_vdiv K row k) A)); auto. rewrite app_nil_r. auto.
Qed.

(* FieldVector v / k : into a fresh result *)
Lemma P_fv_divs : forall x k, c01_fv_divs K x k = c01s_vdiv K x k.
Proof.
  intros. unfold c01_fv_divs.
  rewrite (c01_optloop_fresh R (fun i => c01_div K (c01_at K x i) k) (length x) (c01_vzero K (length x))) by (rewrite c01_vzero_length; lia).
  unfold c01_at. rewrite (c01_map_seq_nth_gen R (option R) zero (fun a => c01_div K a k) x).
  rewrite c01_vdiv_seqopt. destruct (c01_seqopt (map (fun a => c01_div K a k) x)); auto.
  rewrite skipn_all2 by (rewrite c01_vzero_length; lia). rewrite app_nil_r. auto.
Qed.

(* FieldMatrix A / k : the inner loop fills row i of the result *)
Lemma c01_set2_upd_row : forall (T : list (list R)) i row j q, i < length T ->
  c01_set2 (c01_upd T i row) i j q = c01_upd T i (c01_upd row j q).
Proof.
  intros. unfold c01_set2, c01_row. rewrite c01_nth_upd_eq by auto. apply c01_upd_upd.
Qed.

Lemma c01_fm_divs_inner : forall (g : nat -> option R) c i (T : list (list R)), i < length T ->
  c01_for c (fun j s => match s with
                        | None => None
                        | Some T => match g j with None => None | Some q => Some (c01_set2 T i j q) end
                        end) (Some T)
  = match c01_for c (fun j s => match s with
                                | None => None
                                | Some res => match g j with None => None | Some q => Some (c01_upd res j q) end
                                end) (Some (c01_row T i)) with
    | Some row => Some (c01_upd T i row)
    | None => None
    end.
Proof.
  induction c; intros.
  - rewrite !c01_for_0. unfold c01_row. rewrite c01_upd_same. reflexivity.
  - rewrite !c01_for_S, IHc by auto.
    destruct (c01_for c _ (Some (c01_row T i))); auto.
    destruct (g c); auto. rewrite c01_set2_upd_row by auto. reflexivity.
Qed.

Lemma P_fm_divs : forall r c A k, wf r c A -> c01_fm_divs K r c A k = c01s_mdiv K A k.
Proof.
  intros r c A k WA. unfold c01_fm_divs. assert (LA : length A = r) by (destruct WA; auto).
  (* every outer step: result row i := componentwise quotient of row i of A *)
  assert (STEP : forall i (s : option (list (list R))), i < r -> (match s with Some T => length T = r /\ length (c01_row T i) = c | None => True end) ->
     c01_for c (fun j s => match s with
                           | None => None
                           | Some T => match c01_div K (get A i j) k with None => None | Some q => Some (c01_set2 T i j q) end
                           end) s
     = match s with
       | None => None
       | Some T => match c01s_vdiv K (c01_row A i) k with None => None | Some q => Some (c01_upd T i q) end
       end).
  { intros i s Hi Hs. destruct s as [T|].
    - destruct Hs as [LT LR]. rewrite (c01_fm_divs_inner (fun j => c01_div K (get A i j) k)) by lia.
      rewrite (c01_optloop_fresh R (fun j => c01_div K (get A i j) k) c (c01_row T i)) by lia.
      assert (LAi : length (c01_row A i) = c) by (apply (c01_wf_row r c); auto).
      unfold c01_get, c01_at. rewrite <- LAi at 1.
      rewrite (c01_map_seq_nth_gen R (option R) zero (fun a => c01_div K a k) (c01_row A i)).
      rewrite c01_vdiv_seqopt. destruct (c01_seqopt (map (fun a => c01_div K a k) (c01_row A i))); auto.
      rewrite skipn_all2 by lia. rewrite app_nil_r. auto.
    - clear. induction c. reflexivity. rewrite c01_for_S, IHc. reflexivity. }
  (* the outer loop is a fresh-result loop over the rows, with an invariant on the shape *)
  assert (X : forall n, n <= r ->
     c01_for n (fun i s => c01_for c (fun j s => match s with
                           | None => None
                           | Some T => match c01_div K (get A i j) k with None => None | Some q => Some (c01_set2 T i j q) end
                           end) s) (Some (c01_mzero K r c))
     = c01_for n (fun i s => match s with
                             | None => None
                             | Some T => match c01s_vdiv K (c01_row A i) k with None => None | Some q => Some (c01_upd T i q) end
                             end) (Some (c01_mzero K r c))
     /\ match c01_for n (fun i s => match s with
                             | None => None
                             | Some T => match c01s_vdiv K (c01_row A i) k with None => None | Some q => Some (c01_upd T i q) end
                             end) (Some (c01_mzero K r c)) with
        | Some T => length T = r /\ forall i, n <= i < r -> length (c01_row T i) = c
        | None => True
        end).
  { induction n; intros Hn.
    - rewrite !c01_for_0. split; auto. split. { destruct (c01_mzero_wf K r c); auto. }
      intros. apply (c01_wf_row r c); [apply c01_mzero_wf | lia].
    - destruct IHn as [E I]; [lia|]. rewrite !c01_for_S, E.
      clear E. match goal with |- context [c01_for n ?b (Some (c01_mzero K r c))] => remember (c01_for n b (Some (c01_mzero K r c))) as s end.
      clear Heqs.
      rewrite STEP; [| lia | destruct s; auto; destruct I as [I1 I2]; split; auto; apply I2; lia].
      split; auto. destruct s as [T|]; auto. destruct (c01s_vdiv K (c01_row A n) k); auto.
      destruct I as [I1 I2]. split. { rewrite c01_upd_length. auto. }
      intros i Hi. unfold c01_row. rewrite c01_nth_upd_neq by lia. apply I2. lia. }
  destruct (X r) as [E _]; [lia|]. rewrite E.
  rewrite (c01_optloop_fresh (list R) (fun i => c01s_vdiv K (c01_row A i) k) r (c01_mzero K r c)) by (destruct (c01_mzero_wf K r c); lia).
  unfold c01_row. rewrite <- LA at 1. rewrite (c01_map_seq_nth_gen (list R) (option (list R)) [] (fun row => c01s_vdiv K row k) A).
  rewrite c01_mdiv_seqopt. destruct (c01_seqopt (map (fun row => c01s_vdiv K row k) A)); auto.
  rewrite skipn_all2 by (destruct (c01_mzero_wf K r c); lia). rewrite app_nil_r. auto.
Qed.

(* ------------------------------------------------------------------ a carrier with division *)
Record c01_div_laws : Prop := {
  c01_div_law : forall a b q, c01_div K a b = Some q -> mul q b = a;                 (* a defined quotient is a quotient *)
  c01_div_mul : forall a b, b <> zero -> c01_div K (mul a b) b = Some a }.           (* multiples of b <> 0 are divisible by b, exactly *)
Definition c01_div_total : Prop := forall a b, b <> zero -> exists q, c01_div K a b = Some q.   (* fields *)

Section Laws.
Hypothesis Rth : ring_theory zero (c01_I K) (c01_add K) mul (c01_sub K) (c01_opp K) (@eq R).
Hypothesis DL : c01_div_laws.
Add Ring C01Ring9 : Rth.

Lemma c01_vdiv_of_scaled : forall x alpha, alpha <> zero -> c01s_vdiv K (map (fun a => mul a alpha) x) alpha = Some x.
Proof. induction x; simpl; intros; auto. rewrite (c01_div_mul DL) by auto. rewrite IHx by auto. reflexivity. Qed.

Lemma c01_mdiv_of_scaled : forall A alpha, alpha <> zero -> c01s_mdiv K (map (map (fun a => mul a alpha)) A) alpha = Some A.
Proof. induction A; simpl; intros; auto. rewrite c01_vdiv_of_scaled by auto. rewrite IHA by auto. reflexivity. Qed.

Lemma c01_mdiv_quotient : forall A k Q, c01s_mdiv K A k = Some Q -> c01s_mscale K k Q = A.
Proof.
  induction A; simpl; intros. { inversion H. reflexivity. }
  destruct (c01s_vdiv K a k) eqn:E; [|discriminate]. destruct (c01s_mdiv K A k) eqn:E2; [|discriminate].
  inversion H. simpl. f_equal. { apply (P_vdiv_quotient K Rth (c01_div_law DL) a k l E). } apply IHA. auto.
Qed.

Lemma c01_scale_r_l : forall x alpha, map (fun a => mul a alpha) x = c01s_vscale K alpha x.
Proof. intros. unfold c01s_vscale. apply map_ext. intros. ring. Qed.

(* entrywise division by alpha <> 0 undoes entrywise multiplication by alpha, and a defined quotient multiplied back gives the operand;
   for all four division operators of the interface *)
Lemma P_scalar_division : forall r c (x : list R) (A : list (list R)) (alpha : R), wf r c A -> alpha <> zero ->
  c01_vdiv K (c01_vscale K x alpha) alpha = Some x /\
  c01_fv_divs K (c01_fv_muls K x alpha) alpha = Some x /\
  c01_mdiv K (c01_mscale K A alpha) alpha = Some A /\
  c01_fm_divs K r c (c01_fm_muls K r c A alpha) alpha = Some A /\
  (forall q, c01_vdiv K x alpha = Some q -> c01s_vscale K alpha q = x) /\
  (forall q, c01_fv_divs K x alpha = Some q -> c01s_vscale K alpha q = x) /\
  (forall Q, c01_mdiv K A alpha = Some Q -> c01s_mscale K alpha Q = A) /\
  (forall Q, c01_fm_divs K r c A alpha = Some Q -> c01s_mscale K alpha Q = A).
Proof.
  intros r c x A alpha WA Ha.
  assert (SA : c01s_mscale K alpha A = map (map (fun a => mul a alpha)) A).
  { unfold c01s_mscale. apply map_ext. intros. symmetry. apply c01_scale_r_l. }
  repeat split.
  - rewrite P_vdiv, (P_vscale K Rth), <- c01_scale_r_l. apply c01_vdiv_of_scaled; auto.
  - rewrite P_fv_divs, (P_fv_muls K Rth), <- c01_scale_r_l. apply c01_vdiv_of_scaled; auto.
  - rewrite P_mdiv, (P_mscale K Rth r c) by auto. rewrite SA. apply c01_mdiv_of_scaled; auto.
  - rewrite (P_fm_muls K r c) by auto. rewrite (P_fm_divs r c) by (apply (c01_mapm_wf (fun v => mul v alpha)); auto).
    apply c01_mdiv_of_scaled; auto.
  - intros q Hq. rewrite P_vdiv in Hq. apply (P_vdiv_quotient K Rth (c01_div_law DL) x alpha q Hq).
  - intros q Hq. rewrite P_fv_divs in Hq. apply (P_vdiv_quotient K Rth (c01_div_law DL) x alpha q Hq).
  - intros Q HQ. rewrite P_mdiv in HQ. apply c01_mdiv_quotient; auto.
  - intros Q HQ. rewrite (P_fm_divs r c) in HQ by auto. apply c01_mdiv_quotient; auto.
Qed.

(* over a field every division by alpha <> 0 is defined *)
Lemma P_scalar_division_total : c01_div_total -> forall (x : list R) (alpha : R), alpha <> zero -> exists q, c01_vdiv K x alpha = Some q.
Proof.
  intros DT x alpha Ha. rewrite P_vdiv. induction x; simpl. { exists []. auto. }
  destruct (DT a alpha Ha) as [q Eq]. rewrite Eq. destruct IHx as [qs Eqs]. rewrite Eqs. exists (q :: qs). auto.
Qed.
End Laws.
End Div.
