(* C01 — proofs, part 8: assignment from a scalar / another vector, multTransposedMatrix, the integer-exact norms. *)
From Coq Require Import List ZArith Bool Arith Lia Ring.
From DuneV Require Import C01_Model C01_Spec C01_Proofs C01_Proofs_Ops C01_Proofs_Mul C01_Proofs_Views.
Import ListNotations.

Section Extra.
Context {R : Type} (K : c01_ops R).
Local Notation zero := (c01_O K).
Local Notation add := (c01_add K).
Local Notation mul := (c01_mul K).
Local Notation wf := (@c01s_wf R).
Local Notation get := (c01_get K).

(* x = k : every component becomes k;  x = y : x becomes y *)
Lemma P_fill : forall (x : list R) k, c01_fill x k = map (fun _ => k) x.
Proof.
  intros. unfold c01_fill. destruct (c01_vec_loop K (fun _ _ => k) x) as [L P].
  apply (c01_list_ext K). { rewrite map_length. exact L. }
  intros i Hi. rewrite L in Hi. rewrite (c01_nth_map_in K (fun _ => k)) by auto. apply (P i Hi).
Qed.

Lemma P_vassign : forall (x y : list R), length y = length x -> c01_vassign K x y = y.
Proof.
  intros. unfold c01_vassign. destruct (c01_vec_loop K (fun i _ => c01_at K y i) x) as [L P].
  apply (c01_list_ext K). { rewrite L. auto. }
  intros i Hi. rewrite L in Hi. apply (P i Hi).
Qed.

Lemma P_mfill : forall r c (A : list (list R)) k, wf r c A -> c01_mfill A k = map (map (fun _ => k)) A.
Proof.
  intros r c A k WA. unfold c01_mfill. assert (LA : length A = r) by (destruct WA; auto).
  replace (c01_rows A) with r by auto.
  rewrite (c01_rows_loop (fun i row => c01_fill row k) r A LA).
  rewrite (c01_map_rows (fun row => c01_fill row k) r A LA). apply map_ext. intros. apply P_fill.
Qed.

Section WithRing.
Hypothesis Rth : ring_theory zero (c01_I K) add mul (c01_sub K) (c01_opp K) (@eq R).

(* FMatrixHelp::multTransposedMatrix computes A^T A, whatever the previous content of the result *)
Lemma P_mult_transposed : forall r c (A T0 : list (list R)), wf r c A -> wf c c T0 -> 0 < r ->
  c01_mult_transposed K r c A T0 = c01s_mat_mul K c (c01s_transpose K c A) A.
Proof.
  intros r c A T0 WA W0 Hr. unfold c01_mult_transposed.
  destruct (c01_triple_loop K Rth c c r (fun i j k => mul (get A k i) (get A k j)) T0 W0) as [W P].
  apply (c01_product_ext K Rth c r c (c01s_transpose K c A) A); auto. { apply c01_transpose_wf. destruct WA; auto. }
  intros i j Hi Hj. rewrite P by auto. apply c01_sumf_ext. intros k Hk. rewrite c01_transpose_get by auto. reflexivity.
Qed.
End WithRing.

(* norms: the accumulation loops are the sums / maxima of the componentwise absolute values *)
Lemma c01_zfold_add : forall (f : nat -> Z) l a, fold_left (fun res i => Z.add res (f i)) l a = Z.add a (fold_right Z.add 0%Z (map f l)).
Proof. induction l; intros; simpl. lia. rewrite IHl. lia. Qed.
Lemma c01_zfold_max : forall (f : nat -> Z) l a, fold_left (fun res i => Z.max (f i) res) l a = Z.max a (fold_right Z.max 0%Z (map f l)) \/
                                                   (a < 0)%Z.
Proof.
  induction l; intros; simpl.
  - destruct (Z_lt_le_dec a 0); [right; auto | left; lia].
  - destruct (IHl (Z.max (f a) a0)) as [E|E].
    + rewrite E. destruct (Z_lt_le_dec a0 0); [right; auto | left; lia].
    + destruct (Z_lt_le_dec a0 0); [right; auto | lia].
Qed.

Lemma c01_map_seq_at : forall (g : R -> Z) (x : list R), map (fun i => g (c01_at K x i)) (seq 0 (length x)) = map g x.
Proof.
  intros. apply nth_ext with (d := 0%Z) (d' := 0%Z). { rewrite !map_length, seq_length. auto. }
  intros i Hi. rewrite map_length, seq_length in Hi. rewrite c01_nth_map_seq by auto.
  rewrite nth_indep with (d' := g zero) by (rewrite map_length; auto). rewrite map_nth. reflexivity.
Qed.

Lemma P_norm_sum : forall (nrm : R -> Z) x, c01_norm_sum K nrm x = fold_right Z.add 0%Z (map nrm x).
Proof.
  intros. unfold c01_norm_sum, c01_for. rewrite (c01_zfold_add (fun i => nrm (c01_at K x i))). rewrite c01_map_seq_at. lia.
Qed.

Lemma P_norm_max : forall (nrm : R -> Z) x, c01_norm_max K nrm x = fold_right Z.max 0%Z (map nrm x).
Proof.
  intros. unfold c01_norm_max, c01_for. destruct (c01_zfold_max (fun i => nrm (c01_at K x i)) (seq 0 (length x)) 0%Z) as [E|E]; [|lia].
  rewrite E, c01_map_seq_at.
  assert (0 <= fold_right Z.max 0 (map nrm x))%Z by (generalize (map nrm x); induction l; simpl; lia). lia.
Qed.

Lemma c01_map_seq_row : forall (g : list R -> Z) (A : list (list R)), map (fun i => g (c01_row A i)) (seq 0 (length A)) = map g A.
Proof.
  intros. apply nth_ext with (d := 0%Z) (d' := 0%Z). { rewrite !map_length, seq_length. auto. }
  intros i Hi. rewrite map_length, seq_length in Hi. rewrite c01_nth_map_seq by auto.
  rewrite nth_indep with (d' := g []) by (rewrite map_length; auto). rewrite map_nth. reflexivity.
Qed.

Lemma P_mnorm_sum : forall (nrm : R -> Z) A,
  c01_mnorm_sum K nrm A = fold_right Z.add 0%Z (map (fun row => fold_right Z.add 0%Z (map nrm row)) A).
Proof.
  intros. unfold c01_mnorm_sum, c01_for, c01_rows. rewrite (c01_zfold_add (fun i => c01_norm_sum K nrm (c01_row A i))).
  rewrite (c01_map_seq_row (c01_norm_sum K nrm)). rewrite (map_ext _ _ (P_norm_sum nrm)). lia.
Qed.

Lemma P_mnorm_inf : forall (nrm : R -> Z) A,
  c01_mnorm_inf K nrm A = fold_right Z.max 0%Z (map (fun row => fold_right Z.add 0%Z (map nrm row)) A).
Proof.
  intros. unfold c01_mnorm_inf, c01_for, c01_rows.
  destruct (c01_zfold_max (fun i => c01_norm_sum K nrm (c01_row A i)) (seq 0 (length A)) 0%Z) as [E|E]; [|lia].
  rewrite E, (c01_map_seq_row (c01_norm_sum K nrm)), (map_ext _ _ (P_norm_sum nrm)).
  assert (forall l, 0 <= fold_right Z.max 0 l)%Z by (induction l; simpl; lia). specialize (H (map (fun row => fold_right Z.add 0%Z (map nrm row)) A)). lia.
Qed.
End Extra.

Section Bundles8.
Context {R : Type} (K : c01_ops R).
Hypothesis Rth : ring_theory (c01_O K) (c01_I K) (c01_add K) (c01_mul K) (c01_sub K) (c01_opp K) (@eq R).
Lemma P_assignment : forall r c (A T0 : list (list R)) (x y : list R) (k : R), c01s_wf r c A -> c01s_wf c c T0 -> 0 < r -> length y = length x ->
  c01_fill x k = map (fun _ => k) x /\ c01_vassign K x y = y /\ c01_mfill A k = map (map (fun _ => k)) A /\
  c01_mult_transposed K r c A T0 = c01s_mat_mul K c (c01s_transpose K c A) A.
Proof.
  intros. split; [apply (P_fill K)|]. split; [apply (P_vassign K); auto|]. split; [apply (P_mfill K r c); auto|].
  apply (P_mult_transposed K Rth r c); auto.
Qed.
Lemma P_norms : forall (nrm : R -> Z) (x : list R) (A : list (list R)),
  c01_norm_sum K nrm x = fold_right Z.add 0%Z (map nrm x) /\ c01_norm_max K nrm x = fold_right Z.max 0%Z (map nrm x) /\
  c01_mnorm_sum K nrm A = fold_right Z.add 0%Z (map (fun row => fold_right Z.add 0%Z (map nrm row)) A) /\
  c01_mnorm_inf K nrm A = fold_right Z.max 0%Z (map (fun row => fold_right Z.add 0%Z (map nrm row)) A).
Proof. intros. split; [apply (P_norm_sum K)|]. split; [apply (P_norm_max K)|]. split; [apply (P_mnorm_sum K) | apply (P_mnorm_inf K)]. Qed.
End Bundles8.
