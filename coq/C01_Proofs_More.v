(* C01 — proofs, part 12: frame and aliasing of the in-place vector operations, the view operator+ (F-C01-4), element access,
   resize, sparsity pattern, vector operations and products under homomorphisms (mixed field types). *)
From Coq Require Import List ZArith Bool Arith Lia Ring.
From DuneV Require Import C01_Model C01_Model2 C01_Spec C01_Proofs C01_Proofs_Ops C01_Proofs_Mul C01_Proofs_Views C01_Proofs_Conv C01_Proofs_Zp.
Import ListNotations.

Lemma c01_for_sim2 : forall (S1 S2 : Type) (Rel : S1 -> S2 -> Prop) n (b1 : nat -> S1 -> S1) (b2 : nat -> S2 -> S2) s s',
  Rel s s' -> (forall i t t', Rel t t' -> Rel (b1 i t) (b2 i t')) -> Rel (c01_for n b1 s) (c01_for n b2 s').
Proof. induction n; intros. { rewrite !c01_for_0. auto. } rewrite !c01_for_S. apply H0. apply IHn; auto. Qed.

Lemma c01_map_repeat : forall (A B : Type) (f : A -> B) a n, map f (repeat a n) = repeat (f a) n.
Proof. induction n; simpl; auto. f_equal. auto. Qed.

Lemma c01_nth_firstn : forall (T : Type) (l : list T) n i d, i < n -> nth i (firstn n l) d = nth i l d.
Proof. induction l; destruct n; destruct i; simpl; intros; try lia; auto. apply IHl. lia. Qed.

Section More.
Context {R : Type} (K : c01_ops R).
Local Notation zero := (c01_O K).
Local Notation wf := (@c01s_wf R).
Local Notation get := (c01_get K).

(* x op= y as a transformer of both objects: y is returned unchanged, x as computed by the functional loop *)
Lemma P_vec_inplace_frame : forall f (x y : list R),
  c01_vec_inplace_objs K f (C01_VObjs x y) = C01_VObjs (c01_vec_inplace K f x y) y.
Proof.
  intros. unfold c01_vec_inplace_objs, c01_vec_inplace. simpl c01_vx.
  apply (c01_for_sim2 _ _ (fun (t : @c01_vobjs R) (v : list R) => t = C01_VObjs v y)). { reflexivity. }
  intros i t v Ht. subst t. reflexivity.
Qed.

Lemma P_vec_inplace_pointwise : forall f (x y : list R), length y = length x -> c01_vec_inplace K f x y = c01s_map2 f x y.
Proof.
  intros. unfold c01_vec_inplace. destruct (c01_vec_loop K (fun i v => f v (c01_at K y i)) x) as [L P].
  apply (c01_list_ext K). { rewrite L, c01s_map2_length. lia. }
  intros k Hk. rewrite L in Hk. rewrite P by auto. rewrite (c01s_map2_nth _ _ _ f x y k zero zero zero) by lia. reflexivity.
Qed.

(* both arguments the same object (x += x, x -= x, ...): every component still sees its own old value *)
Lemma P_vec_inplace_self : forall f (x : list R), c01_vec_inplace_self K f x = map (fun a => f a a) x.
Proof. intros. apply (c01_vec_map K (fun a => f a a)). Qed.

(* the scalar argument is the entry i0 of the receiver: read once before the loop (fix C01-8), every component combines its own old
   value with the OLD value of entry i0 *)
Lemma P_vec_elem : forall (g : nat -> R -> R -> R) (x : list R) i0,
  length (c01_vec_elem K g x i0) = length x /\
  forall i, i < length x -> c01_at K (c01_vec_elem K g x i0) i = g i (c01_at K x i) (c01_at K x i0).
Proof.
  intros. unfold c01_vec_elem. destruct (c01_vec_loop K (fun i v => g i v (c01_at K x i0)) x) as [L P].
  split; [exact L|]. intros i Hi. apply (P i Hi).
Qed.

(* element access: what a store through operator[] / operator[][] / diagonal(i) changes *)
Lemma P_access : forall r c (x : list R) (A : list (list R)) i j i' j' v, wf r c A -> i < length x -> i' < r -> j' < c ->
  c01_at K (c01_upd x i v) j = (if Nat.eqb i j then v else c01_at K x j) /\ length (c01_upd x i v) = length x /\
  get (c01_set2 A i' j' v) i j = (if Nat.eqb i' i && Nat.eqb j' j then v else get A i j) /\ wf r c (c01_set2 A i' j' v).
Proof.
  intros. split. { unfold c01_at. apply c01_nth_upd. auto. } split. { apply c01_upd_length. }
  split. { apply (c01_get_set2 K r c); auto. } apply c01_set2_wf; auto.
Qed.

Lemma P_resize : forall (x : list R) n k,
  length (c01_resize x n k) = n /\ forall i, i < n -> c01_at K (c01_resize x n k) i = if i <? length x then c01_at K x i else k.
Proof.
  intros. unfold c01_resize. split. { rewrite app_length, firstn_length, repeat_length. lia. }
  intros i Hi. unfold c01_at. destruct (Nat.ltb_spec i (length x)).
  - rewrite app_nth1 by (rewrite firstn_length; lia). apply c01_nth_firstn. auto.
  - rewrite app_nth2 by (rewrite firstn_length; lia). rewrite firstn_length. apply c01_nth_repeat. lia.
Qed.

Lemma P_mresize : forall r c (v : R), wf r c (c01_mresize r c v) /\ forall i j, i < r -> j < c -> get (c01_mresize r c v) i j = v.
Proof.
  intros. unfold c01_mresize. split.
  - split. apply repeat_length. rewrite Forall_forall. intros row Hin. apply repeat_spec in Hin. subst. apply repeat_length.
  - intros. unfold c01_get, c01_at, c01_row. rewrite (c01_nth_repeat (list R)) by auto. apply c01_nth_repeat. auto.
Qed.

(* the pattern of a DiagonalMatrix covers every entry that can be non-zero *)
Lemma P_dg_pattern : forall (d : list R) i j, i < length d -> j < length d ->
  get (c01s_diag K d) i j = if c01_dg_exists i j then c01_at K d i else zero.
Proof. intros. unfold c01_dg_exists. apply c01_diag_get; auto. Qed.
End More.

(* the view operator+ / operator- return the right value but alter the viewed scalar (finding F-C01-4) *)
Lemma P_view_binop : forall (R : Type) (f : R -> R -> R) (x y : R),
  fst (c01_view_binop f x y) = f x y /\ (f x y <> x -> snd (c01_view_binop f x y) <> x).
Proof. intros. unfold c01_view_binop. simpl. auto. Qed.
Lemma P_view_binop_refuted : exists x y : Z, snd (c01_view_binop Z.add x y) <> x.
Proof. exists 5%Z, 2%Z. vm_compute. discriminate. Qed.

(* ------------------------------------------------------------------ vector operations and products commute with homomorphisms *)
Section Hom2.
Context {R1 R2 : Type} (K1 : c01_ops R1) (K2 : c01_ops R2) (h : R1 -> R2).
Hypothesis H0 : h (c01_O K1) = c01_O K2.
Hypothesis Hadd : forall a b, h (c01_add K1 a b) = c01_add K2 (h a) (h b).
Hypothesis Hmul : forall a b, h (c01_mul K1 a b) = c01_mul K2 (h a) (h b).
Hypothesis Hsub : forall a b, h (c01_sub K1 a b) = c01_sub K2 (h a) (h b).
Hypothesis Hconj : forall a, h (c01_conj K1 a) = c01_conj K2 (h a).

Ltac hom1 := intros; rewrite ?map_length; apply c01_for_hom; [intros|auto];
  rewrite ?(c01_map_upd h), ?Hadd, ?Hsub, ?Hmul, ?Hconj, ?(c01_at_map K1 K2 h H0); reflexivity.

Lemma c01_set2_map : forall (T : list (list R1)) i j v, map (map h) (c01_set2 T i j v) = c01_set2 (map (map h) T) i j (h v).
Proof.
  intros. unfold c01_set2, c01_row. rewrite (c01_map_upd (map h)). f_equal.
  rewrite (c01_map_upd h). f_equal. change (@nil R2) with (map h []). rewrite map_nth. reflexivity.
Qed.
Lemma c01_mzero_map : forall r c, map (map h) (c01_mzero K1 r c) = c01_mzero K2 r c.
Proof. intros. unfold c01_mzero, c01_vzero. rewrite !c01_map_repeat, H0. reflexivity. Qed.

Lemma P_vector_hom : forall (x y : list R1) (k : R1),
  map h (c01_vadd K1 x y) = c01_vadd K2 (map h x) (map h y) /\ map h (c01_vsub K1 x y) = c01_vsub K2 (map h x) (map h y) /\
  map h (c01_vscale K1 x k) = c01_vscale K2 (map h x) (h k) /\ map h (c01_vaxpy K1 x k y) = c01_vaxpy K2 (map h x) (h k) (map h y) /\
  map h (c01_vadds K1 x k) = c01_vadds K2 (map h x) (h k) /\
  h (c01_vdotT K1 x y) = c01_vdotT K2 (map h x) (map h y) /\ h (c01_vdot K1 x y) = c01_vdot K2 (map h x) (map h y).
Proof.
  intros. repeat split; [unfold c01_vadd | unfold c01_vsub | unfold c01_vscale | unfold c01_vaxpy | unfold c01_vadds | unfold c01_vdotT | unfold c01_vdot];
    hom1.
Qed.

Lemma P_product_hom : forall r n p (A B : list (list R1)),
  map (map h) (c01_fm_mul K1 r n p A B) = c01_fm_mul K2 r n p (map (map h) A) (map (map h) B).
Proof.
  intros. unfold c01_fm_mul.
  apply c01_for_hom; [intros | apply c01_mzero_map].
  apply c01_for_hom; [intros | reflexivity].
  apply c01_for_hom; [intros | rewrite c01_set2_map, H0; reflexivity].
  rewrite c01_set2_map, Hadd, Hmul, !(c01_get_map K1 K2 h H0). reflexivity.
Qed.
End Hom2.

(* re-reading the scalar through the reference in every iteration (the loops before fix C01-8) is NOT that: x *= x[0] *)
Lemma P_vec_elem_literal_refuted :
  c01_vec_elem_literal c01_Z_ops (fun _ a k => a * k)%Z [2; 3; 4]%Z 0 = [4; 12; 16]%Z /\
  c01_vec_elem c01_Z_ops (fun _ a k => a * k)%Z [2; 3; 4]%Z 0 = [4; 6; 8]%Z.
Proof. split; vm_compute; reflexivity. Qed.
