(* C01 — proofs, part 3: matrix-matrix products, left/right multiplication, transposition, matrix vector-space part. *)
From Coq Require Import List ZArith Bool Arith Lia Ring.
From DuneV Require Import C01_Model C01_Spec C01_Proofs C01_Proofs_Ops.
Import ListNotations.

Lemma c01_for_inv : forall (S : Type) (Inv : nat -> S -> Prop) n (body : nat -> S -> S) s,
  Inv 0 s -> (forall i t, i < n -> Inv i t -> Inv (Datatypes.S i) (body i t)) -> Inv n (c01_for n body s).
Proof.
  induction n; intros.
  - rewrite c01_for_0. auto.
  - rewrite c01_for_S. apply H0; auto.
Qed.

Lemma c01_upd_ge : forall (T : Type) (l : list T) i v, length l <= i -> c01_upd l i v = l.
Proof. induction l; destruct i; simpl; intros; try lia; auto. f_equal. apply IHl. lia. Qed.

Section Mul.
Context {R : Type} (K : c01_ops R).
Local Notation zero := (c01_O K).
Local Notation one := (c01_I K).
Local Notation add := (c01_add K).
Local Notation mul := (c01_mul K).
Local Notation sub := (c01_sub K).
Local Notation opp := (c01_opp K).
Local Notation conj := (c01_conj K).
Local Notation wf := (@c01s_wf R).
Local Notation get := (c01_get K).
Hypothesis Rth : ring_theory zero one add mul sub opp (@eq R).
Add Ring C01Ring3 : Rth.

(* ------------------------------------------------------------------ entries of a matrix under single-entry stores *)
Lemma c01_set2_wf : forall r c T i j v, wf r c T -> wf r c (c01_set2 T i j v).
Proof.
  intros r c T i j v W. destruct (Nat.lt_ge_cases i (length T)) as [Hi|Hi].
  2: { unfold c01_set2. rewrite c01_upd_ge by auto. auto. }
  destruct W as [L F]. unfold c01s_wf, c01_set2. split. { rewrite c01_upd_length. auto. }
  rewrite Forall_forall in *. intros row Hin.
  destruct (In_nth _ _ [] Hin) as [k [Hk E]]. rewrite c01_upd_length in Hk.
  rewrite c01_nth_upd in E by auto.
  destruct (Nat.eqb_spec i k).
  - subst. rewrite c01_upd_length. apply F. unfold c01_row. apply nth_In. lia.
  - subst. apply F. apply nth_In. auto.
Qed.

Lemma c01_get_set2 : forall r c T i j v i' j', wf r c T -> i < r -> j < c ->
  get (c01_set2 T i j v) i' j' = if Nat.eqb i i' && Nat.eqb j j' then v else get T i' j'.
Proof.
  intros r c T i j v i' j' W Hi Hj. unfold c01_get, c01_set2, c01_at. unfold c01_row at 1.
  assert (LT : length T = r) by (destruct W; auto).
  rewrite c01_nth_upd by lia.
  destruct (Nat.eqb_spec i i'); simpl; auto. subst i'.
  rewrite c01_nth_upd by (rewrite (c01_wf_row r c T i); auto).
  destruct (Nat.eqb_spec j j'); auto.
Qed.

Lemma c01_mat_ext : forall r c A B, wf r c A -> wf r c B ->
  (forall i j, i < r -> j < c -> get A i j = get B i j) -> A = B.
Proof.
  intros r c A B WA WB E. assert (LA : length A = r) by (destruct WA; auto). assert (LB : length B = r) by (destruct WB; auto).
  apply nth_ext with (d := []) (d' := []); [lia|]. intros i Hi.
  apply (c01_list_ext K).
  - fold (c01_row A i). fold (c01_row B i). rewrite (c01_wf_row r c A), (c01_wf_row r c B); auto; lia.
  - intros j Hj. fold (c01_row A i) in *. rewrite (c01_wf_row r c A) in Hj by (auto; lia). apply (E i j); lia.
Qed.

Lemma c01_mzero_wf : forall r c, wf r c (c01_mzero K r c).
Proof.
  intros. unfold c01s_wf, c01_mzero. split. apply repeat_length.
  rewrite Forall_forall. intros row Hin. apply repeat_spec in Hin. subst. apply c01_vzero_length.
Qed.

(* ------------------------------------------------------------------ double loops storing one entry per iteration *)
Lemma c01_entry_loop2 : forall (W : list (list R) -> Prop) (g : list (list R) -> nat -> nat -> R) r p
    (G : nat -> nat -> list (list R) -> list (list R)) (E : nat -> nat -> R) T0,
  (forall i j T, i < r -> j < p -> W T ->
     W (G i j T) /\ forall i' j', i' < r -> j' < p -> g (G i j T) i' j' = if Nat.eqb i i' && Nat.eqb j j' then E i j else g T i' j') ->
  W T0 ->
  W (c01_for r (fun i T => c01_for p (fun j T => G i j T) T) T0) /\
  forall i j, i < r -> j < p -> g (c01_for r (fun i T => c01_for p (fun j T => G i j T) T) T0) i j = E i j.
Proof.
  intros W g r p G E T0 HG W0.
  assert (X : W (c01_for r (fun i T => c01_for p (fun j T => G i j T) T) T0) /\
              forall i' j', i' < r -> j' < p ->
                g (c01_for r (fun i T => c01_for p (fun j T => G i j T) T) T0) i' j' = if i' <? r then E i' j' else g T0 i' j').
  { apply (c01_for_inv _ (fun i T => W T /\ forall i' j', i' < r -> j' < p -> g T i' j' = if i' <? i then E i' j' else g T0 i' j')).
    - split; auto.
    - intros i T Hi [WT PT].
      assert (Y : W (c01_for p (fun j T => G i j T) T) /\ forall i' j', i' < r -> j' < p ->
               g (c01_for p (fun j T => G i j T) T) i' j' = if (i' <? i) || (Nat.eqb i i' && (j' <? p)) then E i' j' else g T0 i' j').
      { apply (c01_for_inv _ (fun j T' => W T' /\ forall i' j', i' < r -> j' < p ->
               g T' i' j' = if (i' <? i) || (Nat.eqb i i' && (j' <? j)) then E i' j' else g T0 i' j')).
        + split; auto. intros. rewrite PT by auto. rewrite andb_false_r, orb_false_r. auto.
        + intros j T' Hj [WT' PT']. destruct (HG i j T' Hi Hj WT') as [WG PG]. split; auto.
          intros i' j' Hi' Hj'. rewrite PG, PT' by auto.
          destruct (Nat.eqb_spec i i'); destruct (Nat.eqb_spec j j'); destruct (Nat.ltb_spec i' i); destruct (Nat.ltb_spec j' j);
            destruct (Nat.ltb_spec j' (S j)); subst; simpl; try lia; auto. }
      destruct Y as [WY PY]. split; auto. intros i' j' Hi' Hj'. rewrite PY by auto.
      destruct (Nat.eqb_spec i i'); destruct (Nat.ltb_spec i' i); destruct (Nat.ltb_spec j' p); destruct (Nat.ltb_spec i' (S i));
        subst; simpl; try lia; auto. }
  destruct X as [WX PX]. split; auto. intros i j Hi Hj. rewrite PX by auto. destruct (Nat.ltb_spec i r); [auto|lia].
Qed.

(* the innermost accumulation of the product loops:  T[i][j] = 0; for k<n T[i][j] += f k *)
Lemma c01_entry_accumulate : forall r p n (f : nat -> R) i j T, i < r -> j < p -> wf r p T ->
  wf r p (c01_for n (fun k T => c01_set2 T i j (add (get T i j) (f k))) (c01_set2 T i j zero)) /\
  forall i' j', i' < r -> j' < p ->
    get (c01_for n (fun k T => c01_set2 T i j (add (get T i j) (f k))) (c01_set2 T i j zero)) i' j'
    = if Nat.eqb i i' && Nat.eqb j j' then c01_sumf K f (seq 0 n) else get T i' j'.
Proof.
  intros r p n f i j T Hi Hj W.
  assert (X : wf r p (c01_for n (fun k T => c01_set2 T i j (add (get T i j) (f k))) (c01_set2 T i j zero)) /\
    forall i' j', i' < r -> j' < p ->
    get (c01_for n (fun k T => c01_set2 T i j (add (get T i j) (f k))) (c01_set2 T i j zero)) i' j'
    = if Nat.eqb i i' && Nat.eqb j j' then fold_left (fun v k => add v (f k)) (seq 0 n) zero else get T i' j').
  { apply (c01_for_inv _ (fun k T' => wf r p T' /\ forall i' j', i' < r -> j' < p ->
       get T' i' j' = if Nat.eqb i i' && Nat.eqb j j' then fold_left (fun v k => add v (f k)) (seq 0 k) zero else get T i' j')).
    - split. { apply c01_set2_wf; auto. } intros. rewrite (c01_get_set2 r p) by auto. reflexivity.
    - intros k T' Hk [WT PT]. split. { apply c01_set2_wf; auto. }
      intros i' j' Hi' Hj'. rewrite (c01_get_set2 r p) by auto.
      destruct (Nat.eqb i i' && Nat.eqb j j') eqn:E.
      + rewrite seq_S, fold_left_app. rewrite PT by auto. rewrite !Nat.eqb_refl. reflexivity.
      + rewrite PT by auto. rewrite E. reflexivity. }
  destruct X as [WX PX]. split; auto. intros. rewrite PX by auto.
  destruct (Nat.eqb i i' && Nat.eqb j j'); auto. rewrite (c01_fold_add K Rth). ring.
Qed.

(* the triple loop of operator*, leftmultiply, rightmultiply, left/rightmultiplyany, multMatrix *)
Lemma c01_triple_loop : forall r p n (f : nat -> nat -> nat -> R) T0, wf r p T0 ->
  let res := c01_for r (fun i T => c01_for p (fun j T =>
               c01_for n (fun k T => c01_set2 T i j (add (get T i j) (f i j k))) (c01_set2 T i j zero)) T) T0 in
  wf r p res /\ forall i j, i < r -> j < p -> get res i j = c01_sumf K (f i j) (seq 0 n).
Proof.
  intros r p n f T0 W0.
  apply (c01_entry_loop2 (wf r p) get r p (fun i j T => c01_for n (fun k T => c01_set2 T i j (add (get T i j) (f i j k))) (c01_set2 T i j zero))
                         (fun i j => c01_sumf K (f i j) (seq 0 n)) T0); auto.
  intros. apply (c01_entry_accumulate r p n (f i j)); auto.
Qed.

(* entries of the algebraic product *)
Lemma c01_mat_mul_wf : forall r n p A B, wf r n A -> wf r p (c01s_mat_mul K p A B).
Proof.
  intros r n p A B [L F]. unfold c01s_wf, c01s_mat_mul. split. { rewrite map_length. auto. }
  rewrite Forall_forall. intros row Hin. apply in_map_iff in Hin. destruct Hin as [u [E _]]. subst.
  rewrite c01_mat_vec_length. apply c01_transpose_length.
Qed.

Lemma c01_mat_mul_entry : forall r n p A B i j, wf r n A -> wf n p B -> i < r -> j < p ->
  get (c01s_mat_mul K p A B) i j = c01_sumf K (fun k => mul (get A i k) (get B k j)) (seq 0 n).
Proof.
  intros r n p A B i j WA WB Hi Hj. unfold c01_get at 1. unfold c01_row, c01s_mat_mul.
  assert (LA : length A = r) by (destruct WA; auto).
  rewrite nth_indep with (d' := c01s_mat_vec K (c01s_transpose K p B) []) by (rewrite map_length; lia).
  rewrite (map_nth (fun row => c01s_mat_vec K (c01s_transpose K p B) row)). fold (c01_row A i).
  unfold c01_at. rewrite (c01_mat_vec_entry K p n); auto.
  - apply c01_sumf_ext. intros k Hk. rewrite c01_transpose_get by auto. unfold c01_get at 2. ring.
  - apply c01_transpose_wf. destruct WB; auto.
  - apply (c01_wf_row r n); auto.
Qed.

Lemma c01_product_ext : forall r n p A B res, wf r n A -> wf n p B -> wf r p res ->
  (forall i j, i < r -> j < p -> get res i j = c01_sumf K (fun k => mul (get A i k) (get B k j)) (seq 0 n)) ->
  res = c01s_mat_mul K p A B.
Proof.
  intros. apply (c01_mat_ext r p); auto. { apply (c01_mat_mul_wf r n); auto. }
  intros. rewrite (c01_mat_mul_entry r n p) by auto. auto.
Qed.

Lemma P_fm_mul : forall r n p A B, wf r n A -> wf n p B -> c01_fm_mul K r n p A B = c01s_mat_mul K p A B.
Proof.
  intros. destruct (c01_triple_loop r p n (fun i j k => mul (get A i k) (get B k j)) (c01_mzero K r p) (c01_mzero_wf r p)) as [W P].
  apply (c01_product_ext r n p A B); auto.
Qed.

Lemma P_leftmultiply : forall r c A M, wf r c A -> wf r r M -> 0 < r -> c01_leftmultiply K A M = c01s_mat_mul K c M A.
Proof.
  intros r c A M WA WM Hr. unfold c01_leftmultiply.
  replace (c01_rows A) with r by (destruct WA; auto). rewrite (c01_wf_cols r c A) by auto.
  destruct (c01_triple_loop r c r (fun i j k => mul (get M i k) (get A k j)) A WA) as [W P].
  apply (c01_product_ext r r c M A); auto.
Qed.

Lemma P_rightmultiply : forall r c A M, wf r c A -> wf c c M -> 0 < r -> c01_rightmultiply K A M = c01s_mat_mul K c A M.
Proof.
  intros r c A M WA WM Hr. unfold c01_rightmultiply.
  replace (c01_rows A) with r by (destruct WA; auto). rewrite (c01_wf_cols r c A) by auto.
  destruct (c01_triple_loop r c c (fun i j k => mul (get A i k) (get M k j)) A WA) as [W P].
  apply (c01_product_ext r c c A M); auto.
Qed.

Lemma P_leftmultiplyany : forall l r c A M, wf r c A -> wf l r M -> 0 < r -> c01_leftmultiplyany K l A M = c01s_mat_mul K c M A.
Proof.
  intros. unfold c01_leftmultiplyany. replace (c01_rows A) with r by (destruct H; auto). rewrite (c01_wf_cols r c A) by auto.
  apply P_fm_mul; auto.
Qed.

Lemma P_rightmultiplyany : forall l r c A M, wf r c A -> wf c l M -> 0 < r -> c01_rightmultiplyany K l A M = c01s_mat_mul K l A M.
Proof.
  intros. unfold c01_rightmultiplyany. replace (c01_rows A) with r by (destruct H; auto). rewrite (c01_wf_cols r c A) by auto.
  apply P_fm_mul; auto.
Qed.

(* transposed(): AT[j][i] = A[i][j] *)
Lemma P_transposed : forall r c A, wf r c A -> 0 < r -> c01_transposed K A = c01s_transpose K c A.
Proof.
  intros r c A WA Hr. unfold c01_transposed. replace (c01_rows A) with r by (destruct WA; auto). rewrite (c01_wf_cols r c A) by auto.
  destruct (c01_entry_loop2 (wf c r) (fun T i j => get T j i) r c (fun i j T => c01_set2 T j i (get A i j)) (fun i j => get A i j)
              (c01_mzero K c r)) as [W P].
  - intros i j T Hi Hj WT. split. { apply c01_set2_wf; auto. }
    intros i' j' Hi' Hj'. rewrite (c01_get_set2 c r) by auto. rewrite andb_comm. reflexivity.
  - apply c01_mzero_wf.
  - apply (c01_mat_ext c r); auto. { apply c01_transpose_wf. destruct WA; auto. }
    intros j i Hj Hi. rewrite (P i j) by auto. rewrite c01_transpose_get by auto. reflexivity.
Qed.

(* FieldMatrix * Other through Other::mtv on the rows of A; A * transpose(B) through B.mv on the rows of A *)
Lemma c01_rows_loop : forall (F : nat -> list R -> list R) r (T0 : list (list R)), length T0 = r ->
  c01_for r (fun j T => c01_upd T j (F j (c01_row T j))) T0 = map (fun j => F j (c01_row T0 j)) (seq 0 r).
Proof.
  intros F r T0 L. destruct (c01_for_upd_pointwise (list R) [] F r T0) as [L2 P]; [lia|].
  apply nth_ext with (d := []) (d' := []).
  - unfold c01_row. rewrite L2, map_length, seq_length. auto.
  - intros k Hk. unfold c01_row in *. rewrite L2 in Hk. rewrite P. destruct (Nat.ltb_spec k r); [|lia].
    rewrite c01_nth_map_seq by lia. reflexivity.
Qed.

Lemma c01_map_rows : forall (f : list R -> list R) r (A : list (list R)), length A = r ->
  map (fun j => f (c01_row A j)) (seq 0 r) = map f A.
Proof.
  intros f r A L. apply nth_ext with (d := []) (d' := f []).
  - rewrite !map_length, seq_length. auto.
  - intros k Hk. rewrite map_length, seq_length in Hk. rewrite c01_nth_map_seq by auto. rewrite map_nth. reflexivity.
Qed.

Lemma c01_mzero_row : forall r p j, j < r -> length (c01_row (c01_mzero K r p) j) = p.
Proof. intros. apply (c01_wf_row r p); auto. apply c01_mzero_wf. Qed.

Lemma P_mul_via_mtv : forall (mtvB : list R -> list R -> list R) r c p A B, wf r c A ->
  (forall x y, length x = c -> length y = p -> mtvB x y = c01s_assign K C01_T p B x) ->
  c01_mul_via_mtv K mtvB r p A = c01s_mat_mul K p A B.
Proof.
  intros mtvB r c p A B WA HB. unfold c01_mul_via_mtv.
  assert (LA : length A = r) by (destruct WA; auto).
  rewrite (c01_rows_loop (fun j row => mtvB (c01_row A j) row) r) by (destruct (c01_mzero_wf r p); auto).
  unfold c01s_mat_mul. rewrite <- (c01_map_rows (fun row => c01s_mat_vec K (c01s_transpose K p B) row) r A LA).
  apply map_ext_in. intros j Hj. apply in_seq in Hj.
  rewrite HB. { reflexivity. } { apply (c01_wf_row r c); auto; lia. } { apply c01_mzero_row. lia. }
Qed.

Lemma c01_transpose_involutive : forall p c B, wf p c B -> c01s_transpose K p (c01s_transpose K c B) = B.
Proof.
  intros p c B WB. apply (c01_mat_ext p c); auto. { apply c01_transpose_wf. apply c01_transpose_length. }
  intros i j Hi Hj. rewrite !c01_transpose_get by auto. reflexivity.
Qed.

Lemma P_mul_by_transposed : forall (mvB : list R -> list R -> list R) r c p A B, wf r c A -> wf p c B ->
  (forall x y, length x = c -> length y = p -> mvB x y = c01s_assign K C01_N c B x) ->
  c01_mul_by_transposed K mvB r p A = c01s_mat_mul K p A (c01s_transpose K c B).
Proof.
  intros mvB r c p A B WA WB HB. unfold c01_mul_by_transposed.
  assert (LA : length A = r) by (destruct WA; auto).
  rewrite (c01_rows_loop (fun j row => mvB (c01_row A j) row) r) by (destruct (c01_mzero_wf r p); auto).
  unfold c01s_mat_mul. rewrite (c01_transpose_involutive p c B WB).
  rewrite <- (c01_map_rows (fun row => c01s_mat_vec K B row) r A LA).
  apply map_ext_in. intros j Hj. apply in_seq in Hj.
  rewrite HB. { reflexivity. } { apply (c01_wf_row r c); auto; lia. } { apply c01_mzero_row. lia. }
Qed.
End Mul.

Section Bundles3.
Context {R : Type} (K : c01_ops R).
Hypothesis Rth : ring_theory (c01_O K) (c01_I K) (c01_add K) (c01_mul K) (c01_sub K) (c01_opp K) (@eq R).

Lemma P_products : forall r c p (A B Bt M Mr Ml Mc : list (list R)),
  c01s_wf r c A -> c01s_wf c p B -> c01s_wf p c Bt -> c01s_wf r r M -> c01s_wf c c Mr -> c01s_wf p r Ml -> c01s_wf c p Mc ->
  0 < r -> 0 < c -> 0 < p ->
  c01_fm_mul K r c p A B = c01s_mat_mul K p A B /\
  c01_leftmultiply K A M = c01s_mat_mul K c M A /\
  c01_rightmultiply K A Mr = c01s_mat_mul K c A Mr /\
  c01_leftmultiplyany K p A Ml = c01s_mat_mul K c Ml A /\
  c01_rightmultiplyany K p A Mc = c01s_mat_mul K p A Mc /\
  c01_mul_via_mtv K (c01_mtv K B) r p A = c01s_mat_mul K p A B /\
  c01_mul_via_mtv K (c01_tw_mtv (c01_mv K Bt)) r p A = c01s_mat_mul K p A (c01s_transpose K c Bt) /\
  c01_mul_by_transposed K (c01_mv K Bt) r p A = c01s_mat_mul K p A (c01s_transpose K c Bt) /\
  c01_transposed K A = c01s_transpose K c A /\
  c01_tw_asdense K A = c01s_transpose K c A.
Proof.
  intros r c p A B Bt M Mr Ml Mc WA WB WBt WM WMr WMl WMc Hr Hc Hp.
  assert (MVBt : forall x y, length x = c -> length y = p -> c01_mv K Bt x y = c01s_assign K C01_N c Bt x).
  { intros. apply (P_mv K Rth p c); auto. }
  repeat split.
  - apply (P_fm_mul K Rth); auto.
  - apply (P_leftmultiply K Rth r c); auto.
  - apply (P_rightmultiply K Rth r c); auto.
  - apply (P_leftmultiplyany K Rth p r c); auto.
  - apply (P_rightmultiplyany K Rth p r c); auto.
  - apply P_mul_via_mtv with (c := c); auto. intros. apply (P_mtv K Rth c p); auto.
  - apply P_mul_by_transposed; auto.
  - apply P_mul_by_transposed; auto.
  - apply P_transposed with (r := r); auto.
  - apply P_transposed with (r := r); auto.
Qed.

(* products with a diagonal right factor go through the diagonal mtv / mv kernels *)
Lemma P_products_diag : c01_conj K (c01_O K) = c01_O K -> forall r (A : list (list R)) (d : list R),
  c01s_wf r (length d) A ->
  c01_mul_via_mtv K (c01_dg_mtv K d) r (length d) A = c01s_mat_mul K (length d) A (c01s_diag K d) /\
  c01_mul_by_transposed K (c01_dg_mv K d) r (length d) A = c01s_mat_mul K (length d) A (c01s_transpose K (length d) (c01s_diag K d)).
Proof.
  intros Cz r A d WA. split.
  - apply P_mul_via_mtv with (c := length d); auto. intros. apply (P_dg_mtv K Rth Cz); auto.
  - apply P_mul_by_transposed; auto. apply c01_diag_wf.
    intros. apply (P_dg_mv K Rth Cz); auto.
Qed.

(* the transposed wrapper forwards mv to the wrapped mtv and mtv to the wrapped mv: it acts as A^T *)
Lemma P_wrapper : forall r c (A : list (list R)) x y x' y', c01s_wf r c A -> 0 < r -> 0 < c ->
  length x = r -> length y = c -> length x' = c -> length y' = r ->
  c01_tw_mv (c01_mtv K A) x y = c01s_assign K C01_N r (c01s_transpose K c A) x /\
  c01_tw_mtv (c01_mv K A) x' y' = c01s_assign K C01_T r (c01s_transpose K c A) x'.
Proof.
  intros r c A x y x' y' WA Hr Hc Hx Hy Hx' Hy'. unfold c01_tw_mv, c01_tw_mtv. split.
  - rewrite (P_mtv K Rth r c) by auto. reflexivity.
  - rewrite (P_mv K Rth r c) by auto. unfold c01s_assign. simpl.
    rewrite c01_transpose_involutive by auto. reflexivity.
Qed.
End Bundles3.
