(* C01 — proofs, part 7: DenseMatrix unary minus (checked stores) and comparison. *)
From Coq Require Import List ZArith Bool Arith Lia Ring.
From DuneV Require Import C01_Model C01_Spec C01_Proofs C01_Proofs_Ops C01_Proofs_Mul C01_Proofs_Views.
Import ListNotations.

Section Neg.
Context {R : Type} (K : c01_ops R).
Local Notation zero := (c01_O K).
Local Notation opp := (c01_opp K).
Local Notation wf := (@c01s_wf R).
Local Notation get := (c01_get K).

(* with a result object of the right shape every checked store succeeds: the option loop is the plain loop *)
Lemma c01_mneg_plain : forall r c (A res0 : list (list R)), wf r c res0 ->
  c01_for r (fun i s =>
    c01_for c (fun j s => match s with
                          | None => None
                          | Some res => if (i <? length res) && (j <? length (c01_row res i))
                                        then Some (c01_set2 res i j (opp (get A i j))) else None
                          end) s) (Some res0)
  = Some (c01_for r (fun i T => c01_for c (fun j T => c01_set2 T i j (opp (get A i j))) T) res0).
Proof.
  intros r c A res0 W0.
  assert (X : forall n, n <= r ->
     c01_for n (fun i s =>
        c01_for c (fun j s => match s with
                          | None => None
                          | Some res => if (i <? length res) && (j <? length (c01_row res i))
                                        then Some (c01_set2 res i j (opp (get A i j))) else None
                          end) s) (Some res0)
     = Some (c01_for n (fun i T => c01_for c (fun j T => c01_set2 T i j (opp (get A i j))) T) res0)
     /\ wf r c (c01_for n (fun i T => c01_for c (fun j T => c01_set2 T i j (opp (get A i j))) T) res0)).
  { induction n; intros Hn.
    - rewrite !c01_for_0. auto.
    - destruct IHn as [E WT]; [lia|]. rewrite !c01_for_S, E.
      set (T := c01_for n _ res0) in *.
      assert (Y : forall m, m <= c ->
        c01_for m (fun j s => match s with
                          | None => None
                          | Some res => if (n <? length res) && (j <? length (c01_row res n))
                                        then Some (c01_set2 res n j (opp (get A n j))) else None
                          end) (Some T)
        = Some (c01_for m (fun j T => c01_set2 T n j (opp (get A n j))) T)
        /\ wf r c (c01_for m (fun j T => c01_set2 T n j (opp (get A n j))) T)).
      { induction m; intros Hm.
        - rewrite !c01_for_0. auto.
        - destruct IHm as [E2 W2]; [lia|]. rewrite !c01_for_S, E2.
          set (T2 := c01_for m _ T) in *.
          assert (L2 : length T2 = r) by (destruct W2; auto).
          rewrite (c01_wf_row r c T2 n W2) by lia.
          destruct (Nat.ltb_spec n (length T2)); [|lia]. destruct (Nat.ltb_spec m c); [|lia]. simpl.
          split; auto. apply c01_set2_wf; auto. }
      apply Y. lia. }
  apply X. lia.
Qed.

Lemma P_mneg : forall r c (A res0 : list (list R)), wf r c A -> wf r c res0 -> 0 < r ->
  c01_mneg_from K res0 A = Some (c01s_mopp K A).
Proof.
  intros r c A res0 WA W0 Hr. unfold c01_mneg_from.
  replace (c01_rows A) with r by (destruct WA; auto). rewrite (c01_wf_cols r c A) by auto.
  rewrite (c01_mneg_plain r c A res0 W0). f_equal.
  destruct (c01_set_loop2 K r c (fun i j => opp (get A i j)) res0 W0) as [W P].
  apply (c01_mat_ext K r c); auto. { apply (c01_mapm_wf opp); auto. }
  intros. rewrite P by auto. unfold c01s_mopp, c01s_vopp. rewrite (c01_mapm_entry K opp r c) by auto. reflexivity.
Qed.

(* the empty result of a default-constructed DynamicMatrix: the first store is out of bounds *)
Lemma P_mneg_empty_result : forall (a : R) (row : list R) (A : list (list R)), c01_mneg_from K [] ((a :: row) :: A) = None.
Proof.
  intros. unfold c01_mneg_from, c01_for. simpl.
  assert (N : forall l, fold_left (fun (s : option (list (list R))) (j : nat) =>
              match s with
              | None => None
              | Some res => if (0 <? length res) && (j <? length (c01_row res 0)) then Some (c01_set2 res 0 j (opp (get ((a :: row) :: A) 0 j))) else None
              end) l None = None).
  { induction l; simpl; auto. }
  rewrite N.
  apply (c01_fold_none (list (list R)) (fun i s => fold_left (fun (s : option (list (list R))) (j : nat) =>
              match s with
              | None => None
              | Some res => if (i <? length res) && (j <? length (c01_row res i)) then Some (c01_set2 res i j (opp (get ((a :: row) :: A) i j))) else None
              end) (0 :: seq 1 (length row)) s)).
  intros i. simpl. clear. generalize (seq 1 (length row)). induction l; simpl; auto.
Qed.

(* == on matrices: all rows equal *)
Lemma P_meq : forall r c (A B : list (list R)), wf r c A -> wf r c B -> c01_meq K A B = c01s_meqb K A B.
Proof.
  intros r c A B WA WB. unfold c01_meq, c01_for. rewrite (c01_fold_andb (fun i => c01_veq K (c01_row A i) (c01_row B i))). simpl.
  replace (c01_rows A) with r by (destruct WA; auto).
  revert A B WA WB. induction r; intros; destruct A as [|a A]; destruct B as [|b B]; destruct WA as [LA FA]; destruct WB as [LB FB];
    simpl in *; try lia; auto.
  inversion FA; inversion FB; subst. rewrite (c01_forallb_seq_shift (fun i => c01_veq K (c01_row (a :: A) i) (c01_row (b :: B) i))).
  f_equal. { apply (P_veq K). lia. }
  apply IHr; split; auto; lia.
Qed.
End Neg.
