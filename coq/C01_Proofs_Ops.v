(* C01 — proofs, part 2: diagonal kernels, vector-space operations, dot products, comparison. *)
From Coq Require Import List ZArith Bool Arith Lia Ring.
From DuneV Require Import C01_Model C01_Spec C01_Proofs.
Import ListNotations.

Section Ops.
Context {R : Type} (K : c01_ops R).
Local Notation zero := (c01_O K).
Local Notation one := (c01_I K).
Local Notation add := (c01_add K).
Local Notation mul := (c01_mul K).
Local Notation sub := (c01_sub K).
Local Notation opp := (c01_opp K).
Local Notation conj := (c01_conj K).
Hypothesis Rth : ring_theory zero one add mul sub opp (@eq R).
Add Ring C01Ring2 : Rth.

(* ------------------------------------------------------------------ one loop over the components of a vector *)
Lemma c01_vec_loop : forall (F : nat -> R -> R) (x : list R),
  length (c01_for (length x) (fun i v => c01_upd v i (F i (c01_at K v i))) x) = length x /\
  forall k, k < length x -> nth k (c01_for (length x) (fun i v => c01_upd v i (F i (c01_at K v i))) x) zero = F k (nth k x zero).
Proof.
  intros. destruct (c01_for_upd_pointwise R zero F (length x) x) as [L P]; [lia|].
  split; [exact L|]. intros k Hk. unfold c01_at. rewrite P. destruct (Nat.ltb_spec k (length x)); [auto|lia].
Qed.

(* same loop with an explicit bound n and start vector (fresh results, diagonal kernels) *)
Lemma c01_vec_loop_n : forall (F : nat -> R -> R) n (y : list R), n <= length y ->
  length (c01_for n (fun i v => c01_upd v i (F i (c01_at K v i))) y) = length y /\
  forall k, nth k (c01_for n (fun i v => c01_upd v i (F i (c01_at K v i))) y) zero = if k <? n then F k (nth k y zero) else nth k y zero.
Proof. intros. apply (c01_for_upd_pointwise R zero F n y). auto. Qed.

Lemma c01_vzero_length : forall n, length (c01_vzero K n) = n.
Proof. intros. apply repeat_length. Qed.

Ltac vec_ext := apply (c01_list_ext K).

Lemma P_vadd : forall x y, length y = length x -> c01_vadd K x y = c01s_vadd K x y.
Proof.
  intros. unfold c01_vadd. destruct (c01_vec_loop (fun i v => add v (c01_at K y i)) x) as [L P].
  vec_ext. { rewrite L. unfold c01s_vadd. rewrite c01s_map2_length. lia. }
  intros k Hk. rewrite L in Hk. rewrite P by auto. unfold c01s_vadd.
  rewrite (c01s_map2_nth _ _ _ add x y k zero zero zero) by lia. reflexivity.
Qed.

Lemma P_vsub : forall x y, length y = length x -> c01_vsub K x y = c01s_vsub K x y.
Proof.
  intros. unfold c01_vsub. destruct (c01_vec_loop (fun i v => sub v (c01_at K y i)) x) as [L P].
  vec_ext. { rewrite L. unfold c01s_vsub. rewrite c01s_map2_length. lia. }
  intros k Hk. rewrite L in Hk. rewrite P by auto. unfold c01s_vsub.
  rewrite (c01s_map2_nth _ _ _ sub x y k zero zero zero) by lia. reflexivity.
Qed.

Lemma c01_nth_map_in : forall (f : R -> R) (x : list R) k, k < length x -> nth k (map f x) zero = f (nth k x zero).
Proof. intros. rewrite nth_indep with (d' := f zero) by (rewrite map_length; auto). apply map_nth. Qed.

Lemma c01_vec_map : forall (f : R -> R) x, c01_for (length x) (fun i v => c01_upd v i (f (c01_at K v i))) x = map f x.
Proof.
  intros. destruct (c01_vec_loop (fun _ v => f v) x) as [L P].
  vec_ext. { rewrite L, map_length. auto. }
  intros k Hk. rewrite L in Hk. rewrite P by auto. rewrite c01_nth_map_in by auto. reflexivity.
Qed.

Lemma P_vadds : forall x k, c01_vadds K x k = map (fun a => add a k) x.
Proof. intros. apply (c01_vec_map (fun a => add a k)). Qed.
Lemma P_vsubs : forall x k, c01_vsubs K x k = map (fun a => sub a k) x.
Proof. intros. apply (c01_vec_map (fun a => sub a k)). Qed.
Lemma P_vscale : forall x k, c01_vscale K x k = c01s_vscale K k x.
Proof.
  intros. unfold c01_vscale. rewrite (c01_vec_map (fun a => mul a k)). unfold c01s_vscale.
  apply map_ext. intros. ring.
Qed.

Lemma P_vaxpy : forall x a y, length y = length x -> c01_vaxpy K x a y = c01s_vadd K x (c01s_vscale K a y).
Proof.
  intros. unfold c01_vaxpy. destruct (c01_vec_loop (fun i v => add v (mul a (c01_at K y i))) x) as [L P].
  vec_ext. { rewrite L. unfold c01s_vadd, c01s_vscale. rewrite c01s_map2_length, map_length. lia. }
  intros k Hk. rewrite L in Hk. rewrite P by auto. unfold c01s_vadd, c01s_vscale.
  rewrite (c01s_map2_nth _ _ _ add x (map (mul a) y) k zero zero zero) by (rewrite ?map_length; lia).
  rewrite c01_nth_map_in by lia. reflexivity.
Qed.

(* fresh-result loops: result[i] = g i, starting from n zeros *)
Lemma c01_fresh_loop : forall (g : nat -> R) n,
  c01_for n (fun i res => c01_upd res i (g i)) (c01_vzero K n) = map g (seq 0 n).
Proof.
  intros. destruct (c01_vec_loop_n (fun i _ => g i) n (c01_vzero K n)) as [L P]. { rewrite c01_vzero_length. lia. }
  vec_ext. { rewrite L, c01_vzero_length, map_length, seq_length. auto. }
  intros k Hk. rewrite L, c01_vzero_length in Hk. rewrite P. destruct (Nat.ltb_spec k n); [|lia].
  rewrite c01_nth_map_seq by auto. reflexivity.
Qed.

Lemma c01_map_seq_nth : forall (f : R -> R) (x : list R), map (fun i => f (c01_at K x i)) (seq 0 (length x)) = map f x.
Proof.
  intros. vec_ext. { rewrite !map_length, seq_length. auto. }
  intros k Hk. rewrite map_length, seq_length in Hk.
  rewrite c01_nth_map_seq by auto. rewrite c01_nth_map_in by auto. reflexivity.
Qed.

Lemma P_fv_muls : forall x k, c01_fv_muls K x k = c01s_vscale K k x.
Proof.
  intros. unfold c01_fv_muls. rewrite (c01_fresh_loop (fun i => mul (c01_at K x i) k)).
  rewrite (c01_map_seq_nth (fun a => mul a k)). unfold c01s_vscale. apply map_ext. intros. ring.
Qed.

Lemma P_fv_smul : forall k x, c01_fv_smul K k x = c01s_vscale K k x.
Proof.
  intros. unfold c01_fv_smul. rewrite (c01_fresh_loop (fun i => mul k (c01_at K x i))).
  apply (c01_map_seq_nth (fun a => mul k a)).
Qed.

(* unary minus: with a result object of the right size every checked store succeeds ... *)
Lemma c01_vneg_loop : forall (x : list R) n res0, n <= length res0 ->
  c01_for n (fun i s => match s with
                        | None => None
                        | Some res => if i <? length res then Some (c01_upd res i (opp (c01_at K x i))) else None
                        end) (Some res0)
  = Some (c01_for n (fun i res => c01_upd res i (opp (c01_at K x i))) res0).
Proof.
  induction n; intros.
  - reflexivity.
  - rewrite !c01_for_S, IHn by lia.
    destruct (c01_vec_loop_n (fun i _ => opp (c01_at K x i)) n res0) as [L _]; [lia|].
    change (fun i v => c01_upd v i (opp (c01_at K x i))) with (fun i (res : list R) => c01_upd res i (opp (c01_at K x i))) in L.
    rewrite L. destruct (Nat.ltb_spec n (length res0)); [reflexivity|lia].
Qed.

Lemma P_vneg : forall res0 x, length res0 = length x -> c01_vneg_from K res0 x = Some (c01s_vopp K x).
Proof.
  intros. unfold c01_vneg_from. rewrite c01_vneg_loop by lia. f_equal.
  destruct (c01_vec_loop_n (fun i _ => opp (c01_at K x i)) (length x) res0) as [L P]; [lia|].
  vec_ext. { rewrite L. unfold c01s_vopp. rewrite map_length. auto. }
  intros k Hk. rewrite L in Hk. rewrite P. destruct (Nat.ltb_spec k (length x)); [|lia].
  unfold c01s_vopp. rewrite c01_nth_map_in by lia. reflexivity.
Qed.

(* ... and with the empty result of a default-constructed DynamicVector the very first store is out of bounds *)
Lemma c01_fold_none : forall (T : Type) (body : nat -> option T -> option T) l,
  (forall i, body i None = None) -> fold_left (fun s i => body i s) l None = None.
Proof. induction l; simpl; intros; auto. rewrite H. auto. Qed.

Lemma P_vneg_empty_result : forall a x, c01_vneg_from K [] (a :: x) = None.
Proof.
  intros. unfold c01_vneg_from, c01_for. simpl. apply c01_fold_none. reflexivity.
Qed.

(* dot products *)
Lemma P_vdotT : forall x y, length y = length x -> c01_vdotT K x y = c01s_dot K x y.
Proof.
  intros. unfold c01_vdotT, c01_for. rewrite (c01_fold_add K Rth (fun i => mul (c01_at K x i) (c01_at K y i))).
  rewrite (c01_dot_sumf K (length x)) by auto. unfold c01_at. ring.
Qed.

Lemma P_vdot : forall x y, length y = length x -> c01_vdot K x y = c01s_hdot K x y.
Proof.
  intros. unfold c01_vdot, c01_for, c01s_hdot.
  rewrite (c01_fold_add K Rth (fun i => mul (conj (c01_at K x i)) (c01_at K y i))).
  rewrite (c01_dot_sumf K (length x)) by (rewrite ?map_length; auto).
  transitivity (c01_sumf K (fun i => mul (conj (c01_at K x i)) (c01_at K y i)) (seq 0 (length x))); [ring|].
  apply c01_sumf_ext. intros j Hj. apply in_seq in Hj. unfold c01_at.
  rewrite c01_nth_map_in by lia. reflexivity.
Qed.

(* comparison *)
Lemma c01_fold_andb : forall (e : nat -> bool) l b,
  fold_left (fun (b : bool) i => if b then e i else false) l b = b && forallb e l.
Proof.
  induction l; simpl; intros. { rewrite andb_true_r. auto. }
  rewrite IHl. destruct b; simpl; auto.
Qed.

Lemma c01_forallb_seq_shift : forall (e : nat -> bool) n, forallb e (seq 1 n) = forallb (fun i => e (S i)) (seq 0 n).
Proof.
  intros. rewrite <- seq_shift. generalize (seq 0 n). induction l; simpl; auto. rewrite IHl. auto.
Qed.

Lemma c01_veqb_forallb : forall n x y, length x = n -> length y = n ->
  c01s_veqb K x y = forallb (fun i => c01_eqb K (c01_at K x i) (c01_at K y i)) (seq 0 n).
Proof.
  induction n; intros; destruct x; destruct y; simpl in *; try lia; auto.
  rewrite c01_forallb_seq_shift. f_equal. apply IHn; lia.
Qed.

Lemma P_veq : forall x y, length y = length x -> c01_veq K x y = c01s_veqb K x y.
Proof.
  intros. unfold c01_veq, c01_for. rewrite c01_fold_andb. simpl.
  symmetry. apply c01_veqb_forallb; auto.
Qed.

Lemma P_veqb_decides : (forall a b, c01_eqb K a b = true <-> a = b) ->
  forall x y, length y = length x -> (c01s_veqb K x y = true <-> x = y).
Proof.
  intros E. induction x; destruct y; simpl; intros; try lia.
  - tauto.
  - rewrite andb_true_iff, E, IHx by lia. split.
    + intros [? ?]. subst. auto.
    + intros X. inversion X. auto.
Qed.

(* division by a scalar: the loop computes exactly the componentwise quotients, and they are quotients *)
Lemma c01_vdiv_app : forall x a k, c01s_vdiv K (x ++ [a]) k =
  match c01s_vdiv K x k, c01_div K a k with Some q, Some b => Some (q ++ [b]) | _, _ => None end.
Proof.
  induction x; simpl; intros.
  - destruct (c01_div K a k); auto.
  - rewrite IHx. destruct (c01_div K a k); destruct (c01s_vdiv K x k); destruct (c01_div K a0 k); auto.
Qed.

Lemma c01_vdiv_length : forall x k q, c01s_vdiv K x k = Some q -> length q = length x.
Proof.
  induction x; simpl; intros. { inversion H. auto. }
  destruct (c01_div K a k); [|discriminate]. destruct (c01s_vdiv K x k) eqn:E; [|discriminate].
  inversion H. simpl. f_equal. apply (IHx k). auto.
Qed.

Lemma c01_upd_app : forall (T : Type) (q : list T) a rest v, c01_upd (q ++ a :: rest) (length q) v = q ++ v :: rest.
Proof. induction q; simpl; intros; auto. f_equal. apply IHq. Qed.

Lemma c01_split_at : forall (T : Type) (x : list T) n, n < length x ->
  exists a, skipn n x = a :: skipn (S n) x /\ firstn (S n) x = firstn n x ++ [a].
Proof.
  induction x; intros n H; simpl in H; [lia|]. destruct n.
  - exists a. split; reflexivity.
  - destruct (IHx n) as [b [X Y]]; [lia|]. exists b. split.
    + change (skipn (S n) (a :: x)) with (skipn n x). change (skipn (S (S n)) (a :: x)) with (skipn (S n) x). exact X.
    + change (firstn (S (S n)) (a :: x)) with (a :: firstn (S n) x). rewrite Y. reflexivity.
Qed.

Lemma c01_vdiv_inv : forall x k n, n <= length x ->
  c01_for n (fun i s => match s with
                        | None => None
                        | Some v => match c01_div K (c01_at K v i) k with
                                    | None => None
                                    | Some q => Some (c01_upd v i q)
                                    end
                        end) (Some x)
  = match c01s_vdiv K (firstn n x) k with Some q => Some (q ++ skipn n x) | None => None end.
Proof.
  induction n; intros.
  - rewrite c01_for_0. reflexivity.
  - rewrite c01_for_S, IHn by lia.
    destruct (c01_split_at R x n) as [a [E1 E2]]; [lia|].
    rewrite E2, c01_vdiv_app.
    destruct (c01s_vdiv K (firstn n x) k) eqn:E; auto.
    assert (Lq : length l = n). { rewrite (c01_vdiv_length _ _ _ E). rewrite firstn_length. lia. }
    rewrite E1. unfold c01_at. rewrite app_nth2 by lia. rewrite Lq, Nat.sub_diag. simpl.
    destruct (c01_div K a k); auto. f_equal. rewrite <- Lq at 1. rewrite c01_upd_app. rewrite <- app_assoc. reflexivity.
Qed.

Lemma P_vdiv : forall x k, c01_vdiv K x k = c01s_vdiv K x k.
Proof.
  intros. unfold c01_vdiv. rewrite c01_vdiv_inv by lia. rewrite firstn_all, skipn_all.
  destruct (c01s_vdiv K x k); auto. rewrite app_nil_r. auto.
Qed.

Lemma P_vdiv_quotient : (forall a k q, c01_div K a k = Some q -> mul q k = a) ->
  forall x k q, c01s_vdiv K x k = Some q -> c01s_vscale K k q = x.
Proof.
  intros D. induction x; simpl; intros.
  - inversion H. reflexivity.
  - destruct (c01_div K a k) eqn:E; [|discriminate]. destruct (c01s_vdiv K x k) eqn:E2; [|discriminate].
    inversion H. simpl. f_equal. { rewrite <- (D _ _ _ E). ring. } apply IHx. auto.
Qed.

(* ------------------------------------------------------------------ DiagonalMatrix kernels = the definitions on diag(d) *)
Lemma c01_diag_wf : forall d, c01s_wf (length d) (length d) (c01s_diag K d).
Proof.
  intros. unfold c01s_wf, c01s_diag. split. { rewrite map_length, seq_length. auto. }
  rewrite Forall_forall. intros row Hin. apply in_map_iff in Hin. destruct Hin as [i [E _]]. subst.
  rewrite map_length, seq_length. auto.
Qed.

Lemma c01_diag_get : forall d i j, i < length d -> j < length d ->
  c01_get K (c01s_diag K d) i j = if Nat.eqb i j then c01_at K d i else zero.
Proof.
  intros. unfold c01_get, c01_at, c01_row, c01s_diag.
  rewrite (c01_nth_map_seq _ _ (length d) i []) by auto.
  rewrite (c01_nth_map_seq _ _ (length d) j zero) by auto. reflexivity.
Qed.

(* a sum with a single non-zero term *)
Lemma c01_sumf_delta : forall (g : nat -> R) (a : R) k n, k < n ->
  c01_sumf K (fun j => mul (if Nat.eqb k j then a else zero) (g j)) (seq 0 n) = mul a (g k).
Proof.
  intros g a k n. revert k g. induction n; intros; [lia|].
  change (seq 0 (S n)) with (0 :: seq 1 n). rewrite c01_sumf_cons, (c01_sumf_shift K).
  destruct k.
  - simpl. transitivity (add (mul a (g 0)) (c01_sumf K (fun _ => zero) (seq 0 n))).
    + f_equal. apply c01_sumf_ext. intros. ring.
    + rewrite (c01_sumf_zero K Rth). ring.
  - simpl. rewrite (IHn k (fun j => g (S j))) by lia. ring.
Qed.

Lemma c01_diag_mode_sum : forall (Cz : conj zero = zero) m d x k, k < length d ->
  c01_sumf K (fun i => mul (c01_mode_entry K m (c01s_diag K d) k i) (c01_at K x i)) (seq 0 (length d))
  = mul (match m with C01_H => conj (c01_at K d k) | _ => c01_at K d k end) (c01_at K x k).
Proof.
  intros Cz m d x k Hk.
  rewrite <- (c01_sumf_delta (fun i => c01_at K x i) _ k (length d) Hk).
  apply c01_sumf_ext. intros i Hi. apply in_seq in Hi. f_equal.
  destruct m; simpl; rewrite c01_diag_get by lia.
  - reflexivity.
  - rewrite Nat.eqb_sym. destruct (Nat.eqb_spec k i); subst; auto.
  - rewrite Nat.eqb_sym. destruct (Nat.eqb_spec k i); subst; auto.
Qed.

(* every diagonal kernel has the shape  y[i] = comb y[i] (coef i * x[i]) ; the definition has the shape
   map2 comb y (M x)  with  M = op m diag(d) *)
Lemma c01_diag_kernel : forall (Cz : conj zero = zero) (m : c01s_mode) (comb : R -> R -> R) d x y,
  length x = length d -> length y = length d ->
  c01_for (length d) (fun i yy => c01_upd yy i (comb (c01_at K yy i)
      (mul (match m with C01_H => conj (c01_at K d i) | _ => c01_at K d i end) (c01_at K x i)))) y
  = c01s_map2 comb y (c01s_mat_vec K (c01s_op K m (length d) (c01s_diag K d)) x).
Proof.
  intros Cz m comb d x y Hx Hy.
  destruct (c01_vec_loop_n (fun i v => comb v (mul (match m with C01_H => conj (c01_at K d i) | _ => c01_at K d i end) (c01_at K x i))) (length d) y) as [L P]; [lia|].
  assert (LM : length (c01s_mat_vec K (c01s_op K m (length d) (c01s_diag K d)) x) = length d).
  { rewrite (c01_op_length K m (length d) (length d)); [destruct m; auto | apply c01_diag_wf]. }
  vec_ext. { rewrite L, c01s_map2_length, LM. lia. }
  intros k Hk. rewrite L in Hk. rewrite P. destruct (Nat.ltb_spec k (length d)); [|lia].
  rewrite (c01s_map2_nth _ _ _ comb y _ k zero zero zero) by lia.
  rewrite (c01_op_entry K m (length d) (length d)); try (destruct m; auto; lia). 2: apply c01_diag_wf.
  replace (match m with C01_N => length d | _ => length d end) with (length d) by (destruct m; auto).
  rewrite (c01_diag_mode_sum Cz) by auto. reflexivity.
Qed.

Lemma c01_assign_as_map2 : forall (y l : list R), length l = length y -> c01s_map2 (fun (_ : R) (s : R) => s) y l = l.
Proof. induction y; destruct l; simpl; intros; try lia; auto. f_equal. apply IHy. lia. Qed.

Section Diag.
Hypothesis Cz : conj zero = zero.
Variables (d x y : list R).
Hypothesis Hx : length x = length d.
Hypothesis Hy : length y = length d.
Let n := length d.

Lemma P_dg_umv : c01_dg_umv K d x y = c01s_plus K C01_N n (c01s_diag K d) x y.
Proof. apply (c01_diag_kernel Cz C01_N add); auto. Qed.
Lemma P_dg_umtv : c01_dg_umtv K d x y = c01s_plus K C01_T n (c01s_diag K d) x y.
Proof. apply (c01_diag_kernel Cz C01_T add); auto. Qed.
Lemma P_dg_umhv : c01_dg_umhv K d x y = c01s_plus K C01_H n (c01s_diag K d) x y.
Proof. apply (c01_diag_kernel Cz C01_H add); auto. Qed.
Lemma P_dg_mmv : c01_dg_mmv K d x y = c01s_minus K C01_N n (c01s_diag K d) x y.
Proof. apply (c01_diag_kernel Cz C01_N sub); auto. Qed.
Lemma P_dg_mmtv : c01_dg_mmtv K d x y = c01s_minus K C01_T n (c01s_diag K d) x y.
Proof. apply (c01_diag_kernel Cz C01_T sub); auto. Qed.
Lemma P_dg_mmhv : c01_dg_mmhv K d x y = c01s_minus K C01_H n (c01s_diag K d) x y.
Proof. apply (c01_diag_kernel Cz C01_H sub); auto. Qed.


Lemma P_dg_mv : c01_dg_mv K d x y = c01s_assign K C01_N n (c01s_diag K d) x.
Proof.
  unfold c01_dg_mv, c01s_assign.
  rewrite <- (c01_assign_as_map2 y (c01s_mat_vec K (c01s_op K C01_N n (c01s_diag K d)) x)).
  - apply (c01_diag_kernel Cz C01_N (fun _ s => s)); auto.
  - rewrite (c01_op_length K C01_N n n). lia. apply c01_diag_wf.
Qed.
Lemma P_dg_mtv : c01_dg_mtv K d x y = c01s_assign K C01_T n (c01s_diag K d) x.
Proof.
  unfold c01_dg_mtv, c01_dg_mv, c01s_assign.
  rewrite <- (c01_assign_as_map2 y (c01s_mat_vec K (c01s_op K C01_T n (c01s_diag K d)) x)).
  - apply (c01_diag_kernel Cz C01_T (fun _ s => s)); auto.
  - rewrite (c01_op_length K C01_T n n). lia. apply c01_diag_wf.
Qed.

Lemma c01_diag_scaled : forall alpha m,
  c01_for (length d) (fun i yy => c01_upd yy i (add (c01_at K yy i)
      (mul (mul alpha (match m with C01_H => conj (c01_at K d i) | _ => c01_at K d i end)) (c01_at K x i)))) y
  = c01s_plus_scaled K alpha m n (c01s_diag K d) x y.
Proof.
  intros. unfold c01s_plus_scaled, n. rewrite <- (c01_map2_scaled K).
  rewrite <- (c01_diag_kernel Cz m (fun v s => add v (mul alpha s)) d x y); auto.
  apply c01_for_ext. intros. f_equal. f_equal. ring.
Qed.
Lemma P_dg_usmv : forall alpha, c01_dg_usmv K alpha d x y = c01s_plus_scaled K alpha C01_N n (c01s_diag K d) x y.
Proof. intros. apply (c01_diag_scaled alpha C01_N). Qed.
Lemma P_dg_usmtv : forall alpha, c01_dg_usmtv K alpha d x y = c01s_plus_scaled K alpha C01_T n (c01s_diag K d) x y.
Proof. intros. apply (c01_diag_scaled alpha C01_T). Qed.
Lemma P_dg_usmhv : forall alpha, c01_dg_usmhv K alpha d x y = c01s_plus_scaled K alpha C01_H n (c01s_diag K d) x y.
Proof. intros. apply (c01_diag_scaled alpha C01_H). Qed.
End Diag.

End Ops.

Section Bundles2.
Context {R : Type} (K : c01_ops R).
Hypothesis Rth : ring_theory (c01_O K) (c01_I K) (c01_add K) (c01_mul K) (c01_sub K) (c01_opp K) (@eq R).

Lemma P_kernels_diag : c01_conj K (c01_O K) = c01_O K ->
  forall (d x y : list R) (alpha : R), length x = length d -> length y = length d ->
  let n := length d in let D := c01s_diag K d in
  c01_dg_mv K d x y = c01s_assign K C01_N n D x /\ c01_dg_mtv K d x y = c01s_assign K C01_T n D x /\
  c01_dg_umv K d x y = c01s_plus K C01_N n D x y /\ c01_dg_umtv K d x y = c01s_plus K C01_T n D x y /\
  c01_dg_umhv K d x y = c01s_plus K C01_H n D x y /\
  c01_dg_mmv K d x y = c01s_minus K C01_N n D x y /\ c01_dg_mmtv K d x y = c01s_minus K C01_T n D x y /\
  c01_dg_mmhv K d x y = c01s_minus K C01_H n D x y /\
  c01_dg_usmv K alpha d x y = c01s_plus_scaled K alpha C01_N n D x y /\
  c01_dg_usmtv K alpha d x y = c01s_plus_scaled K alpha C01_T n D x y /\
  c01_dg_usmhv K alpha d x y = c01s_plus_scaled K alpha C01_H n D x y.
Proof.
  intros Cz d x y alpha Hx Hy n D. unfold n, D. repeat split.
  - apply (P_dg_mv K Rth Cz); auto.
  - apply (P_dg_mtv K Rth Cz); auto.
  - apply (P_dg_umv K Rth Cz); auto.
  - apply (P_dg_umtv K Rth Cz); auto.
  - apply (P_dg_umhv K Rth Cz); auto.
  - apply (P_dg_mmv K Rth Cz); auto.
  - apply (P_dg_mmtv K Rth Cz); auto.
  - apply (P_dg_mmhv K Rth Cz); auto.
  - apply (P_dg_usmv K Rth Cz); auto.
  - apply (P_dg_usmtv K Rth Cz); auto.
  - apply (P_dg_usmhv K Rth Cz); auto.
Qed.

(* interchangeability: a diagonal matrix and the dense matrix with the same entries give identical results *)
Lemma P_diag_dense_interchangeable : c01_conj K (c01_O K) = c01_O K ->
  forall (d x y : list R) (alpha : R), d <> [] -> length x = length d -> length y = length d ->
  let D := c01s_diag K d in
  c01_dg_mv K d x y = c01_mv K D x y /\ c01_dg_mtv K d x y = c01_mtv K D x y /\
  c01_dg_umv K d x y = c01_umv K D x y /\ c01_dg_umtv K d x y = c01_umtv K D x y /\ c01_dg_umhv K d x y = c01_umhv K D x y /\
  c01_dg_mmv K d x y = c01_mmv K D x y /\ c01_dg_mmtv K d x y = c01_mmtv K D x y /\ c01_dg_mmhv K d x y = c01_mmhv K D x y /\
  c01_dg_usmv K alpha d x y = c01_usmv K alpha D x y /\ c01_dg_usmtv K alpha d x y = c01_usmtv K alpha D x y /\
  c01_dg_usmhv K alpha d x y = c01_usmhv K alpha D x y.
Proof.
  intros Cz d x y alpha Hd Hx Hy D.
  assert (Hn : 0 < length d) by (destruct d; simpl; [congruence | lia]).
  destruct (P_kernels_diag Cz d x y alpha Hx Hy) as (a1 & a2 & a3 & a4 & a5 & a6 & a7 & a8 & a9 & a10 & a11).
  destruct (P_kernels_dense K Rth (length d) (length d) D alpha (c01_diag_wf K d) Hn) as [N T].
  destruct (N x y Hx Hy) as (n1 & n2 & n3 & n4). destruct (T x y Hx Hy) as (t1 & t2 & t3 & t4 & t5 & t6 & t7).
  unfold D in *. repeat split; congruence.
Qed.

Lemma P_vector_space : forall (x y : list R) (a : R), length y = length x ->
  c01_vadd K x y = c01s_vadd K x y /\ c01_vsub K x y = c01s_vsub K x y /\
  c01_vplus K x y = c01s_vadd K x y /\ c01_vminus K x y = c01s_vsub K x y /\
  c01_vadds K x a = map (fun v => c01_add K v a) x /\ c01_vsubs K x a = map (fun v => c01_sub K v a) x /\
  c01_vscale K x a = c01s_vscale K a x /\ c01_fv_muls K x a = c01s_vscale K a x /\ c01_fv_smul K a x = c01s_vscale K a x /\
  c01_vaxpy K x a y = c01s_vadd K x (c01s_vscale K a y) /\
  c01_vdotT K x y = c01s_dot K x y /\ c01_vdot K x y = c01s_hdot K x y /\
  c01_veq K x y = c01s_veqb K x y /\
  c01_vdiv K x a = c01s_vdiv K x a.
Proof.
  intros. repeat split.
  - apply P_vadd; auto. - apply P_vsub; auto. - apply P_vadd; auto. - apply P_vsub; auto.
  - apply P_vadds. - apply P_vsubs. - apply P_vscale; auto. - apply P_fv_muls; auto. - apply P_fv_smul.
  - apply P_vaxpy; auto. - apply P_vdotT; auto. - apply P_vdot; auto. - apply P_veq; auto. - apply P_vdiv.
Qed.
End Bundles2.

(* the laws assumed of the carrier hold for the instances the correspondence check runs *)
Lemma P_Z_ring : ring_theory (c01_O c01_Z_ops) (c01_I c01_Z_ops) (c01_add c01_Z_ops) (c01_mul c01_Z_ops) (c01_sub c01_Z_ops) (c01_opp c01_Z_ops) (@eq Z).
Proof. exact Zth. Qed.

Lemma P_G_ring : ring_theory (c01_O c01_G_ops) (c01_I c01_G_ops) (c01_add c01_G_ops) (c01_mul c01_G_ops) (c01_sub c01_G_ops) (c01_opp c01_G_ops) (@eq (Z * Z)).
Proof.
  constructor; intros; repeat match goal with x : (Z * Z)%type |- _ => destruct x end;
    cbv [c01_G_ops c01_O c01_I c01_add c01_mul c01_sub c01_opp c01_G_add c01_G_mul c01_G_sub c01_G_opp fst snd];
    f_equal; ring.
Qed.

Lemma P_G_conj_zero : c01_conj c01_G_ops (c01_O c01_G_ops) = c01_O c01_G_ops.
Proof. reflexivity. Qed.

Lemma P_Z_div : forall a k q, c01_div c01_Z_ops a k = Some q -> c01_mul c01_Z_ops q k = a.
Proof.
  simpl. unfold c01_Z_div. intros a k q. destruct (Z.eqb_spec k 0); [discriminate|].
  destruct (Z.eqb_spec (a mod k) 0); [|discriminate]. intros X. inversion X. subst.
  rewrite Z.mul_comm. symmetry. apply Z_div_exact_full_2; auto.
Qed.
