(* C01 — proofs, part 11: the kernels selected by the tokens of the source (Params_gen.v), the kernels as transformers of the
   three C++ objects (explicit frame: A and x are returned unchanged), aliased in-place products, size-1 / 1x1 objects used
   like scalars, scalar views, transposed wrapper over a diagonal matrix. *)
From Coq Require Import List ZArith Bool Arith Lia Ring.
From DuneV Require Import Params_gen C01_Model C01_Spec C01_Proofs C01_Proofs_Ops C01_Proofs_Mul C01_Proofs_Views.
Import ListNotations.

Lemma c01_for_sim : forall (S1 S2 : Type) (Rel : S1 -> S2 -> Prop) n (b1 : nat -> S1 -> S1) (b2 : nat -> S2 -> S2) s s',
  Rel s s' -> (forall i t t', Rel t t' -> Rel (b1 i t) (b2 i t')) -> Rel (c01_for n b1 s) (c01_for n b2 s').
Proof. induction n; intros. { rewrite !c01_for_0. auto. } rewrite !c01_for_S. apply H0. apply IHn; auto. Qed.

Section Src.
Context {R : Type} (K : c01_ops R).

(* ------------------------------------------------------------------ the descriptor read from densematrix.hh / diagonalmatrix.hh
   builds exactly the literal kernel of the model *)
Lemma P_src_dense : forall (alpha : R) (A : list (list R)) (x y : list R),
  c01_kernel_gen K (c01_kdesc_of c01_param_dense_mv) alpha A x y = c01_mv K A x y /\
  c01_kernel_gen K (c01_kdesc_of c01_param_dense_mtv) alpha A x y = c01_mtv K A x y /\
  c01_kernel_gen K (c01_kdesc_of c01_param_dense_umv) alpha A x y = c01_umv K A x y /\
  c01_kernel_gen K (c01_kdesc_of c01_param_dense_umtv) alpha A x y = c01_umtv K A x y /\
  c01_kernel_gen K (c01_kdesc_of c01_param_dense_umhv) alpha A x y = c01_umhv K A x y /\
  c01_kernel_gen K (c01_kdesc_of c01_param_dense_mmv) alpha A x y = c01_mmv K A x y /\
  c01_kernel_gen K (c01_kdesc_of c01_param_dense_mmtv) alpha A x y = c01_mmtv K A x y /\
  c01_kernel_gen K (c01_kdesc_of c01_param_dense_mmhv) alpha A x y = c01_mmhv K A x y /\
  c01_kernel_gen K (c01_kdesc_of c01_param_dense_usmv) alpha A x y = c01_usmv K alpha A x y /\
  c01_kernel_gen K (c01_kdesc_of c01_param_dense_usmtv) alpha A x y = c01_usmtv K alpha A x y /\
  c01_kernel_gen K (c01_kdesc_of c01_param_dense_usmhv) alpha A x y = c01_usmhv K alpha A x y.
Proof. intros. repeat split; reflexivity. Qed.

Lemma P_src_diag : forall (alpha : R) (d x y : list R),
  c01_dg_kernel_gen K c01_param_diag_mv alpha d x y = c01_dg_mv K d x y /\
  c01_dg_kernel_gen K c01_param_diag_mtv alpha d x y = c01_dg_mtv K d x y /\
  c01_dg_kernel_gen K c01_param_diag_umv alpha d x y = c01_dg_umv K d x y /\
  c01_dg_kernel_gen K c01_param_diag_umtv alpha d x y = c01_dg_umtv K d x y /\
  c01_dg_kernel_gen K c01_param_diag_umhv alpha d x y = c01_dg_umhv K d x y /\
  c01_dg_kernel_gen K c01_param_diag_mmv alpha d x y = c01_dg_mmv K d x y /\
  c01_dg_kernel_gen K c01_param_diag_mmtv alpha d x y = c01_dg_mmtv K d x y /\
  c01_dg_kernel_gen K c01_param_diag_mmhv alpha d x y = c01_dg_mmhv K d x y /\
  c01_dg_kernel_gen K c01_param_diag_usmv alpha d x y = c01_dg_usmv K alpha d x y /\
  c01_dg_kernel_gen K c01_param_diag_usmtv alpha d x y = c01_dg_usmtv K alpha d x y /\
  c01_dg_kernel_gen K c01_param_diag_usmhv alpha d x y = c01_dg_usmhv K alpha d x y.
Proof. intros. repeat split; reflexivity. Qed.

(* ------------------------------------------------------------------ frame: as a transformer of the objects (A, x, y) a kernel —
   ANY kernel the descriptor language can express — returns A and x unchanged and y as computed by the functional kernel *)
Lemma P_kernel_frame : forall (d : c01_kdesc) (alpha : R) (A : list (list R)) (x y : list R),
  c01_kernel_objs K d alpha (C01_Objs A x y) = C01_Objs A x (c01_kernel_gen K d alpha A x y).
Proof.
  intros d alpha A x y. unfold c01_kernel_objs, c01_kernel_gen. simpl c01_oA.
  set (Rel := fun (t : @c01_objs R) (yy : list R) => t = C01_Objs A x yy).
  change (Rel (c01_for (if kd_outer_rows d then c01_rows A else c01_cols A)
     (fun o s => c01_for (if kd_inner_rows d then c01_rows (c01_oA s) else c01_cols (c01_oA s))
        (fun n s0 => C01_Objs (c01_oA s0) (c01_ox s0) (c01_kernel_step K d alpha (c01_oA s0) (c01_ox s0) o n (c01_oy s0)))
        (if kd_reset d then C01_Objs (c01_oA s) (c01_ox s) (c01_upd (c01_oy s) o (c01_O K)) else s)) (C01_Objs A x y))
     (c01_for (if kd_outer_rows d then c01_rows A else c01_cols A)
        (fun o yy => c01_for (if kd_inner_rows d then c01_rows A else c01_cols A) (fun n yy0 => c01_kernel_step K d alpha A x o n yy0)
           (if kd_reset d then c01_upd yy o (c01_O K) else yy)) y)).
  apply c01_for_sim. { reflexivity. }
  intros o t yy Ht. unfold Rel in Ht. subst t. simpl.
  apply c01_for_sim. { unfold Rel. destruct (kd_reset d); reflexivity. }
  intros n t yy0 Ht. unfold Rel in *. subst t. reflexivity.
Qed.

Section WithRing.
Hypothesis Rth : ring_theory (c01_O K) (c01_I K) (c01_add K) (c01_mul K) (c01_sub K) (c01_opp K) (@eq R).

(* the source-selected kernels on the three objects: y becomes the algebraic definition, A and x are unchanged *)
Lemma P_kernels_on_objects : forall r c (A : list (list R)) (alpha : R), c01s_wf r c A -> 0 < r ->
  (forall x y, length x = c -> length y = r ->
     c01_kernel_objs K (c01_kdesc_of c01_param_dense_mv) alpha (C01_Objs A x y) = C01_Objs A x (c01s_assign K C01_N c A x) /\
     c01_kernel_objs K (c01_kdesc_of c01_param_dense_umv) alpha (C01_Objs A x y) = C01_Objs A x (c01s_plus K C01_N c A x y) /\
     c01_kernel_objs K (c01_kdesc_of c01_param_dense_mmv) alpha (C01_Objs A x y) = C01_Objs A x (c01s_minus K C01_N c A x y) /\
     c01_kernel_objs K (c01_kdesc_of c01_param_dense_usmv) alpha (C01_Objs A x y) = C01_Objs A x (c01s_plus_scaled K alpha C01_N c A x y)) /\
  (forall x y, length x = r -> length y = c ->
     c01_kernel_objs K (c01_kdesc_of c01_param_dense_mtv) alpha (C01_Objs A x y) = C01_Objs A x (c01s_assign K C01_T c A x) /\
     c01_kernel_objs K (c01_kdesc_of c01_param_dense_umtv) alpha (C01_Objs A x y) = C01_Objs A x (c01s_plus K C01_T c A x y) /\
     c01_kernel_objs K (c01_kdesc_of c01_param_dense_umhv) alpha (C01_Objs A x y) = C01_Objs A x (c01s_plus K C01_H c A x y) /\
     c01_kernel_objs K (c01_kdesc_of c01_param_dense_mmtv) alpha (C01_Objs A x y) = C01_Objs A x (c01s_minus K C01_T c A x y) /\
     c01_kernel_objs K (c01_kdesc_of c01_param_dense_mmhv) alpha (C01_Objs A x y) = C01_Objs A x (c01s_minus K C01_H c A x y) /\
     c01_kernel_objs K (c01_kdesc_of c01_param_dense_usmtv) alpha (C01_Objs A x y) = C01_Objs A x (c01s_plus_scaled K alpha C01_T c A x y) /\
     c01_kernel_objs K (c01_kdesc_of c01_param_dense_usmhv) alpha (C01_Objs A x y) = C01_Objs A x (c01s_plus_scaled K alpha C01_H c A x y)).
Proof.
  intros r c A alpha WA Hr. destruct (P_kernels_dense K Rth r c A alpha WA Hr) as [N T].
  split; intros x y Hx Hy.
  - destruct (N x y Hx Hy) as (n1 & n2 & n3 & n4). destruct (P_src_dense alpha A x y) as (s1 & _ & s3 & _ & _ & s6 & _ & _ & s9 & _ & _).
    rewrite !P_kernel_frame. rewrite s1, s3, s6, s9, n1, n2, n3, n4. auto.
  - destruct (T x y Hx Hy) as (t1 & t2 & t3 & t4 & t5 & t6 & t7).
    destruct (P_src_dense alpha A x y) as (_ & s2 & _ & s4 & s5 & _ & s7 & s8 & _ & s10 & s11).
    rewrite !P_kernel_frame. rewrite s2, s4, s5, s7, s8, s10, s11, t1, t2, t3, t4, t5, t6, t7. repeat split; auto.
Qed.

(* ------------------------------------------------------------------ aliased in-place products (through the copy of fix C01-5) *)
Lemma P_multiply_self : forall r (A : list (list R)), c01s_wf r r A -> 0 < r ->
  c01_rightmultiply_self K A = c01s_mat_mul K r A A /\ c01_leftmultiply_self K A = c01s_mat_mul K r A A.
Proof.
  intros. unfold c01_rightmultiply_self, c01_leftmultiply_self. split.
  - apply (P_rightmultiply K Rth r r); auto.
  - apply (P_leftmultiply K Rth r r); auto.
Qed.

(* transposed wrapper over a diagonal matrix *)
Lemma P_wrapper_diag : c01_conj K (c01_O K) = c01_O K -> forall d x y, length x = length d -> length y = length d ->
  c01_tw_mv (c01_dg_mtv K d) x y = c01s_assign K C01_N (length d) (c01s_transpose K (length d) (c01s_diag K d)) x /\
  c01_tw_mtv (c01_dg_mv K d) x y = c01s_assign K C01_T (length d) (c01s_transpose K (length d) (c01s_diag K d)) x.
Proof.
  intros Cz d x y Hx Hy. unfold c01_tw_mv, c01_tw_mtv. split.
  - rewrite (P_dg_mtv K Rth Cz) by auto. reflexivity.
  - rewrite (P_dg_mv K Rth Cz) by auto. unfold c01s_assign. simpl.
    rewrite (c01_transpose_involutive K (length d) (length d)) by apply c01_diag_wf. reflexivity.
Qed.
End WithRing.

(* ------------------------------------------------------------------ size-1 vectors / 1x1 matrices used like their entry; scalar views *)
Lemma P_size1 : forall (a k b s al : R),
  c01_vadds K [a] k = c01_fv1_op K (c01_add K) [a] k /\ c01_vsubs K [a] k = c01_fv1_op K (c01_sub K) [a] k /\
  c01_vscale K [a] k = c01_fv1_op K (c01_mul K) [a] k /\ c01_fv_muls K [a] k = c01_fv1_op K (c01_mul K) [a] k /\
  c01_fv_smul K k [a] = c01_fv1_op_l K (c01_mul K) k [a] /\
  c01_vdiv K [a] k = match c01_div K a k with Some q => Some [q] | None => None end /\
  c01_fv_divs K [a] k = match c01_div K a k with Some q => Some [q] | None => None end /\
  c01_fv1_op K (c01_add K) [a] k = [c01_add K a k] /\ c01_fv1_op_l K (c01_sub K) k [a] = [c01_sub K k a] /\
  c01_fv1_conv K [a] = a /\ c01_fm11_conv K [[a]] = a /\
  c01_fm11_scalar_r K (c01_add K) [[a]] k = [[c01_add K a k]] /\ c01_fm11_scalar_l K (c01_sub K) k [[a]] = [[c01_sub K k a]] /\
  (* ScalarMatrixView / FieldMatrix<K,1,1> kernels on scalars-as-vectors: the closed forms *)
  c01_mv K [[s]] [a] [b] = [c01_add K (c01_O K) (c01_mul K s a)] /\
  c01_umv K [[s]] [a] [b] = [c01_add K b (c01_mul K s a)] /\ c01_umtv K [[s]] [a] [b] = [c01_add K b (c01_mul K s a)] /\
  c01_umhv K [[s]] [a] [b] = [c01_add K b (c01_mul K (c01_conj K s) a)] /\
  c01_mmv K [[s]] [a] [b] = [c01_sub K b (c01_mul K s a)] /\ c01_mmhv K [[s]] [a] [b] = [c01_sub K b (c01_mul K (c01_conj K s) a)] /\
  c01_usmv K al [[s]] [a] [b] = [c01_add K b (c01_mul K (c01_mul K al s) a)] /\
  c01_usmhv K al [[s]] [a] [b] = [c01_add K b (c01_mul K (c01_mul K al (c01_conj K s)) a)].
Proof.
  intros. repeat split; reflexivity.
Qed.
End Src.

(* the literal aliased loops do NOT compute A*A (finding F-C01-6; witness replayed on the implementation) *)
Lemma P_multiply_self_literal_refuted :
  exists A : list (list Z), c01s_wf 2 2 A /\
    c01_rightmultiply_self_literal c01_Z_ops A <> c01s_mat_mul c01_Z_ops 2 A A /\
    c01_leftmultiply_self_literal c01_Z_ops A <> c01s_mat_mul c01_Z_ops 2 A A /\
    c01_rightmultiply_self_literal c01_Z_ops A = [[6; 8]; [90; 120]]%Z /\ c01_leftmultiply_self_literal c01_Z_ops A = [[6; 60]; [12; 120]]%Z.
Proof.
  exists [[1; 2]; [3; 4]]%Z. split. { split. reflexivity. repeat constructor. }
  split. { vm_compute. discriminate. } split. { vm_compute. discriminate. } split; vm_compute; reflexivity.
Qed.
