(* C01 — proofs, part 5: Other * FieldMatrix through Other::mv on column views (fmatrix.hh operator*(OtherMatrix, FieldMatrix)). *)
From Coq Require Import List ZArith Bool Arith Lia Ring.
From DuneV Require Import C01_Model C01_Spec C01_Proofs C01_Proofs_Ops C01_Proofs_Mul.
Import ListNotations.

Section Via.
Context {R : Type} (K : c01_ops R).
Local Notation zero := (c01_O K).
Local Notation add := (c01_add K).
Local Notation mul := (c01_mul K).
Local Notation wf := (@c01s_wf R).
Local Notation get := (c01_get K).
Hypothesis Rth : ring_theory zero (c01_I K) add mul (c01_sub K) (c01_opp K) (@eq R).
Add Ring C01Ring5 : Rth.

Lemma c01_col_length : forall r (B : list (list R)) j, length (c01_col K r B j) = r.
Proof. intros. unfold c01_col. rewrite map_length, seq_length. reflexivity. Qed.

Lemma c01_col_at : forall r (B : list (list R)) j k, k < r -> c01_at K (c01_col K r B j) k = get B k j.
Proof. intros. unfold c01_at, c01_col. apply (c01_nth_map_seq R (fun i => get B i j)). auto. Qed.

Lemma P_mul_via_mv : forall (mvA : list R -> list R -> list R) r n p A B, wf r n A -> wf n p B ->
  (forall x y, length x = n -> length y = r -> mvA x y = c01s_mat_vec K A x) ->
  c01_mul_via_mv K mvA r n p B = c01s_mat_mul K p A B.
Proof.
  intros mvA r n p A B WA WB HA. unfold c01_mul_via_mv, c01_setcol.
  rewrite (c01_for_ext _ p _ (fun j T => c01_for r (fun i T => c01_set2 T i j ((fun j i => c01_at K (c01s_mat_vec K A (c01_col K n B j)) i) j i)) T)).
  2: { intros j T Hj. rewrite HA by apply c01_col_length. reflexivity. }
  destruct (c01_entry_loop2 (wf r p) (fun T j i => get T i j) p r
              (fun j i T => c01_set2 T i j (c01_at K (c01s_mat_vec K A (c01_col K n B j)) i))
              (fun j i => c01_at K (c01s_mat_vec K A (c01_col K n B j)) i) (c01_mzero K r p)) as [W P].
  - intros j i T Hj Hi WT. split. { apply c01_set2_wf; auto. }
    intros j' i' Hj' Hi'. rewrite (c01_get_set2 K r p) by auto. rewrite andb_comm. reflexivity.
  - apply c01_mzero_wf.
  - apply (c01_product_ext K Rth r n p A B); auto.
    intros i j Hi Hj. rewrite (P j i) by auto. unfold c01_at at 1.
    rewrite (c01_mat_vec_entry K r n) by (auto; apply c01_col_length).
    apply c01_sumf_ext. intros k Hk. apply in_seq in Hk. rewrite c01_col_at by lia. reflexivity.
Qed.
End Via.

Section Bundles5.
Context {R : Type} (K : c01_ops R).
Hypothesis Rth : ring_theory (c01_O K) (c01_I K) (c01_add K) (c01_mul K) (c01_sub K) (c01_opp K) (@eq R).

Lemma P_products_via_columns : forall r n p (A B : list (list R)), c01s_wf r n A -> c01s_wf n p B -> 0 < r ->
  c01_mul_via_mv K (c01_mv K A) r n p B = c01s_mat_mul K p A B /\
  (c01_conj K (c01_O K) = c01_O K -> forall d : list R, length d = n ->
     c01_mul_via_mv K (c01_dg_mv K d) n n p B = c01s_mat_mul K p (c01s_diag K d) B).
Proof.
  intros r n p A B WA WB Hr. split.
  - apply (P_mul_via_mv K Rth); auto. intros. rewrite (P_mv K Rth r n) by auto. reflexivity.
  - intros Cz d Hd. subst n. apply (P_mul_via_mv K Rth); auto. { apply c01_diag_wf. }
    intros. rewrite (P_dg_mv K Rth Cz) by auto. reflexivity.
Qed.
End Bundles5.
