(* C01 — proofs, part 4: entrywise FieldMatrix operators, the DenseMatrix vector-space part (row-wise),
   and the FieldMatrix<K,1,1> specialisation (agrees with the generic code at 1x1). *)
From Coq Require Import List ZArith Bool Arith Lia Ring.
From DuneV Require Import C01_Model C01_Spec C01_Proofs C01_Proofs_Ops C01_Proofs_Mul.
Import ListNotations.

Section Views.
Context {R : Type} (K : c01_ops R).
Local Notation zero := (c01_O K).
Local Notation one := (c01_I K).
Local Notation add := (c01_add K).
Local Notation mul := (c01_mul K).
Local Notation sub := (c01_sub K).
Local Notation opp := (c01_opp K).
Local Notation wf := (@c01s_wf R).
Local Notation get := (c01_get K).
Hypothesis Rth : ring_theory zero one add mul sub opp (@eq R).
Add Ring C01Ring4 : Rth.

(* for i<r for j<p  T[i][j] = E i j *)
Lemma c01_set_loop2 : forall r p (E : nat -> nat -> R) T0, wf r p T0 ->
  wf r p (c01_for r (fun i T => c01_for p (fun j T => c01_set2 T i j (E i j)) T) T0) /\
  forall i j, i < r -> j < p -> get (c01_for r (fun i T => c01_for p (fun j T => c01_set2 T i j (E i j)) T) T0) i j = E i j.
Proof.
  intros r p E T0 W0.
  apply (c01_entry_loop2 (wf r p) get r p (fun i j T => c01_set2 T i j (E i j)) E T0); auto.
  intros i j T Hi Hj WT. split. { apply c01_set2_wf; auto. }
  intros. apply (c01_get_set2 K r p); auto.
Qed.

(* entrywise combination of two matrices *)
Lemma c01_map2m_wf : forall (f : R -> R -> R) r c A B, wf r c A -> wf r c B -> wf r c (c01s_map2 (c01s_map2 f) A B).
Proof.
  intros f r c A B [LA FA] [LB FB]. split. { rewrite c01s_map2_length. lia. }
  rewrite Forall_forall in *. intros row Hin. destruct (In_nth _ _ [] Hin) as [k [Hk E]].
  rewrite c01s_map2_length in Hk.
  rewrite (c01s_map2_nth _ _ _ (c01s_map2 f) A B k [] [] []) in E by lia. subst.
  rewrite c01s_map2_length. rewrite (FA (nth k A [])), (FB (nth k B [])) by (apply nth_In; lia). lia.
Qed.

Lemma c01_map2m_entry : forall (f : R -> R -> R) r c A B i j, wf r c A -> wf r c B -> i < r -> j < c ->
  get (c01s_map2 (c01s_map2 f) A B) i j = f (get A i j) (get B i j).
Proof.
  intros f r c A B i j WA WB Hi Hj. unfold c01_get, c01_at, c01_row.
  assert (LA : length A = r) by (destruct WA; auto). assert (LB : length B = r) by (destruct WB; auto).
  rewrite (c01s_map2_nth _ _ _ (c01s_map2 f) A B i [] [] []) by lia.
  apply c01s_map2_nth.
  - fold (c01_row A i). rewrite (c01_wf_row r c A); auto.
  - fold (c01_row B i). rewrite (c01_wf_row r c B); auto.
Qed.

Lemma P_fm_binop : forall (f : R -> R -> R) r c A B, wf r c A -> wf r c B ->
  c01_fm_binop K f r c A B = c01s_map2 (c01s_map2 f) A B.
Proof.
  intros f r c A B WA WB. unfold c01_fm_binop.
  destruct (c01_set_loop2 r c (fun i j => f (get A i j) (get B i j)) (c01_mzero K r c) (c01_mzero_wf K r c)) as [W P].
  apply (c01_mat_ext K r c); auto. { apply c01_map2m_wf; auto. }
  intros. rewrite P by auto. rewrite (c01_map2m_entry f r c) by auto. reflexivity.
Qed.

Lemma c01_mapm_wf : forall (f : R -> R) r c A, wf r c A -> wf r c (map (map f) A).
Proof.
  intros f r c A [L F]. split. { rewrite map_length. auto. }
  rewrite Forall_forall in *. intros row Hin. apply in_map_iff in Hin. destruct Hin as [u [E Hu]]. subst.
  rewrite map_length. auto.
Qed.

Lemma c01_mapm_entry : forall (f : R -> R) r c A i j, wf r c A -> i < r -> j < c -> get (map (map f) A) i j = f (get A i j).
Proof.
  intros f r c A i j WA Hi Hj. unfold c01_get, c01_at, c01_row.
  assert (LA : length A = r) by (destruct WA; auto).
  rewrite nth_indep with (d' := map f []) by (rewrite map_length; lia). rewrite map_nth.
  apply (c01_nth_map_in K). fold (c01_row A i). rewrite (c01_wf_row r c A); auto.
Qed.

Lemma P_fm_muls : forall r c A k, wf r c A -> c01_fm_muls K r c A k = map (map (fun v => mul v k)) A.
Proof.
  intros r c A k WA. unfold c01_fm_muls.
  destruct (c01_set_loop2 r c (fun i j => mul (get A i j) k) (c01_mzero K r c) (c01_mzero_wf K r c)) as [W P].
  apply (c01_mat_ext K r c); auto. { apply c01_mapm_wf; auto. }
  intros. rewrite P by auto. rewrite (c01_mapm_entry (fun v => mul v k) r c) by auto. reflexivity.
Qed.

Lemma P_fm_smul : forall r c k A, wf r c A -> c01_fm_smul K r c k A = c01s_mscale K k A.
Proof.
  intros r c k A WA. unfold c01_fm_smul.
  destruct (c01_set_loop2 r c (fun i j => mul k (get A i j)) (c01_mzero K r c) (c01_mzero_wf K r c)) as [W P].
  apply (c01_mat_ext K r c); auto. { apply (c01_mapm_wf (mul k)); auto. }
  intros. rewrite P by auto. unfold c01s_mscale, c01s_vscale. rewrite (c01_mapm_entry (mul k) r c) by auto. reflexivity.
Qed.

(* DenseMatrix += -= *= axpy : row by row through the DenseVector operations *)
Lemma c01_rowwise : forall (F : nat -> list R -> list R) (G : list R -> list R -> list R) r c A B, wf r c A -> wf r c B ->
  (forall i row, i < r -> length row = c -> F i row = G row (c01_row B i)) ->
  c01_for r (fun i M => c01_upd M i (F i (c01_row M i))) A = c01s_map2 G A B.
Proof.
  intros F G r c A B WA WB HF.
  assert (LA : length A = r) by (destruct WA; auto). assert (LB : length B = r) by (destruct WB; auto).
  rewrite (c01_rows_loop F r A LA).
  apply nth_ext with (d := []) (d' := []). { rewrite map_length, seq_length, c01s_map2_length. lia. }
  intros k Hk. rewrite map_length, seq_length in Hk.
  rewrite c01_nth_map_seq by auto. rewrite (c01s_map2_nth _ _ _ G A B k [] [] []) by lia.
  apply HF; auto. apply (c01_wf_row r c); auto.
Qed.

Lemma P_madd : forall r c A B, wf r c A -> wf r c B -> c01_madd K A B = c01s_madd K A B.
Proof.
  intros r c A B WA WB. unfold c01_madd, c01s_madd. replace (c01_rows A) with r by (destruct WA; auto).
  apply (c01_rowwise (fun i row => c01_vadd K row (c01_row B i)) (c01s_vadd K) r c); auto.
  intros. apply (P_vadd K). rewrite (c01_wf_row r c B); auto.
Qed.

Lemma P_msub : forall r c A B, wf r c A -> wf r c B -> c01_msub K A B = c01s_msub K A B.
Proof.
  intros r c A B WA WB. unfold c01_msub, c01s_msub. replace (c01_rows A) with r by (destruct WA; auto).
  apply (c01_rowwise (fun i row => c01_vsub K row (c01_row B i)) (c01s_vsub K) r c); auto.
  intros. apply (P_vsub K). rewrite (c01_wf_row r c B); auto.
Qed.

Lemma P_maxpy : forall r c A a B, wf r c A -> wf r c B -> c01_maxpy K A a B = c01s_madd K A (c01s_mscale K a B).
Proof.
  intros r c A a B WA WB. unfold c01_maxpy, c01s_madd. replace (c01_rows A) with r by (destruct WA; auto).
  assert (WS : wf r c (c01s_mscale K a B)) by (apply (c01_mapm_wf (mul a)); auto).
  apply (c01_rowwise (fun i row => c01_vaxpy K row a (c01_row B i)) (c01s_vadd K) r c A (c01s_mscale K a B)); auto.
  intros i row Hi Hrow. rewrite (P_vaxpy K) by (rewrite (c01_wf_row r c B); auto). f_equal.
  unfold c01s_mscale, c01_row. destruct WB as [LB _].
  rewrite (nth_indep (map (c01s_vscale K a) B) [] (c01s_vscale K a [])) by (rewrite map_length; lia). rewrite map_nth. reflexivity.
Qed.

Lemma P_mscale : forall r c A k, wf r c A -> c01_mscale K A k = c01s_mscale K k A.
Proof.
  intros r c A k WA. unfold c01_mscale. replace (c01_rows A) with r by (destruct WA; auto).
  assert (LA : length A = r) by (destruct WA; auto).
  rewrite (c01_rows_loop (fun i row => c01_vscale K row k) r A LA).
  rewrite (c01_map_rows (fun row => c01_vscale K row k) r A LA). unfold c01s_mscale.
  apply map_ext. intros. apply (P_vscale K Rth).
Qed.

(* ------------------------------------------------------------------ FieldMatrix<K,1,1> *)
Lemma c01_wf11 : forall A, wf 1 1 A -> exists a, A = [[a]].
Proof.
  intros A [L F]. destruct A as [|row [|? ?]]; simpl in L; try lia.
  inversion F as [|? ? H1 _]. destruct row as [|a [|? ?]]; simpl in H1; try lia. exists a. reflexivity.
Qed.

Lemma P_fm11_fixed : forall A B k, wf 1 1 A -> wf 1 1 B ->
  c01_fm11_rightmultiply K A B = c01_rightmultiply K A B /\
  c01_fm11_binop K add A B = c01_fm_plus K 1 1 A B /\
  c01_fm11_binop K sub A B = c01_fm_minus K 1 1 A B /\
  c01_fm11_scalar_r K mul A k = c01_fm_muls K 1 1 A k /\
  c01_fm11_scalar_l K mul k A = c01_fm_smul K 1 1 k A /\
  c01_fm11_transposed A = c01_transposed K A.
Proof.
  intros A B k WA WB. destruct (c01_wf11 A WA) as [a Ea]. destruct (c01_wf11 B WB) as [b Eb]. subst.
  repeat split; cbv [c01_fm11_rightmultiply c01_rightmultiply c01_fm11_binop c01_fm_plus c01_fm_minus c01_fm_binop c01_fm11_scalar_r
                     c01_fm_muls c01_fm11_scalar_l c01_fm_smul c01_fm11_transposed c01_transposed c01_for c01_rows c01_cols c01_set2
                     c01_get c01_at c01_row c01_upd c01_mzero c01_vzero length seq fold_left nth repeat];
    try reflexivity.
  f_equal. f_equal. ring.
Qed.

(* 1x1 times a row, a column times 1x1, 1x1 times a row (rightmultiplyany) *)
Lemma c01_sumf_one : forall f, c01_sumf K f (seq 0 1) = f 0.
Proof. intros. unfold c01_sumf. simpl. ring. Qed.

Lemma P_fm11_mul_row : forall p A B, wf 1 1 A -> wf 1 p B -> c01_fm11_mul_row K p A B = c01s_mat_mul K p A B.
Proof.
  intros p A B WA WB. unfold c01_fm11_mul_row.
  change (c01_for p (fun j T => c01_set2 T 0 j (mul (get A 0 0) (get B 0 j))) (c01_mzero K 1 p))
    with (c01_for 1 (fun i T => c01_for p (fun j T => c01_set2 T i j ((fun i j => mul (get A i 0) (get B 0 j)) i j)) T) (c01_mzero K 1 p)).
  destruct (c01_set_loop2 1 p (fun i j => mul (get A i 0) (get B 0 j)) (c01_mzero K 1 p) (c01_mzero_wf K 1 p)) as [W P].
  apply (c01_product_ext K Rth 1 1 p A B); auto.
  intros i j Hi Hj. rewrite P by auto. rewrite c01_sumf_one. assert (i = 0) by lia. subst. reflexivity.
Qed.

Lemma P_fm11_rightmultiplyany : forall l A M, wf 1 1 A -> wf 1 l M -> c01_fm11_rightmultiplyany K l A M = c01s_mat_mul K l A M.
Proof.
  intros l A M WA WM. unfold c01_fm11_rightmultiplyany.
  change (c01_for l (fun j T => c01_set2 T 0 j (mul (get M 0 j) (get A 0 0))) (c01_mzero K 1 l))
    with (c01_for 1 (fun i T => c01_for l (fun j T => c01_set2 T i j ((fun i j => mul (get M 0 j) (get A i 0)) i j)) T) (c01_mzero K 1 l)).
  destruct (c01_set_loop2 1 l (fun i j => mul (get M 0 j) (get A i 0)) (c01_mzero K 1 l) (c01_mzero_wf K 1 l)) as [W P].
  apply (c01_product_ext K Rth 1 1 l A M); auto.
  intros i j Hi Hj. rewrite P by auto. rewrite c01_sumf_one. assert (i = 0) by lia. subst. ring.
Qed.

Lemma P_fm11_leftmultiplyany : forall l A M, wf 1 1 A -> wf l 1 M -> c01_fm11_leftmultiplyany K l A M = c01s_mat_mul K 1 M A.
Proof.
  intros l A M WA WM. unfold c01_fm11_leftmultiplyany.
  change (c01_for l (fun j T => c01_set2 T j 0 (mul (get M j 0) (get A 0 0))) (c01_mzero K l 1))
    with (c01_for l (fun i T => c01_for 1 (fun j T => c01_set2 T i j ((fun i j => mul (get M i 0) (get A 0 j)) i j)) T) (c01_mzero K l 1)).
  destruct (c01_set_loop2 l 1 (fun i j => mul (get M i 0) (get A 0 j)) (c01_mzero K l 1) (c01_mzero_wf K l 1)) as [W P].
  apply (c01_product_ext K Rth l 1 1 M A); auto.
  intros i j Hi Hj. rewrite P by auto. rewrite c01_sumf_one. reflexivity.
Qed.
End Views.

Section Bundles4.
Context {R : Type} (K : c01_ops R).
Hypothesis Rth : ring_theory (c01_O K) (c01_I K) (c01_add K) (c01_mul K) (c01_sub K) (c01_opp K) (@eq R).

Lemma P_matrix_space : forall r c (A B : list (list R)) (k : R), c01s_wf r c A -> c01s_wf r c B ->
  c01_madd K A B = c01s_madd K A B /\ c01_msub K A B = c01s_msub K A B /\
  c01_mscale K A k = c01s_mscale K k A /\ c01_maxpy K A k B = c01s_madd K A (c01s_mscale K k B) /\
  c01_fm_plus K r c A B = c01s_madd K A B /\ c01_fm_minus K r c A B = c01s_msub K A B /\
  c01_fm_muls K r c A k = map (map (fun v => c01_mul K v k)) A /\ c01_fm_smul K r c k A = c01s_mscale K k A.
Proof.
  intros r c A B k WA WB. repeat split.
  - apply (P_madd K r c); auto.
  - apply (P_msub K r c); auto.
  - apply (P_mscale K Rth r c); auto.
  - apply (P_maxpy K r c); auto.
  - apply (P_fm_binop K); auto.
  - apply (P_fm_binop K); auto.
  - apply (P_fm_muls K); auto.
  - apply (P_fm_smul K); auto.
Qed.

(* the 1x1 specialisation computes what the generic code computes on 1x1 matrices *)
Lemma P_views : forall p (A B : list (list R)) (Brow Bcol : list (list R)) (k : R),
  c01s_wf 1 1 A -> c01s_wf 1 1 B -> c01s_wf 1 p Brow -> c01s_wf p 1 Bcol ->
  c01_fm11_mul_row K p A Brow = c01_fm_mul K 1 1 p A Brow /\
  c01_fm11_rightmultiplyany K p A Brow = c01_rightmultiplyany K p A Brow /\
  c01_fm11_leftmultiplyany K p A Bcol = c01_leftmultiplyany K p A Bcol /\
  c01_fm11_rightmultiply K A B = c01_rightmultiply K A B /\
  c01_fm11_binop K (c01_add K) A B = c01_fm_plus K 1 1 A B /\
  c01_fm11_binop K (c01_sub K) A B = c01_fm_minus K 1 1 A B /\
  c01_fm11_scalar_r K (c01_mul K) A k = c01_fm_muls K 1 1 A k /\
  c01_fm11_scalar_l K (c01_mul K) k A = c01_fm_smul K 1 1 k A /\
  c01_fm11_transposed A = c01_transposed K A.
Proof.
  intros p A B Brow Bcol k WA WB WR WC.
  destruct (P_fm11_fixed K Rth A B k WA WB) as (f1 & f2 & f3 & f4 & f5 & f6).
  repeat split; auto.
  - rewrite (P_fm11_mul_row K Rth) by auto. symmetry. apply (P_fm_mul K Rth); auto.
  - rewrite (P_fm11_rightmultiplyany K Rth) by auto. symmetry. apply (P_rightmultiplyany K Rth p 1 1); auto.
  - rewrite (P_fm11_leftmultiplyany K Rth) by auto. symmetry. apply (P_leftmultiplyany K Rth p 1 1); auto.
Qed.
End Bundles4.
