(* C01 — proofs, part 10: the prime-field instance.
   The model's Z mod p operations (c01_P_ops p, on raw integers) restricted to the canonical representatives
   { x | x mod p = x } form a commutative ring (Leibniz equality), for p = 7 and p = 13 a field with the division laws;
   the eleven dense kernels commute with any homomorphism of operation records, so the kernels run on raw canonical
   integers (what the extracted model does for the GF(p) correspondence stream) are the images of the kernels over the
   canonical carrier, to which the generic theorems apply. *)
From Coq Require Import List ZArith Bool Arith Lia Ring Eqdep_dec.
From DuneV Require Import C01_Model C01_Spec C01_Proofs C01_Proofs_Ops C01_Proofs_Div.
Import ListNotations.
Local Open Scope Z_scope.

Definition c01_Zp (p : Z) : Type := { x : Z | Z.eqb (x mod p) x = true }.
Definition c01_Zp_val {p : Z} (a : c01_Zp p) : Z := proj1_sig a.

Lemma c01_Zp_eq : forall p (a b : c01_Zp p), c01_Zp_val a = c01_Zp_val b -> a = b.
Proof.
  intros p [x Hx] [y Hy]. unfold c01_Zp_val. simpl. intros E. subst y. f_equal. apply (UIP_dec bool_dec).
Qed.

Lemma c01_Zp_canon : forall p (x : Z), 0 < p -> Z.eqb ((x mod p) mod p) (x mod p) = true.
Proof. intros. apply Z.eqb_eq. apply Z.mod_mod. lia. Qed.

Definition c01_Zp_mk (p : Z) (Hp : 0 < p) (x : Z) : c01_Zp p := exist _ (x mod p) (c01_Zp_canon p x Hp).

Lemma c01_Zp_val_mod : forall p (a : c01_Zp p), (c01_Zp_val a) mod p = c01_Zp_val a.
Proof. intros p [x Hx]. simpl. apply Z.eqb_eq. auto. Qed.

(* the operations: the model's operations on the representatives (every result of c01_P_ops is already reduced mod p) *)
Definition c01_Pc_ops (p : Z) (Hp : 0 < p) : c01_ops (c01_Zp p) :=
  let M := c01_P_ops p in
  C01_Ops (c01_Zp p)
    (c01_Zp_mk p Hp (c01_O M)) (c01_Zp_mk p Hp (c01_I M))
    (fun a b => c01_Zp_mk p Hp (c01_add M (c01_Zp_val a) (c01_Zp_val b)))
    (fun a b => c01_Zp_mk p Hp (c01_mul M (c01_Zp_val a) (c01_Zp_val b)))
    (fun a b => c01_Zp_mk p Hp (c01_sub M (c01_Zp_val a) (c01_Zp_val b)))
    (fun a => c01_Zp_mk p Hp (c01_opp M (c01_Zp_val a)))
    (fun a => a)
    (fun a b => match c01_div M (c01_Zp_val a) (c01_Zp_val b) with Some q => Some (c01_Zp_mk p Hp q) | None => None end)
    (fun a b => c01_eqb M (c01_Zp_val a) (c01_Zp_val b)).

(* the canonical carrier's operations ARE the model's operations (no further reduction happens) *)
Lemma P_Zp_ops_agree : forall p (Hp : 0 < p) (a b : c01_Zp p),
  let Kc := c01_Pc_ops p Hp in let M := c01_P_ops p in
  c01_Zp_val (c01_O Kc) = c01_O M /\ c01_Zp_val (c01_I Kc) = c01_I M /\
  c01_Zp_val (c01_add Kc a b) = c01_add M (c01_Zp_val a) (c01_Zp_val b) /\
  c01_Zp_val (c01_mul Kc a b) = c01_mul M (c01_Zp_val a) (c01_Zp_val b) /\
  c01_Zp_val (c01_sub Kc a b) = c01_sub M (c01_Zp_val a) (c01_Zp_val b) /\
  c01_Zp_val (c01_opp Kc a) = c01_opp M (c01_Zp_val a) /\
  c01_Zp_val (c01_conj Kc a) = c01_conj M (c01_Zp_val a) /\
  c01_eqb Kc a b = c01_eqb M (c01_Zp_val a) (c01_Zp_val b).
Proof.
  intros. unfold Kc, M, c01_Pc_ops, c01_Zp_mk, c01_Zp_val. simpl.
  repeat split; try reflexivity; try (apply Z.mod_mod; lia).
Qed.

Lemma P_Zp_ring : forall p (Hp : 0 < p),
  let Kc := c01_Pc_ops p Hp in
  ring_theory (c01_O Kc) (c01_I Kc) (c01_add Kc) (c01_mul Kc) (c01_sub Kc) (c01_opp Kc) (@eq (c01_Zp p)).
Proof.
  intros p Hp Kc. assert (Hn : p <> 0) by lia.
  constructor; intros; apply c01_Zp_eq; unfold Kc, c01_Pc_ops, c01_Zp_mk, c01_Zp_val; simpl;
    repeat match goal with a : c01_Zp p |- _ => let v := fresh "v" in let H := fresh "H" in
             pose proof (c01_Zp_val_mod p a) as H; unfold c01_Zp_val in H; set (v := proj1_sig a) in *; clearbody v; clear a end.
  - rewrite Z.mod_mod by auto. auto.
  - rewrite !Z.mod_mod by auto. f_equal. ring.
  - rewrite !Z.mod_mod by auto. rewrite Z.add_mod_idemp_l, Z.add_mod_idemp_r by auto. f_equal. ring.
  - rewrite !Z.mod_mod by auto. rewrite Z.mul_mod_idemp_l by auto. rewrite Z.mul_1_l. auto.
  - rewrite !Z.mod_mod by auto. f_equal. ring.
  - rewrite !Z.mod_mod by auto. rewrite Z.mul_mod_idemp_l, Z.mul_mod_idemp_r by auto. f_equal. ring.
  - rewrite !Z.mod_mod by auto. rewrite Z.mul_mod_idemp_l by auto. rewrite <- Z.add_mod by auto. f_equal. ring.
  - rewrite !Z.mod_mod by auto. rewrite Z.add_mod_idemp_r by auto. f_equal; try ring.
  - rewrite !Z.mod_mod by auto. rewrite Z.add_mod_idemp_r by auto. f_equal; try ring.
Qed.

Lemma P_Zp_eqb : forall p (Hp : 0 < p) (a b : c01_Zp p), c01_eqb (c01_Pc_ops p Hp) a b = true <-> a = b.
Proof.
  intros. simpl. rewrite !c01_Zp_val_mod. rewrite Z.eqb_eq. split. apply c01_Zp_eq. intros; subst; auto.
Qed.

(* ------------------------------------------------------------------ division laws for the two prime fields of the harness,
   by enumeration of the canonical representatives (the bound is in the statement: p = 7, p = 13) *)
Definition c01_range (n : nat) : list Z := map Z.of_nat (seq 0 n).
Lemma c01_in_range : forall n x, 0 <= x < Z.of_nat n -> In x (c01_range n).
Proof.
  intros. unfold c01_range. apply in_map_iff. exists (Z.to_nat x). split. lia. apply in_seq. lia.
Qed.

Definition c01_Zp_div_check (p : Z) (n : nat) : bool :=
  forallb (fun b => Z.eqb b 0 ||
     forallb (fun a => match c01_P_div p ((a * b) mod p) b with Some q => Z.eqb q a | None => false end
                       && match c01_P_div p a b with Some q => Z.eqb ((q * b) mod p) a && Z.eqb (q mod p) q | None => false end)
             (c01_range n)) (c01_range n).

Lemma c01_Zp_div_facts : forall p n, p = Z.of_nat n -> c01_Zp_div_check p n = true ->
  forall a b, 0 <= a < p -> 0 < b < p ->
    c01_P_div p ((a * b) mod p) b = Some a /\ exists q, c01_P_div p a b = Some q /\ (q * b) mod p = a /\ q mod p = q.
Proof.
  intros p n Hp Hc a b Ha Hb. unfold c01_Zp_div_check in Hc. rewrite forallb_forall in Hc.
  specialize (Hc b (c01_in_range n b ltac:(lia))). apply orb_true_iff in Hc. destruct Hc as [Hc|Hc]. { apply Z.eqb_eq in Hc. lia. }
  rewrite forallb_forall in Hc. specialize (Hc a (c01_in_range n a ltac:(lia))). apply andb_true_iff in Hc. destruct Hc as [H1 H2].
  split.
  - destruct (c01_P_div p ((a * b) mod p) b); [|discriminate]. apply Z.eqb_eq in H1. subst. auto.
  - destruct (c01_P_div p a b) as [q|]; [|discriminate]. apply andb_true_iff in H2. destruct H2 as [H2 H3].
    apply Z.eqb_eq in H2. apply Z.eqb_eq in H3. exists q. auto.
Qed.

Lemma c01_Zp_val_range : forall p (Hp : 0 < p) (a : c01_Zp p), 0 <= c01_Zp_val a < p.
Proof. intros. rewrite <- c01_Zp_val_mod. apply Z.mod_pos_bound. auto. Qed.

Lemma P_Zp_div_laws_gen : forall p n (Hp : 0 < p), p = Z.of_nat n -> c01_Zp_div_check p n = true ->
  c01_div_laws (c01_Pc_ops p Hp) /\ c01_div_total (c01_Pc_ops p Hp).
Proof.
  intros p n Hp Hn Hc. pose proof (c01_Zp_div_facts p n Hn Hc) as F.
  assert (NZ : forall b : c01_Zp p, b <> c01_O (c01_Pc_ops p Hp) -> 0 < c01_Zp_val b < p).
  { intros b Hb. pose proof (c01_Zp_val_range p Hp b). assert (c01_Zp_val b <> 0); [|lia].
    intro E. apply Hb. apply c01_Zp_eq. simpl. rewrite Z.mod_0_l by lia. auto. }
  split; [constructor|].
  - intros a b q. simpl. destruct (c01_P_div p (c01_Zp_val a) (c01_Zp_val b)) as [q0|] eqn:E; [|discriminate].
    intros X. inversion X. subst q. clear X. apply c01_Zp_eq. simpl.
    pose proof (c01_Zp_val_range p Hp a) as Ra. pose proof (c01_Zp_val_range p Hp b) as Rb.
    assert (c01_Zp_val b <> 0). { intro Z0. unfold c01_P_div in E. rewrite Z0 in E. rewrite Z.mod_0_l in E by lia. simpl in E. discriminate. }
    destruct (F (c01_Zp_val a) (c01_Zp_val b) Ra ltac:(lia)) as [_ [q [Eq [Eq2 Eq3]]]].
    rewrite E in Eq. inversion Eq. subst q0. rewrite Eq3. rewrite Z.mod_mod by lia. auto.
  - intros a b Hb. simpl.
    destruct (F (c01_Zp_val a) (c01_Zp_val b) (c01_Zp_val_range p Hp a) (NZ b Hb)) as [E _].
    rewrite Z.mod_mod by lia. rewrite E. f_equal. apply c01_Zp_eq. simpl. apply c01_Zp_val_mod.
  - intros a b Hb. simpl.
    destruct (F (c01_Zp_val a) (c01_Zp_val b) (c01_Zp_val_range p Hp a) (NZ b Hb)) as [_ [q [Eq _]]].
    rewrite Eq. eexists. reflexivity.
Qed.

Lemma c01_pos7 : 0 < 7. Proof. lia. Qed.
Lemma c01_pos13 : 0 < 13. Proof. lia. Qed.
Lemma P_Zp7_field : c01_div_laws (c01_Pc_ops 7 c01_pos7) /\ c01_div_total (c01_Pc_ops 7 c01_pos7).
Proof. apply (P_Zp_div_laws_gen 7 7%nat). reflexivity. vm_compute. reflexivity. Qed.
Lemma P_Zp13_field : c01_div_laws (c01_Pc_ops 13 c01_pos13) /\ c01_div_total (c01_Pc_ops 13 c01_pos13).
Proof. apply (P_Zp_div_laws_gen 13 13%nat). reflexivity. vm_compute. reflexivity. Qed.

(* the integers with exact division satisfy the division laws as well (not total: Z is not a field) *)
Lemma P_Z_div_laws : c01_div_laws c01_Z_ops.
Proof.
  constructor.
  - exact P_Z_div.
  - intros a b Hb. simpl in *. unfold c01_Z_div. destruct (Z.eqb_spec b 0); [contradiction|].
    rewrite Z.mod_mul by auto. simpl. rewrite Z.div_mul by auto. reflexivity.
Qed.
Local Close Scope Z_scope.

(* ------------------------------------------------------------------ kernels commute with homomorphisms of operation records *)
Section Hom.
Context {R1 R2 : Type} (K1 : c01_ops R1) (K2 : c01_ops R2) (h : R1 -> R2).
Hypothesis H0 : h (c01_O K1) = c01_O K2.
Hypothesis Hadd : forall a b, h (c01_add K1 a b) = c01_add K2 (h a) (h b).
Hypothesis Hmul : forall a b, h (c01_mul K1 a b) = c01_mul K2 (h a) (h b).
Hypothesis Hsub : forall a b, h (c01_sub K1 a b) = c01_sub K2 (h a) (h b).
Hypothesis Hconj : forall a, h (c01_conj K1 a) = c01_conj K2 (h a).

Lemma c01_map_upd : forall (l : list R1) i v, map h (c01_upd l i v) = c01_upd (map h l) i (h v).
Proof. induction l; destruct i; simpl; intros; auto. f_equal. apply IHl. Qed.
Lemma c01_at_map : forall (x : list R1) i, c01_at K2 (map h x) i = h (c01_at K1 x i).
Proof. intros. unfold c01_at. rewrite <- H0. apply map_nth. Qed.
Lemma c01_get_map : forall (A : list (list R1)) i j, c01_get K2 (map (map h) A) i j = h (c01_get K1 A i j).
Proof.
  intros. unfold c01_get, c01_row. change (@nil R2) with (map h []). rewrite map_nth. apply c01_at_map.
Qed.
Lemma c01_rows_map : forall (A : list (list R1)), c01_rows (map (map h) A) = c01_rows A.
Proof. intros. unfold c01_rows. apply map_length. Qed.
Lemma c01_cols_map : forall (A : list (list R1)), c01_cols (map (map h) A) = c01_cols A.
Proof. intros. destruct A; simpl; auto. apply map_length. Qed.
Lemma c01_for_hom : forall (S1 S2 : Type) (f : S1 -> S2) n (b1 : nat -> S1 -> S1) (b2 : nat -> S2 -> S2) s s',
  (forall i t, f (b1 i t) = b2 i (f t)) -> f s = s' -> f (c01_for n b1 s) = c01_for n b2 s'.
Proof.
  induction n; intros. { rewrite !c01_for_0. auto. }
  rewrite !c01_for_S. rewrite H. f_equal. apply IHn; auto.
Qed.

Ltac hom_kernel :=
  intros; rewrite ?c01_rows_map, ?c01_cols_map;
  apply c01_for_hom; [intros|reflexivity];
  apply c01_for_hom; [intros|];
  rewrite ?c01_map_upd, ?Hadd, ?Hsub, ?Hmul, ?Hmul, ?Hconj, ?c01_at_map, ?c01_get_map, ?H0; reflexivity.

Lemma P_kernels_hom : forall (A : list (list R1)) (x y : list R1) (alpha : R1),
  let A' := map (map h) A in let x' := map h x in let y' := map h y in
  map h (c01_mv K1 A x y) = c01_mv K2 A' x' y' /\ map h (c01_mtv K1 A x y) = c01_mtv K2 A' x' y' /\
  map h (c01_umv K1 A x y) = c01_umv K2 A' x' y' /\ map h (c01_umtv K1 A x y) = c01_umtv K2 A' x' y' /\
  map h (c01_umhv K1 A x y) = c01_umhv K2 A' x' y' /\
  map h (c01_mmv K1 A x y) = c01_mmv K2 A' x' y' /\ map h (c01_mmtv K1 A x y) = c01_mmtv K2 A' x' y' /\
  map h (c01_mmhv K1 A x y) = c01_mmhv K2 A' x' y' /\
  map h (c01_usmv K1 alpha A x y) = c01_usmv K2 (h alpha) A' x' y' /\
  map h (c01_usmtv K1 alpha A x y) = c01_usmtv K2 (h alpha) A' x' y' /\
  map h (c01_usmhv K1 alpha A x y) = c01_usmhv K2 (h alpha) A' x' y'.
Proof.
  intros A x y alpha A' x' y'. unfold A', x', y'.
  repeat split;
    [ unfold c01_mv | unfold c01_mtv | unfold c01_umv | unfold c01_umtv | unfold c01_umhv | unfold c01_mmv | unfold c01_mmtv
    | unfold c01_mmhv | unfold c01_usmv | unfold c01_usmtv | unfold c01_usmhv ]; hom_kernel.
Qed.
End Hom.

(* the GF(p) stream of the correspondence check: kernels on raw canonical integers = images of the kernels over the canonical carrier *)
Lemma P_Zp_kernels_transfer : forall p (Hp : (0 < p)%Z) (A : list (list (c01_Zp p))) (x y : list (c01_Zp p)) (alpha : c01_Zp p),
  let Kc := c01_Pc_ops p Hp in let M := c01_P_ops p in let v := @c01_Zp_val p in
  let A' := map (map v) A in let x' := map v x in let y' := map v y in
  map v (c01_mv Kc A x y) = c01_mv M A' x' y' /\ map v (c01_mtv Kc A x y) = c01_mtv M A' x' y' /\
  map v (c01_umv Kc A x y) = c01_umv M A' x' y' /\ map v (c01_umtv Kc A x y) = c01_umtv M A' x' y' /\
  map v (c01_umhv Kc A x y) = c01_umhv M A' x' y' /\
  map v (c01_mmv Kc A x y) = c01_mmv M A' x' y' /\ map v (c01_mmtv Kc A x y) = c01_mmtv M A' x' y' /\
  map v (c01_mmhv Kc A x y) = c01_mmhv M A' x' y' /\
  map v (c01_usmv Kc alpha A x y) = c01_usmv M (v alpha) A' x' y' /\
  map v (c01_usmtv Kc alpha A x y) = c01_usmtv M (v alpha) A' x' y' /\
  map v (c01_usmhv Kc alpha A x y) = c01_usmhv M (v alpha) A' x' y'.
Proof.
  intros p Hp A x y alpha Kc M v.
  apply (P_kernels_hom Kc M v).
  - unfold v, Kc, c01_Zp_val. simpl. apply Z.mod_0_l. lia.
  - intros. unfold v, Kc, c01_Zp_val. simpl. apply Z.mod_mod. lia.
  - intros. unfold v, Kc, c01_Zp_val. simpl. apply Z.mod_mod. lia.
  - intros. unfold v, Kc, c01_Zp_val. simpl. apply Z.mod_mod. lia.
  - intros. reflexivity.
Qed.
