(* C01 — specification: the algebraic definitions the kernels of C01_Model.v are claimed to compute,
   written as the textbook sums / entrywise formulas over lists (structural folds, no loops, no
   in-place updates, no indices into a mutable destination).  These functions are also the
   executable oracle of the correspondence check (extracted next to the model).

     dot x y        = sum_i x_i * y_i                        hdot x y = sum_i conj(x_i) * y_i
     mat_vec A x    = (dot (row_i A) x)_i                    = A x
     transpose c A  = ((A_ij)_i)_j  for an r x c matrix      = A^T
     herm c A       = entrywise conj of transpose            = A^H
     mat_mul p A B  = (dot (row_i A) (col_j B))_ij           = A B   (B has p columns)
     diag d         = (d_i if i = j else 0)_ij                                                 *)
From Coq Require Import List ZArith Bool Arith.
From DuneV Require Import C01_Model.
Import ListNotations.

Fixpoint c01s_map2 {A B C : Type} (f : A -> B -> C) (x : list A) (y : list B) : list C :=
  match x, y with
  | a :: x', b :: y' => f a b :: c01s_map2 f x' y'
  | _, _ => []
  end.

Section Spec.
Context {R : Type} (K : c01_ops R).
Local Notation zero := (c01_O K).
Local Notation add := (c01_add K).
Local Notation mul := (c01_mul K).
Local Notation sub := (c01_sub K).
Local Notation opp := (c01_opp K).
Local Notation conj := (c01_conj K).

Definition c01s_sum (l : list R) : R := fold_right add zero l.
Definition c01s_dot (x y : list R) : R := c01s_sum (c01s_map2 mul x y).
Definition c01s_hdot (x y : list R) : R := c01s_dot (map conj x) y.
Definition c01s_mat_vec (A : list (list R)) (x : list R) : list R := map (fun row => c01s_dot row x) A.
Definition c01s_transpose (c : nat) (A : list (list R)) : list (list R) :=
  map (fun j => map (fun row => nth j row zero) A) (seq 0 c).
Definition c01s_conjm (A : list (list R)) : list (list R) := map (map conj) A.
Definition c01s_herm (c : nat) (A : list (list R)) : list (list R) := c01s_conjm (c01s_transpose c A).
Definition c01s_vadd : list R -> list R -> list R := c01s_map2 add.
Definition c01s_vsub : list R -> list R -> list R := c01s_map2 sub.
Definition c01s_vscale (a : R) (x : list R) : list R := map (mul a) x.
Definition c01s_vopp (x : list R) : list R := map opp x.
Definition c01s_mat_mul (p : nat) (A B : list (list R)) : list (list R) :=
  map (fun row => c01s_mat_vec (c01s_transpose p B) row) A.
Definition c01s_diag (d : list R) : list (list R) :=
  map (fun i => map (fun j => if Nat.eqb i j then nth i d zero else zero) (seq 0 (length d))) (seq 0 (length d)).
Definition c01s_madd : list (list R) -> list (list R) -> list (list R) := c01s_map2 c01s_vadd.
Definition c01s_msub : list (list R) -> list (list R) -> list (list R) := c01s_map2 c01s_vsub.
Definition c01s_mscale (a : R) (A : list (list R)) : list (list R) := map (c01s_vscale a) A.
Definition c01s_mopp (A : list (list R)) : list (list R) := map c01s_vopp A.

(* shapes *)
Definition c01s_wf (r c : nat) (A : list (list R)) : Prop := length A = r /\ Forall (fun row => length row = c) A.
Definition c01s_wfb (r c : nat) (A : list (list R)) : bool :=
  Nat.eqb (length A) r && forallb (fun row => Nat.eqb (length row) c) A.

(* which matrix a kernel applies: A, A^T, A^H *)
Inductive c01s_mode := C01_N | C01_T | C01_H.
Definition c01s_op (m : c01s_mode) (c : nat) (A : list (list R)) : list (list R) :=
  match m with C01_N => A | C01_T => c01s_transpose c A | C01_H => c01s_herm c A end.
(* the eleven definitions D_k:  y := M x ;  y + M x ;  y - M x ;  y + alpha (M x)   with M in {A, A^T, A^H} *)
Definition c01s_assign (m : c01s_mode) (c : nat) (A : list (list R)) (x : list R) : list R :=
  c01s_mat_vec (c01s_op m c A) x.
Definition c01s_plus (m : c01s_mode) (c : nat) (A : list (list R)) (x y : list R) : list R :=
  c01s_vadd y (c01s_mat_vec (c01s_op m c A) x).
Definition c01s_minus (m : c01s_mode) (c : nat) (A : list (list R)) (x y : list R) : list R :=
  c01s_vsub y (c01s_mat_vec (c01s_op m c A) x).
Definition c01s_plus_scaled (alpha : R) (m : c01s_mode) (c : nat) (A : list (list R)) (x y : list R) : list R :=
  c01s_vadd y (c01s_vscale alpha (c01s_mat_vec (c01s_op m c A) x)).

(* division by a scalar: the result r with r_i * k = x_i, when every component division is defined *)
Fixpoint c01s_vdiv (x : list R) (k : R) : option (list R) :=
  match x with
  | [] => Some []
  | a :: x' => match c01_div K a k, c01s_vdiv x' k with
               | Some q, Some r => Some (q :: r)
               | _, _ => None
               end
  end.
Fixpoint c01s_mdiv (A : list (list R)) (k : R) : option (list (list R)) :=
  match A with
  | [] => Some []
  | a :: A' => match c01s_vdiv a k, c01s_mdiv A' k with
               | Some q, Some r => Some (q :: r)
               | _, _ => None
               end
  end.
(* equality of the stored entries *)
Fixpoint c01s_veqb (x y : list R) : bool :=
  match x, y with
  | [], _ => true
  | a :: x', b :: y' => c01_eqb K a b && c01s_veqb x' y'
  | _ :: _, [] => false
  end.
Fixpoint c01s_meqb (A B : list (list R)) : bool :=
  match A, B with
  | [], _ => true
  | a :: A', b :: B' => c01s_veqb a b && c01s_meqb A' B'
  | _ :: _, [] => false
  end.
End Spec.
