(* Extraction of the C02 model (instantiated by the driver with c02_zp p) and of the executable oracle.
   ExtrOcamlBasic only: Z, positive, nat stay Coq inductives. *)
From Coq Require Import Extraction ExtrOcamlBasic.
From DuneV Require Import C02_Model C02_Spec.
Extraction Language OCaml.
Extraction "c02_model.ml"
  c02_zp c02_solve_aliased c02_solve_dflt c02_invert_dflt c02_determinant_dflt c02_call_invert c02_solve_chk c02_invert_chk c02_solve c02_invert c02_determinant c02_help_invert
  c02_diag_solve c02_diag_invert c02_diag_det c02_diag_dense
  c02_lu c02_ElimPivot
  c02_q c02_scale2 c02_scalev
  c02_spec_mulmv c02_spec_mulmm c02_spec_id c02_spec_det.
