(* C02 — executable model of solve / invert / determinant of dune-common dense matrices.
   Mirrors dune/common/densematrix.hh (luDecomposition 862-930 with the functors Elim / ElimPivot / ElimDet,
   solve 934-1005, invert 1008-1119, determinant 1124-1161), fmatrix.hh FMatrixHelp::invertMatrix(_retTransposed)
   668-774 and diagonalmatrix.hh solve/invert/determinant 437-458, for SCALAR field types (one SIMD lane;
   lanes are property C09).

   Definitions only, no proofs.  Only the list library of ssreflect is used (nth, set_nth, iota, foldl, mkseq):
   no algebra, no big operators, so everything extracts and computes.

   The field is a record of operations [c02_ops F]; the code is polymorphic in it:
     - the theorems (C02_Proofs*.v) instantiate it with a mathcomp fieldType,
     - the correspondence check instantiates it with Z modulo a prime (c02_zp) and runs the extraction.
   Every C++ division goes through [c02_div] (None on a zero divisor; the C++ GF(p) class of the harness throws
   there, IEEE types would produce inf/NaN): x/0 is never given a value.

   Rendering of loops:
     - loops with loop-carried state (outer LU loop, pivot search, functor calls, back substitution, forward /
       backward substitution of invert, column un-permutation, determinant product) are foldl / structural
       recursion in the order of the code;
     - loops whose iterations are independent (element-wise row swap `for j`, the row update
       `for j>i: A[k][j] -= factor*A[i][j]`, and the `for k>i` loop over rows, each of which reads only the
       unmodified pivot row i) are rendered with mkseq (all iterations "at once").
   `pivmax` (a real_type holding absreal of the current best entry) is represented by that entry itself;
   [oabsgt a pm] stands for `absreal(a) > pivmax` and [oabsz pm] for `pivmax == real_type(0)`. *)
From mathcomp Require Import ssreflect ssrfun ssrbool ssrnat seq.
From DuneV Require Import Params_gen.
Set Implicit Arguments.
Unset Strict Implicit.
Unset Printing Implicit Defensive.

Record c02_ops (F : Type) := C02Ops {
  o0 : F; o1 : F;
  oadd : F -> F -> F; osub : F -> F -> F; omul : F -> F -> F; oopp : F -> F;
  odiv : F -> F -> F;            (* only ever called with a divisor that passed [ois0] = false *)
  ois0 : F -> bool;              (* x == 0 *)
  oabsz : F -> bool;             (* absreal(x) == real_type(0) *)
  oabsgt : F -> F -> bool;       (* absreal(a) > absreal(b) *)
  oabslim : F -> bool            (* absreal(x) < FMatrixPrecision<>::absolute_limit()   (DUNE_FMatrix_WITH_CHECKING only) *)
}.

Inductive c02_res (T : Type) := C02_Ok (v : T) | C02_FMatrixError | C02_DivByZero.
Arguments C02_FMatrixError {T}.
Arguments C02_DivByZero {T}.

(* result of luDecomposition: finished / singular pivot met (state at that moment) / a division by zero *)
Inductive c02_lures (T : Type) := C02_LU_Ok (st : T) | C02_LU_Singular (st : T) | C02_LU_DivByZero.
Arguments C02_LU_DivByZero {T}.

Section Model.
Variable F : Type.
Variable ops : c02_ops F.
Let zero := o0 ops.
Let one := o1 ops.
Let add := oadd ops.
Let sub := osub ops.
Let mul := omul ops.
Let opp := oopp ops.

Definition c02_div (a b : F) : option F := if ois0 ops b then None else Some (odiv ops a b).

Definition c02_row (A : seq (seq F)) (i : nat) : seq F := nth [::] A i.
Definition c02_get (A : seq (seq F)) (i j : nat) : F := nth zero (c02_row A i) j.
Definition c02_vget (x : seq F) (i : nat) : F := nth zero x i.
Definition c02_rows (A : seq (seq F)) : nat := size A.
Definition c02_cols (A : seq (seq F)) : nat := size (c02_row A 0).

(* ---- the functor argument of luDecomposition: state S, swap(i, imax), operator()(factor, k, i) *)
Record c02_func (S : Type) := C02Func { fswap : nat -> nat -> S -> S; felim : F -> nat -> nat -> S -> S }.

(* Elim<V>: state = rhs vector *)
Definition c02_Elim : c02_func (seq F) :=
  C02Func (fun i j rhs => set_nth zero (set_nth zero rhs i (c02_vget rhs j)) j (c02_vget rhs i))
          (fun factor k i rhs => set_nth zero rhs k (sub (c02_vget rhs k) (mul factor (c02_vget rhs i)))).
(* ElimPivot: state = pivot vector; pivot_[i] = cond(i == j, pivot_[i], j) *)
Definition c02_ElimPivot : c02_func (seq nat) :=
  C02Func (fun i j piv => if Nat.eqb i j then piv else set_nth 0 piv i j) (fun _ _ _ piv => piv).
(* ElimDet: state = sign; sign_ *= cond(i == j, 1, -1) *)
Definition c02_ElimDet : c02_func F :=
  C02Func (fun i j sg => mul sg (if Nat.eqb i j then one else opp one)) (fun _ _ _ sg => sg).

(* ---- luDecomposition, one iteration of `for i` *)
(* pivot search: pivmax = absreal(A[i][i]); imax = i; for k = i+1 .. n-1: if absreal(A[k][i]) > pivmax then take k *)
Definition c02_pivsearch (n : nat) (A : seq (seq F)) (i : nat) : F * nat :=
  foldl (fun st k => if oabsgt ops (c02_get A k i) st.1 then (c02_get A k i, k) else st)
        (c02_get A i i, i) (iota i.+1 (n - i.+1)).

(* for j: swap(A[i][j], A[imax][j])   (whole rows, stored factors included) *)
Definition c02_swaprows (A : seq (seq F)) (i imax : nat) : seq (seq F) :=
  set_nth [::] (set_nth [::] A i (c02_row A imax)) imax (c02_row A i).

(* row k after `A[k][i] = factor; for j>i: A[k][j] -= factor*A[i][j]` *)
Definition c02_elim_row (i : nat) (factor : F) (rk ri : seq F) : seq F :=
  mkseq (fun j => if Nat.ltb j i then nth zero rk j
                  else if Nat.eqb j i then factor
                  else sub (nth zero rk j) (mul factor (nth zero ri j))) (size rk).

Definition c02_eliminate (n : nat) (A : seq (seq F)) (i : nat) : seq (seq F) :=
  mkseq (fun k => if Nat.ltb i k
                  then c02_elim_row i (odiv ops (c02_get A k i) (c02_get A i i)) (c02_row A k) (c02_row A i)
                  else c02_row A k) n.

Section LU.
Variable S : Type.
Variable func : c02_func S.

Definition c02_lu_step (n : nat) (doPivoting : bool) (i : nat) (st : seq (seq F) * S) : c02_lures (seq (seq F) * S) :=
  let: (A, s) := st in
  let: (A1, s1) :=
    if doPivoting then
      let imax := (c02_pivsearch n A i).2 in (c02_swaprows A i imax, fswap func i imax s)
    else (A, s) in
  (* pivmax = absreal of the entry now at (i,i) *)
  if oabsz ops (c02_get A1 i i) then C02_LU_Singular (A1, s1)
  else if Nat.ltb i.+1 n && ois0 ops (c02_get A1 i i) then C02_LU_DivByZero   (* factor = A[k][i]/A[i][i] *)
  else
    let A2 := c02_eliminate n A1 i in
    (* func(factor, k, i) for k = i+1 .. n-1; the factor is the value just stored in A[k][i] *)
    let s2 := foldl (fun s k => felim func (c02_get A2 k i) k i s) s1 (iota i.+1 (n - i.+1)) in
    C02_LU_Ok (A2, s2).

Fixpoint c02_lu_loop (n : nat) (doPivoting : bool) (idx : seq nat) (st : seq (seq F) * S) : c02_lures (seq (seq F) * S) :=
  match idx with
  | [::] => C02_LU_Ok st
  | i :: rest => match c02_lu_step n doPivoting i st with
                 | C02_LU_Ok st' => c02_lu_loop n doPivoting rest st'
                 | r => r
                 end
  end.

Definition c02_lu (n : nat) (doPivoting : bool) (A : seq (seq F)) (s : S) := c02_lu_loop n doPivoting (iota 0 n) (A, s).
End LU.

(* ---- determinant *)
Definition c02_cond (T : Type) (mask : bool) (a b : T) : T := if mask then a else b.   (* Simd::cond, one lane *)
Definition c02_det3 (A : seq (seq F)) : F :=
  let a := c02_get A in
  let t4 := mul (a 0 0) (a 1 1) in let t6 := mul (a 0 0) (a 1 2) in let t8 := mul (a 0 1) (a 1 0) in
  let t10 := mul (a 0 2) (a 1 0) in let t12 := mul (a 0 1) (a 2 0) in let t14 := mul (a 0 2) (a 2 0) in
  sub (add (add (sub (sub (mul t4 (a 2 2)) (mul t6 (a 2 1))) (mul t8 (a 2 2))) (mul t10 (a 2 1))) (mul t12 (a 1 2))) (mul t14 (a 1 1)).

Definition c02_determinant (A : seq (seq F)) (doPivoting : bool) : c02_res F :=
  let n := c02_rows A in let a := c02_get A in
  if negb (Nat.eqb n (c02_cols A)) then C02_FMatrixError
  else if Nat.eqb n 1 then C02_Ok (a 0 0)
  else if Nat.eqb n 2 then C02_Ok (sub (mul (a 0 0) (a 1 1)) (mul (a 0 1) (a 1 0)))
  else if Nat.eqb n 3 then C02_Ok (c02_det3 A)
  else
    let prod A' d := foldl (fun d i => mul d (c02_get A' i i)) d (iota 0 n) in
    match c02_lu c02_ElimDet n doPivoting A one (* ElimDet's constructor sets sign_ = 1 *) with
    (* for i: det *= A[i][i];  then  det = cond(nonsingularLanes, det, 0)   (order as of /repo 1209091:
       the selection comes AFTER the product) *)
    | C02_LU_Ok (A', sg) => C02_Ok (c02_cond true (prod A' sg) zero)
    | C02_LU_Singular (A', sg) => C02_Ok (c02_cond false (prod A' sg) zero)
    | C02_LU_DivByZero => C02_DivByZero
    end.

(* ---- solve *)
(* back substitution: for i = n-1 .. 0: for j>i: rhs[i] -= A[i][j]*x[j]; x[i] = rhs[i]/A[i][i]   (x aliases rhs) *)
Fixpoint c02_backsolve (n : nat) (A : seq (seq F)) (i : nat) (x : seq F) : option (seq F) :=
  match i with
  | 0 => Some x
  | i'.+1 =>
      let r := foldl (fun acc j => sub acc (mul (c02_get A i' j) (c02_vget x j))) (c02_vget x i') (iota i'.+1 (n - i'.+1)) in
      match c02_div r (c02_get A i' i') with
      | None => None
      | Some v => c02_backsolve n A i' (set_nth zero x i' v)
      end
  end.

Definition c02_solve (A : seq (seq F)) (b : seq F) (doPivoting : bool) : c02_res (seq F) :=
  let n := c02_rows A in let a := c02_get A in let bb := c02_vget b in
  if negb (Nat.eqb n (c02_cols A)) then C02_FMatrixError
  else if Nat.eqb n 1 then
    match c02_div (bb 0) (a 0 0) with Some v => C02_Ok [:: v] | None => C02_DivByZero end
  else if Nat.eqb n 2 then
    let detinv := sub (mul (a 0 0) (a 1 1)) (mul (a 0 1) (a 1 0)) in
    match c02_div one detinv with
    | None => C02_DivByZero
    | Some di => C02_Ok [:: mul di (sub (mul (a 1 1) (bb 0)) (mul (a 0 1) (bb 1)));
                            mul di (sub (mul (a 0 0) (bb 1)) (mul (a 1 0) (bb 0)))]
    end
  else if Nat.eqb n 3 then
    let d := c02_det3 A in     (* determinant(doPivoting) for n = 3 is the closed form *)
    let m3 x y z := mul (mul x y) z in
    let n0 := sub (add (add (sub (sub (m3 (bb 0) (a 1 1) (a 2 2)) (m3 (bb 0) (a 2 1) (a 1 2)))
                   (m3 (bb 1) (a 0 1) (a 2 2))) (m3 (bb 1) (a 2 1) (a 0 2)))
                   (m3 (bb 2) (a 0 1) (a 1 2))) (m3 (bb 2) (a 1 1) (a 0 2)) in
    let n1 := sub (add (add (sub (sub (m3 (a 0 0) (bb 1) (a 2 2)) (m3 (a 0 0) (bb 2) (a 1 2)))
                   (m3 (a 1 0) (bb 0) (a 2 2))) (m3 (a 1 0) (bb 2) (a 0 2)))
                   (m3 (a 2 0) (bb 0) (a 1 2))) (m3 (a 2 0) (bb 1) (a 0 2)) in
    let n2 := sub (add (add (sub (sub (m3 (a 0 0) (a 1 1) (bb 2)) (m3 (a 0 0) (a 2 1) (bb 1)))
                   (m3 (a 1 0) (a 0 1) (bb 2))) (m3 (a 1 0) (a 2 1) (bb 0)))
                   (m3 (a 2 0) (a 0 1) (bb 1))) (m3 (a 2 0) (a 1 1) (bb 0)) in
    match c02_div n0 d, c02_div n1 d, c02_div n2 d with
    | Some x0, Some x1, Some x2 => C02_Ok [:: x0; x1; x2]
    | _, _, _ => C02_DivByZero
    end
  else
    (* rhs = b (copied into x); A = copy of *this; luDecomposition(A, Elim(rhs), ..., throwEarly = true, doPivoting) *)
    match c02_lu c02_Elim n doPivoting A (mkseq bb n) with
    | C02_LU_Singular _ => C02_FMatrixError
    | C02_LU_DivByZero => C02_DivByZero
    | C02_LU_Ok (A', rhs) =>
        match c02_backsolve n A' n rhs with Some x => C02_Ok x | None => C02_DivByZero end
    end.

(* ---- invert *)
Definition c02_row_axpy (n : nat) (c : F) (x y : seq F) : seq F :=     (* y[k] -= c*x[k], k = 0..n-1 *)
  mkseq (fun k => sub (nth zero y k) (mul c (nth zero x k))) n.

Definition c02_swapcols (n : nat) (B : seq (seq F)) (i pi : nat) : seq (seq F) :=   (* for j: swap(B[j][pi], B[j][i]) *)
  mkseq (fun j => let r := c02_row B j in set_nth zero (set_nth zero r pi (nth zero r i)) i (nth zero r pi)) n.

Definition c02_invert (A : seq (seq F)) (doPivoting : bool) : c02_res (seq (seq F)) :=
  let n := c02_rows A in let a := c02_get A in
  if negb (Nat.eqb n (c02_cols A)) then C02_FMatrixError
  else if Nat.eqb n 1 then
    match c02_div one (a 0 0) with Some v => C02_Ok [:: [:: v]] | None => C02_DivByZero end
  else if Nat.eqb n 2 then
    let detinv := sub (mul (a 0 0) (a 1 1)) (mul (a 0 1) (a 1 0)) in
    match c02_div one detinv with
    | None => C02_DivByZero
    | Some di => C02_Ok [:: [:: mul (a 1 1) di; mul (opp (a 0 1)) di]; [:: mul (opp (a 1 0)) di; mul (a 0 0) di]]
    end
  else if Nat.eqb n 3 then
    let t4 := mul (a 0 0) (a 1 1) in let t6 := mul (a 0 0) (a 1 2) in let t8 := mul (a 0 1) (a 1 0) in
    let t10 := mul (a 0 2) (a 1 0) in let t12 := mul (a 0 1) (a 2 0) in let t14 := mul (a 0 2) (a 2 0) in
    let det := c02_det3 A in
    match c02_div one det with
    | None => C02_DivByZero
    | Some t17 =>
      C02_Ok [:: [:: mul (sub (mul (a 1 1) (a 2 2)) (mul (a 1 2) (a 2 1))) t17;
                     mul (opp (sub (mul (a 0 1) (a 2 2)) (mul (a 0 2) (a 2 1)))) t17;
                     mul (sub (mul (a 0 1) (a 1 2)) (mul (a 0 2) (a 1 1))) t17];
                 [:: mul (opp (sub (mul (a 1 0) (a 2 2)) (mul (a 1 2) (a 2 0)))) t17;
                     mul (sub (mul (a 0 0) (a 2 2)) t14) t17;
                     mul (opp (sub t6 t10)) t17];
                 [:: mul (sub (mul (a 1 0) (a 2 1)) (mul (a 1 1) (a 2 0))) t17;
                     mul (opp (sub (mul (a 0 0) (a 2 1)) t12)) t17;
                     mul (sub t4 t8) t17]]
    end
  else
    match c02_lu c02_ElimPivot n doPivoting A (iota 0 n) (* ElimPivot's constructor: pivot_[i] = i *) with
    | C02_LU_Singular _ => C02_FMatrixError
    | C02_LU_DivByZero => C02_DivByZero
    | C02_LU_Ok (LU, pivot) =>
      (* this = field_type(0); this[i][i] = 1 *)
      let B0 := mkseq (fun i => mkseq (fun k => if Nat.eqb i k then one else zero) n) n in
      (* L Y = I:  for i: for j<i: for k: B[i][k] -= L[i][j]*B[j][k] *)
      let B1 := foldl (fun B i =>
                  set_nth [::] B i (foldl (fun r j => c02_row_axpy n (c02_get LU i j) (c02_row B j) r) (c02_row B i) (iota 0 i)))
                  B0 (iota 0 n) in
      (* U X = Y:  for i = n-1..0: for k: { for j>i: B[i][k] -= U[i][j]*B[j][k];  B[i][k] /= U[i][i] } *)
      let B2 := foldl (fun oB i =>
                  match oB with
                  | None => None
                  | Some B =>
                    let r := foldl (fun r j => c02_row_axpy n (c02_get LU i j) (c02_row B j) r) (c02_row B i) (iota i.+1 (n - i.+1)) in
                    if ois0 ops (c02_get LU i i) then None
                    else Some (set_nth [::] B i (mkseq (fun k => odiv ops (nth zero r k) (c02_get LU i i)) n))
                  end) (Some B1) (rev (iota 0 n)) in
      match B2 with
      | None => C02_DivByZero
      | Some B2 =>
        (* for i = n-1..0: if i != pivot[i]: swap columns pivot[i] and i *)
        C02_Ok (foldl (fun B i => let pi := nth 0 pivot i in if Nat.eqb i pi then B else c02_swapcols n B i pi) B2 (rev (iota 0 n)))
      end
    end.

(* ---- the same with DUNE_FMatrix_WITH_CHECKING defined: closed forms first test
   `absreal(det) < FMatrixPrecision<>::absolute_limit()` (the test is [oabslim]; the default limit is re-read from precision.hh into
   Params_gen.c02_param_abs_limit_*, see c02_zp_abslim) and throw FMatrixError.  solve() has the test for n = 1, 2, 3; invert() for n = 1, 2 ONLY
   (the 3x3 branch of invert divides unchecked).  This optional mode for n <= 3 is outside property C02. *)
Definition c02_closed_det (A : seq (seq F)) : option F :=
  let n := c02_rows A in let a := c02_get A in
  if Nat.eqb n 1 then Some (a 0 0)
  else if Nat.eqb n 2 then Some (sub (mul (a 0 0) (a 1 1)) (mul (a 0 1) (a 1 0)))
  else if Nat.eqb n 3 then Some (c02_det3 A)
  else None.
Definition c02_chk_singular (A : seq (seq F)) : bool :=
  Nat.eqb (c02_rows A) (c02_cols A) && (match c02_closed_det A with Some d => oabslim ops d | None => false end).
Definition c02_solve_chk (A : seq (seq F)) (b : seq F) (doPivoting : bool) : c02_res (seq F) :=
  if c02_chk_singular A then C02_FMatrixError else c02_solve A b doPivoting.
Definition c02_invert_chk (A : seq (seq F)) (doPivoting : bool) : c02_res (seq (seq F)) :=
  if negb (Nat.eqb (c02_rows A) 3) && c02_chk_singular A then C02_FMatrixError else c02_invert A doPivoting.

(* ---- solve(x, x): the right-hand side aliases the result vector, THE CODE AS IT IS.  n = 1 and the LU path (`rhs = b; // copy
   data` is a self-assignment, everything after works on rhs) are unaffected; the closed forms n = 2, 3 write x[0] (x[1])
   and then read "b[0]" ("b[1]") again, which by then holds the result.  (fixes/C02-2.patch reads b first; the patched code
   is c02_solve itself.) *)
Definition c02_solve_aliased (A : seq (seq F)) (b : seq F) (doPivoting : bool) : c02_res (seq F) :=
  let n := c02_rows A in let a := c02_get A in let bb := c02_vget b in
  if negb (Nat.eqb n (c02_cols A)) then C02_FMatrixError
  else if Nat.eqb n 2 then
    let detinv := sub (mul (a 0 0) (a 1 1)) (mul (a 0 1) (a 1 0)) in
    match c02_div one detinv with
    | None => C02_DivByZero
    | Some di => let x0 := mul di (sub (mul (a 1 1) (bb 0)) (mul (a 0 1) (bb 1))) in
                 C02_Ok [:: x0; mul di (sub (mul (a 0 0) (bb 1)) (mul (a 1 0) x0))]
    end
  else if Nat.eqb n 3 then
    let d := c02_det3 A in
    let m3 x y z := mul (mul x y) z in
    let num0 b0 b1 b2 := sub (add (add (sub (sub (m3 b0 (a 1 1) (a 2 2)) (m3 b0 (a 2 1) (a 1 2)))
                   (m3 b1 (a 0 1) (a 2 2))) (m3 b1 (a 2 1) (a 0 2)))
                   (m3 b2 (a 0 1) (a 1 2))) (m3 b2 (a 1 1) (a 0 2)) in
    let num1 b0 b1 b2 := sub (add (add (sub (sub (m3 (a 0 0) b1 (a 2 2)) (m3 (a 0 0) b2 (a 1 2)))
                   (m3 (a 1 0) b0 (a 2 2))) (m3 (a 1 0) b2 (a 0 2)))
                   (m3 (a 2 0) b0 (a 1 2))) (m3 (a 2 0) b1 (a 0 2)) in
    let num2 b0 b1 b2 := sub (add (add (sub (sub (m3 (a 0 0) (a 1 1) b2) (m3 (a 0 0) (a 2 1) b1))
                   (m3 (a 1 0) (a 0 1) b2)) (m3 (a 1 0) (a 2 1) b0))
                   (m3 (a 2 0) (a 0 1) b1)) (m3 (a 2 0) (a 1 1) b0) in
    match c02_div (num0 (bb 0) (bb 1) (bb 2)) d with
    | None => C02_DivByZero
    | Some x0 => match c02_div (num1 x0 (bb 1) (bb 2)) d with
                 | None => C02_DivByZero
                 | Some x1 => match c02_div (num2 x0 x1 (bb 2)) d with
                              | None => C02_DivByZero
                              | Some x2 => C02_Ok [:: x0; x1; x2]
                              end
                 end
    end
  else c02_solve A b doPivoting.

(* ---- FMatrixHelp::invertMatrix / invertMatrix_retTransposed (n = 1,2,3): returns (det, inverse) *)
Definition c02_transpose (n : nat) (B : seq (seq F)) : seq (seq F) := mkseq (fun i => mkseq (fun j => c02_get B j i) n) n.

Definition c02_help_invert (A : seq (seq F)) (transposed : bool) : c02_res (F * seq (seq F)) :=
  let n := c02_rows A in let a := c02_get A in
  let out B := if transposed then c02_transpose n B else B in
  if Nat.eqb n 1 then
    match c02_div one (a 0 0) with Some v => C02_Ok (a 0 0, [:: [:: v]]) | None => C02_DivByZero end
  else if Nat.eqb n 2 then
    let det := sub (mul (a 0 0) (a 1 1)) (mul (a 0 1) (a 1 0)) in
    match c02_div one det with
    | None => C02_DivByZero
    | Some di => C02_Ok (det, out [:: [:: mul (a 1 1) di; mul (opp (a 0 1)) di]; [:: mul (opp (a 1 0)) di; mul (a 0 0) di]])
    end
  else if Nat.eqb n 3 then
    let t4 := mul (a 0 0) (a 1 1) in let t6 := mul (a 0 0) (a 1 2) in let t8 := mul (a 0 1) (a 1 0) in
    let t10 := mul (a 0 2) (a 1 0) in let t12 := mul (a 0 1) (a 2 0) in let t14 := mul (a 0 2) (a 2 0) in
    let det := c02_det3 A in
    match c02_div one det with
    | None => C02_DivByZero
    | Some t17 =>
      C02_Ok (det, out
             [:: [:: mul (sub (mul (a 1 1) (a 2 2)) (mul (a 1 2) (a 2 1))) t17;
                     mul (opp (sub (mul (a 0 1) (a 2 2)) (mul (a 0 2) (a 2 1)))) t17;
                     mul (sub (mul (a 0 1) (a 1 2)) (mul (a 0 2) (a 1 1))) t17];
                 [:: mul (opp (sub (mul (a 1 0) (a 2 2)) (mul (a 1 2) (a 2 0)))) t17;
                     mul (sub (mul (a 0 0) (a 2 2)) t14) t17;
                     mul (opp (sub t6 t10)) t17];
                 [:: mul (sub (mul (a 1 0) (a 2 1)) (mul (a 1 1) (a 2 0))) t17;
                     mul (opp (sub (mul (a 0 0) (a 2 1)) t12)) t17;
                     mul (sub t4 t8) t17]])
    end
  else C02_FMatrixError (* no overload for n >= 4: does not compile in C++; never generated *).

(* ---- DiagonalMatrix<K,n>: solve, invert, determinant on the diagonal d (n >= 1) *)
Fixpoint c02_diag_solve (d b : seq F) : option (seq F) :=
  match d, b with
  | di :: d', bi :: b' =>
      match c02_div bi di with
      | None => None
      | Some v => match c02_diag_solve d' b' with Some r => Some (v :: r) | None => None end
      end
  | _, _ => Some [::]
  end.
Definition c02_diag_invert (d : seq F) : option (seq F) := c02_diag_solve d (nseq (size d) one).
Definition c02_diag_det (d : seq F) : F := foldl mul (nth zero d 0) (behead d).
(* the dense matrix a DiagonalMatrix stands for *)
Definition c02_diag_dense (d : seq F) : seq (seq F) :=
  let n := size d in mkseq (fun i => mkseq (fun j => if Nat.eqb i j then nth zero d i else zero) n) n.
End Model.

(* ---- calls that use the DEFAULT argument: `solve(x,b)`, `invert()`, `determinant()`.  The default values are re-read from
   the declarations in densematrix.hh on every run (tools/params.d/C02.py -> Params_gen.v). *)
Section Defaults.
Variable F : Type.
Variable ops : c02_ops F.
Definition c02_solve_dflt (A : seq (seq F)) (b : seq F) := c02_solve ops A b c02_param_solve_default_pivoting.
Definition c02_invert_dflt (A : seq (seq F)) := c02_invert ops A c02_param_invert_default_pivoting.
Definition c02_determinant_dflt (A : seq (seq F)) := c02_determinant ops A c02_param_det_default_pivoting.

(* ---- the objects after a call.  solve / determinant are const members working on a copy
   (`AutonomousValue<MAT> A(asImp())`): the matrix object and b are what they were.  invert() overwrites the matrix object
   only after every operation that can throw has been passed (n <= 3: the division 1/det comes first; n >= 4: luDecomposition
   runs on a copy and throws before `this = field_type(0)`), so after an exception the matrix object is unchanged. *)
Record c02_objs := C02Objs { ob_A : seq (seq F); ob_b : seq F }.
Definition c02_call_solve (o : c02_objs) (piv : bool) : c02_res (seq F) * c02_objs := (c02_solve ops (ob_A o) (ob_b o) piv, o).
Definition c02_call_determinant (o : c02_objs) (piv : bool) : c02_res F * c02_objs := (c02_determinant ops (ob_A o) piv, o).
Definition c02_call_invert (o : c02_objs) (piv : bool) : c02_res unit * c02_objs :=
  match c02_invert ops (ob_A o) piv with
  | C02_Ok B => (C02_Ok tt, C02Objs B (ob_b o))
  | C02_FMatrixError => (C02_FMatrixError, o)
  | C02_DivByZero => (C02_DivByZero, o)
  end.
End Defaults.

(* ---- the instance used by the correspondence check: integers modulo a prime p, representatives in [0,p) *)
From Coq Require Import ZArith.
Definition c02_zp_inv (p a : Z) : Z :=      (* a^(p-2) mod p by square-and-multiply; fuel 64 >= bits of p *)
  (fix pw (fuel : nat) (b e acc : Z) {struct fuel} : Z :=
     match fuel with
     | 0 => acc
     | fuel'.+1 => if Z.eqb e 0 then acc
                  else pw fuel' (Z.modulo (Z.mul b b) p) (Z.div e 2) (if Z.odd e then Z.modulo (Z.mul acc b) p else acc)
     end) 64 (Z.modulo a p) (Z.sub p 2) 1%Z.
(* rep < mant * 10^exp10 as an exact comparison of rationals *)
Definition c02_zp_abslim (a : Z) : bool :=
  if Z.ltb c02_param_abs_limit_exp10 0 then Z.ltb (Z.mul a (Z.pow 10 (Z.opp c02_param_abs_limit_exp10))) c02_param_abs_limit_mant
  else Z.ltb a (Z.mul c02_param_abs_limit_mant (Z.pow 10 c02_param_abs_limit_exp10)).
Definition c02_zp (p : Z) : c02_ops Z :=
  C02Ops 0%Z (Z.modulo 1 p)
    (fun a b => Z.modulo (Z.add a b) p) (fun a b => Z.modulo (Z.sub a b) p) (fun a b => Z.modulo (Z.mul a b) p)
    (fun a => Z.modulo (Z.opp a) p)
    (fun a b => Z.modulo (Z.mul a (c02_zp_inv p b)) p)
    (fun a => Z.eqb a 0) (fun a => Z.eqb a 0) (fun a b => Z.ltb b a) c02_zp_abslim.

(* ---- Round 6: the MAGNITUDE dimension.
   (1) the metamorphic transformation of the correspondence check: A' = diag(r) * A * diag(s) at list level
       (the scalar multiple c*A = A*c is r = (1,...,1), s = (c,...,c)); b' = diag(r) * b. *)
Section Scale.
Variable F : Type.
Variable ops : c02_ops F.
Definition c02_scale2 (n : nat) (r s : seq F) (A : seq (seq F)) : seq (seq F) :=
  mkseq (fun i => mkseq (fun j => omul ops (omul ops (nth (o0 ops) r i) (c02_get ops A i j)) (nth (o0 ops) s j)) n) n.
Definition c02_scalev (n : nat) (r b : seq F) : seq F := mkseq (fun i => omul ops (nth (o0 ops) r i) (c02_vget ops b i)) n.
Definition c02_scale (n : nat) (c : F) (A : seq (seq F)) : seq (seq F) := c02_scale2 n (nseq n (o1 ops)) (nseq n c) A.
End Scale.

(* (2) an instance of the field operations in which magnitudes EXIST: the rationals (Coq's Q, kept reduced), absreal = |.|.
   It is the exact-arithmetic reading of double / long double / float (and of complex types with real entries); the
   correspondence check runs it on matrices diag(2^e) * A * diag(2^f) on which the floating-point elimination is exact.
   The pivot test `pivmax <cmp> <threshold>` of luDecomposition is RE-READ from densematrix.hh (Params_gen:
   c02_param_lu_sing_cmp / _thr); the source reads `pivmax != real_type(0)`, which makes c02_q_pivzero the zero test
   (theorem C02_lu_pivot_test_is_zero_test); any threshold makes it a magnitude test and the theorem false. *)
From Coq Require Import QArith Qabs.
Definition c02_q_limit : Q :=
  if Z.ltb c02_param_abs_limit_exp10 0 then Qmake c02_param_abs_limit_mant (Z.to_pos (Z.pow 10 (Z.opp c02_param_abs_limit_exp10)))
  else inject_Z (Z.mul c02_param_abs_limit_mant (Z.pow 10 c02_param_abs_limit_exp10)).
Definition c02_q_lt (a b : Q) : bool := negb (Qle_bool b a).
(* "singular ?" of luDecomposition: the negation of `pivmax <cmp> <threshold>` *)
Definition c02_q_pivzero (x : Q) : bool :=
  let thr := match c02_param_lu_sing_thr with O => Some 0%Q | S O => Some c02_q_limit | _ => None end in
  match thr, c02_param_lu_sing_cmp with
  | Some t, O => Qeq_bool (Qabs x) t            (* pivmax != t *)
  | Some t, S O => Qle_bool (Qabs x) t            (* pivmax >  t *)
  | Some t, S (S O) => c02_q_lt (Qabs x) t            (* pivmax >= t *)
  | _, _ => true                                (* a test the translator does not know: every pivot counts as singular *)
  end.
Definition c02_q : c02_ops Q :=
  C02Ops 0%Q 1%Q (fun a b => Qred (Qplus a b)) (fun a b => Qred (Qminus a b)) (fun a b => Qred (Qmult a b)) (fun a => Qred (Qopp a))
    (fun a b => Qred (Qdiv a b))
    (fun a => Qeq_bool a 0) c02_q_pivzero (fun a b => c02_q_lt (Qabs b) (Qabs a)) (fun a => c02_q_lt (Qabs a) c02_q_limit).
