(* C02 — proofs, part 1: list-level lemmas, the LU step as a matrix identity, the LU loop invariant. *)
From mathcomp Require Import all_ssreflect all_algebra.
From mathcomp Require Import fingroup perm ring zify.
From Coq Require Import PeanoNat.
From DuneV Require Import C02_Model C02_Spec.
Import GRing.Theory.
Set Implicit Arguments.
Unset Strict Implicit.
Unset Printing Implicit Defensive.
Local Open Scope ring_scope.

Lemma ltbE a b : Nat.ltb a b = (a < b)%N.
Proof. by apply/idP/idP => [/Nat.ltb_lt /ltP|/ltP /Nat.ltb_lt]. Qed.
Lemma eqbE a b : Nat.eqb a b = (a == b).
Proof. by apply/idP/idP => [/Nat.eqb_eq -> //|/eqP ->]; apply/Nat.eqb_eq. Qed.

Section Lists.
Variable F : fieldType.
Variable absr : F -> nat.
Hypothesis absr0 : forall x, (absr x == 0%N) = (x == 0).
Notation ops := (c02_fops absr).
Notation get := (c02_get ops).
Notation vget := (c02_vget ops).

Definition wfm n (A : seq (seq F)) := size A = n /\ forall k, (k < n)%N -> size (c02_row A k) = n.

Lemma get_swaprows A i im k j :
  get (c02_swaprows A i im) k j = get A (if k == im then i else if k == i then im else k) j.
Proof.
rewrite /c02_get /c02_swaprows /c02_row nth_set_nth /= nth_set_nth /=.
by case: (k == im); case: (k == i).
Qed.

Lemma wfm_swaprows n A i im : wfm n A -> (i < n)%N -> (im < n)%N -> wfm n (c02_swaprows A i im).
Proof.
move=> [sA rA] Hi Him; split.
  by rewrite /c02_swaprows !size_set_nth sA /c02_row; lia.
move=> k Hk; rewrite /c02_swaprows /c02_row nth_set_nth /= nth_set_nth /=.
by case: ifP => _; [apply: rA|case: ifP => _; apply: rA].
Qed.

Lemma get_eliminate n A i k j : wfm n A -> (k < n)%N -> (j < n)%N ->
  get (c02_eliminate ops n A i) k j =
   if (i < k)%N then (if (j < i)%N then get A k j else if j == i then get A k i / get A i i
                      else get A k j - (get A k i / get A i i) * get A i j) else get A k j.
Proof.
move=> [sA rA] Hk Hj; rewrite /c02_get {1}/c02_row /c02_eliminate nth_mkseq // ltbE.
case: ifP => // Hik; rewrite /c02_elim_row nth_mkseq ?rA // ltbE eqbE.
by [].
Qed.

Lemma wfm_eliminate n A i : wfm n A -> wfm n (c02_eliminate ops n A i).
Proof.
move=> [sA rA]; split; first by rewrite /c02_eliminate size_mkseq.
move=> k Hk; rewrite /c02_row /c02_eliminate nth_mkseq //.
by case: ifP => _; rewrite ?size_mkseq; apply: rA.
Qed.

Lemma pivfold A i len : forall start st, st.1 = get A st.2 i ->
  let r := foldl (fun st k => if oabsgt ops (get A k i) st.1 then (get A k i, k) else st) st (iota start len) in
  [/\ r.1 = get A r.2 i, (r.2 = st.2) \/ (start <= r.2 < start + len)%N, (absr st.1 <= absr r.1)%N
    & forall k, (start <= k < start + len)%N -> (absr (get A k i) <= absr r.1)%N].
Proof.
elim: len => [|len IH] start st Hst /=.
  by split=> //; [left|move=> k; lia].
case: ifP => Hlt.
  case: (IH start.+1 (get A start i, start) erefl) => /= H1 H2 H3 H4; split=> //.
  - by right; case: H2 => [->|]; lia.
  - by apply: leq_trans H3; apply: ltnW.
  - move=> k Hk; case: (k =P start) => [->//|Hne]; apply: H4; lia.
case: (IH start.+1 st Hst) => /= H1 H2 H3 H4; split=> //.
- by case: H2 => [->|]; [left|right; lia].
- move=> k Hk; case: (k =P start) => [->|Hne]; last by apply: H4; lia.
  by apply: leq_trans H3; rewrite leqNgt; apply/negP; move: Hlt => /= ->.
Qed.

Lemma pivsearch_spec n A i : (i < n)%N ->
  let r := c02_pivsearch ops n A i in
  [/\ r.1 = get A r.2 i, (i <= r.2 < n)%N & forall k, (i <= k < n)%N -> (absr (get A k i) <= absr r.1)%N].
Proof.
move=> Hi; rewrite /c02_pivsearch.
case: (@pivfold A i (n - i.+1) i.+1 (get A i i, i) erefl) => /= H1 H2 H3 H4; split=> //.
- by case: H2 => [->|]; lia.
- move=> k Hk; case: (k =P i) => [->//|Hne]; apply: H4; lia.
Qed.


(* ---------------------------------------------------------------- matrix view of the LU state *)
Variable n : nat.

(* the "active" matrix after i columns are done: stored factors (below the diagonal, columns < i) read as 0 *)
Definition Uv i (A : seq (seq F)) : 'M[F]_n := \matrix_(k, j) if (j < i)%N && (j < k)%N then 0 else get A k j.
(* elimination matrix of step i: 1 - sum_{k>i} f k * delta_{k,i} *)
Definition Nmx i (f : nat -> F) : 'M[F]_n := \matrix_(k, l) (if (i < k)%N && (l == i :> nat) then f k else 0).
Definition Emx i (f : nat -> F) : 'M[F]_n := 1%:M - Nmx i f.

Lemma Nmx_mul m i (Hi : (i < n)%N) f (M : 'M[F]_(n, m)) k j :
  (Nmx i f *m M) k j = if (i < k)%N then f k * M (Ordinal Hi) j else 0.
Proof.
rewrite mxE (bigD1 (Ordinal Hi)) //= big1 ?addr0; last first.
  by move=> l Hl; rewrite !mxE -val_eqE /= in Hl *; rewrite (negbTE Hl) andbF mul0r.
by rewrite !mxE /= eqxx andbT; case: ifP => // _; rewrite mul0r.
Qed.

Lemma Emx_mul m i (Hi : (i < n)%N) f (M : 'M[F]_(n, m)) k j :
  (Emx i f *m M) k j = M k j - (if (i < k)%N then f k * M (Ordinal Hi) j else 0).
Proof. by rewrite /Emx mulmxBl mul1mx mxE [in X in _ + X]mxE Nmx_mul. Qed.

Lemma det_Emx i f : \det (Emx i f) = 1.
Proof.
rewrite det_trig; last first.
  apply/is_trig_mxP => k l Hkl; rewrite !mxE.
  have -> : (k == l) = false by apply/negbTE; rewrite neq_ltn Hkl.
  case: ifP => [/andP [Hik /eqP Hli]|_]; last by rewrite subr0.
  by move: Hkl Hik; rewrite Hli => a b; lia.
apply: big1 => k _; rewrite !mxE eqxx.
by case: ifP => [/andP [Hik /eqP Hki]|_]; [lia|rewrite subr0].
Qed.

Lemma unit_Emx i f : Emx i f \in unitmx.
Proof. by rewrite unitmxE det_Emx unitr1. Qed.

Lemma Uv_swap i im (Hi : (i < n)%N) (Him : (im < n)%N) A : (i <= im)%N ->
  Uv i (c02_swaprows A i im) = xrow (Ordinal Hi) (Ordinal Him) (Uv i A).
Proof.
move=> Hle; apply/matrixP => k j; rewrite !mxE get_swaprows permE /= -!val_eqE /=.
case: (altP (val k =P im)) => [Hk2|Hkim]; case: (altP (val k =P i)) => [Hk|Hki] //=.
- have E : im = i by rewrite -Hk2 -Hk.
  have Ek : (k : nat) = i := Hk.
  by rewrite E Ek.
- have Ek : (k : nat) = im := Hk2.
  by rewrite Ek; case: (ltnP j i) => //= Hji; have -> : (j < im)%N by lia.
- have Ek : (k : nat) = i := Hk.
  by rewrite Ek; case: (ltnP j i) => //= Hji; have -> : (j < im)%N by lia.
Qed.

Lemma Uv_elim i (Hi : (i < n)%N) A : wfm n A -> get A i i != 0 ->
  Uv i.+1 (c02_eliminate ops n A i) = Emx i (fun k => get (c02_eliminate ops n A i) k i) *m Uv i A.
Proof.
move=> wA Hp; apply/matrixP => k j; rewrite Emx_mul !mxE !get_eliminate //= eqxx ltnn.
case: (ltnP i k) => Hik /=; last first.
  rewrite subr0; congr (if _ then _ else _).
  by case: (ltnP j k) => //=; rewrite ?andbF ?andbT //; lia.
case: (ltnP j i) => Hji /=.
  have -> : (j < i.+1)%N && (j < k)%N by lia.
  have -> : (j < k)%N by lia.
  by rewrite mulr0 subr0.
case: (altP (j =P i :> nat)) => [Hj|Hne].
  have -> : (j < i.+1)%N && (j < k)%N by lia.
  by rewrite Hj; field.
have -> : (j < i.+1)%N && (j < k)%N = false by lia.
by [].
Qed.


(* ---------------------------------------------------------------- the stored factors: unit lower triangular L *)
Definition Lv i (A : seq (seq F)) : 'M[F]_n := \matrix_(k, j) if (j < i)%N && (j < k)%N then get A k j else (k == j)%:R.

Lemma tperm_mx_sq (a b : 'I_n) : tperm_mx a b *m tperm_mx a b = 1%:M :> 'M[F]_n.
Proof. by rewrite /tperm_mx -perm_mxM tperm2 perm_mx1. Qed.

Lemma Lv_swap i im (Hi : (i < n)%N) (Him : (im < n)%N) A : (i <= im)%N ->
  Lv i (c02_swaprows A i im) = xrow (Ordinal Hi) (Ordinal Him) (xcol (Ordinal Hi) (Ordinal Him) (Lv i A)).
Proof.
move=> Hle; apply/matrixP => k j; rewrite !mxE get_swaprows (inj_eq perm_inj).
pose sg (x : nat) := if x == i then im else if x == im then i else x.
have sgE (x : 'I_n) : tperm (Ordinal Hi) (Ordinal Him) x = sg x :> nat.
  by rewrite permE /= -!val_eqE /= /sg; case: ifP => _ //; case: ifP.
have sgE' (x : nat) : (if x == im then i else if x == i then im else x) = sg x.
  by rewrite /sg; case: (altP (x =P i)) => [->|Ni]; case: (altP (x =P im)) => [E|Nm] //=; case: ifP => // /eqP.
rewrite !sgE sgE'.
case: (ltnP j i) => Hji /=.
  have sgj : sg j = j.
    rewrite /sg; have -> : ((j : nat) == i) = false by lia.
    by have -> : ((j : nat) == im) = false by lia.
  have sgk : (j < sg k)%N = (j < k)%N.
    by rewrite /sg; case: ifP => [/eqP ->|_]; [lia|case: ifP => [/eqP ->|//]; lia].
  by rewrite sgj Hji sgk.
have -> : (sg j < i)%N = false.
  by rewrite /sg; case: ifP => _; [lia|case: ifP => _; lia].
by [].
Qed.

Lemma Lv_elim i A : wfm n A ->
  Lv i.+1 (c02_eliminate ops n A i) = Lv i A + Nmx i (fun k => get (c02_eliminate ops n A i) k i).
Proof.
move=> wA; apply/matrixP => k j; rewrite !mxE.
case: (ltnP j i) => Hji /=.
  have -> : (j < i.+1)%N by lia.
  have -> : ((j : nat) == i) = false by lia.
  rewrite andbF addr0 /=; case: ifP => // Hjk.
  by rewrite get_eliminate //; case: ifP => // _; rewrite Hji.
case: (altP ((j : nat) =P i)) => [Hj|Hne].
  rewrite Hj ltnSn /= andbT; case: ifP => Hik; last by rewrite addr0.
  have -> : (k == j) = false by apply/negbTE; rewrite -val_eqE /= Hj; lia.
  by rewrite add0r.
have -> : (j < i.+1)%N = false by lia.
by rewrite andbF addr0.
Qed.

Lemma Nmx_sq i (Hi : (i < n)%N) f g : Nmx i f *m Nmx i g = 0.
Proof.
apply/matrixP => k j; rewrite (Nmx_mul Hi) !mxE /= ltnn /=.
by case: ifP => // _; rewrite mulr0.
Qed.

Lemma Lv_Nmx i (Hi : (i < n)%N) A f : Lv i A *m Nmx i f = Nmx i f.
Proof.
apply/matrixP => k j; rewrite [RHS]mxE mxE.
case: (altP ((j : nat) =P i)) => [Hj|Hne]; last first.
  by rewrite andbF big1 // => m _; rewrite !mxE (negbTE Hne) andbF mulr0.
rewrite andbT (bigD1 k) //= big1 ?addr0; last first.
  move=> m Hm; rewrite !mxE Hj eqxx andbT.
  case: (ltnP i m) => Him; last by rewrite mulr0.
  have -> : (m < i)%N = false by lia.
  by rewrite /= eq_sym (negbTE Hm) mul0r.
rewrite !mxE ltnn andbF eqxx mul1r Hj eqxx andbT.
by [].
Qed.

Lemma LvE i (Hi : (i < n)%N) A f : (Lv i A + Nmx i f) *m Emx i f = Lv i A.
Proof.
rewrite /Emx mulmxBr mulmx1 mulmxDl (Lv_Nmx Hi) (Nmx_sq Hi) addr0.
by rewrite addrK.
Qed.

(* ---------------------------------------------------------------- the LU loop invariant, generic in the functor *)
Section Loop.
Variable S : Type.
Variable func : c02_func F S.
(* Rpre i G P s: at the head of iteration i the functor state s reflects the accumulated row operations G and the
   accumulated row permutation P; Rpost i: the same after the swap of iteration i *)
Variable Rpre Rpost : nat -> 'M[F]_n -> 'M[F]_n -> S -> Prop.
Variable piv : bool.    (* doPivoting: the swap hypothesis is only needed when it is on *)
Hypothesis Rswap : piv -> forall G P s i im (Hi : (i < n)%N) (Him : (im < n)%N), (i <= im)%N -> Rpre i G P s ->
  Rpost i (xrow (Ordinal Hi) (Ordinal Him) G) (xrow (Ordinal Hi) (Ordinal Him) P) (fswap func i im s).
Hypothesis Rskip : forall G P s i, (i < n)%N -> Rpre i G P s -> Rpost i G P s.
Hypothesis Relim : forall G P s i f, (i < n)%N -> Rpost i G P s ->
  Rpre i.+1 (Emx i f *m G) P (foldl (fun s k => felim func (f k) k i s) s (iota i.+1 (n - i.+1))).
Variable A0 : 'M[F]_n.

(* U_i = G * A0 (G: the row operations so far, invertible) and L_i * G = P (P: the row permutation so far),
   hence L_i * U_i = P * A0 *)
Definition invg (Rx : 'M[F]_n -> 'M[F]_n -> S -> Prop) i (st : seq (seq F) * S) :=
  [/\ wfm n st.1, (forall k, (k < i)%N -> get st.1 k k != 0)
    & exists G P, [/\ G \in unitmx, Uv i st.1 = G *m A0, Lv i st.1 *m G = P & Rx G P st.2]].
Definition inv i := invg (Rpre i) i.

Lemma invg_weaken (Rx Ry : 'M[F]_n -> 'M[F]_n -> S -> Prop) i st :
  (forall G P s, Rx G P s -> Ry G P s) -> invg Rx i st -> invg Ry i st.
Proof. by move=> H [wA Hd [G [P [uG UG LG RG]]]]; split=> //; exists G, P; split=> //; apply: H. Qed.

Definition step_post i (r : c02_lures (seq (seq F) * S)) :=
  match r with
  | C02_LU_Ok st' => inv i.+1 st'
  | C02_LU_Singular st' => [/\ invg (Rpost i) i st', get st'.1 i i = 0
                             & piv -> forall k, (i <= k < n)%N -> get st'.1 k i = 0]
  | C02_LU_DivByZero => False
  end.

Lemma lu_step_tail i A1 s1 : (i < n)%N -> invg (Rpost i) i (A1, s1) ->
  (get A1 i i = 0 -> piv -> forall k, (i <= k < n)%N -> get A1 k i = 0) ->
  step_post i
   (if oabsz ops (get A1 i i) then C02_LU_Singular (A1, s1)
    else if Nat.ltb i.+1 n && ois0 ops (get A1 i i) then C02_LU_DivByZero
    else C02_LU_Ok (c02_eliminate ops n A1 i,
                    foldl (fun s k => felim func (get (c02_eliminate ops n A1 i) k i) k i s) s1 (iota i.+1 (n - i.+1)))).
Proof.
move=> Hi Hinv Hcol; rewrite /= absr0.
case: (altP (get A1 i i =P 0)) => [H0|Hnz] /=.
  by split=> //; apply: Hcol.
rewrite andbF /=.
case: Hinv => /= wA Hd [G [P [uG UG LG RG]]]; split=> /=.
- exact: wfm_eliminate.
- move=> k Hk; have Hkn : (k < n)%N by lia.
  rewrite get_eliminate //; have -> : (i < k)%N = false by lia.
  by case: (k =P i) => [->//|Hne]; apply: Hd; lia.
- exists (Emx i (fun k => get (c02_eliminate ops n A1 i) k i) *m G), P; split.
  + by rewrite unitmx_mul unit_Emx.
  + by rewrite (Uv_elim Hi) // UG mulmxA.
  + by rewrite Lv_elim // mulmxA (LvE Hi).
  + exact: Relim.
Qed.

Lemma lu_step_inv i st : (i < n)%N -> inv i st -> step_post i (c02_lu_step ops func n piv i st).
Proof.
case: st => A s Hi Hinv; rewrite /c02_lu_step.
case Epiv: piv (Rswap) => Rswap'.
  case: (pivsearch_spec A Hi) => /=; set im := (c02_pivsearch ops n A i).2 => Hpm /andP [Hle Him] Hmax.
  apply: lu_step_tail => //.
  - case: Hinv => /= wA Hd [G [P [uG UG LG RG]]]; split=> /=.
    + exact: wfm_swaprows.
    + move=> k Hk; rewrite get_swaprows.
      have -> : (k == im) = false by lia.
      have -> : (k == i) = false by lia.
      exact: Hd.
    + exists (xrow (Ordinal Hi) (Ordinal Him) G), (xrow (Ordinal Hi) (Ordinal Him) P); split.
      * by rewrite xrowE unitmx_mul uG andbT /tperm_mx unitmx_perm.
      * by rewrite (Uv_swap Hi Him) // UG !xrowE mulmxA.
      * rewrite (Lv_swap Hi Him) // !xrowE xcolE -LG -!mulmxA; congr (_ *m (_ *m _)).
        by rewrite mulmxA tperm_mx_sq mul1mx.
      * exact: (Rswap' isT).
  - rewrite get_swaprows eqxx; case: (i =P im) => [E|_] Hz _ k Hk.
      rewrite get_swaprows; apply/eqP; rewrite -absr0 -leqn0.
      have Hpz : absr (c02_pivsearch ops n A i).1 = 0%N.
        by apply/eqP; rewrite absr0 Hpm -/im -E Hz.
      rewrite -Hpz; apply: Hmax.
      by case: ifP => _; [|case: ifP => _]; lia.
    rewrite get_swaprows; apply/eqP; rewrite -absr0 -leqn0.
    have Hpz : absr (c02_pivsearch ops n A i).1 = 0%N.
      by apply/eqP; rewrite absr0 Hpm -/im Hz.
    rewrite -Hpz; apply: Hmax.
    by case: ifP => _; [|case: ifP => _]; lia.
apply: lu_step_tail => //; last by rewrite Epiv.
by apply: invg_weaken Hinv => G P s'; apply: Rskip.
Qed.

Definition loop_post i (r : c02_lures (seq (seq F) * S)) :=
  match r with
  | C02_LU_Ok st' => inv n st'
  | C02_LU_Singular st' => exists2 i', (i <= i' < n)%N &
      [/\ invg (Rpost i') i' st', get st'.1 i' i' = 0 & piv -> forall k, (i' <= k < n)%N -> get st'.1 k i' = 0]
  | C02_LU_DivByZero => False
  end.

Lemma lu_loop_inv len : forall i st, (i + len = n)%N -> inv i st ->
  loop_post i (c02_lu_loop ops func n piv (iota i len) st).
Proof.
elim: len => [|len IH] i st Hn Hinv /=; first by rewrite -Hn addn0.
have Hi : (i < n)%N by lia.
have := lu_step_inv Hi Hinv.
case: (c02_lu_step ops func n piv i st) => [st'|st'|] //=.
- move=> Hinv'; have := IH i.+1 st' _ Hinv'.
  case: (c02_lu_loop _ _ _ _ _ _) => [st''|st''|] //=; first by apply; lia.
  by move=> H; case: (H _) => [|i' Hi' P]; [lia|exists i' => //; lia].
  by apply; lia.
- by move=> P; exists i => //; lia.
Qed.

End Loop.

(* the special case of a functor relation that depends neither on the step nor on the permutation *)
Section Loop1.
Variable S : Type.
Variable func : c02_func F S.
Variable R : 'M[F]_n -> S -> Prop.
Hypothesis Rswap : forall G s i im (Hi : (i < n)%N) (Him : (im < n)%N), (i <= im)%N -> R G s ->
  R (xrow (Ordinal Hi) (Ordinal Him) G) (fswap func i im s).
Hypothesis Relim : forall G s i f, (i < n)%N -> R G s ->
  R (Emx i f *m G) (foldl (fun s k => felim func (f k) k i s) s (iota i.+1 (n - i.+1))).
Variable A0 : 'M[F]_n.
Definition inv1 := invg A0 (fun G (_ : 'M[F]_n) s => R G s).
Lemma lu_loop_inv1 piv len i st : (i + len = n)%N -> inv1 i st ->
  loop_post (fun _ G (_ : 'M[F]_n) s => R G s) (fun _ G (_ : 'M[F]_n) s => R G s) piv A0 i (c02_lu_loop ops func n piv (iota i len) st).
Proof.
apply: (@lu_loop_inv S func (fun _ G _ s => R G s) (fun _ G _ s => R G s) piv) => //.
- by move=> _ G P s i0 im Hi Him Hle; apply: Rswap.
- by move=> G P s i0 f Hi; apply: Relim.
Qed.
End Loop1.


(* ---------------------------------------------------------------- determinant facts *)
(* rows i.. of M vanish in columns 0..i  ==>  \det M = 0   (n-i rows live in n-i-1 columns: pigeonhole) *)
Lemma det_deficient (M : 'M[F]_n) i : (i < n)%N ->
  (forall k j : 'I_n, (i <= k)%N -> (j <= i)%N -> M k j = 0) -> \det M = 0.
Proof.
move=> Hi Hz; rewrite /determinant big1 // => s _.
pose X := [set k : 'I_n | (i <= k)%N]; pose Y := [set j : 'I_n | (i < j)%N].
have XY : X = Ordinal Hi |: Y.
  by apply/setP => k; rewrite !inE -val_eqE /= leq_eqVlt eq_sym.
have cXY : (#|Y| < #|X|)%N by rewrite XY cardsU1 inE /= ltnn.
have : ~~ (s @: X \subset Y).
  apply/negP => /subset_leq_card; rewrite card_imset; last exact: perm_inj.
  by move=> H; move: cXY; rewrite ltnNge H.
case/subsetPn => j /imsetP [k Hk ->] Hsk.
rewrite (bigD1 k) //= Hz ?mul0r ?mulr0 //; first by move: Hk; rewrite inE.
by move: Hsk; rewrite inE -leqNgt.
Qed.

Lemma det_Uv_full A : \det (Uv n A) = \prod_(k < n) get A k k.
Proof.
rewrite -det_tr det_trig; last first.
  by apply/is_trig_mxP => k j Hkj; rewrite !mxE ltn_ord Hkj.
by apply: eq_bigr => k _; rewrite !mxE ltnn andbF.
Qed.

Lemma foldl_mulE (g : nat -> F) a l : foldl (fun d i => d * g i) a l = a * \prod_(i <- l) g i.
Proof. by elim: l a => [|i l IH] a /=; rewrite ?big_nil ?mulr1 // IH big_cons mulrA. Qed.

Lemma foldl_subE (g : nat -> F) a l : foldl (fun acc j => acc - g j) a l = a - \sum_(j <- l) g j.
Proof. by elim: l a => [|i l IH] a /=; rewrite ?big_nil ?subr0 // IH big_cons opprD addrA. Qed.

(* ---------------------------------------------------------------- the functors *)
Notation cv := (c02_cv absr n).

Lemma cvE x (k : 'I_n) : cv x k 0 = vget x k.
Proof. by rewrite mxE. Qed.

Lemma elim_fold (f : nat -> F) i len : forall start (s : seq F), (i < start)%N -> size s = n -> (start + len <= n)%N ->
  let r := foldl (fun s k => felim (c02_Elim ops) (f k) k i s) s (iota start len) in
  size r = n /\ forall k, vget r k = if (start <= k < start + len)%N then vget s k - f k * vget s i else vget s k.
Proof.
elim: len => [|len IH] start s His Hs Hle /=.
  by split=> // k; case: ifP => //; lia.
set s1 := set_nth _ _ _ _.
have Hs1 : size s1 = n by rewrite /s1 size_set_nth Hs; lia.
case: (IH start.+1 s1 (ltnW His) Hs1) => [|H1 H2]; first by lia.
split=> // k; rewrite H2 /s1 /c02_vget !nth_set_nth /=.
have -> : (i == start) = false by lia.
case: (k =P start) => [->|Hne].
  have -> : (start < start < start.+1 + len)%N = false by lia.
  have -> : (start <= start < start + len.+1)%N by lia.
  by [].
have -> // : (start < k < start.+1 + len)%N = (start <= k < start + len.+1)%N by lia.
Qed.

Section ElimR.
Variable b0 : 'cV[F]_n.
Definition R_Elim (G : 'M[F]_n) (rhs : seq F) := size rhs = n /\ cv rhs = G *m b0.

Lemma R_Elim_swap G s i im (Hi : (i < n)%N) (Him : (im < n)%N) : (i <= im)%N -> R_Elim G s ->
  R_Elim (xrow (Ordinal Hi) (Ordinal Him) G) (fswap (c02_Elim ops) i im s).
Proof.
move=> _ [Hs Hc]; split; first by rewrite /= !size_set_nth Hs; lia.
rewrite xrowE -mulmxA -Hc -xrowE; apply/matrixP => k j; rewrite !mxE permE /= -!val_eqE /=.
rewrite /c02_vget nth_set_nth /= nth_set_nth /=.
case: (altP (k =P im :> nat)) => [E1|_]; case: (altP (k =P i :> nat)) => [E2|_] //=.
by rewrite -E1 E2.
Qed.

Lemma R_Elim_elim G s i f : (i < n)%N -> R_Elim G s ->
  R_Elim (Emx i f *m G) (foldl (fun s k => felim (c02_Elim ops) (f k) k i s) s (iota i.+1 (n - i.+1))).
Proof.
move=> Hi [Hs Hc]; case: (@elim_fold f i (n - i.+1) i.+1 s (ltnSn i) Hs) => [|H1 H2]; first by lia.
split=> //; rewrite -mulmxA -Hc; apply/matrixP => k j; rewrite (Emx_mul Hi) !mxE H2 /=.
have -> : (i < k < i.+1 + (n - i.+1))%N = (i < k)%N by have := ltn_ord k; lia.
by case: ifP => _; rewrite ?subr0.
Qed.
End ElimR.

Definition R_Det (G : 'M[F]_n) (sg : F) := sg * \det G = 1.

Lemma R_Det_swap G s i im (Hi : (i < n)%N) (Him : (im < n)%N) : (i <= im)%N -> R_Det G s ->
  R_Det (xrow (Ordinal Hi) (Ordinal Him) G) (fswap (c02_ElimDet ops) i im s).
Proof.
move=> _; rewrite /R_Det xrowE det_mulmx det_perm odd_tperm -val_eqE /= eqbE => H.
by case: (i == im) => /=; rewrite ?expr0 ?expr1 ?mulr1 ?mul1r //; rewrite mulrN1 mulN1r mulrNN.
Qed.

Lemma R_Det_elim G s i f : (i < n)%N -> R_Det G s ->
  R_Det (Emx i f *m G) (foldl (fun s k => felim (c02_ElimDet ops) (f k) k i s) s (iota i.+1 (n - i.+1))).
Proof.
move=> _; rewrite /R_Det det_mulmx det_Emx mul1r => H.
by have -> : forall l, foldl (fun s k => felim (c02_ElimDet ops) (f k) k i s) s l = s by elim.
Qed.


(* ---------------------------------------------------------------- back substitution *)
Lemma alg1 (d a s : F) : d != 0 -> d * ((a - s) / d) + s = a.
Proof. by move=> H; field. Qed.

Lemma backsolve_spec A : wfm n A -> forall i x x', (i <= n)%N -> size x = n ->
  c02_backsolve ops n A i x = Some x' ->
  [/\ size x' = n, (forall k, (i <= k)%N -> vget x' k = vget x k)
    & forall k, (k < i)%N -> \sum_(k <= j < n) get A k j * vget x' j = vget x k].
Proof.
move=> wA; elim=> [|i IH] x x' Hi Hx /=; first by case=> <-; split.
rewrite /c02_div /= foldl_subE; case: ifP => // /negbT Hd.
set v := (_ / _); set x1 := set_nth _ _ _ _ => Hb.
have Hx1 : size x1 = n by rewrite /x1 size_set_nth Hx; lia.
case: (IH x1 x' (ltnW Hi) Hx1 Hb) => H1 H2 H3; split=> //.
- move=> k Hk; rewrite H2; last by lia.
  by rewrite /x1 /c02_vget nth_set_nth /=; have -> : (k == i) = false by lia.
- move=> k Hk; case: (k =P i) => [->|Hne]; last first.
    rewrite H3; last by lia.
    by rewrite /x1 /c02_vget nth_set_nth /=; have -> : (k == i) = false by lia.
  rewrite big_ltn // H2 // {1}/x1 {1}/c02_vget nth_set_nth /= eqxx.
  have -> : \sum_(i.+1 <= j < n) get A i j * vget x' j = \sum_(i.+1 <= j < n) get A i j * vget x j.
    apply: eq_big_nat => j /andP [Hj _]; rewrite H2; last by lia.
    by rewrite /x1 /c02_vget nth_set_nth /=; have -> : (j == i) = false by lia.
  by rewrite /v /index_iota; apply: alg1.
Qed.

Lemma backsolve_total A : wfm n A -> (forall k, (k < n)%N -> get A k k != 0) -> forall i x, (i <= n)%N ->
  exists x', c02_backsolve ops n A i x = Some x'.
Proof.
move=> wA Hd; elim=> [|i IH] x Hi /=; first by exists x.
by rewrite /c02_div /= (negbTE (Hd i Hi)); apply: IH; lia.
Qed.

Lemma Uv_full_mul A x (k : 'I_n) : (Uv n A *m cv x) k 0 = \sum_(k <= j < n) get A k j * vget x j.
Proof.
rewrite mxE.
rewrite (eq_bigr (fun j : 'I_n => (if (j < k)%N then 0 else get A k j) * vget x j)); last first.
  by move=> j _; rewrite !mxE ltn_ord.
rewrite -(big_mkord xpredT (fun j : nat => (if (j < k)%N then 0 else get A k j) * vget x j)).
rewrite (@big_cat_nat _ _ _ k) //=; last exact: ltnW.
rewrite big_nat big1 ?add0r; last by move=> j /andP [_ ->]; rewrite mul0r.
by apply: eq_big_nat => j /andP [Hj _]; have -> : (j < k)%N = false by lia.
Qed.

(* ---------------------------------------------------------------- LU path of solve *)
Notation mx := (c02_mx absr n).

Lemma inv0 S (Rx : 'M[F]_n -> 'M[F]_n -> S -> Prop) A s : wfm n A -> Rx 1%:M 1%:M s -> invg (mx A) Rx 0 (A, s).
Proof.
move=> wA Rs; split=> //; exists 1%:M, 1%:M; split=> //; first exact: unitmx1.
  by rewrite mul1mx; apply/matrixP => k j; rewrite !mxE.
by rewrite mulmx1; apply/matrixP => k j; rewrite !mxE.
Qed.

Lemma solve_unfold A b piv : (3 < n)%N -> wfm n A ->
  c02_solve ops A b piv =
    match c02_lu ops (c02_Elim ops) n piv A (mkseq (vget b) n) with
    | C02_LU_Singular _ => C02_FMatrixError
    | C02_LU_DivByZero => C02_DivByZero
    | C02_LU_Ok (A', rhs) =>
        match c02_backsolve ops n A' n rhs with Some x => C02_Ok x | None => C02_DivByZero end
    end.
Proof.
move=> Hn [sA rA]; rewrite /c02_solve /c02_rows /c02_cols sA rA ?eqbE ?eqxx /=; last by lia.
have -> : (n == 1)%N = false by lia.
have -> : (n == 2)%N = false by lia.
by have -> : (n == 3)%N = false by lia.
Qed.

Lemma lu_Elim_inv A b piv : wfm n A -> size b = n ->
  loop_post (fun _ G (_ : 'M[F]_n) s => R_Elim (cv b) G s) (fun _ G (_ : 'M[F]_n) s => R_Elim (cv b) G s) piv (mx A) 0 (c02_lu ops (c02_Elim ops) n piv A (mkseq (vget b) n)).
Proof.
move=> wA Hb; apply: (lu_loop_inv1 (@R_Elim_swap (cv b)) (@R_Elim_elim (cv b))) => //.
apply: inv0 => //; split; first by rewrite size_mkseq.
by rewrite mul1mx; apply/matrixP => k j; rewrite !mxE /c02_vget nth_mkseq.
Qed.

Lemma singular_det S (Rx : 'M[F]_n -> 'M[F]_n -> S -> Prop) A0 i st : (i < n)%N -> invg A0 Rx i st ->
  (forall k, (i <= k < n)%N -> get st.1 k i = 0) -> \det A0 = 0.
Proof.
move=> Hi [wA _ [G [P [uG UG _ _]]]] Hz.
have : \det (Uv i st.1) = 0.
  apply: (det_deficient Hi) => k j Hk Hj; rewrite mxE.
  case: (altP (j =P i :> nat)) => [->|Hne]; first by rewrite ltnn /= Hz // Hk ltn_ord.
  by have -> : (j < i)%N && (j < k)%N by lia.
rewrite UG det_mulmx => /eqP; rewrite mulf_eq0 => /orP [|/eqP //].
by move: uG; rewrite unitmxE unitfE => /negbTE ->.
Qed.

Theorem solve_lu_sound A b piv x : (3 < n)%N -> wfm n A -> size b = n ->
  c02_solve ops A b piv = C02_Ok x -> size x = n /\ mx A *m cv x = cv b.
Proof.
move=> Hn wA Hb; rewrite solve_unfold //.
have := lu_Elim_inv piv wA Hb.
case: (c02_lu _ _ _ _ _ _) => [[A' rhs]|st|] //= [wA' Hd [G [P [uG UG _ [Hr Hc]]]]].
case Hbs: (c02_backsolve _ _ _ _ _) => [x'|] // [<-].
case: (backsolve_spec wA' (leqnn n) Hr Hbs) => H1 _ H3; split=> //.
apply: (can_inj (mulKmx uG)); rewrite mulmxA -UG -Hc.
by apply/matrixP => k j; rewrite ord1 Uv_full_mul H3 // mxE.
Qed.

Theorem solve_lu_complete A b : (3 < n)%N -> wfm n A -> size b = n -> mx A \in unitmx ->
  exists x, c02_solve ops A b true = C02_Ok x.
Proof.
move=> Hn wA Hb uA; rewrite solve_unfold //.
have := lu_Elim_inv true wA Hb.
case: (c02_lu _ _ _ _ _ _) => [[A' rhs]|st|] //=.
- move=> [wA' Hd _]; case: (backsolve_total wA' Hd rhs (leqnn n)) => x' ->; by exists x'.
- case=> i' Hi0 [Hinv _ Hz]; have Hi' : (i' < n)%N by lia.
  by move: uA; rewrite unitmxE unitfE (singular_det Hi' Hinv (Hz isT)) eqxx.
Qed.

Theorem solve_lu_singular A b piv : (3 < n)%N -> wfm n A -> size b = n -> \det (mx A) = 0 ->
  c02_solve ops A b piv = C02_FMatrixError.
Proof.
move=> Hn wA Hb dA; rewrite solve_unfold //.
have := lu_Elim_inv piv wA Hb.
case: (c02_lu _ _ _ _ _ _) => [[A' rhs]|st|] //= [wA' Hd [G [P [uG UG _ _]]]].
have : \det (Uv n A') != 0.
  by rewrite det_Uv_full; apply/prodf_neq0 => k _; apply: Hd.
by rewrite UG det_mulmx dA mulr0 eqxx.
Qed.

(* ---------------------------------------------------------------- LU path of determinant *)
Lemma det_unfold A piv : (3 < n)%N -> wfm n A ->
  c02_determinant ops A piv =
    match c02_lu ops (c02_ElimDet ops) n piv A 1 with
    | C02_LU_Ok (A', sg) => C02_Ok (sg * \prod_(i < n) get A' i i)
    | C02_LU_Singular (A', sg) => C02_Ok 0
    | C02_LU_DivByZero => C02_DivByZero
    end.
Proof.
move=> Hn [sA rA]; rewrite /c02_determinant /c02_rows /c02_cols sA rA ?eqbE ?eqxx /=; last by lia.
have -> : (n == 1)%N = false by lia.
have -> : (n == 2)%N = false by lia.
have -> : (n == 3)%N = false by lia.
case: (c02_lu _ _ _ _ _ _) => [[A' sg]|[A' sg]|] //=; rewrite foldl_mulE.
by rewrite -(big_mkord xpredT (fun i => get A' i i)) /index_iota subn0.
Qed.

Lemma lu_Det_inv A piv : wfm n A ->
  loop_post (fun _ G (_ : 'M[F]_n) s => R_Det G s) (fun _ G (_ : 'M[F]_n) s => R_Det G s) piv (mx A) 0 (c02_lu ops (c02_ElimDet ops) n piv A 1).
Proof.
move=> wA; apply: (lu_loop_inv1 R_Det_swap R_Det_elim) => //.
by apply: inv0 => //; rewrite /R_Det det1 mulr1.
Qed.

(* the unpivoted elimination is defined: it meets no zero pivot before the last column *)
Definition nopivot_defined A :=
  match c02_lu ops (c02_ElimDet ops) n false A 1 with
  | C02_LU_Ok _ => True
  | C02_LU_Singular (A', _) => get A' n.-1 n.-1 = 0 /\ forall k, (k < n.-1)%N -> get A' k k != 0
  | C02_LU_DivByZero => False
  end.

Theorem det_lu_pivot A : (3 < n)%N -> wfm n A -> c02_determinant ops A true = C02_Ok (\det (mx A)).
Proof.
move=> Hn wA; rewrite det_unfold //.
have := lu_Det_inv true wA.
case: (c02_lu _ _ _ _ _ _) => [[A' sg]|[A' sg]|] //=.
- move=> [wA' Hd [G [P [uG UG _ Hsg]]]]; congr C02_Ok.
  by rewrite -det_Uv_full UG det_mulmx mulrA Hsg mul1r.
- case=> i' Hi0 [Hinv _ Hz]; have Hi' : (i' < n)%N by lia.
  by rewrite (singular_det Hi' Hinv (Hz isT)).
Qed.

Theorem det_lu_nopivot_ok A A' sg : (3 < n)%N -> wfm n A ->
  c02_lu ops (c02_ElimDet ops) n false A 1 = C02_LU_Ok (A', sg) ->
  c02_determinant ops A false = C02_Ok (\det (mx A)).
Proof.
move=> Hn wA E; rewrite det_unfold //.
have := lu_Det_inv false wA; rewrite E /= => -[wA' Hd [G [P [uG UG _ Hsg]]]]; congr C02_Ok.
by rewrite -det_Uv_full UG det_mulmx mulrA Hsg mul1r.
Qed.

End Lists.

(* ---------------------------------------------------------------- statements with the Spec-level (boolean) well-formedness *)
Section Wrap.
Variable F : fieldType.
Variable absr : F -> nat.
Hypothesis absr0 : forall x, (absr x == 0%N) = (x == 0).
Notation ops := (c02_fops absr).

Lemma wfmP n (A : seq (seq F)) : c02_wfm n A -> wfm n A.
Proof.
case/andP => /eqP sA /all_nthP rA; split=> // k Hk.
by apply/eqP; apply: rA; rewrite sA.
Qed.

Lemma P_solve_lu_sound n A b piv x : (3 < n)%N -> c02_wfm n A -> c02_wfv n b ->
  c02_solve ops A b piv = C02_Ok x -> c02_wfv n x /\ c02_mx absr n A *m c02_cv absr n x = c02_cv absr n b.
Proof.
move=> Hn /wfmP wA /eqP Hb Hs; case: (solve_lu_sound absr0 Hn wA Hb Hs) => H1 H2.
by split=> //; apply/eqP.
Qed.

Lemma P_solve_lu_complete n A b : (3 < n)%N -> c02_wfm n A -> c02_wfv n b -> c02_mx absr n A \in unitmx ->
  exists x, c02_solve ops A b true = C02_Ok x.
Proof. by move=> Hn /wfmP wA /eqP Hb; apply: solve_lu_complete. Qed.

Lemma P_solve_lu_singular n A b piv : (3 < n)%N -> c02_wfm n A -> c02_wfv n b -> c02_mx absr n A \notin unitmx ->
  c02_solve ops A b piv = C02_FMatrixError.
Proof.
move=> Hn /wfmP wA /eqP Hb; rewrite unitmxE unitfE negbK => /eqP.
exact: solve_lu_singular.
Qed.

Lemma P_det_lu_pivot n A : (3 < n)%N -> c02_wfm n A ->
  c02_determinant ops A true = C02_Ok (\det (c02_mx absr n A)).
Proof. by move=> Hn /wfmP wA; apply: det_lu_pivot. Qed.

Lemma P_det_lu_nopivot n A A' sg : (3 < n)%N -> c02_wfm n A ->
  c02_lu ops (c02_ElimDet ops) n false A 1 = C02_LU_Ok (A', sg) ->
  c02_determinant ops A false = C02_Ok (\det (c02_mx absr n A)).
Proof. by move=> Hn /wfmP wA; apply: det_lu_nopivot_ok. Qed.
End Wrap.
