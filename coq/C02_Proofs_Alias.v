(* C02 — solve(x, x) (right-hand side aliasing the result vector), the code as it is: identical to solve for every size
   except the closed forms n = 2 and n = 3 (refuted there by computed witnesses in Properties_C02.v). *)
From mathcomp Require Import all_ssreflect all_algebra.
From DuneV Require Import Params_gen C02_Model C02_Spec C02_Proofs.
Set Implicit Arguments.
Unset Strict Implicit.
Unset Printing Implicit Defensive.

Section Alias.
Variable F : fieldType.
Variable absr : F -> nat.
Notation ops := (c02_fops absr).

Theorem solve_aliased_same (A : seq (seq F)) b piv : c02_rows A != 2 -> c02_rows A != 3 ->
  c02_solve_aliased ops A b piv = c02_solve ops A b piv.
Proof.
move=> N2 N3; rewrite /c02_solve_aliased !eqbE (negbTE N2) (negbTE N3).
by case: ifP => // H; rewrite /c02_solve eqbE H.
Qed.
End Alias.
