(* C02 — proofs, part 6 (API-coverage audit): multi-step histories on one object (invert twice, determinant of the
   inverse) and the DUNE_FMatrix_WITH_CHECKING variants of the closed forms. *)
From mathcomp Require Import all_ssreflect all_algebra.
From mathcomp Require Import fingroup perm ring zify.
From DuneV Require Import C02_Model C02_Spec C02_Proofs C02_Proofs_Invert C02_Proofs_Closed.
Import GRing.Theory.
Set Implicit Arguments.
Unset Strict Implicit.
Unset Printing Implicit Defensive.
Local Open Scope ring_scope.

Section Audit.
Variable F : fieldType.
Variable absr : F -> nat.
Hypothesis absr0 : forall x, (absr x == 0%N) = (x == 0).
Notation ops := (c02_fops absr).
Notation mx := (c02_mx absr).

Lemma wfmPb n (A : seq (seq F)) : wfm n A -> c02_wfm n A.
Proof.
move=> [sA rA]; rewrite /c02_wfm sA eqxx /=; apply/(all_nthP [::]) => i Hi.
by apply/eqP; apply: rA; rewrite -sA.
Qed.

(* what invert leaves is again a well-formed n x n matrix (needed to go on working with the same object) *)
Lemma invert_wf n A piv B : (0 < n)%N -> c02_wfm n A -> c02_invert ops A piv = C02_Ok B -> c02_wfm n B.
Proof.
move=> Hn wA E; case: (leqP n 3) => H3.
  by case: (@invert_closed_sound F absr n A piv B _ wA E) => //; rewrite Hn.
by case: (invert_lu_sound absr0 H3 (wfmP wA) E) => /wfmPb.
Qed.

(* A.invert(); A.invert() restores the matrix; determinant of the inverse is the inverse of the determinant *)
Theorem invert_twice n A p q B C : (0 < n)%N -> c02_wfm n A ->
  c02_invert ops A p = C02_Ok B -> c02_invert ops B q = C02_Ok C ->
  mx n C = mx n A /\ \det (mx n B) * \det (mx n A) = 1.
Proof.
move=> Hn wA EB EC; have wB := invert_wf Hn wA EB.
case: (invert_sound absr0 Hn wA EB) => AB BA; case: (invert_sound absr0 Hn wB EC) => BC CB.
split; last by rewrite -det_mulmx BA det1.
by rewrite -[mx n C]mul1mx -AB -mulmxA BC mulmx1.
Qed.

(* ---- DUNE_FMatrix_WITH_CHECKING *)
Lemma closed_det_spec n A : (0 < n <= 3)%N -> c02_wfm n A ->
  c02_chk_singular ops A = (\det (mx n A) == 0).
Proof.
move=> Hn wA; have := det_closed absr true Hn wA.
rewrite /c02_chk_singular /c02_closed_det /c02_determinant /c02_rows /c02_cols.
case: n Hn wA => [|[|[|[|n]]]] // _.
- by move=> /wfm1 [a ->] /= [<-]; rewrite absr0.
- by move=> /wfm2 [a [b [c [d ->]]]] /= [<-]; rewrite absr0.
- by move=> /wfm3 [a [b [c [d [e [f [g [h [k ->]]]]]]]]] /= [<-]; rewrite absr0.
Qed.

Lemma chk_singular_large n A : (3 < n)%N -> c02_wfm n A -> c02_chk_singular ops A = false.
Proof.
move=> Hn /wfmP [sA rA]; rewrite /c02_chk_singular /c02_closed_det /c02_rows sA !eqbE.
have -> : (n == 1)%N = false by lia.
have -> : (n == 2)%N = false by lia.
have -> : (n == 3)%N = false by lia.
by rewrite andbF.
Qed.

(* with checking enabled a singular matrix is reported by solve for EVERY size, by invert for every size except 3
   (the 3x3 branch of invert has no test in the code), and nothing changes for nonsingular matrices *)
Theorem checked_singular n A b piv : (0 < n)%N -> c02_wfm n A -> c02_wfv n b -> mx n A \notin unitmx ->
  c02_solve_chk ops A b piv = C02_FMatrixError /\ (n != 3%N -> c02_invert_chk ops A piv = C02_FMatrixError).
Proof.
move=> Hn wA wb sA; rewrite /c02_solve_chk /c02_invert_chk.
have sz : c02_rows A = n by case/andP: wA => /eqP.
case: (leqP n 3) => H3.
  have -> : c02_chk_singular ops A by rewrite (@closed_det_spec n) ?Hn //; move: sA; rewrite unitmxE unitfE negbK.
  by split=> // N3; rewrite sz eqbE (negbTE N3).
rewrite (chk_singular_large H3 wA) andbF (P_solve_lu_singular absr0 piv H3 wA wb sA).
by rewrite (P_invert_lu_singular absr0 piv H3 wA sA).
Qed.

Theorem checked_regular n A b piv : (0 < n)%N -> c02_wfm n A -> mx n A \in unitmx ->
  c02_solve_chk ops A b piv = c02_solve ops A b piv /\ c02_invert_chk ops A piv = c02_invert ops A piv.
Proof.
move=> Hn wA uA; rewrite /c02_solve_chk /c02_invert_chk.
case: (leqP n 3) => H3; last by rewrite (chk_singular_large H3 wA) andbF.
have -> : c02_chk_singular ops A = false.
  by rewrite (@closed_det_spec n) ?Hn //; apply/negbTE; move: uA; rewrite unitmxE unitfE.
by rewrite andbF.
Qed.

End Audit.
