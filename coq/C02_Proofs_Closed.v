(* C02 — proofs, part 2: the closed forms n = 1, 2, 3 (solve, invert, determinant, FMatrixHelp). *)
From mathcomp Require Import all_ssreflect all_algebra.
From mathcomp Require Import fingroup perm ring zify.
From DuneV Require Import C02_Model C02_Spec C02_Proofs.
Import GRing.Theory.
Set Implicit Arguments.
Unset Strict Implicit.
Unset Printing Implicit Defensive.
Local Open Scope ring_scope.

Section Closed.
Variable F : fieldType.
Variable absr : F -> nat.
Notation ops := (c02_fops absr).
Notation mx := (c02_mx absr).
Notation cv := (c02_cv absr).

Lemma wfm1 (A : seq (seq F)) : c02_wfm 1 A -> exists a, A = [:: [:: a]].
Proof. by case: A => [|[|a [|? ?]] [|? ?]] //= _; exists a. Qed.
Lemma wfm2 (A : seq (seq F)) : c02_wfm 2 A -> exists a b c d, A = [:: [:: a; b]; [:: c; d]].
Proof. by case: A => [|[|a [|b [|? ?]]] [|[|c [|d [|? ?]]] [|? ?]]] //= _; exists a, b, c, d. Qed.
Lemma wfm3 (A : seq (seq F)) : c02_wfm 3 A ->
  exists a b c d e f g h k, A = [:: [:: a; b; c]; [:: d; e; f]; [:: g; h; k]].
Proof.
case: A => [|[|a [|b [|c [|? ?]]]] [|[|d [|e [|f [|? ?]]]] [|[|g [|h [|k [|? ?]]]] [|? ?]]]] //= _.
by exists a, b, c, d, e, f, g, h, k.
Qed.
Lemma wfv1 (b : seq F) : c02_wfv 1 b -> exists x, b = [:: x].
Proof. by case: b => [|x [|? ?]] //= _; exists x. Qed.
Lemma wfv2 (b : seq F) : c02_wfv 2 b -> exists x y, b = [:: x; y].
Proof. by case: b => [|x [|y [|? ?]]] //= _; exists x, y. Qed.
Lemma wfv3 (b : seq F) : c02_wfv 3 b -> exists x y z, b = [:: x; y; z].
Proof. by case: b => [|x [|y [|z [|? ?]]]] //= _; exists x, y, z. Qed.

Ltac ord_cases i := let Hi := fresh in case: i => [[|[|[|i]]] Hi] //=.

Theorem solve_closed_sound n A b piv x : (0 < n <= 3)%N -> c02_wfm n A -> c02_wfv n b ->
  c02_solve ops A b piv = C02_Ok x -> c02_wfv n x /\ mx n A *m cv n x = cv n b.
Proof.
case: n => [|[|[|[|n]]]] // _.
- move=> /wfm1 [a ->] /wfv1 [b0 ->]; rewrite /c02_solve /= /c02_div /=; case: ifP => // /negbT Ha [<-]; split=> //.
  apply/matrixP => i j; rewrite !mxE big_ord_recl big_ord0 !mxE; ord_cases i; rewrite /c02_get /c02_vget /=.
  by field.
- move=> /wfm2 [a [b' [c [d ->]]]] /wfv2 [b0 [b1 ->]]; rewrite /c02_solve /= /c02_div /=.
  case: ifP => // /negbT Hd [<-]; split=> //.
  apply/matrixP => i j; rewrite !mxE !big_ord_recl big_ord0 !mxE; ord_cases i; rewrite /c02_get /c02_vget /=; by field.
- move=> /wfm3 [a [b' [c [d [e [f [g [h [k ->]]]]]]]]] /wfv3 [b0 [b1 [b2 ->]]]; rewrite /c02_solve /= /c02_div /=.
  case: ifP => // /negbT Hd [<-]; split=> //.
  apply/matrixP => i j; rewrite !mxE !big_ord_recl big_ord0 !mxE; ord_cases i; rewrite /c02_get /c02_vget /c02_det3 /=; by field.
Qed.



Theorem invert_closed_sound n A piv B : (0 < n <= 3)%N -> c02_wfm n A ->
  c02_invert ops A piv = C02_Ok B -> [/\ c02_wfm n B, mx n A *m mx n B = 1%:M & mx n B *m mx n A = 1%:M].
Proof.
case: n => [|[|[|[|n]]]] // _.
- move=> /wfm1 [a ->]; rewrite /c02_invert /= /c02_div /=; case: ifP => // /negbT Ha [<-]; split=> //;
  apply/matrixP => i j; rewrite !mxE big_ord_recl big_ord0 !mxE; ord_cases i; ord_cases j; rewrite /c02_get /=; by field.
- move=> /wfm2 [a [b' [c [d ->]]]]; rewrite /c02_invert /= /c02_div /=.
  case: ifP => // /negbT Hd [<-]; split=> //;
  apply/matrixP => i j; rewrite !mxE !big_ord_recl big_ord0 !mxE; ord_cases i; ord_cases j; rewrite /c02_get /=; by field.
- move=> /wfm3 [a [b' [c [d [e [f [g [h [k ->]]]]]]]]]; rewrite /c02_invert /= /c02_div /=.
  case: ifP => // /negbT Hd [<-]; split=> //;
  apply/matrixP => i j; rewrite !mxE !big_ord_recl big_ord0 !mxE; ord_cases i; ord_cases j; rewrite /c02_get /c02_det3 /=; by field.
Qed.


Lemma det22 (M : 'M[F]_2) : \det M = M 0 0 * M 1 1 - M 0 1 * M 1 0.
Proof.
rewrite (expand_det_row _ ord0) !big_ord_recl big_ord0 /cofactor !det_mx11 !mxE /=.
have L1 : lift (ord0 : 'I_2) (0 : 'I_1) = (1 : 'I_2) by apply: val_inj.
have L2 : lift (lift (ord0 : 'I_2) (ord0 : 'I_1)) (0 : 'I_1) = (0 : 'I_2) by apply: val_inj.
have L3 : lift (ord0 : 'I_2) (ord0 : 'I_1) = (1 : 'I_2) by apply: val_inj.
rewrite L2 ?L1 ?L3 /bump /= !add0n addn0 expr0 expr1.
have -> : (ord0 : 'I_2) = 0 by [].
ring.
Qed.

Theorem det_closed_12 n A piv : (0 < n <= 2)%N -> c02_wfm n A ->
  c02_determinant ops A piv = C02_Ok (\det (mx n A)).
Proof.
case: n => [|[|[|n]]] // _.
- by move=> /wfm1 [a ->]; rewrite det_mx11 mxE.
- by move=> /wfm2 [a [b [c [d ->]]]]; rewrite det22 !mxE.
Qed.

Hypothesis absr0 : forall x, (absr x == 0%N) = (x == 0).

(* every size: whatever solve returns as a solution is a solution *)
Theorem solve_sound n A b piv x : (0 < n)%N -> c02_wfm n A -> c02_wfv n b ->
  c02_solve ops A b piv = C02_Ok x -> c02_wfv n x /\ mx n A *m cv n x = cv n b.
Proof.
move=> Hn; case: (leqP n 3) => H3; first by apply: solve_closed_sound; rewrite Hn.
exact: (P_solve_lu_sound absr0).
Qed.

End Closed.
