(* C02 — proofs, part 7 (deepening): singular determinant in both pivot modes, no division by zero on the LU path,
   division by zero iff singular for the closed forms, converse of the no-pivot theorems (elimination defined IFF the
   leading principal minors are non-zero), non-square rejection, default arguments, the threshold of the checking mode,
   objects after a call. *)
From Coq Require Import ZArith.
From mathcomp Require Import all_ssreflect all_algebra.
From mathcomp Require Import fingroup perm ring zify.
From DuneV Require Import Params_gen C02_Model C02_Spec C02_Proofs C02_Proofs_Invert C02_Proofs_Closed C02_Proofs_NoPivot.
Import GRing.Theory.
Set Implicit Arguments.
Unset Strict Implicit.
Unset Printing Implicit Defensive.
Local Open Scope ring_scope.

Section Deep.
Variable F : fieldType.
Variable absr : F -> nat.
Hypothesis absr0 : forall x, (absr x == 0%N) = (x == 0).
Variable n : nat.
Notation ops := (c02_fops absr).
Notation get := (c02_get ops).
Notation mx := (c02_mx absr n).
Notation cv := (c02_cv absr n).
Notation wfm := (@wfm F n).
Notation Uv := (Uv absr n).
Notation Lv := (Lv absr n).

(* ---- singular, n >= 4: determinant returns 0 with AND without pivoting *)
Theorem det_lu_singular A piv : (3 < n)%N -> wfm A -> \det (mx A) = 0 -> c02_determinant ops A piv = C02_Ok 0.
Proof.
move=> Hn wA dA; rewrite (@det_unfold F absr n A piv Hn wA).
have := lu_Det_inv absr0 piv wA.
case: (c02_lu _ _ _ _ _ _) => [[A' sg]|[A' sg]|] //= [wA' Hd [G [P [uG UG _ Hsg]]]]; congr C02_Ok.
by rewrite -det_Uv_full UG det_mulmx mulrA Hsg mul1r.
Qed.

(* ---- n >= 4: no call ever divides by zero, whatever the matrix and the pivoting mode *)
Theorem lu_no_divbyzero A b piv : (3 < n)%N -> wfm A -> size b = n ->
  [/\ c02_solve ops A b piv <> C02_DivByZero, c02_invert ops A piv <> C02_DivByZero
    & c02_determinant ops A piv <> C02_DivByZero].
Proof.
move=> Hn wA Hb; split.
- rewrite (@solve_unfold F absr n A b piv Hn wA).
  have := lu_Elim_inv absr0 piv wA Hb.
  case: (c02_lu _ _ _ _ _ _) => [[A' rhs]|st|] //= [wA' Hd _].
  by case: (backsolve_total wA' Hd rhs (leqnn n)) => x' ->.
- rewrite (@invert_unfold F absr n A piv Hn wA).
  have := lu_Pivot_inv absr0 piv wA.
  case: (c02_lu _ _ _ _ _ _) => [[LU pivot]|st|] //= [wLU Hd _].
  case: (@fwd_spec F absr n LU n 0%N (B0 F n) (add0n n) (wfm_B0 F n)); set B1 := foldl _ _ _ => w1 _ _.
  by case: (@bwd_spec F absr n LU Hd n B1 (leqnn n) w1) => B2 [-> _ _ _].
- rewrite (@det_unfold F absr n A piv Hn wA).
  have := lu_Det_inv absr0 piv wA.
  by case: (c02_lu _ _ _ _ _ _) => [[A' sg]|[A' sg]|].
Qed.

(* ---- converse of the no-pivot theorems: if the unpivoted elimination completes, all leading principal minors are non-zero *)
Lemma det_lead_Uv_full k A : \det (lead k (Uv n A)) = \prod_(a < n) (if (a < k)%N then get A a a else 1).
Proof.
rewrite -det_tr det_trig; last first.
  apply/is_trig_mxP => a b Hab; rewrite !mxE.
  case: ifP => _; first by rewrite ltn_ord Hab.
  by rewrite (_ : (b == a) = false) //; apply/negbTE; rewrite -val_eqE /=; lia.
by apply: eq_bigr => a _; rewrite !mxE andbb ltnn andbF eqxx.
Qed.

Lemma nopivot_ok_minors S A0 (Rx : 'M[F]_n -> 'M[F]_n -> S -> Prop) st :
  (forall G P s, Rx G P s -> P = 1%:M) -> invg absr A0 Rx n st -> minors_nz n.+1 A0.
Proof.
move=> HR [wA Hd [G [P [uG UG LG /HR EP]]]] k Hk.
have -> : A0 = Lv n st.1 *m Uv n st.1 by rewrite UG mulmxA LG EP mul1mx.
rewrite lead_mul ?det_mulmx ?det_lead_Lv ?mul1r ?det_lead_Uv_full; last by move=> a b; apply: Lv_lower.
by apply/prodf_neq0 => a _; case: ifP => _; [apply: Hd|apply: oner_neq0].
Qed.

Lemma lu_Elim_np A b : wfm A -> size b = n ->
  loop_post absr (RE absr (cv b)) (RE absr (cv b)) false (mx A) 0 (c02_lu ops (c02_Elim ops) n false A (mkseq (c02_vget ops b) n)).
Proof.
move=> wA Hb.
apply: (@lu_loop_inv F absr absr0 n _ (c02_Elim ops) (RE absr (cv b)) (RE absr (cv b)) false) => //.
- by move=> G P s i f Hi [H1 H2]; split=> //; apply: R_Elim_elim.
- apply: (inv0 absr) => //; split=> //; split; first by rewrite size_mkseq.
  by rewrite mul1mx; apply/matrixP => k j; rewrite !mxE /c02_vget nth_mkseq.
Qed.

Theorem solve_nopivot_iff A b : (3 < n)%N -> wfm A -> size b = n ->
  (exists x, c02_solve ops A b false = C02_Ok x) <-> minors_nz n.+1 (mx A).
Proof.
move=> Hn wA Hb; split; last exact: (solve_nopivot_complete absr0).
case=> x; rewrite (@solve_unfold F absr n A b false Hn wA).
have := lu_Elim_np wA Hb.
case: (c02_lu _ _ _ _ _ _) => [[A' rhs]|st|] //= Hinv _.
by apply: (nopivot_ok_minors _ Hinv) => G P s [].
Qed.

Lemma lu_Pivot_np A : wfm A ->
  loop_post absr (@RPpre F n) (@RPpost F n) false (mx A) 0 (c02_lu ops (c02_ElimPivot F) n false A (iota 0 n)).
Proof.
move=> wA.
apply: (@lu_loop_inv F absr absr0 n _ (c02_ElimPivot F) (@RPpre F n) (@RPpost F n) false) => //.
- by move=> G P s i Hi [H1 H2]; split=> //; apply: RP_skip.
- by move=> G P s i f Hi [H1 H2]; split=> //; apply: RP_elim.
- apply: (inv0 absr) => //; split=> //; split=> //; first by rewrite size_iota.
  + by move=> k Hk; rewrite nth_iota // add0n; lia.
  + by move=> k Hk; rewrite nth_iota // add0n.
Qed.

Theorem invert_nopivot_iff A : (3 < n)%N -> wfm A ->
  (exists B, c02_invert ops A false = C02_Ok B) <-> minors_nz n.+1 (mx A).
Proof.
move=> Hn wA; split; last exact: (invert_nopivot_complete absr0).
case=> B; rewrite (@invert_unfold F absr n A false Hn wA).
have := lu_Pivot_np wA.
case: (c02_lu _ _ _ _ _ _) => [[LU pivot]|st|] //= Hinv _.
by apply: (nopivot_ok_minors _ Hinv) => G P s [].
Qed.

End Deep.

Section Deep2.
Variable F : fieldType.
Variable absr : F -> nat.
Hypothesis absr0 : forall x, (absr x == 0%N) = (x == 0).
Notation ops := (c02_fops absr).
Notation mx := (c02_mx absr).
Notation cv := (c02_cv absr).

(* ---- closed forms n <= 3: the only error is the division by the zero determinant, and it happens IFF A is singular *)
Theorem closed_divbyzero_iff n A b piv : (0 < n <= 3)%N -> c02_wfm n A -> c02_wfv n b ->
  [/\ (c02_solve ops A b piv = C02_DivByZero) <-> (\det (mx n A) = 0),
      (c02_invert ops A piv = C02_DivByZero) <-> (\det (mx n A) = 0),
      c02_solve ops A b piv <> C02_FMatrixError & c02_invert ops A piv <> C02_FMatrixError].
Proof.
move=> Hn wA wb; have := det_closed absr true Hn wA.
case: n Hn wA wb => [|[|[|[|n]]]] // _.
- move=> /wfm1 [a ->] /wfv1 [b0 ->] [E]; rewrite -E /c02_solve /c02_invert /= /c02_div /= /c02_get /=.
  by case: (altP (a =P 0)) => H; split=> //; split=> // /eqP; rewrite (negbTE H).
- move=> /wfm2 [a [b' [c [d ->]]]] /wfv2 [b0 [b1 ->]] [E]; rewrite -E /c02_solve /c02_invert /= /c02_div /= /c02_get /=.
  by case: (altP (a * d - b' * c =P 0)) => H; split=> //; split=> // /eqP; rewrite (negbTE H).
- move=> /wfm3 [a [b' [c [d [e [f [g [h [k ->]]]]]]]]] /wfv3 [b0 [b1 [b2 ->]]] [E]; rewrite -E /c02_solve /c02_invert /= /c02_div /=.
  by case: (altP (c02_det3 ops _ =P 0)) => H; split=> //; split=> // /eqP; rewrite (negbTE H).
Qed.

(* ---- rows != cols: every call reports FMatrixError *)
Theorem nonsquare A b piv : c02_rows A != c02_cols A ->
  [/\ c02_solve ops A b piv = C02_FMatrixError, c02_invert ops A piv = C02_FMatrixError
    & c02_determinant ops A piv = C02_FMatrixError].
Proof. by move=> H; rewrite /c02_solve /c02_invert /c02_determinant eqbE (negbTE H). Qed.

(* ---- the default arguments written in densematrix.hh (re-read into Params_gen.v on every run) switch pivoting ON *)
Lemma default_args : [/\ c02_param_solve_default_pivoting = true, c02_param_invert_default_pivoting = true
                       & c02_param_det_default_pivoting = true].
Proof. by []. Qed.

Theorem defaults n A b : (0 < n)%N -> c02_wfm n A -> c02_wfv n b -> mx n A \in unitmx ->
  [/\ exists x, c02_solve_dflt ops A b = C02_Ok x /\ mx n A *m cv n x = cv n b,
      exists B, [/\ c02_invert_dflt ops A = C02_Ok B, mx n A *m mx n B = 1%:M & mx n B *m mx n A = 1%:M]
    & c02_determinant_dflt ops A = C02_Ok (\det (mx n A))].
Proof.
move=> Hn wA wb uA; case: default_args; rewrite /c02_solve_dflt /c02_invert_dflt /c02_determinant_dflt => -> -> ->.
split; last exact: (det_pivot absr0).
- case: (solve_complete absr0 Hn wA wb uA) => x E; exists x; split=> //.
  by case: (solve_sound absr0 Hn wA wb E).
- exact: (invert_complete absr0).
Qed.

(* ---- objects after a call *)
Theorem objects_after n (o : c02_objs F) piv : (0 < n)%N -> c02_wfm n (ob_A o) ->
  [/\ (c02_call_solve ops o piv).2 = o, (c02_call_determinant ops o piv).2 = o
    & match c02_call_invert ops o piv with
      | (C02_Ok _, o') => ob_b o' = ob_b o /\ mx n (ob_A o) *m mx n (ob_A o') = 1%:M /\ mx n (ob_A o') *m mx n (ob_A o) = 1%:M
      | (_, o') => o' = o
      end].
Proof.
move=> Hn wA; split=> //; rewrite /c02_call_invert.
case E: (c02_invert ops (ob_A o) piv) => [B| |] //=; split=> //.
exact: (invert_sound absr0 Hn wA E).
Qed.

End Deep2.


Section Deep3.
Variable F : fieldType.
Variable absr : F -> nat.
Hypothesis absr0 : forall x, (absr x == 0%N) = (x == 0).
Notation ops := (c02_fops absr).
Notation mx := (c02_mx absr).

Lemma P_det_singular n A piv : (3 < n)%N -> c02_wfm n A -> mx n A \notin unitmx -> c02_determinant ops A piv = C02_Ok 0.
Proof.
move=> Hn /wfmP wA; rewrite unitmxE unitfE negbK => /eqP.
exact: (det_lu_singular absr0).
Qed.

Lemma P_lu_no_divbyzero n A b piv : (3 < n)%N -> c02_wfm n A -> c02_wfv n b ->
  [/\ c02_solve ops A b piv <> C02_DivByZero, c02_invert ops A piv <> C02_DivByZero
    & c02_determinant ops A piv <> C02_DivByZero].
Proof. move=> Hn /wfmP wA /eqP Hb; exact: (lu_no_divbyzero absr0 piv Hn wA Hb). Qed.

Lemma P_solve_nopivot_iff n A b : (3 < n)%N -> c02_wfm n A -> c02_wfv n b ->
  (exists x, c02_solve ops A b false = C02_Ok x) <-> minors_nz n.+1 (mx n A).
Proof. move=> Hn /wfmP wA /eqP Hb; exact: (solve_nopivot_iff absr0 Hn wA Hb). Qed.

Lemma P_invert_nopivot_iff n A : (3 < n)%N -> c02_wfm n A ->
  (exists B, c02_invert ops A false = C02_Ok B) <-> minors_nz n.+1 (mx n A).
Proof. move=> Hn /wfmP wA; exact: (invert_nopivot_iff absr0 Hn wA). Qed.

End Deep3.

(* ---- what luDecomposition with ElimPivot leaves (the deep stream of the correspondence check compares exactly these two
   objects with the C++ ones): the packed matrix holds a unit lower triangular L (below the diagonal) and an upper triangular U
   with non-zero diagonal, and  L * U = P * A  for the row permutation P recorded in the pivot vector *)
Section Factor.
Variable F : fieldType.
Variable absr : F -> nat.
Hypothesis absr0 : forall x, (absr x == 0%N) = (x == 0).
Notation ops := (c02_fops absr).
Theorem lu_factorisation n A piv LU pivot : c02_wfm n A ->
  c02_lu ops (c02_ElimPivot F) n piv A (iota 0 n) = C02_LU_Ok (LU, pivot) ->
  [/\ Lv absr n n LU *m Uv absr n n LU = PP F n pivot n *m c02_mx absr n A,
      forall k, (k < n)%N -> c02_get ops LU k k != 0
    & forall k, (k < n)%N -> (nth 0%N pivot k < n)%N].
Proof.
move=> /wfmP wA E; have := lu_Pivot_inv absr0 piv wA; rewrite E /=.
move=> [wLU Hd [G [P [uG UG LG [Hs _ Hlt HP]]]]]; split=> //.
- by rewrite UG mulmxA LG HP.
Qed.
End Factor.
