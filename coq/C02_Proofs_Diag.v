(* C02 — proofs, part 4: FMatrixHelp::invertMatrix(_retTransposed) and DiagonalMatrix solve / invert / determinant. *)
From mathcomp Require Import all_ssreflect all_algebra.
From mathcomp Require Import fingroup perm ring zify.
From DuneV Require Import C02_Model C02_Spec C02_Proofs C02_Proofs_Invert C02_Proofs_Closed.
Import GRing.Theory.
Set Implicit Arguments.
Unset Strict Implicit.
Unset Printing Implicit Defensive.
Local Open Scope ring_scope.

Section HelpDiag.
Variable F : fieldType.
Variable absr : F -> nat.
Notation ops := (c02_fops absr).
Notation mx := (c02_mx absr).
Notation cv := (c02_cv absr).

(* FMatrixHelp duplicates the closed forms of invert and determinant *)
Lemma help_eq n A tr : (0 < n <= 3)%N -> c02_wfm n A ->
  c02_help_invert ops A tr =
    match c02_invert ops A true, c02_determinant ops A true with
    | C02_Ok B, C02_Ok d => C02_Ok (d, if tr then c02_transpose ops n B else B)
    | _, _ => C02_DivByZero
    end.
Proof.
case: n => [|[|[|[|n]]]] // _.
- by move=> /wfm1 [a ->]; case: tr; rewrite /c02_help_invert /c02_invert /c02_determinant /= /c02_div /=; case: ifP.
- by move=> /wfm2 [a [b [c [d ->]]]]; rewrite /c02_help_invert /c02_invert /c02_determinant /= /c02_div /=; case: ifP.
- by move=> /wfm3 [a [b [c [d [e [f [g [h [k ->]]]]]]]]]; rewrite /c02_help_invert /c02_invert /c02_determinant /= /c02_div /=; case: ifP.
Qed.

Lemma mx_transpose n B : mx n (c02_transpose ops n B) = (mx n B)^T.
Proof.
by apply/matrixP => i j; rewrite !mxE /c02_get /c02_row /c02_transpose nth_mkseq // nth_mkseq.
Qed.

(* invertMatrix returns (\det A, inverse); invertMatrix_retTransposed returns (\det A, transposed inverse) *)
Theorem help_invert_sound n A tr d B : (0 < n <= 3)%N -> c02_wfm n A ->
  c02_help_invert ops A tr = C02_Ok (d, B) ->
  let Binv := if tr then (mx n B)^T else mx n B in
  [/\ d = \det (mx n A), mx n A *m Binv = 1%:M & Binv *m mx n A = 1%:M].
Proof.
move=> Hn wA; rewrite (help_eq tr Hn wA).
case E1: (c02_invert ops A true) => [B0| |] //; case E2: (c02_determinant ops A true) => [d0| |] // [<- <-].
case: (invert_closed_sound Hn wA E1) => _ H1 H2.
have -> : (if tr then (mx n (if tr then c02_transpose ops n B0 else B0))^T else mx n (if tr then c02_transpose ops n B0 else B0)) = mx n B0.
  by case: tr => //; rewrite mx_transpose trmxK.
by split=> //; apply: (det_closed_val Hn wA E2).
Qed.

Theorem help_invert_complete n A tr : (0 < n <= 3)%N -> c02_wfm n A -> mx n A \in unitmx ->
  exists d B, c02_help_invert ops A tr = C02_Ok (d, B).
Proof.
move=> Hn wA uA; rewrite (help_eq tr Hn wA) (det_closed absr true Hn wA).
by case: (invert_closed_complete true Hn wA uA) => B ->; eexists; eexists.
Qed.

(* ---------------------------------------------------------------- DiagonalMatrix *)
Notation vget := (c02_vget ops).

Lemma diag_solve_spec d : forall b x, size b = size d -> c02_diag_solve ops d b = Some x ->
  size x = size d /\ forall i, (i < size d)%N -> vget d i * vget x i = vget b i.
Proof.
elim: d => [|di d IH] [|bi b] x //=; first by move=> _ [<-]; split.
move=> [Hs]; rewrite /c02_div /=; case: ifP => // /negbT Hd.
case E: (c02_diag_solve ops d b) => [r|] // [<-]; case: (IH b r Hs E) => H1 H2; split=> /=; first by rewrite H1.
by case=> [_|i Hi] /=; [rewrite /c02_vget /=; field|apply: H2].
Qed.

Lemma diag_solve_total d : forall b, size b = size d -> all (fun x => x != 0) d ->
  exists x, c02_diag_solve ops d b = Some x.
Proof.
elim: d => [|di d IH] [|bi b] //=; first by exists [::].
move=> [Hs] /andP [Hd Hall]; rewrite /c02_div /= (negbTE Hd).
by case: (IH b Hs Hall) => r ->; eexists.
Qed.

Definition dmx n (d : seq F) : 'M[F]_n := diag_mx (\row_i vget d i).

(* the dense matrix a DiagonalMatrix stands for (c02_diag_dense) is diag_mx d *)
Lemma diag_dense_mx d : mx (size d) (c02_diag_dense ops d) = dmx (size d) d.
Proof.
apply/matrixP => i j; rewrite !mxE /c02_get /c02_row /c02_diag_dense nth_mkseq // nth_mkseq // eqbE -val_eqE.
by case: ifP => _; rewrite ?mulr1n ?mulr0n.
Qed.

Theorem diag_solve_sound d b x : size b = size d -> c02_diag_solve ops d b = Some x ->
  size x = size d /\ dmx (size d) d *m cv (size d) x = cv (size d) b.
Proof.
move=> Hs E; case: (diag_solve_spec Hs E) => H1 H2; split=> //.
by apply/matrixP => i j; rewrite mul_diag_mx !mxE H2.
Qed.

Theorem diag_invert_sound d e : c02_diag_invert ops d = Some e ->
  size e = size d /\ dmx (size d) d *m dmx (size d) e = 1%:M /\ dmx (size d) e *m dmx (size d) d = 1%:M.
Proof.
rewrite /c02_diag_invert => E; case: (diag_solve_spec (size_nseq _ _) E) => H1 H2; split=> //.
have H3 i : (i < size d)%N -> vget d i * vget e i = 1.
  by move=> Hi; rewrite H2 // /c02_vget nth_nseq Hi.
by split; apply/matrixP => i j; rewrite mul_diag_mx !mxE mulrnAr ?[vget e i * _]mulrC H3.
Qed.

Theorem diag_total d b : size b = size d -> dmx (size d) d \in unitmx ->
  (exists x, c02_diag_solve ops d b = Some x) /\ (exists e, c02_diag_invert ops d = Some e).
Proof.
move=> Hs; rewrite unitmxE unitfE det_diag => /prodf_neq0 H.
have Hall : all (fun x => x != 0) d.
  apply/(all_nthP 0) => i Hi; have := H (Ordinal Hi) isT; by rewrite mxE.
by split; apply: diag_solve_total => //; rewrite size_nseq.
Qed.

Theorem diag_det d : (0 < size d)%N -> c02_diag_det ops d = \det (dmx (size d) d).
Proof.
case: d => [|x l] // _; rewrite /c02_diag_det /= det_diag.
have -> : forall a, foldl *%R a l = a * \prod_(y <- l) y.
  by elim: l => [|y l IH] a /=; rewrite ?big_nil ?mulr1 // IH big_cons mulrA.
rewrite -(big_cons 1 *%R x l xpredT id) (big_nth 0) big_mkord.
by apply: eq_bigr => i _; rewrite mxE.
Qed.

End HelpDiag.
