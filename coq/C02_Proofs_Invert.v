(* C02 — proofs, part 3: the LU path of invert (n >= 4): ElimPivot, P*A = L*U read off the stored factors,
   forward / backward substitution on the identity, column un-permutation. *)
From mathcomp Require Import all_ssreflect all_algebra.
From mathcomp Require Import fingroup perm ring zify.
From DuneV Require Import C02_Model C02_Spec C02_Proofs.
Import GRing.Theory.
Set Implicit Arguments.
Unset Strict Implicit.
Unset Printing Implicit Defensive.
Local Open Scope ring_scope.

Section Invert.
Variable F : fieldType.
Variable absr : F -> nat.
Hypothesis absr0 : forall x, (absr x == 0%N) = (x == 0).
Variable n : nat.
Notation ops := (c02_fops absr).
Notation get := (c02_get ops).
Notation mx := (c02_mx absr n).
Notation wfm := (@wfm F n).

(* transposition matrix of two natural numbers (identity when out of range) *)
Definition tpm (a b : nat) : 'M[F]_n :=
  match insub a, insub b with Some a', Some b' => tperm_mx a' b' | _, _ => 1%:M end.
Lemma tpmE a b (Ha : (a < n)%N) (Hb : (b < n)%N) : tpm a b = tperm_mx (Ordinal Ha) (Ordinal Hb).
Proof. by rewrite /tpm !insubT. Qed.
Lemma tpm_id a : tpm a a = 1%:M.
Proof. by rewrite /tpm; case: insubP => // a' _ _; rewrite /tperm_mx tperm1 perm_mx1. Qed.

(* the row permutation recorded in the first m entries of the pivot vector: P_{m-1} * ... * P_0 *)
Fixpoint PP (pivot : seq nat) (m : nat) : 'M[F]_n :=
  match m with 0 => 1%:M | m'.+1 => tpm m' (nth 0%N pivot m') *m PP pivot m' end.
Lemma PP_ext p q m : (forall k, (k < m)%N -> nth 0%N p k = nth 0%N q k) -> PP p m = PP q m.
Proof.
elim: m => //= m IH H; rewrite H // IH // => k Hk; apply: H; lia.
Qed.

Definition Rpre_P i (G P : 'M[F]_n) (pivot : seq nat) :=
  [/\ size pivot = n, (forall k, (i <= k < n)%N -> nth 0%N pivot k = k),
      (forall k, (k < n)%N -> (nth 0%N pivot k < n)%N) & P = PP pivot i].
Definition Rpost_P i (G P : 'M[F]_n) (pivot : seq nat) :=
  [/\ size pivot = n, (forall k, (i < k < n)%N -> nth 0%N pivot k = k),
      (forall k, (k < n)%N -> (nth 0%N pivot k < n)%N) & P = PP pivot i.+1].

Lemma RP_swap G P s i im (Hi : (i < n)%N) (Him : (im < n)%N) : (i <= im)%N -> Rpre_P i G P s ->
  Rpost_P i (xrow (Ordinal Hi) (Ordinal Him) G) (xrow (Ordinal Hi) (Ordinal Him) P) (fswap (c02_ElimPivot F) i im s).
Proof.
move=> Hle [Hs Hid Hlt HP] /=; rewrite eqbE.
have Hn k : nth 0%N (if i == im then s else set_nth 0%N s i im) k = if k == i then im else nth 0%N s k.
  case: (altP (i =P im)) => [E|_]; last by rewrite nth_set_nth.
  by case: (altP (k =P i)) => [->|//]; rewrite -E Hid // leqnn.
split.
- by case: ifP => _ //; rewrite size_set_nth Hs; lia.
- move=> k Hk; rewrite Hn; have -> : (k == i) = false by lia.
  by apply: Hid; lia.
- by move=> k Hk; rewrite Hn; case: ifP => _ //; apply: Hlt.
- rewrite /= Hn eqxx (tpmE Hi Him) xrowE HP; congr (_ *m _).
  by apply: PP_ext => k Hk; rewrite Hn; have -> : (k == i) = false by lia.
Qed.

Lemma RP_skip G P s i : (i < n)%N -> Rpre_P i G P s -> Rpost_P i G P s.
Proof.
move=> Hi [Hs Hid Hlt HP]; split=> //; first by move=> k Hk; apply: Hid; lia.
by rewrite /= Hid ?tpm_id ?mul1mx // leqnn.
Qed.

Lemma RP_elim G P s i f : (i < n)%N -> Rpost_P i G P s ->
  Rpre_P i.+1 (Emx n i f *m G) P (foldl (fun s k => felim (c02_ElimPivot F) (f k) k i s) s (iota i.+1 (n - i.+1))).
Proof.
move=> Hi [Hs Hid Hlt HP].
by have -> : forall l, foldl (fun s k => felim (c02_ElimPivot F) (f k) k i s) s l = s by elim.
Qed.

Lemma lu_Pivot_inv A piv : wfm A ->
  loop_post absr Rpre_P Rpost_P piv (mx A) 0 (c02_lu ops (c02_ElimPivot F) n piv A (iota 0 n)).
Proof.
move=> wA; apply: (lu_loop_inv absr0 (fun _ => RP_swap) RP_skip RP_elim) => //.
apply: (inv0 absr) => //; split=> //; first by rewrite size_iota.
- by move=> k Hk; rewrite nth_iota // add0n; lia.
- by move=> k Hk; rewrite nth_iota // add0n.
Qed.


(* ---------------------------------------------------------------- column swaps and the un-permutation loop *)
Lemma wfm_get_ext (B B' : seq (seq F)) : wfm B -> wfm B' ->
  (forall k c, (k < n)%N -> (c < n)%N -> get B' k c = get B k c) -> mx B' = mx B.
Proof. by move=> _ _ H; apply/matrixP => k c; rewrite !mxE H. Qed.

Lemma swapcols_spec B i p : wfm B -> (i < n)%N -> (p < n)%N ->
  wfm (c02_swapcols ops n B i p) /\ mx (c02_swapcols ops n B i p) = mx B *m tpm i p.
Proof.
move=> [sB rB] Hi Hp; split.
  split; first by rewrite size_mkseq.
  by move=> k Hk; rewrite /c02_row nth_mkseq // !size_set_nth -/(c02_row B k) rB //; lia.
rewrite (tpmE Hi Hp) -xcolE; apply/matrixP => k c; rewrite !mxE /c02_get {1}/c02_row nth_mkseq //=.
rewrite nth_set_nth /= nth_set_nth /= permE /= -!val_eqE /=.
by case: ((c : nat) == i); case: ((c : nat) == p).
Qed.

Lemma unpermute_spec (pivot : seq nat) : (forall k, (k < n)%N -> (nth 0%N pivot k < n)%N) ->
  forall m B, (m <= n)%N -> wfm B ->
  let B' := foldl (fun B i => let pi := nth 0%N pivot i in if Nat.eqb i pi then B else c02_swapcols ops n B i pi)
                  B (rev (iota 0 m)) in
  wfm B' /\ mx B' = mx B *m PP pivot m.
Proof.
move=> Hlt; elim=> [|m IH] B Hm wB; first by rewrite /= mulmx1.
rewrite -{1}addn1 iotaD rev_cat /= add0n eqbE.
case: (altP (m =P nth 0%N pivot m)) => [E|Hne].
  by case: (IH B (ltnW Hm) wB) => w' ->; split=> //; rewrite -E tpm_id mul1mx.
case: (@swapcols_spec B m (nth 0%N pivot m) wB Hm (Hlt m Hm)) => w1 E1.
by case: (IH _ (ltnW Hm) w1) => w' ->; split=> //; rewrite E1 mulmxA.
Qed.

(* ---------------------------------------------------------------- row accumulation r -= c_j * X_j *)
Lemma axpy_fold (c : nat -> F) (X : nat -> seq F) l : forall r0, size r0 = n ->
  let r := foldl (fun r j => c02_row_axpy ops n (c j) (X j) r) r0 l in
  size r = n /\ forall k, (k < n)%N -> nth 0 r k = nth 0 r0 k - \sum_(j <- l) c j * nth 0 (X j) k.
Proof.
elim: l => [|j l IH] r0 Hr /=; first by split=> // k _; rewrite big_nil subr0.
have Hr1 : size (c02_row_axpy ops n (c j) (X j) r0) = n by rewrite size_mkseq.
case: (IH _ Hr1) => H1 H2; split=> // k Hk.
by rewrite H2 // nth_mkseq // big_cons opprD addrA.
Qed.

Lemma wfm_set_row B i r : wfm B -> (i < n)%N -> size r = n -> wfm (set_nth [::] B i r).
Proof.
move=> [sB rB] Hi Hr; split; first by rewrite size_set_nth sB; lia.
by move=> k Hk; rewrite /c02_row nth_set_nth /=; case: ifP => _ //; apply: rB.
Qed.

Lemma get_set_row B i r k c : get (set_nth [::] B i r) k c = if k == i then nth 0 r c else get B k c.
Proof. by rewrite /c02_get /c02_row nth_set_nth /=; case: ifP. Qed.

(* ---------------------------------------------------------------- forward substitution L Y = I *)
Section Subst.
Variable LU : seq (seq F).

Definition fwd_step (B : seq (seq F)) (i : nat) :=
  set_nth [::] B i (foldl (fun r j => c02_row_axpy ops n (get LU i j) (c02_row B j) r) (c02_row B i) (iota 0 i)).

Lemma fwd_spec len : forall s B, (s + len = n)%N -> wfm B ->
  let B' := foldl fwd_step B (iota s len) in
  [/\ wfm B', (forall k c, (k < s)%N -> get B' k c = get B k c)
    & forall k c, (s <= k < n)%N -> (c < n)%N ->
        get B' k c = get B k c - \sum_(j <- iota 0 k) get LU k j * get B' j c].
Proof.
elim: len => [|len IH] s B Hn wB /=; first by split=> // k c; lia.
have Hs : (s < n)%N by lia.
case: (wB) => sB rB.
case: (@axpy_fold (fun j => get LU s j) (fun j => c02_row B j) (iota 0 s) (c02_row B s) (rB s Hs)) => Hr1 Hr2.
have w1 : wfm (fwd_step B s) by apply: wfm_set_row.
case: (IH s.+1 (fwd_step B s) _ w1) => [|w' H1 H2]; first by lia.
split=> //.
- by move=> k c Hk; rewrite H1 ?get_set_row; [have -> : (k == s) = false by lia|lia].
- move=> k c Hk Hc; case: (altP (k =P s)) => [->|Hne]; last first.
    by rewrite H2 ?get_set_row; [have -> : (k == s) = false by lia|lia|].
  rewrite H1 // get_set_row eqxx Hr2 //; congr (_ - _).
  apply: eq_big_seq => j; rewrite mem_iota add0n => /andP [_ Hj].
  by rewrite H1 ?get_set_row; [have -> : (j == s) = false by lia|lia].
Qed.

(* ---------------------------------------------------------------- backward substitution U X = Y *)
Definition bwd_step (oB : option (seq (seq F))) (i : nat) :=
  match oB with
  | None => None
  | Some B =>
      let r := foldl (fun r j => c02_row_axpy ops n (get LU i j) (c02_row B j) r) (c02_row B i) (iota i.+1 (n - i.+1)) in
      if ois0 ops (get LU i i) then None
      else Some (set_nth [::] B i (mkseq (fun k => odiv ops (nth 0 r k) (get LU i i)) n))
  end.

Hypothesis diagLU : forall k, (k < n)%N -> get LU k k != 0.

Lemma bwd_spec : forall m B, (m <= n)%N -> wfm B ->
  exists B', [/\ foldl bwd_step (Some B) (rev (iota 0 m)) = Some B', wfm B',
                 (forall k c, (m <= k)%N -> get B' k c = get B k c)
               & forall k c, (k < m)%N -> (c < n)%N -> \sum_(k <= j < n) get LU k j * get B' j c = get B k c].
Proof.
elim=> [|m IH] B Hm wB; first by exists B; split.
rewrite -{1}addn1 iotaD rev_cat /= add0n (negbTE (diagLU Hm)).
case: (wB) => sB rB.
set r := foldl _ (c02_row B m) _.
case: (@axpy_fold (fun j => get LU m j) (fun j => c02_row B j) (iota m.+1 (n - m.+1)) (c02_row B m) (rB m Hm)) => Hr1 Hr2.
set B1 := set_nth _ _ _ _.
have w1 : wfm B1 by apply: wfm_set_row => //; rewrite size_mkseq.
case: (IH B1 (ltnW Hm) w1) => B' [E w' H1 H2]; exists B'; split=> //.
- by move=> k c Hk; rewrite H1 ?get_set_row; [have -> : (k == m) = false by lia|lia].
- move=> k c Hk Hc; case: (altP (k =P m)) => [->|Hne]; last first.
    by rewrite H2 ?get_set_row; [have -> : (k == m) = false by lia|lia|].
  rewrite big_ltn // H1 // get_set_row eqxx nth_mkseq // -/r Hr2 //.
  have -> : \sum_(m.+1 <= j < n) get LU m j * get B' j c = \sum_(j <- iota m.+1 (n - m.+1)) get LU m j * nth 0 (c02_row B j) c.
    rewrite /index_iota; apply: eq_big_seq => j; rewrite mem_iota => /andP [Hj _].
    by rewrite H1 ?get_set_row; [have -> : (j == m) = false by lia|lia].
  by apply: alg1; apply: diagLU.
Qed.
End Subst.


(* ---------------------------------------------------------------- products with the triangular factors, entrywise *)
Lemma Lv_full_mul LU B (k c : 'I_n) :
  (Lv absr n n LU *m mx B) k c = get B k c + \sum_(j <- iota 0 k) get LU k j * get B j c.
Proof.
rewrite mxE.
rewrite (eq_bigr (fun j : 'I_n => (if (j < k)%N then get LU k j else ((k : nat) == j)%:R) * get B j c)); last first.
  by move=> j _; rewrite !mxE ltn_ord.
rewrite -(big_mkord xpredT (fun j : nat => (if (j < k)%N then get LU k j else ((k : nat) == j)%:R) * get B j c)).
rewrite (@big_cat_nat _ _ _ k) //=; last exact: ltnW.
rewrite addrC; congr (_ + _).
  rewrite big_ltn // ltnn eqxx mul1r big_nat big1 ?addr0 // => j /andP [Hj _].
  have -> : (j < k)%N = false by lia.
  have -> : ((k : nat) == j) = false by lia.
  by rewrite mul0r.
rewrite /index_iota subn0 big_seq [RHS]big_seq; apply: eq_bigr => j; rewrite mem_iota add0n => /andP [_ ->].
by [].
Qed.

Lemma Uv_full_mulM LU B (k c : 'I_n) : (Uv absr n n LU *m mx B) k c = \sum_(k <= j < n) get LU k j * get B j c.
Proof.
rewrite mxE.
rewrite (eq_bigr (fun j : 'I_n => (if (j < k)%N then 0 else get LU k j) * get B j c)); last first.
  by move=> j _; rewrite !mxE ltn_ord.
rewrite -(big_mkord xpredT (fun j : nat => (if (j < k)%N then 0 else get LU k j) * get B j c)).
rewrite (@big_cat_nat _ _ _ k) //=; last exact: ltnW.
rewrite big_nat big1 ?add0r; last by move=> j /andP [_ ->]; rewrite mul0r.
by apply: eq_big_nat => j /andP [Hj _]; have -> : (j < k)%N = false by lia.
Qed.

(* ---------------------------------------------------------------- invert, LU path *)
Definition B0 : seq (seq F) := mkseq (fun i => mkseq (fun k => if Nat.eqb i k then 1 else 0) n) n.
Definition unperm_step (pivot : seq nat) (B : seq (seq F)) (i : nat) :=
  let pi := nth 0%N pivot i in if Nat.eqb i pi then B else c02_swapcols ops n B i pi.

Lemma invert_unfold A piv : (3 < n)%N -> wfm A ->
  c02_invert ops A piv =
    match c02_lu ops (c02_ElimPivot F) n piv A (iota 0 n) with
    | C02_LU_Singular _ => C02_FMatrixError
    | C02_LU_DivByZero => C02_DivByZero
    | C02_LU_Ok (LU, pivot) =>
        match foldl (bwd_step LU) (Some (foldl (fwd_step LU) B0 (iota 0 n))) (rev (iota 0 n)) with
        | None => C02_DivByZero
        | Some B2 => C02_Ok (foldl (unperm_step pivot) B2 (rev (iota 0 n)))
        end
    end.
Proof.
move=> Hn [sA rA]; rewrite /c02_invert /c02_rows /c02_cols sA rA ?eqbE ?eqxx /=; last by lia.
have -> : (n == 1)%N = false by lia.
have -> : (n == 2)%N = false by lia.
by have -> : (n == 3)%N = false by lia.
Qed.

Lemma wfm_B0 : wfm B0.
Proof.
split; first by rewrite size_mkseq.
by move=> k Hk; rewrite /c02_row nth_mkseq // size_mkseq.
Qed.

Lemma invert_core LU pivot (G P : 'M[F]_n) A0 B2 :
  wfm LU -> (forall k, (k < n)%N -> get LU k k != 0) ->
  (forall k, (k < n)%N -> (nth 0%N pivot k < n)%N) ->
  Uv absr n n LU = G *m A0 -> Lv absr n n LU *m G = P -> P = PP pivot n ->
  foldl (bwd_step LU) (Some (foldl (fwd_step LU) B0 (iota 0 n))) (rev (iota 0 n)) = Some B2 ->
  let B3 := foldl (unperm_step pivot) B2 (rev (iota 0 n)) in
  [/\ wfm B3, A0 *m mx B3 = 1%:M & mx B3 *m A0 = 1%:M].
Proof.
move=> wLU Hd Hlt UG LG HP Hb.
case: (@fwd_spec LU n 0%N B0 (add0n n) wfm_B0); set B1 := foldl _ _ _ => w1 _ H1.
case: (@bwd_spec LU Hd n B1 (leqnn n) w1) => B2' [E2 w2 _ H2].
move: Hb; rewrite E2 => -[<-].
case: (@unpermute_spec pivot Hlt n B2' (leqnn n) w2) => w3 E3.
have L1 : Lv absr n n LU *m mx B1 = 1%:M.
  apply/matrixP => k c; rewrite Lv_full_mul H1 ?subrK; [|by rewrite leq0n ltn_ord|exact: ltn_ord].
  by rewrite !mxE /c02_get /c02_row /B0 nth_mkseq // nth_mkseq // eqbE -val_eqE; case: ifP.
have U2 : Uv absr n n LU *m mx B2' = mx B1.
  by apply/matrixP => k c; rewrite Uv_full_mulM H2 // mxE.
have PA : (P *m A0) *m mx B2' = 1%:M.
  by rewrite -LG -!mulmxA (mulmxA G) -UG U2.
have BA : mx B2' *m (P *m A0) = 1%:M by apply: mulmx1C.
have E : mx (foldl (unperm_step pivot) B2' (rev (iota 0 n))) = mx B2' *m P by rewrite HP; exact: E3.
have BA3 : mx (foldl (unperm_step pivot) B2' (rev (iota 0 n))) *m A0 = 1%:M by rewrite E -mulmxA.
by split; [exact: w3|exact: (mulmx1C BA3)|exact: BA3].
Qed.

Theorem invert_lu_sound A piv B : (3 < n)%N -> wfm A -> c02_invert ops A piv = C02_Ok B ->
  [/\ wfm B, mx A *m mx B = 1%:M & mx B *m mx A = 1%:M].
Proof.
move=> Hn wA; rewrite invert_unfold //.
have := lu_Pivot_inv piv wA.
case: (c02_lu _ _ _ _ _ _) => [[LU pivot]|st|] //= [wLU Hd [G [P [uG UG LG [Hs _ Hlt HP]]]]].
case Hb: (foldl _ _ _) => [B2|] // [<-].
exact: (invert_core wLU Hd Hlt UG LG HP Hb).
Qed.

Theorem invert_lu_complete A : (3 < n)%N -> wfm A -> mx A \in unitmx ->
  exists B, c02_invert ops A true = C02_Ok B.
Proof.
move=> Hn wA uA; rewrite invert_unfold //.
have := lu_Pivot_inv true wA.
case: (c02_lu _ _ _ _ _ _) => [[LU pivot]|st|] //=.
- move=> [wLU Hd _].
  case: (@fwd_spec LU n 0%N B0 (add0n n) wfm_B0); set B1 := foldl _ _ _ => w1 _ _.
  by case: (@bwd_spec LU Hd n B1 (leqnn n) w1) => B2 [-> _ _ _]; eexists.
- case=> i' Hi0 [Hinv _ Hz]; have Hi' : (i' < n)%N by lia.
  by move: uA; rewrite unitmxE unitfE (singular_det Hi' Hinv (Hz isT)) eqxx.
Qed.

Theorem invert_lu_singular A piv : (3 < n)%N -> wfm A -> \det (mx A) = 0 ->
  c02_invert ops A piv = C02_FMatrixError.
Proof.
move=> Hn wA dA; rewrite invert_unfold //.
have := lu_Pivot_inv piv wA.
case: (c02_lu _ _ _ _ _ _) => [[LU pivot]|st|] //= [wLU Hd [G [P [uG UG _ _]]]].
have : \det (Uv absr n n LU) != 0.
  by rewrite det_Uv_full; apply/prodf_neq0 => k _; apply: Hd.
by rewrite UG det_mulmx dA mulr0 eqxx.
Qed.

End Invert.

Section WrapInvert.
Variable F : fieldType.
Variable absr : F -> nat.
Hypothesis absr0 : forall x, (absr x == 0%N) = (x == 0).
Notation ops := (c02_fops absr).
Notation mx := (c02_mx absr).

Lemma P_invert_lu_sound n A piv B : (3 < n)%N -> c02_wfm n A -> c02_invert ops A piv = C02_Ok B ->
  mx n A *m mx n B = 1%:M /\ mx n B *m mx n A = 1%:M.
Proof. by move=> Hn /wfmP wA E; case: (invert_lu_sound absr0 Hn wA E). Qed.

Lemma P_invert_lu n A : (3 < n)%N -> c02_wfm n A -> mx n A \in unitmx ->
  exists B, [/\ c02_invert ops A true = C02_Ok B, mx n A *m mx n B = 1%:M & mx n B *m mx n A = 1%:M].
Proof.
move=> Hn /wfmP wA uA; case: (invert_lu_complete absr0 Hn wA uA) => B E; exists B.
by case: (invert_lu_sound absr0 Hn wA E).
Qed.

Lemma P_invert_lu_singular n A piv : (3 < n)%N -> c02_wfm n A -> mx n A \notin unitmx ->
  c02_invert ops A piv = C02_FMatrixError.
Proof.
move=> Hn /wfmP wA; rewrite unitmxE unitfE negbK => /eqP.
exact: invert_lu_singular.
Qed.
End WrapInvert.
