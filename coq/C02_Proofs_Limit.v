(* C02 — the threshold of DUNE_FMatrix_WITH_CHECKING: with the default limit written in precision.hh (re-read into
   Params_gen.v on every run) the test  representative < limit  on natural-number representatives is the zero test,
   which is how the field-level model (c02_fops in C02_Spec.v) reads [oabslim].  Plain Coq (no mathcomp scopes). *)
From Coq Require Import ZArith Lia.
From DuneV Require Import Params_gen C02_Model.
Local Open Scope Z_scope.

Theorem limit_reading (r : nat) : c02_zp_abslim (Z.of_nat r) = Nat.eqb r 0.
Proof.
unfold c02_zp_abslim.
replace (c02_param_abs_limit_exp10 <? 0) with true by (vm_compute; reflexivity).
replace c02_param_abs_limit_mant with 1 by (vm_compute; reflexivity).
set (K := 10 ^ _).
assert (HK : 1 <= K) by (apply Z.leb_le; vm_compute; reflexivity).
destruct r as [|r]; [reflexivity|].
change (Nat.eqb (S r) 0) with false.
apply Z.ltb_ge.
assert (1 <= Z.of_nat (S r)) by lia.
nia.
Qed.
