(* C02 — the threshold of DUNE_FMatrix_WITH_CHECKING: with the default limit written in precision.hh (re-read into
   Params_gen.v on every run) the test  representative < limit  on natural-number representatives is the zero test,
   which is how the field-level model (c02_fops in C02_Spec.v) reads [oabslim].  Plain Coq (no mathcomp scopes). *)
From Coq Require Import ZArith Lia.
From DuneV Require Import Params_gen C02_Model.
Local Open Scope Z_scope.

Theorem limit_reading (r : nat) : c02_zp_abslim (Z.of_nat r) = Nat.eqb r 0.
Proof.
unfold c02_zp_abslim.
replace (c02_param_abs_limit_exp10 <? 0) with true by (vm_compute; reflexivity).
replace c02_param_abs_limit_mant with 1 by (vm_compute; reflexivity).
set (K := 10 ^ _).
assert (HK : 1 <= K) by (apply Z.leb_le; vm_compute; reflexivity).
destruct r as [|r]; [reflexivity|].
change (Nat.eqb (S r) 0) with false.
apply Z.ltb_ge.
assert (1 <= Z.of_nat (S r)) by lia.
nia.
Qed.

(* ---- round 6: the per-step singularity test of luDecomposition as RE-READ from densematrix.hh (Params_gen:
   c02_param_lu_sing_cmp / c02_param_lu_sing_thr), at the rational instance of the model where magnitudes exist:
   it is the zero test and nothing else — a pivot of any non-zero magnitude is a pivot. *)
From Coq Require Import QArith Qabs.
Theorem q_pivot_test_zero (x : Q) : c02_q_pivzero x = Qeq_bool x 0.
Proof.
unfold c02_q_pivzero.
replace c02_param_lu_sing_thr with O by (vm_compute; reflexivity).
replace c02_param_lu_sing_cmp with O by (vm_compute; reflexivity).
destruct x as [[|p|p] d]; reflexivity.
Qed.
