(* C02 — proofs, part 5: doPivoting = false.  The unpivoted elimination is defined (meets no zero pivot) whenever the
   leading principal minors are non-zero; then determinant / solve / invert succeed and are correct. *)
From mathcomp Require Import all_ssreflect all_algebra.
From mathcomp Require Import fingroup perm ring zify.
From DuneV Require Import C02_Model C02_Spec C02_Proofs C02_Proofs_Invert C02_Proofs_Closed.
Import GRing.Theory.
Set Implicit Arguments.
Unset Strict Implicit.
Unset Printing Implicit Defensive.
Local Open Scope ring_scope.

Section NoPivot.
Variable F : fieldType.
Variable absr : F -> nat.
Hypothesis absr0 : forall x, (absr x == 0%N) = (x == 0).
Variable n : nat.
Notation ops := (c02_fops absr).
Notation get := (c02_get ops).
Notation mx := (c02_mx absr n).
Notation cv := (c02_cv absr n).
Notation wfm := (@wfm F n).
Notation Uv := (Uv absr n).
Notation Lv := (Lv absr n).

(* M with everything outside the leading k x k block replaced by the identity: \det (lead k M) is the leading
   principal minor of order k of M *)
Definition lead k (M : 'M[F]_n) : 'M[F]_n := \matrix_(a, b) if (a < k)%N && (b < k)%N then M a b else (a == b)%:R.

Lemma lead_full M : lead n M = M.
Proof. by apply/matrixP => a b; rewrite mxE !ltn_ord. Qed.

Lemma lead_mul k (L U : 'M[F]_n) : (forall a b : 'I_n, (a < b)%N -> L a b = 0) ->
  lead k (L *m U) = lead k L *m lead k U.
Proof.
move=> HL; apply/matrixP => a b; rewrite !mxE.
have neqF (x y : 'I_n) : (x : nat) != y -> (x == y) = false by move=> H; apply/negbTE; rewrite -val_eqE.
case: (ltnP a k) => Ha /=; last first.
  have Hak : (a < k)%N = false by lia.
  rewrite (bigD1 a) //= big1 ?addr0; first by rewrite !mxE Hak /= eqxx mul1r.
  by move=> c Hc; rewrite !mxE Hak /= eq_sym (negbTE Hc) /= mul0r.
case: (ltnP b k) => Hb /=.
  apply: eq_bigr => c _; rewrite !mxE Ha Hb /= andbT.
  case: (ltnP c k) => Hc //=.
  by rewrite HL ?mul0r; [rewrite neqF ?mul0r //|]; lia.
rewrite neqF; last by lia.
rewrite big1 // => c _; rewrite !mxE Ha /= (_ : (b < k)%N = false) ?andbF; last by lia.
case: (ltnP c k) => Hc /=.
  by rewrite (neqF c b) ?mulr0 //; lia.
by rewrite (neqF a c) ?mul0r //; lia.
Qed.

Lemma Lv_lower i A (a b : 'I_n) : (a < b)%N -> Lv i A a b = 0.
Proof.
move=> Hab; rewrite mxE (_ : (b < a)%N = false) ?andbF; last by lia.
by rewrite (_ : (a == b) = false) //; apply/negbTE; rewrite -val_eqE /=; lia.
Qed.

Lemma det_lead_Lv k i A : \det (lead k (Lv i A)) = 1.
Proof.
rewrite det_trig; last first.
  apply/is_trig_mxP => a b Hab; rewrite mxE Lv_lower //.
  by case: ifP => // _; rewrite (_ : (a == b) = false) //; apply/negbTE; rewrite -val_eqE /=; lia.
by apply: big1 => a _; rewrite !mxE ltnn andbF eqxx; case: ifP.
Qed.

Lemma det_lead_Uv0 i A : (i < n)%N -> get A i i = 0 -> \det (lead i.+1 (Uv i A)) = 0.
Proof.
move=> Hi H0; rewrite -det_tr det_trig; last first.
  apply/is_trig_mxP => a b Hab; rewrite !mxE.
  case: ifP => [/andP [Hb Ha]|_].
    by rewrite (_ : (a < i)%N && (a < b)%N) //; lia.
  by rewrite (_ : (b == a) = false) //; apply/negbTE; rewrite -val_eqE /=; lia.
rewrite (bigD1 (Ordinal Hi)) //= !mxE /= ltnSn /= ltnn /= H0 mul0r.
by [].
Qed.

Lemma nopivot_singular_minor S A0 (Rx : 'M[F]_n -> 'M[F]_n -> S -> Prop) i st :
  (forall G P s, Rx G P s -> P = 1%:M) -> invg absr A0 Rx i st -> (i < n)%N -> get st.1 i i = 0 ->
  \det (lead i.+1 A0) = 0.
Proof.
move=> HR [wA _ [G [P [uG UG LG /HR EP]]]] Hi H0.
have -> : A0 = Lv i st.1 *m Uv i st.1 by rewrite UG mulmxA LG EP mul1mx.
by rewrite lead_mul ?det_mulmx ?det_lead_Uv0 ?mulr0 //; apply: Lv_lower.
Qed.

(* all leading principal minors of order 0 < k < m are non-zero *)
Definition minors_nz m (M : 'M[F]_n) := forall k, (0 < k < m)%N -> \det (lead k M) != 0.

(* ---- determinant *)
Definition RD (_ : nat) (G P : 'M[F]_n) (sg : F) := R_Det G sg /\ P = 1%:M.

Lemma lu_Det_np A : wfm A ->
  loop_post absr RD RD false (mx A) 0 (c02_lu ops (c02_ElimDet ops) n false A 1).
Proof.
move=> wA; apply: (@lu_loop_inv F absr absr0 n F (c02_ElimDet ops) RD RD false) => //.
- by move=> G P s i f Hi [H1 H2]; split=> //; apply: R_Det_elim.
- by apply: (inv0 absr) => //; split=> //; rewrite /R_Det det1 mulr1.
Qed.

Theorem det_nopivot A : (3 < n)%N -> wfm A -> minors_nz n (mx A) ->
  c02_determinant ops A false = C02_Ok (\det (mx A)).
Proof.
move=> Hn wA Hm; rewrite (@det_unfold F absr n A false Hn wA).
have := lu_Det_np wA.
case: (c02_lu _ _ _ _ _ _) => [[A' sg]|[A' sg]|] //=.
- move=> [wA' Hd [G [P [uG UG _ [Hsg _]]]]]; congr C02_Ok.
  by rewrite -det_Uv_full UG det_mulmx mulrA Hsg mul1r.
- case=> i' Hi0 [Hinv H0 _]; have Hi' : (i' < n)%N by lia.
  case: (ltnP i'.+1 n) => Hlast.
    have := @nopivot_singular_minor F (mx A) _ i' (A', sg) (fun G P s (H : RD i' G P s) => proj2 H) Hinv Hi' H0.
    by move=> H; have := Hm i'.+1 Hlast; rewrite H // eqxx.
  congr C02_Ok; apply/esym; apply: (singular_det Hi' Hinv) => k Hk /=.
  by have -> : k = i' by lia.
Qed.

(* ---- solve *)
Definition RE (b0 : 'cV[F]_n) (_ : nat) (G P : 'M[F]_n) (rhs : seq F) := R_Elim absr b0 G rhs /\ P = 1%:M.

Theorem solve_nopivot_complete A b : (3 < n)%N -> wfm A -> size b = n -> minors_nz n.+1 (mx A) ->
  exists x, c02_solve ops A b false = C02_Ok x.
Proof.
move=> Hn wA Hb Hm; rewrite (@solve_unfold F absr n A b false Hn wA).
have : loop_post absr (RE (cv b)) (RE (cv b)) false (mx A) 0 (c02_lu ops (c02_Elim ops) n false A (mkseq (c02_vget ops b) n)).
  apply: (@lu_loop_inv F absr absr0 n _ (c02_Elim ops) (RE (cv b)) (RE (cv b)) false) => //.
  - by move=> G P s i f Hi [H1 H2]; split=> //; apply: R_Elim_elim.
  - apply: (inv0 absr) => //; split=> //; split; first by rewrite size_mkseq.
    by rewrite mul1mx; apply/matrixP => k j; rewrite !mxE /c02_vget nth_mkseq.
case: (c02_lu _ _ _ _ _ _) => [[A' rhs]|[A' rhs]|] //=.
- by move=> [wA' Hd _]; case: (backsolve_total wA' Hd rhs (leqnn n)) => x' ->; exists x'.
- case=> i' Hi0 [Hinv H0 _]; have Hi' : (i' < n)%N by lia.
  have := @nopivot_singular_minor _ (mx A) _ i' (A', rhs) (fun G P s (H : RE (cv b) i' G P s) => proj2 H) Hinv Hi' H0.
  by move=> H; have := Hm i'.+1 Hi'; rewrite H // eqxx.
Qed.

(* ---- invert *)
Definition RPpre i (G P : 'M[F]_n) (pv : seq nat) := Rpre_P i G P pv /\ P = 1%:M.
Definition RPpost i (G P : 'M[F]_n) (pv : seq nat) := Rpost_P i G P pv /\ P = 1%:M.

Theorem invert_nopivot_complete A : (3 < n)%N -> wfm A -> minors_nz n.+1 (mx A) ->
  exists B, c02_invert ops A false = C02_Ok B.
Proof.
move=> Hn wA Hm; rewrite (@invert_unfold F absr n A false Hn wA).
have : loop_post absr RPpre RPpost false (mx A) 0 (c02_lu ops (c02_ElimPivot F) n false A (iota 0 n)).
  apply: (@lu_loop_inv F absr absr0 n _ (c02_ElimPivot F) RPpre RPpost false) => //.
  - by move=> G P s i Hi [H1 H2]; split=> //; apply: RP_skip.
  - by move=> G P s i f Hi [H1 H2]; split=> //; apply: RP_elim.
  - apply: (inv0 absr) => //; split=> //; split=> //; first by rewrite size_iota.
    + by move=> k Hk; rewrite nth_iota // add0n; lia.
    + by move=> k Hk; rewrite nth_iota // add0n.
case: (c02_lu _ _ _ _ _ _) => [[LU pivot]|[LU pivot]|] //=.
- move=> [wLU Hd _].
  case: (@fwd_spec F absr n LU n 0%N (B0 F n) (add0n n) (wfm_B0 F n)); set B1 := foldl _ _ _ => w1 _ _.
  by case: (@bwd_spec F absr n LU Hd n B1 (leqnn n) w1) => B2 [-> _ _ _]; eexists.
- case=> i' Hi0 [Hinv H0 _]; have Hi' : (i' < n)%N by lia.
  have := @nopivot_singular_minor _ (mx A) _ i' (LU, pivot) (fun G P s (H : RPpost i' G P s) => proj2 H) Hinv Hi' H0.
  by move=> H; have := Hm i'.+1 Hi'; rewrite H // eqxx.
Qed.

End NoPivot.

(* ---- every size n >= 1, Spec-level well-formedness *)
Section WrapNoPivot.
Variable F : fieldType.
Variable absr : F -> nat.
Hypothesis absr0 : forall x, (absr x == 0%N) = (x == 0).
Notation ops := (c02_fops absr).
Notation mx := (c02_mx absr).
Notation cv := (c02_cv absr).

Lemma minors_unit n (M : 'M[F]_n) : (0 < n)%N -> minors_nz n.+1 M -> M \in unitmx.
Proof.
move=> Hn Hm; have := Hm n; rewrite lead_full unitmxE unitfE; apply.
by rewrite Hn ltnSn.
Qed.

Theorem P_det_nopivot n A : (0 < n)%N -> c02_wfm n A -> minors_nz n (mx n A) ->
  c02_determinant ops A false = C02_Ok (\det (mx n A)).
Proof.
move=> Hn wA Hm; case: (leqP n 3) => H3; first by apply: det_closed => //; rewrite Hn.
by apply: (det_nopivot absr0) => //; apply: wfmP.
Qed.

Theorem P_solve_nopivot n A b : (0 < n)%N -> c02_wfm n A -> c02_wfv n b -> minors_nz n.+1 (mx n A) ->
  exists x, c02_solve ops A b false = C02_Ok x /\ mx n A *m cv n x = cv n b.
Proof.
move=> Hn wA wb Hm.
have [x E] : exists x, c02_solve ops A b false = C02_Ok x.
  case: (leqP n 3) => H3.
    have uA : mx n A \in unitmx by apply: minors_unit.
    by apply: (@solve_closed_complete F absr n) => //; rewrite Hn.
  have wA' := wfmP wA; have Hb : size b = n by apply/eqP.
  exact: (solve_nopivot_complete absr0 H3 wA' Hb Hm).
by exists x; split=> //; case: (solve_sound absr0 Hn wA wb E).
Qed.

Theorem P_invert_nopivot n A : (0 < n)%N -> c02_wfm n A -> minors_nz n.+1 (mx n A) ->
  exists B, [/\ c02_invert ops A false = C02_Ok B, mx n A *m mx n B = 1%:M & mx n B *m mx n A = 1%:M].
Proof.
move=> Hn wA Hm.
have [B E] : exists B, c02_invert ops A false = C02_Ok B.
  case: (leqP n 3) => H3.
    have uA : mx n A \in unitmx by apply: minors_unit.
    by apply: (@invert_closed_complete F absr n) => //; rewrite Hn.
  exact: (invert_nopivot_complete absr0 H3 (wfmP wA) Hm).
by exists B; case: (invert_sound absr0 Hn wA E).
Qed.
End WrapNoPivot.
