(* C02 — \\det (lead k M) is the leading principal minor *)
From mathcomp Require Import all_ssreflect all_algebra.
From mathcomp Require Import fingroup perm ring zify.
From DuneV Require Import C02_Model C02_Spec C02_Proofs C02_Proofs_Invert C02_Proofs_Closed C02_Proofs_NoPivot.
Import GRing.Theory.
Set Implicit Arguments.
Unset Strict Implicit.
Unset Printing Implicit Defensive.
Local Open Scope ring_scope.
Section LP.
Variable F : fieldType.
(* ---- \det (lead k M) IS the leading principal minor: the determinant of the k x k submatrix of the first k rows and columns *)
Definition prin n k (Hk : (k <= n)%N) (M : 'M[F]_n) : 'M[F]_k := \matrix_(i, j) M (widen_ord Hk i) (widen_ord Hk j).

Lemma lead_prin n : forall k (Hk : (k <= n)%N) (M : 'M[F]_n), \det (lead k M) = \det (prin Hk M).
Proof.
elim: n => [|n IH] k Hk M.
  by case: k Hk => [|k] Hk //; rewrite !det_mx00.
case: (ltnP n k) => Hkn.
  have Ek : k = n.+1 by lia.
  move: Hk M; rewrite Ek => Hk M; rewrite lead_full; congr (\det _).
  by apply/matrixP => i j; rewrite mxE; congr (M _ _); apply: val_inj.
have Hmax (x : nat) : ((ord_max : 'I_n.+1) < k)%N && (x < k)%N = false by rewrite /=; lia.
rewrite (expand_det_row _ ord_max) (bigD1 ord_max) // big1 ?addr0; last first.
  by move=> j Hj; rewrite mxE Hmax eq_sym (negbTE Hj) mul0r.
rewrite mxE Hmax eqxx mul1r /cofactor -signr_odd addnn odd_double expr0 mul1r.
have L (x : 'I_n) : (lift ord_max x : 'I_n.+1) = x :> nat by rewrite /= /bump leqNgt ltn_ord.
have -> : row' ord_max (col' ord_max (lead k M)) = lead k (row' ord_max (col' ord_max M)).
  by apply/matrixP => i j; rewrite !mxE !L (inj_eq lift_inj).
rewrite (IH k Hkn) -[GRing.add_comoid F _ 0]/(_ + 0) addr0; congr (\det _).
apply/matrixP => i j; rewrite !mxE.
by congr (M _ _); apply: val_inj => /=; rewrite /bump; have := ltn_ord i; have := ltn_ord j; lia.
Qed.

End LP.
