(* C02 — proofs, round 6: the MAGNITUDE dimension.  Scaling laws of solve / invert / determinant under
   A' = diag(r) * A * diag(s) with non-zero r, s (scalar multiples c*A included), for every size, every field, every
   absreal with the zero law, pivoting on and off: the OUTCOME CLASS (Ok / FMatrixError / DivByZero) is invariant and the
   results are the exactly rescaled ones.  Nothing but `= 0` may enter the pivot test for this to hold. *)
From mathcomp Require Import all_ssreflect all_algebra.
From mathcomp Require Import fingroup perm ring zify.
From DuneV Require Import C02_Model C02_Spec C02_Proofs C02_Proofs_Invert C02_Proofs_Closed C02_Proofs_NoPivot C02_Proofs_Deep.
Import GRing.Theory.
Set Implicit Arguments.
Unset Strict Implicit.
Unset Printing Implicit Defensive.
Local Open Scope ring_scope.

Section Scale.
Variable F : fieldType.
Variable absr : F -> nat.
Hypothesis absr0 : forall x, (absr x == 0%N) = (x == 0).
Notation ops := (c02_fops absr).
Notation mx := (c02_mx absr).
Notation cv := (c02_cv absr).

Definition dg n (r : seq F) : 'M[F]_n := diag_mx (\row_i nth 0 r i).
Definition nzs n (r : seq F) := forall i, (i < n)%N -> nth 0 r i != 0.

Lemma scale2_wfm n r s A : c02_wfm n (c02_scale2 ops n r s A).
Proof.
rewrite /c02_wfm /c02_scale2 size_mkseq eqxx /=.
by apply/allP => x /mapP [i _ ->]; rewrite size_mkseq.
Qed.

Lemma scalev_wfv n r b : c02_wfv n (c02_scalev ops n r b).
Proof. by rewrite /c02_wfv /c02_scalev size_mkseq. Qed.

Lemma scale2_mx n r s A : mx n (c02_scale2 ops n r s A) = dg n r *m mx n A *m dg n s.
Proof.
apply/matrixP => i j; rewrite /dg mul_mx_diag mxE mul_diag_mx !mxE.
by rewrite /c02_get /c02_row /c02_scale2 nth_mkseq // nth_mkseq.
Qed.

Lemma scalev_cv n r b : cv n (c02_scalev ops n r b) = dg n r *m cv n b.
Proof.
apply/matrixP => i j; rewrite /dg mul_diag_mx !mxE.
by rewrite /c02_vget /c02_scalev nth_mkseq.
Qed.

Lemma dg_nseq n c : dg n (nseq n c) = c%:M.
Proof. by apply/matrixP => i j; rewrite !mxE nth_nseq ltn_ord. Qed.

Lemma nzs_nseq n c : c != 0 -> nzs n (nseq n c).
Proof. by move=> Hc i Hi; rewrite nth_nseq Hi. Qed.

Lemma dg_unit n r : nzs n r -> dg n r \in unitmx.
Proof.
move=> H; rewrite unitmxE det_diag unitfE; apply/prodf_neq0 => i _.
by rewrite mxE; apply: H.
Qed.

Lemma det_dg n r : \det (dg n r) = \prod_(i < n) nth 0 r i.
Proof. by rewrite det_diag; apply: eq_bigr => i _; rewrite mxE. Qed.

Lemma scale_unit n r s A : nzs n r -> nzs n s ->
  (mx n (c02_scale2 ops n r s A) \in unitmx) = (mx n A \in unitmx).
Proof. by move=> Hr Hs; rewrite scale2_mx !unitmx_mul !dg_unit // andbT. Qed.

(* ---- leading principal minors under diagonal scalings *)
Lemma lead_tr n k (M : 'M[F]_n) : lead k M^T = (lead k M)^T.
Proof. by apply/matrixP => a b; rewrite !mxE andbC eq_sym. Qed.

Lemma lead_mulr n k (M U : 'M[F]_n) : (forall a b : 'I_n, (b < a)%N -> U a b = 0) ->
  lead k (M *m U) = lead k M *m lead k U.
Proof.
move=> HU; apply: trmx_inj; rewrite trmx_mul -!lead_tr trmx_mul lead_mul //.
by move=> a b Hab; rewrite mxE HU.
Qed.

Lemma dg_offdiag n r (a b : 'I_n) : (a : nat) != b -> dg n r a b = 0.
Proof. by move=> H; rewrite mxE (_ : (a == b) = false) ?mulr0n //; apply/negbTE. Qed.

Lemma lead_dg n k r : lead k (dg n r) = diag_mx (\row_(i < n) if (i < k)%N then nth 0 r i else 1).
Proof.
apply/matrixP => a b; rewrite !mxE.
case: (altP (a =P b)) => [->|Hab]; first by rewrite andbb !mulr1n; case: ifP.
by rewrite !mulr0n; case: ifP.
Qed.

Lemma det_lead_dg n k r : nzs n r -> \det (lead k (dg n r)) != 0.
Proof.
move=> H; rewrite lead_dg det_diag; apply/prodf_neq0 => i _; rewrite mxE.
by case: ifP => _; [apply: H | apply: oner_neq0].
Qed.

Lemma lead_scale n k r s (M : 'M[F]_n) :
  lead k (dg n r *m M *m dg n s) = lead k (dg n r) *m lead k M *m lead k (dg n s).
Proof.
rewrite lead_mulr; last by move=> a b Hab; apply: dg_offdiag; rewrite neq_ltn Hab orbT.
rewrite lead_mul //.
by move=> a b Hab; apply: dg_offdiag; rewrite neq_ltn Hab.
Qed.

Lemma minors_scale n m r s (M : 'M[F]_n) : nzs n r -> nzs n s ->
  minors_nz m (dg n r *m M *m dg n s) <-> minors_nz m M.
Proof.
move=> Hr Hs; split=> H k Hk; move: (H k Hk); rewrite lead_scale !det_mulmx !mulf_eq0 !negb_or.
  by case/andP => /andP [_ ->].
by move=> ->; rewrite !det_lead_dg.
Qed.

(* ---- the predicate that decides the outcome: "the elimination that is asked for is defined and A is regular" *)
Definition Pok n (piv : bool) (M : 'M[F]_n) : Prop :=
  if (n <= 3)%N || piv then is_true (M \in unitmx) else minors_nz n.+1 M.
Definition errc (T : Type) n : c02_res T := if (3 < n)%N then C02_FMatrixError else C02_DivByZero.

Lemma Pok_scale n piv r s A : nzs n r -> nzs n s ->
  Pok piv (mx n (c02_scale2 ops n r s A)) <-> Pok piv (mx n A).
Proof.
move=> Hr Hs; rewrite /Pok; case: ifP => _; first by rewrite scale_unit.
by rewrite scale2_mx; apply: minors_scale.
Qed.

Lemma Pok_unit n piv (M : 'M[F]_n) : (0 < n)%N -> Pok piv M -> M \in unitmx.
Proof. by move=> Hn; rewrite /Pok; case: ifP => // _; apply: minors_unit. Qed.

Lemma unit_det0 n (M : 'M[F]_n) : (M \in unitmx) = false -> \det M = 0.
Proof. by rewrite unitmxE unitfE => /negbFE /eqP. Qed.

Lemma solve_ok_iff n A b piv : (0 < n)%N -> c02_wfm n A -> c02_wfv n b ->
  (exists x, c02_solve ops A b piv = C02_Ok x) <-> Pok piv (mx n A).
Proof.
move=> Hn wA wb; rewrite /Pok; case: (leqP n 3) => H3 /=.
  have Hn3 : (0 < n <= 3)%N by rewrite Hn.
  case: (closed_divbyzero_iff absr piv Hn3 wA wb) => [[H1 H2] _ H3' _]; split.
    case=> x E; case uA: (_ \in _) => //.
    by move: (H2 (unit_det0 uA)); rewrite E.
  by move=> uA; apply: (@solve_closed_complete F absr n).
case: piv => /=.
  split; last by apply: (solve_complete absr0).
  case=> x E; case uA: (_ \in _) => //.
  by move: (@P_solve_lu_singular _ _ absr0 n A b true H3 wA wb (negbT uA)); rewrite E.
exact: (P_solve_nopivot_iff absr0).
Qed.

Lemma solve_err n A b piv : (0 < n)%N -> c02_wfm n A -> c02_wfv n b ->
  ~ (exists x, c02_solve ops A b piv = C02_Ok x) -> c02_solve ops A b piv = errc _ n.
Proof.
move=> Hn wA wb; rewrite /errc; case: (ltnP 3 n) => H3.
  case: (@P_lu_no_divbyzero _ _ absr0 n A _ piv H3 wA wb) => H _ _.
  by case: (c02_solve _ _ _ _) H => // x _ []; exists x.
have Hn3 : (0 < n <= 3)%N by rewrite Hn.
case: (closed_divbyzero_iff absr piv Hn3 wA wb) => _ _ H _.
by case: (c02_solve _ _ _ _) H => // x _ []; exists x.
Qed.

Lemma invert_ok_iff n A piv : (0 < n)%N -> c02_wfm n A ->
  (exists B, c02_invert ops A piv = C02_Ok B) <-> Pok piv (mx n A).
Proof.
move=> Hn wA; rewrite /Pok; case: (leqP n 3) => H3 /=.
  have Hn3 : (0 < n <= 3)%N by rewrite Hn.
  have wb : c02_wfv n (nseq n (0 : F)) by rewrite /c02_wfv size_nseq.
  case: (closed_divbyzero_iff absr piv Hn3 wA wb) => [_ [H1 H2] _ H3']; split.
    case=> B E; case uA: (_ \in _) => //.
    by move: (H2 (unit_det0 uA)); rewrite E.
  by move=> uA; apply: (@invert_closed_complete F absr n).
case: piv => /=.
  split; last by move=> uA; case: (@invert_complete _ _ absr0 _ _ Hn wA uA) => B [E _ _]; exists B.
  case=> B E; case uA: (_ \in _) => //.
  by move: (@P_invert_lu_singular _ _ absr0 n A true H3 wA (negbT uA)); rewrite E.
exact: (P_invert_nopivot_iff absr0).
Qed.

Lemma invert_err n A piv : (0 < n)%N -> c02_wfm n A ->
  ~ (exists B, c02_invert ops A piv = C02_Ok B) -> c02_invert ops A piv = errc _ n.
Proof.
move=> Hn wA; rewrite /errc.
have wb : c02_wfv n (nseq n (0 : F)) by rewrite /c02_wfv size_nseq.
case: (ltnP 3 n) => H3.
  case: (@P_lu_no_divbyzero _ _ absr0 n A _ piv H3 wA wb) => _ H _.
  by case: (c02_invert _ _ _) H => // B _ []; exists B.
have Hn3 : (0 < n <= 3)%N by rewrite Hn.
case: (closed_divbyzero_iff absr piv Hn3 wA wb) => _ _ _ H.
by case: (c02_invert _ _ _) H => // B _ []; exists B.
Qed.

(* ---- solve: A' = diag(r) A diag(s), b' = diag(r) b  (any list b' that reads as diag(r) b) *)
Theorem scaling_solve n A b b' r s piv : (0 < n)%N -> c02_wfm n A -> c02_wfv n b -> c02_wfv n b' ->
  nzs n r -> nzs n s -> cv n b' = dg n r *m cv n b ->
  match c02_solve ops A b piv, c02_solve ops (c02_scale2 ops n r s A) b' piv with
  | C02_Ok x, C02_Ok x' => cv n x = dg n s *m cv n x'
  | C02_FMatrixError, C02_FMatrixError => True
  | C02_DivByZero, C02_DivByZero => True
  | _, _ => False
  end.
Proof.
move=> Hn wA wb wb' Hr Hs Eb'.
set A' := c02_scale2 _ _ _ _ _.
have wA' : c02_wfm n A' by apply: scale2_wfm.
have EA' : mx n A' = dg n r *m mx n A *m dg n s by apply: scale2_mx.
have Ur := dg_unit Hr.
have HP := @Pok_scale n piv r s A Hr Hs.
have I1 := solve_ok_iff piv Hn wA wb; have I2 := solve_ok_iff piv Hn wA' wb'.
have R1 := @solve_err n A b piv Hn wA wb; have R2 := @solve_err n A' b' piv Hn wA' wb'.
case E: (c02_solve ops A b piv) => [x||]; case E': (c02_solve ops A' b' piv) => [x'||] //.
- have uA : mx n A \in unitmx by apply: (Pok_unit Hn (piv := piv)); apply/I1; exists x.
  case: (@solve_sound _ _ absr0 _ _ _ _ _ Hn wA wb E) => _ H1; case: (@solve_sound _ _ absr0 _ _ _ _ _ Hn wA' wb' E') => _.
  rewrite EA' Eb' -!mulmxA => /(can_inj (mulKmx Ur)); rewrite -H1 => /(can_inj (mulKmx uA)).
  by move->.
- by have [] : exists x', c02_solve ops A' b' piv = C02_Ok x'; [apply/I2/HP/I1; exists x | move=> ?; rewrite E'].
- by have [] : exists x', c02_solve ops A' b' piv = C02_Ok x'; [apply/I2/HP/I1; exists x | move=> ?; rewrite E'].
- by have [] : exists x, c02_solve ops A b piv = C02_Ok x; [apply/I1/HP/I2; exists x' | move=> ?; rewrite E].
- have : c02_solve ops A b piv = errc _ n by apply: R1; rewrite E; case.
  have : c02_solve ops A' b' piv = errc _ n by apply: R2; rewrite E'; case.
  by rewrite E E' => <-.
- by have [] : exists x, c02_solve ops A b piv = C02_Ok x; [apply/I1/HP/I2; exists x' | move=> ?; rewrite E].
- have : c02_solve ops A b piv = errc _ n by apply: R1; rewrite E; case.
  have : c02_solve ops A' b' piv = errc _ n by apply: R2; rewrite E'; case.
  by rewrite E E' => <-.
Qed.

(* ---- invert: A^-1 = diag(s) A'^-1 diag(r) *)
Theorem scaling_invert n A r s piv : (0 < n)%N -> c02_wfm n A -> nzs n r -> nzs n s ->
  match c02_invert ops A piv, c02_invert ops (c02_scale2 ops n r s A) piv with
  | C02_Ok B, C02_Ok B' => mx n B = dg n s *m mx n B' *m dg n r
  | C02_FMatrixError, C02_FMatrixError => True
  | C02_DivByZero, C02_DivByZero => True
  | _, _ => False
  end.
Proof.
move=> Hn wA Hr Hs.
set A' := c02_scale2 _ _ _ _ _.
have wA' : c02_wfm n A' by apply: scale2_wfm.
have EA' : mx n A' = dg n r *m mx n A *m dg n s by apply: scale2_mx.
have Ur := dg_unit Hr; have Us := dg_unit Hs.
have HP := @Pok_scale n piv r s A Hr Hs.
have I1 := invert_ok_iff piv Hn wA; have I2 := invert_ok_iff piv Hn wA'.
have R1 := @invert_err n A piv Hn wA; have R2 := @invert_err n A' piv Hn wA'.
case E: (c02_invert ops A piv) => [B||]; case E': (c02_invert ops A' piv) => [B'||] //.
- have uA : mx n A \in unitmx by apply: (Pok_unit Hn (piv := piv)); apply/I1; exists B.
  case: (@invert_sound _ _ absr0 _ _ _ _ Hn wA E) => H1 _; case: (@invert_sound _ _ absr0 _ _ _ _ Hn wA' E') => H2 _.
  apply: (can_inj (mulKmx uA)); rewrite H1.
  apply: (can_inj (mulKmx Ur)); rewrite mulmx1 !mulmxA -EA' H2 mul1mx.
  by [].
- by have [] : exists x', c02_invert ops A' piv = C02_Ok x'; [apply/I2/HP/I1; exists B | move=> ?; rewrite E'].
- by have [] : exists x', c02_invert ops A' piv = C02_Ok x'; [apply/I2/HP/I1; exists B | move=> ?; rewrite E'].
- by have [] : exists x, c02_invert ops A piv = C02_Ok x; [apply/I1/HP/I2; exists B' | move=> ?; rewrite E].
- have : c02_invert ops A piv = errc _ n by apply: R1; rewrite E; case.
  have : c02_invert ops A' piv = errc _ n by apply: R2; rewrite E'; case.
  by rewrite E E' => <-.
- by have [] : exists x, c02_invert ops A piv = C02_Ok x; [apply/I1/HP/I2; exists B' | move=> ?; rewrite E].
- have : c02_invert ops A piv = errc _ n by apply: R1; rewrite E; case.
  have : c02_invert ops A' piv = errc _ n by apply: R2; rewrite E'; case.
  by rewrite E E' => <-.
Qed.

(* ---- determinant: det A' = prod r * det A * prod s, whenever the elimination that is asked for is defined *)
Theorem scaling_det n A r s (piv : bool) : (0 < n)%N -> c02_wfm n A -> nzs n r -> nzs n s ->
  [\/ piv, (n <= 3)%N | minors_nz n (mx n A)] ->
  c02_determinant ops A piv = C02_Ok (\det (mx n A)) /\
  c02_determinant ops (c02_scale2 ops n r s A) piv
    = C02_Ok ((\prod_(i < n) nth 0 r i) * \det (mx n A) * (\prod_(i < n) nth 0 s i)).
Proof.
move=> Hn wA Hr Hs H.
set A' := c02_scale2 _ _ _ _ _.
have wA' : c02_wfm n A' by apply: scale2_wfm.
have EA' : mx n A' = dg n r *m mx n A *m dg n s by apply: scale2_mx.
have -> : (\prod_(i < n) nth 0 r i) * \det (mx n A) * (\prod_(i < n) nth 0 s i) = \det (mx n A').
  by rewrite EA' !det_mulmx !det_dg.
case: H => [Hp|H3|Hm].
- by rewrite Hp; split; apply: (det_pivot absr0).
- by split; apply: (det_closed absr) => //; rewrite Hn.
- case: piv; first by split; apply: (det_pivot absr0).
  split; apply: (P_det_nopivot absr0) => //.
  by rewrite EA'; apply/minors_scale.
Qed.

(* ---- corollaries in the form of the round-6 statement: scalar multiples A*c = c*A *)
Lemma scale_mx n c A : mx n (c02_scale ops n c A) = c *: mx n A.
Proof. by rewrite /c02_scale scale2_mx !dg_nseq mul1mx mul_mx_scalar. Qed.

Theorem scaling_scalar n A b c (piv : bool) : (0 < n)%N -> c02_wfm n A -> c02_wfv n b -> c != 0 ->
  [/\ (mx n (c02_scale ops n c A) \in unitmx) = (mx n A \in unitmx),
      match c02_solve ops A b piv, c02_solve ops (c02_scale ops n c A) b piv with
      | C02_Ok x, C02_Ok x' => cv n x' = c^-1 *: cv n x
      | C02_FMatrixError, C02_FMatrixError => True
      | C02_DivByZero, C02_DivByZero => True
      | _, _ => False
      end,
      match c02_invert ops A piv, c02_invert ops (c02_scale ops n c A) piv with
      | C02_Ok B, C02_Ok B' => mx n B' = c^-1 *: mx n B
      | C02_FMatrixError, C02_FMatrixError => True
      | C02_DivByZero, C02_DivByZero => True
      | _, _ => False
      end
    & [\/ piv, (n <= 3)%N | minors_nz n (mx n A)] ->
      c02_determinant ops (c02_scale ops n c A) piv = C02_Ok (c ^+ n * \det (mx n A))].
Proof.
move=> Hn wA wb Hc.
have H1 : nzs n (nseq n (1 : F)) by apply: nzs_nseq; apply: oner_neq0.
have Hcs : nzs n (nseq n c) by apply: nzs_nseq.
split.
- by rewrite /c02_scale scale_unit.
- have Eb : cv n b = dg n (nseq n 1) *m cv n b by rewrite dg_nseq mul1mx.
  move: (scaling_solve piv Hn wA wb wb H1 Hcs Eb); rewrite -/(c02_scale ops n c A).
  case: (c02_solve ops A b piv) => [x||]; case: (c02_solve _ (c02_scale _ _ _ _) _ _) => [x'||] //.
  by rewrite dg_nseq mul_scalar_mx => ->; rewrite scalerA mulVf // scale1r.
- move: (scaling_invert piv Hn wA H1 Hcs); rewrite -/(c02_scale ops n c A).
  case: (c02_invert ops A piv) => [B||]; case: (c02_invert _ (c02_scale _ _ _ _) _) => [B'||] //.
  by rewrite !dg_nseq mulmx1 mul_scalar_mx => ->; rewrite scalerA mulVf // scale1r.
- move=> H; case: (scaling_det Hn wA H1 Hcs H) => _; rewrite -/(c02_scale ops n c A) => ->.
  have E1 : \prod_(i < n) nth 0 (nseq n (1 : F)) i = 1 by rewrite big1 // => i _; rewrite nth_nseq ltn_ord.
  have E2 : \prod_(i < n) nth 0 (nseq n c) i = c ^+ n.
    by rewrite (eq_bigr (fun=> c)) ?prodr_const ?card_ord // => i _; rewrite nth_nseq ltn_ord.
  by rewrite E1 E2 mul1r mulrC.
Qed.

End Scale.
