(* C02 — specification.
   Abstract statement (in 'M[F]_n of mathcomp, F any field):
       solve A b  = Ok x   ->  A *m x = b
       invert A   = Ok B   ->  A *m B = 1 /\ B *m A = 1
       determinant A       =   \det A
       4 <= n, \det A = 0  ->  solve / invert = FMatrixError, determinant = 0
   Part 1 (executable, no algebra library): the oracle functions used by the correspondence check
   (matrix-vector / matrix-matrix product, identity, determinant by cofactor expansion along the first row —
   deliberately not Gaussian elimination, so that it is independent of the model).
   Part 2: interpretation of list matrices / vectors as mathcomp matrices and the field-operation record
   of a mathcomp fieldType, used to state the theorems. *)
From mathcomp Require Import ssreflect ssrfun ssrbool ssrnat seq.
From DuneV Require Import C02_Model.
Set Implicit Arguments.
Unset Strict Implicit.
Unset Printing Implicit Defensive.

Section Oracle.
Variable F : Type.
Variable ops : c02_ops F.
Definition c02_spec_dot (r x : seq F) : F := foldl (fun acc p => oadd ops acc (omul ops p.1 p.2)) (o0 ops) (zip r x).
Definition c02_spec_mulmv (A : seq (seq F)) (x : seq F) : seq F := map (fun r => c02_spec_dot r x) A.
Definition c02_spec_col (B : seq (seq F)) (j : nat) : seq F := map (fun r => nth (o0 ops) r j) B.
Definition c02_spec_mulmm (n : nat) (A B : seq (seq F)) : seq (seq F) :=
  map (fun r => mkseq (fun j => c02_spec_dot r (c02_spec_col B j)) n) A.
Definition c02_spec_id (n : nat) : seq (seq F) := mkseq (fun i => mkseq (fun j => if Nat.eqb i j then o1 ops else o0 ops) n) n.
Definition c02_spec_dropcol (j : nat) (r : seq F) : seq F := take j r ++ drop j.+1 r.
(* cofactor expansion along the first row; fuel = n *)
Fixpoint c02_spec_det (fuel : nat) (A : seq (seq F)) : F :=
  match fuel, A with
  | fuel'.+1, r0 :: rest =>
      (foldl (fun st a => let: (acc, j, sg) := st in
                (oadd ops acc (omul ops (omul ops sg a) (c02_spec_det fuel' (map (c02_spec_dropcol j) rest))), j.+1, oopp ops sg))
             (o0 ops, 0, o1 ops) r0).1.1
  | _, _ => o1 ops
  end.
End Oracle.

From mathcomp Require Import all_ssreflect all_algebra.
Import GRing.Theory.
Local Open Scope ring_scope.

Section Interp.
Variable F : fieldType.
(* absr : the `absreal` of the field type, any function into nat with  absr x = 0 <-> x = 0
   (so the theorems hold for every pivot choice rule of this shape, e.g. the representative of 'F_p) *)
Variable absr : F -> nat.
Definition c02_fops : c02_ops F :=
  C02Ops 0 1 +%R (fun a b => a - b) *%R -%R (fun a b => a / b) (fun a => a == 0) (fun a => absr a == 0%N) (fun a b => (absr b < absr a)%N)
         (fun a => absr a == 0%N) (* absreal a < limit, for a nat-valued absreal and 0 < limit <= 1: see C02_limit_reading *).
Definition c02_mx (n : nat) (A : seq (seq F)) : 'M[F]_n := \matrix_(i, j) c02_get c02_fops A i j.
Definition c02_cv (n : nat) (x : seq F) : 'cV[F]_n := \col_i c02_vget c02_fops x i.
(* well-formed n x n list matrix / n-vector *)
Definition c02_wfm (n : nat) (A : seq (seq F)) : bool := (size A == n) && all (fun r => size r == n) A.
Definition c02_wfv (n : nat) (x : seq F) : bool := size x == n.
End Interp.
