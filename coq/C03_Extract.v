(* Extraction of the C03 model and spec machine for the correspondence check.  ExtrOcamlBasic only:
   bool/option/unit/list/prod map to OCaml's; N, positive, Z, nat stay Coq inductives. *)
From Coq Require Import Extraction ExtrOcamlBasic.
From Coq Require Import List NArith ZArith.
From DuneV Require Import C03_Params C03_Model C03_Spec.
Extraction Language OCaml.
Extraction "c03_model.ml" c03_init c03_step c03_run c03s_init c03_spec_step c03_spec_run c03_defined
  c03_at_c c03_get_c c03_lookup_size c03_add_default c03_readd_op c03_param_legacy_probe_test c03_dirty c03_assign.
