(* C03 — executable model of Dune::ParallelIndexSet<TG,ParallelLocalIndex<A>,N> and
   Dune::GlobalLookupIndexSet (dune/common/parallel/indexset.hh, plocalindex.hh, localindex.hh).
   Definitions only (no proofs): the model must run even when a proof breaks.

   Lists stand for ArrayList<IndexPair,N> (push_back = append at the end, eraseToHere = drop the
   prefix, iteration/copy = the list); that this is legitimate for every chunk size N is C11's
   ArrayList refinement theorem.  std::sort is modelled by a (stable) insertion sort; for equal
   (global, attribute) keys inside ONE batch of new indices the C++ order is unspecified.

   Two switches:
     chk    : the checks under `#ifndef NDEBUG` are compiled in (true) or not (false);
     legacy : the lookups test `probe == -1` for "no entries" (true: the code before fix C03-1)
              or `localIndices_.size() == 0` (false: the code after fix C03-1). *)
From Coq Require Import List ZArith NArith Bool.
From DuneV Require Import C03_Params.
Import ListNotations.
Local Open Scope Z_scope.

(* IndexPair<TG, ParallelLocalIndex<A>>: global_, local_.{localIndex_, attribute_, public_, state_} *)
Record c03_pair := C03Pair { c03_g : Z; c03_loc : N; c03_attr : N; c03_pub : bool; c03_del : bool }.

Definition c03_set_del (p : c03_pair) : c03_pair := C03Pair (c03_g p) (c03_loc p) (c03_attr p) (c03_pub p) true.
Definition c03_set_loc (p : c03_pair) (l : N) : c03_pair := C03Pair (c03_g p) l (c03_attr p) (c03_pub p) (c03_del p).

Inductive c03_op :=
| C03Begin                                   (* beginResize() *)
| C03Add (g : Z) (loc attr : N) (pub : bool) (* add(g, ParallelLocalIndex(loc, attr, pub)) *)
| C03MarkDeleted (k : nat)                   (* markAsDeleted(begin()+k) *)
| C03End                                     (* endResize() *)
| C03Renumber                                (* renumberLocal() *)
| C03Exists (g : Z) | C03At (g : Z) | C03Get (g : Z)   (* exists, at, operator[] *)
| C03Size | C03SeqNo | C03Mode | C03Iterate  (* size(), seqNo(), state(), begin()..end() *)
| C03Reverse (l : N)                         (* GlobalLookupIndexSet(set).pair(l) *)
| C03ReverseSized (sz l : N)                 (* GlobalLookupIndexSet(set, sz).pair(l) *)
| C03SetLocal (g : Z) (l : N)                (* at(g).setLocal(l)  /  at(g).local() = l  (write through the returned reference) *)
| C03SetEq (w : N)                           (* set == set2, set != set2 for set2 = this set rebuilt (other chunk size) with perturbation w *)
| C03Cmp (i j : nat) (g : Z).                (* the 12 IndexPair comparison operators on begin()[i], begin()[j] and g *)

Inductive c03_out :=
| C03Ok | C03InvalidState | C03Bool (b : bool) | C03PairOut (p : c03_pair) | C03RangeError
| C03Num (z : Z) | C03ModeOut (resize : bool) | C03List (l : list c03_pair) | C03Null | C03Bits (b : list bool)
| C03Precond      (* the C++ has undefined behaviour here (end iterator dereferenced, operator[] on an empty set, table overrun) *)
| C03Overflow     (* an `int` of the binary search would overflow *)
| C03OutOfFuel.

(* state_, localIndices_, newIndices_, seqNo_, deletedEntries_ *)
Record c03_state := C03State { c03_resize : bool; c03_local : list c03_pair; c03_fresh : list c03_pair;
                               c03_seq : Z; c03_deleted : bool }.

(* ParallelIndexSet(): state_(GROUND), seqNo_(0), deletedEntries_()  -- the literal is re-read from the source *)
Definition c03_init : c03_state := C03State false [] [] c03_param_seq_init false.

(* IndexSetSortFunctor / the merge condition:
   i1.global()<i2.global() || (i1.global()==i2.global() && LocalIndexComparator::compare(i1.local(),i2.local()))
   with compare = attribute()<attribute() for ParallelLocalIndex. *)
Definition c03_ltb (p q : c03_pair) : bool :=
  (c03_g p <? c03_g q) || ((c03_g p =? c03_g q) && (c03_attr p <? c03_attr q)%N).

(* std::sort(newIndices_.begin(), newIndices_.end(), IndexSetSortFunctor) *)
Fixpoint c03_insert (x : c03_pair) (l : list c03_pair) : list c03_pair :=
  match l with
  | [] => [x]
  | y :: r => if c03_ltb y x then y :: c03_insert x r else x :: l
  end.
Definition c03_sort (l : list c03_pair) : list c03_pair := fold_right c03_insert [] l.

(* merge(): second while loop — the rest of the old list, DELETED entries dropped *)
Fixpoint c03_merge_rest_old (old : list c03_pair) : list c03_pair :=
  match old with
  | [] => []
  | o :: r => if c03_del o then c03_merge_rest_old r else o :: c03_merge_rest_old r
  end.

(* merge(): first while loop (old != endold && added != endadded); the result is the sequence of
   tempPairs.push_back calls; when one input is exhausted the second / third loop finishes. *)
Fixpoint c03_merge_loop (fuel : nat) (old added : list c03_pair) : option (list c03_pair) :=
  match old, added with
  | [], _ => Some added
  | _, [] => Some (c03_merge_rest_old old)
  | o :: old', a :: added' =>
      match fuel with
      | O => None
      | S f =>
          if c03_del o then c03_merge_loop f old' added
          else if c03_ltb o a then option_map (cons o) (c03_merge_loop f old' added)
          else option_map (cons a) (c03_merge_loop f old added')
      end
  end.

(* merge(): the three cases; `added` is the already sorted newIndices_ *)
Definition c03_merge (local added : list c03_pair) (deleted : bool) : option (list c03_pair) :=
  if (length local =? 0)%nat then Some added
  else if negb (length added =? 0)%nat || deleted then c03_merge_loop (length local + length added) local added
  else Some local.

(* binary search: int low=0, high=size-1, probe=-1; while(low<high) {probe=(high+low)/2; ...}
   The source has five copies in two spellings of the comparison:
     at() const, operator[]() const :      if(global <= localIndices_[probe].global())   -> c03_bs_loop   / c03_search
     at(), exists() const, operator[]() :  if(localIndices_[probe].global() >= global)   -> c03_bs_loop_nc / c03_search_nc
   The start values of low and probe are re-read from the source (C03_Params.v, generated). *)
Definition c03_int_max : Z := 2147483647.
Inductive c03_bs := C03BS (low probe : Z) | C03BSOverflow | C03BSOutOfFuel | C03BSBadIndex.

Fixpoint c03_bs_loop (fuel : nat) (l : list c03_pair) (g : Z) (low high probe : Z) : c03_bs :=
  if low <? high then
    match fuel with
    | O => C03BSOutOfFuel
    | S f =>
        if high + low >? c03_int_max then C03BSOverflow else
        let probe := Z.quot (high + low) 2 in
        match nth_error l (Z.to_nat probe) with
        | None => C03BSBadIndex
        | Some p => if g <=? c03_g p then c03_bs_loop f l g low probe probe
                    else c03_bs_loop f l g (probe + 1) high probe
        end
    end
  else C03BS low probe.

Definition c03_search (l : list c03_pair) (g : Z) : c03_bs :=
  let size := Z.of_nat (length l) in
  if size - 1 >? c03_int_max then C03BSOverflow
  else c03_bs_loop (S (length l)) l g c03_param_low_init (size - 1) c03_param_probe_init.

Fixpoint c03_bs_loop_nc (fuel : nat) (l : list c03_pair) (g : Z) (low high probe : Z) : c03_bs :=
  if low <? high then
    match fuel with
    | O => C03BSOutOfFuel
    | S f =>
        if high + low >? c03_int_max then C03BSOverflow else
        let probe := Z.quot (high + low) 2 in
        match nth_error l (Z.to_nat probe) with
        | None => C03BSBadIndex
        | Some p => if c03_g p >=? g then c03_bs_loop_nc f l g low probe probe
                    else c03_bs_loop_nc f l g (probe + 1) high probe
        end
    end
  else C03BS low probe.

Definition c03_search_nc (l : list c03_pair) (g : Z) : c03_bs :=
  let size := Z.of_nat (length l) in
  if size - 1 >? c03_int_max then C03BSOverflow
  else c03_bs_loop_nc (S (length l)) l g c03_param_low_init (size - 1) c03_param_probe_init.

(* the "No entries!" test *)
Definition c03_no_entries (legacy : bool) (l : list c03_pair) (probe : Z) : bool :=
  if legacy then probe =? -1 else (length l =? 0)%nat.

Definition c03_bs_err (r : c03_bs) : c03_out :=
  match r with C03BSOverflow => C03Overflow | C03BSOutOfFuel => C03OutOfFuel | _ => C03Precond end.

Definition c03_exists (legacy : bool) (l : list c03_pair) (g : Z) : c03_out :=
  match c03_search_nc l g with
  | C03BS low probe =>
      if c03_no_entries legacy l probe then C03Bool false
      else match nth_error l (Z.to_nat low) with
           | None => C03Precond
           | Some p => C03Bool (c03_g p =? g)
           end
  | r => c03_bs_err r
  end.

Definition c03_at (legacy : bool) (l : list c03_pair) (g : Z) : c03_out :=
  match c03_search_nc l g with
  | C03BS low probe =>
      if c03_no_entries legacy l probe then C03RangeError
      else match nth_error l (Z.to_nat low) with
           | None => C03Precond
           | Some p => if c03_g p =? g then C03PairOut p else C03RangeError
           end
  | r => c03_bs_err r
  end.

(* operator[]: no test at all *)
Definition c03_get (l : list c03_pair) (g : Z) : c03_out :=
  match c03_search_nc l g with
  | C03BS low _ => match nth_error l (Z.to_nat low) with None => C03Precond | Some p => C03PairOut p end
  | r => c03_bs_err r
  end.

(* the const overloads: at() const, operator[]() const *)
Definition c03_at_c (legacy : bool) (l : list c03_pair) (g : Z) : c03_out :=
  match c03_search l g with
  | C03BS low probe =>
      if c03_no_entries legacy l probe then C03RangeError
      else match nth_error l (Z.to_nat low) with
           | None => C03Precond
           | Some p => if negb (c03_g p =? g) then C03RangeError else C03PairOut p
           end
  | r => c03_bs_err r
  end.
Definition c03_get_c (l : list c03_pair) (g : Z) : c03_out :=
  match c03_search l g with
  | C03BS low _ => match nth_error l (Z.to_nat low) with None => C03Precond | Some p => C03PairOut p end
  | r => c03_bs_err r
  end.

(* renumberLocal(): uint32_t index=0; for(pair...) pair->local()=index++ *)
Fixpoint c03_renumber_from (i : N) (l : list c03_pair) : list c03_pair :=
  match l with [] => [] | p :: r => c03_set_loc p i :: c03_renumber_from (N.succ i) r end.

(* markAsDeleted(begin()+k): the pair's local index gets setState(DELETED) *)
Fixpoint c03_mark (k : nat) (l : list c03_pair) : option (list c03_pair) :=
  match l, k with
  | [], _ => None
  | p :: r, O => Some (c03_set_del p :: r)
  | p :: r, S k' => option_map (cons p) (c03_mark k' r)
  end.

(* GlobalLookupIndexSet: indices_[pair->local()] = address of the pair, over the iteration order *)
Fixpoint c03_tab_set (t : list (option c03_pair)) (i : nat) (v : c03_pair) : option (list (option c03_pair)) :=
  match t, i with
  | [], _ => None
  | _ :: r, O => Some (Some v :: r)
  | x :: r, S i' => option_map (cons x) (c03_tab_set r i' v)
  end.
Fixpoint c03_tab_fill (t : list (option c03_pair)) (l : list c03_pair) : option (list (option c03_pair)) :=
  match l with
  | [] => Some t
  | p :: r => match c03_tab_set t (N.to_nat (c03_loc p)) p with None => None | Some t' => c03_tab_fill t' r end
  end.
(* size_ = max over local(), then ++size_ *)
Definition c03_max_loc (l : list c03_pair) : N := fold_left (fun m p => N.max m (c03_loc p)) l 0%N.
Definition c03_tab_pair (t : option (list (option c03_pair))) (i : N) : c03_out :=
  match t with
  | None => C03Precond
  | Some t => match nth_error t (N.to_nat i) with
              | None => C03Precond
              | Some None => C03Null
              | Some (Some p) => C03PairOut p
              end
  end.
Definition c03_reverse (l : list c03_pair) (i : N) : c03_out :=
  c03_tab_pair (c03_tab_fill (repeat None (S (N.to_nat (c03_max_loc l)))) l) i.
Definition c03_reverse_sized (l : list c03_pair) (sz i : N) : c03_out :=
  c03_tab_pair (c03_tab_fill (repeat None (N.to_nat sz)) l) i.

(* at(g).setLocal(l): the non-const at() (binary search), then the local number of the found pair is overwritten *)
Fixpoint c03_upd_nth (k : nat) (v : N) (l : list c03_pair) : list c03_pair :=
  match l, k with
  | [], _ => []
  | p :: r, O => c03_set_loc p v :: r
  | p :: r, S k' => p :: c03_upd_nth k' v r
  end.
Definition c03_setlocal (legacy : bool) (l : list c03_pair) (g : Z) (v : N) : list c03_pair * c03_out :=
  match c03_search_nc l g with
  | C03BS low probe =>
      if c03_no_entries legacy l probe then (l, C03RangeError)
      else match nth_error l (Z.to_nat low) with
           | None => (l, C03Precond)
           | Some p => if c03_g p =? g then (c03_upd_nth (Z.to_nat low) v l, C03Ok) else (l, C03RangeError)
           end
  | r => (l, c03_bs_err r)
  end.

(* operator==(ParallelIndexSet<TG,TL,N>, ParallelIndexSet<TG1,TL1,N1>): sizes, then pairwise global() and the local indices.
   (Instances with different local index types do not compile: `const PI& pi=..., pi1=iter1->local()` would need two user-defined
   conversions; different global index types TG/TG1 and chunk sizes N/N1 do, and are exercised by the `Z` and `z` probes.)
   Then:
   (ParallelLocalIndex operator!=: local(), attribute(), isPublic(); the state is NOT compared) *)
Definition c03_local_neq (p q : c03_pair) : bool :=
  negb (c03_loc p =? c03_loc q)%N || negb (c03_attr p =? c03_attr q)%N || negb (Bool.eqb (c03_pub p) (c03_pub q)).
Fixpoint c03_set_eq_loop (l l1 : list c03_pair) : bool :=
  match l1 with
  | [] => true
  | q :: r1 => match l with
               | [] => true     (* unreachable: the sizes are equal *)
               | p :: r => if negb (c03_g q =? c03_g p) then false
                           else if c03_local_neq p q then false else c03_set_eq_loop r r1
               end
  end.
Definition c03_set_eq (l l1 : list c03_pair) : bool :=
  if negb (length l =? length l1)%nat then false else c03_set_eq_loop l l1.

(* the second set of the C03SetEq probe: a copy with one field of the LAST pair changed (w = 0: unchanged) *)
Definition c03_perturb_pair (w : N) (p : c03_pair) : c03_pair :=
  match w with
  | 1 => C03Pair (c03_g p) (c03_loc p + 1) (c03_attr p) (c03_pub p) (c03_del p)
  | 2 => C03Pair (c03_g p) (c03_loc p) (c03_attr p + 1) (c03_pub p) (c03_del p)
  | 3 => C03Pair (c03_g p) (c03_loc p) (c03_attr p) (negb (c03_pub p)) (c03_del p)
  | 4 => C03Pair (c03_g p + 1) (c03_loc p) (c03_attr p) (c03_pub p) (c03_del p)
  | 6 => C03Pair (c03_g p) (c03_loc p) (c03_attr p) (c03_pub p) (negb (c03_del p))
  | _ => p
  end%N.
Fixpoint c03_perturb (w : N) (l : list c03_pair) : list c03_pair :=
  match l with
  | [] => []
  | [p] => if (w =? 5)%N then [] else [c03_perturb_pair w p]
  | p :: r => p :: c03_perturb w r
  end.
Definition c03_seteq_out (l : list c03_pair) (w : N) : c03_out :=
  let b := c03_set_eq l (c03_perturb w l) in C03Bits [b; negb b].

(* IndexPair comparisons: all twelve compare global_ only *)
Definition c03_cmp_bits (p q : c03_pair) (g : Z) : list bool :=
  let a := c03_g p in let b := c03_g q in
  [a =? b; negb (a =? b); a <? b; b <? a; a <=? b; b <=? a;
   a =? g; negb (a =? g); a <? g; g <? a; a <=? g; g <=? a].
Definition c03_cmp_out (l : list c03_pair) (i j : nat) (g : Z) : c03_out :=
  match nth_error l i, nth_error l j with
  | Some p, Some q => C03Bits (c03_cmp_bits p q g)
  | _, _ => C03Precond
  end.

(* GlobalLookupIndexSet(set)::size(): size_ = max over local(), then ++size_ (1 for the empty set) *)
Definition c03_lookup_size (l : list c03_pair) : c03_out := C03Num (Z.of_N (N.succ (c03_max_loc l))).

(* add(global): IndexPair(global) -> local_() = ParallelLocalIndex(): localIndex_(0), attribute_(), public_(false), VALID *)
Definition c03_add_default (g : Z) : c03_op := C03Add g 0%N 0%N false.

(* add(x.global(), x.local()) with x = begin()[k], i.e. with references into the set's own storage: the operation it amounts to.
   Dereferencing end() and adding a local index whose state is DELETED (add() copies the state; merge() never drops an ADDED
   pair) are outside the documented use: both are mapped to an operation whose only effect is the output C03Precond. *)
Definition c03_readd_op (l : list c03_pair) (k : nat) : c03_op :=
  match nth_error l k with
  | Some p => if c03_del p then C03Cmp (length l) (length l) 0
              else C03Add (c03_g p) (c03_loc p) (c03_attr p) (c03_pub p)
  | None => C03Cmp (length l) (length l) 0
  end.

Definition c03_step (chk legacy : bool) (st : c03_state) (op : c03_op) : c03_state * c03_out :=
  let '(C03State rz local fresh seq dl) := st in
  match op with
  | C03Begin =>
      if chk && rz then (st, C03InvalidState)
      else (C03State true local fresh seq false, C03Ok)
  | C03Add g loc attr pub =>
      if chk && negb rz then (st, C03InvalidState)
      else (C03State rz local (fresh ++ [C03Pair g loc attr pub false]) seq dl, C03Ok)
  | C03MarkDeleted k =>
      if chk && negb rz then (st, C03InvalidState)
      else match c03_mark k local with
           | None => (C03State rz local fresh seq true, C03Precond)
           | Some local' => (C03State rz local' fresh seq true, C03Ok)
           end
  | C03End =>
      if chk && negb rz then (st, C03InvalidState)
      else match c03_merge local (c03_sort fresh) dl with
           | None => (st, C03OutOfFuel)
           | Some local' => (C03State false local' [] (seq + 1) dl, C03Ok)
           end
  | C03Renumber =>
      if chk && rz then (st, C03InvalidState)
      else (C03State rz (c03_renumber_from c03_param_renumber_start local) fresh seq dl, C03Ok)
  | C03Exists g => (st, c03_exists legacy local g)
  | C03At g => (st, c03_at legacy local g)
  | C03Get g => (st, c03_get local g)
  | C03Size => (st, C03Num (Z.of_nat (length local)))
  | C03SeqNo => (st, C03Num seq)
  | C03Mode => (st, C03ModeOut rz)
  | C03Iterate => (st, C03List local)
  | C03Reverse l => (st, c03_reverse local l)
  | C03ReverseSized sz l => (st, c03_reverse_sized local sz l)
  | C03SetLocal g v => let '(local', o) := c03_setlocal legacy local g v in (C03State rz local' fresh seq dl, o)
  | C03SetEq w => (st, c03_seteq_out local w)
  | C03Cmp i j g => (st, c03_cmp_out local i j g)
  end.

Fixpoint c03_run (chk legacy : bool) (st : c03_state) (ops : list c03_op) : c03_state * list c03_out :=
  match ops with
  | [] => (st, [])
  | op :: r => let '(st', o) := c03_step chk legacy st op in
               let '(st'', os) := c03_run chk legacy st' r in (st'', o :: os)
  end.

(* ---- audit 2, kind A: assignment onto a target that already holds OTHER state.
   ParallelIndexSet has implicit copy / move assignment: member-wise over localIndices_, newIndices_, state_, seqNo_,
   deletedEntries_ (ArrayList::operator= builds a deep copy of the source and moves it over the target).  The harness op `c:w`
   builds a target in configuration w/2 with the histories below, assigns the current set to it (w even: copy, w odd: move)
   and CONTINUES THE HISTORY ON THE TARGET.
     0: fresh   1: nine pairs over several chunks, two completed phases   2: as 1 plus an UNFINISHED resize phase with two
     pending adds and a deletion mark   3: as 1, then everything deleted again (emptied lists with consumed chunks) *)
Definition c03_dirty_pairs : list c03_op :=
  map (fun j : nat => C03Add (1000 + 7 * Z.of_nat j) (50 + N.of_nat j) (N.of_nat (j mod 3)) (Nat.odd j)) (seq 0 9).
Definition c03_dirty_ops (cfg : N) : list c03_op :=
  match cfg with
  | 0 => []
  | 1 => [C03Begin] ++ c03_dirty_pairs ++ [C03End; C03Begin; C03End]
  | 2 => [C03Begin] ++ c03_dirty_pairs ++ [C03End; C03Begin; C03End; C03Begin; C03Add (-77) 5 1 true; c03_add_default 2000; C03MarkDeleted 0]
  | _ => [C03Begin] ++ c03_dirty_pairs ++ [C03End; C03Begin; C03End; C03Begin] ++ map C03MarkDeleted (seq 0 9) ++ [C03End]
  end%N.
Definition c03_dirty (cfg : N) : c03_state := fst (c03_run true false c03_init (c03_dirty_ops cfg)).

(* target = source: every member of the target is replaced by the source's *)
Definition c03_assign (target source : c03_state) : c03_state :=
  let '(C03State _ _ _ _ _) := target in
  C03State (c03_resize source) (c03_local source) (c03_fresh source) (c03_seq source) (c03_deleted source).
