(* C03 — lemmas and proofs. *)
From Coq Require Import List ZArith NArith Bool Lia Permutation Sorted Relations.
From DuneV Require Import C03_Params C03_Model C03_Spec.
Import ListNotations.
Local Open Scope Z_scope.

(* ------------------------------------------------------------------ F-C03-1 witness *)
Lemma c03_lookup_legacy_refuted_lemma :
  exists (l : list c03_pair) (g : Z),
    In g (map c03_g l) /\ c03_exists true l g = C03Bool false /\ c03_at true l g = C03RangeError.
Proof.
  exists [C03Pair 7 0 0 true false], 7. vm_compute. repeat split; auto.
Qed.

(* ------------------------------------------------------------------ the key order *)
Ltac kord :=
  unfold c03_key_le, c03_ltb in *;
  repeat match goal with
  | H : _ || _ = true |- _ => apply orb_true_iff in H
  | H : _ || _ = false |- _ => apply orb_false_iff in H; destruct H
  | H : _ && _ = true |- _ => apply andb_true_iff in H; destruct H
  | H : _ && _ = false |- _ => apply andb_false_iff in H
  | H : (_ <? _) = true |- _ => apply Z.ltb_lt in H
  | H : (_ <? _) = false |- _ => apply Z.ltb_ge in H
  | H : (_ =? _) = true |- _ => apply Z.eqb_eq in H
  | H : (_ =? _) = false |- _ => apply Z.eqb_neq in H
  | H : (_ <? _)%N = true |- _ => apply N.ltb_lt in H
  | H : (_ <? _)%N = false |- _ => apply N.ltb_ge in H
  | H : _ \/ _ |- _ => destruct H
  | H : _ /\ _ |- _ => destruct H
  end.

Lemma c03_ltb_true_iff p q :
  c03_ltb p q = true <-> (c03_g p < c03_g q \/ (c03_g p = c03_g q /\ (c03_attr p < c03_attr q)%N)).
Proof.
  unfold c03_ltb. rewrite orb_true_iff, andb_true_iff, Z.ltb_lt, Z.eqb_eq, N.ltb_lt. tauto.
Qed.
Lemma c03_ltb_false_iff p q :
  c03_ltb p q = false <-> (c03_g q < c03_g p \/ (c03_g p = c03_g q /\ (c03_attr q <= c03_attr p)%N)).
Proof.
  destruct (c03_ltb p q) eqn:E.
  - apply c03_ltb_true_iff in E. split; [discriminate|]. lia.
  - split; auto. intros _.
    assert (H : ~ (c03_g p < c03_g q \/ (c03_g p = c03_g q /\ (c03_attr p < c03_attr q)%N))).
    { intro H. apply c03_ltb_true_iff in H. congruence. }
    lia.
Qed.

Lemma c03_ltb_trans p q r : c03_ltb p q = true -> c03_ltb q r = true -> c03_ltb p r = true.
Proof. rewrite !c03_ltb_true_iff. lia. Qed.
Lemma c03_ltb_asym p q : c03_ltb p q = true -> c03_ltb q p = false.
Proof. rewrite c03_ltb_true_iff, c03_ltb_false_iff. lia. Qed.
Lemma c03_lt_le_trans p q r : c03_ltb p q = true -> c03_ltb r q = false -> c03_ltb p r = true.
Proof. rewrite !c03_ltb_true_iff, c03_ltb_false_iff. lia. Qed.
Lemma c03_le_trans p q r : c03_key_le p q -> c03_key_le q r -> c03_key_le p r.
Proof. unfold c03_key_le. rewrite !c03_ltb_false_iff. lia. Qed.
Lemma c03_le_g p q : c03_key_le p q -> c03_g p <= c03_g q.
Proof. unfold c03_key_le. rewrite c03_ltb_false_iff. lia. Qed.

(* ------------------------------------------------------------------ insertion sort *)
Lemma c03_insert_perm x l : Permutation (c03_insert x l) (x :: l).
Proof.
  induction l as [|y r IH]; simpl; auto.
  destruct (c03_ltb y x); auto.
  rewrite IH. apply perm_swap.
Qed.
Lemma c03_sort_perm l : Permutation (c03_sort l) l.
Proof.
  induction l as [|x r IH]; simpl; auto.
  rewrite c03_insert_perm. auto.
Qed.
Lemma c03_sort_length l : length (c03_sort l) = length l.
Proof. apply Permutation_length, c03_sort_perm. Qed.

Lemma c03_insert_hd x l : exists t, c03_insert x l = x :: t \/ (exists y r, l = y :: r /\ c03_ltb y x = true /\ c03_insert x l = y :: t).
Proof.
  destruct l as [|y r]; simpl.
  - exists []. auto.
  - destruct (c03_ltb y x) eqn:E.
    + exists (c03_insert x r). right. exists y, r. auto.
    + exists (y :: r). auto.
Qed.

Lemma c03_insert_sorted x l : Sorted c03_key_le l -> Sorted c03_key_le (c03_insert x l).
Proof.
  induction l as [|y r IH]; simpl; intros S.
  - repeat constructor.
  - inversion S as [|? ? Sr Hr]; subst.
    destruct (c03_ltb y x) eqn:E.
    + constructor; auto.
      destruct r as [|z r']; simpl.
      * constructor. unfold c03_key_le. apply c03_ltb_asym; auto.
      * destruct (c03_ltb z x) eqn:E2.
        -- constructor. inversion Hr; auto.
        -- constructor. unfold c03_key_le. apply c03_ltb_asym; auto.
    + constructor; auto.
Qed.
Lemma c03_sort_sorted l : Sorted c03_key_le (c03_sort l).
Proof. induction l; simpl; [constructor | apply c03_insert_sorted; auto]. Qed.

Lemma c03_sort_id l : Sorted c03_key_le l -> c03_sort l = l.
Proof.
  induction l as [|x r IH]; simpl; auto. intros S. inversion S as [|? ? Sr Hr]; subst.
  rewrite IH by auto. destruct r as [|y r']; simpl; auto.
  inversion Hr as [|? ? Hxy]; subst. unfold c03_key_le in Hxy. rewrite Hxy. auto.
Qed.

Lemma c03_sorted_strong l : Sorted c03_key_le l -> StronglySorted c03_key_le l.
Proof. apply Sorted_StronglySorted. intros p q r. apply c03_le_trans. Qed.

Lemma c03_filter_sorted f l : Sorted c03_key_le l -> Sorted c03_key_le (filter f l).
Proof.
  intros S. apply c03_sorted_strong in S. apply StronglySorted_Sorted.
  induction S as [|x r Sr IH Hx]; simpl; [constructor|].
  destruct (f x); auto. constructor; auto.
  rewrite Forall_forall in *. intros y Hy. apply filter_In in Hy. apply Hx. tauto.
Qed.

(* insert commutes for strictly ordered keys *)
Lemma c03_insert_comm x y l : c03_ltb y x = true -> c03_insert y (c03_insert x l) = c03_insert x (c03_insert y l).
Proof.
  intros Hyx. induction l as [|z r IH]; simpl.
  - rewrite (c03_ltb_asym _ _ Hyx), Hyx. auto.
  - destruct (c03_ltb z x) eqn:Ezx, (c03_ltb z y) eqn:Ezy; simpl; rewrite ?Ezx, ?Ezy, ?Hyx, ?(c03_ltb_asym _ _ Hyx); simpl; rewrite ?Ezx, ?Ezy; auto.
    + rewrite IH. auto.
    + rewrite (c03_ltb_trans _ _ _ Ezy Hyx) in Ezx. discriminate.
Qed.

Lemma c03_fold_insert_insert l x s :
  fold_right c03_insert l (c03_insert x s) = c03_insert x (fold_right c03_insert l s).
Proof.
  induction s as [|y s' IH]; simpl; auto.
  destruct (c03_ltb y x) eqn:E; simpl; auto.
  rewrite IH. apply c03_insert_comm; auto.
Qed.
(* stable: inserting a batch in its original order or in sorted order gives the same list *)
Lemma c03_fold_insert_sort l n : fold_right c03_insert l (c03_sort n) = fold_right c03_insert l n.
Proof.
  induction n as [|x n' IH]; simpl; auto.
  rewrite c03_fold_insert_insert, IH. auto.
Qed.

(* ------------------------------------------------------------------ the three-way merge *)
(* pure two-way merge (ties: the added pair first), used only in proofs *)
Fixpoint c03p_merge (o : list c03_pair) : list c03_pair -> list c03_pair :=
  fix inner (s : list c03_pair) : list c03_pair :=
    match o, s with
    | [], _ => s
    | _, [] => o
    | x :: o', a :: s' => if c03_ltb x a then x :: c03p_merge o' s else a :: inner s'
    end.

Lemma c03p_merge_nil_l s : c03p_merge [] s = s.
Proof. destruct s; auto. Qed.
Lemma c03p_merge_nil_r o : c03p_merge o [] = o.
Proof. destruct o; auto. Qed.
Lemma c03p_merge_cons x o a s :
  c03p_merge (x :: o) (a :: s) = if c03_ltb x a then x :: c03p_merge o (a :: s) else a :: c03p_merge (x :: o) s.
Proof. reflexivity. Qed.

Lemma c03_merge_rest_old_filter old : c03_merge_rest_old old = filter c03s_valid old.
Proof.
  induction old as [|o r IH]; simpl; auto. unfold c03s_valid at 1.
  destruct (c03_del o); simpl; rewrite IH; auto.
Qed.

Lemma c03_merge_loop_pure fuel : forall old added,
  (length old + length added <= fuel)%nat ->
  c03_merge_loop fuel old added = Some (c03p_merge (filter c03s_valid old) added).
Proof.
  induction fuel as [|f IH]; intros old added Hf.
  - destruct old, added; simpl in *; try lia. auto.
  - destruct old as [|o old']; [simpl; rewrite c03p_merge_nil_l; auto|].
    destruct added as [|a added'].
    + change (c03_merge_loop (S f) (o :: old') []) with (Some (c03_merge_rest_old (o :: old'))).
      rewrite c03_merge_rest_old_filter, c03p_merge_nil_r. auto.
    + simpl c03_merge_loop. simpl in Hf. simpl filter. unfold c03s_valid at 1.
      destruct (c03_del o) eqn:Ed; simpl negb; cbv iota.
      * apply IH. simpl. lia.
      * rewrite c03p_merge_cons. destruct (c03_ltb o a) eqn:El.
        -- rewrite IH by (simpl; lia). auto.
        -- rewrite IH by (simpl; lia). simpl filter. unfold c03s_valid at 1. rewrite Ed. auto.
Qed.

Lemma c03p_merge_insert o : forall a s, Sorted c03_key_le (a :: s) ->
  c03p_merge o (a :: s) = c03_insert a (c03p_merge o s).
Proof.
  induction o as [|x o IH]; intros a s S.
  - rewrite !c03p_merge_nil_l. inversion S as [|? ? Ss Hs]; subst.
    destruct s as [|b s']; simpl; auto. inversion Hs as [|? ? Hab]; subst. unfold c03_key_le in Hab. rewrite Hab. auto.
  - rewrite c03p_merge_cons. destruct (c03_ltb x a) eqn:E.
    + rewrite IH by auto. inversion S as [|? ? Ss Hs]; subst.
      destruct s as [|b s'].
      * rewrite !c03p_merge_nil_r. simpl. rewrite E. auto.
      * rewrite c03p_merge_cons. inversion Hs as [|? ? Hab]; subst. unfold c03_key_le in Hab.
        rewrite (c03_lt_le_trans _ _ _ E Hab). simpl. rewrite E. auto.
    + inversion S as [|? ? Ss Hs]; subst.
      destruct s as [|b s'].
      * rewrite c03p_merge_nil_r. simpl. rewrite E. auto.
      * rewrite c03p_merge_cons. inversion Hs as [|? ? Hab]; subst. unfold c03_key_le in Hab.
        destruct (c03_ltb x b); simpl; rewrite ?E, ?Hab; auto.
Qed.

Lemma c03p_merge_fold o s : Sorted c03_key_le s -> c03p_merge o s = fold_right c03_insert o s.
Proof.
  induction s as [|a s IH]; intros S.
  - apply c03p_merge_nil_r.
  - rewrite c03p_merge_insert by auto. simpl. rewrite IH; auto. inversion S; auto.
Qed.

Lemma c03_sort_app n o : c03_sort (n ++ o) = fold_right c03_insert (c03_sort o) n.
Proof. unfold c03_sort. apply fold_right_app. Qed.

(* endResize: what merge() computes is  sort(new ++ not-deleted old) *)
Lemma c03_merge_spec local fresh deleted :
  Sorted c03_key_le local ->
  (deleted = false -> forallb c03s_valid local = true) ->
  c03_merge local (c03_sort fresh) deleted = Some (c03_sort (fresh ++ filter c03s_valid local)).
Proof.
  intros S Hd. unfold c03_merge.
  destruct local as [|p local'].
  - simpl. rewrite app_nil_r. auto.
  - remember (p :: local') as local. replace (length local =? 0)%nat with false by (subst; auto).
    destruct (negb (length (c03_sort fresh) =? 0)%nat || deleted) eqn:E.
    + rewrite c03_merge_loop_pure by lia.
      rewrite c03p_merge_fold by apply c03_sort_sorted.
      rewrite c03_fold_insert_sort, c03_sort_app.
      rewrite (c03_sort_id (filter c03s_valid local)) by (apply c03_filter_sorted; auto). auto.
    + apply orb_false_iff in E. destruct E as [E1 E2]. apply negb_false_iff, Nat.eqb_eq in E1.
      rewrite c03_sort_length in E1. destruct fresh; [|discriminate]. simpl app.
      assert (Hf : filter c03s_valid local = local).
      { specialize (Hd E2). clear - Hd. induction local as [|q r IH]; simpl in *; auto.
        apply andb_true_iff in Hd. destruct Hd as [Hq Hr]. rewrite Hq, IH; auto. }
      rewrite Hf, c03_sort_id; auto.
Qed.

(* ------------------------------------------------------------------ binary search *)
Definition c03_gsorted (l : list c03_pair) : Prop :=
  forall i j p q, (i <= j)%nat -> nth_error l i = Some p -> nth_error l j = Some q -> c03_g p <= c03_g q.

Lemma c03_sorted_gsorted l : Sorted c03_key_le l -> c03_gsorted l.
Proof.
  intros S. apply c03_sorted_strong in S. induction S as [|x r Sr IH Hx]; intros i j p q Hij Hi Hj.
  - destruct i; discriminate.
  - destruct i as [|i'], j as [|j']; simpl in *; try lia.
    + inversion Hi; inversion Hj; subst. lia.
    + inversion Hi; subst. apply nth_error_In in Hj. rewrite Forall_forall in Hx. apply c03_le_g, Hx, Hj.
    + apply (IH i' j' p q); auto; lia.
Qed.

Definition c03_size_ok (l : list c03_pair) : Prop := Z.of_nat (length l) <= 2 ^ 30.

Lemma c03_bs_loop_correct l g : c03_gsorted l -> c03_size_ok l ->
  forall fuel low high probe,
    0 <= low <= high -> high < Z.of_nat (length l) -> high - low < Z.of_nat fuel ->
    (forall i p, Z.of_nat i < low -> nth_error l i = Some p -> c03_g p < g) ->
    (high = Z.of_nat (length l) - 1 \/ forall p, nth_error l (Z.to_nat high) = Some p -> g <= c03_g p) ->
    exists low' probe', c03_bs_loop fuel l g low high probe = C03BS low' probe' /\
      0 <= low' < Z.of_nat (length l) /\
      (forall i p, Z.of_nat i < low' -> nth_error l i = Some p -> c03_g p < g) /\
      (low' = Z.of_nat (length l) - 1 \/ forall p, nth_error l (Z.to_nat low') = Some p -> g <= c03_g p) /\
      (low < high -> 0 <= probe') /\ (~ low < high -> probe' = probe).
Proof.
  intros GS SZ. unfold c03_size_ok in SZ. induction fuel as [|f IH]; intros low high probe Hlh Hhn Hfuel Hpre Hpost.
  - simpl in Hfuel. lia.
  - simpl c03_bs_loop. destruct (low <? high) eqn:Elh.
    + apply Z.ltb_lt in Elh.
      assert (Hov : (high + low >? c03_int_max) = false).
      { rewrite Z.gtb_ltb. apply Z.ltb_ge. unfold c03_int_max. change (2^30) with 1073741824 in SZ. lia. }
      rewrite Hov. rewrite Z.quot_div_nonneg by lia.
      set (pr := (high + low) / 2).
      assert (Hpr : low <= pr < high).
      { unfold pr. split; [apply Z.div_le_lower_bound; lia | apply Z.div_lt_upper_bound; lia]. }
      destruct (nth_error l (Z.to_nat pr)) as [p|] eqn:Ep.
      2:{ apply nth_error_None in Ep. lia. }
      destruct (g <=? c03_g p) eqn:Eg.
      * apply Z.leb_le in Eg.
        destruct (IH low pr pr) as (low' & probe' & H1 & H2 & H3 & H4 & H5 & H6); try lia; auto.
        { right. intros p' Hp'. rewrite Ep in Hp'. inversion Hp'; subst. auto. }
        exists low', probe'. split; [auto|]. split; [lia|]. split; [auto|]. split; [auto|]. split; [|lia].
        intros _. destruct (Z.lt_ge_cases low pr); [auto | rewrite H6; lia].
      * apply Z.leb_gt in Eg.
        destruct (IH (pr + 1) high pr) as (low' & probe' & H1 & H2 & H3 & H4 & H5 & H6); try lia; auto.
        { intros i q Hi Hq. assert (c03_g q <= c03_g p); [|lia].
          eapply (GS i (Z.to_nat pr)); eauto. lia. }
        exists low', probe'. split; [auto|]. split; [lia|]. split; [auto|]. split; [auto|]. split; [|lia].
        intros _. destruct (Z.lt_ge_cases (pr + 1) high); [auto | rewrite H6; lia].
    + apply Z.ltb_ge in Elh. assert (low = high) by lia. subst high.
      exists low, probe. split; [auto|]. split; [lia|]. split; [auto|]. split; [auto|]. split; [lia|auto].
Qed.

Lemma c03_search_correct l g : c03_gsorted l -> c03_size_ok l -> l <> [] ->
  exists low probe p, c03_search l g = C03BS (Z.of_nat low) probe /\ nth_error l low = Some p /\
    (forall i q, (i < low)%nat -> nth_error l i = Some q -> c03_g q < g) /\
    (S low = length l \/ g <= c03_g p) /\
    ((2 <= length l)%nat -> 0 <= probe) /\ (length l = 1%nat -> probe = -1).
Proof.
  intros GS SZ Hne. unfold c03_search, c03_param_low_init, c03_param_probe_init.
  assert (Hlen : (1 <= length l)%nat) by (destruct l; simpl; [congruence | lia]).
  assert (Hov : (Z.of_nat (length l) - 1 >? c03_int_max) = false).
  { rewrite Z.gtb_ltb. apply Z.ltb_ge. unfold c03_int_max, c03_size_ok in *. change (2^30) with 1073741824 in SZ. lia. }
  rewrite Hov.
  destruct (c03_bs_loop_correct l g GS SZ (S (length l)) 0 (Z.of_nat (length l) - 1) (-1))
    as (low' & probe' & H1 & H2 & H3 & H4 & H5 & H6); try lia; auto.
  destruct (nth_error l (Z.to_nat low')) as [p|] eqn:Ep.
  2:{ apply nth_error_None in Ep. lia. }
  exists (Z.to_nat low'), probe', p. rewrite Z2Nat.id by lia. repeat split; auto.
  - intros i q Hi. apply H3. lia.
  - destruct H4 as [H4|H4]; [left; lia | right; auto].
  - intros. apply H5. lia.
  - intros. apply H6. lia.
Qed.

(* the two spellings of the comparison in the five copies of the search are the same function *)
Lemma c03_bs_loop_nc_eq fuel l g : forall low high probe,
  c03_bs_loop_nc fuel l g low high probe = c03_bs_loop fuel l g low high probe.
Proof.
  induction fuel as [|f IH]; intros low high probe; simpl; auto.
  destruct (low <? high); auto. destruct (high + low >? c03_int_max); auto.
  destruct (nth_error l (Z.to_nat (Z.quot (high + low) 2))) as [p|]; auto.
  rewrite Z.geb_leb, !IH. auto.
Qed.
Lemma c03_search_nc_eq l g : c03_search_nc l g = c03_search l g.
Proof. unfold c03_search_nc, c03_search. rewrite c03_bs_loop_nc_eq. auto. Qed.
Lemma c03_at_c_eq legacy l g : c03_at_c legacy l g = c03_at legacy l g.
Proof.
  unfold c03_at_c, c03_at. rewrite c03_search_nc_eq. destruct (c03_search l g); auto.
  destruct (c03_no_entries legacy l probe); auto. destruct (nth_error l (Z.to_nat low)); auto.
  destruct (c03_g c =? g); auto.
Qed.
Lemma c03_get_c_eq l g : c03_get_c l g = c03_get l g.
Proof. unfold c03_get_c, c03_get. rewrite c03_search_nc_eq. auto. Qed.

Lemma c03_find_first (f : c03_pair -> bool) l : forall k p, nth_error l k = Some p -> f p = true ->
  (forall i q, (i < k)%nat -> nth_error l i = Some q -> f q = false) -> find f l = Some p.
Proof.
  induction l as [|x r IH]; intros k p Hk Hp Hpre; [destruct k; discriminate|].
  destruct k as [|k']; simpl in *.
  - inversion Hk; subst. rewrite Hp. auto.
  - rewrite (Hpre 0%nat x) by (auto; lia). apply (IH k'); auto.
    intros i q Hi Hq. apply (Hpre (S i)); auto. lia.
Qed.
Lemma c03_find_none (f : c03_pair -> bool) l : (forall q, In q l -> f q = false) -> find f l = None.
Proof.
  induction l as [|x r IH]; simpl; auto. intros H. rewrite (H x) by auto. apply IH. auto.
Qed.
Lemma c03_existsb_find (f : c03_pair -> bool) l :
  existsb f l = match find f l with Some _ => true | None => false end.
Proof. induction l as [|x r IH]; simpl; auto. destruct (f x); auto. Qed.

Lemma c03_find_at l g low p : c03_gsorted l -> nth_error l low = Some p ->
  (forall i q, (i < low)%nat -> nth_error l i = Some q -> c03_g q < g) ->
  (S low = length l \/ g <= c03_g p) ->
  find (c03s_has g) l = if c03_g p =? g then Some p else None.
Proof.
  intros GS Hp Hpre Hpost. destruct (c03_g p =? g) eqn:E.
  - apply (c03_find_first _ l low); auto.
    intros i q Hi Hq. unfold c03s_has. apply Z.eqb_neq. specialize (Hpre i q Hi Hq). lia.
  - apply Z.eqb_neq in E. apply c03_find_none. intros q Hq. unfold c03s_has. apply Z.eqb_neq.
    apply In_nth_error in Hq. destruct Hq as [j Hj].
    destruct (lt_eq_lt_dec j low) as [[Hlt|Heq]|Hgt].
    + specialize (Hpre j q Hlt Hj). lia.
    + subst. rewrite Hp in Hj. inversion Hj; subst. auto.
    + destruct Hpost as [Hlast|Hge].
      * assert (j < length l)%nat by (apply nth_error_Some; congruence). lia.
      * assert (c03_g p <= c03_g q) by (eapply (GS low j); eauto; lia). lia.
Qed.

(* the lookups of the (fixed) model are plain finds: every size, including 0 and 1 *)
Lemma c03_exists_correct l g : c03_gsorted l -> c03_size_ok l ->
  c03_exists false l g = C03Bool (existsb (c03s_has g) l).
Proof.
  intros GS SZ. destruct l as [|x r] eqn:El; [reflexivity|]. rewrite <- El in *.
  destruct (c03_search_correct l g GS SZ) as (low & probe & p & H1 & H2 & H3 & H4 & _); [subst; discriminate|].
  unfold c03_exists. rewrite c03_search_nc_eq, H1. unfold c03_no_entries.
  replace (length l =? 0)%nat with false by (subst; auto).
  rewrite Nat2Z.id, H2, c03_existsb_find, (c03_find_at l g low p) by auto.
  destruct (c03_g p =? g); auto.
Qed.
Lemma c03_at_correct l g : c03_gsorted l -> c03_size_ok l ->
  c03_at false l g = match find (c03s_has g) l with Some p => C03PairOut p | None => C03RangeError end.
Proof.
  intros GS SZ. destruct l as [|x r] eqn:El; [reflexivity|]. rewrite <- El in *.
  destruct (c03_search_correct l g GS SZ) as (low & probe & p & H1 & H2 & H3 & H4 & _); [subst; discriminate|].
  unfold c03_at. rewrite c03_search_nc_eq, H1. unfold c03_no_entries.
  replace (length l =? 0)%nat with false by (subst; auto).
  rewrite Nat2Z.id, H2, (c03_find_at l g low p) by auto.
  destruct (c03_g p =? g); auto.
Qed.
Lemma c03_get_correct l g p : c03_gsorted l -> c03_size_ok l ->
  find (c03s_has g) l = Some p -> c03_get l g = C03PairOut p.
Proof.
  intros GS SZ Hf. destruct l as [|x r] eqn:El; [discriminate|]. rewrite <- El in *.
  destruct (c03_search_correct l g GS SZ) as (low & probe & p' & H1 & H2 & H3 & H4 & _); [subst; discriminate|].
  unfold c03_get. rewrite c03_search_nc_eq, H1, Nat2Z.id, H2.
  rewrite (c03_find_at l g low p') in Hf by auto. destruct (c03_g p' =? g); congruence.
Qed.
(* the legacy `probe == -1` test is right exactly when the size is not 1 *)
Lemma c03_exists_legacy_ne1 l g : c03_gsorted l -> c03_size_ok l -> length l <> 1%nat ->
  c03_exists true l g = C03Bool (existsb (c03s_has g) l) /\
  c03_at true l g = match find (c03s_has g) l with Some p => C03PairOut p | None => C03RangeError end.
Proof.
  intros GS SZ H1. destruct l as [|x r] eqn:El; [split; reflexivity|]. rewrite <- El in *.
  rewrite <- c03_exists_correct, <- c03_at_correct by auto.
  destruct (c03_search_correct l g GS SZ) as (low & probe & p & Hs & H2 & H3 & H4 & H5 & _); [subst; discriminate|].
  assert (Hp : 0 <= probe). { apply H5. subst. simpl in *. destruct r; simpl in *; [congruence | lia]. }
  unfold c03_exists, c03_at. rewrite c03_search_nc_eq, Hs. unfold c03_no_entries.
  replace (probe =? -1) with false by (symmetry; apply Z.eqb_neq; lia).
  replace (length l =? 0)%nat with false by (subst; auto). auto.
Qed.

(* ------------------------------------------------------------------ key-preserving updates keep the order *)
Definition c03_same_key (p q : c03_pair) : Prop := c03_g p = c03_g q /\ c03_attr p = c03_attr q.
Lemma c03_ltb_same_key p p' q q' : c03_same_key p p' -> c03_same_key q q' -> c03_ltb p q = c03_ltb p' q'.
Proof. unfold c03_same_key, c03_ltb. intros [-> ->] [-> ->]. auto. Qed.

Lemma c03_sorted_forall2 l l' : Forall2 c03_same_key l l' -> Sorted c03_key_le l -> Sorted c03_key_le l'.
Proof.
  induction 1 as [|x x' r r' Hx Hr IH]; intros S; [constructor|].
  inversion S as [|? ? Sr Hd]; subst. constructor; auto.
  destruct Hr as [|y y' r0 r0' Hy Hr0]; constructor.
  inversion Hd as [|? ? Hxy]; subst. unfold c03_key_le in *.
  rewrite <- (c03_ltb_same_key y y' x x'); auto.
Qed.

Lemma c03_mark_spec k : forall l, c03_mark k l = if (k <? length l)%nat then Some (c03s_set_nth k l) else None.
Proof.
  induction k as [|k IH]; intros [|p r]; simpl; auto.
  rewrite IH. unfold c03s_set_nth. simpl.
  change (S k <? S (length r))%nat with (k <? length r)%nat. destruct (k <? length r)%nat; auto.
Qed.
Lemma c03_set_nth_same_key k : forall l, Forall2 c03_same_key l (c03s_set_nth k l).
Proof.
  unfold c03s_set_nth. induction k as [|k IH]; intros [|p r]; simpl; try constructor.
  - split; auto.
  - clear. induction r; constructor; auto. split; auto.
  - split; auto.
  - apply IH.
Qed.
Lemma c03_forall2_length (l l' : list c03_pair) : Forall2 c03_same_key l l' -> length l = length l'.
Proof. induction 1; simpl; auto. Qed.
Lemma c03_set_nth_length k l : length (c03s_set_nth k l) = length l.
Proof. symmetry. apply c03_forall2_length, c03_set_nth_same_key. Qed.

Lemma c03_renumber_spec l : forall k,
  c03_renumber_from (N.of_nat k) l =
  map (fun ip => c03_set_loc (snd ip) (N.of_nat (fst ip))) (combine (seq k (length l)) l).
Proof.
  induction l as [|p r IH]; intros k; simpl; auto.
  rewrite <- Nat2N.inj_succ, IH. auto.
Qed.
Lemma c03_renumber_mapi l : c03_renumber_from 0%N l = c03s_mapi_loc l.
Proof. apply (c03_renumber_spec l 0). Qed.
Lemma c03_renumber_same_key l : forall i, Forall2 c03_same_key l (c03_renumber_from i l).
Proof. induction l; intros i; simpl; constructor; auto. split; auto. Qed.
Lemma c03_renumber_valid l : forall i, Forall (fun p => c03s_valid p = true) l ->
  Forall (fun p => c03s_valid p = true) (c03_renumber_from i l).
Proof. induction l; intros i H; simpl; inversion H; subst; constructor; auto. Qed.
Lemma c03_renumber_length l : forall i, length (c03_renumber_from i l) = length l.
Proof. induction l; intros; simpl; auto. Qed.

(* ------------------------------------------------------------------ the reverse table *)
Lemma c03_find_app (f : c03_pair -> bool) a b :
  find f (a ++ b) = match find f a with Some x => Some x | None => find f b end.
Proof. induction a as [|x r IH]; simpl; auto. destruct (f x); auto. Qed.

Lemma c03_tab_set_spec t : forall i v,
  (i < length t)%nat ->
  exists t', c03_tab_set t i v = Some t' /\ length t' = length t /\
    forall j, nth_error t' j = if (j =? i)%nat then Some (Some v) else nth_error t j.
Proof.
  induction t as [|x r IH]; intros i v Hi; simpl in *; [lia|].
  destruct i as [|i'].
  - eexists. split; [reflexivity|]. split; auto. intros [|j]; auto.
  - destruct (IH i' v) as (t' & H1 & H2 & H3); [lia|]. rewrite H1. simpl.
    eexists. split; [reflexivity|]. split; [simpl; lia|]. intros [|j]; simpl; auto.
Qed.

Lemma c03_tab_fill_spec l : forall t,
  Forall (fun p => (N.to_nat (c03_loc p) < length t)%nat) l ->
  exists t', c03_tab_fill t l = Some t' /\ length t' = length t /\
    forall j, nth_error t' j = match find (fun p => (N.to_nat (c03_loc p) =? j)%nat) (rev l) with
                               | Some p => Some (Some p) | None => nth_error t j end.
Proof.
  induction l as [|p r IH]; intros t H.
  - exists t. simpl. auto.
  - inversion H as [|? ? Hp Hr]; subst. simpl.
    destruct (c03_tab_set_spec t (N.to_nat (c03_loc p)) p Hp) as (t1 & E1 & L1 & N1). rewrite E1.
    destruct (IH t1) as (t' & E2 & L2 & N2); [rewrite L1; auto|].
    exists t'. split; auto. split; [lia|]. intros j. rewrite N2, c03_find_app. simpl.
    destruct (find _ (rev r)); auto. rewrite N1. rewrite (Nat.eqb_sym j). destruct (N.to_nat (c03_loc p) =? j)%nat; auto.
Qed.

Lemma c03_reverse_table_spec l sz i :
  c03s_reverse l (N.of_nat sz) i <> C03Precond ->
  c03_tab_pair (c03_tab_fill (repeat None sz) l) i = c03s_reverse l (N.of_nat sz) i.
Proof.
  unfold c03s_reverse. intros H.
  destruct (existsb (fun p => (N.of_nat sz <=? c03_loc p)%N) l) eqn:E1; [congruence|].
  destruct (N.of_nat sz <=? i)%N eqn:E2; [congruence|]. apply N.leb_gt in E2.
  destruct (c03_tab_fill_spec l (repeat None sz)) as (t' & F1 & F2 & F3).
  { rewrite repeat_length. apply Forall_forall. intros p Hp.
    destruct (N.of_nat sz <=? c03_loc p)%N eqn:E3.
    - assert (existsb (fun p => (N.of_nat sz <=? c03_loc p)%N) l = true) by (apply existsb_exists; eauto). congruence.
    - apply N.leb_gt in E3. lia. }
  rewrite F1. unfold c03_tab_pair. rewrite F3.
  assert (Hf : find (fun p => (N.to_nat (c03_loc p) =? N.to_nat i)%nat) (rev l) = find (fun p => (c03_loc p =? i)%N) (rev l)).
  { generalize (rev l). intros m. induction m as [|q m IH]; simpl; auto. rewrite IH.
    replace (N.to_nat (c03_loc q) =? N.to_nat i)%nat with (c03_loc q =? i)%N; auto.
    destruct (N.eqb_spec (c03_loc q) i); [subst; symmetry; apply Nat.eqb_refl|].
    symmetry. apply Nat.eqb_neq. lia. }
  rewrite Hf. destruct (find _ (rev l)); auto.
  rewrite (nth_error_repeat None) by lia. auto.
Qed.

Lemma c03_reverse_spec l i :
  c03s_reverse l (N.succ (c03_max_loc l)) i <> C03Precond ->
  c03_reverse l i = c03s_reverse l (N.succ (c03_max_loc l)) i.
Proof.
  intros H. unfold c03_reverse.
  replace (N.succ (c03_max_loc l)) with (N.of_nat (S (N.to_nat (c03_max_loc l)))) in * by lia.
  apply c03_reverse_table_spec; auto.
Qed.
Lemma c03_reverse_sized_spec l sz i :
  c03s_reverse l sz i <> C03Precond -> c03_reverse_sized l sz i = c03s_reverse l sz i.
Proof.
  intros H. unfold c03_reverse_sized.
  pose proof (c03_reverse_table_spec l (N.to_nat sz) i) as T. rewrite N2Nat.id in T. auto.
Qed.


(* ------------------------------------------------------------------ write through at(), set equality, comparisons *)
Lemma c03_upd_nth_first g v : forall l low p,
  nth_error l low = Some p -> c03s_has g p = true ->
  (forall i q, (i < low)%nat -> nth_error l i = Some q -> c03s_has g q = false) ->
  c03_upd_nth low v l = c03s_set_first g v l.
Proof.
  induction l as [|x r IH]; intros low p Hn Hp Hpre; [destruct low; discriminate|].
  destruct low as [|low']; simpl in *.
  - inversion Hn; subst. rewrite Hp. auto.
  - rewrite (Hpre 0%nat x) by (auto; lia). f_equal. apply (IH low' p); auto.
    intros i q Hi Hq. apply (Hpre (S i)); auto. lia.
Qed.

Lemma c03_setlocal_correct l g v : c03_gsorted l -> c03_size_ok l ->
  c03_setlocal false l g v =
  match find (c03s_has g) l with Some _ => (c03s_set_first g v l, C03Ok) | None => (l, C03RangeError) end.
Proof.
  intros GS SZ. destruct l as [|x r] eqn:El; [reflexivity|]. rewrite <- El in *.
  destruct (c03_search_correct l g GS SZ) as (low & probe & p & H1 & H2 & H3 & H4 & _); [subst; discriminate|].
  unfold c03_setlocal. rewrite c03_search_nc_eq, H1. unfold c03_no_entries.
  replace (length l =? 0)%nat with false by (subst; auto).
  rewrite Nat2Z.id, H2, (c03_find_at l g low p) by auto.
  destruct (c03_g p =? g) eqn:E; auto.
  rewrite (c03_upd_nth_first g v l low p); auto.
  intros i q Hi Hq. unfold c03s_has. apply Z.eqb_neq. specialize (H3 i q Hi Hq). lia.
Qed.

Lemma c03_set_first_same_key g v l : Forall2 c03_same_key l (c03s_set_first g v l).
Proof.
  assert (R : forall m : list c03_pair, Forall2 c03_same_key m m) by (induction m; constructor; auto; split; auto).
  induction l as [|p r IH]; simpl; [constructor|].
  destruct (c03s_has g p); constructor; auto; split; auto.
Qed.

Lemma c03_set_eq_all2 l l1 : c03_set_eq l l1 = c03s_all2 l l1.
Proof.
  unfold c03_set_eq. destruct (length l =? length l1)%nat eqn:E; simpl.
  - apply Nat.eqb_eq in E. revert l1 E. induction l as [|p r IH]; intros [|q r1] E; simpl in *; try lia; auto.
    unfold c03s_same_entry, c03_local_neq. rewrite (Z.eqb_sym (c03_g q)).
    destruct (c03_g p =? c03_g q); simpl; auto.
    destruct (c03_loc p =? c03_loc q)%N; simpl; auto.
    destruct (c03_attr p =? c03_attr q)%N; simpl; auto.
    destruct (Bool.eqb (c03_pub p) (c03_pub q)); simpl; auto.
  - apply Nat.eqb_neq in E. revert l1 E. induction l as [|p r IH]; intros [|q r1] E; simpl in *; try lia; auto.
    rewrite <- IH by lia. symmetry. apply andb_false_r.
Qed.

Lemma c03_all2_strip l l1 : c03s_all2 l l1 = true <-> map c03s_strip l = map c03s_strip l1.
Proof.
  revert l1. induction l as [|p r IH]; intros [|q r1]; simpl; split; intros H; try discriminate; auto.
  - apply andb_true_iff in H. destruct H as [H1 H2]. apply IH in H2. rewrite H2. f_equal.
    unfold c03s_same_entry in H1. repeat (apply andb_true_iff in H1; destruct H1 as [H1 ?]).
    apply Z.eqb_eq in H1. apply N.eqb_eq in H0, H3. apply Bool.eqb_prop in H. unfold c03s_strip. congruence.
  - inversion H as [[H1 H2 H3 H4 H5]]. apply andb_true_iff. split; [|apply IH; auto].
    unfold c03s_same_entry. rewrite H1, H2, H3, H4, Z.eqb_refl, !N.eqb_refl, Bool.eqb_reflx. auto.
Qed.

Lemma c03_set_eq_strip_lemma l l1 : c03_set_eq l l1 = true <-> map c03s_strip l = map c03s_strip l1.
Proof. rewrite c03_set_eq_all2. apply c03_all2_strip. Qed.

(* ------------------------------------------------------------------ invariant and simulation (checking enabled) *)
Definition c03_all_valid (l : list c03_pair) : Prop := Forall (fun p => c03s_valid p = true) l.

Record c03_inv (b : nat) (ms : c03_state) : Prop := C03Inv {
  c03_inv_sorted : Sorted c03_key_le (c03_local ms);
  c03_inv_fresh : c03_all_valid (c03_fresh ms);
  c03_inv_ground : c03_resize ms = false -> c03_all_valid (c03_local ms);
  c03_inv_flag : c03_deleted ms = false -> c03_all_valid (c03_local ms);
  c03_inv_size : (length (c03_local ms) + length (c03_fresh ms) <= b)%nat }.

Definition c03_rel (ms : c03_state) (ss : c03_sstate) : Prop :=
  c03_resize ms = c03s_resize ss /\ c03_local ms = c03s_set ss /\ c03_fresh ms = c03s_new ss /\ c03_seq ms = c03s_seq ss.

Lemma c03_all_valid_forallb l : c03_all_valid l -> forallb c03s_valid l = true.
Proof. intros H. apply forallb_forall. apply Forall_forall. auto. Qed.
Lemma c03_filter_length (f : c03_pair -> bool) l : (length (filter f l) <= length l)%nat.
Proof. induction l; simpl; auto. destruct (f a); simpl; lia. Qed.
Lemma c03_filter_all_valid l : c03_all_valid (filter c03s_valid l).
Proof. apply Forall_forall. intros p Hp. apply filter_In in Hp. tauto. Qed.

Lemma c03_set_first_valid g v l : c03_all_valid l -> c03_all_valid (c03s_set_first g v l).
Proof.
  unfold c03_all_valid. induction 1 as [|p r Hp Hr IH]; simpl; [constructor|].
  destruct (c03s_has g p); constructor; auto.
Qed.
Lemma c03_set_first_length g v l : length (c03s_set_first g v l) = length l.
Proof. symmetry. apply c03_forall2_length, c03_set_first_same_key. Qed.

Lemma c03_init_inv : c03_inv 0 c03_init.
Proof. constructor; simpl; try constructor; intros; constructor. Qed.
Lemma c03_init_rel : c03_rel c03_init c03s_init.
Proof. repeat split. Qed.
Lemma c03_inv_mono b b' ms : (b <= b')%nat -> c03_inv b ms -> c03_inv b' ms.
Proof. intros Hb [H1 H2 H3 H4 H5]. constructor; auto. lia. Qed.

Lemma c03_step_sim b ms ss op :
  c03_rel ms ss -> c03_inv b ms -> Z.of_nat b <= 2 ^ 30 ->
  snd (c03_spec_step ss op) <> C03Precond ->
  snd (c03_step true false ms op) = snd (c03_spec_step ss op) /\
  c03_rel (fst (c03_step true false ms op)) (fst (c03_spec_step ss op)) /\
  c03_inv (if c03_is_add op then S b else b) (fst (c03_step true false ms op)).
Proof.
  intros R I B D.
  destruct ms as [rz local fresh sq dl], ss as [rz' set new sq'].
  destruct R as (R1 & R2 & R3 & R4); simpl in R1, R2, R3, R4; subst rz' set new sq'.
  destruct I as [I1 I2 I3 I4 I5]; simpl in I1, I2, I3, I4, I5.
  assert (GS : c03_gsorted local) by (apply c03_sorted_gsorted; auto).
  assert (SZ : c03_size_ok local) by (unfold c03_size_ok; lia).
  destruct op; simpl c03_is_add; cbv iota.
  - (* beginResize *)
    simpl. destruct rz; simpl.
    + split; auto. split; [repeat split|]. constructor; auto.
    + split; auto. split; [repeat split|]. constructor; simpl; auto.
  - (* add *)
    simpl. destruct rz; simpl.
    + split; auto. split; [repeat split|]. constructor; simpl; auto; try (intros; discriminate).
      all: try solve [unfold c03_all_valid; apply Forall_app; split; auto; repeat constructor].
      all: try solve [rewrite app_length; simpl; lia].
    + split; auto. split; [repeat split|]. constructor; simpl; auto.
  - (* markAsDeleted *)
    simpl in *. destruct rz; simpl in *.
    + rewrite c03_mark_spec. destruct (k <? length local)%nat eqn:Ek; simpl in *; [|congruence].
      split; auto. split; [repeat split|]. constructor; simpl; auto; try (intros; discriminate).
      all: try solve [eapply c03_sorted_forall2; [apply c03_set_nth_same_key | auto]].
      all: try solve [rewrite c03_set_nth_length; auto].
    + split; auto. split; [repeat split|]. constructor; auto.
  - (* endResize *)
    simpl. destruct rz; simpl.
    + rewrite c03_merge_spec; auto.
      2:{ intros Hd. apply c03_all_valid_forallb. auto. }
      simpl. split; auto. split; [repeat split|].
      assert (V : c03_all_valid (c03_sort (fresh ++ filter c03s_valid local))).
      { unfold c03_all_valid. eapply Permutation_Forall; [symmetry; apply c03_sort_perm|].
        apply Forall_app. split; auto. apply c03_filter_all_valid. }
      constructor; simpl; auto; try (intros; discriminate).
      all: try solve [apply c03_sort_sorted].
      all: try solve [constructor].
      all: try solve [rewrite c03_sort_length, app_length; pose proof (c03_filter_length c03s_valid local); lia].
    + split; auto. split; [repeat split|]. constructor; auto.
  - (* renumberLocal *)
    simpl. destruct rz; simpl.
    + split; auto. split; [repeat split|]. constructor; auto.
    + split; auto. split; [repeat split; apply c03_renumber_mapi|]. constructor; simpl; auto; try (intros; discriminate).
      all: try solve [eapply c03_sorted_forall2; [apply c03_renumber_same_key | auto]].
      all: try solve [unfold c03_all_valid in *; intros; apply c03_renumber_valid; auto].
      all: try solve [rewrite c03_renumber_length; auto].
  - (* exists *) simpl. split; [apply c03_exists_correct; auto|]. split; [repeat split|]. constructor; auto.
  - (* at *) simpl. split; [apply c03_at_correct; auto|]. split; [repeat split|]. constructor; auto.
  - (* operator[] *)
    simpl in *. destruct (find (c03s_has g) local) eqn:Ef; [|congruence].
    split; [apply c03_get_correct; auto|]. split; [repeat split|]. constructor; auto.
  - simpl. split; auto. split; [repeat split|]. constructor; auto.
  - simpl. split; auto. split; [repeat split|]. constructor; auto.
  - simpl. split; auto. split; [repeat split|]. constructor; auto.
  - simpl. split; auto. split; [repeat split|]. constructor; auto.
  - (* reverse *) simpl in *. split; [apply c03_reverse_spec; auto|]. split; [repeat split|]. constructor; auto.
  - (* reverse, sized *) simpl in *. split; [apply c03_reverse_sized_spec; auto|]. split; [repeat split|]. constructor; auto.
  - (* at(g).setLocal(v) *)
    simpl in *. rewrite c03_setlocal_correct by auto.
    destruct (find (c03s_has g) local) eqn:Ef; simpl.
    + split; auto. split; [repeat split|]. constructor; simpl; auto.
      all: try solve [eapply c03_sorted_forall2; [apply c03_set_first_same_key | auto]].
      all: try solve [intros; apply c03_set_first_valid; auto].
      all: try solve [rewrite c03_set_first_length; auto].
    + split; auto. split; [repeat split|]. constructor; auto.
  - (* set == set2 *)
    simpl. unfold c03_seteq_out. rewrite c03_set_eq_all2. split; auto. split; [repeat split|]. constructor; auto.
  - (* IndexPair comparisons *)
    simpl. split; auto. split; [repeat split|]. constructor; auto.
Qed.

Lemma c03_run_cons chk legacy st op r :
  c03_run chk legacy st (op :: r) =
  (fst (c03_run chk legacy (fst (c03_step chk legacy st op)) r),
   snd (c03_step chk legacy st op) :: snd (c03_run chk legacy (fst (c03_step chk legacy st op)) r)).
Proof. simpl. destruct (c03_step chk legacy st op). simpl. destruct (c03_run chk legacy c r). auto. Qed.
Lemma c03_spec_run_cons st op r :
  c03_spec_run st (op :: r) =
  (fst (c03_spec_run (fst (c03_spec_step st op)) r),
   snd (c03_spec_step st op) :: snd (c03_spec_run (fst (c03_spec_step st op)) r)).
Proof. simpl. destruct (c03_spec_step st op). simpl. destruct (c03_spec_run c r). auto. Qed.

Lemma c03_run_sim ops : forall b ms ss,
  c03_rel ms ss -> c03_inv b ms -> Z.of_nat (b + c03_adds ops) <= 2 ^ 30 ->
  existsb c03_is_precond (snd (c03_spec_run ss ops)) = false ->
  snd (c03_run true false ms ops) = snd (c03_spec_run ss ops) /\
  c03_rel (fst (c03_run true false ms ops)) (fst (c03_spec_run ss ops)) /\
  c03_inv (b + c03_adds ops) (fst (c03_run true false ms ops)).
Proof.
  induction ops as [|op r IH]; intros b ms ss R I B D.
  - simpl. unfold c03_adds. simpl. rewrite Nat.add_0_r. auto.
  - rewrite c03_spec_run_cons in D. simpl in D. apply orb_false_iff in D. destruct D as [D1 D2].
    assert (Hadds : c03_adds (op :: r) = ((if c03_is_add op then 1 else 0) + c03_adds r)%nat).
    { unfold c03_adds. simpl. destruct (c03_is_add op); auto. }
    destruct (c03_step_sim b ms ss op R I) as (S1 & S2 & S3).
    { rewrite Hadds in B. lia. }
    { intro E. rewrite E in D1. discriminate. }
    rewrite c03_run_cons, c03_spec_run_cons. simpl fst. simpl snd.
    destruct (IH _ _ _ S2 S3) as (T1 & T2 & T3); auto.
    { rewrite Hadds in B. destruct (c03_is_add op); lia. }
    rewrite S1, T1. split; auto. split; auto.
    replace (b + c03_adds (op :: r))%nat with ((if c03_is_add op then S b else b) + c03_adds r)%nat; auto.
    rewrite Hadds. destruct (c03_is_add op); lia.
Qed.

(* MAIN: every defined history (wrong-state calls included), checking enabled, code after fix C03-1 *)
Lemma c03_refines_spec_lemma ops :
  Z.of_nat (c03_adds ops) <= 2 ^ 30 -> c03_defined ops = true ->
  snd (c03_run true false c03_init ops) = snd (c03_spec_run c03s_init ops).
Proof.
  intros B D. unfold c03_defined in D. apply negb_true_iff in D.
  apply (c03_run_sim ops 0 c03_init c03s_init c03_init_rel c03_init_inv); auto.
Qed.

(* ------------------------------------------------------------------ the spec machine itself: sorted, content *)
Lemma c03_spec_step_sorted ss op : Sorted c03_key_le (c03s_set ss) -> Sorted c03_key_le (c03s_set (fst (c03_spec_step ss op))).
Proof.
  destruct ss as [rz set new sq]. simpl. intros S.
  destruct op; simpl; try destruct rz; simpl; auto.
  - destruct (k <? length set)%nat; simpl; auto.
    eapply c03_sorted_forall2; [apply c03_set_nth_same_key | auto].
  - apply c03_sort_sorted.
  - rewrite <- c03_renumber_mapi. eapply c03_sorted_forall2; [apply c03_renumber_same_key | auto].
  - destruct (find (c03s_has g) set); simpl; auto.
    eapply c03_sorted_forall2; [apply c03_set_first_same_key | auto].
  - destruct (find (c03s_has g) set); simpl; auto.
    eapply c03_sorted_forall2; [apply c03_set_first_same_key | auto].
Qed.
Lemma c03_spec_run_sorted_lemma ops : forall ss, Sorted c03_key_le (c03s_set ss) ->
  Sorted c03_key_le (c03s_set (fst (c03_spec_run ss ops))).
Proof.
  induction ops as [|op r IH]; intros ss S; [auto|].
  rewrite c03_spec_run_cons. simpl. apply IH, c03_spec_step_sorted, S.
Qed.
Lemma c03_spec_sorted_lemma ops : Sorted c03_key_le (c03s_set (fst (c03_spec_run c03s_init ops))).
Proof. apply c03_spec_run_sorted_lemma. constructor. Qed.

(* distinct globals: strictly ascending global index *)
Lemma c03_strict_lemma l : Sorted c03_key_le l -> NoDup (map c03_g l) -> StronglySorted c03_g_lt l.
Proof.
  intros S. apply c03_sorted_strong in S. induction S as [|x r Sr IH Hx]; intros ND; [constructor|].
  simpl in ND. inversion ND as [|? ? Hn ND']; subst. constructor; auto.
  rewrite Forall_forall in *. intros y Hy. unfold c03_g_lt.
  pose proof (c03_le_g _ _ (Hx y Hy)). assert (c03_g x <> c03_g y); [|lia].
  intro E. apply Hn. rewrite E. apply in_map. auto.
Qed.

(* a completed resize phase: the new set is a permutation of (added ++ old not marked deleted), all VALID *)
Lemma c03_endresize_content_lemma set new sq :
  let ss' := fst (c03_spec_step (C03SState true set new sq) C03End) in
  Permutation (c03s_set ss') (new ++ filter c03s_valid set) /\ c03s_resize ss' = false /\ c03s_new ss' = [] /\ c03s_seq ss' = sq + 1.
Proof. simpl. split; [apply c03_sort_perm | auto]. Qed.

(* ------------------------------------------------------------------ lookups, stated with membership *)
Lemma c03_find_unique {K} (k : c03_pair -> K) (eqb : K -> K -> bool) (eqb_ok : forall a b, eqb a b = true <-> a = b) l p :
  NoDup (map k l) -> In p l -> find (fun q => eqb (k q) (k p)) l = Some p.
Proof.
  induction l as [|x r IH]; simpl; intros ND Hin; [tauto|].
  inversion ND as [|? ? Hn ND']; subst. destruct Hin as [->|Hin].
  - replace (eqb (k p) (k p)) with true; auto. symmetry. apply eqb_ok. auto.
  - destruct (eqb (k x) (k p)) eqn:E.
    + apply eqb_ok in E. exfalso. apply Hn. rewrite E. apply in_map. auto.
    + apply IH; auto.
Qed.

Lemma c03_existsb_has_in g l : existsb (c03s_has g) l = true <-> In g (map c03_g l).
Proof.
  rewrite existsb_exists, in_map_iff. unfold c03s_has. split; intros (p & H1 & H2).
  - exists p. apply Z.eqb_eq in H2. auto.
  - exists p. split; auto. apply Z.eqb_eq. auto.
Qed.

Lemma c03_lookup_lemma l : Sorted c03_key_le l -> c03_size_ok l -> NoDup (map c03_g l) ->
  forall g,
    (c03_exists false l g = C03Bool true <-> In g (map c03_g l)) /\
    (~ In g (map c03_g l) -> c03_exists false l g = C03Bool false /\ c03_at false l g = C03RangeError) /\
    (forall p, In p l -> c03_g p = g -> c03_at false l g = C03PairOut p /\ c03_get l g = C03PairOut p).
Proof.
  intros S SZ ND g. pose proof (c03_sorted_gsorted l S) as GS.
  rewrite c03_exists_correct, c03_at_correct by auto. split; [|split].
  - rewrite <- c03_existsb_has_in. split; [intros H; inversion H; auto | intros ->; auto].
  - intros Hn. assert (E : existsb (c03s_has g) l = false).
    { destruct (existsb (c03s_has g) l) eqn:E; auto. apply c03_existsb_has_in in E. tauto. }
    split; [rewrite E; auto|]. rewrite c03_existsb_find in E. destruct (find (c03s_has g) l); [discriminate|auto].
  - intros p Hp Hg. subst g.
    assert (F : find (c03s_has (c03_g p)) l = Some p).
    { apply (c03_find_unique c03_g Z.eqb Z.eqb_eq); auto. }
    rewrite F. split; auto. apply c03_get_correct; auto.
Qed.

(* ------------------------------------------------------------------ seqNo, state errors, NDEBUG *)
Definition c03_is_end (op : c03_op) : bool := match op with C03End => true | _ => false end.
Definition c03_is_ok (o : c03_out) : bool := match o with C03Ok => true | _ => false end.
Definition c03_completed (ops : list c03_op) (outs : list c03_out) : nat :=
  length (filter (fun x => c03_is_end (fst x) && c03_is_ok (snd x)) (combine ops outs)).

Lemma c03_step_seq chk legacy st op :
  c03_seq (fst (c03_step chk legacy st op)) =
  c03_seq st + (if c03_is_end op && c03_is_ok (snd (c03_step chk legacy st op)) then 1 else 0).
Proof.
  destruct st as [rz local fresh sq dl]. destruct op; simpl; try lia.
  - destruct (chk && rz); simpl; lia.
  - destruct (chk && negb rz); simpl; lia.
  - destruct (chk && negb rz); simpl; try lia. destruct (c03_mark k local); simpl; lia.
  - destruct (chk && negb rz); simpl; try lia. destruct (c03_merge local (c03_sort fresh) dl); simpl; lia.
  - destruct (chk && rz); simpl; lia.
  - destruct (c03_setlocal legacy local g l); simpl; lia.
Qed.
Lemma c03_seqno_lemma chk legacy ops : forall st,
  c03_seq (fst (c03_run chk legacy st ops)) =
  c03_seq st + Z.of_nat (c03_completed ops (snd (c03_run chk legacy st ops))).
Proof.
  induction ops as [|op r IH]; intros st.
  - simpl. unfold c03_completed. simpl. lia.
  - rewrite c03_run_cons. simpl fst. simpl snd. rewrite IH, c03_step_seq.
    unfold c03_completed. simpl combine. simpl filter. simpl fst. simpl snd.
    destruct (c03_is_end op && c03_is_ok (snd (c03_step chk legacy st op))); simpl length; lia.
Qed.

Definition c03_wrong_state (st : c03_state) (op : c03_op) : bool :=
  match op with
  | C03Begin | C03Renumber => c03_resize st
  | C03Add _ _ _ _ | C03MarkDeleted _ | C03End => negb (c03_resize st)
  | _ => false
  end.
Lemma c03_state_errors_lemma legacy st op :
  c03_wrong_state st op = true -> c03_step true legacy st op = (st, C03InvalidState).
Proof. destruct st as [rz local fresh sq dl]. destruct op; simpl; intros H; try discriminate; rewrite H; auto. Qed.
Lemma c03_state_ok_lemma legacy st op :
  c03_wrong_state st op = false -> snd (c03_step true legacy st op) <> C03InvalidState.
Proof.
  destruct st as [rz local fresh sq dl]. destruct op; simpl; intros H; try rewrite H; simpl; try discriminate.
  - destruct (c03_mark k local); simpl; discriminate.
  - destruct (c03_merge local (c03_sort fresh) dl); simpl; discriminate.
  - unfold c03_exists. destruct (c03_search_nc local g); simpl; try discriminate.
    destruct (c03_no_entries legacy local probe); try discriminate. destruct (nth_error local (Z.to_nat low)); discriminate.
  - unfold c03_at. destruct (c03_search_nc local g); simpl; try discriminate.
    destruct (c03_no_entries legacy local probe); try discriminate. destruct (nth_error local (Z.to_nat low)); try discriminate.
    destruct (c03_g c =? g); discriminate.
  - unfold c03_get. destruct (c03_search_nc local g); simpl; try discriminate. destruct (nth_error local (Z.to_nat low)); discriminate.
  - unfold c03_reverse, c03_tab_pair. destruct (c03_tab_fill _ local); try discriminate.
    destruct (nth_error l0 (N.to_nat l)) as [[|]|]; discriminate.
  - unfold c03_reverse_sized, c03_tab_pair. destruct (c03_tab_fill _ local); try discriminate.
    destruct (nth_error l0 (N.to_nat l)) as [[|]|]; discriminate.
  - unfold c03_setlocal. destruct (c03_search_nc local g); simpl; try discriminate.
    destruct (c03_no_entries legacy local probe); simpl; try discriminate.
    destruct (nth_error local (Z.to_nat low)); simpl; try discriminate. destruct (c03_g c =? g); simpl; discriminate.
  - unfold c03_cmp_out. destruct (nth_error local i), (nth_error local j); discriminate.
Qed.

(* without checking (NDEBUG) a history in which no call is made in the wrong state behaves identically *)
Lemma c03_step_ndebug legacy st op :
  c03_wrong_state st op = false -> c03_step false legacy st op = c03_step true legacy st op.
Proof. destruct st as [rz local fresh sq dl]. destruct op; simpl; intros H; try rewrite H; auto. Qed.
Fixpoint c03_wellformed (st : c03_state) (ops : list c03_op) : bool :=
  match ops with
  | [] => true
  | op :: r => negb (c03_wrong_state st op) && c03_wellformed (fst (c03_step true false st op)) r
  end.
Lemma c03_ndebug_lemma ops : forall st,
  c03_wellformed st ops = true -> c03_run false false st ops = c03_run true false st ops.
Proof.
  induction ops as [|op r IH]; intros st W; auto.
  simpl in W. apply andb_true_iff in W. destruct W as [W1 W2]. apply negb_true_iff in W1.
  rewrite !c03_run_cons, (c03_step_ndebug false st op W1), IH; auto.
Qed.

(* ------------------------------------------------------------------ renumbering, reverse lookup *)
Lemma c03_renumber_nth l : forall i k p, nth_error (c03_renumber_from i l) k = Some p ->
  exists q, nth_error l k = Some q /\ p = c03_set_loc q (i + N.of_nat k)%N.
Proof.
  induction l as [|x r IH]; intros i k p H; [destruct k; discriminate|].
  destruct k as [|k']; simpl in *.
  - inversion H; subst. exists x. split; auto. f_equal. lia.
  - destruct (IH _ _ _ H) as (q & H1 & H2). exists q. split; auto. rewrite H2. f_equal. lia.
Qed.
Lemma c03_renumber_lemma st legacy :
  c03_resize st = false ->
  let st' := fst (c03_step true legacy st C03Renumber) in
  length (c03_local st') = length (c03_local st) /\
  forall k p, nth_error (c03_local st') k = Some p ->
    c03_loc p = N.of_nat k /\ exists q, nth_error (c03_local st) k = Some q /\ c03_same_key q p /\ c03_pub q = c03_pub p /\ c03_del q = c03_del p.
Proof.
  destruct st as [rz local fresh sq dl]. simpl. intros ->. simpl. split; [apply c03_renumber_length|].
  intros k p H. destruct (c03_renumber_nth _ _ _ _ H) as (q & H1 & H2). subst p. simpl. split; [lia|].
  exists q. repeat split; auto.
Qed.

Lemma c03_max_loc_ge l : forall m p, In p l -> (c03_loc p <= fold_left (fun m p => N.max m (c03_loc p)) l m)%N.
Proof.
  assert (Hmono : forall l m, (m <= fold_left (fun m p => N.max m (c03_loc p)) l m)%N).
  { induction l0 as [|x r IH]; intros m; simpl; [lia|]. specialize (IH (N.max m (c03_loc x))). lia. }
  induction l as [|x r IH]; intros m p Hin; simpl in *; [tauto|].
  destruct Hin as [->|Hin]; [|apply IH; auto].
  specialize (Hmono r (N.max m (c03_loc p))). lia.
Qed.

Lemma c03_reverse_lemma l p : NoDup (map c03_loc l) -> In p l -> c03_reverse l (c03_loc p) = C03PairOut p.
Proof.
  intros ND Hin.
  assert (E : c03s_reverse l (N.succ (c03_max_loc l)) (c03_loc p) = C03PairOut p).
  { unfold c03s_reverse.
    assert (E1 : existsb (fun q => (N.succ (c03_max_loc l) <=? c03_loc q)%N) l = false).
    { destruct (existsb _ l) eqn:E; auto. apply existsb_exists in E. destruct E as (q & Hq & Hle).
      apply N.leb_le in Hle. pose proof (c03_max_loc_ge l 0%N q Hq). unfold c03_max_loc in Hle. lia. }
    rewrite E1.
    assert (E2 : (N.succ (c03_max_loc l) <=? c03_loc p)%N = false).
    { apply N.leb_gt. pose proof (c03_max_loc_ge l 0%N p Hin). unfold c03_max_loc. lia. }
    rewrite E2.
    rewrite (c03_find_unique c03_loc N.eqb N.eqb_eq (rev l) p); auto.
    - rewrite map_rev. apply NoDup_rev. auto.
    - apply in_rev. rewrite rev_involutive. auto. }
  rewrite c03_reverse_spec; rewrite E; auto. discriminate.
Qed.

(* ================================================================== proof-deepening round *)
(* ------------------------------------------------------------------ the state invariant over ALL histories (checking enabled),
   without any definedness or size hypothesis and for both spellings of the "no entries" test *)
Lemma c03_upd_nth_same_key v : forall k l, Forall2 c03_same_key l (c03_upd_nth k v l).
Proof.
  assert (R : forall m : list c03_pair, Forall2 c03_same_key m m) by (induction m; constructor; auto; split; auto).
  induction k as [|k IH]; intros [|p r]; simpl; try constructor; auto; split; auto.
Qed.
Lemma c03_upd_nth_valid v : forall k l, c03_all_valid l -> c03_all_valid (c03_upd_nth k v l).
Proof.
  unfold c03_all_valid. induction k as [|k IH]; intros [|p r] H; simpl; auto; inversion H; subst; constructor; auto.
Qed.
Lemma c03_setlocal_shape legacy l g v :
  fst (c03_setlocal legacy l g v) = l \/ exists k, fst (c03_setlocal legacy l g v) = c03_upd_nth k v l.
Proof.
  unfold c03_setlocal. destruct (c03_search_nc l g); simpl; auto.
  destruct (c03_no_entries legacy l probe); simpl; auto.
  destruct (nth_error l (Z.to_nat low)); simpl; auto.
  destruct (c03_g c =? g); simpl; eauto.
Qed.

Lemma c03_inv_same_key b rz local local' fresh sq dl :
  Forall2 c03_same_key local local' -> (c03_all_valid local -> c03_all_valid local') ->
  c03_inv b (C03State rz local fresh sq dl) -> c03_inv b (C03State rz local' fresh sq dl).
Proof.
  intros F V [I1 I2 I3 I4 I5]; simpl in *. constructor; simpl; auto.
  - eapply c03_sorted_forall2; eauto.
  - rewrite <- (c03_forall2_length _ _ F). auto.
Qed.

Lemma c03_step_inv b legacy ms op :
  c03_inv b ms -> c03_inv (if c03_is_add op then S b else b) (fst (c03_step true legacy ms op)).
Proof.
  intros I. destruct ms as [rz local fresh sq dl].
  pose proof I as [I1 I2 I3 I4 I5]; simpl in I1, I2, I3, I4, I5.
  destruct op; simpl c03_is_add; cbv iota; simpl; try exact I.
  - (* beginResize *) destruct rz; simpl; [exact I|]. constructor; simpl; auto.
  - (* add *) destruct rz; simpl.
    + constructor; simpl; auto; try (intros; discriminate).
      all: try solve [unfold c03_all_valid; apply Forall_app; split; auto; repeat constructor].
      all: try solve [rewrite app_length; simpl; lia].
    + eapply c03_inv_mono; [|exact I]. lia.
  - (* markAsDeleted *) destruct rz; simpl; [|exact I].
    rewrite c03_mark_spec. destruct (k <? length local)%nat; simpl.
    + constructor; simpl; auto; try (intros; discriminate).
      all: try solve [eapply c03_sorted_forall2; [apply c03_set_nth_same_key | auto]].
      all: try solve [rewrite c03_set_nth_length; auto].
    + constructor; simpl; auto; intros; discriminate.
  - (* endResize *) destruct rz; simpl; [|exact I].
    rewrite c03_merge_spec; auto.
    2:{ intros Hd. apply c03_all_valid_forallb. auto. }
    simpl.
    assert (V : c03_all_valid (c03_sort (fresh ++ filter c03s_valid local))).
    { unfold c03_all_valid. eapply Permutation_Forall; [symmetry; apply c03_sort_perm|].
      apply Forall_app. split; auto. apply c03_filter_all_valid. }
    constructor; simpl; auto; try (intros; discriminate).
    all: try solve [apply c03_sort_sorted].
    all: try solve [constructor].
    all: try solve [rewrite c03_sort_length, app_length; pose proof (c03_filter_length c03s_valid local); lia].
  - (* renumberLocal *) destruct rz; simpl; [exact I|].
    apply (c03_inv_same_key b false local); auto.
    + apply c03_renumber_same_key.
    + intros. apply c03_renumber_valid. auto.
  - (* at(g).setLocal *)
    destruct (c03_setlocal legacy local g l) as [local' o] eqn:E. simpl.
    pose proof (c03_setlocal_shape legacy local g l) as [H|[k H]]; rewrite E in H; simpl in H; subst local'; auto.
    apply (c03_inv_same_key b rz local); auto.
    + apply c03_upd_nth_same_key.
    + apply c03_upd_nth_valid.
Qed.

Definition c03_ground_clean (st : c03_state) : Prop := c03_resize st = false -> c03_fresh st = [].
Lemma c03_step_ground_clean legacy st op :
  c03_ground_clean st -> c03_ground_clean (fst (c03_step true legacy st op)).
Proof.
  unfold c03_ground_clean. destruct st as [rz local fresh sq dl]. simpl.
  destruct op; simpl; auto;
    try (destruct rz; simpl; auto; try (intros; discriminate));
    try (destruct (c03_mark k local); simpl; auto);
    try (destruct (c03_merge local (c03_sort fresh) dl); simpl; auto);
    try (destruct (c03_setlocal legacy local g l); simpl; auto).
Qed.

Lemma c03_run_inv legacy ops : forall b st,
  c03_inv b st -> c03_ground_clean st ->
  c03_inv (b + c03_adds ops) (fst (c03_run true legacy st ops)) /\ c03_ground_clean (fst (c03_run true legacy st ops)).
Proof.
  induction ops as [|op r IH]; intros b st I G.
  - simpl. unfold c03_adds. simpl. rewrite Nat.add_0_r. auto.
  - rewrite c03_run_cons. simpl fst.
    assert (Hadds : c03_adds (op :: r) = ((if c03_is_add op then 1 else 0) + c03_adds r)%nat).
    { unfold c03_adds. simpl. destruct (c03_is_add op); auto. }
    destruct (IH _ _ (c03_step_inv b legacy st op I) (c03_step_ground_clean legacy st op G)) as [H1 H2].
    split; auto.
    replace (b + c03_adds (op :: r))%nat with ((if c03_is_add op then S b else b) + c03_adds r)%nat; auto.
    rewrite Hadds. destruct (c03_is_add op); lia.
Qed.

Lemma c03_invariant_lemma legacy ops :
  let st := fst (c03_run true legacy c03_init ops) in
  Sorted c03_key_le (c03_local st) /\
  c03_all_valid (c03_fresh st) /\
  (c03_resize st = false -> c03_all_valid (c03_local st) /\ c03_fresh st = []) /\
  (length (c03_local st) + length (c03_fresh st) <= c03_adds ops)%nat.
Proof.
  destruct (c03_run_inv legacy ops 0 c03_init c03_init_inv) as [[I1 I2 I3 I4 I5] G].
  { intros _. reflexivity. }
  simpl. repeat split; auto.
Qed.

(* lookups after ANY history: the sortedness hypothesis of C03_lookup is established by the code itself *)
Lemma c03_lookup_history_lemma ops :
  Z.of_nat (c03_adds ops) <= 2 ^ 30 ->
  let l := c03_local (fst (c03_run true false c03_init ops)) in
  forall g,
    c03_exists false l g = C03Bool (existsb (c03s_has g) l) /\
    c03_at false l g = match find (c03s_has g) l with Some p => C03PairOut p | None => C03RangeError end /\
    c03_at_c false l g = c03_at false l g /\
    (forall p, find (c03s_has g) l = Some p -> c03_get l g = C03PairOut p /\ c03_get_c l g = C03PairOut p).
Proof.
  intros B l g. destruct (c03_invariant_lemma false ops) as (S & _ & _ & Hlen). fold l in S, Hlen.
  assert (GS : c03_gsorted l) by (apply c03_sorted_gsorted; auto).
  assert (SZ : c03_size_ok l) by (unfold c03_size_ok; lia).
  split; [apply c03_exists_correct; auto|]. split; [apply c03_at_correct; auto|]. split; [apply c03_at_c_eq|].
  intros p Hp. rewrite c03_get_c_eq. split; apply c03_get_correct; auto.
Qed.

Lemma c03_const_paths_lemma legacy l g : c03_at_c legacy l g = c03_at legacy l g /\ c03_get_c l g = c03_get l g.
Proof. split; [apply c03_at_c_eq | apply c03_get_c_eq]. Qed.

(* ------------------------------------------------------------------ one resize phase on the MODEL: content = added ++ (old minus marked) *)
(* positions s, s+1, ... of l; those listed in ds get the DELETED flag / are removed *)
Fixpoint c03_mark_from (s : nat) (ds : list nat) (l : list c03_pair) : list c03_pair :=
  match l with
  | [] => []
  | p :: r => (if existsb (Nat.eqb s) ds then c03_set_del p else p) :: c03_mark_from (S s) ds r
  end.
Fixpoint c03_remove_from (s : nat) (ds : list nat) (l : list c03_pair) : list c03_pair :=
  match l with
  | [] => []
  | p :: r => if existsb (Nat.eqb s) ds then c03_remove_from (S s) ds r else p :: c03_remove_from (S s) ds r
  end.
Definition c03_is_phase_op (n : nat) (op : c03_op) : bool :=
  match op with C03Add _ _ _ _ => true | C03MarkDeleted k => (k <? n)%nat | _ => false end.
Definition c03_phase_adds (body : list c03_op) : list c03_pair :=
  flat_map (fun op => match op with C03Add g l a p => [C03Pair g l a p false] | _ => [] end) body.
Definition c03_phase_dels (body : list c03_op) : list nat :=
  flat_map (fun op => match op with C03MarkDeleted k => [k] | _ => [] end) body.

Lemma c03_mark_from_nil s l : c03_mark_from s [] l = l.
Proof. revert s. induction l as [|p r IH]; intros s; simpl; auto. rewrite IH. auto. Qed.
Lemma c03_mark_from_length ds : forall l s, length (c03_mark_from s ds l) = length l.
Proof. induction l; intros; simpl; auto. Qed.
Lemma c03_mark_from_small j ds : forall l s, (j < s)%nat -> c03_mark_from s (ds ++ [j]) l = c03_mark_from s ds l.
Proof.
  induction l as [|p r IH]; intros s H; simpl; auto.
  rewrite IH by lia. rewrite existsb_app. simpl.
  replace (s =? j)%nat with false by (symmetry; apply Nat.eqb_neq; lia). rewrite !orb_false_r. auto.
Qed.
Lemma c03_set_del_idem p : c03_set_del (c03_set_del p) = c03_set_del p.
Proof. reflexivity. Qed.
Lemma c03_set_nth_cons0 p r : c03s_set_nth 0 (p :: r) = c03_set_del p :: r.
Proof. reflexivity. Qed.
Lemma c03_set_nth_consS k p r : c03s_set_nth (S k) (p :: r) = p :: c03s_set_nth k r.
Proof. reflexivity. Qed.
Lemma c03_set_nth_mark_from ds : forall l s k, (k < length l)%nat ->
  c03s_set_nth k (c03_mark_from s ds l) = c03_mark_from s (ds ++ [s + k]%nat) l.
Proof.
  induction l as [|p r IH]; intros s k H; simpl in H; [lia|].
  destruct k as [|k'].
  - simpl c03_mark_from. rewrite c03_set_nth_cons0, Nat.add_0_r, c03_mark_from_small by lia.
    rewrite existsb_app. simpl. rewrite Nat.eqb_refl, orb_true_r. simpl.
    destruct (existsb (Nat.eqb s) ds); auto.
  - simpl c03_mark_from. rewrite c03_set_nth_consS, IH by lia.
    replace (S s + k')%nat with (s + S k')%nat by lia.
    rewrite existsb_app. simpl.
    replace (s =? s + S k')%nat with false by (symmetry; apply Nat.eqb_neq; lia). rewrite !orb_false_r. auto.
Qed.
Lemma c03_mark_from_same_key ds : forall l s, Forall2 c03_same_key l (c03_mark_from s ds l).
Proof. induction l; intros; simpl; constructor; auto. destruct (existsb (Nat.eqb s) ds); split; auto. Qed.
Lemma c03_filter_mark_from ds : forall l s, c03_all_valid l ->
  filter c03s_valid (c03_mark_from s ds l) = c03_remove_from s ds l.
Proof.
  induction l as [|p r IH]; intros s H; simpl; auto. inversion H as [|? ? Hp Hr]; subst.
  destruct (existsb (Nat.eqb s) ds); simpl.
  - apply IH; auto.
  - rewrite Hp, IH; auto.
Qed.

(* the body of a phase: only adds and marks of existing positions, in any interleaving *)
Lemma c03_phase_body legacy sq local0 : forall body fresh ds dl,
  forallb (c03_is_phase_op (length local0)) body = true ->
  exists dl',
    fst (c03_run true legacy (C03State true (c03_mark_from 0 ds local0) fresh sq dl) body) =
      C03State true (c03_mark_from 0 (ds ++ c03_phase_dels body) local0) (fresh ++ c03_phase_adds body) sq dl' /\
    (dl' = false -> dl = false /\ c03_phase_dels body = []).
Proof.
  induction body as [|op r IH]; intros fresh ds dl H.
  - simpl. rewrite !app_nil_r. exists dl. auto.
  - simpl in H. apply andb_true_iff in H. destruct H as [H1 H2]. rewrite c03_run_cons. simpl fst.
    destruct op; simpl in H1; try discriminate.
    + simpl c03_step. simpl fst.
      destruct (IH (fresh ++ [C03Pair g loc attr pub false]) ds dl H2) as (dl' & E & D).
      exists dl'. rewrite E. simpl. rewrite <- app_assoc. auto.
    + apply Nat.ltb_lt in H1. simpl c03_step. rewrite c03_mark_spec, c03_mark_from_length.
      replace (k <? length local0)%nat with true by (symmetry; apply Nat.ltb_lt; auto). simpl fst.
      rewrite c03_set_nth_mark_from by (rewrite ?c03_mark_from_length; auto). simpl plus.
      destruct (IH fresh (ds ++ [k]) true H2) as (dl' & E & D).
      exists dl'. rewrite E. simpl. rewrite <- app_assoc. split; auto.
      intros Hd. destruct (D Hd). discriminate.
Qed.

Lemma c03_resize_phase_lemma legacy st body :
  c03_resize st = false -> c03_fresh st = [] -> Sorted c03_key_le (c03_local st) -> c03_all_valid (c03_local st) ->
  forallb (c03_is_phase_op (length (c03_local st))) body = true ->
  let st' := fst (c03_run true legacy st ([C03Begin] ++ body ++ [C03End])) in
  c03_resize st' = false /\ c03_fresh st' = [] /\ c03_seq st' = c03_seq st + 1 /\
  Sorted c03_key_le (c03_local st') /\ c03_all_valid (c03_local st') /\
  Permutation (c03_local st') (c03_phase_adds body ++ c03_remove_from 0 (c03_phase_dels body) (c03_local st)).
Proof.
  destruct st as [rz local fresh sq dl]. intros Hr Hf S V B. simpl in Hr, Hf, S, V, B. subst rz fresh.
  cbv zeta. change ([C03Begin] ++ body ++ [C03End]) with (C03Begin :: (body ++ [C03End])).
  rewrite c03_run_cons. simpl c03_step. simpl fst. simpl c03_seq.
  assert (Hrun : forall a b st0, fst (c03_run true legacy st0 (a ++ b)) = fst (c03_run true legacy (fst (c03_run true legacy st0 a)) b)).
  { induction a as [|x a IH]; intros b st0; [reflexivity|]. simpl app. rewrite !c03_run_cons. simpl fst. apply IH. }
  rewrite Hrun.
  destruct (c03_phase_body legacy sq local body [] [] false B) as (dl' & E & D).
  rewrite c03_mark_from_nil in E. rewrite E. simpl app.
  rewrite c03_run_cons. simpl c03_step.
  rewrite c03_merge_spec.
  - simpl. pose proof (c03_filter_mark_from (c03_phase_dels body) local 0 V) as F. rewrite F.
    repeat split; auto.
    + apply c03_sort_sorted.
    + unfold c03_all_valid. eapply Permutation_Forall; [symmetry; apply c03_sort_perm|].
      apply Forall_app. split.
      * clear. induction body as [|op r IH]; simpl; [constructor|]. apply Forall_app. split; auto.
        destruct op; repeat constructor.
      * rewrite <- F. apply c03_filter_all_valid.
    + apply c03_sort_perm.
  - eapply c03_sorted_forall2; [apply c03_mark_from_same_key | auto].
  - intros Hd. destruct (D Hd) as [_ Hn]. rewrite Hn, c03_mark_from_nil. apply c03_all_valid_forallb. auto.
Qed.

(* ------------------------------------------------------------------ reverse lookup: more of it *)
Lemma c03s_reverse_found l sz p : NoDup (map c03_loc l) -> In p l ->
  (forall q, In q l -> (c03_loc q < sz)%N) -> c03s_reverse l sz (c03_loc p) = C03PairOut p.
Proof.
  intros ND Hin Hsz. unfold c03s_reverse.
  assert (E1 : existsb (fun q => (sz <=? c03_loc q)%N) l = false).
  { destruct (existsb _ l) eqn:E; auto. apply existsb_exists in E. destruct E as (q & Hq & Hle).
    apply N.leb_le in Hle. specialize (Hsz q Hq). lia. }
  rewrite E1. replace (sz <=? c03_loc p)%N with false by (symmetry; apply N.leb_gt; auto).
  rewrite (c03_find_unique c03_loc N.eqb N.eqb_eq (rev l) p); auto.
  - rewrite map_rev. apply NoDup_rev. auto.
  - apply in_rev. rewrite rev_involutive. auto.
Qed.
Lemma c03_reverse_sized_lemma l sz p : NoDup (map c03_loc l) -> In p l ->
  (forall q, In q l -> (c03_loc q < sz)%N) -> c03_reverse_sized l sz (c03_loc p) = C03PairOut p.
Proof.
  intros ND Hin Hsz. pose proof (c03s_reverse_found l sz p ND Hin Hsz) as E.
  rewrite c03_reverse_sized_spec; rewrite E; auto. discriminate.
Qed.
Lemma c03_reverse_null_lemma l i : (i <= c03_max_loc l)%N -> (forall q, In q l -> c03_loc q <> i) -> c03_reverse l i = C03Null.
Proof.
  intros Hi Hn.
  assert (E : c03s_reverse l (N.succ (c03_max_loc l)) i = C03Null).
  { unfold c03s_reverse.
    assert (E1 : existsb (fun q => (N.succ (c03_max_loc l) <=? c03_loc q)%N) l = false).
    { destruct (existsb _ l) eqn:E; auto. apply existsb_exists in E. destruct E as (q & Hq & Hle).
      apply N.leb_le in Hle. pose proof (c03_max_loc_ge l 0%N q Hq). unfold c03_max_loc in Hle. lia. }
    rewrite E1. replace (N.succ (c03_max_loc l) <=? i)%N with false by (symmetry; apply N.leb_gt; lia).
    rewrite c03_find_none; auto. intros q Hq. apply N.eqb_neq. apply Hn. apply in_rev. auto. }
  rewrite c03_reverse_spec; rewrite E; auto. discriminate.
Qed.
Lemma c03_renumber_nodup l : forall i,
  NoDup (map c03_loc (c03_renumber_from i l)) /\ forall q, In q (c03_renumber_from i l) -> (i <= c03_loc q)%N.
Proof.
  induction l as [|p r IH]; intros i; simpl.
  - split; [constructor | tauto].
  - destruct (IH (N.succ i)) as [ND LB]. split.
    + constructor; auto. intros Hin. apply in_map_iff in Hin. destruct Hin as (q & Hq & Hqin).
      specialize (LB q Hqin). lia.
    + intros q [<-|Hq]; simpl; [lia|]. specialize (LB q Hq). lia.
Qed.
Lemma c03_reverse_after_renumber_lemma l p :
  In p (c03_renumber_from 0 l) -> c03_reverse (c03_renumber_from 0 l) (c03_loc p) = C03PairOut p.
Proof. intros H. apply c03_reverse_lemma; auto. apply c03_renumber_nodup. Qed.

(* ------------------------------------------------------------------ what the checks are for: without them the set can be corrupted *)
Lemma c03_ndebug_unprotected_lemma :
  exists ops : list c03_op,
    let st := fst (c03_run false false c03_init ops) in
    c03_resize st = false /\ existsb c03_del (c03_local st) = true /\
    (* the same history with checking: the offending call is rejected and the ground state is clean *)
    let st' := fst (c03_run true false c03_init ops) in
    In C03InvalidState (snd (c03_run true false c03_init ops)) /\ existsb c03_del (c03_local st') = false.
Proof.
  exists [C03Begin; C03Add 7 0 0 true; C03End; C03Begin; C03MarkDeleted 0; C03Begin; C03End].
  vm_compute. repeat split; auto. right; right; right; right; right; left. reflexivity.
Qed.

Lemma c03_lookup_size_lemma l :
  (forall p, In p l -> (c03_loc p < N.succ (c03_max_loc l))%N) /\ (l = [] -> c03_lookup_size l = C03Num 1).
Proof.
  split.
  - intros p Hp. pose proof (c03_max_loc_ge l 0%N p Hp). unfold c03_max_loc. lia.
  - intros ->. reflexivity.
Qed.

Lemma c03_iteration_strict_lemma legacy ops :
  let l := c03_local (fst (c03_run true legacy c03_init ops)) in
  NoDup (map c03_g l) -> StronglySorted c03_g_lt l.
Proof. intros l ND. apply c03_strict_lemma; auto. apply (c03_invariant_lemma legacy ops). Qed.
