(* C03 — second cross-cutting audit: assignment onto a target with pre-existing state (kind A). *)
From Coq Require Import List ZArith NArith Bool.
From DuneV Require Import C03_Params C03_Model C03_Spec.
Import ListNotations.
Local Open Scope Z_scope.

Lemma c03_assign_exact_lemma : forall target source : c03_state, c03_assign target source = source.
Proof. intros [] []; reflexivity. Qed.

Lemma c03_assign_history_lemma : forall (chk legacy : bool) (target source : c03_state) (ops : list c03_op),
  c03_run chk legacy (c03_assign target source) ops = c03_run chk legacy source ops.
Proof. intros; rewrite c03_assign_exact_lemma; reflexivity. Qed.

(* nothing of the target's own pairs, pending adds, marks, state or sequence number is observable afterwards:
   whatever history built the target *)
Lemma c03_assign_forgets_target_lemma : forall (chk legacy : bool) (hist_t hist_s ops : list c03_op),
  let t := fst (c03_run chk legacy c03_init hist_t) in
  let s := fst (c03_run chk legacy c03_init hist_s) in
  snd (c03_run chk legacy (c03_assign t s) ops) = snd (c03_run chk legacy s ops).
Proof. intros; unfold t, s; rewrite c03_assign_history_lemma; reflexivity. Qed.
