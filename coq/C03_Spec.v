(* C03 — the abstract statement.  The index set IS a finite map kept as the key-sorted list of its
   pairs (key = (global, attribute)); a resize phase collects new pairs and deletion marks, and its
   end replaces the set by  sort(new ++ not-deleted old).  Lookups are plain linear `find`s, the
   reverse lookup is "the last pair carrying this local number".  No binary search, no three-way
   merge, no `deletedEntries_` flag, no lookup table here.  The same functions are the executable
   oracle applied to the implementation's own outputs. *)
From Coq Require Import List ZArith NArith Bool.
From DuneV Require Import C03_Model.
Import ListNotations.
Local Open Scope Z_scope.

Record c03_sstate := C03SState { c03s_resize : bool; c03s_set : list c03_pair; c03s_new : list c03_pair; c03s_seq : Z }.
Definition c03s_init : c03_sstate := C03SState false [] [] 0.

Definition c03s_valid (p : c03_pair) : bool := negb (c03_del p).
Definition c03s_has (g : Z) (p : c03_pair) : bool := c03_g p =? g.
Definition c03s_mapi_loc (l : list c03_pair) : list c03_pair :=
  map (fun ip => c03_set_loc (snd ip) (N.of_nat (fst ip))) (combine (seq 0 (length l)) l).
Definition c03s_set_nth (k : nat) (l : list c03_pair) : list c03_pair :=
  firstn k l ++ match skipn k l with [] => [] | p :: r => c03_set_del p :: r end.

Definition c03s_reverse (set : list c03_pair) (size l : N) : c03_out :=
  if (existsb (fun p => size <=? c03_loc p) set)%N then C03Precond     (* table overrun while filling *)
  else if (size <=? l)%N then C03Precond                                  (* pair(l) outside the table *)
  else match find (fun p => c03_loc p =? l)%N (rev set) with
       | Some p => C03PairOut p
       | None => C03Null
       end.

Fixpoint c03s_set_first (g : Z) (v : N) (set : list c03_pair) : list c03_pair :=
  match set with
  | [] => []
  | p :: r => if c03s_has g p then c03_set_loc p v :: r else p :: c03s_set_first g v r
  end.

(* set equality as operator== means it: same (global, local number, attribute, public flag) sequence *)
Definition c03s_strip (p : c03_pair) : Z * N * N * bool := (c03_g p, c03_loc p, c03_attr p, c03_pub p).
Definition c03s_same_entry (p q : c03_pair) : bool :=
  (c03_g p =? c03_g q) && (c03_loc p =? c03_loc q)%N && (c03_attr p =? c03_attr q)%N && Bool.eqb (c03_pub p) (c03_pub q).
Fixpoint c03s_all2 (l1 l2 : list c03_pair) : bool :=
  match l1, l2 with
  | [], [] => true
  | p :: r1, q :: r2 => c03s_same_entry p q && c03s_all2 r1 r2
  | _, _ => false
  end.

Definition c03_spec_step (st : c03_sstate) (op : c03_op) : c03_sstate * c03_out :=
  let '(C03SState rz set new sq) := st in
  match op with
  | C03Begin => if rz then (st, C03InvalidState) else (C03SState true set new sq, C03Ok)
  | C03Add g loc attr pub =>
      if rz then (C03SState rz set (new ++ [C03Pair g loc attr pub false]) sq, C03Ok) else (st, C03InvalidState)
  | C03MarkDeleted k =>
      if rz then (if (k <? length set)%nat then (C03SState rz (c03s_set_nth k set) new sq, C03Ok) else (st, C03Precond))
      else (st, C03InvalidState)
  | C03End =>
      if rz then (C03SState false (c03_sort (new ++ filter c03s_valid set)) [] (sq + 1), C03Ok)
      else (st, C03InvalidState)
  | C03Renumber => if rz then (st, C03InvalidState) else (C03SState rz (c03s_mapi_loc set) new sq, C03Ok)
  | C03Exists g => (st, C03Bool (existsb (c03s_has g) set))
  | C03At g => (st, match find (c03s_has g) set with Some p => C03PairOut p | None => C03RangeError end)
  | C03Get g => (st, match find (c03s_has g) set with Some p => C03PairOut p | None => C03Precond end)
  | C03Size => (st, C03Num (Z.of_nat (length set)))
  | C03SeqNo => (st, C03Num sq)
  | C03Mode => (st, C03ModeOut rz)
  | C03Iterate => (st, C03List set)
  | C03Reverse l => (st, c03s_reverse set (N.succ (c03_max_loc set)) l)
  | C03ReverseSized sz l => (st, c03s_reverse set sz l)
  | C03SetLocal g v =>
      match find (c03s_has g) set with
      | Some _ => (C03SState rz (c03s_set_first g v set) new sq, C03Ok)
      | None => (st, C03RangeError)
      end
  | C03SetEq w => (st, let b := c03s_all2 set (c03_perturb w set) in C03Bits [b; negb b])
  | C03Cmp i j g => (st, c03_cmp_out set i j g)
  end.

Fixpoint c03_spec_run (st : c03_sstate) (ops : list c03_op) : c03_sstate * list c03_out :=
  match ops with
  | [] => (st, [])
  | op :: r => let '(st', o) := c03_spec_step st op in
               let '(st'', os) := c03_spec_run st' r in (st'', o :: os)
  end.

(* A history is `defined` when the spec never reports a violated precondition (C++: undefined
   behaviour).  The generator uses the same predicate; theorems are stated for defined histories. *)
Definition c03_is_precond (o : c03_out) : bool := match o with C03Precond => true | _ => false end.
Definition c03_defined (ops : list c03_op) : bool :=
  negb (existsb c03_is_precond (snd (c03_spec_run c03s_init ops))).

(* What "sorted" and "the same content" mean (used in the theorems about the spec itself). *)
Definition c03_key_le (p q : c03_pair) : Prop := c03_ltb q p = false.
Definition c03_g_lt (p q : c03_pair) : Prop := c03_g p < c03_g q.

(* number of add operations in a history: bounds the size of the set (the binary search uses `int`) *)
Definition c03_is_add (op : c03_op) : bool := match op with C03Add _ _ _ _ => true | _ => false end.
Definition c03_adds (ops : list c03_op) : nat := length (filter c03_is_add ops).
