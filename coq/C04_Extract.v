(* Extraction of the C04 model and spec for the correspondence check (ExtrOcamlBasic only). *)
From Coq Require Import Extraction ExtrOcamlBasic.
From Coq Require Import List Arith ZArith.
From DuneV Require Import C04_Model C04_Spec.
Extraction Language OCaml.
Extraction "c04_model.ml"
  c04_build c04_build_rank c04_unpack1 c04_join c04_spec_rank c04_spec_entry c04_sortedb
  c04_init c04_run_ops c04_is_synced c04_stale c04_ring_source c04_ring_arrivals c04_msgs
  c04_build_mixed c04_spec_rank_mixed c04_hstep c04_hspec_step c04_obj_synced c04_obj_buildf c04_obj_ctor c04_obj_default c04_set_of c04_erase_self
  c04_build_incs c04_obj_buildf_comm c04_comm_view c04_comm_world c04_hstepc c04_hspec_stepc c04_last_comm.
