(* C04 — executable model of Dune::RemoteIndices (dune/common/parallel/remoteindices.hh).
   Definitions ONLY (no proofs).  The functions follow the C++ text:

     c04_published        packEntries<ignorePublic> / noPublic          (remoteindices.hh 1020-1057)
     c04_run, c04_unpack_loop, c04_unpack1
                          unpackIndices, single-list variant             (1313-1382)
     c04_unpack_create    unpackCreateRemote                             (1061-1125)
     c04_ring_*           the ring of buildRemote                        (1227-1252)
     c04_build_rank       buildRemote<ignorePublic>(includeSelf)         (1130-1310)
     c04_rebuild, c04_is_synced, c04_step
                          rebuild<ignorePublic>, isSynced, endResize's seqNo_++   (1452-1475, indexset.hh 831)

   Representation.  An index set is the list of its pairs in iteration order (ParallelIndexSet keeps them
   sorted by (global, attribute): C03).  "Array + index" pairs of the C++ code (local[localIndex],
   the unpack position n_in in the receive buffer) are represented by the SUFFIX of the list starting at
   that index; `oldLocalIndex` is the saved suffix.  A RemoteIndex (attribute_, localIndex_ pointer) is the
   pair (remote attribute, local pair pointed to).  All numbers are nat. *)
From Coq Require Import List Arith Bool ZArith.
Import ListNotations.

Record c04_pair := C04_mkpair { c04_g : nat; c04_li : nat; c04_attr : nat; c04_pub : bool }.

Definition c04_rentry := (nat * c04_pair)%type.          (* (attribute on the remote process, local pair) *)
Definition c04_lists := (list c04_rentry * list c04_rentry)%type.   (* (send list, receive list) *)
Definition c04_rmap := list (nat * c04_lists).           (* std::map<int, pair<send*,receive*>>, ascending keys *)

Inductive c04_res (A : Type) :=
| C04_Ok (a : A)
| C04_OutOfFuel
| C04_Mixed.       (* ranks disagree on ring vs. neighbour mode (inconsistent hints): outside the property *)
Arguments C04_Ok {A} a.
Arguments C04_OutOfFuel {A}.
Arguments C04_Mixed {A}.

Definition c04_bind {A B} (x : c04_res A) (f : A -> c04_res B) : c04_res B :=
  match x with C04_Ok a => f a | C04_OutOfFuel => C04_OutOfFuel | C04_Mixed => C04_Mixed end.

(* packEntries<ignorePublic>: the pairs that are packed, in iteration order; also the pairs[] array *)
Definition c04_published (ign : bool) (s : list c04_pair) : list c04_pair :=
  filter (fun x => ign || c04_pub x) s.

(* if(!fromOurSelf || index.local().attribute() != local[localIndex]->local().attribute()) *)
Definition c04_keep (fromSelf : bool) (index l : c04_pair) : bool :=
  negb fromSelf || negb (c04_attr index =? c04_attr l).

(* inner loop  while(localIndex<localEntries && local[localIndex]->global()==index.global()) {...; localIndex++}
   returns (entries pushed, suffix at the new localIndex) *)
Fixpoint c04_run (fromSelf : bool) (index : c04_pair) (loc : list c04_pair) : list c04_rentry * list c04_pair :=
  match loc with
  | [] => ([], [])
  | l :: loc' =>
      if c04_g l =? c04_g index then
        let (o, r) := c04_run fromSelf index loc' in
        ((if c04_keep fromSelf index l then [(c04_attr index, l)] else []) ++ o, r)
      else ([], loc)
  end.

(* outer loop of unpackIndices.  index = the pair unpacked last, rest = the pairs not yet unpacked
   (n_in = remoteEntries - 1 - |rest|), loc = local[localIndex..], out = the list `remote` built so far. *)
Fixpoint c04_unpack_loop (fuel : nat) (fromSelf : bool) (index : c04_pair) (oldGlobal : nat)
         (rest loc : list c04_pair) (out : list c04_rentry) : c04_res (list c04_rentry) :=
  match fuel with
  | O => C04_OutOfFuel
  | S fuel =>
      match loc with
      | [] => C04_Ok out                                     (* localIndex == localEntries *)
      | l :: loc' =>
          if c04_g l =? c04_g index then
            let oldLoc := loc in                             (* int oldLocalIndex=localIndex; *)
            let (o, loc1) := c04_run fromSelf index loc in
            match rest with
            | index' :: rest' =>                             (* (++n_in) < remoteEntries : unpack next *)
                if c04_g index' =? oldGlobal
                then c04_unpack_loop fuel fromSelf index' oldGlobal rest' oldLoc (out ++ o)     (* restart *)
                else c04_unpack_loop fuel fromSelf index' (c04_g index') rest' loc1 (out ++ o)
            | [] => C04_Ok (out ++ o)                        (* break *)
            end
          else if c04_g l <? c04_g index then
            c04_unpack_loop fuel fromSelf index oldGlobal rest loc' out                          (* ++localIndex *)
          else
            match rest with
            | index' :: rest' => c04_unpack_loop fuel fromSelf index' (c04_g index') rest' loc out
            | [] => C04_Ok out
            end
      end
  end.

Definition c04_unpack_fuel (local remote : list c04_pair) : nat :=
  length remote * S (length local) + length local + 1.

(* unpackIndices(remote, remoteEntries, local, localEntries, ..., fromOurSelf) *)
Definition c04_unpack1 (local remote : list c04_pair) (fromSelf : bool) : c04_res (list c04_rentry) :=
  match remote with
  | [] => C04_Ok []                                          (* if(remoteEntries==0) return; *)
  | index :: rest => c04_unpack_loop (c04_unpack_fuel local remote) fromSelf index (c04_g index) rest local []
  end.

(* the packed message: [twoIndexSets, |src|, |dst|, src pairs, dst pairs] *)
Record c04_msg := C04_mkmsg { c04_m_two : bool; c04_m_src : list c04_pair; c04_m_dst : list c04_pair }.

Definition c04_pack (ign two : bool) (src dst : list c04_pair) : c04_msg :=
  C04_mkmsg two (c04_published ign src) (if two then c04_published ign dst else []).

Definition c04_lists_empty (x : c04_lists) : bool :=
  match x with ([], []) => true | _ => false end.

(* unpackIndices, two-list variant (used when the remote process sent ONE index set and we have TWO):
     while(n_in<remoteEntries && (sourceIndex<localSourceEntries || destIndex<localDestEntries)) {
       unpack index; advance sourceIndex / destIndex while the local global index is smaller;
       if localSource[sourceIndex] matches: send.push_back(attr, localSource[sourceIndex]);
       if localDest[destIndex] matches:     receive.push_back(attr, localDest[destIndex]); }
   As AFTER fix fixes/C04-1 (the unfixed code pushes localDest[sourceIndex]: finding F-C04-1). *)
Fixpoint c04_skip_lt (g : nat) (l : list c04_pair) : list c04_pair :=
  match l with a :: t => if c04_g a <? g then c04_skip_lt g t else l | [] => [] end.
Definition c04_push_match (index : c04_pair) (loc : list c04_pair) (out : list c04_rentry) : list c04_rentry :=
  match loc with a :: _ => if c04_g a =? c04_g index then out ++ [(c04_attr index, a)] else out | [] => out end.
Fixpoint c04_unpack2 (remote localSource localDest : list c04_pair) (send receive : list c04_rentry)
  : list c04_rentry * list c04_rentry :=
  match remote with
  | [] => (send, receive)
  | index :: rest =>
      match localSource, localDest with
      | [], [] => (send, receive)
      | _, _ =>
          let s' := c04_skip_lt (c04_g index) localSource in
          let d' := c04_skip_lt (c04_g index) localDest in
          c04_unpack2 rest s' d' (c04_push_match index s' send) (c04_push_match index d' receive)
      end
  end.

(* the same loop as the UNFIXED code has it: receive.push_back(RemoteIndex(attr, localDest[sourceIndex])).  sourceIndex is
   recovered as |full source array| - |suffix|; None = the index is outside the localDest array (undefined behaviour). *)
Fixpoint c04_unpack2_legacy (fullSource fullDest remote localSource localDest : list c04_pair) (send receive : list c04_rentry)
  : option (list c04_rentry * list c04_rentry) :=
  match remote with
  | [] => Some (send, receive)
  | index :: rest =>
      match localSource, localDest with
      | [], [] => Some (send, receive)
      | _, _ =>
          let s' := c04_skip_lt (c04_g index) localSource in
          let d' := c04_skip_lt (c04_g index) localDest in
          let sourceIndex := length fullSource - length s' in
          match d' with
          | a :: _ =>
              if c04_g a =? c04_g index then
                match nth_error fullDest sourceIndex with
                | Some x => c04_unpack2_legacy fullSource fullDest rest s' d' (c04_push_match index s' send) (receive ++ [(c04_attr index, x)])
                | None => None
                end
              else c04_unpack2_legacy fullSource fullDest rest s' d' (c04_push_match index s' send) receive
          | [] => c04_unpack2_legacy fullSource fullDest rest s' d' (c04_push_match index s' send) receive
          end
      end
  end.

(* unpackCreateRemote: None = nothing inserted (both lists empty).  sendTwo = (source_ != target_) of this process,
   m_two = the same flag of the sender (first byte of the message); destPairs = sourcePairs when !sendTwo.
   The two mixed branches are as AFTER fix fixes/C04-1; the unfixed code, for m_two && !sendTwo, joins the receive list with
   ZERO local entries (destPublish is 0) and re-reads the remote SOURCE block for the send list (position=oldPos). *)
Definition c04_unpack_create (m : c04_msg) (sourcePairs destPairs : list c04_pair) (sendTwo fromSelf : bool)
  : c04_res (option c04_lists) :=
  c04_bind
    (if negb (c04_m_two m) then
       if sendTwo then C04_Ok (c04_unpack2 (c04_m_src m) sourcePairs destPairs [] [])
       else c04_bind (c04_unpack1 sourcePairs (c04_m_src m) fromSelf) (fun r => C04_Ok (r, r))   (* send=receive *)
     else
       c04_bind (c04_unpack1 destPairs (c04_m_src m) fromSelf) (fun receive =>
       c04_bind (c04_unpack1 sourcePairs (c04_m_dst m) fromSelf) (fun send => C04_Ok (send, receive))))
    (fun x => C04_Ok (if c04_lists_empty x then None else Some x)).

(* remoteIndices_.insert(make_pair(remoteProc, ...)): ordered by key, an existing key is kept *)
Fixpoint c04_insert (q : nat) (x : c04_lists) (m : c04_rmap) : c04_rmap :=
  match m with
  | [] => [(q, x)]
  | (k, v) :: m' => if q <? k then (q, x) :: m else if q =? k then m else (k, v) :: c04_insert q x m'
  end.

(* ---- the ring ---------------------------------------------------------------------------------------- *)
(* remoteProc = (rank+procs-proc)%procs *)
Definition c04_ring_source (P rank proc : nat) : nat := (rank + P - proc) mod P.

(* state of all ranks: (buffer[0], buffer[1]); round proc: p_out=buffer[1-proc%2] goes to (rank+1)%procs,
   p_in=buffer[proc%2] is overwritten with what (rank+procs-1)%procs sent *)
Definition c04_bufs := list (c04_msg * c04_msg).
Definition c04_empty_msg := C04_mkmsg false [] [].
Definition c04_p_out (proc : nat) (b : c04_msg * c04_msg) : c04_msg := if Nat.even proc then snd b else fst b.
Definition c04_set_p_in (proc : nat) (b : c04_msg * c04_msg) (m : c04_msg) : c04_msg * c04_msg :=
  if Nat.even proc then (m, snd b) else (fst b, m).
Definition c04_ring_round (P proc : nat) (bufs : c04_bufs) : c04_bufs :=
  map (fun r => c04_set_p_in proc (nth r bufs (c04_empty_msg, c04_empty_msg))
                   (c04_p_out proc (nth ((r + P - 1) mod P) bufs (c04_empty_msg, c04_empty_msg))))
      (seq 0 P).
Definition c04_p_in (proc : nat) (b : c04_msg * c04_msg) : c04_msg := if Nat.even proc then fst b else snd b.

(* arrivals at `rank` in rounds proc, proc+1, ..., proc+n-1: (remoteProc, content of p_in) *)
Fixpoint c04_ring_arrivals_from (n P rank proc : nat) (bufs : c04_bufs) : list (nat * c04_msg) :=
  match n with
  | O => []
  | S n =>
      let bufs' := c04_ring_round P proc bufs in
      (c04_ring_source P rank proc, c04_p_in proc (nth rank bufs' (c04_empty_msg, c04_empty_msg)))
        :: c04_ring_arrivals_from n P rank (S proc) bufs'
  end.
Definition c04_ring_arrivals (P rank : nat) (msgs : list c04_msg) : list (nat * c04_msg) :=
  c04_ring_arrivals_from (P - 1) P rank 1 (map (fun m => (m, c04_empty_msg)) msgs).

(* ---- buildRemote ------------------------------------------------------------------------------------- *)
Definition c04_step_arrival (sourcePairs destPairs : list c04_pair) (two : bool)
           (acc : c04_res c04_rmap) (a : nat * c04_msg) : c04_res c04_rmap :=
  c04_bind acc (fun m =>
  c04_bind (c04_unpack_create (snd a) sourcePairs destPairs two false) (fun o =>
  C04_Ok (match o with None => m | Some x => c04_insert (fst a) x m end))).

(* arrivals = the messages in the order in which unpackCreateRemote is called for them (ring order, or the
   MPI_Probe(MPI_ANY_SOURCE) order of the neighbour mode) *)
Definition c04_build_rank (P rank : nat) (two ign incself : bool) (src dst : list c04_pair)
           (arrivals : list (nat * c04_msg)) : c04_res c04_rmap :=
  if (P =? 1) && negb (two || incself) then C04_Ok []       (* Nothing to communicate *)
  else
    let sourcePairs := c04_published ign src in
    let destPairs := if two then c04_published ign dst else sourcePairs in
    let own := c04_pack ign two src dst in
    let self : c04_res c04_rmap :=
        if two || incself then
          c04_bind (c04_unpack_create own sourcePairs destPairs two incself) (fun o =>
          C04_Ok (match o with None => [] | Some x => c04_insert rank x [] end))
        else C04_Ok [] in
    fold_left (c04_step_arrival sourcePairs destPairs two) arrivals self.

(* a decomposition: per rank (source set, target set); with one index set the target is ignored *)
Definition c04_decomp := list (list c04_pair * list c04_pair).
Definition c04_msgs (ign two : bool) (d : c04_decomp) : list c04_msg :=
  map (fun st => c04_pack ign two (fst st) (snd st)) d.

(* mode: None = ring (no neighbour hints); Some orders = neighbour mode, orders[rank] = the order in which the
   messages of rank's neighbours are probed (a permutation of its neighbour set without the rank itself) *)
Definition c04_arrivals (P rank : nat) (msgs : list c04_msg) (mode : option (list (list nat))) : list (nat * c04_msg) :=
  match mode with
  | None => c04_ring_arrivals P rank msgs
  | Some orders => map (fun q => (q, nth q msgs c04_empty_msg)) (nth rank orders [])
  end.

Definition c04_build (two ign incself : bool) (d : c04_decomp) (mode : option (list (list nat)))
  : list (c04_res c04_rmap) :=
  let P := length d in
  let msgs := c04_msgs ign two d in
  map (fun rank => let st := nth rank d ([], []) in
                   c04_build_rank P rank two ign incself (fst st) (snd st) (c04_arrivals P rank msgs mode))
      (seq 0 P).

(* processes may differ in whether they pass one index-set object for both roles or two: twos[rank] *)
Definition c04_msgs_mixed (ign : bool) (twos : list bool) (d : c04_decomp) : list c04_msg :=
  map (fun tst => c04_pack ign (fst tst) (fst (snd tst)) (snd (snd tst))) (combine twos d).
Definition c04_build_mixed (twos : list bool) (ign incself : bool) (d : c04_decomp) (mode : option (list (list nat)))
  : list (c04_res c04_rmap) :=
  let P := length d in
  let msgs := c04_msgs_mixed ign twos d in
  map (fun rank => let st := nth rank d ([], []) in
                   c04_build_rank P rank (nth rank twos false) ign incself (fst st) (snd st) (c04_arrivals P rank msgs mode))
      (seq 0 P).

(* ---- isSynced / rebuild ------------------------------------------------------------------------------ *)
(* one rank's RemoteIndices object and the two index sets it refers to.  `content` stands for whatever the
   collective build reads (the whole decomposition); `buildf content ign` for the result of buildRemote. *)
Section Sync.
  Variable content : Type.
  Variable result : Type.
  Variable buildf : content -> bool -> result.

  Record c04_world := C04_mkworld {
    c04_w_two : bool;                 (* source_ != target_ *)
    c04_w_content : content;
    c04_w_srcSeq : Z;                 (* source_->seqNo() *)
    c04_w_dstSeq : Z;                 (* target_->seqNo() (only used when two) *)
    c04_w_sourceSeqNo : Z; c04_w_destSeqNo : Z; c04_w_publicIgnored : bool; c04_w_firstBuild : bool;
    c04_w_map : option result }.

  Inductive c04_op := C04_ResizeSrc (c : content) | C04_ResizeDst (c : content) | C04_Rebuild (ign : bool).

  Definition c04_seq_src (w : c04_world) : Z := c04_w_srcSeq w.
  Definition c04_seq_dst (w : c04_world) : Z := if c04_w_two w then c04_w_dstSeq w else c04_w_srcSeq w.

  (* return sourceSeqNo_==source_->seqNo() && destSeqNo_ ==target_->seqNo(); *)
  Definition c04_is_synced (w : c04_world) : bool :=
    (c04_w_sourceSeqNo w =? c04_seq_src w)%Z && (c04_w_destSeqNo w =? c04_seq_dst w)%Z.

  Definition c04_rebuild (ign : bool) (w : c04_world) : c04_world :=
    if c04_w_firstBuild w || negb (Bool.eqb ign (c04_w_publicIgnored w)) || negb (c04_is_synced w) then
      C04_mkworld (c04_w_two w) (c04_w_content w) (c04_w_srcSeq w) (c04_w_dstSeq w)
                  (c04_seq_src w) (c04_seq_dst w) ign false (Some (buildf (c04_w_content w) ign))
    else w.

  Definition c04_step (w : c04_world) (o : c04_op) : c04_world :=
    match o with
    | C04_ResizeSrc c =>              (* beginResize ... endResize on the source set: seqNo_++ *)
        C04_mkworld (c04_w_two w) c (c04_w_srcSeq w + 1) (c04_w_dstSeq w)
                    (c04_w_sourceSeqNo w) (c04_w_destSeqNo w) (c04_w_publicIgnored w) (c04_w_firstBuild w) (c04_w_map w)
    | C04_ResizeDst c =>              (* on the target set; with one index set this IS the source set *)
        if c04_w_two w then
          C04_mkworld (c04_w_two w) c (c04_w_srcSeq w) (c04_w_dstSeq w + 1)
                      (c04_w_sourceSeqNo w) (c04_w_destSeqNo w) (c04_w_publicIgnored w) (c04_w_firstBuild w) (c04_w_map w)
        else
          C04_mkworld (c04_w_two w) c (c04_w_srcSeq w + 1) (c04_w_dstSeq w)
                      (c04_w_sourceSeqNo w) (c04_w_destSeqNo w) (c04_w_publicIgnored w) (c04_w_firstBuild w) (c04_w_map w)
    | C04_Rebuild ign => c04_rebuild ign w
    end.

  (* constructor: sourceSeqNo_(-1), destSeqNo_(-1), publicIgnored(false), firstBuild(true); fresh sets have seqNo 0,
     sets that were filled by k resizes have seqNo k *)
  Definition c04_init (two : bool) (c : content) (s0 d0 : Z) : c04_world :=
    C04_mkworld two c s0 d0 (-1) (-1) false true None.

  Definition c04_run_ops (w : c04_world) (ops : list c04_op) : c04_world := fold_left c04_step ops w.
End Sync.

(* ---- the blocking calls of the ring, per rank (for the ordering argument) ---------------------------- *)
(* for(proc=1; proc<procs; proc++): if(rank%2==0) {MPI_Ssend(to rank+1); MPI_Recv(from rank-1);} else {MPI_Recv; MPI_Ssend;} *)
Inductive c04_mpi_op := C04_Ssend (dest : nat) | C04_Recv (src : nat).
Definition c04_ring_ops (P rank : nat) : list (nat * c04_mpi_op) :=       (* (round, call) in program order *)
  flat_map (fun proc =>
              if Nat.even rank
              then [(proc, C04_Ssend ((rank + 1) mod P)); (proc, C04_Recv ((rank + P - 1) mod P))]
              else [(proc, C04_Recv ((rank + P - 1) mod P)); (proc, C04_Ssend ((rank + 1) mod P))])
           (seq 1 (P - 1)).

(* ---- one RemoteIndices object re-used over several pairs of index sets (object histories) --------------- *)
(* std::set<int> neighbourIds: ascending, no duplicates *)
Fixpoint c04_set_insert (x : nat) (s : list nat) : list nat :=
  match s with
  | [] => [x]
  | y :: t => if x <? y then x :: s else if x =? y then s else y :: c04_set_insert x t
  end.
Definition c04_set_of (l : list nat) : list nat := fold_right c04_set_insert [] l.
(* neighbourIds.erase(rank), for all ranks *)
Definition c04_erase_self (hints : list (list nat)) : list (list nat) :=
  map (fun pr => filter (fun q => negb (q =? fst pr)) (snd pr)) (combine (seq 0 (length hints)) hints).

(* buildRemote of all ranks with the neighbourIds they hold: all empty -> ring, all non-empty -> neighbour mode;
   ranks that disagree do not terminate / mix protocols: outside the property ("consistent" hints) *)
Definition c04_is_nil {A} (l : list A) : bool := match l with [] => true | _ => false end.
Definition c04_obj_buildf (two : bool) (d : c04_decomp) (ign incself : bool) (hints : list (list nat)) : list (c04_res c04_rmap) :=
  if forallb c04_is_nil hints then c04_build two ign incself d None
  else if forallb (fun h => negb (c04_is_nil h)) hints then c04_build two ign incself d (Some hints)
  else map (fun _ => C04_Mixed) d.

Record c04_slot := C04_mkslot { c04_sl_content : c04_decomp; c04_sl_srcSeq : Z; c04_sl_dstSeq : Z }.
Definition c04_slot_dflt := C04_mkslot [] 0%Z 0%Z.
Fixpoint c04_upd {A} (n : nat) (f : A -> A) (l : list A) : list A :=
  match l, n with
  | [], _ => []
  | a :: t, O => f a :: t
  | a :: t, S n => a :: c04_upd n f t
  end.
(* content after one beginResize/endResize of the source (ws) and/or target (wd) sets towards d *)
Definition c04_merge_content (ws wd : bool) (old d : c04_decomp) : c04_decomp :=
  map (fun on => (if ws then fst (snd on) else fst (fst on), if wd then snd (snd on) else snd (fst on))) (combine old d).

Inductive c04_hop :=
| C04_HSetIndexSets (slot : nat) (hints : option (list (list nat)))   (* setIndexSets(S, T, comm [, neighbours]) *)
| C04_HSetNeighbours (hints : list (list nat))                        (* setNeighbours(c), per rank *)
| C04_HSetIncludeSelf (b : bool)
| C04_HFree
| C04_HRebuild (ign : bool)
| C04_HResize (slot : nat) (ws wd : bool) (d : c04_decomp).

Section Obj.
  Variable result : Type.
  (* result of buildRemote on (content, ignorePublic, includeSelf, neighbourIds of all ranks) *)
  Variable buildf : c04_decomp -> bool -> bool -> list (list nat) -> result.

  Record c04_obj := C04_mkobj {
    c04_ob_slot : option nat;               (* source_/target_: which pair of index sets (None: default constructed) *)
    c04_ob_hints : list (list nat);         (* neighbourIds of every rank *)
    c04_ob_incself : bool; c04_ob_pubIgn : bool; c04_ob_first : bool;
    c04_ob_srcSeqNo : Z; c04_ob_dstSeqNo : Z;
    c04_ob_map : option result }.           (* None: remoteIndices_ empty (never built / free()) *)

  Record c04_sys := C04_mksys { c04_sy_two : bool; c04_sy_P : nat; c04_sy_slots : list c04_slot; c04_sy_obj : c04_obj }.

  Definition c04_no_hints (P : nat) : list (list nat) := repeat [] P.

  (* RemoteIndices() : source_(0), target_(0), sourceSeqNo_(-1), destSeqNo_(-1), publicIgnored(false), firstBuild(true), includeSelf(false) *)
  Definition c04_obj_default (P : nat) : c04_obj := C04_mkobj None (c04_no_hints P) false false true (-1) (-1) None.
  (* RemoteIndices(source, destination, comm, neighbours, includeSelf) *)
  Definition c04_obj_ctor (slot : nat) (hints : list (list nat)) (incself : bool) : c04_obj :=
    C04_mkobj (Some slot) (map c04_set_of hints) incself false true (-1) (-1) None.

  Definition c04_obj_synced (y : c04_sys) : bool :=
    let o := c04_sy_obj y in
    match c04_ob_slot o with
    | None => false
    | Some s => let sl := nth s (c04_sy_slots y) c04_slot_dflt in
                (c04_ob_srcSeqNo o =? c04_sl_srcSeq sl)%Z &&
                (c04_ob_dstSeqNo o =? (if c04_sy_two y then c04_sl_dstSeq sl else c04_sl_srcSeq sl))%Z
    end.

  Definition c04_with_obj (y : c04_sys) (o : c04_obj) : c04_sys := C04_mksys (c04_sy_two y) (c04_sy_P y) (c04_sy_slots y) o.

  Definition c04_hstep (y : c04_sys) (op : c04_hop) : c04_sys :=
    let o := c04_sy_obj y in
    match op with
    | C04_HSetIndexSets s h =>        (* free(); source_=..; target_=..; firstBuild=true; setNeighbours(neighbours) *)
        c04_with_obj y (C04_mkobj (Some s) (match h with Some l => map c04_set_of l | None => c04_no_hints (c04_sy_P y) end)
                                  (c04_ob_incself o) (c04_ob_pubIgn o) true (c04_ob_srcSeqNo o) (c04_ob_dstSeqNo o) None)
    | C04_HSetNeighbours l =>         (* neighbourIds.clear(); insert *)
        c04_with_obj y (C04_mkobj (c04_ob_slot o) (map c04_set_of l) (c04_ob_incself o) (c04_ob_pubIgn o) (c04_ob_first o)
                                  (c04_ob_srcSeqNo o) (c04_ob_dstSeqNo o) (c04_ob_map o))
    | C04_HSetIncludeSelf b =>
        c04_with_obj y (C04_mkobj (c04_ob_slot o) (c04_ob_hints o) b (c04_ob_pubIgn o) (c04_ob_first o)
                                  (c04_ob_srcSeqNo o) (c04_ob_dstSeqNo o) (c04_ob_map o))
    | C04_HFree =>                    (* lists deleted, remoteIndices_.clear(); firstBuild=true *)
        c04_with_obj y (C04_mkobj (c04_ob_slot o) (c04_ob_hints o) (c04_ob_incself o) (c04_ob_pubIgn o) true
                                  (c04_ob_srcSeqNo o) (c04_ob_dstSeqNo o) None)
    | C04_HRebuild ign =>
        match c04_ob_slot o with
        | None => y                   (* null index sets: precondition violated, not generated *)
        | Some s =>
            if c04_ob_first o || negb (Bool.eqb ign (c04_ob_pubIgn o)) || negb (c04_obj_synced y) then
              let sl := nth s (c04_sy_slots y) c04_slot_dflt in
              (* buildRemote: "Nothing to communicate" returns before neighbourIds.erase(rank) *)
              let early := (c04_sy_P y =? 1) && negb (c04_sy_two y || c04_ob_incself o) in
              let hints' := if early then c04_ob_hints o else c04_erase_self (c04_ob_hints o) in
              c04_with_obj y (C04_mkobj (Some s) hints' (c04_ob_incself o) ign false
                                        (c04_sl_srcSeq sl) (if c04_sy_two y then c04_sl_dstSeq sl else c04_sl_srcSeq sl)
                                        (Some (buildf (c04_sl_content sl) ign (c04_ob_incself o) hints')))
            else y
        end
    | C04_HResize s ws wd d =>        (* endResize: seqNo_++ on each resized set; one index set: the target IS the source *)
        C04_mksys (c04_sy_two y) (c04_sy_P y)
          (c04_upd s (fun sl => C04_mkslot (c04_merge_content ws wd (c04_sl_content sl) d)
                                  (c04_sl_srcSeq sl + (if ws then 1 else 0) + (if wd && negb (c04_sy_two y) then 1 else 0))
                                  (c04_sl_dstSeq sl + (if wd && c04_sy_two y then 1 else 0))) (c04_sy_slots y))
          o
    end.

  Definition c04_hrun (y : c04_sys) (ops : list c04_hop) : c04_sys := fold_left c04_hstep ops y.
End Obj.

(* ---- operational semantics of the ring: blocking MPI_Ssend / MPI_Recv ------------------------------------- *)
(* state of one rank: the calls it still has to make (c04_ring_ops, literally), its two buffers, and the calls of
   unpackCreateRemote made so far as (remoteProc, content of p_in) *)
Record c04_rk := C04_mkrk { c04_rk_prog : list (nat * c04_mpi_op); c04_rk_bufs : c04_msg * c04_msg;
                            c04_rk_arr : list (nat * c04_msg) }.
Definition c04_ring_cfg := nat -> c04_rk.                                   (* rank -> state *)
Definition c04_ring_init (P : nat) (msgs : list c04_msg) : c04_ring_cfg :=
  fun p => C04_mkrk (c04_ring_ops P p) (nth p msgs c04_empty_msg, c04_empty_msg) [].
(* a synchronous send completes together with the matching receive: rank p is blocked in MPI_Ssend(to q) and rank q is
   blocked in MPI_Recv(from p).  Some (q, round of the send, round of the receive) *)
Definition c04_ring_enabled (cfg : c04_ring_cfg) (p : nat) : option (nat * nat * nat) :=
  match c04_rk_prog (cfg p) with
  | (ks, C04_Ssend q) :: _ =>
      match c04_rk_prog (cfg q) with
      | (kr, C04_Recv p') :: _ => if (p' =? p) && negb (q =? p) then Some (q, ks, kr) else None
      | _ => None
      end
  | _ => None
  end.
(* the rendezvous: p_out of the sender is copied into p_in of the receiver, which then calls
   unpackCreateRemote(p_in, ..., remoteProc = (rank+procs-proc)%procs); both calls return *)
Definition c04_ring_fire (P : nat) (cfg : c04_ring_cfg) (p : nat) : c04_ring_cfg :=
  match c04_ring_enabled cfg p with
  | None => cfg
  | Some (q, ks, kr) =>
      let data := c04_p_out ks (c04_rk_bufs (cfg p)) in
      fun z => if z =? q then C04_mkrk (tl (c04_rk_prog (cfg q))) (c04_set_p_in kr (c04_rk_bufs (cfg q)) data)
                                       (c04_rk_arr (cfg q) ++ [(c04_ring_source P q kr, data)])
               else if z =? p then C04_mkrk (tl (c04_rk_prog (cfg p))) (c04_rk_bufs (cfg p)) (c04_rk_arr (cfg p))
               else cfg z
  end.
(* run a schedule (list of sending ranks); None if some rendezvous of the schedule is not enabled *)
Fixpoint c04_ring_run (P : nat) (cfg : c04_ring_cfg) (sched : list nat) : option c04_ring_cfg :=
  match sched with
  | [] => Some cfg
  | p :: t => match c04_ring_enabled cfg p with None => None | Some _ => c04_ring_run P (c04_ring_fire P cfg p) t end
  end.

(* ---- operational semantics of the neighbour mode ------------------------------------------------------------ *)
(* MPI_Issend to every neighbour (non-blocking), then |neighbourIds| x (MPI_Probe(MPI_ANY_SOURCE); MPI_Recv from the probed
   source; unpackCreateRemote), then MPI_Waitall on the sends.  State of one rank: the Issends not yet posted, the posted
   Issends not yet matched by a receive, the number of probes still to do, and the sources received so far in order *)
Record c04_nb := C04_mknb { c04_nb_topost : list nat; c04_nb_posted : list nat; c04_nb_nrecv : nat; c04_nb_arr : list nat }.
Definition c04_nb_cfg := nat -> c04_nb.
Definition c04_nb_init (hints : list (list nat)) : c04_nb_cfg :=
  fun p => let h := nth p hints [] in C04_mknb h [] (length h) [].
Fixpoint c04_remove1 (x : nat) (l : list nat) : list nat :=
  match l with [] => [] | y :: t => if x =? y then t else y :: c04_remove1 x t end.
Fixpoint c04_mem (x : nat) (l : list nat) : bool := match l with [] => false | y :: t => (x =? y) || c04_mem x t end.
(* rank p posts its next MPI_Issend *)
Definition c04_nb_post (cfg : c04_nb_cfg) (p : nat) : option c04_nb_cfg :=
  match c04_nb_topost (cfg p) with
  | [] => None
  | d :: t => Some (fun z => if z =? p then C04_mknb t (d :: c04_nb_posted (cfg p)) (c04_nb_nrecv (cfg p)) (c04_nb_arr (cfg p))
                             else cfg z)
  end.
(* rank q (all its sends posted, probes left) probes ANY_SOURCE, is told p (any rank with a posted unmatched send to q), receives *)
Definition c04_nb_recv (cfg : c04_nb_cfg) (q p : nat) : option c04_nb_cfg :=
  match c04_nb_topost (cfg q), c04_nb_nrecv (cfg q) with
  | [], S n =>
      if c04_mem q (c04_nb_posted (cfg p)) && negb (p =? q) then
        Some (fun z => if z =? q then C04_mknb [] (c04_nb_posted (cfg q)) n (c04_nb_arr (cfg q) ++ [p])
                       else if z =? p then C04_mknb (c04_nb_topost (cfg p)) (c04_remove1 q (c04_nb_posted (cfg p)))
                                                    (c04_nb_nrecv (cfg p)) (c04_nb_arr (cfg p))
                       else cfg z)
      else None
  | _, _ => None
  end.
(* a schedule: inl p = post of p, inr (q, p) = q receives from p *)
Fixpoint c04_nb_run (cfg : c04_nb_cfg) (sched : list (nat + nat * nat)) : option c04_nb_cfg :=
  match sched with
  | [] => Some cfg
  | inl p :: t => match c04_nb_post cfg p with None => None | Some c => c04_nb_run c t end
  | inr (q, p) :: t => match c04_nb_recv cfg q p with None => None | Some c => c04_nb_run c t end
  end.

(* ---- dimension audit 2 --------------------------------------------------------------------------------------- *)
(* includeSelf is a per-process constructor argument / setter: it may differ from process to process (incs[rank]);
   buildRemote(includeSelf_) uses it for the own message and for the "nothing to communicate" test only *)
Definition c04_build_incs (two ign : bool) (incs : list bool) (d : c04_decomp) (mode : option (list (list nat)))
  : list (c04_res c04_rmap) :=
  let P := length d in
  let msgs := c04_msgs ign two d in
  map (fun rank => let st := nth rank d ([], []) in
                   c04_build_rank P rank two ign (nth rank incs false) (fst st) (snd st) (c04_arrivals P rank msgs mode))
      (seq 0 P).

(* the communicator comm_: a data member written by the constructor and by setIndexSets, read by buildRemote
   (MPI_Comm_rank / MPI_Comm_size / every send and receive).  Communicators over the same P processes are named by a number:
   0 the given one, 1 a duplicate (MPI_Comm_dup: same ranks), 2 ranks reversed (MPI_Comm_split, key = -rank),
   3 ranks rotated (key = (rank + 1) mod P).  c04_comm_world k P i = the process (numbered as in communicator 0) that has
   rank i in communicator k.  Index sets belong to processes; buildRemote sees them through the communicator's numbering. *)
Definition c04_comm_world (k P i : nat) : nat :=
  match k with
  | 2 => P - 1 - i
  | 3 => (i + P - 1) mod P
  | _ => i
  end.
Definition c04_comm_view {A} (k : nat) (dflt : A) (l : list A) : list A :=
  map (fun i => nth (c04_comm_world k (length l) i) l dflt) (seq 0 (length l)).
(* buildRemote of all processes on communicator k; result and hints are indexed by the rank IN communicator k *)
Definition c04_obj_buildf_comm (two : bool) (k : nat) (d : c04_decomp) (ign incself : bool) (hints : list (list nat))
  : list (c04_res c04_rmap) :=
  c04_obj_buildf two (c04_comm_view k ([], []) d) ign incself hints.

Inductive c04_hopc :=
| C04_CSetIndexSets (slot comm : nat) (hints : option (list (list nat)))   (* setIndexSets(S, T, comm [, neighbours]) *)
| C04_COp (op : c04_hop).                                                  (* any other member: comm_ untouched *)

Section ObjComm.
  Variable result : Type.
  Variable buildfc : nat -> c04_decomp -> bool -> bool -> list (list nat) -> result.
  (* the object of Section Obj plus comm_; neighbourIds (c04_ob_hints) are indexed by the rank in comm_ *)
  Record c04_sysc := C04_mksysc { c04_sc_sys : c04_sys result; c04_sc_comm : nat }.
  Definition c04_hstepc (yc : c04_sysc) (op : c04_hopc) : c04_sysc :=
    match op with
    | C04_CSetIndexSets s k h =>      (* free(); source_ = ..; target_ = ..; comm_ = comm; firstBuild = true; setNeighbours(..) *)
        C04_mksysc (c04_hstep result (buildfc k) (c04_sc_sys yc) (C04_HSetIndexSets s h)) k
    | C04_COp o =>                    (* rebuild -> buildRemote reads comm_ *)
        C04_mksysc (c04_hstep result (buildfc (c04_sc_comm yc)) (c04_sc_sys yc) o) (c04_sc_comm yc)
    end.
  Definition c04_hrunc (yc : c04_sysc) (ops : list c04_hopc) : c04_sysc := fold_left c04_hstepc ops yc.
End ObjComm.
