(* C04 — proofs, part 1: the merge-join loop of unpackIndices computes the join comprehension. *)
From Coq Require Import List Arith Bool Lia.
From DuneV Require Import C04_Model C04_Spec.
Import ListNotations.

(* ---- sortedness ---------------------------------------------------------------------------------------- *)
Lemma c04_sortedb_ok : forall l, c04_sortedb l = true <-> c04_sorted l.
Proof.
  induction l as [|a t IH]; simpl; [tauto|].
  rewrite andb_true_iff, forallb_forall, IH.
  split; intros [H1 H2]; split; auto; intros b Hb; specialize (H1 b Hb).
  - apply Nat.leb_le; exact H1.
  - apply Nat.leb_le; exact H1.
Qed.

Lemma c04_sorted_tail : forall a t, c04_sorted (a :: t) -> c04_sorted t.
Proof. simpl; tauto. Qed.

Lemma c04_sorted_filter : forall f l, c04_sorted l -> c04_sorted (filter f l).
Proof.
  induction l as [|a t IH]; simpl; auto.
  intros [H1 H2]. destruct (f a); simpl; auto.
  split; auto. intros b Hb. apply filter_In in Hb. apply H1, Hb.
Qed.

Lemma c04_sorted_published : forall ign l, c04_sorted l -> c04_sorted (c04_published ign l).
Proof. intros; apply c04_sorted_filter; auto. Qed.

(* ---- facts about the join ---------------------------------------------------------------------------- *)
Definition c04_row (fs : bool) (loc : list c04_pair) (r : c04_pair) : list c04_rentry :=
  map (fun l => (c04_attr r, l)) (filter (c04_match fs r) loc).

Lemma c04_join_cons : forall fs loc r R, c04_join fs loc (r :: R) = c04_row fs loc r ++ c04_join fs loc R.
Proof. reflexivity. Qed.

Lemma c04_join_nil_l : forall fs R, c04_join fs [] R = [].
Proof. induction R; simpl; auto. Qed.

Lemma c04_row_none : forall fs loc r, (forall l, In l loc -> c04_g l <> c04_g r) -> c04_row fs loc r = [].
Proof.
  intros fs loc r H. unfold c04_row.
  induction loc as [|l t IH]; simpl; auto.
  unfold c04_match at 1. destruct (Nat.eqb_spec (c04_g l) (c04_g r)) as [E|E].
  - exfalso. apply (H l); simpl; auto.
  - simpl. apply IH. intros; apply H; simpl; auto.
Qed.

(* a local pair below every remote pair contributes nothing *)
Lemma c04_join_drop_local : forall fs l loc R, (forall r, In r R -> c04_g l < c04_g r) ->
  c04_join fs (l :: loc) R = c04_join fs loc R.
Proof.
  induction R as [|r R IH]; intros H; auto.
  rewrite !c04_join_cons, IH by (intros; apply H; simpl; auto).
  f_equal. unfold c04_row. simpl. unfold c04_match at 1.
  destruct (Nat.eqb_spec (c04_g l) (c04_g r)) as [E|E]; simpl; auto.
  specialize (H r (or_introl eq_refl)). lia.
Qed.

(* the inner loop: emits the row of `index` over the run of equal globals and stops behind it *)
Lemma c04_run_spec : forall fs index loc, c04_sorted loc -> (forall l, In l loc -> c04_g index <= c04_g l) ->
  let (o, r) := c04_run fs index loc in
  o = c04_row fs loc index /\ (exists run, loc = run ++ r /\ forall l, In l run -> c04_g l = c04_g index) /\
  (forall l, In l r -> c04_g index < c04_g l).
Proof.
  induction loc as [|l t IH]; intros Hs Hge; simpl.
  - split; auto. split; [exists []; split; auto; intros ? []|intros ? []].
  - destruct (Nat.eqb_spec (c04_g l) (c04_g index)) as [E|E].
    + destruct Hs as [Hs1 Hs2].
      specialize (IH Hs2 (fun x Hx => Hge x (or_intror Hx))).
      destruct (c04_run fs index t) as [o r]. destruct IH as [Ho [[run [Hr1 Hr2]] Hgt]].
      split; [|split].
      * unfold c04_row. simpl. unfold c04_match at 1. rewrite (proj2 (Nat.eqb_eq _ _) E). simpl.
        destruct (c04_keep fs index l); simpl; rewrite Ho; reflexivity.
      * exists (l :: run). split; [simpl; rewrite Hr1; auto|]. intros x [<-|Hx]; auto.
      * exact Hgt.
    + split; [|split].
      * symmetry. apply c04_row_none. intros x [<-|Hx]; auto.
        destruct Hs as [Hs1 _]. specialize (Hs1 x Hx). specialize (Hge l (or_introl eq_refl)). lia.
      * exists []. split; auto. intros ? [].
      * intros x [<-|Hx].
        -- specialize (Hge l (or_introl eq_refl)). lia.
        -- destruct Hs as [Hs1 _]. specialize (Hs1 x Hx). specialize (Hge l (or_introl eq_refl)). lia.
Qed.

Lemma c04_join_drop_run : forall fs run loc R, (forall l r, In l run -> In r R -> c04_g l < c04_g r) ->
  c04_join fs (run ++ loc) R = c04_join fs loc R.
Proof.
  induction run as [|l run IH]; intros loc R H; simpl; auto.
  rewrite c04_join_drop_local; [apply IH|]; intros; apply H; simpl; auto.
Qed.

(* ---- the outer loop ------------------------------------------------------------------------------------ *)
Lemma c04_unpack_loop_join : forall K fs fuel index rest loc out,
  c04_sorted loc -> c04_sorted (index :: rest) -> length loc <= K ->
  length rest * S K + length loc < fuel ->
  c04_unpack_loop fuel fs index (c04_g index) rest loc out = C04_Ok (out ++ c04_join fs loc (index :: rest)).
Proof.
  intros K fs. induction fuel as [|fuel IH]; intros index rest loc out Hl Hr HK Hf; [lia|].
  cbn [c04_unpack_loop]. destruct loc as [|l loc'].
  - rewrite c04_join_nil_l, app_nil_r. reflexivity.
  - destruct (Nat.eqb_spec (c04_g l) (c04_g index)) as [E|E].
    + (* match: inner run *)
      assert (Hge : forall x, In x (l :: loc') -> c04_g index <= c04_g x).
      { intros x [<-|Hx]; [lia|]. destruct Hl as [H1 _]. specialize (H1 x Hx). lia. }
      pose proof (c04_run_spec fs index (l :: loc') Hl Hge) as Hrun.
      destruct (c04_run fs index (l :: loc')) as [o loc1]. destruct Hrun as [Ho [[run [Hr1 Hr2]] Hgt]].
      destruct rest as [|index' rest'].
      * rewrite c04_join_cons. simpl c04_join. rewrite app_nil_r, Ho. reflexivity.
      * destruct Hr as [Hr1' Hr2'].
        destruct (Nat.eqb_spec (c04_g index') (c04_g index)) as [E'|E'].
        -- (* restart at oldLocalIndex *)
           rewrite <- E'. rewrite IH; auto.
           ++ rewrite <- app_assoc, Ho. reflexivity.
           ++ simpl in Hf |- *. lia.
        -- assert (Hlt : c04_g index < c04_g index') by (specialize (Hr1' index' (or_introl eq_refl)); lia).
           rewrite IH; auto.
           ++ rewrite <- app_assoc, Ho, (c04_join_cons fs (l :: loc') index). do 3 f_equal.
              rewrite Hr1. symmetry. apply c04_join_drop_run.
              intros x r Hx Hrr. rewrite (Hr2 x Hx).
              destruct Hrr as [<-|Hrr]; auto. destruct Hr2' as [H3 _]. specialize (H3 r Hrr). lia.
           ++ (* loc1 is a suffix of a sorted list *)
              clear - Hl Hr1. rewrite Hr1 in Hl. clear Hr1. induction run; simpl in *; auto. apply IHrun, Hl.
           ++ assert (length loc1 <= length (l :: loc')) by (rewrite Hr1, app_length; lia). lia.
           ++ assert (length loc1 <= length (l :: loc')) by (rewrite Hr1, app_length; lia). simpl in Hf |- *. lia.
    + destruct (Nat.ltb_spec (c04_g l) (c04_g index)) as [Lt|Ge].
      * (* ++localIndex *)
        rewrite IH; auto.
        -- f_equal. f_equal. symmetry. apply c04_join_drop_local.
           intros r [<-|Hrr]; auto. destruct Hr as [H1 _]. specialize (H1 r Hrr). lia.
        -- apply (c04_sorted_tail _ _ Hl).
        -- simpl in HK. lia.
        -- simpl in Hf |- *. lia.
      * (* we do not know the index: unpack next *)
        assert (Hnone : c04_row fs (l :: loc') index = []).
        { apply c04_row_none. intros x [<-|Hx]; [lia|]. destruct Hl as [H1 _]. specialize (H1 x Hx). lia. }
        destruct rest as [|index' rest'].
        -- rewrite c04_join_cons, Hnone. simpl. rewrite app_nil_r. reflexivity.
        -- rewrite IH; auto.
           ++ rewrite (c04_join_cons fs (l :: loc') index), Hnone. reflexivity.
           ++ apply (c04_sorted_tail _ _ Hr).
           ++ simpl in Hf |- *. lia.
Qed.

(* C04_unpack_is_join *)
Theorem P_unpack_is_join : forall local remote fromSelf, c04_sorted local -> c04_sorted remote ->
  c04_unpack1 local remote fromSelf = C04_Ok (c04_join fromSelf local remote).
Proof.
  intros local remote fs Hl Hr. destruct remote as [|index rest]; [reflexivity|].
  unfold c04_unpack1. rewrite (c04_unpack_loop_join (length local)); auto.
  unfold c04_unpack_fuel. simpl. lia.
Qed.

(* for pairwise distinct globals the join is the ascending enumeration of the intersection:
   every global occurs at most once in the result, and the result is ascending *)
Lemma c04_join_In : forall fs loc R a l, In (a, l) (c04_join fs loc R) <->
  exists r, In r R /\ In l loc /\ c04_g l = c04_g r /\ a = c04_attr r /\ c04_keep fs r l = true.
Proof.
  intros fs loc R a l. unfold c04_join. rewrite in_flat_map. split.
  - intros [r [Hr H]]. apply in_map_iff in H. destruct H as [l' [E H]]. inversion E; subst.
    apply filter_In in H. destruct H as [Hl Hm]. unfold c04_match in Hm. apply andb_true_iff in Hm.
    destruct Hm as [Hg Hk]. apply Nat.eqb_eq in Hg. exists r; auto.
  - intros [r [Hr [Hl [Hg [-> Hk]]]]]. exists r. split; auto. apply in_map_iff. exists l. split; auto.
    apply filter_In. split; auto. unfold c04_match. rewrite (proj2 (Nat.eqb_eq _ _) Hg), Hk. reflexivity.
Qed.

Definition c04_entries_sorted (l : list c04_rentry) : Prop := c04_sorted (map snd l).

Lemma c04_row_sorted_aux : forall fs loc r, c04_sorted loc -> c04_sorted (map snd (c04_row fs loc r)).
Proof.
  intros. unfold c04_row. rewrite map_map. simpl. rewrite map_id. apply c04_sorted_filter; auto.
Qed.

Lemma c04_sorted_app : forall a b, c04_sorted a -> c04_sorted b -> (forall x y, In x a -> In y b -> c04_g x <= c04_g y) ->
  c04_sorted (a ++ b).
Proof.
  induction a as [|x a IH]; simpl; auto. intros b [H1 H2] Hb H. split.
  - intros y Hy. apply in_app_or in Hy. destruct Hy; auto.
  - apply IH; auto.
Qed.

Theorem P_join_sorted : forall fs loc R, c04_sorted loc -> c04_sorted R -> c04_entries_sorted (c04_join fs loc R).
Proof.
  intros fs loc R Hl. unfold c04_entries_sorted. induction R as [|r R IH]; intros Hr; simpl; auto.
  rewrite map_app. destruct Hr as [Hr1 Hr2]. apply c04_sorted_app.
  - apply c04_row_sorted_aux; auto.
  - apply IH; auto.
  - intros x y Hx Hy. apply in_map_iff in Hx. destruct Hx as [[a l] [<- Hx]].
    apply in_map_iff in Hy. destruct Hy as [[a' l'] [<- Hy]]. simpl.
    unfold c04_row in Hx. apply in_map_iff in Hx. destruct Hx as [l0 [E Hx]]. inversion E; subst.
    apply filter_In in Hx. destruct Hx as [_ Hm]. unfold c04_match in Hm. apply andb_true_iff in Hm.
    destruct Hm as [Hg _]. apply Nat.eqb_eq in Hg.
    apply (c04_join_In fs loc R a' l') in Hy. destruct Hy as [r' [Hr' [_ [Hg' _]]]].
    specialize (Hr1 r' Hr'). lia.
Qed.

(* with pairwise distinct globals on both sides: exactly one entry per shared global *)
Lemma c04_filter_distinct_le1 : forall f loc, c04_distinct loc -> (forall x y, f x = true -> f y = true -> c04_g x = c04_g y) ->
  length (filter f loc) <= 1.
Proof.
  induction loc as [|l t IH]; simpl; auto. intros [H1 H2] Hf.
  destruct (f l) eqn:E; simpl; auto.
  assert (filter f t = []) as ->; simpl; auto.
  clear IH. induction t as [|x t IHt]; simpl; auto.
  destruct (f x) eqn:Ex.
  - exfalso. apply (H1 x); simpl; auto.
  - apply IHt; simpl in *; try tauto. intros; apply H1; simpl; auto.
Qed.

Lemma c04_row_le1 : forall fs loc r, c04_distinct loc -> length (c04_row fs loc r) <= 1.
Proof.
  intros. unfold c04_row. rewrite map_length. apply c04_filter_distinct_le1; auto.
  intros x y Hx Hy. unfold c04_match in *. apply andb_true_iff in Hx, Hy. destruct Hx as [Hx _], Hy as [Hy _].
  apply Nat.eqb_eq in Hx, Hy. lia.
Qed.

Lemma c04_row_g : forall fs loc r e, In e (c04_row fs loc r) -> c04_g (snd e) = c04_g r.
Proof.
  intros fs loc r e H. unfold c04_row in H. apply in_map_iff in H. destruct H as [l [<- H]]. simpl.
  apply filter_In in H. destruct H as [_ Hm]. unfold c04_match in Hm. apply andb_true_iff in Hm.
  destruct Hm as [Hm _]. apply Nat.eqb_eq in Hm. exact Hm.
Qed.

(* "exactly one entry per global index": with pairwise distinct globals on both sides the globals of the
   result are pairwise distinct *)
Theorem P_join_distinct : forall fs loc R, c04_distinct loc -> c04_distinct R ->
  c04_distinct (map snd (c04_join fs loc R)).
Proof.
  intros fs loc R Hl. induction R as [|r R IH]; intros Hr; simpl; auto.
  destruct Hr as [Hr1 Hr2]. specialize (IH Hr2). fold (c04_row fs loc r).
  pose proof (c04_row_le1 fs loc r Hl) as Hlen. pose proof (c04_row_g fs loc r) as Hg.
  destruct (c04_row fs loc r) as [|e [|e' t]]; simpl in *; auto; [|lia].
  split; auto. intros b Hb. apply in_map_iff in Hb. destruct Hb as [[a l] [<- Hb]]. simpl.
  apply c04_join_In in Hb. destruct Hb as [r' [Hr' [_ [Hg' _]]]].
  rewrite (Hg e (or_introl eq_refl)), Hg'. apply Hr1; auto.
Qed.
