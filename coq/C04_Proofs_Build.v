(* C04 — proofs, part 2: the ring delivers every other rank's buffer once; the map built over ANY admissible
   arrival order is the set-comprehension spec. *)
From Coq Require Import List Arith Bool Lia Permutation.
From DuneV Require Import C04_Model C04_Spec C04_Proofs.
Import ListNotations.

(* ---- arithmetic of (rank+procs-proc)%procs ---------------------------------------------------------- *)
Lemma c04_mod_cases : forall x P, 0 < P -> x < 2 * P -> x mod P = if x <? P then x else x - P.
Proof.
  intros x P HP Hx. destruct (Nat.ltb_spec x P) as [L|G].
  - apply Nat.mod_small; auto.
  - replace x with ((x - P) + 1 * P) at 1 by lia. rewrite Nat.mod_add by lia. apply Nat.mod_small. lia.
Qed.

Lemma c04_ring_source_cases : forall P rank proc, rank < P -> proc <= P ->
  c04_ring_source P rank proc = if rank + P - proc <? P then rank + P - proc else rank - proc.
Proof.
  intros P rank proc Hr Hp. unfold c04_ring_source. rewrite c04_mod_cases by lia.
  destruct (rank + P - proc <? P); lia.
Qed.

Lemma c04_nth_map_seq : forall {A} (f : nat -> A) n r d, r < n -> nth r (map f (seq 0 n)) d = f r.
Proof.
  intros A f n r d H. rewrite (nth_indep _ d (f 0)) by (rewrite map_length, seq_length; auto).
  rewrite map_nth, seq_nth; auto.
Qed.

Lemma c04_NoDup_map_in : forall {A B} (f : A -> B) l,
  (forall x y, In x l -> In y l -> f x = f y -> x = y) -> NoDup l -> NoDup (map f l).
Proof.
  induction l as [|a l IH]; intros Hinj Hnd; simpl; [constructor|].
  inversion Hnd; subst. constructor.
  - intros Hin. apply in_map_iff in Hin. destruct Hin as [y [Hy Hyl]].
    assert (y = a) by (apply Hinj; simpl; auto). subst. contradiction.
  - apply IH; auto. intros; apply Hinj; simpl; auto.
Qed.

Definition c04_ring_sources (P rank : nat) : list nat := map (c04_ring_source P rank) (seq 1 (P - 1)).

(* C04_ring_complete, first half: the P-1 rounds visit every other rank exactly once *)
Theorem P_ring_sources_perm : forall P rank, rank < P ->
  NoDup (c04_ring_sources P rank) /\ forall q, In q (c04_ring_sources P rank) <-> (q < P /\ q <> rank).
Proof.
  intros P rank Hr. split.
  - apply c04_NoDup_map_in; [|apply seq_NoDup].
    intros x y Hx Hy. apply in_seq in Hx, Hy.
    rewrite !c04_ring_source_cases by lia.
    destruct (Nat.ltb_spec (rank + P - x) P), (Nat.ltb_spec (rank + P - y) P); lia.
  - intros q. unfold c04_ring_sources. rewrite in_map_iff. split.
    + intros [k [<- Hk]]. apply in_seq in Hk. rewrite c04_ring_source_cases by lia.
      destruct (Nat.ltb_spec (rank + P - k) P); lia.
    + intros [Hq Hne]. exists (if q <? rank then rank - q else rank + P - q).
      destruct (Nat.ltb_spec q rank); (split; [rewrite c04_ring_source_cases by lia|apply in_seq; lia]).
      * destruct (Nat.ltb_spec (rank + P - (rank - q)) P); lia.
      * destruct (Nat.ltb_spec (rank + P - (rank + P - q)) P); lia.
Qed.

(* ---- the alternating buffers ----------------------------------------------------------------------- *)
Definition c04_dflt := (c04_empty_msg, c04_empty_msg).

(* after k rounds the buffer that rank r sends next holds the message packed by rank (r-k) mod P *)
Definition c04_ring_inv (P k : nat) (msgs : list c04_msg) (bufs : c04_bufs) : Prop :=
  forall r, r < P -> c04_p_out (S k) (nth r bufs c04_dflt) = nth (c04_ring_source P r k) msgs c04_empty_msg.

Lemma c04_p_out_set : forall proc b m, c04_p_out (S proc) (c04_set_p_in proc b m) = m.
Proof.
  intros. unfold c04_p_out, c04_set_p_in. rewrite Nat.even_succ, <- Nat.negb_even.
  destruct (Nat.even proc); reflexivity.
Qed.

Lemma c04_p_in_out : forall proc b, c04_p_in proc b = c04_p_out (S proc) b.
Proof.
  intros. unfold c04_p_out, c04_p_in. rewrite Nat.even_succ, <- Nat.negb_even.
  destruct (Nat.even proc); reflexivity.
Qed.

Lemma c04_ring_inv_step : forall P k msgs bufs, S k < P ->
  c04_ring_inv P k msgs bufs -> c04_ring_inv P (S k) msgs (c04_ring_round P (S k) bufs).
Proof.
  intros P k msgs bufs Hk Hinv r Hr. unfold c04_ring_round.
  rewrite c04_nth_map_seq by auto. rewrite c04_p_out_set.
  fold c04_dflt. rewrite Hinv by (apply Nat.mod_upper_bound; lia). f_equal.
  rewrite (c04_ring_source_cases P r (S k)) by lia.
  assert (Hm : (r + P - 1) mod P = if r + P - 1 <? P then r + P - 1 else r - 1).
  { rewrite c04_mod_cases by lia. destruct (r + P - 1 <? P); lia. }
  rewrite Hm. destruct (Nat.ltb_spec (r + P - 1) P); rewrite c04_ring_source_cases by lia.
  - destruct (Nat.ltb_spec (r + P - 1 + P - k) P), (Nat.ltb_spec (r + P - S k) P); lia.
  - destruct (Nat.ltb_spec (r - 1 + P - k) P), (Nat.ltb_spec (r + P - S k) P); lia.
Qed.

Lemma c04_ring_arrivals_from_spec : forall n P rank proc msgs bufs, rank < P -> 0 < proc -> proc + n <= P ->
  c04_ring_inv P (proc - 1) msgs bufs ->
  c04_ring_arrivals_from n P rank proc bufs =
  map (fun k => (c04_ring_source P rank k, nth (c04_ring_source P rank k) msgs c04_empty_msg)) (seq proc n).
Proof.
  induction n as [|n IH]; intros P rank proc msgs bufs Hr Hp Hn Hinv; simpl; auto.
  assert (Hinv' : c04_ring_inv P proc msgs (c04_ring_round P proc bufs)).
  { destruct proc as [|k]; [lia|]. simpl in Hinv. rewrite Nat.sub_0_r in Hinv. apply c04_ring_inv_step; auto; lia. }
  f_equal.
  - f_equal. fold c04_dflt. rewrite c04_p_in_out. apply Hinv'; auto.
  - apply IH; auto; try lia. replace (S proc - 1) with proc by lia. exact Hinv'.
Qed.

(* C04_ring_complete, second half: what arrives in round k is the buffer packed by ring_source P rank k *)
Theorem P_ring_arrivals : forall P rank msgs, length msgs = P -> rank < P ->
  c04_ring_arrivals P rank msgs =
  map (fun q => (q, nth q msgs c04_empty_msg)) (c04_ring_sources P rank).
Proof.
  intros P rank msgs Hlen Hr. unfold c04_ring_arrivals, c04_ring_sources.
  rewrite (c04_ring_arrivals_from_spec (P - 1) P rank 1 msgs); auto; try lia.
  - rewrite map_map. reflexivity.
  - intros r Hrr. simpl. unfold c04_p_out. simpl.
    rewrite (nth_indep _ c04_dflt ((fun m => (m, c04_empty_msg)) c04_empty_msg)) by (rewrite map_length; lia).
    rewrite (map_nth (fun m => (m, c04_empty_msg))). simpl.
    unfold c04_ring_source. rewrite Nat.sub_0_r.
    replace (r + P) with (r + 1 * P) by lia. rewrite Nat.mod_add by lia. rewrite Nat.mod_small; auto.
Qed.

(* ---- unpackCreateRemote on consistent configurations ------------------------------------------------ *)
Definition c04_some_nonempty (x : c04_lists) : option c04_lists := if c04_lists_empty x then None else Some x.

Lemma c04_unpack_create_spec : forall ign two fs (sp sq : list c04_pair * list c04_pair),
  c04_sorted (fst sp) -> c04_sorted (snd sp) -> c04_sorted (fst sq) -> c04_sorted (snd sq) ->
  c04_unpack_create (c04_pack ign two (fst sq) (snd sq))
     (c04_published ign (fst sp)) (if two then c04_published ign (snd sp) else c04_published ign (fst sp)) two fs
  = C04_Ok (c04_some_nonempty (c04_spec_lists ign two fs sp sq)).
Proof.
  intros ign two fs [s1 t1] [s2 t2] H1 H2 H3 H4. simpl in *.
  unfold c04_unpack_create, c04_pack, c04_spec_lists, c04_tgt. simpl.
  destruct two; simpl.
  - rewrite !P_unpack_is_join by (apply c04_sorted_published; auto). simpl. reflexivity.
  - rewrite !P_unpack_is_join by (apply c04_sorted_published; auto). simpl. reflexivity.
Qed.

(* ---- the map ------------------------------------------------------------------------------------------ *)
Fixpoint c04_ksorted (m : c04_rmap) : Prop :=
  match m with [] => True | (k, _) :: t => (forall e, In e t -> k < fst e) /\ c04_ksorted t end.

Lemma c04_insert_spec : forall q x m, c04_ksorted m -> ~ In q (map fst m) ->
  c04_ksorted (c04_insert q x m) /\ forall e, In e (c04_insert q x m) <-> (e = (q, x) \/ In e m).
Proof.
  induction m as [|[k v] t IH]; intros Hs Hq; simpl.
  - split; [split; auto; intros ? []|]. intros e; split; intros [H|H]; auto; contradiction.
  - destruct Hs as [Hs1 Hs2]. destruct (Nat.ltb_spec q k) as [L|G].
    + split.
      * simpl. split; [|split; auto]. intros e [<-|He]; simpl; auto. specialize (Hs1 e He). lia.
      * intros e; simpl; split; intros [H|H]; auto.
    + destruct (Nat.eqb_spec q k) as [E|E]; [exfalso; apply Hq; simpl; auto|].
      assert (Hq' : ~ In q (map fst t)) by (intros H; apply Hq; simpl; auto).
      destruct (IH Hs2 Hq') as [IH1 IH2]. split.
      * simpl. split; auto. intros e He. apply IH2 in He. destruct He as [->|He]; simpl; auto. lia.
      * intros e; simpl; rewrite IH2; tauto.
Qed.

Lemma c04_ksorted_ext : forall a b, c04_ksorted a -> c04_ksorted b -> (forall e, In e a <-> In e b) -> a = b.
Proof.
  induction a as [|[k v] a IH]; intros b Ha Hb H.
  - destruct b as [|e b]; auto. exfalso. apply (H e). simpl; auto.
  - destruct b as [|[k' v'] b]; [exfalso; apply (H (k, v)); simpl; auto|].
    destruct Ha as [Ha1 Ha2], Hb as [Hb1 Hb2].
    assert (E : (k, v) = (k', v')).
    { destruct (proj1 (H (k, v)) (or_introl eq_refl)) as [E|Hin]; auto.
      destruct (proj2 (H (k', v')) (or_introl eq_refl)) as [E|Hin']; auto.
      specialize (Hb1 _ Hin). specialize (Ha1 _ Hin'). simpl in *. lia. }
    inversion E; subst. f_equal. apply IH; auto.
    intros e; split; intros He.
    + destruct (proj1 (H e) (or_intror He)) as [<-|]; auto. specialize (Ha1 _ He). simpl in Ha1. lia.
    + destruct (proj2 (H e) (or_intror He)) as [<-|]; auto. specialize (Hb1 _ He). simpl in Hb1. lia.
Qed.

(* inserting the non-empty entries f q for q in qs *)
Definition c04_ins_all (f : nat -> c04_lists) (qs : list nat) (m0 : c04_rmap) : c04_rmap :=
  fold_left (fun m q => match c04_some_nonempty (f q) with None => m | Some x => c04_insert q x m end) qs m0.

Lemma c04_ins_all_spec : forall f qs m0, c04_ksorted m0 -> NoDup qs -> (forall q, In q qs -> ~ In q (map fst m0)) ->
  c04_ksorted (c04_ins_all f qs m0) /\
  forall e, In e (c04_ins_all f qs m0) <-> (In e m0 \/ (In (fst e) qs /\ snd e = f (fst e) /\ c04_lists_empty (f (fst e)) = false)).
Proof.
  induction qs as [|q qs IH]; intros m0 Hs Hnd Hk.
  - simpl. split; auto. intros e; split; auto. intros [H|[[] _]]; auto.
  - inversion Hnd; subst.
    change (c04_ins_all f (q :: qs) m0) with
      (c04_ins_all f qs (match c04_some_nonempty (f q) with None => m0 | Some x => c04_insert q x m0 end)).
    unfold c04_some_nonempty. destruct (c04_lists_empty (f q)) eqn:E.
    + destruct (IH m0 Hs H2 (fun x Hx => Hk x (or_intror Hx))) as [I1 I2]. split; auto.
      intros e. rewrite I2. split; intros [H|[Hin [Hv Hne]]]; auto.
      * right; simpl; auto.
      * destruct Hin as [Eq|Hin]; [rewrite <- Eq in Hne; congruence|]. right; auto.
    + destruct (c04_insert_spec q (f q) m0 Hs (Hk q (or_introl eq_refl))) as [J1 J2].
      assert (Hk' : forall x, In x qs -> ~ In x (map fst (c04_insert q (f q) m0))).
      { intros x Hx Hin. apply in_map_iff in Hin. destruct Hin as [e [<- He]]. apply J2 in He.
        destruct He as [->|He]; simpl in *; [contradiction|].
        apply (Hk (fst e)); auto. apply in_map; auto. }
      destruct (IH _ J1 H2 Hk') as [I1 I2]. split; auto.
      intros e. rewrite I2, J2. split.
      * intros [[->|H]|[Hin [Hv Hne]]]; auto; right; simpl; auto.
      * intros [H|[[Eq|Hin] [Hv Hne]]]; auto. left; left. destruct e as [k v]; simpl in *. subst. reflexivity.
Qed.

Lemma c04_flat_spec : forall (g : nat -> c04_lists) n a,
  let l := flat_map (fun q => if c04_lists_empty (g q) then [] else [(q, g q)]) (seq a n) in
  c04_ksorted l /\ forall e, In e l <-> (a <= fst e < a + n /\ snd e = g (fst e) /\ c04_lists_empty (g (fst e)) = false).
Proof.
  induction n as [|n IH]; intros a; simpl.
  - split; auto. intros e; split; [intros []|lia].
  - destruct (IH (S a)) as [I1 I2]. destruct (c04_lists_empty (g a)) eqn:E; simpl.
    + split; auto. intros e. rewrite I2. split; intros [H1 [H2 H3]]; repeat split; auto; try lia.
      destruct (Nat.eq_dec (fst e) a); [subst; congruence|lia].
    + split.
      * split; auto. intros e He. apply I2 in He. simpl. lia.
      * intros e. rewrite I2. split.
        -- intros [<-|[H1 [H2 H3]]]; simpl; repeat split; auto; lia.
        -- intros [H1 [H2 H3]]. destruct (Nat.eq_dec (fst e) a) as [Ea|Ea].
           ++ left. destruct e; simpl in *; subst; auto.
           ++ right. repeat split; auto; lia.
Qed.

(* the fold over the arrivals is the insertion of the spec entries *)
Lemma c04_fold_arrivals : forall (ign two : bool) d p qs m0, c04_decomp_sorted d -> p < length d ->
  (forall q, In q qs -> q < length d) ->
  let sp := nth p d ([], []) in
  fold_left (c04_step_arrival (c04_published ign (fst sp))
               (if two then c04_published ign (snd sp) else c04_published ign (fst sp)) two)
            (map (fun q => (q, nth q (c04_msgs ign two d) c04_empty_msg)) qs) (C04_Ok m0)
  = C04_Ok (c04_ins_all (fun q => c04_spec_lists ign two false sp (nth q d ([], []))) qs m0).
Proof.
  intros ign two d p qs m0 Hd Hp. revert m0. induction qs as [|q qs IH]; intros m0 Hq sp; [reflexivity|].
  cbn [map fold_left]. unfold c04_step_arrival at 2. cbn [c04_bind fst snd].
  assert (Hql : q < length d) by (apply Hq; simpl; auto).
  assert (Hm : nth q (c04_msgs ign two d) c04_empty_msg = c04_pack ign two (fst (nth q d ([], []))) (snd (nth q d ([], [])))).
  { unfold c04_msgs.
    rewrite (nth_indep _ c04_empty_msg ((fun st => c04_pack ign two (fst st) (snd st)) ([], []))) by (rewrite map_length; auto).
    rewrite (map_nth (fun st => c04_pack ign two (fst st) (snd st))). reflexivity. }
  rewrite Hm.
  destruct (Hd (nth p d ([], [])) (nth_In _ _ Hp)) as [S1 S2].
  destruct (Hd (nth q d ([], [])) (nth_In _ _ Hql)) as [S3 S4].
  unfold sp. rewrite (c04_unpack_create_spec ign two false (nth p d ([], [])) (nth q d ([], []))); auto.
  cbn [c04_bind]. fold sp. rewrite IH by (intros; apply Hq; simpl; auto). reflexivity.
Qed.

(* C04_spec, generic form: any list qs of distinct other ranks that contains every rank sharing a published index *)
Theorem P_build_rank_spec : forall (ign two incself : bool) d p qs,
  c04_decomp_sorted d -> p < length d -> c04_hints_ok ign two incself d p qs ->
  c04_build_rank (length d) p two ign incself (fst (nth p d ([], []))) (snd (nth p d ([], [])))
                 (map (fun q => (q, nth q (c04_msgs ign two d) c04_empty_msg)) qs)
  = C04_Ok (c04_spec_rank ign two incself d p).
Proof.
  intros ign two incself d p qs Hd Hp [Hnd [Hrange Hcover]].
  set (sp := nth p d ([], [])).
  set (f := fun q => c04_spec_lists ign two false sp (nth q d ([], []))).
  destruct (Hd sp (nth_In _ _ Hp)) as [S1 S2].
  (* the self part *)
  set (selfx := c04_spec_lists ign two incself sp sp).
  assert (Hself : (if two || incself then
            c04_bind (c04_unpack_create (c04_pack ign two (fst sp) (snd sp)) (c04_published ign (fst sp))
                        (if two then c04_published ign (snd sp) else c04_published ign (fst sp)) two incself)
              (fun o => C04_Ok (match o with None => [] | Some x => c04_insert p x [] end))
          else C04_Ok []) =
          C04_Ok (if two || incself then (if c04_lists_empty selfx then [] else [(p, selfx)]) else [])).
  { destruct (two || incself); auto. rewrite c04_unpack_create_spec; auto. cbn [c04_bind]. fold selfx.
    unfold c04_some_nonempty. destruct (c04_lists_empty selfx); reflexivity. }
  set (m0 := if two || incself then (if c04_lists_empty selfx then [] else [(p, selfx)]) else []) in *.
  assert (Hm0s : c04_ksorted m0).
  { unfold m0. destruct (two || incself); [|exact I]. destruct (c04_lists_empty selfx); [exact I|].
    cbn [c04_ksorted]. split; [intros ? []|exact I]. }
  assert (Hm0k : forall q, In q qs -> ~ In q (map fst m0)).
  { intros q Hq Hin. destruct (Hrange q Hq) as [_ Hne]. unfold m0 in Hin.
    destruct (two || incself); [|destruct Hin]. destruct (c04_lists_empty selfx); [destruct Hin|].
    cbn [map fst In] in Hin. destruct Hin as [Hin|[]]. auto. }
  (* spec side *)
  pose proof (c04_flat_spec (c04_spec_entry ign two incself d p) (length d) 0) as [F1 F2].
  fold (c04_spec_rank ign two incself d p) in F1, F2.
  (* both sides *)
  assert (Hmain : c04_ins_all f qs m0 = c04_spec_rank ign two incself d p).
  { destruct (c04_ins_all_spec f qs m0 Hm0s Hnd Hm0k) as [I1 I2].
    apply c04_ksorted_ext; auto. intros e. rewrite I2, F2. split.
    - intros [Hin|[Hq [Hv Hne]]].
      + unfold m0 in Hin. destruct (two || incself) eqn:Eti; [|destruct Hin].
        destruct (c04_lists_empty selfx) eqn:Ee; [destruct Hin|].
        destruct Hin as [<-|[]]. simpl.
        assert (Hent : c04_spec_entry ign two incself d p p = selfx).
        { unfold c04_spec_entry. rewrite Nat.eqb_refl. fold sp. unfold selfx.
          destruct two; auto. simpl in Eti. rewrite Eti. reflexivity. }
        rewrite Hent. repeat split; auto; lia.
      + destruct (Hrange _ Hq) as [Hlt Hne'].
        assert (Hent : c04_spec_entry ign two incself d p (fst e) = f (fst e)).
        { unfold c04_spec_entry. destruct (Nat.eqb_spec (fst e) p); [contradiction|]. reflexivity. }
        rewrite Hent. repeat split; auto; lia.
    - intros [[_ Hlt] [Hv Hne]]. destruct (Nat.eq_dec (fst e) p) as [Ep|Ep].
      + left. unfold c04_spec_entry in Hv, Hne. rewrite Ep, Nat.eqb_refl in Hv, Hne. fold sp in Hv, Hne.
        assert (Hti : two || incself = true /\ snd e = selfx /\ c04_lists_empty selfx = false).
        { unfold selfx. destruct two; [repeat split; auto|]. destruct incself; [repeat split; auto|].
          cbn in Hne. discriminate. }
        destruct Hti as [T1 [T2 T3]]. unfold m0. rewrite T1, T3. left.
        destruct e as [k v]. cbn [fst snd] in Ep, T2. rewrite Ep, T2. reflexivity.
      + right. assert (Hent : c04_spec_entry ign two incself d p (fst e) = f (fst e)).
        { unfold c04_spec_entry. destruct (Nat.eqb_spec (fst e) p); [contradiction|]. reflexivity. }
        rewrite Hent in Hv, Hne. repeat split; auto.
        apply Hcover; auto. rewrite Hent. exact Hne. }
  unfold c04_build_rank.
  destruct ((length d =? 1) && negb (two || incself)) eqn:E1.
  - (* nothing to communicate: one process, one set, no self entries *)
    apply andb_true_iff in E1. destruct E1 as [E1 E2]. apply Nat.eqb_eq in E1. apply negb_true_iff in E2.
    rewrite <- Hmain. unfold m0. rewrite E2.
    destruct qs as [|q qs']; [reflexivity|]. destruct (Hrange q (or_introl eq_refl)). lia.
  - fold sp. unfold c04_pack at 1.
    change (C04_mkmsg two (c04_published ign (fst sp)) (if two then c04_published ign (snd sp) else []))
      with (c04_pack ign two (fst sp) (snd sp)).
    assert (Hdest : (if two then c04_published ign (snd sp) else c04_published ign (fst sp)) =
                    (if two then c04_published ign (snd sp) else c04_published ign (fst sp))) by reflexivity.
    rewrite Hself. etransitivity.
    { apply (c04_fold_arrivals ign two d p qs m0 Hd Hp (fun q Hq => proj1 (Hrange q Hq))). }
    f_equal. exact Hmain.
Qed.

(* ---- C04_spec for the whole collective build ---------------------------------------------------------- *)
Definition c04_mode_ok (ign two incself : bool) (d : c04_decomp) (mode : option (list (list nat))) (p : nat) : Prop :=
  match mode with
  | None => True                                                        (* ring: no hints *)
  | Some orders => c04_hints_ok ign two incself d p (nth p orders [])   (* any admissible probe order *)
  end.

Theorem P_spec : forall (two ign incself : bool) d mode p,
  c04_decomp_sorted d -> p < length d -> c04_mode_ok ign two incself d mode p ->
  nth p (c04_build two ign incself d mode) C04_OutOfFuel = C04_Ok (c04_spec_rank ign two incself d p).
Proof.
  intros two ign incself d mode p Hd Hp Hm. unfold c04_build.
  rewrite c04_nth_map_seq by auto.
  destruct mode as [orders|]; simpl c04_arrivals.
  - apply P_build_rank_spec; auto.
  - rewrite P_ring_arrivals by (auto; unfold c04_msgs; apply map_length).
    apply P_build_rank_spec; auto.
    destruct (P_ring_sources_perm (length d) p Hp) as [Hnd Hin].
    split; [exact Hnd|]. split.
    + intros q Hq. apply Hin; auto.
    + intros q Hq Hne _. apply Hin; auto.
Qed.

(* the result does not depend on the order of arrival, nor on ring vs. neighbour mode *)
Theorem P_order_independent : forall (two ign incself : bool) d mode1 mode2 p,
  c04_decomp_sorted d -> p < length d ->
  c04_mode_ok ign two incself d mode1 p -> c04_mode_ok ign two incself d mode2 p ->
  nth p (c04_build two ign incself d mode1) C04_OutOfFuel = nth p (c04_build two ign incself d mode2) C04_OutOfFuel.
Proof. intros. rewrite !P_spec; auto. Qed.

(* a permutation of an admissible probe order is admissible *)
Lemma P_hints_perm : forall ign two incself d p nb nb', c04_hints_ok ign two incself d p nb ->
  Permutation nb nb' -> c04_hints_ok ign two incself d p nb'.
Proof.
  intros ign two incself d p nb nb' [H1 [H2 H3]] HP. split; [|split].
  - eapply Permutation_NoDup; eauto.
  - intros q Hq. apply H2. eapply Permutation_in; [apply Permutation_sym|]; eauto.
  - intros q A B C. eapply Permutation_in; eauto.
Qed.

(* what the spec says, unfolded: presence, content and order of the entry for another rank *)
Theorem P_spec_entry_other : forall ign two incself d p q x, p < length d -> q <> p ->
  (In (q, x) (c04_spec_rank ign two incself d p) <->
   (q < length d /\ c04_lists_empty x = false /\
    x = (c04_join false (c04_published ign (fst (nth p d ([], [])))) (c04_published ign (c04_tgt two (nth q d ([], [])))),
         c04_join false (c04_published ign (c04_tgt two (nth p d ([], [])))) (c04_published ign (fst (nth q d ([], []))))))).
Proof.
  intros ign two incself d p q x Hp Hq.
  pose proof (c04_flat_spec (c04_spec_entry ign two incself d p) (length d) 0) as [_ F2].
  fold (c04_spec_rank ign two incself d p) in F2. rewrite F2. simpl.
  unfold c04_spec_entry. destruct (Nat.eqb_spec q p); [contradiction|]. unfold c04_spec_lists.
  split.
  - intros [[_ H1] [H2 H3]]. subst x. repeat split; auto.
  - intros [H1 [H2 H3]]. subst x. repeat split; auto; lia.
Qed.

(* one index set, pairwise distinct globals: no self entry, whatever includeSelf says *)
Lemma c04_join_self_distinct : forall l, c04_distinct l -> c04_join true l l = [].
Proof.
  intros l Hd. destruct (c04_join true l l) as [|[a x] t] eqn:E; auto. exfalso.
  assert (Hin : In (a, x) (c04_join true l l)) by (rewrite E; simpl; auto).
  apply c04_join_In in Hin. destruct Hin as [r [Hr [Hx [Hg [_ Hk]]]]].
  assert (x = r).
  { clear - Hd Hr Hx Hg. induction l as [|y l IH]; [destruct Hr|]. destruct Hd as [D1 D2].
    destruct Hr as [<-|Hr], Hx as [<-|Hx]; auto.
    - exfalso. apply (D1 x); auto.
    - exfalso. apply (D1 r); auto. }
  subst. unfold c04_keep in Hk. rewrite Nat.eqb_refl in Hk. discriminate.
Qed.

Lemma c04_distinct_filter : forall f l, c04_distinct l -> c04_distinct (filter f l).
Proof.
  induction l as [|a t IH]; simpl; auto. intros [H1 H2]. destruct (f a); simpl; auto.
  split; auto. intros b Hb. apply filter_In in Hb. apply H1, Hb.
Qed.

Theorem P_self_absent_one_set : forall ign incself d p, p < length d ->
  c04_distinct (fst (nth p d ([], []))) ->
  forall x, ~ In (p, x) (c04_spec_rank ign false incself d p).
Proof.
  intros ign incself d p Hp Hd x Hin.
  pose proof (c04_flat_spec (c04_spec_entry ign false incself d p) (length d) 0) as [_ F2].
  fold (c04_spec_rank ign false incself d p) in F2. apply F2 in Hin. simpl in Hin.
  destruct Hin as [_ [_ Hne]]. unfold c04_spec_entry in Hne. rewrite Nat.eqb_refl in Hne.
  destruct incself; [|discriminate].
  unfold c04_spec_lists, c04_tgt in Hne. cbn [fst snd] in Hne.
  rewrite c04_join_self_distinct in Hne by (apply c04_distinct_filter; auto). discriminate.
Qed.
