(* C04 — proofs, part 6 (dimension audit 2): the communicator of a re-used object, "re-targeted = fresh", and includeSelf
   differing from process to process. *)
From Coq Require Import List Arith Bool ZArith Lia.
From DuneV Require Import C04_Model C04_Spec C04_Proofs_Build C04_Proofs_Obj.
Import ListNotations.

Lemma c04_set_of_repeat_nil : forall P, map c04_set_of (repeat (@nil nat) P) = repeat [] P.
Proof. induction P; simpl; auto. rewrite IHP. reflexivity. Qed.

Section CommProofs.
  Variable result : Type.
  Variable buildfc : nat -> c04_decomp -> bool -> bool -> list (list nat) -> result.
  Notation sysc := (c04_sysc result).
  Notation slots_of yc := (c04_sy_slots result (c04_sc_sys result yc)).
  Notation obj_of yc := (c04_sy_obj result (c04_sc_sys result yc)).

  Definition c04_relc (yc : sysc) (hk : c04_hspec result * nat) : Prop :=
    c04_obj_rel result (c04_sc_sys _ yc) (fst hk) /\ c04_sc_comm _ yc = snd hk.
  Definition c04_hopc_wf (n : nat) (op : c04_hopc) : Prop := c04_hop_wf n (c04_hopc_base op).

  Lemma c04_relc_step : forall yc hk op, c04_relc yc hk -> c04_hopc_wf (length (slots_of yc)) op ->
    c04_relc (c04_hstepc result buildfc yc op) (c04_hspec_stepc result buildfc hk op).
  Proof.
    intros [y k] [h k'] op [R E] Hwf. simpl in *. subst k'.
    destruct op as [s kk hi|o]; unfold c04_relc, c04_hspec_stepc; simpl; split; auto.
    - apply (c04_rel_step result (buildfc kk) y h (C04_HSetIndexSets s hi) R Hwf).
    - apply (c04_rel_step result (buildfc k) y h o R Hwf).
  Qed.

  Lemma c04_hstepc_slots_length : forall yc op,
    length (slots_of (c04_hstepc result buildfc yc op)) = length (slots_of yc).
  Proof. intros [y k] [s kk hi|o]; unfold c04_hstepc; cbn [c04_sc_sys]; apply c04_hstep_slots_length. Qed.

  Lemma c04_hrunc_slots_length : forall ops yc,
    length (slots_of (c04_hrunc result buildfc yc ops)) = length (slots_of yc).
  Proof.
    induction ops as [|op ops IH]; intros yc; [reflexivity|].
    change (c04_hrunc result buildfc yc (op :: ops)) with (c04_hrunc result buildfc (c04_hstepc result buildfc yc op) ops).
    rewrite IH. apply c04_hstepc_slots_length.
  Qed.

  Lemma c04_relc_run : forall ops yc hk, c04_relc yc hk -> Forall (c04_hopc_wf (length (slots_of yc))) ops ->
    c04_relc (c04_hrunc result buildfc yc ops) (c04_hspec_runc result buildfc hk ops).
  Proof.
    induction ops as [|op ops IH]; intros yc hk R Hwf; simpl; auto.
    inversion Hwf; subst. apply IH.
    - apply c04_relc_step; auto.
    - rewrite c04_hstepc_slots_length. auto.
  Qed.

  Lemma c04_comm_run : forall ops yc,
    c04_sc_comm _ (c04_hrunc result buildfc yc ops) = c04_last_comm (c04_sc_comm _ yc) ops.
  Proof.
    induction ops as [|op ops IH]; intros yc; [reflexivity|].
    change (c04_hrunc result buildfc yc (op :: ops)) with (c04_hrunc result buildfc (c04_hstepc result buildfc yc op) ops).
    rewrite IH. destruct yc as [y k0]. destruct op as [s k h|o]; reflexivity.
  Qed.

  Definition c04_sysc_ctor (two : bool) (P : nat) (slots : list c04_slot) (s k : nat) (hints : list (list nat)) (inc : bool) : sysc :=
    C04_mksysc _ (c04_sys_ctor result two P slots s hints inc) k.

  Lemma c04_relc_ctor : forall two P slots s k hints inc, s < length slots ->
    c04_relc (c04_sysc_ctor two P slots s k hints inc) (c04_hspec_ctor result two P slots s hints inc, k).
  Proof. intros. split; simpl; auto. apply c04_rel_ctor; auto. Qed.

  (* consequences of being related to the same history-spec state *)
  Lemma c04_relc_same : forall y1 y2 hk, c04_relc y1 hk -> c04_relc y2 hk ->
    c04_sc_comm _ y1 = c04_sc_comm _ y2 /\
    c04_ob_map _ (obj_of y1) = c04_ob_map _ (obj_of y2) /\
    c04_ob_hints _ (obj_of y1) = c04_ob_hints _ (obj_of y2) /\
    c04_ob_first _ (obj_of y1) = c04_ob_first _ (obj_of y2) /\
    (c04_ob_first _ (obj_of y1) = false -> c04_obj_synced _ (c04_sc_sys _ y1) = c04_obj_synced _ (c04_sc_sys _ y2)).
  Proof.
    intros y1 y2 hk [R1 E1] [R2 E2].
    pose proof R1 as [_ [_ [_ [_ [A5 [_ [A7 [_ A9]]]]]]]].
    pose proof R2 as [_ [_ [_ [_ [B5 [_ [B7 [_ B9]]]]]]]].
    split; [congruence|]. split; [congruence|]. split; [congruence|].
    destruct (c04_hs_built _ (fst hk)) as [ig|] eqn:Eb.
    - destruct A9 as [A9 _]. destruct B9 as [B9 _]. split; [congruence|]. intros _.
      rewrite (c04_rel_synced result _ _ ig R1 Eb), (c04_rel_synced result _ _ ig R2 Eb). reflexivity.
    - split; [congruence|]. intros F. congruence.
  Qed.

  (* C04_obj_history_comm *)
  Theorem P_obj_history_comm : forall two P slots s k0 hints inc ops, s < length slots ->
    Forall (c04_hopc_wf (length slots)) ops ->
    let yc := c04_hrunc result buildfc (c04_sysc_ctor two P slots s k0 hints inc) ops in
    let hk := c04_hspec_runc result buildfc (c04_hspec_ctor result two P slots s hints inc, k0) ops in
    c04_sc_comm _ yc = c04_last_comm k0 ops /\ snd hk = c04_last_comm k0 ops /\
    c04_ob_map _ (obj_of yc) = c04_hs_map _ (fst hk) /\
    c04_ob_hints _ (obj_of yc) = c04_hs_hints _ (fst hk) /\
    (forall ig, c04_hs_built _ (fst hk) = Some ig -> c04_obj_synced _ (c04_sc_sys _ yc) = negb (c04_hs_stale _ (fst hk))).
  Proof.
    intros two P slots s k0 hints inc ops Hs Hwf yc hk.
    pose proof (c04_relc_run ops _ _ (c04_relc_ctor two P slots s k0 hints inc Hs) Hwf) as R. fold yc hk in R.
    destruct R as [R E].
    pose proof (c04_comm_run ops (c04_sysc_ctor two P slots s k0 hints inc)) as C. fold yc in C. simpl in C.
    pose proof R as [_ [_ [_ [_ [R5 [_ [R7 _]]]]]]].
    split; [exact C|]. split; [congruence|]. repeat split; auto.
    intros ig Eb. eapply c04_rel_synced; eauto.
  Qed.

  Lemma c04_retarget_spec : forall y h k0 s k hi b, c04_obj_rel result y h ->
    c04_hspec_runc result buildfc (h, k0) [C04_CSetIndexSets s k hi; C04_COp (C04_HSetIncludeSelf b)] =
    (c04_hspec_ctor result (c04_sy_two _ y) (c04_sy_P _ y) (c04_sy_slots _ y) s
                    (match hi with Some l => l | None => repeat [] (c04_sy_P _ y) end) b, k).
  Proof.
    intros y h k0 s k hi b [R1 [R2 [R3 _]]]. unfold c04_hspec_ctor, c04_hspec_runc, c04_hspec_stepc. simpl.
    rewrite R1, R2, R3. destruct hi; simpl; [reflexivity|]. rewrite c04_set_of_repeat_nil. reflexivity.
  Qed.

  (* C04_retarget_as_fresh: whatever the object went through (ops1: other sets, other communicators, hints, includeSelf, builds,
     free, resizes), after setIndexSets(S_s, T_s, comm k [, hints]) ; setIncludeSelf(b) it behaves in every further history ops2
     exactly like a newly constructed RemoteIndices(S_s, T_s, comm k, hints, b) over the same index sets *)
  Theorem P_retarget_as_fresh : forall two P slots s0 k0 hints0 inc0 ops1 s k hi b ops2,
    s0 < length slots -> s < length slots ->
    Forall (c04_hopc_wf (length slots)) ops1 -> Forall (c04_hopc_wf (length slots)) ops2 ->
    let yc := c04_hrunc result buildfc (c04_sysc_ctor two P slots s0 k0 hints0 inc0) ops1 in
    let y := c04_sc_sys _ yc in
    let hints := match hi with Some l => l | None => repeat [] (c04_sy_P _ y) end in
    let y1 := c04_hrunc result buildfc yc ([C04_CSetIndexSets s k hi; C04_COp (C04_HSetIncludeSelf b)] ++ ops2) in
    let y2 := c04_hrunc result buildfc (c04_sysc_ctor (c04_sy_two _ y) (c04_sy_P _ y) (c04_sy_slots _ y) s k hints b) ops2 in
    c04_sc_comm _ y1 = c04_sc_comm _ y2 /\
    c04_ob_map _ (obj_of y1) = c04_ob_map _ (obj_of y2) /\
    c04_ob_hints _ (obj_of y1) = c04_ob_hints _ (obj_of y2) /\
    c04_ob_first _ (obj_of y1) = c04_ob_first _ (obj_of y2) /\
    (c04_ob_first _ (obj_of y1) = false -> c04_obj_synced _ (c04_sc_sys _ y1) = c04_obj_synced _ (c04_sc_sys _ y2)).
  Proof.
    intros two P slots s0 k0 hints0 inc0 ops1 s k hi b ops2 Hs0 Hs Hwf1 Hwf2 yc y hints y1 y2.
    pose proof (c04_relc_run ops1 _ _ (c04_relc_ctor two P slots s0 k0 hints0 inc0 Hs0) Hwf1) as R. fold yc in R.
    assert (Hlen : length (slots_of yc) = length slots).
    { unfold yc. rewrite c04_hrunc_slots_length. reflexivity. }
    destruct (c04_hspec_runc result buildfc (c04_hspec_ctor result two P slots s0 hints0 inc0, k0) ops1) as [h kk] eqn:Eh.
    pose proof R as [Ro _]. simpl in Ro.
    set (cfg := [C04_CSetIndexSets s k hi; C04_COp (C04_HSetIncludeSelf b)]).
    assert (Ra : c04_relc (c04_hrunc result buildfc yc cfg) (c04_hspec_runc result buildfc (h, kk) cfg)).
    { apply c04_relc_run; auto. rewrite Hlen. unfold cfg. repeat constructor. exact Hs. }
    unfold cfg in Ra at 2. rewrite (c04_retarget_spec y h kk s k hi b Ro) in Ra. fold hints in Ra.
    assert (Rb : c04_relc (c04_sysc_ctor (c04_sy_two _ y) (c04_sy_P _ y) (c04_sy_slots _ y) s k hints b)
                          (c04_hspec_ctor result (c04_sy_two _ y) (c04_sy_P _ y) (c04_sy_slots _ y) s hints b, k)).
    { apply c04_relc_ctor. unfold y. rewrite Hlen. exact Hs. }
    assert (E1 : y1 = c04_hrunc result buildfc (c04_hrunc result buildfc yc cfg) ops2).
    { unfold y1, c04_hrunc. rewrite fold_left_app. reflexivity. }
    rewrite E1.
    eapply c04_relc_same.
    - apply c04_relc_run; [exact Ra|]. rewrite c04_hrunc_slots_length, Hlen. exact Hwf2.
    - apply c04_relc_run; [exact Rb|]. simpl. unfold y. rewrite Hlen. exact Hwf2.
  Qed.
End CommProofs.

(* the concrete build on communicator k: the set comprehension over the decomposition as numbered by that communicator *)
Theorem P_obj_buildf_comm_spec : forall (two ign incself : bool) k d hints p,
  let dv := c04_comm_view k ([], []) d in
  c04_decomp_sorted dv -> p < length dv ->
  (forallb c04_is_nil hints = true \/
   (forallb (fun h => negb (c04_is_nil h)) hints = true /\ c04_hints_ok ign two incself dv p (nth p hints []))) ->
  nth p (c04_obj_buildf_comm two k d ign incself hints) C04_OutOfFuel = C04_Ok (c04_spec_rank ign two incself dv p).
Proof. intros. unfold c04_obj_buildf_comm. apply P_obj_buildf_spec; auto. Qed.

(* a communicator view is a renumbering: same length, and (k = 2, 3) every process appears exactly once *)
Lemma P_comm_view_length : forall {A} k (dflt : A) l, length (c04_comm_view k dflt l) = length l.
Proof. intros. unfold c04_comm_view. rewrite map_length, seq_length. reflexivity. Qed.

Lemma P_comm_world_lt : forall k P i, i < P -> c04_comm_world k P i < P.
Proof.
  intros k P i H. unfold c04_comm_world.
  destruct k as [|[|[|[|k]]]]; auto; try lia. apply Nat.mod_upper_bound. lia.
Qed.

(* includeSelf differing from process to process: rank p's map is the one of the uniform build with p's own value *)
Theorem P_build_incs : forall two ign incs d mode p, p < length d ->
  nth p (c04_build_incs two ign incs d mode) C04_OutOfFuel =
  nth p (c04_build two ign (nth p incs false) d mode) C04_OutOfFuel.
Proof.
  intros two ign incs d mode p Hp. unfold c04_build_incs, c04_build.
  set (f := fun rank => _). set (g := fun rank => _).
  rewrite (nth_indep _ C04_OutOfFuel (f 0)) by (rewrite map_length, seq_length; exact Hp).
  rewrite (nth_indep (map g _) C04_OutOfFuel (g 0)) by (rewrite map_length, seq_length; exact Hp).
  rewrite (map_nth f), (map_nth g). rewrite seq_nth by exact Hp. reflexivity.
Qed.
