(* C04 — proofs, part 6: operational semantics of the ring (blocking Ssend/Recv) and of the neighbour mode
   (Issend / Probe(ANY_SOURCE)+Recv / Waitall): every maximal execution terminates in the final configuration. *)
From Coq Require Import List Arith Bool Lia Permutation.
From DuneV Require Import C04_Model C04_Spec C04_Proofs_Build C04_Proofs_Ring.
Import ListNotations.

(* ---- sums over ranks ----------------------------------------------------------------------------------------- *)
Lemma c04_sum_ext : forall n f g, (forall p, p < n -> f p = g p) -> c04_sum n f = c04_sum n g.
Proof. induction n; intros f g H; simpl; auto. rewrite (IHn f g), (H n); auto. Qed.

Lemma c04_sum_add : forall n f g, c04_sum n (fun p => f p + g p) = c04_sum n f + c04_sum n g.
Proof. induction n; intros; simpl; auto. rewrite IHn. lia. Qed.

Lemma c04_sum_const : forall n c, c04_sum n (fun _ => c) = n * c.
Proof. induction n; intros; simpl; auto. rewrite IHn. lia. Qed.

Lemma c04_sum_dec1 : forall n f g p, p < n -> (forall z, z < n -> z <> p -> g z = f z) -> g p + 1 = f p ->
  c04_sum n g + 1 = c04_sum n f.
Proof.
  induction n; intros f g p Hp Hz Hd; [lia|]. simpl.
  destruct (Nat.eq_dec p n) as [->|Hn].
  - rewrite (c04_sum_ext n g f) by (intros; apply Hz; lia). lia.
  - rewrite (Hz n) by lia. rewrite <- (IHn f g p); auto; lia.
Qed.

Lemma c04_sum_inc1 : forall n f g p, p < n -> (forall z, z < n -> z <> p -> g z = f z) -> g p = f p + 1 ->
  c04_sum n g = c04_sum n f + 1.
Proof. intros. symmetry. apply (c04_sum_dec1 n g f p); auto. intros; symmetry; auto. Qed.

Lemma c04_sum_pos : forall n f, 0 < c04_sum n f -> exists p, p < n /\ 0 < f p.
Proof.
  induction n; intros f H; simpl in H; [lia|].
  destruct (f n) eqn:E.
  - destruct (IHn f) as [p [Hp Hf]]; [lia|]. exists p; split; auto.
  - exists n; split; lia.
Qed.

Lemma c04_sum_zero : forall n f, c04_sum n f = 0 -> forall p, p < n -> f p = 0.
Proof.
  induction n; intros f H p Hp; [lia|]. simpl in H.
  destruct (Nat.eq_dec p n) as [->|]; [lia|]. apply IHn; lia.
Qed.

Lemma c04_sum_count_occ : forall n l, (forall x, In x l -> x < n) ->
  c04_sum n (fun p => count_occ Nat.eq_dec l p) = length l.
Proof.
  intros n l. induction l as [|a l IH]; intros H; simpl.
  - rewrite c04_sum_const. lia.
  - rewrite <- IH by (intros; apply H; simpl; auto).
    assert (Ha : a < n) by (apply H; simpl; auto).
    rewrite (c04_sum_inc1 n (fun p => count_occ Nat.eq_dec l p) (fun p => if Nat.eq_dec a p then S (count_occ Nat.eq_dec l p) else count_occ Nat.eq_dec l p) a); auto; try lia.
    + intros z _ Hz. destruct (Nat.eq_dec a z); congruence.
    + destruct (Nat.eq_dec a a); [lia|congruence].
Qed.

Lemma c04_bounded_dec : forall n (u : nat -> bool), (forall p, p < n -> u p = false) \/ exists p, p < n /\ u p = true.
Proof.
  induction n; intros u; [left; intros; lia|].
  destruct (u n) eqn:E; [right; exists n; auto|].
  destruct (IHn u) as [H|[p [Hp Hu]]]; [left|right; exists p; auto].
  intros p Hp. destruct (Nat.eq_dec p n) as [->|]; auto. apply H; lia.
Qed.

Lemma c04_min_exists : forall n (f : nat -> nat) (u : nat -> bool), (exists p, p < n /\ u p = true) ->
  exists p, p < n /\ u p = true /\ forall z, z < n -> u z = true -> f p <= f z.
Proof.
  induction n; intros f u [p [Hp Hu]]; [lia|].
  destruct (c04_bounded_dec n u) as [Hnone|Hsome].
  - assert (p = n).
    { destruct (Nat.eq_dec p n) as [|Hne]; auto. assert (Hlt : p < n) by lia. rewrite (Hnone p Hlt) in Hu. discriminate. }
    subst.
    exists n. repeat split; auto. intros z Hz Hzu. destruct (Nat.eq_dec z n) as [->|Hne]; auto.
    assert (Hlt : z < n) by lia. rewrite (Hnone z Hlt) in Hzu. discriminate.
  - destruct (IHn f u Hsome) as [m [Hm [Hmu Hmin]]].
    destruct (u n) eqn:En.
    + destruct (Nat.le_gt_cases (f m) (f n)).
      * exists m. repeat split; auto; try lia. intros z Hz Hzu. destruct (Nat.eq_dec z n) as [->|]; auto. apply Hmin; auto; lia.
      * exists n. repeat split; auto. intros z Hz Hzu. destruct (Nat.eq_dec z n) as [->|]; auto.
        assert (f m <= f z) by (apply Hmin; auto; lia). lia.
    + exists m. repeat split; auto; try lia. intros z Hz Hzu. destruct (Nat.eq_dec z n) as [->|]; [congruence|]. apply Hmin; auto; lia.
Qed.

(* ================================ the ring ================================================================ *)
Definition c04_succm (P p : nat) : nat := (p + 1) mod P.
Definition c04_predm (P p : nat) : nat := (p + P - 1) mod P.

Lemma c04_succm_cases : forall P p, 2 <= P -> p < P -> c04_succm P p = if p + 1 <? P then p + 1 else 0.
Proof. intros. unfold c04_succm. rewrite c04_mod_cases by lia. destruct (p + 1 <? P) eqn:E; auto. apply Nat.ltb_ge in E. lia. Qed.
Lemma c04_predm_cases : forall P p, p < P -> c04_predm P p = if p =? 0 then P - 1 else p - 1.
Proof. intros. apply c04_pred_mod; auto. Qed.
Lemma c04_succm_lt : forall P p, 2 <= P -> c04_succm P p < P.
Proof. intros. apply Nat.mod_upper_bound. lia. Qed.
Lemma c04_predm_lt : forall P p, 2 <= P -> c04_predm P p < P.
Proof. intros. apply Nat.mod_upper_bound. lia. Qed.
Lemma c04_pred_succ : forall P p, 2 <= P -> p < P -> c04_predm P (c04_succm P p) = p.
Proof.
  intros. rewrite c04_predm_cases by (apply c04_succm_lt; auto). rewrite c04_succm_cases by auto.
  destruct (Nat.ltb_spec (p + 1) P); [destruct (Nat.eqb_spec (p + 1) 0); lia|simpl; lia].
Qed.
Lemma c04_succ_pred : forall P p, 2 <= P -> p < P -> c04_succm P (c04_predm P p) = p.
Proof.
  intros. rewrite c04_succm_cases by (auto; apply c04_predm_lt; auto). rewrite c04_predm_cases by auto.
  destruct (Nat.eqb_spec p 0).
  - destruct (Nat.ltb_spec (P - 1 + 1) P); lia.
  - destruct (Nat.ltb_spec (p - 1 + 1) P); lia.
Qed.
Lemma c04_succ_neq : forall P p, 2 <= P -> p < P -> c04_succm P p <> p.
Proof. intros. rewrite c04_succm_cases by auto. destruct (Nat.ltb_spec (p + 1) P); lia. Qed.
Lemma c04_succ_inj : forall P p z, 2 <= P -> p < P -> z < P -> c04_succm P z = c04_succm P p -> z = p.
Proof. intros P p z HP Hp Hz E. rewrite <- (c04_pred_succ P p), <- (c04_pred_succ P z) by auto. rewrite E. reflexivity. Qed.

(* remoteProc of the sender's buffer = remoteProc the receiver attributes to it one round later *)
Lemma c04_src_succ : forall P p j, 2 <= P -> p < P -> S j <= P ->
  c04_ring_source P p j = c04_ring_source P (c04_succm P p) (S j).
Proof.
  intros P p j HP Hp Hj. rewrite !c04_ring_source_cases by (auto; try lia; apply c04_succm_lt; auto).
  rewrite c04_succm_cases by auto.
  destruct (Nat.ltb_spec (p + 1) P).
  - destruct (Nat.ltb_spec (p + P - j) P), (Nat.ltb_spec (p + 1 + P - S j) P); lia.
  - destruct (Nat.ltb_spec (p + P - j) P), (Nat.ltb_spec (0 + P - S j) P); lia.
Qed.
Lemma c04_src_0 : forall P p, p < P -> c04_ring_source P p 0 = p.
Proof. intros. rewrite c04_ring_source_cases by lia. destruct (Nat.ltb_spec (p + P - 0) P); lia. Qed.

(* the calls of one round, and the rest of the program after s sends and r receives *)
Definition c04_blk (P rank proc : nat) : list (nat * c04_mpi_op) :=
  if Nat.even rank then [(proc, C04_Ssend (c04_succm P rank)); (proc, C04_Recv (c04_predm P rank))]
  else [(proc, C04_Recv (c04_predm P rank)); (proc, C04_Ssend (c04_succm P rank))].
Lemma c04_ring_ops_blk : forall P rank, c04_ring_ops P rank = flat_map (c04_blk P rank) (seq 1 (P - 1)).
Proof. reflexivity. Qed.

Definition c04_rest (P p s r : nat) : list (nat * c04_mpi_op) :=
  if Nat.even p then (if s =? r then [] else [(s, C04_Recv (c04_predm P p))]) ++ flat_map (c04_blk P p) (seq (S s) (P - 1 - s))
  else (if r =? s then [] else [(r, C04_Ssend (c04_succm P p))]) ++ flat_map (c04_blk P p) (seq (S r) (P - 1 - r)).
Definition c04_pos_ok (P p s r : nat) : Prop :=
  s <= P - 1 /\ r <= P - 1 /\ (if Nat.even p then s = r \/ s = r + 1 else r = s \/ r = s + 1).
Definition c04_sends_next (p s r : nat) : bool := if Nat.even p then s =? r else negb (r =? s).

Lemma c04_rest_done : forall P p s r, c04_pos_ok P p s r -> s + r = 2 * (P - 1) -> c04_rest P p s r = [].
Proof.
  intros P p s r [H1 [H2 H3]] E. assert (s = P - 1 /\ r = P - 1) as [-> ->] by lia.
  unfold c04_rest. rewrite Nat.eqb_refl, Nat.sub_diag. destruct (Nat.even p); reflexivity.
Qed.

Lemma c04_rest_step : forall P p s r, c04_pos_ok P p s r -> s + r <> 2 * (P - 1) ->
  if c04_sends_next p s r
  then c04_rest P p s r = (S s, C04_Ssend (c04_succm P p)) :: c04_rest P p (S s) r /\ c04_pos_ok P p (S s) r /\ s < P - 1
  else c04_rest P p s r = (S r, C04_Recv (c04_predm P p)) :: c04_rest P p s (S r) /\ c04_pos_ok P p s (S r) /\ r < P - 1.
Proof.
  intros P p s r [H1 [H2 H3]] Hne. unfold c04_sends_next, c04_rest, c04_pos_ok, c04_blk.
  destruct (Nat.even p) eqn:Ep.
  - destruct (Nat.eqb_spec s r) as [E|E].
    + subst r. assert (Hs : s < P - 1) by lia.
      replace (P - 1 - s) with (S (P - 1 - S s)) by lia. cbn [seq flat_map app].
      destruct (Nat.eqb_spec (S s) s); [lia|]. cbn [app]. repeat split; auto; try lia.
    + assert (s = r + 1) by lia. subst s. destruct (Nat.eqb_spec (r + 1) (S r)); [|lia].
      cbn [app]. replace (r + 1) with (S r) by lia. repeat split; auto; try lia.
  - destruct (Nat.eqb_spec r s) as [E|E]; cbn [negb].
    + subst r. assert (Hs : s < P - 1) by lia.
      replace (P - 1 - s) with (S (P - 1 - S s)) by lia. cbn [seq flat_map app].
      destruct (Nat.eqb_spec (S s) s); [lia|]. cbn [app]. repeat split; auto; try lia.
    + assert (r = s + 1) by lia. subst r. destruct (Nat.eqb_spec (s + 1) (S s)); [|lia].
      cbn [app]. replace (s + 1) with (S s) by lia. repeat split; auto; try lia.
Qed.

Lemma c04_blk_length : forall P p n a, length (flat_map (c04_blk P p) (seq a n)) = 2 * n.
Proof.
  induction n; intros a; simpl; auto. rewrite app_length, IHn. unfold c04_blk. destruct (Nat.even p); simpl; lia.
Qed.

(* ---- the phases of the rendezvous ---------------------------------------------------------------------------- *)
Definition c04_ph (P x : nat) : nat := if Nat.even x then (if (x =? P - 1) && Nat.odd P then 1 else 0) else 2.
Lemma c04_ph_le2 : forall P x, c04_ph P x <= 2.
Proof. intros. unfold c04_ph. destruct (Nat.even x); [destruct (_ && _)|]; lia. Qed.
Lemma c04_ph_facts : forall P p, 2 <= P -> p < P ->
  (Nat.even p = true -> c04_ph P p < c04_ph P (c04_predm P p)) /\
  (Nat.even p = false -> c04_ph P (c04_predm P p) < c04_ph P p).
Proof.
  intros P p HP Hp. rewrite c04_predm_cases by auto. unfold c04_ph. split; intros Ep; rewrite Ep.
  - destruct (Nat.eqb_spec p 0) as [E0|E0].
    + subst. destruct (Nat.eqb_spec 0 (P - 1)); [lia|]. simpl.
      destruct P as [|P']; [lia|]. rewrite Nat.sub_succ, Nat.sub_0_r, Nat.eqb_refl, Nat.odd_succ.
      destruct (Nat.even P'); simpl; lia.
    + assert (Nat.even (p - 1) = false) as ->.
      { destruct p as [|r]; [lia|]. rewrite Nat.sub_succ, Nat.sub_0_r.
        rewrite Nat.even_succ in Ep. rewrite <- Nat.negb_odd, Ep. reflexivity. }
      destruct ((p =? P - 1) && Nat.odd P); lia.
  - destruct (Nat.eqb_spec p 0) as [E0|E0]; [subst; discriminate|].
    assert (Nat.even (p - 1) = true) as ->.
    { destruct p as [|r]; [lia|]. rewrite Nat.sub_succ, Nat.sub_0_r.
      rewrite Nat.even_succ in Ep. rewrite <- Nat.negb_odd, Ep. reflexivity. }
    destruct ((p - 1 =? P - 1) && Nat.odd P); lia.
Qed.

(* ---- the invariant of the reachable configurations --------------------------------------------------------- *)
Definition c04_srcmsg (P : nat) (msgs : list c04_msg) (p k : nat) : c04_msg := nth (c04_ring_source P p k) msgs c04_empty_msg.

(* cnt p = (sends completed, receives completed) of rank p *)
Definition c04_rinv (P : nat) (msgs : list c04_msg) (cfg : c04_ring_cfg) (cnt : nat -> nat * nat) : Prop :=
  forall p, p < P ->
    c04_pos_ok P p (fst (cnt p)) (snd (cnt p)) /\
    c04_rk_prog (cfg p) = c04_rest P p (fst (cnt p)) (snd (cnt p)) /\
    c04_rk_arr (cfg p) = map (fun k => (c04_ring_source P p k, c04_srcmsg P msgs p k)) (seq 1 (snd (cnt p))) /\
    c04_p_out (S (snd (cnt p))) (c04_rk_bufs (cfg p)) = c04_srcmsg P msgs p (snd (cnt p)) /\
    (fst (cnt p) < snd (cnt p) -> c04_p_out (S (fst (cnt p))) (c04_rk_bufs (cfg p)) = c04_srcmsg P msgs p (fst (cnt p))) /\
    fst (cnt p) = snd (cnt (c04_succm P p)).

Lemma c04_p_out_set_other : forall s b m, c04_p_out (S s) (c04_set_p_in (S s) b m) = c04_p_out (S s) b.
Proof. intros. unfold c04_p_out, c04_set_p_in. destruct (Nat.even (S s)); reflexivity. Qed.

Lemma c04_rinv_init : forall P msgs, 2 <= P -> c04_rinv P msgs (c04_ring_init P msgs) (fun _ => (0, 0)).
Proof.
  intros P msgs HP p Hp. simpl. repeat split; try lia.
  - destruct (Nat.even p); auto.
  - unfold c04_rest. rewrite c04_ring_ops_blk, Nat.eqb_refl, Nat.sub_0_r. destruct (Nat.even p); reflexivity.
  - unfold c04_srcmsg. rewrite c04_src_0; auto.
Qed.

Lemma c04_rinv_head : forall P msgs cfg cnt p, c04_rinv P msgs cfg cnt -> p < P ->
  (fst (cnt p) + snd (cnt p) = 2 * (P - 1) /\ c04_rk_prog (cfg p) = []) \/
  (c04_sends_next p (fst (cnt p)) (snd (cnt p)) = true /\ fst (cnt p) < P - 1 /\
   c04_rk_prog (cfg p) = (S (fst (cnt p)), C04_Ssend (c04_succm P p)) :: c04_rest P p (S (fst (cnt p))) (snd (cnt p)) /\
   c04_pos_ok P p (S (fst (cnt p))) (snd (cnt p))) \/
  (c04_sends_next p (fst (cnt p)) (snd (cnt p)) = false /\ snd (cnt p) < P - 1 /\
   c04_rk_prog (cfg p) = (S (snd (cnt p)), C04_Recv (c04_predm P p)) :: c04_rest P p (fst (cnt p)) (S (snd (cnt p))) /\
   c04_pos_ok P p (fst (cnt p)) (S (snd (cnt p)))).
Proof.
  intros P msgs cfg cnt p Hinv Hp. destruct (Hinv p Hp) as [Hok [Hprog _]].
  destruct (Nat.eq_dec (fst (cnt p) + snd (cnt p)) (2 * (P - 1))) as [E|E].
  - left. split; auto. rewrite Hprog. apply c04_rest_done; auto.
  - right. pose proof (c04_rest_step P p _ _ Hok E) as H.
    destruct (c04_sends_next p (fst (cnt p)) (snd (cnt p))); [left|right]; destruct H as [H1 [H2 H3]];
      repeat split; auto; try (rewrite Hprog; exact H1); try apply H2.
Qed.

Lemma c04_rinv_enabled : forall P msgs cfg cnt p q ks kr, 2 <= P -> c04_rinv P msgs cfg cnt -> p < P ->
  c04_ring_enabled cfg p = Some (q, ks, kr) ->
  q = c04_succm P p /\ ks = S (fst (cnt p)) /\ kr = S (snd (cnt q)) /\
  c04_sends_next p (fst (cnt p)) (snd (cnt p)) = true /\ c04_sends_next q (fst (cnt q)) (snd (cnt q)) = false /\
  c04_rk_prog (cfg p) = (ks, C04_Ssend q) :: c04_rest P p (S (fst (cnt p))) (snd (cnt p)) /\
  c04_rk_prog (cfg q) = (kr, C04_Recv p) :: c04_rest P q (fst (cnt q)) (S (snd (cnt q))) /\
  c04_pos_ok P p (S (fst (cnt p))) (snd (cnt p)) /\ c04_pos_ok P q (fst (cnt q)) (S (snd (cnt q))).
Proof.
  intros P msgs cfg cnt p q ks kr HP Hinv Hp Hen. unfold c04_ring_enabled in Hen.
  destruct (c04_rinv_head P msgs cfg cnt p Hinv Hp) as [[_ E]|[[Hs [_ [E Hok]]]|[_ [_ [E _]]]]]; rewrite E in Hen; try discriminate.
  assert (Hq : c04_succm P p < P) by (apply c04_succm_lt; auto).
  destruct (c04_rinv_head P msgs cfg cnt (c04_succm P p) Hinv Hq) as [[_ E']|[[_ [_ [E' _]]]|[Hs' [_ [E' Hok']]]]];
    rewrite E' in Hen; try discriminate.
  destruct ((c04_predm P (c04_succm P p) =? p) && negb (c04_succm P p =? p)); [|discriminate].
  inversion Hen; subst. rewrite c04_pred_succ in E' by auto. repeat split; auto; try apply Hok; try apply Hok'.
Qed.

Definition c04_cnt_fire (cnt : nat -> nat * nat) (p q : nat) : nat -> nat * nat :=
  fun z => if z =? q then (fst (cnt q), S (snd (cnt q))) else if z =? p then (S (fst (cnt p)), snd (cnt p)) else cnt z.

Lemma c04_rinv_fire : forall P msgs cfg cnt p q ks kr, 2 <= P -> c04_rinv P msgs cfg cnt -> p < P ->
  c04_ring_enabled cfg p = Some (q, ks, kr) ->
  c04_rinv P msgs (c04_ring_fire P cfg p) (c04_cnt_fire cnt p q).
Proof.
  intros P msgs cfg cnt p q ks kr HP Hinv Hp Hen.
  destruct (c04_rinv_enabled P msgs cfg cnt p q ks kr HP Hinv Hp Hen)
    as [Eq [Eks [Ekr [Hsp [Hsq [Eprogp [Eprogq [Hokp Hokq]]]]]]]].
  assert (Hq : q < P) by (subst q; apply c04_succm_lt; auto).
  assert (Hqp : q <> p) by (subst q; apply c04_succ_neq; auto).
  destruct (Hinv p Hp) as [Okp [_ [Arrp [B1p [B2p Syp]]]]].
  destruct (Hinv q Hq) as [Okq [_ [Arrq [B1q [B2q Syq]]]]].
  assert (Hsync : fst (cnt p) = snd (cnt q)) by (rewrite Syp, <- Eq; reflexivity).
  (* the data that travels *)
  assert (Hdata : c04_p_out ks (c04_rk_bufs (cfg p)) = c04_srcmsg P msgs q kr).
  { subst ks kr. unfold c04_sends_next in Hsp. destruct Okp as [O1 [O2 O3]].
    assert (Hd : c04_p_out (S (fst (cnt p))) (c04_rk_bufs (cfg p)) = c04_srcmsg P msgs p (fst (cnt p))).
    { destruct (Nat.even p).
      - apply Nat.eqb_eq in Hsp. rewrite Hsp. exact B1p.
      - apply negb_true_iff, Nat.eqb_neq in Hsp. apply B2p. lia. }
    rewrite Hd. unfold c04_srcmsg. rewrite <- Hsync. subst q. rewrite <- c04_src_succ; auto.
    destruct Hokp as [H1 _]. lia. }
  unfold c04_ring_fire. rewrite Hen. intros z Hz. unfold c04_cnt_fire.
  (* the second components of the counters change only at q, the first only at p *)
  assert (Hsnd : forall y, snd (if y =? q then (fst (cnt q), S (snd (cnt q))) else if y =? p then (S (fst (cnt p)), snd (cnt p)) else cnt y)
                           = if y =? q then S (snd (cnt q)) else snd (cnt y)).
  { intros y. destruct (Nat.eqb_spec y q); auto. destruct (Nat.eqb_spec y p); subst; auto. }
  rewrite !Hsnd.
  destruct (Nat.eqb_spec z q) as [Ezq|Ezq].
  - (* the receiver *)
    subst z. cbn [fst snd c04_rk_prog c04_rk_arr c04_rk_bufs]. rewrite Eprogq. cbn [tl].
    destruct (Nat.eqb_spec (c04_succm P q) q) as [Ebad|_]; [exfalso; revert Ebad; apply c04_succ_neq; auto|].
    repeat split; try apply Hokq; auto.
    + rewrite seq_S, map_app, <- Arrq. cbn [map]. rewrite Hdata. subst kr. reflexivity.
    + subst kr. rewrite c04_p_out_set. exact Hdata.
    + intros Hlt. unfold c04_sends_next in Hsq. destruct Okq as [O1 [O2 O3]]. subst kr.
      destruct (Nat.even q).
      * apply Nat.eqb_neq in Hsq. lia.
      * apply negb_false_iff, Nat.eqb_eq in Hsq. rewrite <- Hsq, c04_p_out_set_other. exact B1q.
  - destruct (Nat.eqb_spec z p) as [Ezp|Ezp].
    + (* the sender *)
      subst z. cbn [fst snd c04_rk_prog c04_rk_arr c04_rk_bufs]. rewrite Eprogp. cbn [tl].
      rewrite <- Eq, Nat.eqb_refl.
      repeat split; try apply Hokp; auto; try lia.
      intros Hlt. unfold c04_sends_next in Hsp. destruct Okp as [O1 [O2 O3]].
      destruct (Nat.even p).
      * apply Nat.eqb_eq in Hsp. lia.
      * apply negb_true_iff, Nat.eqb_neq in Hsp. lia.
    + (* a bystander *)
      destruct (Hinv z Hz) as [Okz [Prz [Arrz [B1z [B2z Syz]]]]].
      destruct (Nat.eqb_spec (c04_succm P z) q) as [Ebad|_].
      * exfalso. apply Ezp. apply (c04_succ_inj P p z); auto. rewrite Ebad. exact Eq.
      * repeat split; auto; apply Okz.
Qed.

Lemma c04_ring_reach_inv : forall P msgs n cfg, 2 <= P -> c04_ring_reach P msgs n cfg -> exists cnt, c04_rinv P msgs cfg cnt.
Proof.
  intros P msgs n cfg HP H. induction H as [|n cfg cfg' _ [cnt IH] [p [Hp [Hen ->]]]].
  - eexists. apply c04_rinv_init; auto.
  - destruct (c04_ring_enabled cfg p) as [[[q ks] kr]|] eqn:E; [|congruence].
    exists (c04_cnt_fire cnt p q). eapply c04_rinv_fire; eauto.
Qed.

(* measure: every rendezvous completes two calls *)
Lemma c04_ring_measure_step : forall P msgs cfg cnt cfg', 2 <= P -> c04_rinv P msgs cfg cnt -> c04_ring_step P cfg cfg' ->
  c04_ring_remaining P cfg' + 2 = c04_ring_remaining P cfg.
Proof.
  intros P msgs cfg cnt cfg' HP Hinv [p [Hp [Hen ->]]].
  destruct (c04_ring_enabled cfg p) as [[[q ks] kr]|] eqn:E; [|congruence].
  destruct (c04_rinv_enabled P msgs cfg cnt p q ks kr HP Hinv Hp E) as [Eq [_ [_ [_ [_ [Eprogp [Eprogq _]]]]]]].
  assert (Hq : q < P) by (subst q; apply c04_succm_lt; auto).
  assert (Hqp : q <> p) by (subst q; apply c04_succ_neq; auto).
  unfold c04_ring_remaining, c04_ring_fire. rewrite E.
  set (mid := fun z => if z =? p then length (tl (c04_rk_prog (cfg p))) else length (c04_rk_prog (cfg z))).
  assert (H1 : c04_sum P mid + 1 = c04_sum P (fun z => length (c04_rk_prog (cfg z)))).
  { apply (c04_sum_dec1 P _ mid p); auto.
    - intros z _ Hz. unfold mid. destruct (Nat.eqb_spec z p); [contradiction|reflexivity].
    - unfold mid. rewrite Nat.eqb_refl, Eprogp. simpl. lia. }
  rewrite <- H1.
  assert (H2 : c04_sum P (fun p0 => length (c04_rk_prog
               (if p0 =? q then C04_mkrk (tl (c04_rk_prog (cfg q))) (c04_set_p_in kr (c04_rk_bufs (cfg q)) (c04_p_out ks (c04_rk_bufs (cfg p))))
                                    (c04_rk_arr (cfg q) ++ [(c04_ring_source P q kr, c04_p_out ks (c04_rk_bufs (cfg p)))])
                else if p0 =? p then C04_mkrk (tl (c04_rk_prog (cfg p))) (c04_rk_bufs (cfg p)) (c04_rk_arr (cfg p)) else cfg p0))) + 1
               = c04_sum P mid).
  { apply (c04_sum_dec1 P mid _ q); auto.
    - intros z _ Hz. unfold mid. destruct (Nat.eqb_spec z q); [contradiction|]. destruct (Nat.eqb_spec z p); reflexivity.
    - unfold mid. rewrite Nat.eqb_refl. destruct (Nat.eqb_spec q p); [contradiction|]. simpl. rewrite Eprogq. simpl. lia. }
  lia.
Qed.

Lemma c04_ring_remaining_init : forall P msgs, c04_ring_remaining P (c04_ring_init P msgs) = 2 * P * (P - 1).
Proof.
  intros. unfold c04_ring_remaining, c04_ring_init. cbn [c04_rk_prog].
  rewrite (c04_sum_ext P _ (fun _ => 2 * (P - 1))).
  - rewrite c04_sum_const. lia.
  - intros p _. rewrite c04_ring_ops_blk, c04_blk_length. reflexivity.
Qed.

(* progress: in every reachable configuration that is not final some Ssend/Recv pair can complete *)
Lemma c04_ring_progress : forall P msgs cfg cnt, 2 <= P -> c04_rinv P msgs cfg cnt ->
  c04_ring_final P cfg \/ exists p, p < P /\ c04_ring_enabled cfg p <> None.
Proof.
  intros P msgs cfg cnt HP Hinv.
  set (unf := fun p => fst (cnt p) + snd (cnt p) <? 2 * (P - 1)).
  destruct (c04_bounded_dec P unf) as [Hall|Hsome].
  - left. intros p Hp. specialize (Hall p Hp). unfold unf in Hall. apply Nat.ltb_ge in Hall.
    destruct (c04_rinv_head P msgs cfg cnt p Hinv Hp) as [[_ E]|[[_ [H _]]|[_ [H _]]]]; auto.
    + destruct (Hinv p Hp) as [[O1 [O2 _]] _]. lia.
    + destruct (Hinv p Hp) as [[O1 [O2 _]] _]. lia.
  - right.
    (* the stamp of the call at the head of an unfinished rank: 3 * round + phase of the rendezvous *)
    set (hst := fun p => if c04_sends_next p (fst (cnt p)) (snd (cnt p)) then 3 * S (fst (cnt p)) + c04_ph P p
                         else 3 * S (snd (cnt p)) + c04_ph P (c04_predm P p)).
    destruct (c04_min_exists P hst unf Hsome) as [p [Hp [Hu Hmin]]].
    unfold unf in Hu. apply Nat.ltb_lt in Hu.
    destruct (Hinv p Hp) as [[Op1 [Op2 Op3]] [_ [_ [_ [_ Syp]]]]].
    destruct (c04_rinv_head P msgs cfg cnt p Hinv Hp) as [[E _]|[[Hs [Hlt [Eprog _]]]|[Hs [Hlt [Eprog _]]]]]; [lia| |].
    + (* p is blocked in Ssend to q *)
      set (q := c04_succm P p). assert (Hq : q < P) by (apply c04_succm_lt; auto).
      destruct (Hinv q Hq) as [[Oq1 [Oq2 Oq3]] _].
      destruct (c04_rinv_head P msgs cfg cnt q Hinv Hq) as [[E _]|[[Hsq [Hltq [Eq _]]]|[Hsq [Hltq [Eq _]]]]].
      * fold q in Syp. lia.
      * (* q is itself blocked in a send: contradicts the minimality of p's stamp *)
        exfalso. assert (Huq : unf q = true) by (unfold unf; apply Nat.ltb_lt; fold q in Syp; lia).
        specialize (Hmin q Hq Huq). unfold hst in Hmin. rewrite Hs, Hsq in Hmin. fold q in Syp.
        pose proof (c04_ph_facts P q HP Hq) as [F1 _]. pose proof (c04_ph_le2 P q) as L2.
        assert (Hpq : c04_predm P q = p) by (apply c04_pred_succ; auto). rewrite Hpq in F1.
        unfold c04_sends_next in Hsq. destruct (Nat.even q).
        -- apply Nat.eqb_eq in Hsq. specialize (F1 eq_refl). lia.
        -- apply negb_true_iff, Nat.eqb_neq in Hsq. lia.
      * exists p. split; auto. unfold c04_ring_enabled. rewrite Eprog. fold q. rewrite Eq.
        replace (c04_predm P q) with p by (symmetry; apply c04_pred_succ; auto).
        rewrite Nat.eqb_refl. destruct (Nat.eqb_spec q p) as [Ebad|_]; [exfalso; revert Ebad; apply c04_succ_neq; auto|].
        simpl. discriminate.
    + (* p is blocked in Recv from x *)
      set (x := c04_predm P p). assert (Hx : x < P) by (apply c04_predm_lt; auto).
      assert (Hsx : c04_succm P x = p) by (apply c04_succ_pred; auto).
      destruct (Hinv x Hx) as [[Ox1 [Ox2 Ox3]] [_ [_ [_ [_ Syx]]]]]. rewrite Hsx in Syx.
      destruct (c04_rinv_head P msgs cfg cnt x Hinv Hx) as [[E _]|[[Hsxn [Hltx [Ex _]]]|[Hsxn [Hltx [Ex _]]]]].
      * lia.
      * exists x. split; auto. unfold c04_ring_enabled. rewrite Ex, Hsx, Eprog. fold x.
        rewrite Nat.eqb_refl. destruct (Nat.eqb_spec p x) as [Ebad|_].
        -- exfalso. rewrite <- Hsx in Ebad at 1. revert Ebad. apply c04_succ_neq; auto.
        -- simpl. discriminate.
      * exfalso. assert (Hux : unf x = true) by (unfold unf; apply Nat.ltb_lt; lia).
        specialize (Hmin x Hx Hux). unfold hst in Hmin. rewrite Hs, Hsxn in Hmin. fold x in Hmin.
        pose proof (c04_ph_facts P x HP Hx) as [_ F2]. pose proof (c04_ph_le2 P (c04_predm P x)) as L2.
        unfold c04_sends_next in Hsxn. destruct (Nat.even x).
        -- apply Nat.eqb_neq in Hsxn. lia.
        -- apply negb_false_iff, Nat.eqb_eq in Hsxn. specialize (F2 eq_refl). lia.
Qed.

(* C04_ring_no_deadlock *)
Theorem P_ring_no_deadlock : forall P msgs n cfg, 2 <= P -> length msgs = P -> c04_ring_reach P msgs n cfg ->
  (c04_ring_final P cfg \/ exists cfg', c04_ring_step P cfg cfg') /\
  c04_ring_remaining P cfg + 2 * n = 2 * P * (P - 1) /\
  (c04_ring_final P cfg -> forall p, p < P -> c04_rk_arr (cfg p) = c04_ring_arrivals P p msgs).
Proof.
  intros P msgs n cfg HP Hlen Hr. split; [|split].
  - destruct (c04_ring_reach_inv P msgs n cfg HP Hr) as [cnt Hinv].
    destruct (c04_ring_progress P msgs cfg cnt HP Hinv) as [F|[p [Hp Hen]]]; [left; auto|right].
    exists (c04_ring_fire P cfg p). exists p. auto.
  - induction Hr as [|n cfg cfg' Hr IH Hstep].
    + rewrite c04_ring_remaining_init. lia.
    + destruct (c04_ring_reach_inv P msgs n cfg HP Hr) as [cnt Hinv].
      pose proof (c04_ring_measure_step P msgs cfg cnt cfg' HP Hinv Hstep). lia.
  - intros Hfin p Hp. destruct (c04_ring_reach_inv P msgs n cfg HP Hr) as [cnt Hinv].
    destruct (Hinv p Hp) as [[O1 [O2 O3]] [_ [Arr _]]].
    destruct (c04_rinv_head P msgs cfg cnt p Hinv Hp) as [[E _]|[[_ [_ [Epr _]]]|[_ [_ [Epr _]]]]];
      try (rewrite (Hfin p Hp) in Epr; discriminate).
    assert (Er : snd (cnt p) = P - 1) by lia.
    rewrite Arr, Er, P_ring_arrivals by auto. unfold c04_ring_sources. rewrite map_map. reflexivity.
Qed.

(* ================================ the neighbour mode ====================================================== *)
Lemma c04_sum_dec2 : forall n f g p q, p < n -> q < n -> p <> q ->
  (forall z, z < n -> z <> p -> z <> q -> g z = f z) -> g p + 1 = f p -> g q + 1 = f q ->
  c04_sum n g + 2 = c04_sum n f.
Proof.
  intros n f g p q Hp Hq Hpq Hz Hgp Hgq.
  set (mid := fun z => if z =? p then g p else f z).
  assert (H1 : c04_sum n mid + 1 = c04_sum n f).
  { apply (c04_sum_dec1 n f mid p); auto.
    - intros z _ Hzp. unfold mid. destruct (Nat.eqb_spec z p); [contradiction|reflexivity].
    - unfold mid. rewrite Nat.eqb_refl. exact Hgp. }
  assert (H2 : c04_sum n g + 1 = c04_sum n mid).
  { apply (c04_sum_dec1 n mid g q); auto.
    - intros z Hzn Hzq. unfold mid. destruct (Nat.eqb_spec z p) as [->|]; auto.
    - unfold mid. destruct (Nat.eqb_spec q p); [congruence|]. exact Hgq. }
  lia.
Qed.

Notation cnt_occ := (count_occ Nat.eq_dec).

Lemma c04_mem_In : forall x l, c04_mem x l = true <-> In x l.
Proof.
  induction l as [|y t IH]; simpl; [split; [discriminate|tauto]|].
  rewrite orb_true_iff, IH, Nat.eqb_eq. split; intros [H|H]; auto.
Qed.

Lemma c04_remove1_spec : forall q l, In q l ->
  cnt_occ (c04_remove1 q l) q + 1 = cnt_occ l q /\ (forall x, x <> q -> cnt_occ (c04_remove1 q l) x = cnt_occ l x) /\
  length (c04_remove1 q l) + 1 = length l /\ (forall x, In x (c04_remove1 q l) -> In x l).
Proof.
  induction l as [|y t IH]; intros H; [destruct H|]. simpl.
  destruct (Nat.eqb_spec q y) as [E|E].
  - subst y. destruct (Nat.eq_dec q q); [|congruence]. repeat split; auto; try lia.
    intros x Hx. destruct (Nat.eq_dec q x); [congruence|reflexivity].
  - destruct H as [H|H]; [congruence|]. destruct (IH H) as [I1 [I2 [I3 I4]]]. simpl.
    destruct (Nat.eq_dec y q); [congruence|]. repeat split; auto; try lia.
    + intros x Hx. destruct (Nat.eq_dec y x); rewrite I2; auto.
    + intros x [Hx|Hx]; auto.
Qed.

Definition c04_unm (cfg : c04_nb_cfg) (p : nat) : list nat := c04_nb_topost (cfg p) ++ c04_nb_posted (cfg p).

Definition c04_nbinv (P : nat) (hints : list (list nat)) (cfg : c04_nb_cfg) : Prop :=
  (forall p q, p < P -> q < P -> cnt_occ (c04_nb_arr (cfg q)) p + cnt_occ (c04_unm cfg p) q = cnt_occ (nth p hints []) q) /\
  (forall q, q < P -> c04_nb_nrecv (cfg q) + length (c04_nb_arr (cfg q)) = length (nth q hints [])) /\
  (forall q x, q < P -> In x (c04_nb_arr (cfg q)) -> x < P) /\
  (forall p x, p < P -> In x (c04_unm cfg p) -> x < P /\ x <> p).

Lemma c04_nbinv_init : forall P hints, c04_hints_consistent P hints -> c04_nbinv P hints (c04_nb_init hints).
Proof.
  intros P hints [Hl Hc]. unfold c04_nbinv, c04_unm, c04_nb_init. simpl. repeat split.
  - intros. rewrite app_nil_r. reflexivity.
  - intros. lia.
  - intros q x _ [].
  - rewrite app_nil_r in H0. destruct (Hc p H) as [_ [_ H3]]. apply H3; auto.
  - rewrite app_nil_r in H0. destruct (Hc p H) as [_ [H2 _]]. intros ->. contradiction.
Qed.

Lemma c04_nbinv_post : forall P hints cfg cfg' p, c04_nbinv P hints cfg -> p < P -> c04_nb_post cfg p = Some cfg' ->
  c04_nbinv P hints cfg'.
Proof.
  intros P hints cfg cfg' p [I1 [I2 [I3 I4]]] Hp Hpost. unfold c04_nb_post in Hpost.
  destruct (c04_nb_topost (cfg p)) as [|d t] eqn:Et; [discriminate|]. inversion Hpost; subst cfg'. clear Hpost.
  assert (Hunm : forall z x, cnt_occ (c04_unm (fun z0 => if z0 =? p then C04_mknb t (d :: c04_nb_posted (cfg p)) (c04_nb_nrecv (cfg p)) (c04_nb_arr (cfg p)) else cfg z0) z) x
                             = cnt_occ (c04_unm cfg z) x).
  { intros z x. unfold c04_unm. destruct (Nat.eqb_spec z p) as [->|]; auto. simpl. rewrite Et.
    rewrite !count_occ_app. simpl. destruct (Nat.eq_dec d x); lia. }
  assert (HIn : forall z x, In x (c04_unm (fun z0 => if z0 =? p then C04_mknb t (d :: c04_nb_posted (cfg p)) (c04_nb_nrecv (cfg p)) (c04_nb_arr (cfg p)) else cfg z0) z)
                            -> In x (c04_unm cfg z)).
  { intros z x. unfold c04_unm. destruct (Nat.eqb_spec z p) as [->|]; auto. simpl. rewrite Et.
    rewrite !in_app_iff. simpl. tauto. }
  unfold c04_nbinv. repeat split.
  - intros p0 q Hp0 Hq. rewrite Hunm. rewrite <- (I1 p0 q Hp0 Hq). destruct (Nat.eqb_spec q p) as [->|]; reflexivity.
  - intros q Hq. rewrite <- (I2 q Hq). destruct (Nat.eqb_spec q p) as [->|]; reflexivity.
  - intros q x Hq Hx. apply (I3 q x Hq). destruct (Nat.eqb_spec q p) as [->|]; exact Hx.
  - apply (I4 p0 x H). apply HIn. exact H0.
  - apply (I4 p0 x H). apply HIn. exact H0.
Qed.

Lemma c04_nbinv_recv : forall P hints cfg cfg' q p, c04_nbinv P hints cfg -> q < P -> p < P -> c04_nb_recv cfg q p = Some cfg' ->
  c04_nbinv P hints cfg' /\ c04_nb_measure P cfg' + 2 = c04_nb_measure P cfg.
Proof.
  intros P hints cfg cfg' q p [I1 [I2 [I3 I4]]] Hq Hp Hrecv. unfold c04_nb_recv in Hrecv.
  destruct (c04_nb_topost (cfg q)) as [|] eqn:Etq; [|discriminate].
  destruct (c04_nb_nrecv (cfg q)) as [|n] eqn:Enq; [discriminate|].
  destruct (c04_mem q (c04_nb_posted (cfg p))) eqn:Em; [|discriminate].
  destruct (Nat.eqb_spec p q) as [Epq|Epq]; [discriminate|]. simpl in Hrecv. inversion Hrecv; subst cfg'. clear Hrecv.
  apply c04_mem_In in Em. destruct (c04_remove1_spec q _ Em) as [R1 [R2 [R3 R4]]].
  set (cfg' := fun z => if z =? q then C04_mknb [] (c04_nb_posted (cfg q)) n (c04_nb_arr (cfg q) ++ [p])
                        else if z =? p then C04_mknb (c04_nb_topost (cfg p)) (c04_remove1 q (c04_nb_posted (cfg p))) (c04_nb_nrecv (cfg p)) (c04_nb_arr (cfg p))
                        else cfg z).
  (* the fields of the new configuration *)
  assert (Farr : forall z, c04_nb_arr (cfg' z) = if z =? q then c04_nb_arr (cfg q) ++ [p] else c04_nb_arr (cfg z)).
  { intros z. unfold cfg'. destruct (Nat.eqb_spec z q); auto. destruct (Nat.eqb_spec z p) as [->|]; auto. }
  assert (Funm : forall z, c04_unm cfg' z = if z =? p then c04_nb_topost (cfg p) ++ c04_remove1 q (c04_nb_posted (cfg p)) else c04_unm cfg z).
  { intros z. unfold c04_unm, cfg'. destruct (Nat.eqb_spec z q) as [->|].
    - destruct (Nat.eqb_spec q p); [congruence|]. simpl. rewrite Etq. reflexivity.
    - destruct (Nat.eqb_spec z p) as [->|]; auto. }
  assert (Fnr : forall z, c04_nb_nrecv (cfg' z) = if z =? q then n else c04_nb_nrecv (cfg z)).
  { intros z. unfold cfg'. destruct (Nat.eqb_spec z q); auto. destruct (Nat.eqb_spec z p) as [->|]; auto. }
  split.
  - unfold c04_nbinv. repeat split.
    + intros p0 q0 Hp0 Hq0. rewrite Farr, Funm. specialize (I1 p0 q0 Hp0 Hq0).
      destruct (Nat.eqb_spec q0 q) as [->|Hq0q]; destruct (Nat.eqb_spec p0 p) as [->|Hp0p].
      * rewrite count_occ_app. simpl. destruct (Nat.eq_dec p p); [|congruence].
        unfold c04_unm in I1. rewrite count_occ_app in I1 |- *. lia.
      * rewrite count_occ_app. simpl. destruct (Nat.eq_dec p p0); [congruence|]. lia.
      * unfold c04_unm in I1. rewrite count_occ_app in I1 |- *. rewrite R2 by auto. lia.
      * exact I1.
    + intros q0 Hq0. rewrite Fnr, Farr. specialize (I2 q0 Hq0). destruct (Nat.eqb_spec q0 q) as [->|]; auto.
      rewrite app_length. simpl. lia.
    + intros q0 x Hq0 Hx. rewrite Farr in Hx. destruct (Nat.eqb_spec q0 q) as [->|]; [|apply (I3 q0 x Hq0 Hx)].
      apply in_app_or in Hx. destruct Hx as [Hx|[<-|[]]]; auto. apply (I3 q x Hq Hx).
    + rewrite Funm in H0. apply (I4 p0 x H). destruct (Nat.eqb_spec p0 p) as [->|]; auto.
      unfold c04_unm. apply in_app_or in H0. apply in_or_app. destruct H0; auto.
    + rewrite Funm in H0. apply (I4 p0 x H). destruct (Nat.eqb_spec p0 p) as [->|]; auto.
      unfold c04_unm. apply in_app_or in H0. apply in_or_app. destruct H0; auto.
  - unfold c04_nb_measure.
    apply (c04_sum_dec2 P _ _ q p); auto.
    + intros z _ Hzq Hzp. unfold cfg'. destruct (Nat.eqb_spec z q); [contradiction|]. destruct (Nat.eqb_spec z p); [contradiction|]. reflexivity.
    + unfold cfg'. rewrite Nat.eqb_refl. simpl. rewrite Etq, Enq. simpl. lia.
    + unfold cfg'. destruct (Nat.eqb_spec p q); [contradiction|]. rewrite Nat.eqb_refl. simpl. lia.
Qed.

Lemma c04_nb_measure_post : forall P cfg cfg' p, p < P -> c04_nb_post cfg p = Some cfg' ->
  c04_nb_measure P cfg' + 1 = c04_nb_measure P cfg.
Proof.
  intros P cfg cfg' p Hp Hpost. unfold c04_nb_post in Hpost.
  destruct (c04_nb_topost (cfg p)) as [|d t] eqn:Et; [discriminate|]. inversion Hpost; subst cfg'.
  unfold c04_nb_measure. apply (c04_sum_dec1 P _ _ p); auto.
  - intros z _ Hz. destruct (Nat.eqb_spec z p); [contradiction|reflexivity].
  - rewrite Nat.eqb_refl. simpl. rewrite Et. simpl. lia.
Qed.

Lemma c04_nb_reach_inv : forall P hints cfg, c04_hints_consistent P hints -> c04_nb_reach P hints cfg -> c04_nbinv P hints cfg.
Proof.
  intros P hints cfg Hc H. induction H as [|cfg cfg' _ IH [[p [Hp Hs]]|[q [p [Hq [Hp Hs]]]]]].
  - apply c04_nbinv_init; auto.
  - eapply c04_nbinv_post; eauto.
  - exact (proj1 (c04_nbinv_recv P hints cfg cfg' q p IH Hq Hp Hs)).
Qed.

Lemma c04_hints_sym : forall P hints p q, c04_hints_consistent P hints -> p < P -> q < P ->
  cnt_occ (nth p hints []) q = cnt_occ (nth q hints []) p.
Proof.
  intros P hints p q [_ Hc] Hp Hq.
  destruct (Hc p Hp) as [Np [_ Sp]]. destruct (Hc q Hq) as [Nq [_ Sq]].
  pose proof (proj1 (NoDup_count_occ Nat.eq_dec _) Np q) as Lp.
  pose proof (proj1 (NoDup_count_occ Nat.eq_dec _) Nq p) as Lq.
  destruct (in_dec Nat.eq_dec q (nth p hints [])) as [Hin|Hin].
  - pose proof (proj1 (count_occ_In Nat.eq_dec _ _) Hin). pose proof (proj1 (count_occ_In Nat.eq_dec _ _) (proj2 (Sp q Hin))). lia.
  - assert (Hin' : ~ In p (nth q hints [])) by (intros H; apply Hin; apply (Sq p H)).
    rewrite (proj1 (count_occ_not_In Nat.eq_dec _ _) Hin), (proj1 (count_occ_not_In Nat.eq_dec _ _) Hin'). reflexivity.
Qed.

(* messages still under way to q = probes q still has to do *)
Lemma c04_nb_inflight : forall P hints cfg q, c04_hints_consistent P hints -> c04_nbinv P hints cfg -> q < P ->
  c04_sum P (fun p => cnt_occ (c04_unm cfg p) q) = c04_nb_nrecv (cfg q).
Proof.
  intros P hints cfg q Hc [I1 [I2 [I3 I4]]] Hq.
  assert (H : c04_sum P (fun p => cnt_occ (c04_nb_arr (cfg q)) p + cnt_occ (c04_unm cfg p) q) = length (nth q hints [])).
  { rewrite (c04_sum_ext P _ (fun p => cnt_occ (nth q hints []) p)).
    - apply c04_sum_count_occ. intros x Hx. destruct Hc as [_ Hc]. destruct (Hc q Hq) as [_ [_ S]]. apply S; auto.
    - intros p Hp. rewrite I1 by auto. apply (c04_hints_sym P); auto. }
  rewrite c04_sum_add in H. rewrite c04_sum_count_occ in H by (intros x Hx; apply (I3 q x Hq Hx)).
  specialize (I2 q Hq). lia.
Qed.

(* C04_neighbour_mode_terminates *)
Theorem P_neighbour_mode_terminates : forall P hints cfg, c04_hints_consistent P hints -> c04_nb_reach P hints cfg ->
  (c04_nb_final P cfg \/ exists cfg', c04_nb_step P cfg cfg') /\
  (forall cfg', c04_nb_step P cfg cfg' -> c04_nb_measure P cfg' < c04_nb_measure P cfg) /\
  (c04_nb_final P cfg -> forall q, q < P -> Permutation (c04_nb_arr (cfg q)) (nth q hints [])).
Proof.
  intros P hints cfg Hc Hr. pose proof (c04_nb_reach_inv P hints cfg Hc Hr) as Hinv.
  pose proof Hinv as [I1 [I2 [I3 I4]]]. split; [|split].
  - (* progress *)
    destruct (c04_bounded_dec P (fun p => negb (c04_is_nil (c04_nb_topost (cfg p))))) as [Hposted|[p [Hp Hnp]]].
    + destruct (c04_bounded_dec P (fun q => negb (c04_nb_nrecv (cfg q) =? 0))) as [Hnone|[q [Hq Hnq]]].
      * left. intros p Hp. pose proof (Hposted p Hp) as Hpp. pose proof (Hnone p Hp) as Hnp.
        apply negb_false_iff in Hpp, Hnp. apply Nat.eqb_eq in Hnp.
        destruct (c04_nb_topost (cfg p)) eqn:Et; [|discriminate]. repeat split; auto.
        destruct (c04_nb_posted (cfg p)) as [|x t] eqn:Epo; auto. exfalso.
        assert (Hx : x < P) by (apply (I4 p x Hp); unfold c04_unm; rewrite Et, Epo; simpl; auto).
        pose proof (c04_nb_inflight P hints cfg x Hc Hinv Hx) as Hfl.
        assert (Hz : c04_nb_nrecv (cfg x) = 0).
        { pose proof (Hnone x Hx) as Hn. apply negb_false_iff, Nat.eqb_eq in Hn. exact Hn. }
        rewrite Hz in Hfl. pose proof (c04_sum_zero P _ Hfl p Hp) as Hc0. unfold c04_unm in Hc0. rewrite Et, Epo in Hc0. simpl in Hc0.
        destruct (Nat.eq_dec x x); [discriminate|congruence].
      * right. apply negb_true_iff, Nat.eqb_neq in Hnq.
        pose proof (c04_nb_inflight P hints cfg q Hc Hinv Hq) as Hfl.
        destruct (c04_sum_pos P (fun p => cnt_occ (c04_unm cfg p) q)) as [p [Hp Hpos]]; [lia|].
        assert (Htq : c04_nb_topost (cfg q) = []).
        { specialize (Hposted q Hq). apply negb_false_iff in Hposted. destruct (c04_nb_topost (cfg q)); [auto|discriminate]. }
        assert (Htp : c04_nb_topost (cfg p) = []).
        { specialize (Hposted p Hp). apply negb_false_iff in Hposted. destruct (c04_nb_topost (cfg p)); [auto|discriminate]. }
        assert (Hin : In q (c04_nb_posted (cfg p))).
        { apply (count_occ_In Nat.eq_dec). unfold c04_unm in Hpos. rewrite Htp in Hpos. simpl in Hpos. lia. }
        assert (Hpq : p <> q).
        { intros ->. apply (I4 q q Hq); auto. unfold c04_unm. apply in_or_app. right. exact Hin. }
        destruct (c04_nb_recv cfg q p) as [c|] eqn:Er.
        -- exists c. right. exists q, p. auto.
        -- exfalso. unfold c04_nb_recv in Er. rewrite Htq in Er. destruct (c04_nb_nrecv (cfg q)); [lia|].
           rewrite (proj2 (c04_mem_In _ _) Hin) in Er. destruct (Nat.eqb_spec p q); [contradiction|]. discriminate.
    + right. apply negb_true_iff in Hnp. destruct (c04_nb_post cfg p) as [c|] eqn:Epost.
      * exists c. left. exists p. auto.
      * unfold c04_nb_post in Epost. destruct (c04_nb_topost (cfg p)); [discriminate|discriminate].
  - intros cfg' [[p [Hp Hs]]|[q [p [Hq [Hp Hs]]]]].
    + pose proof (c04_nb_measure_post P cfg cfg' p Hp Hs). lia.
    + destruct (c04_nbinv_recv P hints cfg cfg' q p Hinv Hq Hp Hs) as [_ Hm]. lia.
  - intros Hfin q Hq. apply (Permutation_count_occ Nat.eq_dec). intros x.
    destruct (Nat.lt_ge_cases x P) as [Hx|Hx].
    + specialize (I1 x q Hx Hq). destruct (Hfin x Hx) as [F1 [F2 _]]. unfold c04_unm in I1. rewrite F1, F2 in I1. simpl in I1.
      rewrite (c04_hints_sym P hints q x); auto. lia.
    + assert (N1 : ~ In x (c04_nb_arr (cfg q))) by (intros H; specialize (I3 q x Hq H); lia).
      assert (N2 : ~ In x (nth q hints [])).
      { intros H. destruct Hc as [_ Hc]. destruct (Hc q Hq) as [_ [_ S]]. specialize (S x H). lia. }
      rewrite (proj1 (count_occ_not_In Nat.eq_dec _ _) N1), (proj1 (count_occ_not_In Nat.eq_dec _ _) N2). reflexivity.
Qed.

(* asymmetric hints (excluded by the property's "consistent"): rank 0 names rank 1, rank 1 names nobody.  Rank 0 posts its
   Issend and then waits for a message that nobody sends: a reachable, non-final configuration without successor. *)
Theorem P_neighbour_asymmetric_deadlock :
  exists cfg, c04_nb_reach 2 [[1]; []] cfg /\ ~ c04_nb_final 2 cfg /\ forall cfg', ~ c04_nb_step 2 cfg cfg'.
Proof.
  exists (fun z => if z =? 0 then C04_mknb [] [1] 1 [] else c04_nb_init [[1]; []] z).
  split; [|split].
  - eapply C04_nr_step; [apply C04_nr_init|]. left. exists 0. split; [lia|reflexivity].
  - intros H. destruct (H 0) as [_ [_ H3]]; [lia|]. simpl in H3. discriminate.
  - intros cfg' [[p [Hp H]]|[q [p [Hq [Hp H]]]]].
    + destruct p as [|[|p]]; [| |lia]; vm_compute in H; discriminate.
    + destruct q as [|[|q]]; [| |lia]; (destruct p as [|[|p]]; [| |lia]); vm_compute in H; discriminate.
Qed.
