(* C04 — proofs, part 7: processes that differ in passing one index-set object for both roles or two (after fix C04-1):
   the two-list unpackIndices is the pair of joins (sets holding every global index once), and the build is the spec. *)
From Coq Require Import List Arith Bool Lia.
From DuneV Require Import C04_Model C04_Spec C04_Proofs C04_Proofs_Build.
Import ListNotations.

Lemma c04_strict_head : forall a t, c04_sorted (a :: t) -> c04_distinct (a :: t) -> forall b, In b t -> c04_g a < c04_g b.
Proof. intros a t [H1 _] [H2 _] b Hb. specialize (H1 b Hb). specialize (H2 b Hb). lia. Qed.

Lemma c04_skip_lt_spec : forall g l, c04_sorted l -> c04_distinct l ->
  exists run, l = run ++ c04_skip_lt g l /\ (forall x, In x run -> c04_g x < g) /\
              (forall x, In x (c04_skip_lt g l) -> g <= c04_g x) /\
              c04_sorted (c04_skip_lt g l) /\ c04_distinct (c04_skip_lt g l).
Proof.
  induction l as [|a t IH]; intros Hs Hd; simpl.
  - exists []. repeat split; auto; intros ? [].
  - destruct (Nat.ltb_spec (c04_g a) g) as [L|G].
    + destruct Hs as [Hs1 Hs2], Hd as [Hd1 Hd2]. destruct (IH Hs2 Hd2) as [run [E [R1 [R2 [R3 R4]]]]].
      exists (a :: run). split; [|split; [|split; [|split]]]; auto.
      * simpl. rewrite <- E. reflexivity.
      * intros x [<-|Hx]; auto.
    + exists []. split; [|split; [|split; [|split]]]; auto.
      * intros ? [].
      * intros x [<-|Hx]; auto. destruct Hs as [Hs1 _]. specialize (Hs1 x Hx). lia.
Qed.

(* the row of one received pair in a strictly sorted local list: at most the pair at which the skipping stops *)
Lemma c04_row_strict : forall loc index, c04_sorted loc -> c04_distinct loc ->
  forall out, c04_push_match index (c04_skip_lt (c04_g index) loc) out = out ++ c04_row false loc index.
Proof.
  intros loc index Hs Hd out.
  destruct (c04_skip_lt_spec (c04_g index) loc Hs Hd) as [run [E [R1 [R2 [R3 R4]]]]].
  assert (Hrow : c04_row false loc index = c04_row false (c04_skip_lt (c04_g index) loc) index).
  { rewrite E at 1. unfold c04_row. rewrite filter_app.
    assert (filter (c04_match false index) run = []) as ->; auto.
    clear E. induction run as [|x run IHr]; simpl; auto.
    unfold c04_match at 1. destruct (Nat.eqb_spec (c04_g x) (c04_g index)) as [Ex|Ex].
    - specialize (R1 x (or_introl eq_refl)). lia.
    - simpl. apply IHr. intros; apply R1; simpl; auto. }
  rewrite Hrow. unfold c04_push_match.
  destruct (c04_skip_lt (c04_g index) loc) as [|a t]; [unfold c04_row; simpl; rewrite app_nil_r; reflexivity|].
  assert (Ht : filter (c04_match false index) t = []).
  { pose proof (c04_strict_head a t R3 R4) as Hst. specialize (R2 a (or_introl eq_refl)).
    clear - Hst R2. induction t as [|x t IHt]; simpl; auto.
    unfold c04_match at 1. destruct (Nat.eqb_spec (c04_g x) (c04_g index)) as [Ex|Ex].
    - specialize (Hst x (or_introl eq_refl)). lia.
    - simpl. apply IHt. intros; apply Hst; simpl; auto. }
  unfold c04_row. simpl. unfold c04_match at 1. unfold c04_keep. simpl.
  destruct (Nat.eqb_spec (c04_g a) (c04_g index)); simpl; rewrite Ht; simpl; [reflexivity|rewrite app_nil_r; reflexivity].
Qed.

(* C04_unpack2_is_join *)
Theorem P_unpack2_is_join : forall remote src dst send recv,
  c04_sorted remote -> c04_distinct remote -> c04_sorted src -> c04_distinct src -> c04_sorted dst -> c04_distinct dst ->
  c04_unpack2 remote src dst send recv = (send ++ c04_join false src remote, recv ++ c04_join false dst remote).
Proof.
  induction remote as [|index rest IH]; intros src dst send recv Hr Hrd Hs Hsd Hd Hdd.
  - simpl. rewrite !app_nil_r. reflexivity.
  - assert (Hgo : c04_unpack2 rest (c04_skip_lt (c04_g index) src) (c04_skip_lt (c04_g index) dst)
                    (c04_push_match index (c04_skip_lt (c04_g index) src) send) (c04_push_match index (c04_skip_lt (c04_g index) dst) recv)
                  = (send ++ c04_join false src (index :: rest), recv ++ c04_join false dst (index :: rest))).
    { destruct (c04_skip_lt_spec (c04_g index) src Hs Hsd) as [runs [Es [S1 [S2 [S3 S4]]]]].
      destruct (c04_skip_lt_spec (c04_g index) dst Hd Hdd) as [rund [Ed [D1 [D2 [D3 D4]]]]].
      rewrite IH; auto; try apply Hr; try apply Hrd.
      rewrite !c04_row_strict by auto. rewrite !c04_join_cons, <- !app_assoc.
      pose proof (c04_strict_head index rest Hr Hrd) as Hgt.
      f_equal; f_equal; f_equal.
      - rewrite Es at 2. symmetry. apply c04_join_drop_run. intros l r Hl Hrr. specialize (S1 l Hl). specialize (Hgt r Hrr). lia.
      - rewrite Ed at 2. symmetry. apply c04_join_drop_run. intros l r Hl Hrr. specialize (D1 l Hl). specialize (Hgt r Hrr). lia. }
    destruct src as [|s0 src']; [destruct dst as [|d0 dst']|]; try exact Hgo.
    simpl. rewrite !c04_join_nil_l, !app_nil_r. reflexivity.
Qed.

(* ---- unpackCreateRemote for every combination of (sender has two sets, receiver has two sets) ------------------- *)
Lemma c04_unpack_create_spec_mixed : forall ign twop twoq fs (sp sq : list c04_pair * list c04_pair),
  c04_sorted (fst sp) -> c04_sorted (snd sp) -> c04_sorted (fst sq) -> c04_sorted (snd sq) ->
  (twop = true -> twoq = false -> fs = false /\ c04_distinct (fst sp) /\ c04_distinct (snd sp) /\ c04_distinct (fst sq)) ->
  c04_unpack_create (c04_pack ign twoq (fst sq) (snd sq))
     (c04_published ign (fst sp)) (if twop then c04_published ign (snd sp) else c04_published ign (fst sp)) twop fs
  = C04_Ok (c04_some_nonempty (c04_spec_lists2 ign twop twoq fs sp sq)).
Proof.
  intros ign twop twoq fs [s1 t1] [s2 t2] H1 H2 H3 H4 Hmix. simpl in *.
  unfold c04_unpack_create, c04_pack, c04_spec_lists2, c04_tgt. simpl.
  destruct twoq; simpl.
  - destruct twop; rewrite !P_unpack_is_join by (apply c04_sorted_published; auto); reflexivity.
  - destruct twop; simpl.
    + destruct (Hmix eq_refl eq_refl) as [-> [D1 [D2 D3]]].
      rewrite P_unpack2_is_join; try apply c04_sorted_published; try apply c04_distinct_filter; auto.
    + rewrite !P_unpack_is_join by (apply c04_sorted_published; auto). reflexivity.
Qed.

Lemma c04_msgs_mixed_nth : forall ign twos d q, length twos = length d -> q < length d ->
  nth q (c04_msgs_mixed ign twos d) c04_empty_msg =
  c04_pack ign (nth q twos false) (fst (nth q d ([], []))) (snd (nth q d ([], []))).
Proof.
  intros ign twos d q Hl Hq. unfold c04_msgs_mixed.
  rewrite (nth_indep _ c04_empty_msg ((fun tst : bool * (list c04_pair * list c04_pair) => c04_pack ign (fst tst) (fst (snd tst)) (snd (snd tst))) (false, ([], []))))
    by (rewrite map_length, combine_length; lia).
  rewrite (map_nth (fun tst : bool * (list c04_pair * list c04_pair) => c04_pack ign (fst tst) (fst (snd tst)) (snd (snd tst)))).
  rewrite combine_nth by auto. reflexivity.
Qed.

Lemma c04_fold_arrivals_mixed : forall (ign : bool) (twos : list bool) d p qs m0,
  c04_decomp_sorted d -> c04_decomp_distinct d -> length twos = length d -> p < length d ->
  (forall q, In q qs -> q < length d) ->
  let sp := nth p d ([], []) in let tp := nth p twos false in
  fold_left (c04_step_arrival (c04_published ign (fst sp))
               (if tp then c04_published ign (snd sp) else c04_published ign (fst sp)) tp)
            (map (fun q => (q, nth q (c04_msgs_mixed ign twos d) c04_empty_msg)) qs) (C04_Ok m0)
  = C04_Ok (c04_ins_all (fun q => c04_spec_lists2 ign tp (nth q twos false) false sp (nth q d ([], []))) qs m0).
Proof.
  intros ign twos d p qs m0 Hd Hdd Hl Hp. revert m0. induction qs as [|q qs IH]; intros m0 Hq sp tp; [reflexivity|].
  cbn [map fold_left]. unfold c04_step_arrival at 2. cbn [c04_bind fst snd].
  assert (Hql : q < length d) by (apply Hq; simpl; auto).
  rewrite c04_msgs_mixed_nth by auto.
  destruct (Hd (nth p d ([], [])) (nth_In _ _ Hp)) as [S1 S2].
  destruct (Hd (nth q d ([], [])) (nth_In _ _ Hql)) as [S3 S4].
  destruct (Hdd (nth p d ([], [])) (nth_In _ _ Hp)) as [D1 D2].
  destruct (Hdd (nth q d ([], [])) (nth_In _ _ Hql)) as [D3 D4].
  unfold sp, tp. rewrite (c04_unpack_create_spec_mixed ign (nth p twos false) (nth q twos false) false (nth p d ([], [])) (nth q d ([], []))); auto.
  cbn [c04_bind]. fold sp. fold tp. rewrite IH by (intros; apply Hq; simpl; auto). reflexivity.
Qed.

Theorem P_build_rank_spec_mixed : forall (ign : bool) (twos : list bool) (incself : bool) d p qs,
  c04_decomp_sorted d -> c04_decomp_distinct d -> length twos = length d -> p < length d ->
  c04_hints_ok_mixed ign twos incself d p qs ->
  c04_build_rank (length d) p (nth p twos false) ign incself (fst (nth p d ([], []))) (snd (nth p d ([], [])))
                 (map (fun q => (q, nth q (c04_msgs_mixed ign twos d) c04_empty_msg)) qs)
  = C04_Ok (c04_spec_rank_mixed ign twos incself d p).
Proof.
  intros ign twos incself d p qs Hd Hdd Hlen Hp [Hnd [Hrange Hcover]].
  set (two := nth p twos false).
  set (sp := nth p d ([], [])).
  set (f := fun q => c04_spec_lists2 ign two (nth q twos false) false sp (nth q d ([], []))).
  destruct (Hd sp (nth_In _ _ Hp)) as [S1 S2].
  (* the self part *)
  set (selfx := c04_spec_lists2 ign two two incself sp sp).
  assert (Hself : (if two || incself then
            c04_bind (c04_unpack_create (c04_pack ign two (fst sp) (snd sp)) (c04_published ign (fst sp))
                        (if two then c04_published ign (snd sp) else c04_published ign (fst sp)) two incself)
              (fun o => C04_Ok (match o with None => [] | Some x => c04_insert p x [] end))
          else C04_Ok []) =
          C04_Ok (if two || incself then (if c04_lists_empty selfx then [] else [(p, selfx)]) else [])).
  { destruct (two || incself); auto. rewrite (c04_unpack_create_spec_mixed ign two two incself sp sp); auto; [|intros Ht Hf; rewrite Ht in Hf; discriminate]. cbn [c04_bind]. fold selfx.
    unfold c04_some_nonempty. destruct (c04_lists_empty selfx); reflexivity. }
  set (m0 := if two || incself then (if c04_lists_empty selfx then [] else [(p, selfx)]) else []) in *.
  assert (Hm0s : c04_ksorted m0).
  { unfold m0. destruct (two || incself); [|exact I]. destruct (c04_lists_empty selfx); [exact I|].
    cbn [c04_ksorted]. split; [intros ? []|exact I]. }
  assert (Hm0k : forall q, In q qs -> ~ In q (map fst m0)).
  { intros q Hq Hin. destruct (Hrange q Hq) as [_ Hne]. unfold m0 in Hin.
    destruct (two || incself); [|destruct Hin]. destruct (c04_lists_empty selfx); [destruct Hin|].
    cbn [map fst In] in Hin. destruct Hin as [Hin|[]]. auto. }
  (* spec side *)
  pose proof (c04_flat_spec (c04_spec_entry_mixed ign twos incself d p) (length d) 0) as [F1 F2].
  fold (c04_spec_rank_mixed ign twos incself d p) in F1, F2.
  (* both sides *)
  assert (Hmain : c04_ins_all f qs m0 = c04_spec_rank_mixed ign twos incself d p).
  { destruct (c04_ins_all_spec f qs m0 Hm0s Hnd Hm0k) as [I1 I2].
    apply c04_ksorted_ext; auto. intros e. rewrite I2, F2. split.
    - intros [Hin|[Hq [Hv Hne]]].
      + unfold m0 in Hin. destruct (two || incself) eqn:Eti; [|destruct Hin].
        destruct (c04_lists_empty selfx) eqn:Ee; [destruct Hin|].
        destruct Hin as [<-|[]]. simpl.
        assert (Hent : c04_spec_entry_mixed ign twos incself d p p = selfx).
        { unfold c04_spec_entry_mixed. rewrite Nat.eqb_refl. fold sp. fold two. unfold selfx.
          destruct two; auto. simpl in Eti. rewrite Eti. reflexivity. }
        rewrite Hent. repeat split; auto; lia.
      + destruct (Hrange _ Hq) as [Hlt Hne'].
        assert (Hent : c04_spec_entry_mixed ign twos incself d p (fst e) = f (fst e)).
        { unfold c04_spec_entry_mixed. destruct (Nat.eqb_spec (fst e) p); [contradiction|]. reflexivity. }
        rewrite Hent. repeat split; auto; lia.
    - intros [[_ Hlt] [Hv Hne]]. destruct (Nat.eq_dec (fst e) p) as [Ep|Ep].
      + left. unfold c04_spec_entry_mixed in Hv, Hne. rewrite Ep, Nat.eqb_refl in Hv, Hne. fold sp in Hv, Hne. fold two in Hv, Hne.
        assert (Hti : two || incself = true /\ snd e = selfx /\ c04_lists_empty selfx = false).
        { unfold selfx. destruct two; [repeat split; auto|]. destruct incself; [repeat split; auto|].
          cbn in Hne. discriminate. }
        destruct Hti as [T1 [T2 T3]]. unfold m0. rewrite T1, T3. left.
        destruct e as [k v]. cbn [fst snd] in Ep, T2. rewrite Ep, T2. reflexivity.
      + right. assert (Hent : c04_spec_entry_mixed ign twos incself d p (fst e) = f (fst e)).
        { unfold c04_spec_entry_mixed. destruct (Nat.eqb_spec (fst e) p); [contradiction|]. reflexivity. }
        rewrite Hent in Hv, Hne. repeat split; auto.
        apply Hcover; auto. rewrite Hent. exact Hne. }
  unfold c04_build_rank.
  destruct ((length d =? 1) && negb (two || incself)) eqn:E1.
  - (* nothing to communicate: one process, one set, no self entries *)
    apply andb_true_iff in E1. destruct E1 as [E1 E2]. apply Nat.eqb_eq in E1. apply negb_true_iff in E2.
    rewrite <- Hmain. unfold m0. rewrite E2.
    destruct qs as [|q qs']; [reflexivity|]. destruct (Hrange q (or_introl eq_refl)). lia.
  - fold sp. unfold c04_pack at 1.
    change (C04_mkmsg two (c04_published ign (fst sp)) (if two then c04_published ign (snd sp) else []))
      with (c04_pack ign two (fst sp) (snd sp)).
    assert (Hdest : (if two then c04_published ign (snd sp) else c04_published ign (fst sp)) =
                    (if two then c04_published ign (snd sp) else c04_published ign (fst sp))) by reflexivity.
    rewrite Hself. etransitivity.
    { apply (c04_fold_arrivals_mixed ign twos d p qs m0 Hd Hdd Hlen Hp (fun q Hq => proj1 (Hrange q Hq))). }
    f_equal. exact Hmain.
Qed.

(* C04_spec_mixed *)
Theorem P_spec_mixed : forall (twos : list bool) (ign incself : bool) d mode p,
  c04_decomp_sorted d -> c04_decomp_distinct d -> length twos = length d -> p < length d ->
  match mode with None => True | Some orders => c04_hints_ok_mixed ign twos incself d p (nth p orders []) end ->
  nth p (c04_build_mixed twos ign incself d mode) C04_OutOfFuel = C04_Ok (c04_spec_rank_mixed ign twos incself d p).
Proof.
  intros twos ign incself d mode p Hd Hdd Hl Hp Hm. unfold c04_build_mixed.
  rewrite c04_nth_map_seq by auto.
  destruct mode as [orders|]; simpl c04_arrivals.
  - apply P_build_rank_spec_mixed; auto.
  - rewrite P_ring_arrivals by (auto; unfold c04_msgs_mixed; rewrite map_length, combine_length; lia).
    apply P_build_rank_spec_mixed; auto.
    destruct (P_ring_sources_perm (length d) p Hp) as [Hnd Hin].
    split; [exact Hnd|]. split.
    + intros q Hq. apply Hin; auto.
    + intros q Hq Hne _. apply Hin; auto.
Qed.

Lemma c04_flat_map_ext_in : forall {A B} (f g : A -> list B) l, (forall x, In x l -> f x = g x) -> flat_map f l = flat_map g l.
Proof.
  induction l as [|a l IH]; intros H; simpl; auto.
  rewrite (H a (or_introl eq_refl)). rewrite IH; auto. intros x Hx. apply H. simpl; auto.
Qed.

(* with every process passing two objects (or every process one) this is the former statement *)
Lemma P_spec_rank_mixed_const : forall (two ign incself : bool) d p, p < length d ->
  c04_spec_rank_mixed ign (map (fun _ => two) d) incself d p = c04_spec_rank ign two incself d p.
Proof.
  intros two ign incself d p Hp. unfold c04_spec_rank_mixed, c04_spec_rank.
  apply c04_flat_map_ext_in. intros q Hq. apply in_seq in Hq.
  assert (Hn : forall z, z < length d -> nth z (map (fun _ : list c04_pair * list c04_pair => two) d) false = two).
  { intros z Hz. rewrite (nth_indep _ false ((fun _ => two) (@nil c04_pair, @nil c04_pair))) by (rewrite map_length; auto).
    rewrite (map_nth (fun _ : list c04_pair * list c04_pair => two) d ([], [])). reflexivity. }
  unfold c04_spec_entry_mixed, c04_spec_entry. rewrite !Hn by lia. destruct two; reflexivity.
Qed.
