(* C04 — proofs, part 5: one RemoteIndices object re-used over several pairs of index sets.  The literal object state
   (sequence numbers, firstBuild, publicIgnored, neighbourIds) simulates the flag-based history spec for EVERY history of
   setIndexSets (with / without hints) / setNeighbours / setIncludeSelf / free / rebuild<ign> / resizes of any sets. *)
From Coq Require Import List Arith Bool ZArith Lia.
From DuneV Require Import C04_Model C04_Spec C04_Proofs_Build.
Import ListNotations.

Lemma c04_upd_length : forall {A} n (f : A -> A) l, length (c04_upd n f l) = length l.
Proof. intros A n f l. revert n. induction l as [|a t IH]; intros [|n]; simpl; auto. Qed.

Lemma c04_upd_nth_same : forall {A} n (f : A -> A) l d, n < length l -> nth n (c04_upd n f l) d = f (nth n l d).
Proof.
  intros A n f l d. revert n. induction l as [|a t IH]; intros [|n] H; simpl in *; try lia; auto.
  apply IH. lia.
Qed.

Lemma c04_upd_nth_other : forall {A} n m (f : A -> A) l d, n <> m -> nth n (c04_upd m f l) d = nth n l d.
Proof.
  intros A n m f l d. revert n m. induction l as [|a t IH]; intros [|n] [|m] H; simpl; auto; try lia.
Qed.

Lemma c04_upd_map : forall {A B} (g : A -> B) n (f : A -> A) (f' : B -> B) l,
  (forall a, g (f a) = f' (g a)) -> map g (c04_upd n f l) = c04_upd n f' (map g l).
Proof.
  intros A B g n f f' l H. revert n. induction l as [|a t IH]; intros [|n]; simpl; auto; rewrite ?H, ?IH; auto.
Qed.

Section ObjProofs.
  Variable result : Type.
  Variable buildf : c04_decomp -> bool -> bool -> list (list nat) -> result.

  Notation sys := (c04_sys result).
  Notation hspec := (c04_hspec result).
  Notation hstep := (c04_hstep result buildf).
  Notation sstep := (c04_hspec_step result buildf).

  Definition c04_hop_wf (n : nat) (op : c04_hop) : Prop :=
    match op with C04_HSetIndexSets s _ => s < n | _ => True end.

  Definition c04_cur_dst (two : bool) (sl : c04_slot) : Z := if two then c04_sl_dstSeq sl else c04_sl_srcSeq sl.

  Definition c04_obj_rel (y : sys) (h : hspec) : Prop :=
    let o := c04_sy_obj _ y in
    c04_sy_two _ y = c04_hs_two _ h /\ c04_sy_P _ y = c04_hs_P _ h /\
    map c04_sl_content (c04_sy_slots _ y) = c04_hs_contents _ h /\
    c04_ob_slot _ o = c04_hs_slot _ h /\ c04_ob_hints _ o = c04_hs_hints _ h /\
    c04_ob_incself _ o = c04_hs_incself _ h /\ c04_ob_map _ o = c04_hs_map _ h /\
    (forall s, c04_ob_slot _ o = Some s -> s < length (c04_sy_slots _ y)) /\
    match c04_hs_built _ h with
    | None => c04_ob_first _ o = true
    | Some ig =>
        c04_ob_first _ o = false /\ c04_ob_pubIgn _ o = ig /\
        exists s, c04_ob_slot _ o = Some s /\
          let sl := nth s (c04_sy_slots _ y) c04_slot_dflt in
          (c04_ob_srcSeqNo _ o <= c04_sl_srcSeq sl)%Z /\ (c04_ob_dstSeqNo _ o <= c04_cur_dst (c04_sy_two _ y) sl)%Z /\
          (if c04_hs_stale _ h
           then (c04_ob_srcSeqNo _ o < c04_sl_srcSeq sl)%Z \/ (c04_ob_dstSeqNo _ o < c04_cur_dst (c04_sy_two _ y) sl)%Z
           else c04_ob_srcSeqNo _ o = c04_sl_srcSeq sl /\ c04_ob_dstSeqNo _ o = c04_cur_dst (c04_sy_two _ y) sl)
    end.

  (* between a build and the next setIndexSets / free(): isSynced() is false exactly when a targeted set was resized *)
  Lemma c04_rel_synced : forall y h ig, c04_obj_rel y h -> c04_hs_built _ h = Some ig ->
    c04_obj_synced _ y = negb (c04_hs_stale _ h).
  Proof.
    intros y h ig [_ [_ [_ [_ [_ [_ [_ [_ Hb]]]]]]]] E. rewrite E in Hb.
    destruct Hb as [_ [_ [s [Hs [H1 [H2 H3]]]]]]. unfold c04_obj_synced. rewrite Hs.
    unfold c04_cur_dst in *. destruct (c04_hs_stale _ h); simpl.
    - apply andb_false_iff. destruct H3; [left|right]; apply Z.eqb_neq; lia.
    - destruct H3 as [-> ->]. rewrite !Z.eqb_refl. reflexivity.
  Qed.

  Lemma c04_content_nth : forall s (slots : list c04_slot),
    c04_sl_content (nth s slots c04_slot_dflt) = nth s (map c04_sl_content slots) [].
  Proof. intros. change (@nil (list c04_pair * list c04_pair)) with (c04_sl_content c04_slot_dflt). symmetry. apply map_nth. Qed.

  Lemma c04_rel_step : forall y h op, c04_obj_rel y h -> c04_hop_wf (length (c04_sy_slots _ y)) op ->
    c04_obj_rel (hstep y op) (sstep h op).
  Proof.
    intros y h op R Hwf. pose proof R as R0.
    destruct R as [R1 [R2 [R3 [R4 [R5 [R6 [R7 [R8 R9]]]]]]]].
    destruct y as [two P slots o]. destruct o as [oslot ohints oinc opub ofirst osrc odst omap].
    destruct h as [htwo hP hcont hslot hhints hinc hbuilt hstale hmap].
    simpl in *. subst htwo hP hcont hslot hhints hinc hmap.
    destruct op as [s hi|l|b| |ign|s ws wd d]; simpl.
    - (* setIndexSets *)
      unfold c04_obj_rel; simpl. repeat split; auto. intros s0 E. inversion E; subst. exact Hwf.
    - unfold c04_obj_rel; simpl. repeat split; auto.
    - unfold c04_obj_rel; simpl. repeat split; auto.
    - unfold c04_obj_rel; simpl. repeat split; auto.
    - (* rebuild *)
      destruct oslot as [s|]; [|exact R0].
      assert (Hcond : (ofirst || negb (eqb ign opub) ||
                       negb (c04_obj_synced result (C04_mksys result two P slots (C04_mkobj result (Some s) ohints oinc opub ofirst osrc odst omap))))
                      = match hbuilt with None => true | Some ig => negb (eqb ign ig) || hstale end).
      { destruct hbuilt as [ig|].
        - rewrite (c04_rel_synced _ _ ig R0 eq_refl). simpl.
          destruct R9 as [-> [-> _]]. simpl. rewrite negb_involutive. reflexivity.
        - rewrite R9. reflexivity. }
      rewrite Hcond.
      destruct (match hbuilt with None => true | Some ig => negb (eqb ign ig) || hstale end); [|exact R0].
      unfold c04_obj_rel; simpl. rewrite c04_content_nth.
      repeat split; auto.
      exists s. split; auto. unfold c04_cur_dst. repeat split; lia.
    - (* resize *)
      unfold c04_obj_rel; simpl. rewrite c04_upd_length.
      repeat split; auto.
      + apply c04_upd_map. intros a. reflexivity.
      + destruct hbuilt as [ig|]; auto.
        destruct R9 as [F1 [F2 [s0 [Hs0 [H1 [H2 H3]]]]]]. split; auto. split; auto.
        exists s0. split; auto. rewrite Hs0. simpl.
        pose proof (R8 s0 Hs0) as Hlt.
        destruct (Nat.eqb_spec s0 s) as [E|E].
        * subst s0. rewrite c04_upd_nth_same by auto. simpl. unfold c04_cur_dst in *. simpl.
          destruct two, ws, wd, hstale; simpl in *; lia.
        * rewrite c04_upd_nth_other by auto. rewrite orb_false_r. repeat split; auto.
  Qed.

  Lemma c04_hstep_slots_length : forall y op, length (c04_sy_slots _ (hstep y op)) = length (c04_sy_slots _ y).
  Proof.
    intros y op. destruct op; simpl; auto.
    - destruct (c04_ob_slot _ (c04_sy_obj _ y)); auto.
      destruct (_ || _ || _); auto.
    - apply c04_upd_length.
  Qed.

  Lemma c04_rel_run : forall ops y h, c04_obj_rel y h -> Forall (c04_hop_wf (length (c04_sy_slots _ y))) ops ->
    c04_obj_rel (c04_hrun result buildf y ops) (c04_hspec_run result buildf h ops).
  Proof.
    induction ops as [|op ops IH]; intros y h R Hwf; simpl; auto.
    inversion Hwf; subst. apply IH.
    - apply c04_rel_step; auto.
    - rewrite c04_hstep_slots_length. auto.
  Qed.

  (* initial states: the constructor with index sets, and the default constructor *)
  Definition c04_sys_ctor (two : bool) (P : nat) (slots : list c04_slot) (s : nat) (hints : list (list nat)) (inc : bool) : sys :=
    C04_mksys _ two P slots (c04_obj_ctor _ s hints inc).
  Definition c04_hspec_ctor (two : bool) (P : nat) (slots : list c04_slot) (s : nat) (hints : list (list nat)) (inc : bool) : hspec :=
    C04_mkhspec _ two P (map c04_sl_content slots) (Some s) (map c04_set_of hints) inc None false None.
  Definition c04_sys_default (two : bool) (P : nat) (slots : list c04_slot) : sys :=
    C04_mksys _ two P slots (c04_obj_default _ P).
  Definition c04_hspec_default (two : bool) (P : nat) (slots : list c04_slot) : hspec :=
    C04_mkhspec _ two P (map c04_sl_content slots) None (repeat [] P) false None false None.

  Lemma c04_rel_ctor : forall two P slots s hints inc, s < length slots ->
    c04_obj_rel (c04_sys_ctor two P slots s hints inc) (c04_hspec_ctor two P slots s hints inc).
  Proof.
    intros. unfold c04_obj_rel; simpl. repeat split; auto. intros s0 E. inversion E; subst; auto.
  Qed.
  Lemma c04_rel_default : forall two P slots, c04_obj_rel (c04_sys_default two P slots) (c04_hspec_default two P slots).
  Proof. intros. unfold c04_obj_rel; simpl. repeat split; auto. intros s0 E. discriminate. Qed.

  (* C04_obj_history *)
  Theorem P_obj_history : forall two P slots s hints inc ops, s < length slots ->
    Forall (c04_hop_wf (length slots)) ops ->
    let y := c04_hrun result buildf (c04_sys_ctor two P slots s hints inc) ops in
    let h := c04_hspec_run result buildf (c04_hspec_ctor two P slots s hints inc) ops in
    c04_ob_map _ (c04_sy_obj _ y) = c04_hs_map _ h /\
    c04_ob_hints _ (c04_sy_obj _ y) = c04_hs_hints _ h /\
    map c04_sl_content (c04_sy_slots _ y) = c04_hs_contents _ h /\
    (forall ig, c04_hs_built _ h = Some ig -> c04_obj_synced _ y = negb (c04_hs_stale _ h)).
  Proof.
    intros two P slots s hints inc ops Hs Hwf y h.
    pose proof (c04_rel_run ops _ _ (c04_rel_ctor two P slots s hints inc Hs) Hwf) as R. fold y h in R.
    pose proof R as [_ [_ [R3 [_ [R5 [_ [R7 _]]]]]]].
    repeat split; auto. intros ig E. eapply c04_rel_synced; eauto.
  Qed.

  Theorem P_obj_history_default : forall two P slots ops,
    Forall (c04_hop_wf (length slots)) ops ->
    let y := c04_hrun result buildf (c04_sys_default two P slots) ops in
    let h := c04_hspec_run result buildf (c04_hspec_default two P slots) ops in
    c04_ob_map _ (c04_sy_obj _ y) = c04_hs_map _ h /\
    c04_ob_hints _ (c04_sy_obj _ y) = c04_hs_hints _ h /\
    (forall ig, c04_hs_built _ h = Some ig -> c04_obj_synced _ y = negb (c04_hs_stale _ h)).
  Proof.
    intros two P slots ops Hwf y h.
    pose proof (c04_rel_run ops _ _ (c04_rel_default two P slots) Hwf) as R. fold y h in R.
    pose proof R as [_ [_ [_ [_ [R5 [_ [R7 _]]]]]]].
    repeat split; auto. intros ig E. eapply c04_rel_synced; eauto.
  Qed.

  (* what a rebuild leaves: the build of the CURRENT content of the targeted sets, in the requested publicity mode
     whenever the rebuild takes place -- and it takes place after setIndexSets / free() / a resize / a mode change *)
  Theorem P_hspec_rebuild : forall (h : hspec) ign s, c04_hs_slot _ h = Some s ->
    let h' := sstep h (C04_HRebuild ign) in
    c04_hs_built _ h' = Some ign /\ c04_hs_stale _ h' = false /\
    ((c04_hs_built _ h = None \/ c04_hs_stale _ h = true \/ c04_hs_built _ h = Some (negb ign)) ->
       exists hints', c04_hs_map _ h' = Some (buildf (nth s (c04_hs_contents _ h) []) ign (c04_hs_incself _ h) hints') /\
                      c04_hs_hints _ h' = hints' /\
                      (hints' = c04_hs_hints _ h \/ hints' = c04_erase_self (c04_hs_hints _ h))).
  Proof.
    intros h ign s Hs. simpl. rewrite Hs.
    destruct (c04_hs_built _ h) as [ig|] eqn:Eb.
    - destruct (negb (eqb ign ig) || c04_hs_stale _ h) eqn:C; simpl.
      + repeat split; auto. intros _. eexists; split; [reflexivity|]. split; auto.
        destruct (_ && _); auto.
      + apply orb_false_iff in C. destruct C as [C1 C2]. apply negb_false_iff, eqb_prop in C1. subst ig.
        rewrite Eb. repeat split; auto.
        intros [H|[H|H]]; try congruence. inversion H. destruct ign; discriminate.
    - simpl. repeat split; auto. intros _. eexists; split; [reflexivity|]. split; auto.
      destruct (_ && _); auto.
  Qed.
End ObjProofs.

(* the concrete build: with all-empty hints (ring) or admissible non-empty hints it is the spec, for every rank *)
Theorem P_obj_buildf_spec : forall (two ign incself : bool) d hints p,
  c04_decomp_sorted d -> p < length d ->
  (forallb c04_is_nil hints = true \/
   (forallb (fun h => negb (c04_is_nil h)) hints = true /\ c04_hints_ok ign two incself d p (nth p hints []))) ->
  nth p (c04_obj_buildf two d ign incself hints) C04_OutOfFuel = C04_Ok (c04_spec_rank ign two incself d p).
Proof.
  intros two ign incself d hints p Hd Hp H. unfold c04_obj_buildf.
  destruct (forallb c04_is_nil hints) eqn:E1.
  - apply P_spec; simpl; auto.
  - destruct H as [H|[H1 H2]]; [discriminate|]. rewrite H1. apply P_spec; simpl; auto.
Qed.
