(* C04 — proofs, part 4: the Ssend/Recv pairs of the ring admit a linear order compatible with every rank's
   program order, for every P >= 2 (odd P included); every Ssend has its Recv in the same round. *)
From Coq Require Import List Arith Bool Lia.
From DuneV Require Import C04_Model C04_Spec C04_Proofs_Build.
Import ListNotations.

Lemma c04_increasing_blocks : forall f1 f2 n a, f1 < f2 -> f2 <= 2 ->
  c04_increasing (flat_map (fun k => [3 * k + f1; 3 * k + f2]) (seq a n)) /\
  (forall x, In x (flat_map (fun k => [3 * k + f1; 3 * k + f2]) (seq a n)) -> 3 * a <= x).
Proof.
  intros f1 f2. induction n as [|n IH]; intros a H1 H2; simpl.
  - split; auto. intros x [].
  - destruct (IH (S a) H1 H2) as [I1 I2]. split.
    + split; [lia|]. destruct (flat_map _ (seq (S a) n)) as [|y t] eqn:E; simpl; auto.
      split; auto. specialize (I2 y (or_introl eq_refl)). lia.
    + intros x [<-|[<-|Hx]]; try lia. specialize (I2 x Hx). lia.
Qed.

Lemma c04_pred_mod : forall P rank, rank < P -> (rank + P - 1) mod P = if rank =? 0 then P - 1 else rank - 1.
Proof.
  intros P rank H. rewrite c04_mod_cases by lia.
  destruct (Nat.eqb_spec rank 0); destruct (Nat.ltb_spec (rank + P - 1) P); lia.
Qed.

(* the stamps of the calls of one rank, in program order *)
Definition c04_rank_stamps (P rank : nat) : list nat :=
  map (fun x => c04_stamp P (c04_rdv_of rank x)) (c04_ring_ops P rank).

Lemma c04_rank_stamps_blocks : forall P rank,
  let ph := fun s => if Nat.even s then (if (s =? P - 1) && Nat.odd P then 1 else 0) else 2 in
  let pred := (rank + P - 1) mod P in
  c04_rank_stamps P rank =
  flat_map (fun k => if Nat.even rank then [3 * k + ph rank; 3 * k + ph pred] else [3 * k + ph pred; 3 * k + ph rank])
           (seq 1 (P - 1)).
Proof.
  intros P rank ph pred. unfold c04_rank_stamps, c04_ring_ops.
  induction (seq 1 (P - 1)) as [|k l IH]; simpl; auto.
  rewrite map_app, IH. f_equal.
  destruct (Nat.even rank); reflexivity.
Qed.

(* C04_ring_no_deadlock (ordering form) *)
Theorem P_ring_order : forall P rank, 2 <= P -> rank < P -> c04_increasing (c04_rank_stamps P rank).
Proof.
  intros P rank HP Hr. rewrite c04_rank_stamps_blocks. cbv zeta.
  rewrite c04_pred_mod by auto.
  destruct (Nat.even rank) eqn:Er.
  - (* even rank: its own send first, then the receive from the predecessor *)
    apply c04_increasing_blocks.
    + destruct (Nat.eqb_spec rank 0) as [E0|E0].
      * subst. simpl Nat.even. destruct (Nat.eqb_spec 0 (P - 1)); [lia|]. simpl.
        destruct P as [|P']; [lia|]. rewrite Nat.sub_succ, Nat.sub_0_r, Nat.eqb_refl, Nat.odd_succ.
        destruct (Nat.even P'); simpl; lia.
      * assert (Nat.even (rank - 1) = false) as ->.
        { destruct rank as [|r]; [lia|]. rewrite Nat.sub_succ, Nat.sub_0_r.
          rewrite Nat.even_succ in Er. rewrite <- Nat.negb_odd, Er. reflexivity. }
        destruct ((rank =? P - 1) && Nat.odd P); lia.
    + destruct (Nat.eqb_spec rank 0).
      * destruct (Nat.even (P - 1)); [|lia]. destruct ((P - 1 =? P - 1) && Nat.odd P); lia.
      * destruct (Nat.even (rank - 1)); [|lia]. destruct ((rank - 1 =? P - 1) && Nat.odd P); lia.
  - (* odd rank: the receive from the (even) predecessor first *)
    assert (Hr0 : rank <> 0) by (intros ->; discriminate).
    destruct (Nat.eqb_spec rank 0); [contradiction|].
    assert (Nat.even (rank - 1) = true) as ->.
    { destruct rank as [|r]; [lia|]. rewrite Nat.sub_succ, Nat.sub_0_r.
      rewrite Nat.even_succ in Er. rewrite <- Nat.negb_odd, Er. reflexivity. }
    destruct (Nat.eqb_spec (rank - 1) (P - 1)); [lia|]. simpl.
    apply c04_increasing_blocks; lia.
Qed.

(* every Ssend of p to q in round k meets a Recv of q from p in round k, and they are the same rendezvous *)
Theorem P_ring_matching : forall P p k q, 2 <= P -> p < P ->
  In (k, C04_Ssend q) (c04_ring_ops P p) ->
  q < P /\ In (k, C04_Recv p) (c04_ring_ops P q) /\
  c04_rdv_of p (k, C04_Ssend q) = c04_rdv_of q (k, C04_Recv p).
Proof.
  intros P p k q HP Hp Hin. unfold c04_ring_ops in Hin. apply in_flat_map in Hin.
  destruct Hin as [proc [Hproc Hin]].
  assert (Hq : k = proc /\ q = (p + 1) mod P).
  { destruct (Nat.even p); simpl in Hin; destruct Hin as [E|[E|[]]]; inversion E; auto. }
  destruct Hq as [-> ->]. clear Hin.
  assert (Hlt : (p + 1) mod P < P) by (apply Nat.mod_upper_bound; lia).
  split; auto. split; [|reflexivity].
  unfold c04_ring_ops. apply in_flat_map. exists proc. split; auto.
  assert (Hback : ((p + 1) mod P + P - 1) mod P = p).
  { rewrite c04_pred_mod by auto. rewrite (c04_mod_cases (p + 1) P) by lia.
    destruct (Nat.ltb_spec (p + 1) P).
    - destruct (Nat.eqb_spec (p + 1) 0); lia.
    - destruct (Nat.eqb_spec (p + 1 - P) 0); lia. }
  rewrite Hback. destruct (Nat.even ((p + 1) mod P)); simpl; auto.
Qed.

(* two index sets + includeSelf (undocumented combination): the code drops equal-attribute pairs from the self entry;
   what remains is still inside the rank's own source/target intersection *)
Theorem P_self_filtered_sound : forall loc R e, In e (c04_join true loc R) -> In e (c04_join false loc R).
Proof.
  intros loc R [a l] H. apply C04_Proofs.c04_join_In in H. destruct H as [r [H1 [H2 [H3 [H4 _]]]]].
  apply C04_Proofs.c04_join_In. exists r. repeat split; auto.
Qed.
