(* C04 — proofs, part 3: isSynced / rebuild over every history of resizes and rebuilds. *)
From Coq Require Import List Bool ZArith Lia.
From DuneV Require Import C04_Model C04_Spec.
Import ListNotations.
Local Open Scope Z_scope.

Section SyncProofs.
  Variable content : Type.
  Variable result : Type.
  Variable buildf : content -> bool -> result.

  Notation world := (c04_world content result).
  Notation seq_src := (c04_seq_src content result).
  Notation seq_dst := (c04_seq_dst content result).
  Notation is_synced := (c04_is_synced content result).
  Notation step := (c04_step content result buildf).
  Notation run_ops := (c04_run_ops content result buildf).

  (* stale = a resize completed since the last build, or there was no build yet *)
  Definition c04_sync_inv (w : world) (stale : bool) : Prop :=
    c04_w_sourceSeqNo _ _ w <= seq_src w /\ c04_w_destSeqNo _ _ w <= seq_dst w /\
    (if stale then c04_w_sourceSeqNo _ _ w < seq_src w \/ c04_w_destSeqNo _ _ w < seq_dst w
     else c04_w_sourceSeqNo _ _ w = seq_src w /\ c04_w_destSeqNo _ _ w = seq_dst w /\ c04_w_firstBuild _ _ w = false /\
          c04_w_map _ _ w = Some (buildf (c04_w_content _ _ w) (c04_w_publicIgnored _ _ w))).

  Lemma c04_inv_synced : forall w stale, c04_sync_inv w stale -> is_synced w = negb stale.
  Proof.
    intros w stale [H1 [H2 H3]]. unfold c04_is_synced. destruct stale; simpl.
    - apply andb_false_iff. destruct H3; [left|right]; apply Z.eqb_neq; lia.
    - destruct H3 as [-> [-> _]]. rewrite !Z.eqb_refl. reflexivity.
  Qed.

  Lemma c04_inv_step : forall w stale o, c04_sync_inv w stale ->
    c04_sync_inv (step w o) (match o with C04_Rebuild _ _ => false | _ => true end).
  Proof.
    intros w stale o Hinv. pose proof (c04_inv_synced w stale Hinv) as Hsyn.
    destruct Hinv as [H1 [H2 H3]]. destruct o as [c|c|ign]; simpl.
    - unfold c04_sync_inv, c04_seq_src, c04_seq_dst in *; simpl. destruct (c04_w_two _ _ w); simpl; lia.
    - unfold c04_sync_inv, c04_seq_src, c04_seq_dst in *. destruct (c04_w_two _ _ w) eqn:E; simpl; rewrite ?E; simpl; lia.
    - unfold c04_rebuild.
      destruct (c04_w_firstBuild _ _ w || negb (eqb ign (c04_w_publicIgnored _ _ w)) || negb (is_synced w)) eqn:C.
      + unfold c04_sync_inv, c04_seq_src, c04_seq_dst; simpl. repeat split; lia.
      + apply orb_false_iff in C. destruct C as [C C3]. apply orb_false_iff in C. destruct C as [C1 C2].
        apply negb_false_iff in C2, C3. apply eqb_prop in C2.
        rewrite Hsyn in C3. destruct stale; [discriminate|].
        unfold c04_sync_inv. repeat split; try tauto.
  Qed.

  Lemma c04_inv_run : forall ops w stale, c04_sync_inv w stale -> c04_sync_inv (run_ops w ops) (c04_stale stale ops).
  Proof.
    induction ops as [|o ops IH]; intros w stale Hinv; simpl; auto.
    pose proof (c04_inv_step w stale o Hinv) as H. destruct o; apply IH; exact H.
  Qed.

  Lemma c04_inv_init : forall two c s0 d0, 0 <= s0 -> 0 <= d0 -> c04_sync_inv (c04_init content result two c s0 d0) true.
  Proof.
    intros two c s0 d0 Hs Hd. unfold c04_sync_inv, c04_init, c04_seq_src, c04_seq_dst; simpl.
    destruct two; lia.
  Qed.

  (* C04_synced *)
  Theorem P_synced : forall two c s0 d0 ops, 0 <= s0 -> 0 <= d0 ->
    let w := run_ops (c04_init content result two c s0 d0) ops in
    is_synced w = negb (c04_stale true ops) /\
    (c04_stale true ops = false ->
       c04_w_map _ _ w = Some (buildf (c04_w_content _ _ w) (c04_w_publicIgnored _ _ w))).
  Proof.
    intros two c s0 d0 ops Hs Hd w.
    pose proof (c04_inv_run ops _ _ (c04_inv_init two c s0 d0 Hs Hd)) as Hinv. fold w in Hinv.
    split; [apply c04_inv_synced; auto|].
    intros E. rewrite E in Hinv. destruct Hinv as [_ [_ [_ [_ [_ Hm]]]]]. exact Hm.
  Qed.

  (* a rebuild<ign> always leaves the object describing the CURRENT sets with the requested publicity mode *)
  Theorem P_rebuild_current : forall two c s0 d0 ops ign, 0 <= s0 -> 0 <= d0 ->
    let w0 := run_ops (c04_init content result two c s0 d0) ops in
    let w := run_ops (c04_init content result two c s0 d0) (ops ++ [C04_Rebuild _ ign]) in
    c04_w_map _ _ w = Some (buildf (c04_w_content _ _ w0) ign) /\ is_synced w = true.
  Proof.
    intros two c s0 d0 ops ign Hs Hd w0 w.
    pose proof (c04_inv_run ops _ _ (c04_inv_init two c s0 d0 Hs Hd)) as Hinv. fold w0 in Hinv.
    assert (Ew : w = c04_rebuild content result buildf ign w0).
    { unfold w, w0, c04_run_ops. rewrite fold_left_app. reflexivity. }
    pose proof (c04_inv_step w0 _ (C04_Rebuild _ ign) Hinv) as Hinv'. simpl in Hinv'. rewrite <- Ew in Hinv'.
    split; [|rewrite (c04_inv_synced _ _ Hinv'); reflexivity].
    destruct Hinv' as [_ [_ [_ [_ [_ Hm]]]]]. rewrite Hm, Ew. unfold c04_rebuild.
    destruct (c04_w_firstBuild _ _ w0 || negb (eqb ign (c04_w_publicIgnored _ _ w0)) || negb (is_synced w0)) eqn:C; simpl; auto.
    apply orb_false_iff in C. destruct C as [C _]. apply orb_false_iff in C. destruct C as [_ C2].
    apply negb_false_iff in C2. apply eqb_prop in C2. subst. reflexivity.
  Qed.
End SyncProofs.
