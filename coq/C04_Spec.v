(* C04 — the abstract statement: what RemoteIndices must hold after a collective rebuild.
   (doc/comm/communication.tex eqs. ri_s_set / ri_t_set, as restated by the property text)

     send list of p for q  =  [ (attribute of g on q in q's TARGET set, p's SOURCE pair of g)
                               | g published in p's source set and in q's target set ]   ascending in g
     recv list of p for q  =  [ (attribute of g on q in q's SOURCE set, p's TARGET pair of g)
                               | g published in p's target set and in q's source set ]   ascending in g
     q appears iff one of the two lists is non-empty.

   The comprehension is written as a join so that it is also defined for sets that hold one global index under
   several attributes (then: remote copy major, local copy minor; with `fromSelf` equal-attribute pairs are
   left out).  These functions are the executable oracle. *)
From Coq Require Import List Arith Bool ZArith.
From DuneV Require Import C04_Model.
Import ListNotations.

Definition c04_match (fromSelf : bool) (r l : c04_pair) : bool :=
  (c04_g l =? c04_g r) && c04_keep fromSelf r l.

(* [ (attr r, l) | r <- remote, l <- local, g l = g r (, attr r <> attr l) ] *)
Definition c04_join (fromSelf : bool) (local remote : list c04_pair) : list c04_rentry :=
  flat_map (fun r => map (fun l => (c04_attr r, l)) (filter (c04_match fromSelf r) local)) remote.

(* target set of a rank: with one index set it is the source set *)
Definition c04_tgt (two : bool) (st : list c04_pair * list c04_pair) : list c04_pair := if two then snd st else fst st.

(* what p holds for q (p <> q: fromSelf = false) *)
Definition c04_spec_lists (ign two fromSelf : bool) (p q : list c04_pair * list c04_pair) : c04_lists :=
  (c04_join fromSelf (c04_published ign (fst p)) (c04_published ign (c04_tgt two q)),
   c04_join fromSelf (c04_published ign (c04_tgt two p)) (c04_published ign (fst q))).

(* the entry of rank p for itself: two index sets: the rank's own source/target intersection (always there);
   one index set: only with includeSelf, and then only pairs of DIFFERENT copies of an index (attribute filter) *)
Definition c04_spec_entry (ign two incself : bool) (d : c04_decomp) (p q : nat) : c04_lists :=
  let sp := nth p d ([], []) in
  let sq := nth q d ([], []) in
  if q =? p then
    if two then c04_spec_lists ign two incself sp sp
    else if incself then c04_spec_lists ign two true sp sp
    else ([], [])
  else c04_spec_lists ign two false sp sq.

Definition c04_spec_rank (ign two incself : bool) (d : c04_decomp) (p : nat) : c04_rmap :=
  flat_map (fun q => let x := c04_spec_entry ign two incself d p q in
                     if c04_lists_empty x then [] else [(q, x)])
           (seq 0 (length d)).

(* ---- hypotheses of the theorems, executable --------------------------------------------------------- *)
(* iteration order of a ParallelIndexSet: ascending global index (ties: any order) *)
Fixpoint c04_sorted (l : list c04_pair) : Prop :=
  match l with [] => True | a :: t => (forall b, In b t -> c04_g a <= c04_g b) /\ c04_sorted t end.
Fixpoint c04_sortedb (l : list c04_pair) : bool :=
  match l with [] => true | a :: t => forallb (fun b => c04_g a <=? c04_g b) t && c04_sortedb t end.
(* the property's "one entry per global index": pairwise distinct globals *)
Fixpoint c04_distinct (l : list c04_pair) : Prop :=
  match l with [] => True | a :: t => (forall b, In b t -> c04_g a <> c04_g b) /\ c04_distinct t end.
Definition c04_decomp_sorted (d : c04_decomp) : Prop :=
  forall st, In st d -> c04_sorted (fst st) /\ c04_sorted (snd st).

(* neighbour hints of rank p (already without p itself) are admissible: distinct valid ranks, and every rank
   that p shares a published index with is among them *)
Definition c04_hints_ok (ign two incself : bool) (d : c04_decomp) (p : nat) (nb : list nat) : Prop :=
  NoDup nb /\ (forall q, In q nb -> q < length d /\ q <> p) /\
  (forall q, q < length d -> q <> p -> c04_lists_empty (c04_spec_entry ign two incself d p q) = false -> In q nb).

(* ---- the sync history ------------------------------------------------------------------------------- *)
(* has one of the index sets been resized since the last build (or was there never a build)? *)
Fixpoint c04_stale {content} (first : bool) (ops : list (c04_op content)) : bool :=
  match ops with
  | [] => first
  | C04_Rebuild _ _ :: t => c04_stale false t
  | _ :: t => c04_stale true t
  end.

(* ---- ordering of the ring's rendezvous (Ssend/Recv pairs) --------------------------------------------- *)
(* a rendezvous is identified by (round, sending rank); both partners compute the same identity *)
Definition c04_rdv_of (rank : nat) (x : nat * c04_mpi_op) : nat * nat :=
  match snd x with C04_Ssend _ => (fst x, rank) | C04_Recv src => (fst x, src) end.
(* a time stamp for every rendezvous: within a round first the sends of the even ranks (to odd ranks), then -- only for
   odd P -- the send of the even rank P-1 to the even rank 0, then the sends of the odd ranks *)
Definition c04_stamp (P : nat) (r : nat * nat) : nat :=
  3 * fst r + (if Nat.even (snd r) then (if (snd r =? P - 1) && Nat.odd P then 1 else 0) else 2).
Fixpoint c04_increasing (l : list nat) : Prop :=
  match l with a :: (b :: _) as t => a < b /\ c04_increasing t | _ => True end.

(* ---- object histories: what the object must hold, stated WITHOUT sequence numbers -------------------------- *)
(* "rebuild rebuilds iff first build (for these index sets / after free()), publicity mode changed, or an index set
   has been resized since"; a rebuild that takes place builds the CURRENT content of the targeted sets with the
   CURRENT includeSelf and hints. *)
Section ObjSpec.
  Variable result : Type.
  Variable buildf : c04_decomp -> bool -> bool -> list (list nat) -> result.

  Record c04_hspec := C04_mkhspec {
    c04_hs_two : bool; c04_hs_P : nat;
    c04_hs_contents : list c04_decomp;          (* current content of every pair of index sets *)
    c04_hs_slot : option nat;
    c04_hs_hints : list (list nat);
    c04_hs_incself : bool;
    c04_hs_built : option bool;                 (* Some ign: built for the targeted sets in publicity mode ign, not freed since *)
    c04_hs_stale : bool;                        (* a targeted set was resized since that build *)
    c04_hs_map : option result }.

  Definition c04_hspec_step (h : c04_hspec) (op : c04_hop) : c04_hspec :=
    match op with
    | C04_HSetIndexSets s hi =>
        C04_mkhspec (c04_hs_two h) (c04_hs_P h) (c04_hs_contents h) (Some s)
                    (match hi with Some l => map c04_set_of l | None => repeat [] (c04_hs_P h) end)
                    (c04_hs_incself h) None false None
    | C04_HSetNeighbours l =>
        C04_mkhspec (c04_hs_two h) (c04_hs_P h) (c04_hs_contents h) (c04_hs_slot h) (map c04_set_of l)
                    (c04_hs_incself h) (c04_hs_built h) (c04_hs_stale h) (c04_hs_map h)
    | C04_HSetIncludeSelf b =>
        C04_mkhspec (c04_hs_two h) (c04_hs_P h) (c04_hs_contents h) (c04_hs_slot h) (c04_hs_hints h)
                    b (c04_hs_built h) (c04_hs_stale h) (c04_hs_map h)
    | C04_HFree =>
        C04_mkhspec (c04_hs_two h) (c04_hs_P h) (c04_hs_contents h) (c04_hs_slot h) (c04_hs_hints h)
                    (c04_hs_incself h) None false None
    | C04_HRebuild ign =>
        match c04_hs_slot h with
        | None => h
        | Some s =>
            if match c04_hs_built h with None => true | Some ig => negb (Bool.eqb ign ig) || c04_hs_stale h end then
              let early := (c04_hs_P h =? 1) && negb (c04_hs_two h || c04_hs_incself h) in
              let hints' := if early then c04_hs_hints h else c04_erase_self (c04_hs_hints h) in
              C04_mkhspec (c04_hs_two h) (c04_hs_P h) (c04_hs_contents h) (Some s) hints' (c04_hs_incself h) (Some ign) false
                          (Some (buildf (nth s (c04_hs_contents h) []) ign (c04_hs_incself h) hints'))
            else h
        end
    | C04_HResize s ws wd d =>
        C04_mkhspec (c04_hs_two h) (c04_hs_P h)
                    (c04_upd s (fun c => c04_merge_content ws wd c d) (c04_hs_contents h))
                    (c04_hs_slot h) (c04_hs_hints h) (c04_hs_incself h) (c04_hs_built h)
                    (c04_hs_stale h || (match c04_hs_slot h with Some s' => s' =? s | None => false end) && (ws || wd))
                    (c04_hs_map h)
    end.

  Definition c04_hspec_run (h : c04_hspec) (ops : list c04_hop) : c04_hspec := fold_left c04_hspec_step ops h.
End ObjSpec.

(* ---- executions of the ring and of the neighbour mode ------------------------------------------------------- *)
Fixpoint c04_sum (n : nat) (f : nat -> nat) : nat := match n with O => 0 | S n => c04_sum n f + f n end.

Definition c04_ring_step (P : nat) (cfg cfg' : c04_ring_cfg) : Prop :=
  exists p, p < P /\ c04_ring_enabled cfg p <> None /\ cfg' = c04_ring_fire P cfg p.
Inductive c04_ring_reach (P : nat) (msgs : list c04_msg) : nat -> c04_ring_cfg -> Prop :=
| C04_rr_init : c04_ring_reach P msgs 0 (c04_ring_init P msgs)
| C04_rr_step : forall n cfg cfg', c04_ring_reach P msgs n cfg -> c04_ring_step P cfg cfg' -> c04_ring_reach P msgs (S n) cfg'.
Definition c04_ring_final (P : nat) (cfg : c04_ring_cfg) : Prop := forall p, p < P -> c04_rk_prog (cfg p) = [].
Definition c04_ring_remaining (P : nat) (cfg : c04_ring_cfg) : nat := c04_sum P (fun p => length (c04_rk_prog (cfg p))).

Definition c04_nb_step (P : nat) (cfg cfg' : c04_nb_cfg) : Prop :=
  (exists p, p < P /\ c04_nb_post cfg p = Some cfg') \/ (exists q p, q < P /\ p < P /\ c04_nb_recv cfg q p = Some cfg').
Inductive c04_nb_reach (P : nat) (hints : list (list nat)) : c04_nb_cfg -> Prop :=
| C04_nr_init : c04_nb_reach P hints (c04_nb_init hints)
| C04_nr_step : forall cfg cfg', c04_nb_reach P hints cfg -> c04_nb_step P cfg cfg' -> c04_nb_reach P hints cfg'.
(* MPI_Waitall returns: everything posted, everything received, every send matched *)
Definition c04_nb_final (P : nat) (cfg : c04_nb_cfg) : Prop :=
  forall p, p < P -> c04_nb_topost (cfg p) = [] /\ c04_nb_posted (cfg p) = [] /\ c04_nb_nrecv (cfg p) = 0.
Definition c04_nb_measure (P : nat) (cfg : c04_nb_cfg) : nat :=
  c04_sum P (fun p => 2 * length (c04_nb_topost (cfg p)) + length (c04_nb_posted (cfg p)) + c04_nb_nrecv (cfg p)).
(* "consistent" hints (the rank itself already erased): valid ranks, no duplicates, not the rank itself, and symmetric *)
Definition c04_hints_consistent (P : nat) (hints : list (list nat)) : Prop :=
  length hints = P /\
  forall p, p < P -> NoDup (nth p hints []) /\ ~ In p (nth p hints []) /\
                     forall q, In q (nth p hints []) -> q < P /\ In p (nth q hints []).

(* ---- processes that differ in passing one index-set object or two (twos[rank]) ----------------------------- *)
(* the target set of a rank that passes one object is its source set; everything else is the same comprehension *)
Definition c04_spec_lists2 (ign twop twoq fromSelf : bool) (p q : list c04_pair * list c04_pair) : c04_lists :=
  (c04_join fromSelf (c04_published ign (fst p)) (c04_published ign (c04_tgt twoq q)),
   c04_join fromSelf (c04_published ign (c04_tgt twop p)) (c04_published ign (fst q))).
Definition c04_spec_entry_mixed (ign : bool) (twos : list bool) (incself : bool) (d : c04_decomp) (p q : nat) : c04_lists :=
  let sp := nth p d ([], []) in
  let sq := nth q d ([], []) in
  let tp := nth p twos false in
  if q =? p then
    if tp then c04_spec_lists2 ign tp tp incself sp sp
    else if incself then c04_spec_lists2 ign false false true sp sp
    else ([], [])
  else c04_spec_lists2 ign tp (nth q twos false) false sp sq.
Definition c04_spec_rank_mixed (ign : bool) (twos : list bool) (incself : bool) (d : c04_decomp) (p : nat) : c04_rmap :=
  flat_map (fun q => let x := c04_spec_entry_mixed ign twos incself d p q in
                     if c04_lists_empty x then [] else [(q, x)])
           (seq 0 (length d)).
Definition c04_hints_ok_mixed (ign : bool) (twos : list bool) (incself : bool) (d : c04_decomp) (p : nat) (nb : list nat) : Prop :=
  NoDup nb /\ (forall q, In q nb -> q < length d /\ q <> p) /\
  (forall q, q < length d -> q <> p -> c04_lists_empty (c04_spec_entry_mixed ign twos incself d p q) = false -> In q nb).
(* the property's "one entry per global index": every set holds a global index at most once (needed where the
   two-list unpackIndices is used: it does not enumerate several copies) *)
Definition c04_decomp_distinct (d : c04_decomp) : Prop :=
  forall st, In st d -> c04_distinct (fst st) /\ c04_distinct (snd st).

(* ---- dimension audit 2: the communicator of a re-used object ---------------------------------------------------- *)
(* the communicator in force = the one given with the LAST setIndexSets (else the constructor's) *)
Fixpoint c04_last_comm (k0 : nat) (ops : list c04_hopc) : nat :=
  match ops with
  | [] => k0
  | C04_CSetIndexSets _ k _ :: t => c04_last_comm k t
  | C04_COp _ :: t => c04_last_comm k0 t
  end.
Definition c04_hopc_base (op : c04_hopc) : c04_hop :=
  match op with C04_CSetIndexSets s _ h => C04_HSetIndexSets s h | C04_COp o => o end.
Section ObjCommSpec.
  Variable result : Type.
  Variable buildfc : nat -> c04_decomp -> bool -> bool -> list (list nat) -> result.
  (* history spec: every rebuild that takes place builds on the communicator in force at that moment *)
  Definition c04_hspec_stepc (hk : c04_hspec result * nat) (op : c04_hopc) : c04_hspec result * nat :=
    let k := c04_last_comm (snd hk) [op] in
    (c04_hspec_step result (buildfc k) (fst hk) (c04_hopc_base op), k).
  Definition c04_hspec_runc (hk : c04_hspec result * nat) (ops : list c04_hopc) : c04_hspec result * nat :=
    fold_left c04_hspec_stepc ops hk.
End ObjCommSpec.
