(* Extraction of the C05 model and spec oracle for the correspondence check (ExtrOcamlBasic only). *)
From Coq Require Import Extraction ExtrOcamlBasic.
From Coq Require Import List Arith NArith.
From DuneV Require Import C05_Model C05_Spec.
Extraction Language OCaml.
Extraction "c05_model.ml"
  c05_contains c05_iface_eqb c05_sort c05_remote_of c05_interface_build c05_selection c05_getsize c05_comm_build
  c05_gather c05_gather_log c05_sends c05_recvs c05_phase c05_order_asc c05_order_desc c05_dt_build c05_dt_phase c05_dt_recv c05_dt_pack c05_dt_forward_requests c05_dt_backward_requests c05_iobj_run c05_bobj_run
  c05_icobj_run c05_bcobj_run c05_dcobj_run c05_comm_eqb c05_phase_objs c05_phase_on c05_dt_phase_on
  c05_spec_interface c05_spec_scatter_fwd c05_spec_scatter_bwd c05_spec_final.
