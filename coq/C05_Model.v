(* C05 — executable model of Interface (dune/common/parallel/interface.hh), BufferedCommunicator
   (dune/common/parallel/communicator.hh), the flag sets of dune/common/enumset.hh and Selection (selection.hh).
   Definitions only (no proofs).

   Input of the interface layer is the remote-index map of one rank: rank -> (send list, receive list), each entry
   = (remote attribute, local pair (global, local index, local attribute)).  How RemoteIndices computes that map is
   property C04; here `c05_remote_of` is the small stand-in (ascending enumeration of the published shared globals,
   i.e. C04_spec's conclusion) that lets the check start from a decomposition.

   Payload values are N (globally unique tags in the check); a container is `list (list N)`: one block per local index
   (SizeOne: every block has exactly one value; VariableSize: CommPolicy::getSize = length of the block). *)
From Coq Require Import List Arith Bool PeanoNat NArith.
From DuneV Require Import Params_gen.
Import ListNotations.

(* ------------------------------------------------------------------ enumset.hh *)
Inductive c05_flagset :=
| C05_Empty | C05_All | C05_Item (i : nat) | C05_Range (from to : nat)
| C05_Negate (s : c05_flagset) | C05_Combine (s t : c05_flagset).

Fixpoint c05_contains (s : c05_flagset) (x : nat) : bool :=
  match s with
  | C05_Empty => false
  | C05_All => true
  | C05_Item i => x =? i
  | C05_Range from to => (from <=? x) && (x <=? to)
  | C05_Negate s => negb (c05_contains s x)
  | C05_Combine s t => c05_contains s x || c05_contains t x
  end.

(* ------------------------------------------------------------------ index sets and remote index lists *)
Record c05_ientry := { c05_ie_g : nat; c05_ie_l : nat; c05_ie_a : nat; c05_ie_pub : bool }.
Definition c05_iset := list c05_ientry.

(* ParallelIndexSet::endResize sorts by global index (insertion sort here; std::sort is trusted) *)
Fixpoint c05_insert (e : c05_ientry) (s : c05_iset) : c05_iset :=
  match s with
  | [] => [e]
  | x :: t => if c05_ie_g e <=? c05_ie_g x then e :: s else x :: c05_insert e t
  end.
Definition c05_sort (s : c05_iset) : c05_iset := fold_right c05_insert [] s.

Record c05_rentry := { c05_re_attr : nat; c05_re_g : nat; c05_re_l : nat; c05_re_a : nat }.
Definition c05_rlists := (list c05_rentry * list c05_rentry)%type.
Definition c05_rmap := list (nat * c05_rlists).

Definition c05_published (ign : bool) (s : c05_iset) : c05_iset := filter (fun e => ign || c05_ie_pub e) s.
Definition c05_lookup (g : nat) (s : c05_iset) : option c05_ientry := find (fun e => c05_ie_g e =? g) s.
(* entries of `loc` whose global is also in `rem`, in the order of `loc` (ascending), with the remote attribute *)
Definition c05_join (loc rem : c05_iset) : list c05_rentry :=
  flat_map (fun e => match c05_lookup (c05_ie_g e) rem with
                     | Some r => [ {| c05_re_attr := c05_ie_a r; c05_re_g := c05_ie_g e; c05_re_l := c05_ie_l e; c05_re_a := c05_ie_a e |} ]
                     | None => [] end) loc.

Definition c05_decomp := list (c05_iset * c05_iset).      (* per rank: (source set, target set); one set: both equal *)
Definition c05_is_nil {A} (l : list A) : bool := match l with [] => true | _ => false end.

(* stand-in for RemoteIndices::rebuild (C04): one index set -> no self entry, send list = receive list;
   two index sets -> send = own source /\ remote target, receive = own target /\ remote source, self entry included *)
Definition c05_remote_of (two ign : bool) (dec : c05_decomp) (p : nat) : c05_rmap :=
  let me := nth p dec ([], []) in
  flat_map (fun q =>
    let other := nth q dec ([], []) in
    if negb two && (q =? p) then [] else
    let sl := c05_join (c05_published ign (fst me)) (c05_published ign (snd other)) in
    let rl := c05_join (c05_published ign (snd me)) (c05_published ign (fst other)) in
    if c05_is_nil sl && c05_is_nil rl then [] else [(q, (sl, rl))]) (seq 0 (length dec)).

(* ------------------------------------------------------------------ interface.hh *)
(* the two nested tests of buildInterface<send>:
     if (send ? destFlags.contains(remote->attribute()) : sourceFlags.contains(remote->attribute()))
       if (send ? sourceFlags.contains(local attribute) : destFlags.contains(local attribute)) *)
Definition c05_selected (send : bool) (src dst : c05_flagset) (r : c05_rentry) : bool :=
  if (if send then c05_contains dst (c05_re_attr r) else c05_contains src (c05_re_attr r))
  then (if send then c05_contains src (c05_re_a r) else c05_contains dst (c05_re_a r))
  else false.

(* first loop: "++size" *)
Fixpoint c05_count (send : bool) (src dst : c05_flagset) (l : list c05_rentry) (size : nat) : nat :=
  match l with
  | [] => size
  | r :: t => c05_count send src dst t (if c05_selected send src dst r then S size else size)
  end.

(* InterfaceInformation: reserve(size) then add(index) with assert(size_ < maxSize_) *)
Record c05_info := { c05_in_max : nat; c05_in_idx : list nat }.
Definition c05_info_add (i : c05_info) (l : nat) : option c05_info :=
  if length (c05_in_idx i) <? c05_in_max i
  then Some {| c05_in_max := c05_in_max i; c05_in_idx := c05_in_idx i ++ [l] |}
  else None.                                                            (* the assert would fire *)

(* second loop: interfaceInformation.add(process->first, remote->localIndexPair().local().local()) *)
Fixpoint c05_fill (send : bool) (src dst : c05_flagset) (l : list c05_rentry) (i : c05_info) : option c05_info :=
  match l with
  | [] => Some i
  | r :: t => if c05_selected send src dst r
              then match c05_info_add i (c05_re_l r) with Some i' => c05_fill send src dst t i' | None => None end
              else c05_fill send src dst t i
  end.

Definition c05_build_side (send : bool) (src dst : c05_flagset) (l : list c05_rentry) : option (list nat) :=
  match c05_fill send src dst l {| c05_in_max := c05_count send src dst l 0; c05_in_idx := [] |} with
  | Some i => Some (c05_in_idx i)
  | None => None
  end.

Definition c05_ipair := (list nat * list nat)%type.           (* (send indices, receive indices) *)
Definition c05_imap := list (nat * c05_ipair).                (* std::map<int, pair<InterfaceInformation,InterfaceInformation>> *)

Fixpoint c05_build_all (src dst : c05_flagset) (rm : c05_rmap) : option c05_imap :=
  match rm with
  | [] => Some []
  | (q, (sl, rl)) :: t =>
      match c05_build_side true src dst sl, c05_build_side false src dst rl, c05_build_all src dst t with
      | Some s, Some r, Some m => Some ((q, (s, r)) :: m)
      | _, _, _ => None
      end
  end.

(* Interface::strip *)
Definition c05_strip (m : c05_imap) : c05_imap :=
  filter (fun e => negb (c05_is_nil (fst (snd e)) && c05_is_nil (snd (snd e)))) m.

(* Interface::build ; None = an assert of InterfaceInformation::add fails *)
Definition c05_interface_build (src dst : c05_flagset) (rm : c05_rmap) : option c05_imap :=
  match c05_build_all src dst rm with Some m => Some (c05_strip m) | None => None end.

(* selection.hh: Selection<TS>(indexset) *)
Definition c05_selection (s : c05_flagset) (is : c05_iset) : list nat :=
  map c05_ie_l (filter (fun e => c05_contains s (c05_ie_a e)) is).

(* ------------------------------------------------------------------ communicator.hh: BufferedCommunicator::build *)
Definition c05_data := list (list N).
Definition c05_getsize (d : c05_data) (l : nat) : nat := length (nth l d []).       (* CommPolicy::getSize *)

(* MessageSizeCalculator: "for i < info.size(): entries += getSize(data, info[i])" (SizeOne: getSize = 1) *)
Definition c05_msgsize (sz : nat -> nat) (info : list nat) : nat := fold_left (fun e i => e + sz i) info 0.

Record c05_minfo := { c05_mi_start : nat; c05_mi_size : nat }.          (* start_ in values; size_ in values (C++: bytes = values*sizeof) *)
Definition c05_minfos := list (nat * (c05_minfo * c05_minfo)).          (* rank -> (send message, receive message) *)

(* the loop of build(): entries only for neighbours with noSend+noRecv>0, offsets advance for every neighbour *)
Fixpoint c05_comm_loop (szs szd : nat -> nat) (ifs : c05_imap) (b0 b1 : nat) (acc : c05_minfos) : c05_minfos * nat * nat :=
  match ifs with
  | [] => (acc, b0, b1)
  | (q, (s, r)) :: t =>
      let noSend := c05_msgsize szs s in
      let noRecv := c05_msgsize szd r in
      let acc' := if 0 <? noSend + noRecv
                  then acc ++ [(q, ({| c05_mi_start := b0; c05_mi_size := noSend |}, {| c05_mi_start := b1; c05_mi_size := noRecv |}))]
                  else acc in
      c05_comm_loop szs szd t (b0 + noSend) (b1 + noRecv) acc'
  end.

Record c05_comm := { c05_cm_ifs : c05_imap; c05_cm_info : c05_minfos; c05_cm_b0 : nat; c05_cm_b1 : nat }.
Definition c05_comm_build (szs szd : nat -> nat) (ifs : c05_imap) : c05_comm :=
  let '(mi, b0, b1) := c05_comm_loop szs szd ifs 0 0 [] in
  {| c05_cm_ifs := ifs; c05_cm_info := mi; c05_cm_b0 := b0; c05_cm_b1 := b1 |}.

(* ------------------------------------------------------------------ gather *)
(* the list a direction SENDS from: forward -> .first, backward -> .second ; it RECEIVES into the other one *)
Definition c05_sendside (fwd : bool) (e : c05_ipair) : list nat := if fwd then fst e else snd e.
Definition c05_recvside (fwd : bool) (e : c05_ipair) : list nat := if fwd then snd e else fst e.
Definition c05_sendinfo (fwd : bool) (e : c05_minfo * c05_minfo) : c05_minfo := if fwd then fst e else snd e.
Definition c05_recvinfo (fwd : bool) (e : c05_minfo * c05_minfo) : c05_minfo := if fwd then snd e else fst e.

(* MessageGatherer: all neighbours in map order into one contiguous buffer *)
Definition c05_gather (fwd : bool) (ifs : c05_imap) (d : c05_data) : list N :=
  flat_map (fun e => flat_map (fun l => nth l d []) (c05_sendside fwd (snd e))) ifs.

Definition c05_call := (nat * nat * N)%type.              (* (local index, subindex, value) of one gather / scatter call *)
Definition c05_block_calls (l : nat) (b : list N) : list c05_call := map (fun jv => (l, fst jv, snd jv)) (combine (seq 0 (length b)) b).
Definition c05_gather_log (fwd : bool) (ifs : c05_imap) (d : c05_data) : list c05_call :=
  flat_map (fun e => flat_map (fun l => c05_block_calls l (nth l d [])) (c05_sendside fwd (snd e))) ifs.

Definition c05_slice {A} (start size : nat) (b : list A) : list A := firstn size (skipn start b).

(* the Issend calls of one rank: (destination, message) for every messageInformation_ entry with send size != 0 *)
Definition c05_sends (fwd : bool) (cm : c05_comm) (buf : list N) : list (nat * list N) :=
  flat_map (fun e => let mi := c05_sendinfo fwd (snd e) in
                     if c05_mi_size mi =? 0 then [] else [(fst e, c05_slice (c05_mi_start mi) (c05_mi_size mi) buf)]) (c05_cm_info cm).
(* the Irecv calls of one rank: (source, expected size) for every entry with receive size != 0 *)
Definition c05_recvs (fwd : bool) (cm : c05_comm) : list (nat * nat) :=
  flat_map (fun e => let mi := c05_recvinfo fwd (snd e) in
                     if c05_mi_size mi =? 0 then [] else [(fst e, c05_mi_size mi)]) (c05_cm_info cm).

(* ------------------------------------------------------------------ scatter *)
Definition c05_apply (add : bool) (old v : N) : N := if add then (old + v)%N else v.

Fixpoint c05_upd_nth {A} (n : nat) (f : A -> A) (l : list A) : list A :=
  match l, n with
  | [], _ => []
  | x :: t, O => f x :: t
  | x :: t, S m => x :: c05_upd_nth m f t
  end.
Definition c05_upd (add : bool) (d : c05_data) (l j : nat) (v : N) : c05_data :=
  c05_upd_nth l (c05_upd_nth j (fun old => c05_apply add old v)) d.

(* inner loop: for j < getSize(data, info[i]): scatter(data, buffer[index++], info[i], j) *)
Fixpoint c05_scatter_sub (add : bool) (d : c05_data) (l : nat) (js : list nat) (buf : list N) (log : list c05_call)
  : c05_data * list N * list c05_call :=
  match js with
  | [] => (d, buf, log)
  | j :: t => let v := hd 0%N buf in
              c05_scatter_sub add (c05_upd add d l j v) l t (tl buf) (log ++ [(l, j, v)])
  end.
(* MessageScatterer: outer loop over the interface list of the sending process *)
Fixpoint c05_scatter (add : bool) (d : c05_data) (info : list nat) (buf : list N) (log : list c05_call)
  : c05_data * list c05_call :=
  match info with
  | [] => (d, log)
  | l :: t => let '(d', buf', log') := c05_scatter_sub add d l (seq 0 (c05_getsize d l)) buf log in
              c05_scatter add d' t buf' log'
  end.

(* ------------------------------------------------------------------ the receive loop of sendRecv on one rank *)
Inductive c05_result :=
| C05_Ok (d : c05_data) (log : list c05_call)
| C05_Stuck                 (* a posted receive is never matched (MPI_Waitany never returns) *)
| C05_BadOrder              (* the given completion order names a process without outstanding receive *)
| C05_SizeMismatch.         (* the matched message does not have the posted size *)

Definition c05_find_if (q : nat) (ifs : c05_imap) : c05_ipair :=
  match find (fun e => fst e =? q) ifs with Some e => snd e | None => ([], []) end.

(* msgs q = the message process q sent to this rank (None: q posted no send to us).
   pending = the outstanding receives (source, size); order = the sources in the order MPI_Waitany reports them. *)
Fixpoint c05_recv_loop (add fwd : bool) (cm : c05_comm) (msgs : nat -> option (list N)) (pending : list (nat * nat))
         (order : list nat) (d : c05_data) (log : list c05_call) : c05_result :=
  match order with
  | [] => match pending with [] => C05_Ok d log | _ => C05_BadOrder end
  | q :: t =>
      match find (fun e => fst e =? q) pending with
      | None => C05_BadOrder
      | Some (_, size) =>
          match msgs q with
          | None => C05_Stuck
          | Some m =>
              if negb (length m =? size) then C05_SizeMismatch else
              let '(d', log') := c05_scatter add d (c05_recvside fwd (c05_find_if q (c05_cm_ifs cm))) m log in
              c05_recv_loop add fwd cm msgs (filter (fun e => negb (fst e =? q)) pending) t d' log'
          end
      end
  end.

(* ------------------------------------------------------------------ one communication phase on all ranks *)
(* message from p to q in this phase *)
Definition c05_msg (fwd : bool) (cms : list c05_comm) (gdata : list c05_data) (p q : nat) : option (list N) :=
  match nth_error cms p, nth_error gdata p with
  | Some cm, Some d =>
      match find (fun e => fst e =? q) (c05_sends fwd cm (c05_gather fwd (c05_cm_ifs cm) d)) with
      | Some e => Some (snd e) | None => None end
  | _, _ => None
  end.

(* every Issend must be matched by a posted receive, otherwise the sender never leaves its final MPI_Wait *)
Definition c05_sends_matched (fwd : bool) (cms : list c05_comm) (gdata : list c05_data) : bool :=
  forallb (fun p =>
    match nth_error cms p, nth_error gdata p with
    | Some cm, Some d =>
        forallb (fun s => match nth_error cms (fst s) with
                          | Some cq => existsb (fun r => fst r =? p) (c05_recvs fwd cq)
                          | None => false end)
                (c05_sends fwd cm (c05_gather fwd (c05_cm_ifs cm) d))
    | _, _ => false
    end) (seq 0 (length cms)).

(* gdata: the containers gathered from (forward: sources, backward: targets); sdata: the containers scattered into;
   orders: per rank the completion order of its receives.  Result per rank. *)
Definition c05_phase (add fwd : bool) (cms : list c05_comm) (gdata sdata : list c05_data) (orders : list (list nat))
  : list c05_result :=
  map (fun q =>
    match nth_error cms q with
    | Some cm =>
        if negb (c05_sends_matched fwd cms gdata) then C05_Stuck else
        c05_recv_loop add fwd cm (fun p => c05_msg fwd cms gdata p q) (c05_recvs fwd cm)
                      (nth q orders []) (nth q sdata []) []
    | None => C05_BadOrder
    end) (seq 0 (length cms)).

(* default completion orders: ascending and descending process number *)
Definition c05_order_asc (fwd : bool) (cm : c05_comm) : list nat := map fst (c05_recvs fwd cm).
Definition c05_order_desc (fwd : bool) (cm : c05_comm) : list nat := rev (c05_order_asc fwd cm).

(* ------------------------------------------------------------------ build() on an object that was built before
   The tree (before fixes/C05-1): build() neither clears messageInformation_ nor frees the buffers; the new entries are
   added with std::map::insert, which KEEPS an existing entry for the same process.  c05_comm_build_over old = that code;
   after fixes/C05-1 build() starts with free(), i.e. c05_comm_build_over is applied to an empty map = c05_comm_build. *)
Fixpoint c05_map_insert (k : nat) (v : c05_minfo * c05_minfo) (m : c05_minfos) : c05_minfos :=
  match m with
  | [] => [(k, v)]
  | (k', v') :: t => if k =? k' then m                          (* key present: insert does nothing *)
                     else if k <? k' then (k, v) :: m
                     else (k', v') :: c05_map_insert k v t
  end.
Definition c05_comm_build_over (old : c05_minfos) (szs szd : nat -> nat) (ifs : c05_imap) : c05_comm :=
  let fresh := c05_comm_build szs szd ifs in
  {| c05_cm_ifs := ifs;
     c05_cm_info := fold_left (fun m e => c05_map_insert (fst e) (snd e) m) (c05_cm_info fresh) old;
     c05_cm_b0 := c05_cm_b0 fresh; c05_cm_b1 := c05_cm_b1 fresh |}.

(* ------------------------------------------------------------------ Interface::operator== (same communicator assumed)
   c05_iface_eqb      : the code after fixes/C05-2 (keys, send lists and receive lists compared pairwise)
   c05_iface_eqb_tree : the tree before the fix: `om->second.first != om->second.first` compares each list WITH ITSELF,
                        so only the number of neighbours and their ranks are compared *)
Fixpoint c05_list_eqb (a b : list nat) : bool :=
  match a, b with
  | [], [] => true
  | x :: a', y :: b' => (x =? y) && c05_list_eqb a' b'
  | _, _ => false
  end.
Fixpoint c05_iface_eqb (m o : c05_imap) : bool :=
  match m, o with
  | [], [] => true
  | (q, (s, r)) :: m', (q', (s', r')) :: o' => (q =? q') && c05_list_eqb s s' && c05_list_eqb r r' && c05_iface_eqb m' o'
  | _, _ => false
  end.
Fixpoint c05_iface_eqb_tree (m o : c05_imap) : bool :=
  match m, o with
  | [], [] => true
  | (q, (s, r)) :: m', (q', (s', r')) :: o' => (q =? q') && c05_list_eqb s' s' && c05_list_eqb r' r' && c05_iface_eqb_tree m' o'
  | _, _ => false
  end.

(* ------------------------------------------------------------------ communicator.hh: DatatypeCommunicator
   createDataTypes runs buildInterface with the MPIDatatypeInformation functor: per remote process (NOT stripped) one
   MPI_Type_create_hindexed datatype with, for every selected entry, displ = address of CommPolicy::getAddress(data, local)
   relative to the address of entry 0 and length = CommPolicy::getSize(data, local).  A datatype is modelled as its list of
   (block start = local index, block length) pairs; its typemap is the list of cells (local index, component) it addresses.
   sendRecv starts one persistent receive and one persistent synchronous send per remote process and waits for all:
   a send transfers the cells of its typemap (gather through the typemap), a receive stores the incoming values into the cells
   of its typemap in order (scatter through the typemap, plain copy). *)
Definition c05_dtype := list (nat * nat).
Definition c05_dt_of (d : c05_data) (info : list nat) : c05_dtype := map (fun l => (l, c05_getsize d l)) info.
Definition c05_typemap (t : c05_dtype) : list (nat * nat) := flat_map (fun b => map (pair (fst b)) (seq 0 (snd b))) t.
Definition c05_dt_pack (d : c05_data) (t : c05_dtype) : list N :=
  map (fun c => nth (snd c) (nth (fst c) d []) 0%N) (c05_typemap t).
Definition c05_dt_unpack (d : c05_data) (t : c05_dtype) (m : list N) : c05_data :=
  fold_left (fun d cv => c05_upd false d (fst (fst cv)) (snd (fst cv)) (snd cv)) (combine (c05_typemap t) m) d.

Definition c05_dtypes := list (nat * (c05_dtype * c05_dtype)).          (* messageTypes: rank -> (send type, receive type) *)
(* build(remoteIndices, sourceFlags, sendData, destFlags, receiveData); None = assert(info.elements < info.size) fails *)
Definition c05_dt_build (src dst : c05_flagset) (rm : c05_rmap) (sd rd : c05_data) : option c05_dtypes :=
  match c05_build_all src dst rm with
  | Some m => Some (map (fun e => (fst e, (c05_dt_of sd (fst (snd e)), c05_dt_of rd (snd (snd e))))) m)
  | None => None
  end.
Definition c05_dt_find (q : nat) (ts : c05_dtypes) : c05_dtype * c05_dtype :=
  match find (fun e => fst e =? q) ts with Some e => snd e | None => ([], []) end.
(* forward: send with .first, receive with .second; backward: the other way round *)
Definition c05_dt_sendtype (fwd : bool) (e : c05_dtype * c05_dtype) : c05_dtype := if fwd then fst e else snd e.
Definition c05_dt_recvtype (fwd : bool) (e : c05_dtype * c05_dtype) : c05_dtype := if fwd then snd e else fst e.

(* the receives of one rank completing in the given order *)
Definition c05_dt_recv (rT : nat -> c05_dtype) (msgs : nat -> list N) (order : list nat) (d : c05_data) : c05_data :=
  fold_left (fun d p => c05_dt_unpack d (rT p) (msgs p)) order d.

(* all ranks; gdata = containers sent from, sdata = containers received into (initial values), orders per rank *)
Definition c05_dt_phase (fwd : bool) (types : list c05_dtypes) (gdata sdata : list c05_data) (orders : list (list nat)) : list c05_data :=
  map (fun q =>
    c05_dt_recv (fun p => c05_dt_recvtype fwd (c05_dt_find p (nth q types [])))
                (fun p => c05_dt_pack (nth p gdata []) (c05_dt_sendtype fwd (c05_dt_find q (nth p types []))))
                (nth q orders []) (nth q sdata []))
      (seq 0 (length types)).

(* ------------------------------------------------------------------ message tags (constants re-read from communicator.hh)
   MPI matches a posted receive (source, tag) with a send (sender, tag) on one communicator.  BufferedCommunicator uses
   commTag_ = c05_param_buffered_tag for all its messages, DatatypeCommunicator commTag_ = c05_param_datatype_tag. *)
Definition c05_recv_matches (recv_source recv_tag sender send_tag : nat) : bool := (recv_source =? sender) && (recv_tag =? send_tag).

(* ------------------------------------------------------------------ DatatypeCommunicator::createRequests, literally
   createRequests<V,createForward>(sendData, receiveData): for every process first MPI_Recv_init(address of receiveData,
   type = createForward ? .second : .first), then MPI_Ssend_init(address of sendData, type = createForward ? .first : .second),
   stored in requests_[createForward ? slot_created_forward : slot_created_backward].
   build(): createRequests<V,true>(sendData, receiveData); createRequests<V,false>(receiveData, sendData);
   forward(): sendRecv(requests_[slot_used_by_forward]); backward(): sendRecv(requests_[slot_used_by_backward]). *)
Inductive c05_cont := C05_SendData | C05_ReceiveData.                 (* the two containers given to build() *)
Record c05_req := { c05_rq_proc : nat; c05_rq_cont : c05_cont; c05_rq_type : c05_dtype }.
Definition c05_dt_create_requests (createForward : bool) (types : c05_dtypes) (sendArg recvArg : c05_cont)
  : list c05_req * list c05_req :=
  (map (fun e => {| c05_rq_proc := fst e; c05_rq_cont := recvArg; c05_rq_type := if createForward then snd (snd e) else fst (snd e) |}) types,
   map (fun e => {| c05_rq_proc := fst e; c05_rq_cont := sendArg; c05_rq_type := if createForward then fst (snd e) else snd (snd e) |}) types).
Definition c05_dt_slot (createForward : bool) : nat :=
  if createForward then c05_param_dt_slot_created_forward else c05_param_dt_slot_created_backward.
(* requests_ after build(): slot -> (receive requests, send requests) *)
Definition c05_dt_requests (types : c05_dtypes) (slot : nat) : list c05_req * list c05_req :=
  if slot =? c05_dt_slot false                                            (* written last *)
  then c05_dt_create_requests false types C05_ReceiveData C05_SendData
  else if slot =? c05_dt_slot true
       then c05_dt_create_requests true types C05_SendData C05_ReceiveData
       else ([], []).
Definition c05_dt_forward_requests (types : c05_dtypes) := c05_dt_requests types c05_param_dt_slot_used_by_forward.
Definition c05_dt_backward_requests (types : c05_dtypes) := c05_dt_requests types c05_param_dt_slot_used_by_backward.

(* ------------------------------------------------------------------ the objects and their operation histories *)
(* Interface: interfaces_ ; None = assert(interfaces_.empty()) of build() failed *)
Inductive c05_iop := C05_IBuild (src dst : c05_flagset) (rm : c05_rmap) | C05_IFree | C05_IStrip.
Definition c05_iobj_step (st : option c05_imap) (op : c05_iop) : option c05_imap :=
  match st with
  | None => None
  | Some m => match op with
              | C05_IBuild src dst rm => if c05_is_nil m then c05_interface_build src dst rm else None
              | C05_IFree => Some []
              | C05_IStrip => Some (c05_strip m)
              end
  end.
Definition c05_iobj_run (ops : list c05_iop) : option c05_imap := fold_left c05_iobj_step ops (Some []).

(* BufferedCommunicator: (interfaces_, messageInformation_, bufferSize_[0], bufferSize_[1]);
   build() = free() first iff the source says so (c05_param_build_frees_first; F-C05-1 was its absence);
   free() clears messageInformation_ and the buffers; forward()/backward() do not modify the object *)
Inductive c05_bop := C05_BBuild (szs szd : nat -> nat) (ifs : c05_imap) | C05_BFree | C05_BCommunicate.
Definition c05_bobj_step (cm : c05_comm) (op : c05_bop) : c05_comm :=
  match op with
  | C05_BBuild szs szd ifs => if c05_param_build_frees_first then c05_comm_build szs szd ifs
                              else c05_comm_build_over (c05_cm_info cm) szs szd ifs
  | C05_BFree => {| c05_cm_ifs := c05_cm_ifs cm; c05_cm_info := []; c05_cm_b0 := c05_cm_b0 cm; c05_cm_b1 := c05_cm_b1 cm |}
  | C05_BCommunicate => cm
  end.
Definition c05_bobj_init : c05_comm := {| c05_cm_ifs := []; c05_cm_info := []; c05_cm_b0 := 0; c05_cm_b1 := 0 |}.
Definition c05_bobj_run (ops : list c05_bop) : c05_comm := fold_left c05_bobj_step ops c05_bobj_init.

(* ------------------------------------------------------------------ round 6: the communicator every object carries
   An MPI communicator is the list of its processes in rank order (rank r of the communicator is process `nth r`);
   None = MPI_COMM_NULL.  Two communicators over the same processes with another rank order (MPI_Comm_split with another
   key) are different lists.  The neighbour numbers stored in an interface are RANKS of the communicator of the
   RemoteIndices it was built from; which PROCESS a message reaches is decided by the communicator the Irecv/Issend calls
   are given, i.e. by the communicator_ member of the object that communicates. *)
Definition c05_mpicomm := option (list nat).
Definition c05_comm_eqb (a b : c05_mpicomm) : bool :=
  match a, b with
  | None, None => true
  | Some x, Some y => c05_list_eqb x y
  | _, _ => false
  end.

(* Interface = (communicator_, interfaces_).
     Interface(MPI_Comm comm) : communicator_(comm), interfaces_()        Interface() : communicator_(MPI_COMM_NULL), interfaces_()
     build(remoteIndices, ..)  : FIRST statement "communicator_=remoteIndices.communicator();" (unconditional, before the
                                 assert(interfaces_.empty())), then the two buildInterface passes and strip()
     free(), strip()           : do not touch communicator_ *)
Record c05_icobj := { c05_ic_comm : c05_mpicomm; c05_ic_ifs : option c05_imap }.
Definition c05_icobj_init (comm : c05_mpicomm) : c05_icobj := {| c05_ic_comm := comm; c05_ic_ifs := Some [] |}.
Inductive c05_icop :=
| C05_ICBuild (src dst : c05_flagset) (rm : c05_rmap) (ricomm : c05_mpicomm)     (* ricomm = remoteIndices.communicator() *)
| C05_ICFree | C05_ICStrip.
Definition c05_icobj_step (o : c05_icobj) (op : c05_icop) : c05_icobj :=
  match op with
  | C05_ICBuild src dst rm ricomm =>
      {| c05_ic_comm := ricomm; c05_ic_ifs := c05_iobj_step (c05_ic_ifs o) (C05_IBuild src dst rm) |}
  | C05_ICFree => {| c05_ic_comm := c05_ic_comm o; c05_ic_ifs := c05_iobj_step (c05_ic_ifs o) C05_IFree |}
  | C05_ICStrip => {| c05_ic_comm := c05_ic_comm o; c05_ic_ifs := c05_iobj_step (c05_ic_ifs o) C05_IStrip |}
  end.
Definition c05_icobj_run (comm0 : c05_mpicomm) (ops : list c05_icop) : c05_icobj :=
  fold_left c05_icobj_step ops (c05_icobj_init comm0).
Definition c05_ic_map (o : c05_icobj) : c05_imap := match c05_ic_ifs o with Some m => m | None => [] end.

(* BufferedCommunicator = (communicator_, the state of c05_bobj_step).  The constructor leaves communicator_ indeterminate
   (None here; it is never read before a build()).  Both build() overloads: "free(); interfaces_=interface.interfaces();
   communicator_=interface.communicator();"; free() and forward()/backward() do not touch communicator_;
   sendRecv passes communicator_ to all four MPI_Irecv/MPI_Issend calls. *)
Record c05_bcobj := { c05_bc_comm : c05_mpicomm; c05_bc_cm : c05_comm }.
Definition c05_bcobj_init : c05_bcobj := {| c05_bc_comm := None; c05_bc_cm := c05_bobj_init |}.
Inductive c05_bcop := C05_BCBuild (szs szd : nat -> nat) (interface : c05_icobj) | C05_BCFree | C05_BCCommunicate.
Definition c05_bcobj_step (o : c05_bcobj) (op : c05_bcop) : c05_bcobj :=
  match op with
  | C05_BCBuild szs szd i =>
      {| c05_bc_comm := c05_ic_comm i; c05_bc_cm := c05_bobj_step (c05_bc_cm o) (C05_BBuild szs szd (c05_ic_map i)) |}
  | C05_BCFree => {| c05_bc_comm := c05_bc_comm o; c05_bc_cm := c05_bobj_step (c05_bc_cm o) C05_BFree |}
  | C05_BCCommunicate => {| c05_bc_comm := c05_bc_comm o; c05_bc_cm := c05_bobj_step (c05_bc_cm o) C05_BCommunicate |}
  end.
Definition c05_bcobj_run (ops : list c05_bcop) : c05_bcobj := fold_left c05_bcobj_step ops c05_bcobj_init.

(* DatatypeCommunicator = (remoteIndices_, messageTypes).  build(): "remoteIndices_ = &remoteIndices; free(); createDataTypes..;
   createRequests.." ; every MPI_Recv_init/MPI_Ssend_init is given remoteIndices_->communicator(); free() clears
   messageTypes and leaves remoteIndices_ alone.  dc_types = None: an assert of the datatype builder failed. *)
Record c05_dcobj := { c05_dc_comm : c05_mpicomm; c05_dc_types : option c05_dtypes }.
Definition c05_dcobj_init : c05_dcobj := {| c05_dc_comm := None; c05_dc_types := Some [] |}.
Inductive c05_dcop :=
| C05_DCBuild (src dst : c05_flagset) (rm : c05_rmap) (ricomm : c05_mpicomm) (sd rd : c05_data) | C05_DCFree | C05_DCCommunicate.
Definition c05_dcobj_step (o : c05_dcobj) (op : c05_dcop) : c05_dcobj :=
  match op with
  | C05_DCBuild src dst rm ricomm sd rd => {| c05_dc_comm := ricomm; c05_dc_types := c05_dt_build src dst rm sd rd |}
  | C05_DCFree => {| c05_dc_comm := c05_dc_comm o; c05_dc_types := Some [] |}
  | C05_DCCommunicate => o
  end.
Definition c05_dcobj_run (ops : list c05_dcop) : c05_dcobj := fold_left c05_dcobj_step ops c05_dcobj_init.

(* rank of process x in a communicator (length of the list if x is not a member) *)
Fixpoint c05_rank_in (x : nat) (g : list nat) : nat :=
  match g with
  | [] => 0
  | y :: t => if x =? y then 0 else S (c05_rank_in x t)
  end.
(* xs is numbered by the ranks of communicator `from`; the result is numbered by the ranks of communicator `to`:
   entry u is what the process that has rank u in `to` holds *)
Definition c05_reindex {A} (to from : list nat) (d : A) (xs : list A) : list A :=
  map (fun u => nth (c05_rank_in (nth u to 0) from) xs d) (seq 0 (length to)).

(* One communication phase when every process hands the communicator `used` to MPI while its interface (neighbour numbers,
   message sizes) and the per-rank inputs are numbered by the ranks of `built`, the communicator of the RemoteIndices:
   the rank-level phase runs in the numbering of `used` (rank q there is the process nth q used, whatever number it has
   in `built`); the results are reported per rank of `built`. *)
Definition c05_phase_on (used built : list nat) (add fwd : bool) (cms : list c05_comm) (gdata sdata : list c05_data)
           (orders : list (list nat)) : list c05_result :=
  c05_reindex built used C05_BadOrder
    (c05_phase add fwd (c05_reindex used built c05_bobj_init cms) (c05_reindex used built [] gdata)
               (c05_reindex used built [] sdata) (c05_reindex used built [] orders)).

(* the phase as the OBJECTS run it: all processes must hand MPI the same communicator (otherwise, or with MPI_COMM_NULL,
   nothing is ever matched) *)
Definition c05_phase_objs (built : list nat) (add fwd : bool) (objs : list c05_bcobj) (gdata sdata : list c05_data)
           (orders : list (list nat)) : list c05_result :=
  match objs with
  | [] => []
  | o :: _ =>
      match c05_bc_comm o with
      | Some used =>
          if forallb (fun o' => c05_comm_eqb (c05_bc_comm o') (Some used)) objs && (length used =? length built)
          then c05_phase_on used built add fwd (map c05_bc_cm objs) gdata sdata orders
          else map (fun _ => C05_Stuck) objs
      | None => map (fun _ => C05_Stuck) objs
      end
  end.
(* the same for DatatypeCommunicator (containers only) *)
Definition c05_dt_phase_on (used built : list nat) (fwd : bool) (types : list c05_dtypes) (gdata sdata : list c05_data)
           (orders : list (list nat)) : list c05_data :=
  c05_reindex built used []
    (c05_dt_phase fwd (c05_reindex used built [] types) (c05_reindex used built [] gdata)
                  (c05_reindex used built [] sdata) (c05_reindex used built [] orders)).
