(* C05 — proofs, part 1: interface layer. *)
From Coq Require Import List Arith Bool PeanoNat NArith Lia Permutation.
From DuneV Require Import C05_Model C05_Spec.
Import ListNotations.

(* the entries kept by c05_selected are those of the definition c05_keep *)
Lemma c05_selected_keep : forall send src dst r,
  c05_selected send src dst r =
  (if send then c05_contains src (c05_re_a r) && c05_contains dst (c05_re_attr r)
   else c05_contains dst (c05_re_a r) && c05_contains src (c05_re_attr r)).
Proof.
  intros send src dst r; unfold c05_selected; destruct send;
  destruct (c05_contains dst (c05_re_attr r)), (c05_contains src (c05_re_a r)),
           (c05_contains src (c05_re_attr r)), (c05_contains dst (c05_re_a r)); reflexivity.
Qed.

Lemma c05_count_spec : forall send src dst l n,
  c05_count send src dst l n = n + length (filter (c05_selected send src dst) l).
Proof.
  induction l as [|r t IH]; intros n; simpl; [lia|].
  rewrite IH. destruct (c05_selected send src dst r); simpl; lia.
Qed.

Lemma c05_fill_spec : forall send src dst l i,
  length (c05_in_idx i) + length (filter (c05_selected send src dst) l) <= c05_in_max i ->
  c05_fill send src dst l i =
  Some {| c05_in_max := c05_in_max i; c05_in_idx := c05_in_idx i ++ map c05_re_l (filter (c05_selected send src dst) l) |}.
Proof.
  induction l as [|r t IH]; intros i H; simpl in *.
  - rewrite app_nil_r. destruct i; reflexivity.
  - destruct (c05_selected send src dst r) eqn:E; simpl in *.
    + unfold c05_info_add. destruct (Nat.ltb_spec (length (c05_in_idx i)) (c05_in_max i)); [|lia].
      rewrite IH; simpl; [|rewrite app_length; simpl; lia].
      rewrite <- app_assoc. reflexivity.
    + apply IH; assumption.
Qed.

Lemma c05_filter_ext_keep : forall send src dst l,
  filter (c05_selected send src dst) l = c05_keep send src dst l.
Proof.
  intros; unfold c05_keep; apply filter_ext; intros r; rewrite c05_selected_keep; destruct send; reflexivity.
Qed.

Lemma c05_build_side_spec : forall send src dst l,
  c05_build_side send src dst l = Some (map c05_re_l (c05_keep send src dst l)).
Proof.
  intros. unfold c05_build_side. rewrite c05_fill_spec.
  - simpl. rewrite c05_filter_ext_keep. reflexivity.
  - simpl. rewrite c05_count_spec. lia.
Qed.

Lemma c05_build_all_spec : forall src dst rm,
  c05_build_all src dst rm =
  Some (map (fun e => (fst e, (map c05_re_l (c05_keep true src dst (fst (snd e))),
                               map c05_re_l (c05_keep false src dst (snd (snd e)))))) rm).
Proof.
  induction rm as [|[q [sl rl]] t IH]; simpl; [reflexivity|].
  rewrite !c05_build_side_spec, IH. reflexivity.
Qed.

(* C05_interface_spec: Interface::build never trips the assert of InterfaceInformation::add and yields, per neighbour, exactly
   the local indices of the entries whose own attribute is in the source (resp. target) set and whose remote attribute is in the
   target (resp. source) set, in list order; neighbours with two empty lists are dropped *)
Lemma P_interface_spec : forall src dst rm,
  c05_interface_build src dst rm = Some (c05_iface_def src dst rm).
Proof. intros. unfold c05_interface_build, c05_iface_def. rewrite c05_build_all_spec. reflexivity. Qed.

(* ------------------------------------------------------------------ C05_pairing *)
(* if the send list of p for q and the receive list of q for p enumerate the same globals with mirrored attributes
   (C04_spec's conclusion), the two sides of the interface select the SAME positions of these lists *)
Lemma P_pairing : forall src dst sl rl, Forall2 c05_mirror sl rl ->
  Forall2 c05_mirror (c05_keep true src dst sl) (c05_keep false src dst rl).
Proof.
  intros src dst sl rl H. induction H as [|r r' sl rl [Hg [Ha Hb]] HF IH]; simpl; [constructor|].
  rewrite Ha, Hb.
  destruct (c05_contains src (c05_re_attr r') && c05_contains dst (c05_re_a r')) eqn:E.
  - rewrite andb_comm in E. rewrite E. constructor; [repeat split; auto|exact IH].
  - rewrite andb_comm in E. rewrite E. exact IH.
Qed.

Lemma P_pairing_cor : forall src dst sl rl, Forall2 c05_mirror sl rl ->
  length (c05_keep true src dst sl) = length (c05_keep false src dst rl) /\
  map c05_re_g (c05_keep true src dst sl) = map c05_re_g (c05_keep false src dst rl).
Proof.
  intros src dst sl rl H. apply (P_pairing src dst) in H.
  induction H as [|r r' a b [Hg _] _ [IH1 IH2]]; simpl; [split; reflexivity|]. split; congruence.
Qed.

(* the kept entries are a sub-sequence of the remote list: the interface inherits its (global) order *)
Fixpoint c05_subseq {A} (a b : list A) : Prop :=
  match a, b with
  | [], _ => True
  | _ :: _, [] => False
  | x :: a', y :: b' => (x = y /\ c05_subseq a' b') \/ c05_subseq a b'
  end.
Lemma P_keep_order : forall send src dst l, c05_subseq (c05_keep send src dst l) l.
Proof.
  intros send src dst l. unfold c05_keep. induction l as [|r t IH]; simpl; [exact I|].
  match goal with |- context [if ?c then _ else _] => destruct c end.
  - left; split; [reflexivity|exact IH].
  - destruct (filter _ t) eqn:E; [exact I|]. right. exact IH.
Qed.

(* from pairing to the hypothesis of the delivery theorems: if the kept send entries of p and the kept receive entries of q
   mirror each other (C05_pairing) and the block size of an entry is a function `sz` of its global index in both containers
   ("same layout"), then the k-th send position and the k-th receive position carry blocks of the same size *)
Lemma P_pairing_gives_paired : forall (gd sd : c05_data) (sz : nat -> nat) ks kr,
  Forall2 c05_mirror ks kr ->
  (forall r, In r ks -> c05_getsize gd (c05_re_l r) = sz (c05_re_g r)) ->
  (forall r, In r kr -> c05_getsize sd (c05_re_l r) = sz (c05_re_g r)) ->
  Forall2 (fun l l' => c05_getsize gd l = c05_getsize sd l') (map c05_re_l ks) (map c05_re_l kr).
Proof.
  intros gd sd sz ks kr H. induction H as [|r r' a b [Hg _] _ IH]; intros H1 H2; simpl; constructor.
  - rewrite (H1 r) by (left; reflexivity). rewrite (H2 r') by (left; reflexivity). rewrite Hg. reflexivity.
  - apply IH; intros x Hx; [apply H1|apply H2]; right; exact Hx.
Qed.

(* ------------------------------------------------------------------ Interface::operator==, Selection, flag-set algebra *)
Lemma list_eqb_eq : forall a b, c05_list_eqb a b = true <-> a = b.
Proof.
  induction a as [|x a IH]; destruct b as [|y b]; simpl; split; intros H; try reflexivity; try discriminate.
  - apply andb_true_iff in H. destruct H as [H1 H2]. apply Nat.eqb_eq in H1. apply IH in H2. congruence.
  - inversion H; subst. rewrite Nat.eqb_refl. simpl. apply IH. reflexivity.
Qed.

Lemma P_iface_eqb : forall m o, c05_iface_eqb m o = true <-> m = o.
Proof.
  induction m as [|[q [s r]] m IH]; destruct o as [|[q' [s' r']] o]; simpl; split; intros H; try reflexivity; try discriminate.
  - repeat (apply andb_true_iff in H; destruct H as [H ?]).
    apply Nat.eqb_eq in H. apply list_eqb_eq in H2. apply list_eqb_eq in H1. apply IH in H0. congruence.
  - inversion H; subst. rewrite Nat.eqb_refl. simpl.
    rewrite (proj2 (list_eqb_eq s' s') eq_refl), (proj2 (list_eqb_eq r' r') eq_refl). simpl. apply IH. reflexivity.
Qed.

(* the tree's operator== (F-C05-2) accepts different interfaces *)
Lemma P_iface_eqb_tree_refuted :
  c05_iface_eqb_tree [(1, ([1], [2]))] [(1, ([2], [1]))] = true /\ [(1, ([1], [2]))] <> [(1, ([2], [1]))].
Proof. split; [vm_compute; reflexivity|discriminate]. Qed.

Lemma P_selection_spec : forall s is l,
  In l (c05_selection s is) <-> exists e, In e is /\ c05_ie_l e = l /\ c05_contains s (c05_ie_a e) = true.
Proof.
  intros s is l. unfold c05_selection. rewrite in_map_iff. split.
  - intros [e [Hl Hin]]. apply filter_In in Hin. exists e. tauto.
  - intros [e [Hin [Hl Hc]]]. exists e. split; [exact Hl|]. apply filter_In. tauto.
Qed.

Lemma P_flagset_algebra : forall s t x i a b,
  c05_contains C05_Empty x = false /\ c05_contains C05_All x = true /\
  (c05_contains (C05_Item i) x = true <-> x = i) /\
  (c05_contains (C05_Range a b) x = true <-> a <= x <= b) /\
  c05_contains (C05_Negate s) x = negb (c05_contains s x) /\
  c05_contains (C05_Combine s t) x = c05_contains s x || c05_contains t x.
Proof.
  intros. simpl. repeat split; try reflexivity.
  - apply Nat.eqb_eq. - apply Nat.eqb_eq.
  - apply andb_true_iff in H. destruct H as [H _]. apply Nat.leb_le. exact H.
  - apply andb_true_iff in H. destruct H as [_ H]. apply Nat.leb_le. exact H.
  - intros [H1 H2]. apply andb_true_iff. split; apply Nat.leb_le; assumption.
Qed.
