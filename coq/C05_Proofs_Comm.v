(* C05 — proofs, part 3: BufferedCommunicator::build — offsets and sizes delimit each neighbour's block of the gather buffer. *)
From Coq Require Import List Arith Bool PeanoNat NArith Lia Permutation Sorted.
From DuneV Require Import C05_Model C05_Spec.
Import ListNotations.

Lemma msgsize_sum : forall sz info, c05_msgsize sz info = list_sum (map sz info).
Proof.
  intros sz info. unfold c05_msgsize.
  assert (H : forall a, fold_left (fun e i => e + sz i) info a = a + list_sum (map sz info)).
  { induction info as [|x t IH]; intros a; simpl; [lia|]. rewrite IH. lia. }
  apply H.
Qed.

Lemma flat_map_length : forall A B (f : A -> list B) l, length (flat_map f l) = list_sum (map (fun x => length (f x)) l).
Proof. induction l as [|x t IH]; simpl; [reflexivity|]. rewrite app_length, IH. reflexivity. Qed.


Lemma block_length : forall d info, length (c05_block d info) = c05_msgsize (c05_getsize d) info.
Proof. intros. unfold c05_block. rewrite flat_map_length, msgsize_sum. reflexivity. Qed.

Lemma msgsize_ext : forall sz sz' info, (forall l, In l info -> sz l = sz' l) -> c05_msgsize sz info = c05_msgsize sz' info.
Proof.
  intros. rewrite !msgsize_sum. f_equal. apply map_ext_in. assumption.
Qed.

(* the message-information entries as a function of the interface map and the running offsets *)
Fixpoint c05_minfos_def (szs szd : nat -> nat) (ifs : c05_imap) (b0 b1 : nat) : c05_minfos :=
  match ifs with
  | [] => []
  | (q, (s, r)) :: t =>
      let ns := c05_msgsize szs s in let nr := c05_msgsize szd r in
      (if 0 <? ns + nr then [(q, ({| c05_mi_start := b0; c05_mi_size := ns |}, {| c05_mi_start := b1; c05_mi_size := nr |}))] else [])
      ++ c05_minfos_def szs szd t (b0 + ns) (b1 + nr)
  end.
Definition c05_total (sz : nat -> nat) (side : c05_ipair -> list nat) (ifs : c05_imap) : nat :=
  list_sum (map (fun e => c05_msgsize sz (side (snd e))) ifs).

Lemma comm_loop_spec : forall szs szd ifs b0 b1 acc,
  c05_comm_loop szs szd ifs b0 b1 acc =
  (acc ++ c05_minfos_def szs szd ifs b0 b1, b0 + c05_total szs fst ifs, b1 + c05_total szd snd ifs).
Proof.
  induction ifs as [|[q [s r]] t IH]; intros b0 b1 acc; simpl.
  - rewrite app_nil_r. unfold c05_total; simpl. f_equal; [f_equal|]; lia.
  - rewrite IH. unfold c05_total; simpl.
    destruct (0 <? c05_msgsize szs s + c05_msgsize szd r); simpl; rewrite <- ?app_assoc; simpl; f_equal; try (f_equal; lia); lia.
Qed.

Lemma comm_build_spec : forall szs szd ifs,
  c05_comm_build szs szd ifs =
  {| c05_cm_ifs := ifs; c05_cm_info := c05_minfos_def szs szd ifs 0 0;
     c05_cm_b0 := c05_total szs fst ifs; c05_cm_b1 := c05_total szd snd ifs |}.
Proof. intros. unfold c05_comm_build. rewrite comm_loop_spec. reflexivity. Qed.

(* where an entry of messageInformation_ comes from *)
Lemma minfos_def_in : forall szs szd ifs b0 b1 q ms mr,
  In (q, (ms, mr)) (c05_minfos_def szs szd ifs b0 b1) ->
  exists pre s r post, ifs = pre ++ (q, (s, r)) :: post /\
    c05_mi_start ms = b0 + c05_total szs fst pre /\ c05_mi_size ms = c05_msgsize szs s /\
    c05_mi_start mr = b1 + c05_total szd snd pre /\ c05_mi_size mr = c05_msgsize szd r /\
    0 < c05_msgsize szs s + c05_msgsize szd r.
Proof.
  induction ifs as [|[q0 [s0 r0]] t IH]; intros b0 b1 q ms mr H; simpl in H; [contradiction|].
  apply in_app_or in H. destruct H as [H|H].
  - destruct (Nat.ltb_spec 0 (c05_msgsize szs s0 + c05_msgsize szd r0)) as [Hpos|]; [|contradiction].
    destruct H as [H|[]]. inversion H; subst. exists [], s0, r0, t. unfold c05_total; simpl. repeat split; auto; lia.
  - destruct (IH _ _ _ _ _ H) as [pre [s [r [post [E [A [B [C [D F]]]]]]]]].
    exists ((q0, (s0, r0)) :: pre), s, r, post. subst t. unfold c05_total in *; simpl. repeat split; auto; lia.
Qed.

(* every neighbour with something to send or receive has an entry *)
Lemma minfos_def_complete : forall szs szd ifs b0 b1 pre q s r post,
  ifs = pre ++ (q, (s, r)) :: post -> 0 < c05_msgsize szs s + c05_msgsize szd r ->
  In (q, ({| c05_mi_start := b0 + c05_total szs fst pre; c05_mi_size := c05_msgsize szs s |},
          {| c05_mi_start := b1 + c05_total szd snd pre; c05_mi_size := c05_msgsize szd r |}))
     (c05_minfos_def szs szd ifs b0 b1).
Proof.
  intros szs szd ifs b0 b1 pre. revert ifs b0 b1. induction pre as [|[q0 [s0 r0]] pre IH]; intros ifs b0 b1 q s r post E Hpos; subst ifs; simpl.
  - apply in_or_app; left. destruct (Nat.ltb_spec 0 (c05_msgsize szs s + c05_msgsize szd r)); [|lia].
    left. unfold c05_total; simpl. repeat f_equal; lia.
  - apply in_or_app; right.
    specialize (IH _ (b0 + c05_msgsize szs s0) (b1 + c05_msgsize szd r0) q s r post eq_refl Hpos).
    unfold c05_total in *; simpl. rewrite !Nat.add_assoc. exact IH.
Qed.

Lemma gather_app : forall fwd a b d, c05_gather fwd (a ++ b) d = c05_gather fwd a d ++ c05_gather fwd b d.
Proof. intros; unfold c05_gather; apply flat_map_app. Qed.

Lemma gather_length : forall fwd ifs d, length (c05_gather fwd ifs d) = c05_total (c05_getsize d) (c05_sendside fwd) ifs.
Proof.
  intros. unfold c05_gather, c05_total. rewrite flat_map_length. f_equal. apply map_ext. intros e.
  apply (block_length d).
Qed.

Lemma total_ext : forall sz sz' side ifs,
  (forall e l, In e ifs -> In l (side (snd e)) -> sz l = sz' l) -> c05_total sz side ifs = c05_total sz' side ifs.
Proof.
  intros. unfold c05_total. f_equal. apply map_ext_in. intros e He. apply msgsize_ext. intros l Hl. eapply H; eauto.
Qed.

Lemma slice_app : forall A (a b c : list A), c05_slice (length a) (length b) (a ++ b ++ c) = b.
Proof.
  intros. unfold c05_slice. rewrite skipn_app, skipn_all, Nat.sub_diag. simpl.
  rewrite firstn_app, firstn_all, Nat.sub_diag. simpl. apply app_nil_r.
Qed.

(* C05_offsets.  The gather buffer is the concatenation of the neighbours' blocks in rank (map) order, its length is the
   buffer size computed by build, and every messageInformation_ entry (start, size) delimits exactly the block of its
   neighbour — neighbours with empty lists (or only zero-size blocks) in between do not disturb the offsets.
   fwd = true: buffer 0 / send lists / sizes of the source container; fwd = false: buffer 1 / receive lists / target sizes. *)
Lemma P_offsets : forall fwd szs szd ifs d,
  (forall e l, In e ifs -> In l (c05_sendside fwd (snd e)) -> (if fwd then szs else szd) l = c05_getsize d l) ->
  let cm := c05_comm_build szs szd ifs in
  length (c05_gather fwd ifs d) = (if fwd then c05_cm_b0 cm else c05_cm_b1 cm) /\
  (forall q mi, In (q, mi) (c05_cm_info cm) ->
     exists pre e post, ifs = pre ++ (q, e) :: post /\
       c05_gather fwd ifs d = c05_gather fwd pre d ++ c05_block d (c05_sendside fwd e) ++ c05_gather fwd post d /\
       c05_mi_start (c05_sendinfo fwd mi) = length (c05_gather fwd pre d) /\
       c05_mi_size (c05_sendinfo fwd mi) = length (c05_block d (c05_sendside fwd e)) /\
       c05_slice (c05_mi_start (c05_sendinfo fwd mi)) (c05_mi_size (c05_sendinfo fwd mi)) (c05_gather fwd ifs d)
         = c05_block d (c05_sendside fwd e)).
Proof.
  intros fwd szs szd ifs d Hsz cm. unfold cm. rewrite comm_build_spec. simpl. split.
  - rewrite gather_length. destruct fwd; simpl; symmetry; apply total_ext; intros e l He Hl; apply (Hsz e l He Hl).
  - intros q [ms mr] Hin.
    destruct (minfos_def_in _ _ _ _ _ _ _ _ Hin) as [pre [s [r [post [E [A [B [C [D F]]]]]]]]].
    exists pre, (s, r), post. split; [exact E|].
    assert (Hg : c05_gather fwd ifs d = c05_gather fwd pre d ++ c05_block d (c05_sendside fwd (s, r)) ++ c05_gather fwd post d).
    { rewrite E, gather_app. reflexivity. }
    assert (Hpre : forall e l, In e pre -> In l (c05_sendside fwd (snd e)) -> (if fwd then szs else szd) l = c05_getsize d l).
    { intros e l He Hl. apply (Hsz e l); [rewrite E; apply in_or_app; left; exact He|exact Hl]. }
    assert (Hst : c05_mi_start (c05_sendinfo fwd (ms, mr)) = length (c05_gather fwd pre d)).
    { rewrite gather_length. destruct fwd; simpl in *; [rewrite A|rewrite C]; simpl; apply total_ext; intros e l He Hl; apply (Hpre e l He Hl). }
    assert (Hsi : c05_mi_size (c05_sendinfo fwd (ms, mr)) = length (c05_block d (c05_sendside fwd (s, r)))).
    { rewrite block_length. destruct fwd; simpl in *; [rewrite B|rewrite D]; apply msgsize_ext; intros l Hl;
        apply (Hsz (q, (s, r)) l); try (rewrite E; apply in_or_app; right; left; reflexivity); exact Hl. }
    split; [exact Hg|]. split; [exact Hst|]. split; [exact Hsi|].
    rewrite Hst, Hsi, Hg. apply slice_app.
Qed.

(* ------------------------------------------------------------------ F-C05-1: build() over a previous build *)
(* rank 1 of two ranks; first build for the interface {0: send [0;1], receive [0;1]}, second for {0: send [1], receive [0]};
   rank 0 sends the ONE value its new interface asks for; rank 1 still expects the two values of the first build *)
Definition rb_old : c05_minfos := c05_cm_info (c05_comm_build (fun _ => 1) (fun _ => 1) [(0, ([0; 1], [0; 1]))]).
Definition rb_ifs : c05_imap := [(0, ([1], [0]))].
Definition rb_msgs (p : nat) : option (list N) := if p =? 0 then Some [42%N] else None.
Lemma P_rebuild_refuted :
  let cm := c05_comm_build_over rb_old (fun _ => 1) (fun _ => 1) rb_ifs in
  c05_recv_loop false true cm rb_msgs (c05_recvs true cm) [0] [[1%N]; [2%N]] [] = C05_SizeMismatch /\
  (* whereas the communicator built from scratch (after free()) delivers *)
  let cm' := c05_comm_build (fun _ => 1) (fun _ => 1) rb_ifs in
  c05_recv_loop false true cm' rb_msgs (c05_recvs true cm') [0] [[1%N]; [2%N]] [] = C05_Ok [[42%N]; [2%N]] [(0, 0, 42%N)].
Proof. vm_compute. split; reflexivity. Qed.

Lemma P_build_over_empty : forall szs szd ifs, NoDup (map fst ifs) ->
  StronglySorted (fun a b => fst a < fst b) ifs ->
  c05_comm_build_over [] szs szd ifs = c05_comm_build szs szd ifs.
Proof.
  intros szs szd ifs _ HS. unfold c05_comm_build_over. rewrite comm_build_spec. simpl. f_equal.
  (* inserting an ascending sequence of keys into the empty map rebuilds the sequence *)
  assert (Hsorted : forall b0 b1, StronglySorted (fun a b => fst a < fst b) (c05_minfos_def szs szd ifs b0 b1) /\
                                  (forall x, In x (c05_minfos_def szs szd ifs b0 b1) -> In (fst x) (map fst ifs))).
  { induction ifs as [|[q [s r]] t IH]; intros b0 b1; simpl; [split; [constructor|intros x []]|].
    inversion HS as [|? ? HS' HF]; subst. specialize (IH HS' (b0 + c05_msgsize szs s) (b1 + c05_msgsize szd r)). destruct IH as [IH1 IH2].
    destruct (0 <? c05_msgsize szs s + c05_msgsize szd r); simpl.
    - split.
      + constructor; [exact IH1|]. apply Forall_forall. intros x Hx. simpl.
        specialize (IH2 x Hx). apply in_map_iff in IH2. destruct IH2 as [y [Hy Hin]].
        rewrite Forall_forall in HF. specialize (HF y Hin). simpl in HF. lia.
      + intros x [Hx|Hx]; [subst x; left; reflexivity|right; apply IH2; exact Hx].
    - split; [exact IH1|]. intros x Hx. right. apply IH2; exact Hx. }
  assert (Hins : forall (l acc : c05_minfos), StronglySorted (fun a b => fst a < fst b) (acc ++ l) ->
                 fold_left (fun m e => c05_map_insert (fst e) (snd e) m) l acc = acc ++ l).
  { induction l as [|e l IHl]; intros acc Hs; simpl; [rewrite app_nil_r; reflexivity|].
    assert (Hi : c05_map_insert (fst e) (snd e) acc = acc ++ [e]).
    { clear IHl. induction acc as [|[k v] acc IHa]; simpl in *; [destruct e; reflexivity|].
      inversion Hs as [|? ? Hs' HF]; subst. rewrite Forall_forall in HF.
      assert (Hlt : k < fst e) by (apply (HF e); apply in_or_app; right; left; reflexivity). simpl in Hlt.
      destruct (Nat.eqb_spec (fst e) k); [lia|]. destruct (Nat.ltb_spec (fst e) k); [lia|]. rewrite IHa by exact Hs'. reflexivity. }
    rewrite Hi. rewrite IHl; rewrite <- app_assoc; simpl; [reflexivity|exact Hs]. }
  rewrite Hins; [reflexivity|]. simpl. apply Hsorted.
Qed.

(* ------------------------------------------------------------------ buffer offset arithmetic as an invariant
   The (start,size) intervals of the messageInformation_ entries of one buffer are laid out in ascending process order
   without overlap, inside the buffer, and their sizes add up to exactly the buffer size build() allocates. *)
Lemma minfos_layout : forall szs szd ifs b0 b1,
  c05_layout_ok (map c05_iv_send (c05_minfos_def szs szd ifs b0 b1)) b0 (b0 + c05_total szs fst ifs) /\
  c05_layout_ok (map c05_iv_recv (c05_minfos_def szs szd ifs b0 b1)) b1 (b1 + c05_total szd snd ifs).
Proof.
  intros szs szd ifs. induction ifs as [|[q [s r]] t IH]; intros b0 b1.
  - unfold c05_layout_ok, c05_total; simpl. rewrite !Nat.add_0_r, !Nat.sub_diag. repeat split; constructor.
  - specialize (IH (b0 + c05_msgsize szs s) (b1 + c05_msgsize szd r)). destruct IH as [[S1 [F1 L1]] [S2 [F2 L2]]].
    unfold c05_total in *. cbn [map list_sum fst snd]. cbn [c05_minfos_def].
    destruct (Nat.ltb_spec 0 (c05_msgsize szs s + c05_msgsize szd r)) as [Hpos|Hz]; simpl app.
    + rewrite !map_cons. unfold c05_iv_send at 1, c05_iv_recv at 1. simpl fst; simpl snd.
      split; (split; [|split]).
      * constructor; [exact S1|]. rewrite Forall_forall in *. intros a Ha. destruct (F1 a Ha) as [Fa Fb]. simpl in *. lia.
      * constructor; [simpl in *; lia|]. rewrite Forall_forall in *. intros a Ha. destruct (F1 a Ha) as [Fa Fb]. simpl in *. lia.
      * simpl. rewrite L1. lia.
      * constructor; [exact S2|]. rewrite Forall_forall in *. intros a Ha. destruct (F2 a Ha) as [Fa Fb]. simpl in *. lia.
      * constructor; [simpl in *; lia|]. rewrite Forall_forall in *. intros a Ha. destruct (F2 a Ha) as [Fa Fb]. simpl in *. lia.
      * simpl. rewrite L2. lia.
    + assert (c05_msgsize szs s = 0 /\ c05_msgsize szd r = 0) as [Z1 Z2] by lia.
      rewrite Z1, Z2, !Nat.add_0_r in *. simpl. split; (split; [|split]); assumption.
Qed.

Lemma P_layout : forall szs szd ifs,
  let cm := c05_comm_build szs szd ifs in
  c05_layout_ok (map c05_iv_send (c05_cm_info cm)) 0 (c05_cm_b0 cm) /\
  c05_layout_ok (map c05_iv_recv (c05_cm_info cm)) 0 (c05_cm_b1 cm).
Proof. intros. unfold cm. rewrite comm_build_spec. simpl. apply (minfos_layout szs szd ifs 0 0). Qed.
