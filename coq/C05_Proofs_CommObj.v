(* C05 — proofs, part 14 (round 6): the communicator carried by Interface / BufferedCommunicator / DatatypeCommunicator
   objects over arbitrary operation histories, and the process-level routing it implies. *)
From Coq Require Import List Arith Bool PeanoNat NArith Lia.
From DuneV Require Import Params_gen C05_Model C05_Spec C05_Proofs C05_Proofs_Comm C05_Proofs_Obj.
Import ListNotations.

(* ------------------------------------------------------------------ Interface *)
Lemma icobj_fold_comm : forall h o, c05_ic_comm (fold_left c05_icobj_step h o) = c05_spec_last_comm (c05_ic_comm o) h.
Proof. induction h as [|op t IH]; intros o; [reflexivity|]. simpl fold_left. rewrite IH. destruct op; reflexivity. Qed.
Lemma icobj_fold_ifs : forall h o, c05_ic_ifs (fold_left c05_icobj_step h o) = fold_left c05_iobj_step (map c05_icop_forget h) (c05_ic_ifs o).
Proof. induction h as [|op t IH]; intros o; [reflexivity|]. simpl fold_left. rewrite IH. destruct op; reflexivity. Qed.

(* communicator() = communicator of the last build; interfaces() = what the communicator-free object model says *)
Lemma P_icobj_history : forall comm0 h,
  c05_ic_comm (c05_icobj_run comm0 h) = c05_spec_last_comm comm0 h /\
  c05_ic_ifs (c05_icobj_run comm0 h) = c05_iobj_run (map c05_icop_forget h).
Proof. intros. unfold c05_icobj_run, c05_iobj_run. rewrite icobj_fold_comm, icobj_fold_ifs. split; reflexivity. Qed.

Lemma last_comm_app : forall a b c, c05_spec_last_comm c (a ++ b) = c05_spec_last_comm (c05_spec_last_comm c a) b.
Proof. induction a as [|op t IH]; intros b c; [reflexivity|]. destruct op; simpl; apply IH. Qed.

(* whatever the constructor argument and the earlier life of the object: after free() and build() from remote indices on
   communicator rc, communicator() is rc and interfaces() is the interface of the definition; strip() and free() keep rc *)
Lemma P_icobj_build_after_free : forall comm0 h src dst rm rc,
  c05_ic_ifs (c05_icobj_run comm0 h) <> None ->
  let o := c05_icobj_run comm0 (h ++ [C05_ICFree; C05_ICBuild src dst rm rc]) in
  c05_ic_comm o = rc /\ c05_ic_ifs o = Some (c05_iface_def src dst rm) /\
  c05_ic_comm (c05_icobj_step o C05_ICStrip) = rc /\ c05_ic_comm (c05_icobj_step o C05_ICFree) = rc.
Proof.
  intros comm0 h src dst rm rc H o. subst o.
  destruct (P_icobj_history comm0 (h ++ [C05_ICFree; C05_ICBuild src dst rm rc])) as [Ec Ei].
  rewrite last_comm_app in Ec. simpl in Ec.
  destruct (P_icobj_history comm0 h) as [_ Eh]. rewrite Eh in H.
  rewrite map_app in Ei. simpl map in Ei.
  destruct (P_iobj_build_after_free (map c05_icop_forget h) src dst rm H) as [Eb _]. rewrite Eb in Ei.
  repeat split; [exact Ec|exact Ei|simpl; exact Ec|simpl; exact Ec].
Qed.

(* ------------------------------------------------------------------ BufferedCommunicator *)
Lemma bcobj_fold_cm : forall h o, c05_bc_cm (fold_left c05_bcobj_step h o) = fold_left c05_bobj_step (map c05_bcop_forget h) (c05_bc_cm o).
Proof. induction h as [|op t IH]; intros o; [reflexivity|]. simpl fold_left. rewrite IH. destruct op; reflexivity. Qed.
Lemma bcobj_comm_repeat : forall n o, c05_bc_comm (fold_left c05_bcobj_step (repeat C05_BCCommunicate n) o) = c05_bc_comm o.
Proof. induction n as [|n IH]; intros o; [reflexivity|]. simpl. rewrite IH. reflexivity. Qed.
Lemma map_forget_repeat : forall n, map c05_bcop_forget (repeat C05_BCCommunicate n) = repeat C05_BCommunicate n.
Proof. induction n as [|n IH]; simpl; [reflexivity|rewrite IH; reflexivity]. Qed.

(* after ANY history (builds from interfaces on other communicators included), build(interface) leaves the communicator of
   that interface and exactly the message layout of its map; forward()/backward() change neither *)
Lemma P_bcobj_history : forall h szs szd i n,
  let o := c05_bcobj_run (h ++ C05_BCBuild szs szd i :: repeat C05_BCCommunicate n) in
  c05_bc_comm o = c05_ic_comm i /\ c05_bc_cm o = c05_comm_build szs szd (c05_ic_map i).
Proof.
  intros h szs szd i n o. subst o. unfold c05_bcobj_run. split.
  - rewrite fold_left_app. simpl fold_left. rewrite bcobj_comm_repeat. reflexivity.
  - rewrite bcobj_fold_cm, map_app. simpl map. rewrite map_forget_repeat.
    exact (P_bobj_history (map c05_bcop_forget h) szs szd (c05_ic_map i) n).
Qed.

(* ------------------------------------------------------------------ DatatypeCommunicator *)
Lemma dcobj_comm_repeat : forall n o, fold_left c05_dcobj_step (repeat C05_DCCommunicate n) o = o.
Proof. induction n as [|n IH]; intros o; [reflexivity|]. simpl. apply IH. Qed.
Lemma P_dcobj_history : forall h src dst rm rc sd rd n,
  let o := c05_dcobj_run (h ++ C05_DCBuild src dst rm rc sd rd :: repeat C05_DCCommunicate n) in
  c05_dc_comm o = rc /\ c05_dc_types o = c05_dt_build src dst rm sd rd.
Proof. intros. subst o. unfold c05_dcobj_run. rewrite fold_left_app. simpl fold_left. rewrite dcobj_comm_repeat. split; reflexivity. Qed.

(* ------------------------------------------------------------------ routing *)
Lemma rank_in_nth : forall g u, NoDup g -> u < length g -> c05_rank_in (nth u g 0) g = u.
Proof.
  induction g as [|y t IH]; intros u Hn Hu; [simpl in Hu; lia|].
  inversion Hn as [|? ? Hy Ht]; subst. destruct u as [|u]; simpl.
  - rewrite Nat.eqb_refl. reflexivity.
  - simpl in Hu. assert (Hin : In (nth u t 0) t) by (apply nth_In; lia).
    destruct (nth u t 0 =? y) eqn:E.
    + apply Nat.eqb_eq in E. rewrite E in Hin. contradiction.
    + f_equal. apply IH; [exact Ht|lia].
Qed.
Lemma reindex_same : forall A g (d : A) xs, NoDup g -> length xs = length g -> c05_reindex g g d xs = xs.
Proof.
  intros A g d xs Hn Hl. unfold c05_reindex.
  apply nth_ext with (d := nth (c05_rank_in (nth 0 g 0) g) xs d) (d' := d).
  - rewrite map_length, seq_length. symmetry. exact Hl.
  - intros n Hlt. rewrite map_length, seq_length in Hlt.
    rewrite (map_nth (fun u => nth (c05_rank_in (nth u g 0) g) xs d) (seq 0 (length g)) 0 n).
    rewrite seq_nth by exact Hlt. simpl. rewrite (rank_in_nth g n Hn Hlt). reflexivity.
Qed.
Lemma phase_length : forall add fwd cms g s o, length (c05_phase add fwd cms g s o) = length cms.
Proof. intros. unfold c05_phase. rewrite map_length, seq_length. reflexivity. Qed.

(* used = built: the process-level phase is the rank-level phase all other theorems speak about *)
Lemma P_phase_on_same : forall g add fwd cms gdata sdata orders, NoDup g ->
  length cms = length g -> length gdata = length g -> length sdata = length g -> length orders = length g ->
  c05_phase_on g g add fwd cms gdata sdata orders = c05_phase add fwd cms gdata sdata orders.
Proof.
  intros g add fwd cms gdata sdata orders Hn H1 H2 H3 H4. unfold c05_phase_on.
  rewrite (reindex_same _ g c05_bobj_init cms Hn H1), (reindex_same _ g [] gdata Hn H2), (reindex_same _ g [] sdata Hn H3),
          (reindex_same _ g [] orders Hn H4).
  apply reindex_same; [exact Hn|]. rewrite phase_length. exact H1.
Qed.
Lemma P_dt_phase_on_same : forall g fwd types gdata sdata orders, NoDup g ->
  length types = length g -> length gdata = length g -> length sdata = length g -> length orders = length g ->
  c05_dt_phase_on g g fwd types gdata sdata orders = c05_dt_phase fwd types gdata sdata orders.
Proof.
  intros g fwd types gdata sdata orders Hn H1 H2 H3 H4. unfold c05_dt_phase_on.
  rewrite (reindex_same _ g [] types Hn H1), (reindex_same _ g [] gdata Hn H2), (reindex_same _ g [] sdata Hn H3),
          (reindex_same _ g [] orders Hn H4).
  apply reindex_same; [exact Hn|]. unfold c05_dt_phase. rewrite map_length, seq_length. exact H1.
Qed.

Lemma list_eqb_refl : forall l, c05_list_eqb l l = true.
Proof. induction l as [|x t IH]; simpl; [reflexivity|]. rewrite Nat.eqb_refl, IH. reflexivity. Qed.

(* MAIN: whatever happened to the Interface and BufferedCommunicator objects of the ranks before (other communicators,
   other remote indices, constructor arguments), once every rank has built its interface from remote indices on `built`
   and its communicator from that interface, every later forward()/backward() is the rank-level phase of the
   communicators built from scratch from the interfaces of the definition — the object of C05_delivery etc. *)
Lemma P_object_history_delivery : forall built src dst n (rs : list c05_rank_hist) add fwd gdata sdata orders,
  NoDup built -> length rs = length built -> length gdata = length built -> length sdata = length built ->
  length orders = length built ->
  (forall r, In r rs -> c05_ic_ifs (c05_icobj_run (c05_rh_comm0 r) (c05_rh_ihist r)) <> None) ->
  c05_phase_objs built add fwd (map (c05_rh_communicator built src dst n) rs) gdata sdata orders =
  c05_phase add fwd (map (fun r => c05_comm_build (c05_rh_szs r) (c05_rh_szd r) (c05_iface_def src dst (c05_rh_rm r))) rs)
            gdata sdata orders.
Proof.
  intros built src dst n rs add fwd gdata sdata orders Hn Hl H2 H3 H4 Hok.
  assert (Hobj : forall r, In r rs ->
            c05_bc_comm (c05_rh_communicator built src dst n r) = Some built /\
            c05_bc_cm (c05_rh_communicator built src dst n r) = c05_comm_build (c05_rh_szs r) (c05_rh_szd r) (c05_iface_def src dst (c05_rh_rm r))).
  { intros r Hr. unfold c05_rh_communicator.
    destruct (P_bcobj_history (c05_rh_bhist r) (c05_rh_szs r) (c05_rh_szd r) (c05_rh_interface built src dst r) n) as [Ec Em].
    destruct (P_icobj_build_after_free (c05_rh_comm0 r) (c05_rh_ihist r) src dst (c05_rh_rm r) (Some built) (Hok r Hr)) as [Ic [Ii _]].
    fold (c05_rh_interface built src dst r) in Ic, Ii.
    rewrite Ec, Em. unfold c05_ic_map. rewrite Ic, Ii. split; reflexivity. }
  assert (Hmap : map c05_bc_cm (map (c05_rh_communicator built src dst n) rs) =
                 map (fun r => c05_comm_build (c05_rh_szs r) (c05_rh_szd r) (c05_iface_def src dst (c05_rh_rm r))) rs).
  { rewrite map_map. apply map_ext_in. intros r Hr. exact (proj2 (Hobj r Hr)). }
  destruct rs as [|r0 rt].
  - simpl. destruct built; [|simpl in Hl; discriminate]. reflexivity.
  - remember (map (c05_rh_communicator built src dst n) (r0 :: rt)) as objs eqn:Eo.
    assert (Hall : forall o, In o objs -> c05_bc_comm o = Some built).
    { intros o Ho. rewrite Eo in Ho. apply in_map_iff in Ho. destruct Ho as [r [E Hr]]. subst o. exact (proj1 (Hobj r Hr)). }
    unfold c05_phase_objs. destruct objs as [|o ot]; [simpl in Eo; discriminate|].
    rewrite (Hall o (or_introl eq_refl)).
    replace (forallb (fun o' => c05_comm_eqb (c05_bc_comm o') (Some built)) (o :: ot)) with true.
    2:{ symmetry. apply forallb_forall. intros o' Ho'. rewrite (Hall o' Ho'). simpl. apply list_eqb_refl. }
    rewrite Nat.eqb_refl. cbn [andb]. rewrite Hmap.
    apply P_phase_on_same; try assumption. rewrite map_length. exact Hl.
Qed.

(* ------------------------------------------------------------------ the communicator matters (non-vacuity of the dimension)
   three processes in a chain, owner -> copy; the interfaces are numbered by built = [0;1;2]; handing MPI the communicator
   with the reversed rank order [2;1;0] (what an Interface that kept the communicator of an earlier life would do) delivers
   the messages of the middle process to the swapped neighbours *)
Definition ex6_ifs : list c05_imap := [ [(1, ([0], [1]))]; [(0, ([0], [1])); (2, ([0], [2]))]; [(1, ([0], [1]))] ].
Definition ex6_cms : list c05_comm := map (c05_comm_build (fun _ => 1) (fun _ => 1)) ex6_ifs.
Definition ex6_data : list c05_data := [ [[10]; [11]]; [[20]; [21]; [22]]; [[30]; [31]] ]%N.
Definition ex6_orders : list (list nat) := map (c05_order_asc true) ex6_cms.
Lemma P_stale_communicator_misroutes :
  c05_phase_on [0; 1; 2] [0; 1; 2] false true ex6_cms ex6_data ex6_data ex6_orders =
    c05_phase false true ex6_cms ex6_data ex6_data ex6_orders /\
  nth 1 (c05_phase false true ex6_cms ex6_data ex6_data ex6_orders) C05_Stuck =
    C05_Ok [[20]; [10]; [30]]%N [(1, 0, 10%N); (2, 0, 30%N)] /\
  nth 1 (c05_phase_on [2; 1; 0] [0; 1; 2] false true ex6_cms ex6_data ex6_data ex6_orders) C05_Stuck =
    C05_Ok [[20]; [30]; [10]]%N [(1, 0, 30%N); (2, 0, 10%N)].
Proof. vm_compute. repeat split; reflexivity. Qed.
