(* C05 — proofs, part 9: from a DECOMPOSITION to delivery: the hypotheses of the all-ranks theorems (unique ascending keys, ranks
   below P, pairing, layouts) are established by the model itself for the remote index lists / interfaces of any decomposition
   with one entry per global index. *)
From Coq Require Import List Arith Bool PeanoNat NArith Lia Permutation Sorted.
From DuneV Require Import C05_Model C05_Spec C05_Proofs C05_Proofs_Comm C05_Proofs_Deliv C05_Proofs_Glue C05_Proofs_Remote
                          C05_Proofs_Phase C05_Proofs_Dt.
Import ListNotations.

Local Arguments Nat.ltb : simpl never.
Local Arguments Nat.leb : simpl never.
Local Arguments Nat.add : simpl never.

Lemma find_app_l : forall A (f : A -> bool) a b, find f (a ++ b) = match find f a with Some x => Some x | None => find f b end.
Proof. induction a as [|x a IH]; intros b; simpl; [reflexivity|]. destruct (f x); [reflexivity|apply IH]. Qed.

(* looking a process up in a map that was produced rank by rank *)
Lemma find_flat_seq : forall A (g : nat -> list (nat * A)) n start q,
  (forall k, g k = [] \/ exists v, g k = [(k, v)]) ->
  find (fun e => fst e =? q) (flat_map g (seq start n)) =
  if (start <=? q) && (q <? start + n) then hd_error (g q) else None.
Proof.
  intros A g n. induction n as [|n IH]; intros start q Hg; cbn [seq flat_map find].
  - destruct (Nat.leb_spec start q) as [H1|H1]; destruct (Nat.ltb_spec q (start + 0)) as [H2|H2]; simpl; try reflexivity.
    exfalso. clear Hg. lia.
  - rewrite find_app_l, (IH (S start) q Hg).
    destruct (Nat.eq_dec q start) as [->|Hne].
    + destruct (Hg start) as [E|[v E]]; rewrite E; simpl.
      * destruct (Nat.leb_spec (S start) start); [exfalso; clear Hg; repeat match goal with E : g _ = _ |- _ => clear E | E : find _ _ = _ |- _ => clear E end; try clear IH; lia|]. simpl.
        destruct (Nat.leb_spec start start), (Nat.ltb_spec start (start + S n)); simpl; try reflexivity; exfalso; clear Hg; repeat match goal with E : g _ = _ |- _ => clear E | E : find _ _ = _ |- _ => clear E end; try clear IH; lia.
      * rewrite Nat.eqb_refl.
        destruct (Nat.leb_spec start start), (Nat.ltb_spec start (start + S n)); simpl; try reflexivity; exfalso; clear Hg; repeat match goal with E : g _ = _ |- _ => clear E | E : find _ _ = _ |- _ => clear E end; try clear IH; lia.
    + assert (Hf : find (fun e : nat * A => fst e =? q) (g start) = None).
      { destruct (Hg start) as [E|[v E]]; rewrite E; simpl; [reflexivity|]. destruct (Nat.eqb_spec start q); [exfalso; clear Hg; repeat match goal with E : g _ = _ |- _ => clear E | E : find _ _ = _ |- _ => clear E end; try clear IH; lia|reflexivity]. }
      rewrite Hf.
      destruct (Nat.leb_spec (S start) q), (Nat.ltb_spec q (S start + n)), (Nat.leb_spec start q), (Nat.ltb_spec q (start + S n));
        simpl; try reflexivity; exfalso; clear Hg; repeat match goal with E : g _ = _ |- _ => clear E | E : find _ _ = _ |- _ => clear E end; try clear IH; lia.
Qed.

Lemma map_flat_map : forall A B C (f : B -> C) (g : A -> list B) l, map f (flat_map g l) = flat_map (fun x => map f (g x)) l.
Proof. induction l as [|x t IH]; simpl; [reflexivity|]. rewrite map_app, IH. reflexivity. Qed.

Lemma join_nil_l : forall R, c05_join [] R = [].
Proof. reflexivity. Qed.

Lemma Forall2_flip : forall A B (R : A -> B -> Prop) a b, Forall2 R a b -> Forall2 (fun y x => R x y) b a.
Proof. induction 1; constructor; assumption. Qed.

Lemma Forall2_imp : forall A B (R R' : A -> B -> Prop) a b, (forall x y, R x y -> R' x y) -> Forall2 R a b -> Forall2 R' a b.
Proof. intros A B R R' a b H F. induction F; constructor; auto. Qed.

Section Dec.
Variables two ign : bool.
Variables src dst : c05_flagset.
Variable ds : c05_decomp.                                   (* per rank (source set, target set), each sorted by distinct globals *)
Hypothesis sortedS : forall p, c05_gsorted (fst (nth p ds ([], []))).
Hypothesis sortedT : forall p, c05_gsorted (snd (nth p ds ([], []))).

Local Notation P := (length ds).
Local Notation Sof := (fun p => c05_published ign (fst (nth p ds ([], [])))).
Local Notation Tof := (fun p => c05_published ign (snd (nth p ds ([], [])))).
Definition dec_sl (p q : nat) : list c05_rentry := c05_join (Sof p) (Tof q).        (* send list of p for q *)
Definition dec_rl (p q : nat) : list c05_rentry := c05_join (Tof p) (Sof q).        (* receive list of p for q *)
Definition dec_ifs (p : nat) : c05_imap := c05_iface_def src dst (c05_remote_of two ign ds p).
Definition dec_nb (p q : nat) : bool := (q <? P) && (two || negb (q =? p)).          (* q is a possible neighbour of p *)
Definition dec_lists (p q : nat) : c05_ipair :=
  if dec_nb p q then (map c05_re_l (c05_keep true src dst (dec_sl p q)), map c05_re_l (c05_keep false src dst (dec_rl p q)))
  else ([], []).

Lemma dec_find : forall p q, c05_find_if q (dec_ifs p) = dec_lists p q.
Proof.
  intros p q. unfold dec_ifs, c05_iface_def.
  set (F := fun e : nat * c05_rlists => (fst e, (map c05_re_l (c05_keep true src dst (fst (snd e))), map c05_re_l (c05_keep false src dst (snd (snd e)))))).
  rewrite strip_find_if.
  2:{ rewrite map_map. simpl. apply sorted_lt_nodup. rewrite <- map_map with (f := F) (g := fst).
      assert (E : map fst (map F (c05_remote_of two ign ds p)) = map fst (c05_remote_of two ign ds p)) by (rewrite map_map; reflexivity).
      rewrite E. apply remote_keys_sorted. }
  unfold c05_find_if, c05_remote_of. rewrite map_flat_map.
  rewrite find_flat_seq.
  - unfold dec_lists, dec_nb. rewrite Nat.add_0_l. destruct (Nat.leb_spec 0 q) as [_|]; [|lia]. simpl andb.
    destruct (Nat.ltb_spec q P) as [Hq|Hq]; simpl; [|reflexivity].
    destruct (negb two && (q =? p)) eqn:Eself.
    + simpl. assert (E : two || negb (q =? p) = false) by (destruct two, (q =? p); simpl in *; congruence). rewrite E. reflexivity.
    + assert (E : two || negb (q =? p) = true) by (destruct two, (q =? p); simpl in *; congruence). rewrite E.
      fold (dec_sl p q). fold (dec_rl p q).
      destruct (c05_is_nil (dec_sl p q) && c05_is_nil (dec_rl p q)) eqn:En; simpl; [|reflexivity].
      apply andb_true_iff in En. destruct En as [E1 E2].
      destruct (dec_sl p q); [|discriminate]. destruct (dec_rl p q); [|discriminate]. reflexivity.
  - intros k. destruct (negb two && (k =? p)); [left; reflexivity|].
    match goal with |- context [if ?c then _ else _] => destruct c end; [left; reflexivity|right; eexists; reflexivity].
Qed.

Lemma dec_keys_sorted : forall p, StronglySorted lt (map fst (dec_ifs p)).
Proof.
  intros p. apply (iface_keys_sorted src dst (c05_remote_of two ign ds p)); [apply remote_keys_sorted|apply P_interface_spec].
Qed.

Lemma dec_keys_lt : forall p q, In q (map fst (dec_ifs p)) -> q < P.
Proof.
  intros p q H. unfold dec_ifs, c05_iface_def, c05_strip in H. apply in_map_iff in H. destruct H as [[q' v] [E H]]. simpl in E; subst q'.
  apply filter_In in H. destruct H as [H _]. apply in_map_iff in H. destruct H as [[q2 v2] [E H]]. inversion E; subst q2. clear E.
  unfold c05_remote_of in H. apply in_flat_map in H. destruct H as [k [Hk H]]. apply in_seq in Hk.
  destruct (negb two && (k =? p)); [contradiction|].
  match type of H with In _ (if ?c then _ else _) => destruct c end; [contradiction|]. destruct H as [H|[]]. inversion H; subst. lia.
Qed.

Lemma dec_outside : forall p, P <= p -> dec_ifs p = [].
Proof.
  intros p Hp. unfold dec_ifs, c05_iface_def, c05_remote_of. rewrite (nth_overflow ds ([], []) Hp). simpl fst; simpl snd.
  assert (E : forall l, flat_map (fun q : nat =>
      if negb two && (q =? p) then [] else
      if c05_is_nil (c05_join (c05_published ign []) (c05_published ign (snd (nth q ds ([], []))))) &&
         c05_is_nil (c05_join (c05_published ign []) (c05_published ign (fst (nth q ds ([], [])))))
      then [] else [(q, (c05_join (c05_published ign []) (c05_published ign (snd (nth q ds ([], [])))),
                         c05_join (c05_published ign []) (c05_published ign (fst (nth q ds ([], []))))))]) l = []).
  { induction l as [|x t IH]; simpl; [reflexivity|]. destruct (negb two && (x =? p)); exact IH. }
  rewrite E. reflexivity.
Qed.

(* entries of a join come from entries of the local set *)
Lemma join_entry : forall A B r, In r (c05_join A B) -> exists e, In e A /\ c05_re_l r = c05_ie_l e /\ c05_re_g r = c05_ie_g e.
Proof.
  intros A B r H. unfold c05_join in H. apply in_flat_map in H. destruct H as [e [He H]].
  destruct (c05_lookup (c05_ie_g e) B); [|contradiction]. destruct H as [H|[]]. subst r. exists e. simpl. auto.
Qed.
Lemma keep_in : forall send l r, In r (c05_keep send src dst l) -> In r l.
Proof. intros send l r H. unfold c05_keep in H. apply filter_In in H. tauto. Qed.
Lemma published_in : forall s e, In e (c05_published ign s) -> In e s.
Proof. intros s e H. unfold c05_published in H. apply filter_In in H. tauto. Qed.

(* containers: the block size is a function sz of the global index, in the source containers Sc and the target containers Tc *)
Variable Sc Tc : nat -> c05_data.
Variable sz : nat -> nat.
Hypothesis layoutS : forall p e, In e (fst (nth p ds ([], []))) -> c05_getsize (Sc p) (c05_ie_l e) = sz (c05_ie_g e).
Hypothesis layoutT : forall p e, In e (snd (nth p ds ([], []))) -> c05_getsize (Tc p) (c05_ie_l e) = sz (c05_ie_g e).

(* pairing, established: k-th send entry of p for q and k-th receive entry of q for p carry blocks of the same size *)
Lemma dec_paired_fwd : forall p q,
  Forall2 (fun l l' => c05_getsize (Sc p) l = c05_getsize (Tc q) l') (fst (dec_lists p q)) (snd (dec_lists q p)).
Proof.
  intros p q. unfold dec_lists, dec_nb.
  destruct (Nat.ltb_spec q P) as [Hq|Hq]; destruct (Nat.ltb_spec p P) as [Hp|Hp]; simpl andb.
  - rewrite (Nat.eqb_sym p q). destruct (two || negb (q =? p)); simpl; [|constructor].
    apply (P_pairing_gives_paired (Sc p) (Tc q) sz).
    + apply P_pairing. unfold dec_sl, dec_rl. apply P_join_mirror; apply published_sorted; [apply sortedS|apply sortedT].
    + intros r Hr. apply keep_in in Hr. apply join_entry in Hr. destruct Hr as [e [He [El Eg]]]. rewrite El, Eg.
      apply layoutS. apply published_in in He. exact He.
    + intros r Hr. apply keep_in in Hr. apply join_entry in Hr. destruct Hr as [e [He [El Eg]]]. rewrite El, Eg.
      apply layoutT. apply published_in in He. exact He.
  - (* p is not a rank: its sets are empty *)
    destruct (two || negb (q =? p)); simpl; [|constructor].
    unfold dec_sl. rewrite (nth_overflow ds ([], []) Hp). simpl. constructor.
  - destruct (two || negb (p =? q)); simpl; [|constructor].
    unfold dec_rl. rewrite (nth_overflow ds ([], []) Hq). simpl. constructor.
  - constructor.
Qed.

Section Dir.
Variable fwd : bool.
Local Notation gd := (fun p => if fwd then Sc p else Tc p).
Local Notation sd := (fun p => if fwd then Tc p else Sc p).
Local Notation szs := (fun p l => c05_getsize (Sc p) l).
Local Notation szd := (fun p l => c05_getsize (Tc p) l).

Lemma dec_paired : forall p q,
  Forall2 (fun l l' => c05_getsize (gd p) l = c05_getsize (sd q) l') (c05_g_sendlist fwd dec_ifs p q) (c05_g_recvlist fwd dec_ifs q p).
Proof.
  intros p q. unfold c05_g_sendlist, c05_g_recvlist. rewrite !dec_find. destruct fwd; simpl.
  - apply dec_paired_fwd.
  - pose proof (Forall2_flip _ _ _ _ _ (dec_paired_fwd q p)) as H.
    eapply Forall2_imp; [|exact H]. intros a b E. simpl in E. symmetry. exact E.
Qed.

(* C05_decomposition_delivery: for EVERY decomposition, flag sets, publicity mode, one or two index sets, direction, policy, rank
   and completion order: sendRecv returns on every rank and has scattered exactly the matched-pair calls *)
Lemma P_decomposition_delivery : forall add orders q, q < P ->
  Permutation (nth q orders []) (map fst (c05_recvs fwd (c05_g_cm dec_ifs szs szd q))) ->
  exists d' log',
    nth q (c05_phase add fwd (map (c05_g_cm dec_ifs szs szd) (seq 0 P)) (map gd (seq 0 P)) (map sd (seq 0 P)) orders) C05_Stuck
      = C05_Ok d' log' /\
    Permutation log' (c05_g_pair_calls fwd dec_ifs gd szs szd q) /\
    d' = c05_apply_calls add (sd q) log' /\ c05_shape d' = c05_shape (sd q).
Proof.
  intros add orders q Hq HP.
  apply (P_phase fwd P dec_ifs gd sd szs szd); auto.
  - intros p. apply sorted_lt_nodup. apply dec_keys_sorted.
  - apply dec_keys_lt.
  - apply dec_outside.
  - intros p e l _ _. destruct fwd; reflexivity.
  - intros p e l _ _. destruct fwd; reflexivity.
  - apply dec_paired.
Qed.
End Dir.
End Dec.
