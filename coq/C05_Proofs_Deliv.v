(* C05 — proofs, part 2: scatter, the receive loop under every completion order, the transition system. *)
From Coq Require Import List Arith Bool PeanoNat NArith Lia Permutation.
From DuneV Require Import C05_Model C05_Spec.
Import ListNotations.

(* ------------------------------------------------------------------ update of one position *)
Lemma upd_nth_length : forall A n (f : A -> A) l, length (c05_upd_nth n f l) = length l.
Proof. induction n; destruct l; simpl; auto. Qed.

Lemma upd_nth_same : forall A n (f : A -> A) l d, n < length l -> nth n (c05_upd_nth n f l) d = f (nth n l d).
Proof. intros A n; induction n; intros f l d H; destruct l; simpl in *; try lia; auto. apply IHn; lia. Qed.

Lemma upd_nth_other : forall A n n' (f : A -> A) l d, n <> n' -> nth n' (c05_upd_nth n f l) d = nth n' l d.
Proof. intros A n; induction n; intros n' f l d H; destruct l, n'; simpl in *; try lia; auto. Qed.

Lemma upd_nth_oob : forall A n (f : A -> A) l, length l <= n -> c05_upd_nth n f l = l.
Proof. intros A n; induction n; intros f l H; destruct l; simpl in *; try lia; auto. f_equal; apply IHn; lia. Qed.

Lemma upd_shape : forall add d l j v, c05_shape (c05_upd add d l j v) = c05_shape d.
Proof.
  intros; unfold c05_shape, c05_upd. revert l; induction d as [|b t IH]; intros [|l]; simpl; auto.
  - rewrite upd_nth_length; reflexivity.
  - f_equal; apply IH.
Qed.

Lemma shape_length : forall d, length (c05_shape d) = length d.
Proof. intros; apply map_length. Qed.

Lemma getsize_shape : forall d l, c05_getsize d l = nth l (c05_shape d) 0.
Proof. intros; unfold c05_getsize, c05_shape. change 0 with (@length N []). rewrite map_nth. reflexivity. Qed.

Lemma valid_shape : forall d d' l j, c05_shape d = c05_shape d' -> c05_valid d l j -> c05_valid d' l j.
Proof.
  unfold c05_valid; intros d d' l j H [H1 H2]. split.
  - rewrite <- (shape_length d'), <- H, shape_length; exact H1.
  - fold (c05_getsize d' l). rewrite getsize_shape, <- H, <- getsize_shape. exact H2.
Qed.

Lemma get_upd_same : forall add d l j v, c05_valid d l j ->
  c05_get (c05_upd add d l j v) l j = c05_apply add (c05_get d l j) v.
Proof.
  unfold c05_valid, c05_get, c05_upd; intros add d l j v [H1 H2].
  rewrite upd_nth_same by exact H1. rewrite upd_nth_same by exact H2. reflexivity.
Qed.

Lemma get_upd_other : forall add d l j v l' j', (l, j) <> (l', j') ->
  c05_get (c05_upd add d l j v) l' j' = c05_get d l' j'.
Proof.
  unfold c05_get, c05_upd; intros add d l j v l' j' H.
  destruct (Nat.eq_dec l l') as [->|Hl].
  - destruct (Nat.lt_ge_cases l' (length d)) as [Hlt|Hge].
    + rewrite upd_nth_same by exact Hlt. apply upd_nth_other. intros ->; apply H; reflexivity.
    + rewrite upd_nth_oob by exact Hge. reflexivity.
  - rewrite upd_nth_other by exact Hl. reflexivity.
Qed.

(* ------------------------------------------------------------------ apply_calls *)
Lemma apply_calls_app : forall add d a b, c05_apply_calls add d (a ++ b) = c05_apply_calls add (c05_apply_calls add d a) b.
Proof. intros; unfold c05_apply_calls; apply fold_left_app. Qed.

Lemma apply_calls_shape : forall add cs d, c05_shape (c05_apply_calls add d cs) = c05_shape d.
Proof.
  induction cs as [|c t IH]; intros d; simpl; [reflexivity|].
  unfold c05_apply_calls in *; simpl. rewrite IH. apply upd_shape.
Qed.

(* value at a valid position after a sequence of scatter calls: the calls that hit it, folded in order *)
Lemma get_apply_calls : forall add cs d l j, c05_valid d l j ->
  c05_get (c05_apply_calls add d cs) l j = fold_left (c05_apply add) (c05_calls_at cs l j) (c05_get d l j).
Proof.
  induction cs as [|[[l0 j0] v] t IH]; intros d l j Hv; [reflexivity|].
  unfold c05_apply_calls; simpl. fold (c05_apply_calls add (c05_upd add d l0 j0 v) t).
  rewrite IH by (eapply valid_shape; [symmetry; apply upd_shape|exact Hv]).
  unfold c05_calls_at; simpl.
  destruct (Nat.eqb_spec l0 l) as [->|Hl]; simpl.
  - destruct (Nat.eqb_spec j0 j) as [->|Hj]; simpl.
    + rewrite get_upd_same by exact Hv. reflexivity.
    + rewrite get_upd_other by congruence. reflexivity.
  - rewrite get_upd_other by congruence. reflexivity.
Qed.

(* ------------------------------------------------------------------ scatter = apply the calls of the message *)
Lemma combine_app_l : forall A B (a b : list A) (m : list B), length a <= length m ->
  combine (a ++ b) m = combine a m ++ combine b (skipn (length a) m).
Proof.
  induction a as [|x a IH]; intros b m H; simpl; [reflexivity|].
  destruct m as [|y m]; simpl in *; [lia|]. f_equal. apply IH; lia.
Qed.

Lemma scatter_sub_spec : forall add l js d buf log, length js <= length buf ->
  c05_scatter_sub add d l js buf log =
  (c05_apply_calls add d (combine (map (pair l) js) buf), skipn (length js) buf, log ++ combine (map (pair l) js) buf).
Proof.
  induction js as [|j t IH]; intros d buf log H; simpl.
  - rewrite app_nil_r; reflexivity.
  - destruct buf as [|v b]; simpl in *; [lia|].
    rewrite IH by lia. unfold c05_apply_calls; simpl. rewrite <- app_assoc. reflexivity.
Qed.

Lemma positions_cons : forall sh l t, c05_positions sh (l :: t) = map (pair l) (seq 0 (nth l sh 0)) ++ c05_positions sh t.
Proof. reflexivity. Qed.

Lemma scatter_spec : forall add info d buf log, length (c05_positions (c05_shape d) info) <= length buf ->
  c05_scatter add d info buf log =
  (c05_apply_calls add d (c05_calls_of (c05_shape d) info buf), log ++ c05_calls_of (c05_shape d) info buf).
Proof.
  induction info as [|l t IH]; intros d buf log H.
  - simpl. unfold c05_calls_of; simpl. rewrite app_nil_r; reflexivity.
  - simpl c05_scatter. rewrite positions_cons, app_length, map_length, seq_length in H.
    rewrite getsize_shape.
    rewrite scatter_sub_spec by (rewrite seq_length; lia).
    rewrite seq_length.
    set (cs1 := combine (map (pair l) (seq 0 (nth l (c05_shape d) 0))) buf).
    rewrite IH; rewrite apply_calls_shape.
    + unfold c05_calls_of. rewrite positions_cons.
      rewrite combine_app_l by (rewrite map_length, seq_length; lia).
      rewrite map_length, seq_length. fold cs1.
      rewrite apply_calls_app, app_assoc. reflexivity.
    + rewrite skipn_length; lia.
Qed.

(* ------------------------------------------------------------------ the receive loop *)
Lemma find_fst_in : forall (pending : list (nat * nat)) q, NoDup (map fst pending) -> In q (map fst pending) ->
  exists size, find (fun e => fst e =? q) pending = Some (q, size) /\ In (q, size) pending.
Proof.
  induction pending as [|[p s] t IH]; intros q ND Hin; simpl in *; [contradiction|].
  destruct (Nat.eqb_spec p q) as [->|Hne].
  - exists s; split; auto.
  - destruct Hin as [->|Hin]; [congruence|]. inversion ND; subst.
    destruct (IH q H2 Hin) as [size [Hf Hi]]. exists size; split; auto.
Qed.

Lemma filter_remove_perm : forall (pending : list (nat * nat)) q order,
  NoDup (map fst pending) -> Permutation (q :: order) (map fst pending) ->
  Permutation order (map fst (filter (fun e => negb (fst e =? q)) pending)) /\
  NoDup (map fst (filter (fun e => negb (fst e =? q)) pending)).
Proof.
  intros pending q order ND HP.
  assert (Hmf : forall l : list (nat * nat), map fst (filter (fun e => negb (fst e =? q)) l) = filter (fun x => negb (x =? q)) (map fst l)).
  { induction l as [|[a b] l IHl]; simpl; [reflexivity|]. destruct (a =? q); simpl; rewrite IHl; reflexivity. }
  rewrite Hmf. split.
  - assert (NDq : NoDup (q :: order)) by (eapply Permutation_NoDup; [apply Permutation_sym; exact HP|exact ND]).
    assert (HF : forall (a b : list nat), Permutation a b -> Permutation (filter (fun x => negb (x =? q)) a) (filter (fun x => negb (x =? q)) b)).
    { induction 1; simpl; auto.
      - destruct (negb (x =? q)); auto.
      - destruct (negb (x =? q)), (negb (y =? q)); auto. apply perm_swap.
      - eapply perm_trans; eauto. }
    apply HF in HP. simpl in HP. rewrite Nat.eqb_refl in HP. simpl in HP.
    eapply perm_trans; [|exact HP].
    inversion NDq; subst.
    assert (Hid : forall l : list nat, ~ In q l -> filter (fun x => negb (x =? q)) l = l).
    { induction l as [|x l IHl]; simpl; intros Hn; [reflexivity|].
      destruct (Nat.eqb_spec x q) as [->|Hx]; simpl; [exfalso; apply Hn; auto|]. f_equal; apply IHl; auto. }
    rewrite Hid by assumption. apply Permutation_refl.
  - apply NoDup_filter. exact ND.
Qed.

Lemma in_filter_pending : forall (pending : list (nat * nat)) q p s,
  In (p, s) (filter (fun e => negb (fst e =? q)) pending) -> In (p, s) pending.
Proof. intros pending q p s H; apply filter_In in H; tauto. Qed.

(* the loop under ANY order that is a permutation of the outstanding receives *)
Lemma recv_loop_spec : forall add fwd cm msgs sh order pending d log,
  NoDup (map fst pending) ->
  Permutation order (map fst pending) ->
  c05_shape d = sh ->
  (forall p size, In (p, size) pending -> exists m, msgs p = Some m /\ length m = size /\
      size = length (c05_positions sh (c05_recvside fwd (c05_find_if p (c05_cm_ifs cm))))) ->
  let cs := flat_map (fun p => c05_calls_of sh (c05_recvside fwd (c05_find_if p (c05_cm_ifs cm)))
                                            (match msgs p with Some m => m | None => [] end)) order in
  c05_recv_loop add fwd cm msgs pending order d log = C05_Ok (c05_apply_calls add d cs) (log ++ cs).
Proof.
  induction order as [|q t IH]; intros pending d log ND HP Hsh Hm; simpl.
  - apply Permutation_nil in HP. destruct pending; [|discriminate]. rewrite app_nil_r. reflexivity.
  - assert (Hin : In q (map fst pending)) by (eapply Permutation_in; [exact HP|left; reflexivity]).
    destruct (find_fst_in pending q ND Hin) as [size [Hf Hi]]. rewrite Hf.
    destruct (Hm q size Hi) as [m [Hmsg [Hlen Hsz]]]. rewrite Hmsg.
    rewrite Hlen, Nat.eqb_refl. simpl negb. cbv iota.
    rewrite scatter_spec by (rewrite Hsh; lia). rewrite Hsh.
    destruct (filter_remove_perm pending q t ND HP) as [HP' ND'].
    rewrite IH; auto.
    + rewrite apply_calls_app, app_assoc. reflexivity.
    + rewrite apply_calls_shape. exact Hsh.
    + intros p s Hps. apply Hm. eapply in_filter_pending; exact Hps.
Qed.

Lemma perm_flat_map : forall A B (f : A -> list B) l l', Permutation l l' -> Permutation (flat_map f l) (flat_map f l').
Proof.
  induction 1; simpl; auto.
  - apply Permutation_app_head; assumption.
  - rewrite !app_assoc. apply Permutation_app_tail. apply Permutation_app_comm.
  - eapply perm_trans; eauto.
Qed.

(* C05_delivery, per receiving rank: for EVERY completion order the receive loop returns, its scatter log is a
   permutation of the expected calls (each value of each matched message exactly once, nothing else), the container is
   the initial one with exactly these calls applied, and its layout is unchanged *)
Lemma P_delivery_rank : forall add fwd cm msgs order d,
  NoDup (map fst (c05_recvs fwd cm)) ->
  c05_matched fwd cm msgs (c05_shape d) ->
  Permutation order (map fst (c05_recvs fwd cm)) ->
  exists d' log',
    c05_recv_loop add fwd cm msgs (c05_recvs fwd cm) order d [] = C05_Ok d' log' /\
    Permutation log' (c05_expected_calls fwd cm msgs (c05_shape d)) /\
    d' = c05_apply_calls add d log' /\ c05_shape d' = c05_shape d.
Proof.
  intros add fwd cm msgs order d ND HM HP.
  eexists; eexists. split; [|split; [|split]].
  - rewrite (recv_loop_spec add fwd cm msgs (c05_shape d) order _ d [] ND HP eq_refl HM). simpl. reflexivity.
  - unfold c05_expected_calls. apply perm_flat_map. exact HP.
  - reflexivity.
  - apply apply_calls_shape.
Qed.

(* ------------------------------------------------------------------ values: add = sum, copy = the (unique) sender's value *)
Lemma calls_at_perm : forall cs cs' l j, Permutation cs cs' -> Permutation (c05_calls_at cs l j) (c05_calls_at cs' l j).
Proof.
  intros cs cs' l j H; unfold c05_calls_at. apply Permutation_map.
  induction H; simpl; auto.
  - destruct ((fst (fst x) =? l) && (snd (fst x) =? j)); auto.
  - destruct ((fst (fst x) =? l) && (snd (fst x) =? j)), ((fst (fst y) =? l) && (snd (fst y) =? j)); auto. apply perm_swap.
  - eapply perm_trans; eauto.
Qed.

Lemma fold_add_perm : forall (a b : list N), Permutation a b -> forall x, fold_left N.add a x = fold_left N.add b x.
Proof.
  induction 1; intros x0; simpl; auto.
  - f_equal. lia.
  - rewrite IHPermutation1; auto.
Qed.

Lemma P_values : forall add d cs expected l j,
  c05_valid d l j -> Permutation cs expected ->
  match c05_spec_value add (c05_get d l j) (c05_calls_at expected l j) with
  | Some v => c05_get (c05_apply_calls add d cs) l j = v
  | None => In (c05_get (c05_apply_calls add d cs) l j) (c05_calls_at expected l j)
  end.
Proof.
  intros add d cs expected l j Hv HP.
  rewrite get_apply_calls by exact Hv.
  pose proof (calls_at_perm cs expected l j HP) as HPa.
  unfold c05_spec_value. destruct add.
  - unfold c05_apply. change (fun old v : N => (old + v)%N) with N.add. apply fold_add_perm; exact HPa.
  - destruct (c05_calls_at expected l j) as [|v [|v' r]] eqn:E.
    + apply Permutation_sym, Permutation_nil in HPa. rewrite HPa. reflexivity.
    + apply Permutation_sym, Permutation_length_1_inv in HPa. rewrite HPa. reflexivity.
    + (* several senders under copy: the last call wins, and it is one of the expected values *)
      assert (Hlast : forall vs x, vs <> [] -> In (fold_left (c05_apply false) vs x) vs).
      { induction vs as [|a vs IHv]; intros x Hne; [congruence|]. simpl.
        destruct vs as [|b vs]; [left; reflexivity|]. right. apply IHv. discriminate. }
      eapply Permutation_in; [exact HPa|]. apply Hlast.
      intros Hnil. rewrite Hnil in HPa. apply Permutation_nil in HPa. discriminate.
Qed.

(* ------------------------------------------------------------------ the transition system: all Waitany behaviours *)
Definition c05_inv (add fwd : bool) (cm : c05_comm) (msgs : nat -> option (list N)) (d0 : c05_data) (st : c05_rstate) : Prop :=
  NoDup (map fst (c05_rs_pending st)) /\
  c05_shape (c05_rs_data st) = c05_shape d0 /\
  (forall p s, In (p, s) (c05_rs_pending st) -> In (p, s) (c05_recvs fwd cm)) /\
  exists done, Permutation (done ++ map fst (c05_rs_pending st)) (map fst (c05_recvs fwd cm)) /\
    let cs := flat_map (fun p => c05_calls_of (c05_shape d0) (c05_recvside fwd (c05_find_if p (c05_cm_ifs cm)))
                                              (match msgs p with Some m => m | None => [] end)) done in
    c05_rs_data st = c05_apply_calls add d0 cs /\ c05_rs_log st = cs.

Lemma inv_init : forall add fwd cm msgs d0, NoDup (map fst (c05_recvs fwd cm)) ->
  c05_inv add fwd cm msgs d0 {| c05_rs_pending := c05_recvs fwd cm; c05_rs_data := d0; c05_rs_log := [] |}.
Proof.
  intros; unfold c05_inv; simpl. repeat split; auto. exists []; simpl. repeat split; auto.
Qed.

Lemma in_split_perm : forall (pending : list (nat * nat)) q s, NoDup (map fst pending) -> In (q, s) pending ->
  Permutation (map fst pending) (q :: map fst (filter (fun e => negb (fst e =? q)) pending)).
Proof.
  induction pending as [|[p s'] t IH]; intros q s ND Hin; simpl in *; [contradiction|].
  inversion ND; subst.
  destruct Hin as [Heq|Hin].
  - inversion Heq; subst. rewrite Nat.eqb_refl; simpl. apply perm_skip.
    assert (Hid : forall l : list (nat * nat), ~ In q (map fst l) -> filter (fun e => negb (fst e =? q)) l = l).
    { induction l as [|[a b] l IHl]; simpl; intros Hn; [reflexivity|].
      destruct (Nat.eqb_spec a q) as [->|Hx]; simpl; [exfalso; apply Hn; auto|]. f_equal; apply IHl; auto. }
    rewrite Hid by assumption. apply Permutation_refl.
  - destruct (Nat.eqb_spec p q) as [->|Hne]; simpl.
    + exfalso. apply H1. apply (in_map fst) in Hin. exact Hin.
    + eapply perm_trans; [apply perm_skip; apply (IH q s H2 Hin)|]. apply perm_swap.
Qed.

Lemma inv_step : forall add fwd cm msgs d0 st st',
  c05_matched fwd cm msgs (c05_shape d0) ->
  c05_inv add fwd cm msgs d0 st -> c05_step add fwd cm msgs st st' ->
  c05_inv add fwd cm msgs d0 st' /\ length (c05_rs_pending st') < length (c05_rs_pending st).
Proof.
  intros add fwd cm msgs d0 st st' HM [ND [Hsh [Hsub [done [HP [Hd Hl]]]]]] Hstep.
  inversion Hstep as [st0 q size m d' log' Hin Hmsg Hlen Hsc]; subst st0. clear Hstep.
  destruct (HM q size (Hsub q size Hin)) as [m' [Hmsg' [_ Hsz]]]. rewrite Hmsg in Hmsg'; inversion Hmsg'; subst m'.
  rewrite scatter_spec in Hsc by (rewrite Hsh; lia). inversion Hsc; subst d' log'. clear Hsc.
  split.
  - unfold c05_inv; simpl. split; [|split; [|split]].
    + assert (Hmf : forall l : list (nat * nat), map fst (filter (fun e => negb (fst e =? q)) l) = filter (fun x => negb (x =? q)) (map fst l)).
      { induction l as [|[a b] l IHl]; simpl; [reflexivity|]. destruct (a =? q); simpl; rewrite IHl; reflexivity. }
      rewrite Hmf. apply NoDup_filter. exact ND.
    + rewrite apply_calls_shape. exact Hsh.
    + intros p s Hps. apply Hsub. eapply in_filter_pending; exact Hps.
    + exists (done ++ [q]). split.
      * rewrite <- app_assoc. simpl.
        eapply perm_trans; [|exact HP]. apply Permutation_app_head.
        apply Permutation_sym. eapply in_split_perm; eauto.
      * simpl. rewrite flat_map_app. simpl. rewrite app_nil_r. rewrite Hmsg.
        rewrite Hsh, Hd, Hl. rewrite apply_calls_app. split; reflexivity.
  - simpl. clear - Hin. induction (c05_rs_pending st) as [|[p s] t IH]; simpl in *; [contradiction|].
    destruct Hin as [Heq|Hin].
    + inversion Heq; subst. rewrite Nat.eqb_refl; simpl.
      assert (Hle : forall l : list (nat * nat), length (filter (fun e => negb (fst e =? q)) l) <= length l).
      { induction l as [|x l IHl]; simpl; [lia|]. destruct (negb (fst x =? q)); simpl; lia. }
      specialize (Hle t). lia.
    + specialize (IH Hin). destruct (negb (p =? q)); simpl; lia.
Qed.

(* progress: while a receive is outstanding, Waitany can return (a step is enabled) — no deadlock *)
Lemma P_progress : forall add fwd cm msgs d0 st,
  c05_matched fwd cm msgs (c05_shape d0) -> c05_inv add fwd cm msgs d0 st ->
  c05_rs_pending st <> [] -> exists st', c05_step add fwd cm msgs st st'.
Proof.
  intros add fwd cm msgs d0 st HM [ND [Hsh [Hsub _]]] Hne.
  destruct (c05_rs_pending st) as [|[q size] t] eqn:E; [congruence|].
  destruct (HM q size (Hsub q size (or_introl eq_refl))) as [m [Hmsg [Hlen Hsz]]].
  destruct (c05_scatter add (c05_rs_data st) (c05_recvside fwd (c05_find_if q (c05_cm_ifs cm))) m (c05_rs_log st)) as [d' log'] eqn:Hs.
  eexists. eapply (C05_step_recv add fwd cm msgs st q size m d' log'); eauto. rewrite E; left; reflexivity.
Qed.

Lemma inv_steps : forall add fwd cm msgs d0 st st',
  c05_matched fwd cm msgs (c05_shape d0) ->
  c05_steps add fwd cm msgs st st' -> c05_inv add fwd cm msgs d0 st ->
  c05_inv add fwd cm msgs d0 st' /\ length (c05_rs_pending st') <= length (c05_rs_pending st).
Proof.
  intros add fwd cm msgs d0 st st' HM Hs. induction Hs as [st|a b c Hab Hbc IH]; intros Hi; [split; auto|].
  destruct (inv_step add fwd cm msgs d0 a b HM Hi Hab) as [Hib Hlt].
  destruct (IH Hib) as [Hic Hle]. split; [exact Hic|lia].
Qed.

(* every terminal state (no receive outstanding) reachable by ANY sequence of Waitany choices has delivered exactly the expected calls *)
Lemma P_delivery_steps : forall add fwd cm msgs d0 st,
  NoDup (map fst (c05_recvs fwd cm)) -> c05_matched fwd cm msgs (c05_shape d0) ->
  c05_steps add fwd cm msgs {| c05_rs_pending := c05_recvs fwd cm; c05_rs_data := d0; c05_rs_log := [] |} st ->
  c05_rs_pending st = [] ->
  Permutation (c05_rs_log st) (c05_expected_calls fwd cm msgs (c05_shape d0)) /\
  c05_rs_data st = c05_apply_calls add d0 (c05_rs_log st) /\ c05_shape (c05_rs_data st) = c05_shape d0.
Proof.
  intros add fwd cm msgs d0 st ND HM Hs Hp.
  destruct (inv_steps add fwd cm msgs d0 _ st HM Hs (inv_init add fwd cm msgs d0 ND)) as [[_ [Hsh [_ [done [HP [Hd Hl]]]]]] _].
  rewrite Hp in HP; simpl in HP; rewrite app_nil_r in HP.
  split; [|split].
  - rewrite Hl. unfold c05_expected_calls. apply perm_flat_map. exact HP.
  - rewrite Hl. exact Hd.
  - exact Hsh.
Qed.

(* C05_terminates: every step strictly decreases the number of outstanding receives; a step is enabled whenever one is
   outstanding; hence every maximal run has exactly |receives| steps and ends with none outstanding *)
Lemma P_terminates : forall add fwd cm msgs d0,
  NoDup (map fst (c05_recvs fwd cm)) -> c05_matched fwd cm msgs (c05_shape d0) ->
  forall st, c05_steps add fwd cm msgs {| c05_rs_pending := c05_recvs fwd cm; c05_rs_data := d0; c05_rs_log := [] |} st ->
    (forall st', c05_step add fwd cm msgs st st' -> length (c05_rs_pending st') < length (c05_rs_pending st)) /\
    (c05_rs_pending st <> [] -> exists st', c05_step add fwd cm msgs st st').
Proof.
  intros add fwd cm msgs d0 ND HM st Hs.
  destruct (inv_steps add fwd cm msgs d0 _ st HM Hs (inv_init add fwd cm msgs d0 ND)) as [Hi _].
  split.
  - intros st' Hst. apply (inv_step add fwd cm msgs d0 st st' HM Hi Hst).
  - intros Hne. eapply P_progress; eauto.
Qed.
