(* C05 — proofs, part 8: DatatypeCommunicator (gather/scatter through typemaps, all interleavings of the transfers). *)
From Coq Require Import List Arith Bool PeanoNat NArith Lia Permutation.
From DuneV Require Import C05_Model C05_Spec C05_Proofs_Comm C05_Proofs_Deliv C05_Proofs_Glue.
Import ListNotations.

(* ------------------------------------------------------------------ typemaps vs. the vocabulary of the buffered proofs *)
Lemma typemap_positions : forall d info, c05_typemap (c05_dt_of d info) = c05_positions (c05_shape d) info.
Proof.
  intros d info. unfold c05_typemap, c05_dt_of, c05_positions. induction info as [|l t IH]; simpl; [reflexivity|].
  rewrite IH, getsize_shape. reflexivity.
Qed.

Lemma unpack_apply : forall d t m, c05_dt_unpack d t m = c05_apply_calls false d (combine (c05_typemap t) m).
Proof. reflexivity. Qed.

Lemma pack_get : forall d t, c05_dt_pack d t = map (fun c => c05_get d (fst c) (snd c)) (c05_typemap t).
Proof. reflexivity. Qed.

Lemma map_nth_seq_gen : forall (b pre : list N), map (fun j => nth j (pre ++ b) 0%N) (seq (length pre) (length b)) = b.
Proof.
  induction b as [|x b IH]; intros pre; simpl; [reflexivity|].
  rewrite app_nth2 by lia. rewrite Nat.sub_diag. simpl. f_equal.
  specialize (IH (pre ++ [x])). rewrite app_length in IH. simpl in IH. rewrite Nat.add_1_r, <- app_assoc in IH. exact IH.
Qed.
Lemma map_nth_seq : forall (b : list N), map (fun j => nth j b 0%N) (seq 0 (length b)) = b.
Proof. intros b. exact (map_nth_seq_gen b []). Qed.

(* gather through the typemap of an index list = the block the buffered gatherer copies *)
Lemma pack_block : forall d info, c05_dt_pack d (c05_dt_of d info) = c05_block d info.
Proof.
  intros d info. unfold c05_dt_pack, c05_typemap, c05_dt_of, c05_block.
  induction info as [|l t IH]; simpl; [reflexivity|].
  rewrite map_app, IH. f_equal. rewrite map_map. simpl. unfold c05_getsize. apply map_nth_seq.
Qed.

(* every cell of a typemap built from a container is a valid cell of that container *)
Lemma typemap_valid : forall d info c, In c (c05_typemap (c05_dt_of d info)) -> c05_valid d (fst c) (snd c).
Proof.
  intros d info c H. unfold c05_typemap, c05_dt_of in H. apply in_flat_map in H. destruct H as [[l n] [Hb Hc]].
  apply in_map_iff in Hb. destruct Hb as [l' [E _]]. inversion E; subst l' n. simpl in Hc.
  apply in_map_iff in Hc. destruct Hc as [j [E2 Hj]]. subst c. simpl. apply in_seq in Hj. unfold c05_valid, c05_getsize in *.
  split; [|lia].
  destruct (Nat.lt_ge_cases l (length d)) as [Hl|Hl]; [exact Hl|]. rewrite nth_overflow in Hj by exact Hl. simpl in Hj. lia.
Qed.

Lemma calls_at_nil : forall cs l j, ~ In (l, j) (map fst cs) -> c05_calls_at cs l j = [].
Proof.
  intros cs l j H. unfold c05_calls_at. induction cs as [|[[l0 j0] v] t IH]; simpl in *; [reflexivity|].
  destruct (Nat.eqb_spec l0 l) as [->|]; simpl.
  - destruct (Nat.eqb_spec j0 j) as [->|]; simpl; [exfalso; apply H; left; reflexivity|]. apply IH. intros Hin; apply H; right; exact Hin.
  - apply IH. intros Hin; apply H; right; exact Hin.
Qed.

(* "touches nothing else": a cell no call addresses keeps its value *)
Lemma P_untouched : forall add d cs l j, ~ In (l, j) (map fst cs) -> c05_get (c05_apply_calls add d cs) l j = c05_get d l j.
Proof.
  intros add d cs. revert d. induction cs as [|[[l0 j0] v] t IH]; intros d l j H; [reflexivity|].
  unfold c05_apply_calls; simpl. fold (c05_apply_calls add (c05_upd add d l0 j0 v) t).
  rewrite IH by (intros Hin; apply H; right; exact Hin).
  apply get_upd_other. intros E. apply H. left. simpl. exact E.
Qed.

(* gather through a typemap does not see updates outside that typemap *)
Lemma pack_untouched : forall add d cs t,
  (forall c, In c (c05_typemap t) -> ~ In c (map fst cs)) -> c05_dt_pack (c05_apply_calls add d cs) t = c05_dt_pack d t.
Proof.
  intros add d cs t H. rewrite !pack_get. apply map_ext_in. intros [l j] Hc. simpl. apply P_untouched. apply H. exact Hc.
Qed.

Lemma dt_recv_apply : forall rT msgs order d,
  c05_dt_recv rT msgs order d = c05_apply_calls false d (flat_map (fun p => combine (c05_typemap (rT p)) (msgs p)) order).
Proof.
  intros rT msgs order. unfold c05_dt_recv. induction order as [|p t IH]; intros d; simpl; [reflexivity|].
  rewrite IH, unpack_apply, apply_calls_app. reflexivity.
Qed.

Lemma dt_recv_ext : forall rT m1 m2 order d, (forall p, In p order -> m1 p = m2 p) -> c05_dt_recv rT m1 order d = c05_dt_recv rT m2 order d.
Proof.
  intros rT m1 m2 order. unfold c05_dt_recv. induction order as [|p t IH]; intros d H; simpl; [reflexivity|].
  rewrite (H p) by (left; reflexivity). apply IH. intros q Hq. apply H. right; exact Hq.
Qed.

(* ------------------------------------------------------------------ all interleavings of the transfers *)
Section Run.
Variable same : bool.
Variables sT rT : nat -> nat -> c05_dtype.
Variable G R0 : nat -> c05_data.
Hypothesis nonoverlap : same = true -> c05_dt_nonoverlap sT rT.

Definition dt_src0 (p : nat) : c05_data := if same then R0 p else G p.
Definition dt_calls (sched : list (nat * nat)) (r : nat) : list c05_call :=
  flat_map (fun p => combine (c05_typemap (rT r p)) (c05_dt_pack (dt_src0 p) (sT p r))) (c05_dt_senders sched r).
Local Notation src0 := dt_src0.
Local Notation calls := dt_calls.

Lemma calls_in_recv : forall sched r c, In c (map fst (calls sched r)) -> exists p, In c (c05_typemap (rT r p)).
Proof.
  intros sched r c H. unfold dt_calls in H. apply in_map_iff in H. destruct H as [[c' v] [E H]]. simpl in E; subst c'.
  apply in_flat_map in H. destruct H as [p [_ H]]. exists p. apply in_combine_l in H. exact H.
Qed.

Lemma senders_snoc : forall sched pq r,
  c05_dt_senders (sched ++ [pq]) r = c05_dt_senders sched r ++ (if snd pq =? r then [fst pq] else []).
Proof.
  intros. unfold c05_dt_senders. rewrite filter_app, map_app. simpl. destruct (snd pq =? r); reflexivity.
Qed.

(* in every state any schedule reaches, each rank's container is its initial one with the transfers addressed to it applied
   in schedule order, every transfer carrying the INITIAL cells of its sender *)
Lemma run_spec : forall sched r,
  c05_dt_run same sT rT G sched R0 r = c05_apply_calls false (R0 r) (calls sched r).
Proof.
  intros sched. induction sched as [|pq sched IH] using rev_ind; intros r; [reflexivity|].
  unfold c05_dt_run in *. rewrite fold_left_app. simpl. unfold c05_dt_step at 1.
  unfold dt_calls. rewrite senders_snoc, flat_map_app. fold (calls sched r).
  destruct (Nat.eqb_spec r (snd pq)) as [->|Hne].
  - rewrite Nat.eqb_refl. simpl. rewrite app_nil_r, apply_calls_app, unpack_apply. rewrite (IH (snd pq)). f_equal. f_equal.
    unfold dt_src0. destruct same eqn:Es; [|reflexivity].
    rewrite (IH (fst pq)). apply pack_untouched. intros c Hc Hin.
    destruct (calls_in_recv sched (fst pq) c Hin) as [p Hp]. exact (nonoverlap eq_refl (fst pq) (snd pq) p c Hc Hp).
  - destruct (Nat.eqb_spec (snd pq) r) as [E|_]; [congruence|]. simpl. rewrite app_nil_r. apply IH.
Qed.

Lemma P_dt_run : forall sched r,
  c05_dt_run same sT rT G sched R0 r =
  c05_dt_recv (rT r) (fun p => c05_dt_pack (src0 p) (sT p r)) (c05_dt_senders sched r) (R0 r).
Proof. intros. rewrite run_spec, dt_recv_apply. reflexivity. Qed.

End Run.

(* ------------------------------------------------------------------ datatypes of an interface: delivery and equality with the buffered copy *)
Section DtGlue.
Variable fwd : bool.
Variable m : nat -> c05_imap.                     (* the per-rank interface maps BEFORE strip (createDataTypes does not strip) *)
Variable gd sd : nat -> c05_data.                 (* containers sent from / received into in this direction *)
Variable szs szd : nat -> nat -> nat.
Hypothesis keys : forall p, NoDup (map fst (m p)).
Hypothesis paired : forall p q,
  Forall2 (fun l l' => c05_getsize (gd p) l = c05_getsize (sd q) l') (c05_g_sendlist fwd m p q) (c05_g_recvlist fwd m q p).

Definition dt_sT (p q : nat) : c05_dtype := c05_dt_of (gd p) (c05_g_sendlist fwd m p q).
Definition dt_rT (q p : nat) : c05_dtype := c05_dt_of (sd q) (c05_g_recvlist fwd m q p).

(* the values a receive stores, as matched (source entry, target entry) pairs: every component of the source block of the k-th
   send entry goes to the same component of the k-th receive entry *)
Lemma P_dt_calls_pairs : forall p q,
  combine (c05_typemap (dt_rT q p)) (c05_dt_pack (gd p) (dt_sT p q)) =
  flat_map (fun ll => c05_block_calls (snd ll) (nth (fst ll) (gd p) [])) (combine (c05_g_sendlist fwd m p q) (c05_g_recvlist fwd m q p)).
Proof.
  intros p q. unfold dt_rT, dt_sT. rewrite typemap_positions, pack_block.
  apply (calls_of_pairs (gd p) (sd q)). apply paired.
Qed.

Lemma strip_find_if : forall q (mm : c05_imap), NoDup (map fst mm) -> c05_find_if q (c05_strip mm) = c05_find_if q mm.
Proof.
  intros q mm. unfold c05_find_if, c05_strip. induction mm as [|[k [s r]] t IH]; intros ND; simpl; [reflexivity|].
  inversion ND; subst.
  destruct (c05_is_nil s && c05_is_nil r) eqn:E; simpl.
  - destruct (Nat.eqb_spec k q) as [->|]; [|apply IH; assumption].
    (* the stripped entry had two empty lists: not finding it gives the same pair *)
    destruct s; [|discriminate]. destruct r; [|rewrite andb_false_r in E; discriminate].
    rewrite IH by assumption.
    destruct (find (fun e => fst e =? q) t) as [[k' v]|] eqn:F; [|reflexivity].
    exfalso. apply find_some in F. destruct F as [Fin Fk]. simpl in Fk. apply Nat.eqb_eq in Fk; subst k'.
    apply H1. apply (in_map fst) in Fin. exact Fin.
  - destruct (k =? q); [reflexivity|apply IH; assumption].
Qed.

End DtGlue.

(* ------------------------------------------------------------------ equality with the BufferedCommunicator under the copy policy *)
Section DtBuffered.
Variable fwd : bool.
Variable ifs : nat -> c05_imap.
Variable gd sd : nat -> c05_data.
Variable szs szd : nat -> nat -> nat.
Hypothesis keys : forall p, NoDup (map fst (ifs p)).
Hypothesis send_layout : forall p e l, In e (ifs p) -> In l (c05_sendside fwd (snd e)) -> (if fwd then szs p else szd p) l = c05_getsize (gd p) l.
Hypothesis recv_layout : forall p e l, In e (ifs p) -> In l (c05_recvside fwd (snd e)) -> (if fwd then szd p else szs p) l = c05_getsize (sd p) l.
Hypothesis paired : forall p q,
  Forall2 (fun l l' => c05_getsize (gd p) l = c05_getsize (sd q) l') (c05_g_sendlist fwd ifs p q) (c05_g_recvlist fwd ifs q p).

Local Notation cm := (c05_g_cm ifs szs szd).
Local Notation sT := (dt_sT fwd ifs gd).
Local Notation rT := (dt_rT fwd ifs sd).

(* a neighbour either has a posted receive in the buffered communicator, or nothing is received from it at all *)
Lemma recv_key_or_zero : forall q p,
  In p (map fst (c05_recvs fwd (cm q))) \/ c05_msgsize (c05_getsize (sd q)) (c05_g_recvlist fwd ifs q p) = 0.
Proof.
  intros q p.
  destruct (Nat.eq_dec (c05_msgsize (c05_getsize (sd q)) (c05_g_recvlist fwd ifs q p)) 0) as [Hz|Hnz]; [right; exact Hz|left].
  destruct (in_dec Nat.eq_dec p (map fst (ifs q))) as [Hin|Hnin].
  - apply in_map_iff in Hin. destruct Hin as [[p' [s r]] [Hp He]]. simpl in Hp; subst p'.
    pose proof (find_if_in (ifs q) p (s, r) (keys q) He) as Hfi.
    apply in_split in He. destruct He as [pre [post E]].
    assert (Hr : c05_msgsize (if fwd then szd q else szs q) (c05_recvside fwd (s, r)) = c05_msgsize (c05_getsize (sd q)) (c05_g_recvlist fwd ifs q p)).
    { unfold c05_g_recvlist. rewrite Hfi. apply msgsize_ext. intros l Hl. apply (recv_layout q (p, (s, r))); [rewrite E; apply in_or_app; right; left; reflexivity|exact Hl]. }
    assert (Hpos : 0 < c05_msgsize (szs q) s + c05_msgsize (szd q) r) by (destruct fwd; simpl in *; lia).
    pose proof (minfos_def_complete (szs q) (szd q) (ifs q) 0 0 pre p s r post E Hpos) as Hentry.
    apply in_map_iff. eexists (p, _). split; [reflexivity|].
    unfold c05_recvs. apply in_flat_map. eexists. split; [unfold c05_g_cm; rewrite comm_build_spec; exact Hentry|].
    simpl fst; simpl snd.
    match goal with |- In _ (if ?c then _ else _) => destruct c eqn:Ec end; [|left; reflexivity].
    apply Nat.eqb_eq in Ec. destruct fwd; simpl in *; lia.
  - exfalso. unfold c05_g_recvlist in Hnz. rewrite (find_if_absent _ _ Hnin) in Hnz. destruct fwd; simpl in Hnz; apply Hnz; reflexivity.
Qed.

Lemma flat_map_filter_nil : forall A B (f : A -> list B) (keep : A -> bool) l,
  (forall x, In x l -> keep x = false -> f x = []) -> flat_map f l = flat_map f (filter keep l).
Proof.
  intros A B f keep l H. induction l as [|x t IH]; simpl; [reflexivity|].
  destruct (keep x) eqn:E; simpl; rewrite IH by (intros y Hy; apply H; right; exact Hy); [reflexivity|].
  rewrite (H x) by (auto; left; reflexivity). reflexivity.
Qed.

Lemma flat_map_ext_in : forall A B (f g : A -> list B) l, (forall x, In x l -> f x = g x) -> flat_map f l = flat_map g l.
Proof.
  intros A B f g l H. induction l as [|x t IH]; simpl; [reflexivity|].
  rewrite H by (left; reflexivity). f_equal. apply IH. intros y Hy. apply H. right; exact Hy.
Qed.

Definition dt_has_recv (q p : nat) : bool := existsb (Nat.eqb p) (map fst (c05_recvs fwd (cm q))).

(* C05_datatype_equals_buffered_copy, per rank: for ANY order of the datatype receives, the container equals what the buffered
   communicator with the copying policy produces when its (non-empty) receives complete in the same relative order *)
Lemma P_dt_equals_buffered : forall q order,
  Permutation (filter (dt_has_recv q) order) (map fst (c05_recvs fwd (cm q))) ->
  exists log,
    c05_recv_loop false fwd (cm q) (fun p => c05_g_msg fwd ifs gd szs szd p q) (c05_recvs fwd (cm q))
                  (filter (dt_has_recv q) order) (sd q) [] =
    C05_Ok (c05_dt_recv (rT q) (fun p => c05_dt_pack (gd p) (sT p q)) order (sd q)) log.
Proof.
  intros q order HP.
  pose proof (recvs_keys fwd ifs szs szd keys q) as ND.
  pose proof (P_matched fwd ifs gd sd szs szd keys send_layout recv_layout paired q) as HM.
  rewrite (recv_loop_spec false fwd (cm q) _ (c05_shape (sd q)) _ _ (sd q) [] ND HP eq_refl HM). simpl.
  eexists. f_equal. rewrite dt_recv_apply. f_equal.
  rewrite (flat_map_filter_nil _ _ _ (dt_has_recv q) order).
  - apply flat_map_ext_in. intros p Hp. apply filter_In in Hp. destruct Hp as [_ Hp].
    unfold dt_has_recv in Hp. apply existsb_exists in Hp. destruct Hp as [p' [Hin Heq]]. apply Nat.eqb_eq in Heq; subst p'.
    apply in_map_iff in Hin. destruct Hin as [[p' size] [Hp' Hin]]. simpl in Hp'; subst p'.
    destruct (HM p size Hin) as [msg [Hm _]]. pose proof Hm as Hm'. simpl in Hm'.
    rewrite (msg_spec fwd ifs gd sd szs szd keys send_layout recv_layout paired) in Hm'.
    destruct (c05_msgsize (c05_getsize (gd p)) (c05_g_sendlist fwd ifs p q) =? 0); [discriminate|]. inversion Hm'; subst msg.
    simpl in Hm. rewrite Hm.
    unfold c05_g_cm. rewrite comm_build_spec. simpl c05_cm_ifs. fold (c05_g_recvlist fwd ifs q p).
    unfold c05_calls_of, dt_rT, dt_sT. rewrite typemap_positions, pack_block. reflexivity.
  - intros p _ Hk. unfold dt_has_recv in Hk.
    destruct (recv_key_or_zero q p) as [Hin|Hz].
    + exfalso. assert (existsb (Nat.eqb p) (map fst (c05_recvs fwd (cm q))) = true) by (apply existsb_exists; exists p; split; [exact Hin|apply Nat.eqb_refl]). congruence.
    + unfold dt_rT. rewrite typemap_positions.
      assert (Hl : length (c05_positions (c05_shape (sd q)) (c05_g_recvlist fwd ifs q p)) = 0) by (rewrite positions_length; exact Hz).
      destruct (c05_positions (c05_shape (sd q)) (c05_g_recvlist fwd ifs q p)); [reflexivity|discriminate].
Qed.

End DtBuffered.
