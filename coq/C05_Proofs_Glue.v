(* C05 — proofs, part 4: from pairing of the interface lists and equal layouts to "every receive is matched" on all ranks,
   and the expected calls as matched (source entry, target entry) pairs. *)
From Coq Require Import List Arith Bool PeanoNat NArith Lia Permutation.
From DuneV Require Import C05_Model C05_Spec C05_Proofs_Comm C05_Proofs_Deliv.
Import ListNotations.

(* the whole machine: per rank an interface map, the container gathered from, the container scattered into *)
Section Glue.
Variable fwd : bool.
Variable ifs : nat -> c05_imap.
Variable gdata sdata : nat -> c05_data.
Variable szs szd : nat -> nat -> nat.

Local Notation g_cm := (c05_g_cm ifs szs szd).
Local Notation g_sendlist := (c05_g_sendlist fwd ifs).
Local Notation g_recvlist := (c05_g_recvlist fwd ifs).
Local Notation g_msg := (c05_g_msg fwd ifs gdata szs szd).
Local Notation g_pair_calls := (c05_g_pair_calls fwd ifs gdata szs szd).

Hypothesis keys : forall p, NoDup (map fst (ifs p)).
(* build() was given containers with the layout of the ones communicated now *)
Hypothesis send_layout : forall p e l, In e (ifs p) -> In l (c05_sendside fwd (snd e)) ->
  (if fwd then szs p else szd p) l = c05_getsize (gdata p) l.
Hypothesis recv_layout : forall p e l, In e (ifs p) -> In l (c05_recvside fwd (snd e)) ->
  (if fwd then szd p else szs p) l = c05_getsize (sdata p) l.
(* C05_pairing + "the block size is a function of the global index": k-th send entry of p for q and k-th receive entry of q
   for p have blocks of the same size *)
Hypothesis paired : forall p q,
  Forall2 (fun l l' => c05_getsize (gdata p) l = c05_getsize (sdata q) l') (g_sendlist p q) (g_recvlist q p).

Lemma find_if_in : forall m q e, NoDup (map fst m) -> In (q, e) m -> c05_find_if q m = e.
Proof.
  induction m as [|[q0 e0] t IH]; intros q e ND Hin; simpl in *; [contradiction|]. unfold c05_find_if; simpl.
  inversion ND; subst. destruct Hin as [H|H].
  - inversion H; subst. rewrite Nat.eqb_refl. reflexivity.
  - destruct (Nat.eqb_spec q0 q) as [->|Hne].
    + exfalso. apply H1. apply (in_map fst) in H. exact H.
    + apply (IH q e H2 H).
Qed.

Lemma find_if_absent : forall m q, ~ In q (map fst m) -> c05_find_if q m = ([], []).
Proof.
  induction m as [|[q0 e0] t IH]; intros q Hn; unfold c05_find_if in *; simpl in *; [reflexivity|].
  destruct (Nat.eqb_spec q0 q) as [->|Hne]; [exfalso; apply Hn; left; reflexivity|]. apply IH. intros H; apply Hn; right; exact H.
Qed.

Lemma find_key : forall A (l : list (nat * A)) q v, NoDup (map fst l) -> In (q, v) l -> find (fun e => fst e =? q) l = Some (q, v).
Proof.
  induction l as [|[q0 v0] t IH]; intros q v ND Hin; simpl in *; [contradiction|].
  inversion ND; subst. destruct Hin as [H|H].
  - inversion H; subst. rewrite Nat.eqb_refl. reflexivity.
  - destruct (Nat.eqb_spec q0 q) as [->|Hne].
    + exfalso. apply H1. apply (in_map fst) in H. exact H.
    + apply (IH q v H2 H).
Qed.

Lemma nodup_flat_map_keys : forall A B (f : nat * A -> list (nat * B)) l,
  (forall e, f e = [] \/ exists v, f e = [(fst e, v)]) -> NoDup (map fst l) -> NoDup (map fst (flat_map f l)).
Proof.
  intros A B f l Hf. induction l as [|e t IH]; intros ND; simpl; [constructor|].
  inversion ND; subst. destruct (Hf e) as [E|[v E]]; rewrite E; simpl; [apply IH; assumption|].
  constructor; [|apply IH; assumption].
  intros Hin. apply H1. clear - Hin Hf. induction t as [|x t IHt]; simpl in *; [contradiction|].
  rewrite map_app in Hin. apply in_app_or in Hin. destruct Hin as [Hin|Hin].
  - destruct (Hf x) as [E|[v E]]; rewrite E in Hin; simpl in Hin; [contradiction|]. destruct Hin as [Hin|[]]. left; exact Hin.
  - right. apply IHt. exact Hin.
Qed.

Lemma minfos_keys : forall s d m b0 b1, NoDup (map fst m) -> NoDup (map fst (c05_minfos_def s d m b0 b1)).
Proof.
  intros s d m. induction m as [|[q [a r]] t IH]; intros b0 b1 ND; simpl; [constructor|].
  inversion ND; subst.
  assert (Hsub : forall b0 b1 x, In x (map fst (c05_minfos_def s d t b0 b1)) -> In x (map fst t)).
  { clear. induction t as [|[q' [a' r']] t IHt]; intros b0 b1 x H; simpl in *; [contradiction|].
    rewrite map_app in H. apply in_app_or in H. destruct H as [H|H].
    - destruct (0 <? c05_msgsize s a' + c05_msgsize d r'); simpl in H; [destruct H as [H|[]]; left; exact H|contradiction].
    - right. eapply IHt. exact H. }
  destruct (0 <? c05_msgsize s a + c05_msgsize d r); simpl; [|apply IH; assumption].
  constructor; [|apply IH; assumption]. intros Hin. apply H1. eapply Hsub. exact Hin.
Qed.

Lemma positions_length : forall d info, length (c05_positions (c05_shape d) info) = c05_msgsize (c05_getsize d) info.
Proof.
  intros. unfold c05_positions. rewrite flat_map_length, msgsize_sum. f_equal. apply map_ext. intros l.
  rewrite map_length, seq_length. symmetry. apply getsize_shape.
Qed.

Lemma paired_sizes : forall p q, c05_msgsize (c05_getsize (gdata p)) (g_sendlist p q) = c05_msgsize (c05_getsize (sdata q)) (g_recvlist q p).
Proof.
  intros p q. rewrite !msgsize_sum.
  assert (G : forall (f g : nat -> nat) la lb, Forall2 (fun a b => f a = g b) la lb -> list_sum (map f la) = list_sum (map g lb)).
  { intros f g la lb HF. induction HF as [|x y a b H _ IH]; simpl; [reflexivity|]. rewrite H, IH. reflexivity. }
  apply G. apply paired.
Qed.

(* the message p posts for q is the gathered block of p's list for q, and it exists iff that block is non-empty *)
Lemma msg_spec : forall p q,
  g_msg p q = if c05_msgsize (c05_getsize (gdata p)) (g_sendlist p q) =? 0 then None
              else Some (c05_block (gdata p) (g_sendlist p q)).
Proof.
  intros p q. unfold c05_g_msg.
  pose proof (P_offsets fwd (szs p) (szd p) (ifs p) (gdata p) (send_layout p)) as [_ Hoff].
  assert (NDs : NoDup (map fst (c05_sends fwd (g_cm p) (c05_gather fwd (ifs p) (gdata p))))).
  { unfold c05_sends. apply nodup_flat_map_keys.
    - intros e. destruct (c05_mi_size (c05_sendinfo fwd (snd e)) =? 0); [left; reflexivity|right; eexists; reflexivity].
    - unfold c05_g_cm. rewrite comm_build_spec. simpl. apply minfos_keys. apply keys. }
  destruct (in_dec Nat.eq_dec q (map fst (ifs p))) as [Hin|Hnin].
  - apply in_map_iff in Hin. destruct Hin as [[q' e] [Hq He]]. simpl in Hq; subst q'.
    pose proof (find_if_in (ifs p) q e (keys p) He) as Hfi.
    unfold c05_g_sendlist. rewrite Hfi.
    destruct (Nat.eqb_spec (c05_msgsize (c05_getsize (gdata p)) (c05_sendside fwd e)) 0) as [Hz|Hnz].
    + (* nothing to send: no entry among the sends *)
      destruct (find _ _) as [[q2 m2]|] eqn:Ef; [|reflexivity]. exfalso.
      apply find_some in Ef. destruct Ef as [Ein Eq]. simpl in Eq. apply Nat.eqb_eq in Eq; subst q2.
      unfold c05_sends in Ein. apply in_flat_map in Ein. destruct Ein as [[q3 mi] [Hmi Hx]]. simpl in Hx.
      destruct (Nat.eqb_spec (c05_mi_size (c05_sendinfo fwd mi)) 0) as [|Hsz]; [contradiction|]. destruct Hx as [Hx|[]]. inversion Hx; subst q3 m2.
      destruct (Hoff q mi Hmi) as [pre [e' [post [E [_ [_ [Hsize _]]]]]]].
      assert (e' = e). { rewrite <- Hfi. symmetry. apply find_if_in; [apply keys|]. rewrite E. apply in_or_app; right; left; reflexivity. }
      subst e'. rewrite block_length in Hsize. lia.
    + apply in_split in He. destruct He as [pre [post E]]. destruct e as [s r].
      assert (Hpos : 0 < c05_msgsize (szs p) s + c05_msgsize (szd p) r).
      { assert (Hs : c05_msgsize (if fwd then szs p else szd p) (c05_sendside fwd (s, r)) = c05_msgsize (c05_getsize (gdata p)) (c05_sendside fwd (s, r))).
        { apply msgsize_ext. intros l Hl. apply (send_layout p (q, (s, r))); [rewrite E; apply in_or_app; right; left; reflexivity|exact Hl]. }
        destruct fwd; simpl in *; lia. }
      pose proof (minfos_def_complete (szs p) (szd p) (ifs p) 0 0 pre q s r post E Hpos) as Hentry.
      set (mi := ({| c05_mi_start := 0 + c05_total (szs p) fst pre; c05_mi_size := c05_msgsize (szs p) s |},
                  {| c05_mi_start := 0 + c05_total (szd p) snd pre; c05_mi_size := c05_msgsize (szd p) r |})) in *.
      assert (Hmi : In (q, mi) (c05_cm_info (g_cm p))) by (unfold c05_g_cm; rewrite comm_build_spec; exact Hentry).
      destruct (Hoff q mi Hmi) as [pre' [e' [post' [E' [_ [_ [Hsize Hslice]]]]]]].
      assert (e' = (s, r)).
      { transitivity (c05_find_if q (ifs p)); [symmetry; apply find_if_in; [apply keys|rewrite E'; apply in_or_app; right; left; reflexivity]|].
        apply find_if_in; [apply keys|rewrite E; apply in_or_app; right; left; reflexivity]. }
      subst e'.
      assert (Hins : In (q, c05_block (gdata p) (c05_sendside fwd (s, r))) (c05_sends fwd (g_cm p) (c05_gather fwd (ifs p) (gdata p)))).
      { unfold c05_sends. apply in_flat_map. exists (q, mi). split; [exact Hmi|]. simpl fst; simpl snd.
        rewrite Hsize, block_length. destruct (Nat.eqb_spec (c05_msgsize (c05_getsize (gdata p)) (c05_sendside fwd (s, r))) 0); [contradiction|].
        left. f_equal. rewrite <- block_length, <- Hsize. exact Hslice. }
      rewrite (find_key _ _ q _ NDs Hins). reflexivity.
  - unfold c05_g_sendlist. rewrite (find_if_absent _ _ Hnin). destruct fwd; simpl.
    + destruct (find _ _) as [[q2 m2]|] eqn:Ef; [|reflexivity]. exfalso.
      apply find_some in Ef. destruct Ef as [Ein Eq]. simpl in Eq. apply Nat.eqb_eq in Eq; subst q2.
      unfold c05_sends in Ein. apply in_flat_map in Ein. destruct Ein as [[q3 mi] [Hmi Hx]]. simpl in Hx.
      destruct (c05_mi_size (fst mi) =? 0); [contradiction|]. destruct Hx as [Hx|[]]. inversion Hx; subst q3.
      destruct (Hoff q mi Hmi) as [pre [e' [post [E _]]]]. apply Hnin. rewrite E, map_app. apply in_or_app; right; left; reflexivity.
    + destruct (find _ _) as [[q2 m2]|] eqn:Ef; [|reflexivity]. exfalso.
      apply find_some in Ef. destruct Ef as [Ein Eq]. simpl in Eq. apply Nat.eqb_eq in Eq; subst q2.
      unfold c05_sends in Ein. apply in_flat_map in Ein. destruct Ein as [[q3 mi] [Hmi Hx]]. simpl in Hx.
      destruct (c05_mi_size (snd mi) =? 0); [contradiction|]. destruct Hx as [Hx|[]]. inversion Hx; subst q3.
      destruct (Hoff q mi Hmi) as [pre [e' [post [E _]]]]. apply Hnin. rewrite E, map_app. apply in_or_app; right; left; reflexivity.
Qed.

(* every receive a rank posts is matched by a message of exactly that size — on every rank *)
Lemma P_matched : forall q, c05_matched fwd (g_cm q) (fun p => g_msg p q) (c05_shape (sdata q)).
Proof.
  intros q p size Hin.
  unfold c05_recvs in Hin. apply in_flat_map in Hin. destruct Hin as [[p' mi] [Hmi Hx]]. simpl in Hx.
  destruct (Nat.eqb_spec (c05_mi_size (c05_recvinfo fwd mi)) 0) as [|Hnz]; [contradiction|]. destruct Hx as [Hx|[]]. inversion Hx; subst p' size. clear Hx.
  unfold c05_g_cm in Hmi. rewrite comm_build_spec in Hmi. simpl in Hmi. destruct mi as [ms mr].
  destruct (minfos_def_in _ _ _ _ _ _ _ _ Hmi) as [pre [s [r [post [E [A [B [C [D F]]]]]]]]].
  assert (Hfi : c05_find_if p (ifs q) = (s, r)) by (apply find_if_in; [apply keys|rewrite E; apply in_or_app; right; left; reflexivity]).
  assert (Hrs : c05_mi_size (c05_recvinfo fwd (ms, mr)) = c05_msgsize (c05_getsize (sdata q)) (g_recvlist q p)).
  { unfold c05_g_recvlist. rewrite Hfi. destruct fwd; simpl in *; [rewrite D|rewrite B]; apply msgsize_ext; intros l Hl;
      apply (recv_layout q (p, (s, r))); try (rewrite E; apply in_or_app; right; left; reflexivity); exact Hl. }
  rewrite msg_spec.
  assert (Hsz : c05_msgsize (c05_getsize (gdata p)) (g_sendlist p q) = c05_mi_size (c05_recvinfo fwd (ms, mr)))
    by (rewrite paired_sizes; symmetry; exact Hrs).
  rewrite Hsz.
  destruct (Nat.eqb_spec (c05_mi_size (c05_recvinfo fwd (ms, mr))) 0) as [|_]; [contradiction|].
  eexists; split; [reflexivity|]. split.
  - rewrite block_length. exact Hsz.
  - unfold c05_g_cm. rewrite comm_build_spec. simpl c05_cm_ifs. fold (g_recvlist q p). rewrite positions_length. exact Hrs.
Qed.

(* every Issend is matched by a posted receive: no sender waits forever in its final MPI_Wait *)
Lemma P_sends_matched : forall p q m, g_msg p q = Some m -> In p (map fst (c05_recvs fwd (g_cm q))).
Proof.
  intros p q m Hm. rewrite msg_spec in Hm.
  destruct (Nat.eqb_spec (c05_msgsize (c05_getsize (gdata p)) (g_sendlist p q)) 0) as [|Hnz]; [discriminate|].
  rewrite paired_sizes in Hnz.
  destruct (in_dec Nat.eq_dec p (map fst (ifs q))) as [Hin|Hnin].
  - apply in_map_iff in Hin. destruct Hin as [[p' [s r]] [Hp He]]. simpl in Hp; subst p'.
    pose proof (find_if_in (ifs q) p (s, r) (keys q) He) as Hfi.
    apply in_split in He. destruct He as [pre [post E]].
    assert (Hr : c05_msgsize (if fwd then szd q else szs q) (c05_recvside fwd (s, r)) = c05_msgsize (c05_getsize (sdata q)) (g_recvlist q p)).
    { unfold c05_g_recvlist. rewrite Hfi. apply msgsize_ext. intros l Hl. apply (recv_layout q (p, (s, r))); [rewrite E; apply in_or_app; right; left; reflexivity|exact Hl]. }
    assert (Hpos : 0 < c05_msgsize (szs q) s + c05_msgsize (szd q) r) by (destruct fwd; simpl in *; lia).
    pose proof (minfos_def_complete (szs q) (szd q) (ifs q) 0 0 pre p s r post E Hpos) as Hentry.
    apply in_map_iff. eexists (p, _). split; [reflexivity|].
    unfold c05_recvs. apply in_flat_map. eexists. split; [unfold c05_g_cm; rewrite comm_build_spec; exact Hentry|].
    simpl fst; simpl snd.
    match goal with |- In _ (if ?c then _ else _) => destruct c eqn:Ec end; [|left; reflexivity].
    apply Nat.eqb_eq in Ec. destruct fwd; simpl in *; lia.
  - exfalso. unfold c05_g_recvlist in Hnz. rewrite (find_if_absent _ _ Hnin) in Hnz. destruct fwd; simpl in Hnz; apply Hnz; reflexivity.
Qed.

(* the calls the message of p produces on q's list, as matched (source entry, target entry) pairs:
   every component j of the source block of the k-th send entry arrives at (k-th receive entry, j) *)
Lemma combine_block : forall l' (x y : list N) (rest : list (nat * nat)),
  combine (map (pair l') (seq 0 (length x)) ++ rest) (x ++ y) = c05_block_calls l' x ++ combine rest y.
Proof.
  intros l' x y rest.
  rewrite combine_app_l by (rewrite map_length, seq_length, app_length; lia).
  rewrite map_length, seq_length, skipn_app, skipn_all, Nat.sub_diag. simpl skipn. f_equal.
  unfold c05_block_calls.
  assert (Hc : forall (a0 : list nat) (x0 y0 : list N), length a0 = length x0 ->
             combine (map (pair l') a0) (x0 ++ y0) = map (fun jv => (l', fst jv, snd jv)) (combine a0 x0)).
  { induction a0 as [|j a0 IHa]; intros x0 y0 Hl; destruct x0; simpl in *; try lia; [reflexivity|]. f_equal. apply IHa; lia. }
  apply Hc. rewrite seq_length. reflexivity.
Qed.

Lemma calls_of_pairs : forall (dp dq : c05_data) (sl rl : list nat),
  Forall2 (fun l l' => c05_getsize dp l = c05_getsize dq l') sl rl ->
  c05_calls_of (c05_shape dq) rl (c05_block dp sl) =
  flat_map (fun ll => c05_block_calls (snd ll) (nth (fst ll) dp [])) (combine sl rl).
Proof.
  intros dp dq sl rl H. unfold c05_calls_of, c05_block. induction H as [|l l' a b Hsz _ IH]; [reflexivity|].
  assert (Hn : nth l' (c05_shape dq) 0 = length (nth l dp [])) by (rewrite <- getsize_shape, <- Hsz; reflexivity).
  rewrite positions_cons, Hn. cbn [flat_map combine fst snd].
  rewrite combine_block, IH. reflexivity.
Qed.

Lemma recvs_keys : forall q, NoDup (map fst (c05_recvs fwd (g_cm q))).
Proof.
  intros q. unfold c05_recvs. apply nodup_flat_map_keys.
  - intros e. destruct (c05_mi_size (c05_recvinfo fwd (snd e)) =? 0); [left; reflexivity|right; eexists; reflexivity].
  - unfold c05_g_cm. rewrite comm_build_spec. simpl. apply minfos_keys. apply keys.
Qed.

Lemma expected_as_pairs : forall q,
  c05_expected_calls fwd (g_cm q) (fun p => g_msg p q) (c05_shape (sdata q)) = g_pair_calls q.
Proof.
  intros q. unfold c05_expected_calls, c05_g_pair_calls.
  assert (Hext : forall A B (f g : A -> list B) l, (forall x, In x l -> f x = g x) -> flat_map f l = flat_map g l).
  { intros A B f g l H. induction l as [|x t IH]; simpl; [reflexivity|]. rewrite H by (left; reflexivity). f_equal. apply IH. intros y Hy. apply H. right; exact Hy. }
  apply Hext. intros p Hp.
  apply in_map_iff in Hp. destruct Hp as [[p' size] [Hp' Hin]]. simpl in Hp'; subst p'.
  destruct (P_matched q p size Hin) as [m [Hm _]].
  pose proof Hm as Hm'. rewrite msg_spec in Hm'.
  destruct (c05_msgsize (c05_getsize (gdata p)) (g_sendlist p q) =? 0); [discriminate|]. inversion Hm'; subst m.
  simpl in Hm. rewrite Hm.
  unfold c05_g_cm. rewrite comm_build_spec. simpl c05_cm_ifs. fold (g_recvlist q p).
  apply calls_of_pairs. apply paired.
Qed.

(* C05_delivery end to end on every rank: pairing + equal layouts => for every completion order the receive loop of rank q
   returns and has scattered, for every sender p and every matched pair (k-th send entry of p for q, k-th receive entry of q
   for p), every component of the source block to the same component of the target entry, exactly once, and nothing else *)
Lemma P_end_to_end : forall add q order,
  Permutation order (map fst (c05_recvs fwd (g_cm q))) ->
  exists d' log',
    c05_recv_loop add fwd (g_cm q) (fun p => g_msg p q) (c05_recvs fwd (g_cm q)) order (sdata q) [] = C05_Ok d' log' /\
    Permutation log' (g_pair_calls q) /\
    d' = c05_apply_calls add (sdata q) log' /\ c05_shape d' = c05_shape (sdata q).
Proof.
  intros add q order HP.
  destruct (P_delivery_rank add fwd (g_cm q) (fun p => g_msg p q) order (sdata q) (recvs_keys q) (P_matched q) HP) as [d' [log' [H1 [H2 [H3 H4]]]]].
  exists d', log'. rewrite <- expected_as_pairs. auto.
Qed.

End Glue.
