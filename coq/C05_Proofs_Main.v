(* C05 — proofs, part 7: the combined statements of Properties_C05.v that are conjunctions of earlier lemmas. *)
From Coq Require Import List Arith Bool PeanoNat NArith Permutation Sorted.
From DuneV Require Import C05_Model C05_Spec C05_Proofs C05_Proofs_Comm C05_Proofs_Deliv C05_Proofs_Glue C05_Proofs_Remote C05_Proofs_Phase C05_Proofs_Dt C05_Proofs_Dec C05_Proofs_Obj.
Import ListNotations.

Lemma PM_pairing : forall src dst sl rl, Forall2 c05_mirror sl rl ->
  Forall2 c05_mirror (c05_keep true src dst sl) (c05_keep false src dst rl) /\
  length (c05_keep true src dst sl) = length (c05_keep false src dst rl) /\
  map c05_re_g (c05_keep true src dst sl) = map c05_re_g (c05_keep false src dst rl).
Proof. intros src dst sl rl H. split; [exact (P_pairing src dst sl rl H)|exact (P_pairing_cor src dst sl rl H)]. Qed.

Lemma PM_interface_doc : forall ign src dst S T,
  map c05_re_l (c05_keep true src dst (c05_join (c05_published ign S) (c05_published ign T))) =
    map (fun ee => c05_ie_l (fst ee)) (c05_spec_pairs ign (c05_contains src) (c05_contains dst) S T) /\
  map c05_re_l (c05_keep false src dst (c05_join (c05_published ign T) (c05_published ign S))) =
    map (fun ee => c05_ie_l (snd ee)) (c05_spec_pairs_t ign (c05_contains src) (c05_contains dst) S T).
Proof. intros. split; [apply P_interface_doc_send|apply P_interface_doc_recv]. Qed.

Lemma PM_keys_ascending : forall two ign dec p src dst m,
  StronglySorted lt (map fst (c05_remote_of two ign dec p)) /\
  (c05_interface_build src dst (c05_remote_of two ign dec p) = Some m -> StronglySorted lt (map fst m) /\ NoDup (map fst m)).
Proof.
  intros two ign dec p src dst m. split; [apply remote_keys_sorted|].
  intros H. pose proof (iface_keys_sorted src dst _ m (remote_keys_sorted two ign dec p) H) as HS.
  split; [exact HS|apply sorted_lt_nodup; exact HS].
Qed.

Lemma PM_all_matched : forall fwd ifs gdata sdata szs szd,
  (forall p, NoDup (map fst (ifs p))) ->
  (forall p e l, In e (ifs p) -> In l (c05_sendside fwd (snd e)) -> (if fwd then szs p else szd p) l = c05_getsize (gdata p) l) ->
  (forall p e l, In e (ifs p) -> In l (c05_recvside fwd (snd e)) -> (if fwd then szd p else szs p) l = c05_getsize (sdata p) l) ->
  (forall p q, Forall2 (fun l l' => c05_getsize (gdata p) l = c05_getsize (sdata q) l') (c05_g_sendlist fwd ifs p q) (c05_g_recvlist fwd ifs q p)) ->
  (forall q, c05_matched fwd (c05_g_cm ifs szs szd q) (fun p => c05_g_msg fwd ifs gdata szs szd p q) (c05_shape (sdata q))) /\
  (forall p q m, c05_g_msg fwd ifs gdata szs szd p q = Some m -> In p (map fst (c05_recvs fwd (c05_g_cm ifs szs szd q)))) /\
  (forall q, NoDup (map fst (c05_recvs fwd (c05_g_cm ifs szs szd q)))).
Proof.
  intros fwd ifs gdata sdata szs szd K SL RL PA. split; [|split].
  - exact (P_matched fwd ifs gdata sdata szs szd K SL RL PA).
  - exact (P_sends_matched fwd ifs gdata sdata szs szd K SL RL PA).
  - exact (recvs_keys fwd ifs szs szd K).
Qed.

Lemma PM_rebuild_refuted :
  exists old szs szd ifs msgs d,
    let cm := c05_comm_build_over old szs szd ifs in
    let cm' := c05_comm_build szs szd ifs in
    c05_recv_loop false true cm msgs (c05_recvs true cm) [0] d [] = C05_SizeMismatch /\
    exists d' log', c05_recv_loop false true cm' msgs (c05_recvs true cm') [0] d [] = C05_Ok d' log'.
Proof.
  exists rb_old, (fun _ => 1), (fun _ => 1), rb_ifs, rb_msgs, [[1%N]; [2%N]].
  destruct P_rebuild_refuted as [H1 H2]. split; [exact H1|]. eexists; eexists; exact H2.
Qed.

(* ------------------------------------------------------------------ instances used as non-vacuity examples *)
Definition ex_d : c05_data := [[10; 11]; [20]; [30]]%N.
Definition ex_cm : c05_comm := c05_comm_build (c05_getsize ex_d) (c05_getsize ex_d) [(0, ([1], [0; 2]))].
Definition ex_msgs (p : nat) : option (list N) := if p =? 0 then Some [7; 8; 9]%N else None.
Definition ex_ifs (p : nat) : c05_imap := match p with 0 => [(1, ([0; 1], [2]))] | 1 => [(0, ([1], [0; 2]))] | _ => [] end.
Definition ex_g (p : nat) : c05_data := match p with 0 => [[1; 2]; [3]; [4]]%N | 1 => [[10; 11]; [20]; [30]]%N | _ => [] end.
Definition ex_sz (p l : nat) : nat := c05_getsize (ex_g p) l.

Lemma PM_ex_matched : NoDup (map fst (c05_recvs true ex_cm)) /\ c05_matched true ex_cm ex_msgs (c05_shape ex_d) /\
  c05_recvs true ex_cm = [(0, 3)].
Proof.
  split; [|split]; [vm_compute; repeat constructor; intros []| |vm_compute; reflexivity].
  intros p size H. vm_compute in H. destruct H as [H|[]]. inversion H; subst. exists [7; 8; 9]%N. vm_compute. repeat split.
Qed.

Lemma PM_ex_global_hyps :
  (forall p, NoDup (map fst (ex_ifs p))) /\
  (forall p q, Forall2 (fun l l' => c05_getsize (ex_g p) l = c05_getsize (ex_g q) l') (c05_g_sendlist true ex_ifs p q) (c05_g_recvlist true ex_ifs q p)) /\
  c05_g_pair_calls true ex_ifs ex_g ex_sz ex_sz 1 = [(0, 0, 1%N); (0, 1, 2%N); (2, 0, 3%N)].
Proof.
  split; [|split].
  - intros [|[|p]]; simpl; repeat constructor; intros [].
  - intros [|[|p]] [|[|q]]; vm_compute; repeat constructor.
  - vm_compute. reflexivity.
Qed.

Lemma PM_interface_recv_is_spec : forall ign src dst S T, NoDup (map c05_ie_g S) -> NoDup (map c05_ie_g T) ->
  map c05_re_l (c05_keep false src dst (c05_join (c05_published ign (c05_sort T)) (c05_published ign (c05_sort S)))) =
  map (fun ee => c05_ie_l (snd ee)) (c05_spec_pairs ign (c05_contains src) (c05_contains dst) (c05_sort S) (c05_sort T)).
Proof.
  intros ign src dst S T HS HT. rewrite P_interface_doc_recv.
  rewrite (P_pairs_agree ign (c05_contains src) (c05_contains dst) (c05_sort S) (c05_sort T)); [reflexivity| |]; apply P_sort_sorted; assumption.
Qed.

(* ------------------------------------------------------------------ from a raw decomposition (entries in any insertion order) *)
Lemma nth_sorted_decomp : forall dec p, nth p (c05_sorted_decomp dec) ([], []) = (c05_sort (fst (nth p dec ([], []))), c05_sort (snd (nth p dec ([], [])))).
Proof.
  intros dec p. unfold c05_sorted_decomp.
  change (@nil c05_ientry, @nil c05_ientry) with ((fun st : (c05_iset * c05_iset)%type => (c05_sort (fst st), c05_sort (snd st))) ([], [])) at 1.
  rewrite map_nth. reflexivity.
Qed.

Lemma PM_decomposition_delivery : forall two ign src dst (dec : c05_decomp) (Sc Tc : nat -> c05_data) (sz : nat -> nat),
  (forall p, NoDup (map c05_ie_g (fst (nth p dec ([], [])))) /\ NoDup (map c05_ie_g (snd (nth p dec ([], []))))) ->
  (forall p e, In e (fst (nth p dec ([], []))) -> c05_getsize (Sc p) (c05_ie_l e) = sz (c05_ie_g e)) ->
  (forall p e, In e (snd (nth p dec ([], []))) -> c05_getsize (Tc p) (c05_ie_l e) = sz (c05_ie_g e)) ->
  forall (fwd add : bool) (orders : list (list nat)) (q : nat), q < length dec ->
  let ifs := c05_dec_ifs two ign src dst dec in
  let szs := fun (p l : nat) => c05_getsize (Sc p) l in let szd := fun (p l : nat) => c05_getsize (Tc p) l in
  let gd := fun p : nat => if fwd then Sc p else Tc p in let sd := fun p : nat => if fwd then Tc p else Sc p in
  Permutation (nth q orders []) (map fst (c05_recvs fwd (c05_g_cm ifs szs szd q))) ->
  exists d' log',
    nth q (c05_phase add fwd (map (c05_g_cm ifs szs szd) (seq 0 (length dec))) (map gd (seq 0 (length dec))) (map sd (seq 0 (length dec))) orders) C05_Stuck
      = C05_Ok d' log' /\
    Permutation log' (c05_g_pair_calls fwd ifs gd szs szd q) /\
    d' = c05_apply_calls add (sd q) log' /\ c05_shape d' = c05_shape (sd q).
Proof.
  intros two ign src dst dec Sc Tc sz ND LS LT fwd add orders q Hq ifs szs szd gd sd HP.
  assert (Hlen : length (c05_sorted_decomp dec) = length dec) by (unfold c05_sorted_decomp; apply map_length).
  rewrite <- Hlen. rewrite <- Hlen in Hq.
  apply (P_decomposition_delivery two ign src dst (c05_sorted_decomp dec)) with (sz := sz); auto.
  - intros p. rewrite nth_sorted_decomp. simpl. apply P_sort_sorted. apply ND.
  - intros p. rewrite nth_sorted_decomp. simpl. apply P_sort_sorted. apply ND.
  - intros p e He. rewrite nth_sorted_decomp in He. simpl in He. apply (proj1 (sort_in _ _)) in He. apply LS. exact He.
  - intros p e He. rewrite nth_sorted_decomp in He. simpl in He. apply (proj1 (sort_in _ _)) in He. apply LT. exact He.
Qed.

Definition ex_dec : c05_decomp :=
  let e g l a := {| c05_ie_g := g; c05_ie_l := l; c05_ie_a := a; c05_ie_pub := true |} in
  [ ([e 2 2 1; e 0 0 0; e 1 1 0], [e 2 2 1; e 0 0 0; e 1 1 0]); ([e 3 2 0; e 1 0 1; e 2 1 0], [e 3 2 0; e 1 0 1; e 2 1 0]) ].
Definition ex_Sc (p : nat) : c05_data := match p with 0 => [[1]; [2]; [3]]%N | _ => [[10]; [20]; [30]]%N end.
Lemma PM_ex_decomposition :
  (forall p, NoDup (map c05_ie_g (fst (nth p ex_dec ([], [])))) /\ NoDup (map c05_ie_g (snd (nth p ex_dec ([], []))))) /\
  let ifs := c05_dec_ifs false true (C05_Item 0) (C05_Item 1) ex_dec in
  ifs 0 = [(1, ([1], [2]))] /\ ifs 1 = [(0, ([1], [0]))] /\
  let szs := fun (p l : nat) => c05_getsize (ex_Sc p) l in
  c05_phase true true (map (c05_g_cm ifs szs szs) (seq 0 2)) (map ex_Sc (seq 0 2)) (map ex_Sc (seq 0 2)) [[1]; [0]] =
  [C05_Ok [[1]; [2]; [23]]%N [(2, 0, 20%N)]; C05_Ok [[12]; [20]; [30]]%N [(0, 0, 2%N)]].
Proof.
  split.
  - intros [|[|[|p]]]; simpl; split; repeat (apply NoDup_cons; [simpl; intuition discriminate|]); apply NoDup_nil.
  - vm_compute. repeat split; reflexivity.
Qed.

(* aliasing: ONE container per rank is both gathered from and scattered into (forward(data), or forward(data, data) with the same
   object twice): the values scattered are the ones the container held BEFORE the communication (gather precedes every scatter) *)
Lemma PM_one_container_delivery : forall two ign src dst (dec : c05_decomp) (Dc : nat -> c05_data) (sz : nat -> nat),
  (forall p, NoDup (map c05_ie_g (fst (nth p dec ([], [])))) /\ NoDup (map c05_ie_g (snd (nth p dec ([], []))))) ->
  (forall p e, In e (fst (nth p dec ([], []))) -> c05_getsize (Dc p) (c05_ie_l e) = sz (c05_ie_g e)) ->
  (forall p e, In e (snd (nth p dec ([], []))) -> c05_getsize (Dc p) (c05_ie_l e) = sz (c05_ie_g e)) ->
  forall (fwd add : bool) (orders : list (list nat)) (q : nat), q < length dec ->
  let ifs := c05_dec_ifs two ign src dst dec in
  let szs := fun (p l : nat) => c05_getsize (Dc p) l in
  Permutation (nth q orders []) (map fst (c05_recvs fwd (c05_g_cm ifs szs szs q))) ->
  exists d' log',
    nth q (c05_phase add fwd (map (c05_g_cm ifs szs szs) (seq 0 (length dec))) (map Dc (seq 0 (length dec))) (map Dc (seq 0 (length dec))) orders) C05_Stuck
      = C05_Ok d' log' /\
    Permutation log' (c05_g_pair_calls fwd ifs Dc szs szs q) /\
    d' = c05_apply_calls add (Dc q) log' /\ c05_shape d' = c05_shape (Dc q).
Proof.
  intros two ign src dst dec Dc sz ND L1 L2 fwd add orders q Hq ifs szs HP.
  destruct (PM_decomposition_delivery two ign src dst dec Dc Dc sz ND L1 L2 fwd add orders q Hq HP) as [d' [log' H]].
  exists d', log'. destruct fwd; exact H.
Qed.
