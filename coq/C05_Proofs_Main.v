(* C05 — proofs, part 7: the combined statements of Properties_C05.v that are conjunctions of earlier lemmas. *)
From Coq Require Import List Arith Bool PeanoNat NArith Permutation Sorted.
From DuneV Require Import C05_Model C05_Spec C05_Proofs C05_Proofs_Comm C05_Proofs_Deliv C05_Proofs_Glue C05_Proofs_Remote C05_Proofs_Phase C05_Proofs_Dt.
Import ListNotations.

Lemma PM_pairing : forall src dst sl rl, Forall2 c05_mirror sl rl ->
  Forall2 c05_mirror (c05_keep true src dst sl) (c05_keep false src dst rl) /\
  length (c05_keep true src dst sl) = length (c05_keep false src dst rl) /\
  map c05_re_g (c05_keep true src dst sl) = map c05_re_g (c05_keep false src dst rl).
Proof. intros src dst sl rl H. split; [exact (P_pairing src dst sl rl H)|exact (P_pairing_cor src dst sl rl H)]. Qed.

Lemma PM_interface_doc : forall ign src dst S T,
  map c05_re_l (c05_keep true src dst (c05_join (c05_published ign S) (c05_published ign T))) =
    map (fun ee => c05_ie_l (fst ee)) (c05_spec_pairs ign (c05_contains src) (c05_contains dst) S T) /\
  map c05_re_l (c05_keep false src dst (c05_join (c05_published ign T) (c05_published ign S))) =
    map (fun ee => c05_ie_l (snd ee)) (c05_spec_pairs_t ign (c05_contains src) (c05_contains dst) S T).
Proof. intros. split; [apply P_interface_doc_send|apply P_interface_doc_recv]. Qed.

Lemma PM_keys_ascending : forall two ign dec p src dst m,
  StronglySorted lt (map fst (c05_remote_of two ign dec p)) /\
  (c05_interface_build src dst (c05_remote_of two ign dec p) = Some m -> StronglySorted lt (map fst m) /\ NoDup (map fst m)).
Proof.
  intros two ign dec p src dst m. split; [apply remote_keys_sorted|].
  intros H. pose proof (iface_keys_sorted src dst _ m (remote_keys_sorted two ign dec p) H) as HS.
  split; [exact HS|apply sorted_lt_nodup; exact HS].
Qed.

Lemma PM_all_matched : forall fwd ifs gdata sdata szs szd,
  (forall p, NoDup (map fst (ifs p))) ->
  (forall p e l, In e (ifs p) -> In l (c05_sendside fwd (snd e)) -> (if fwd then szs p else szd p) l = c05_getsize (gdata p) l) ->
  (forall p e l, In e (ifs p) -> In l (c05_recvside fwd (snd e)) -> (if fwd then szd p else szs p) l = c05_getsize (sdata p) l) ->
  (forall p q, Forall2 (fun l l' => c05_getsize (gdata p) l = c05_getsize (sdata q) l') (c05_g_sendlist fwd ifs p q) (c05_g_recvlist fwd ifs q p)) ->
  (forall q, c05_matched fwd (c05_g_cm ifs szs szd q) (fun p => c05_g_msg fwd ifs gdata szs szd p q) (c05_shape (sdata q))) /\
  (forall p q m, c05_g_msg fwd ifs gdata szs szd p q = Some m -> In p (map fst (c05_recvs fwd (c05_g_cm ifs szs szd q)))) /\
  (forall q, NoDup (map fst (c05_recvs fwd (c05_g_cm ifs szs szd q)))).
Proof.
  intros fwd ifs gdata sdata szs szd K SL RL PA. split; [|split].
  - exact (P_matched fwd ifs gdata sdata szs szd K SL RL PA).
  - exact (P_sends_matched fwd ifs gdata sdata szs szd K SL RL PA).
  - exact (recvs_keys fwd ifs szs szd K).
Qed.

Lemma PM_rebuild_refuted :
  exists old szs szd ifs msgs d,
    let cm := c05_comm_build_over old szs szd ifs in
    let cm' := c05_comm_build szs szd ifs in
    c05_recv_loop false true cm msgs (c05_recvs true cm) [0] d [] = C05_SizeMismatch /\
    exists d' log', c05_recv_loop false true cm' msgs (c05_recvs true cm') [0] d [] = C05_Ok d' log'.
Proof.
  exists rb_old, (fun _ => 1), (fun _ => 1), rb_ifs, rb_msgs, [[1%N]; [2%N]].
  destruct P_rebuild_refuted as [H1 H2]. split; [exact H1|]. eexists; eexists; exact H2.
Qed.

(* ------------------------------------------------------------------ instances used as non-vacuity examples *)
Definition ex_d : c05_data := [[10; 11]; [20]; [30]]%N.
Definition ex_cm : c05_comm := c05_comm_build (c05_getsize ex_d) (c05_getsize ex_d) [(0, ([1], [0; 2]))].
Definition ex_msgs (p : nat) : option (list N) := if p =? 0 then Some [7; 8; 9]%N else None.
Definition ex_ifs (p : nat) : c05_imap := match p with 0 => [(1, ([0; 1], [2]))] | 1 => [(0, ([1], [0; 2]))] | _ => [] end.
Definition ex_g (p : nat) : c05_data := match p with 0 => [[1; 2]; [3]; [4]]%N | 1 => [[10; 11]; [20]; [30]]%N | _ => [] end.
Definition ex_sz (p l : nat) : nat := c05_getsize (ex_g p) l.

Lemma PM_ex_matched : NoDup (map fst (c05_recvs true ex_cm)) /\ c05_matched true ex_cm ex_msgs (c05_shape ex_d) /\
  c05_recvs true ex_cm = [(0, 3)].
Proof.
  split; [|split]; [vm_compute; repeat constructor; intros []| |vm_compute; reflexivity].
  intros p size H. vm_compute in H. destruct H as [H|[]]. inversion H; subst. exists [7; 8; 9]%N. vm_compute. repeat split.
Qed.

Lemma PM_ex_global_hyps :
  (forall p, NoDup (map fst (ex_ifs p))) /\
  (forall p q, Forall2 (fun l l' => c05_getsize (ex_g p) l = c05_getsize (ex_g q) l') (c05_g_sendlist true ex_ifs p q) (c05_g_recvlist true ex_ifs q p)) /\
  c05_g_pair_calls true ex_ifs ex_g ex_sz ex_sz 1 = [(0, 0, 1%N); (0, 1, 2%N); (2, 0, 3%N)].
Proof.
  split; [|split].
  - intros [|[|p]]; simpl; repeat constructor; intros [].
  - intros [|[|p]] [|[|q]]; vm_compute; repeat constructor.
  - vm_compute. reflexivity.
Qed.

Lemma PM_interface_recv_is_spec : forall ign src dst S T, NoDup (map c05_ie_g S) -> NoDup (map c05_ie_g T) ->
  map c05_re_l (c05_keep false src dst (c05_join (c05_published ign (c05_sort T)) (c05_published ign (c05_sort S)))) =
  map (fun ee => c05_ie_l (snd ee)) (c05_spec_pairs ign (c05_contains src) (c05_contains dst) (c05_sort S) (c05_sort T)).
Proof.
  intros ign src dst S T HS HT. rewrite P_interface_doc_recv.
  rewrite (P_pairs_agree ign (c05_contains src) (c05_contains dst) (c05_sort S) (c05_sort T)); [reflexivity| |]; apply P_sort_sorted; assumption.
Qed.
