(* C05 — proofs, part 12: the executable spec that the check uses as ORACLE (c05_spec_interface / c05_spec_scatter_fwd /
   c05_spec_scatter_bwd, defined on the raw decomposition) is what the model delivers: the matched-pair calls of
   C05_decomposition_delivery are a permutation of the oracle's call list. *)
From Coq Require Import List Arith Bool PeanoNat NArith Lia Permutation Sorted.
From DuneV Require Import C05_Model C05_Spec C05_Proofs C05_Proofs_Comm C05_Proofs_Deliv C05_Proofs_Glue C05_Proofs_Remote
                          C05_Proofs_Phase C05_Proofs_Dt C05_Proofs_Dec.
Import ListNotations.

(* flat_map over a duplicate-free sub-collection that only leaves out elements contributing nothing *)
Lemma perm_flat_map_sub : forall A B (f : A -> list B) (eq_dec : forall x y : A, {x = y} + {x <> y}) (la lb : list A),
  NoDup la -> NoDup lb -> incl lb la -> (forall x, In x la -> ~ In x lb -> f x = []) ->
  Permutation (flat_map f la) (flat_map f lb).
Proof.
  intros A B f eq_dec la. induction la as [|x la IH]; intros lb NDa NDb Hincl Hnil.
  - destruct lb as [|y lb]; [constructor|]. exfalso. apply (Hincl y). left; reflexivity.
  - inversion NDa; subst. simpl.
    destruct (in_dec eq_dec x lb) as [Hin|Hnin].
    + apply in_split in Hin. destruct Hin as [l1 [l2 E]]. subst lb.
      assert (NDb' : NoDup (l1 ++ l2)) by (apply NoDup_remove_1 in NDb; exact NDb).
      assert (Hx : ~ In x (l1 ++ l2)) by (apply NoDup_remove_2 in NDb; exact NDb).
      eapply perm_trans; [apply Permutation_app_head; apply (IH (l1 ++ l2) H2 NDb')|].
      * intros y Hy. assert (Hy' : In y (l1 ++ x :: l2)) by (apply in_app_or in Hy; apply in_or_app; destruct Hy; [left|right; right]; assumption).
        destruct (Hincl y Hy') as [E|Hl]; [subst y; contradiction|exact Hl].
      * intros y Hy Hny. apply Hnil; [right; exact Hy|]. intros Hc. apply Hny.
        apply in_app_or in Hc. apply in_or_app. destruct Hc as [Hc|[Hc|Hc]]; [left; exact Hc|subst y; contradiction|right; exact Hc].
      * rewrite !flat_map_app. simpl. rewrite !app_assoc.
        apply Permutation_app_tail. apply Permutation_app_comm.
    + rewrite (Hnil x) by (auto; left; reflexivity). simpl. apply IH; auto.
      * intros y Hy. destruct (Hincl y Hy) as [E|Hl]; [subst y; contradiction|exact Hl].
      * intros y Hy Hny. apply Hnil; [right; exact Hy|exact Hny].
Qed.

Lemma combine_map_map : forall A B C (f : A -> B) (g : A -> C) l, combine (map f l) (map g l) = map (fun x => (f x, g x)) l.
Proof. induction l as [|x t IH]; simpl; [reflexivity|]. rewrite IH. reflexivity. Qed.

Lemma flat_map_map : forall A B C (f : A -> B) (g : B -> list C) l, flat_map g (map f l) = flat_map (fun x => g (f x)) l.
Proof. induction l as [|x t IH]; simpl; [reflexivity|]. rewrite IH. reflexivity. Qed.

Lemma block_calls_nil : forall l, c05_block_calls l [] = [].
Proof. reflexivity. Qed.

Section Oracle.
Variables two ign : bool.
Variables src dst : c05_flagset.
Variable dec : c05_decomp.                                  (* raw decomposition, entries in any order *)
Hypothesis nodup : forall p, NoDup (map c05_ie_g (fst (nth p dec ([], [])))) /\ NoDup (map c05_ie_g (snd (nth p dec ([], [])))).
Variable Sc Tc : nat -> c05_data.
Variable sz : nat -> nat.
Hypothesis layoutS : forall p e, In e (fst (nth p dec ([], []))) -> c05_getsize (Sc p) (c05_ie_l e) = sz (c05_ie_g e).
Hypothesis layoutT : forall p e, In e (snd (nth p dec ([], []))) -> c05_getsize (Tc p) (c05_ie_l e) = sz (c05_ie_g e).

Local Notation ds := (c05_sorted_decomp dec).
Local Notation ifs := (c05_dec_ifs two ign src dst dec).
Local Notation As := (c05_contains src).
Local Notation At := (c05_contains dst).
Local Notation szs := (fun (p l : nat) => c05_getsize (Sc p) l).
Local Notation szd := (fun (p l : nat) => c05_getsize (Tc p) l).
Local Notation P := (length dec).

Lemma nth_ds : forall p, nth p ds ([], []) = (c05_src_of dec p, c05_tgt_of dec p).
Proof.
  intros p. unfold c05_sorted_decomp, c05_src_of, c05_tgt_of.
  change (@nil c05_ientry, @nil c05_ientry) with ((fun st : (c05_iset * c05_iset)%type => (c05_sort (fst st), c05_sort (snd st))) ([], [])) at 1.
  rewrite map_nth. reflexivity.
Qed.
Lemma len_ds : length ds = P.
Proof. unfold c05_sorted_decomp. apply map_length. Qed.
Lemma sortedS : forall p, c05_gsorted (fst (nth p ds ([], []))).
Proof. intros p. rewrite nth_ds. simpl. apply P_sort_sorted. apply nodup. Qed.
Lemma sortedT : forall p, c05_gsorted (snd (nth p ds ([], []))).
Proof. intros p. rewrite nth_ds. simpl. apply P_sort_sorted. apply nodup. Qed.

(* the two interface lists of a pair of neighbours, in terms of the matched pairs of the documentation *)
Lemma lists_as_pairs : forall p q, dec_nb two ds p q = true ->
  fst (dec_lists two ign src dst ds p q) = map (fun ee => c05_ie_l (fst ee)) (c05_spec_pairs ign As At (c05_src_of dec p) (c05_tgt_of dec q)) /\
  snd (dec_lists two ign src dst ds q p) = map (fun ee => c05_ie_l (snd ee)) (c05_spec_pairs ign As At (c05_src_of dec p) (c05_tgt_of dec q)) \/
  dec_nb two ds q p = false.
Proof.
  intros p q Hnb. destruct (dec_nb two ds q p) eqn:Hnb'; [left|right; reflexivity].
  unfold dec_lists. rewrite Hnb, Hnb'. simpl. unfold dec_sl, dec_rl. rewrite !nth_ds. simpl. split.
  - apply P_interface_doc_send.
  - rewrite P_interface_doc_recv. rewrite (P_pairs_agree ign As At (c05_src_of dec p) (c05_tgt_of dec q)); [reflexivity| |].
    + pose proof (sortedS p) as H. rewrite nth_ds in H. exact H.
    + pose proof (sortedT q) as H. rewrite nth_ds in H. exact H.
Qed.

Lemma nb_sym : forall p q, p < P -> q < P -> dec_nb two ds p q = dec_nb two ds q p.
Proof.
  intros p q Hp Hq. unfold dec_nb. rewrite len_ds.
  destruct (Nat.ltb_spec q P), (Nat.ltb_spec p P); try lia. simpl. rewrite (Nat.eqb_sym p q). reflexivity.
Qed.

(* calls of one sender in the oracle's form *)
Lemma sender_calls : forall p q, p < P -> q < P -> dec_nb two ds q p = true ->
  flat_map (fun ll => c05_block_calls (snd ll) (nth (fst ll) (Sc p) []))
           (combine (c05_g_sendlist true ifs p q) (c05_g_recvlist true ifs q p)) =
  flat_map (fun ee => c05_block_calls (c05_ie_l (snd ee)) (nth (c05_ie_l (fst ee)) (Sc p) []))
           (c05_spec_pairs ign As At (c05_src_of dec p) (c05_tgt_of dec q)).
Proof.
  intros p q Hp Hq Hnb. unfold c05_g_sendlist, c05_g_recvlist, c05_dec_ifs. simpl.
  fold (dec_ifs two ign src dst ds p). fold (dec_ifs two ign src dst ds q). rewrite !dec_find.
  assert (Hnb' : dec_nb two ds p q = true) by (rewrite nb_sym; assumption).
  destruct (lists_as_pairs p q Hnb') as [[E1 E2]|E]; [|congruence].
  rewrite E1, E2, combine_map_map, flat_map_map. reflexivity.
Qed.

Lemma ifs_keys : forall p, NoDup (map fst (ifs p)).
Proof. intros p. apply sorted_lt_nodup. apply (dec_keys_sorted two ign src dst ds). Qed.

Lemma layoutS' : forall p e, In e (fst (nth p ds ([], []))) -> c05_getsize (Sc p) (c05_ie_l e) = sz (c05_ie_g e).
Proof. intros p e H. rewrite nth_ds in H. simpl in H. apply (proj1 (sort_in _ _)) in H. apply layoutS. exact H. Qed.
Lemma layoutT' : forall p e, In e (snd (nth p ds ([], []))) -> c05_getsize (Tc p) (c05_ie_l e) = sz (c05_ie_g e).
Proof. intros p e H. rewrite nth_ds in H. simpl in H. apply (proj1 (sort_in _ _)) in H. apply layoutT. exact H. Qed.

Lemma paired_fwd : forall p q,
  Forall2 (fun l l' => c05_getsize (Sc p) l = c05_getsize (Tc q) l') (c05_g_sendlist true ifs p q) (c05_g_recvlist true ifs q p).
Proof. intros p q. apply (dec_paired two ign src dst ds sortedS sortedT Sc Tc sz layoutS' layoutT' true p q). Qed.

(* a process in the receive list of the buffered communicator of q is a neighbour of q *)
Lemma recv_key_is_neighbour : forall q p, In p (map fst (c05_recvs true (c05_g_cm ifs szs szd q))) -> p < P /\ dec_nb two ds q p = true.
Proof.
  intros q p H. apply in_map_iff in H. destruct H as [[p' size] [E H]]. simpl in E; subst p'.
  unfold c05_recvs in H. apply in_flat_map in H. destruct H as [[p' mi] [Hmi Hx]]. simpl in Hx.
  destruct (c05_mi_size (snd mi) =? 0) eqn:Ez; [contradiction|]. destruct Hx as [Hx|[]]. inversion Hx; subst p' size. clear Hx.
  unfold c05_g_cm in Hmi. rewrite comm_build_spec in Hmi. simpl in Hmi. destruct mi as [ms mr].
  destruct (minfos_def_in _ _ _ _ _ _ _ _ Hmi) as [pre [s [r [post [E [_ [_ [_ [D _]]]]]]]]].
  assert (Hk : In p (map fst (ifs q))) by (rewrite E, map_app; apply in_or_app; right; left; reflexivity).
  split; [rewrite <- len_ds; apply (dec_keys_lt two ign src dst ds q p Hk)|].
  assert (Hfi : c05_find_if p (ifs q) = (s, r)) by (apply find_if_in; [apply ifs_keys|rewrite E; apply in_or_app; right; left; reflexivity]).
  unfold c05_dec_ifs in Hfi. fold (dec_ifs two ign src dst ds q) in Hfi. rewrite dec_find in Hfi. unfold dec_lists in Hfi.
  destruct (dec_nb two ds q p); [reflexivity|]. inversion Hfi; subst s r. simpl in D. simpl in Ez. rewrite D in Ez. discriminate.
Qed.

(* C05_oracle_forward: the calls C05_decomposition_delivery guarantees on rank q are, up to order, exactly the list the
   extracted oracle c05_spec_scatter_fwd computes from the raw decomposition and the source containers *)
Lemma P_oracle_forward : forall q, q < P ->
  Permutation (c05_g_pair_calls true ifs Sc szs szd q)
              (c05_spec_scatter_fwd two ign As At dec (map Sc (seq 0 P)) q).
Proof.
  intros q Hq. apply Permutation_sym. unfold c05_spec_scatter_fwd, c05_g_pair_calls.
  set (G := fun p => flat_map (fun ee => c05_block_calls (c05_ie_l (snd ee)) (nth (c05_ie_l (fst ee)) (nth p (map Sc (seq 0 P)) []) []))
                              (c05_spec_pairs ign As At (c05_src_of dec p) (c05_tgt_of dec q))).
  eapply perm_trans.
  - apply (perm_flat_map_sub nat c05_call G Nat.eq_dec (c05_spec_neighbours two dec q) (map fst (c05_recvs true (c05_g_cm ifs szs szd q)))).
    + unfold c05_spec_neighbours. apply NoDup_filter. apply seq_NoDup.
    + apply (recvs_keys true ifs szs szd ifs_keys q).
    + intros p Hp. destruct (recv_key_is_neighbour q p Hp) as [Hlt Hnb]. unfold c05_spec_neighbours. apply filter_In. split; [apply in_seq; lia|].
      unfold dec_nb in Hnb. apply andb_true_iff in Hnb. tauto.
    + intros p Hp Hn. unfold c05_spec_neighbours in Hp. apply filter_In in Hp. destruct Hp as [Hp Hc]. apply in_seq in Hp.
      assert (Hlt : p < P) by lia.
      assert (Hnb : dec_nb two ds q p = true) by (unfold dec_nb; rewrite len_ds; destruct (Nat.ltb_spec p P); [exact Hc|lia]).
      unfold G. rewrite (nth_map_seq _ Sc P p [] Hlt). rewrite <- (sender_calls p q Hlt Hq Hnb).
      (* nothing is received from p: all blocks of the matched entries are empty *)
      destruct (recv_key_or_zero true ifs Sc Tc szs szd ifs_keys) with (q := q) (p := p) as [Hin|Hz]; try (intros; reflexivity); [apply paired_fwd|contradiction|].
      pose proof (paired_fwd p q) as HF. rewrite msgsize_sum in Hz.
      induction HF as [|l l' a b Hsz _ IH]; [reflexivity|]. simpl in *.
      assert (Hl0 : c05_getsize (Tc q) l' = 0) by lia.
      rewrite IH by lia. rewrite app_nil_r.
      unfold c05_getsize in Hsz, Hl0. rewrite Hl0 in Hsz. destruct (nth l (Sc p) []); [reflexivity|discriminate].
  - apply Permutation_refl' . apply flat_map_ext_in'. intros p Hp.
    destruct (recv_key_is_neighbour q p Hp) as [Hlt Hnb].
    unfold G. rewrite (nth_map_seq _ Sc P p [] Hlt). symmetry. apply (sender_calls p q Hlt Hq Hnb).
Qed.

(* ---- backward: roles exchanged *)
Lemma paired_bwd : forall p q,
  Forall2 (fun l l' => c05_getsize (Tc p) l = c05_getsize (Sc q) l') (c05_g_sendlist false ifs p q) (c05_g_recvlist false ifs q p).
Proof. intros p q. apply (dec_paired two ign src dst ds sortedS sortedT Sc Tc sz layoutS' layoutT' false p q). Qed.

Lemma sender_calls_bwd : forall p q, p < P -> q < P -> dec_nb two ds p q = true ->
  flat_map (fun ll => c05_block_calls (snd ll) (nth (fst ll) (Tc q) []))
           (combine (c05_g_sendlist false ifs q p) (c05_g_recvlist false ifs p q)) =
  flat_map (fun ee => c05_block_calls (c05_ie_l (fst ee)) (nth (c05_ie_l (snd ee)) (Tc q) []))
           (c05_spec_pairs ign As At (c05_src_of dec p) (c05_tgt_of dec q)).
Proof.
  intros p q Hp Hq Hnb. unfold c05_g_sendlist, c05_g_recvlist, c05_dec_ifs. simpl.
  fold (dec_ifs two ign src dst ds p). fold (dec_ifs two ign src dst ds q). rewrite !dec_find.
  destruct (lists_as_pairs p q Hnb) as [[E1 E2]|E]; [|rewrite nb_sym in E by assumption; congruence].
  rewrite E1, E2, combine_map_map, flat_map_map. reflexivity.
Qed.

Lemma recv_key_is_neighbour_bwd : forall p q, In q (map fst (c05_recvs false (c05_g_cm ifs szs szd p))) -> q < P /\ dec_nb two ds p q = true.
Proof.
  intros p q H. apply in_map_iff in H. destruct H as [[q' size] [E H]]. simpl in E; subst q'.
  unfold c05_recvs in H. apply in_flat_map in H. destruct H as [[q' mi] [Hmi Hx]]. simpl in Hx.
  destruct (c05_mi_size (fst mi) =? 0) eqn:Ez; [contradiction|]. destruct Hx as [Hx|[]]. inversion Hx; subst q' size. clear Hx.
  unfold c05_g_cm in Hmi. rewrite comm_build_spec in Hmi. simpl in Hmi. destruct mi as [ms mr].
  destruct (minfos_def_in _ _ _ _ _ _ _ _ Hmi) as [pre [s [r [post [E [_ [B _]]]]]]].
  assert (Hk : In q (map fst (ifs p))) by (rewrite E, map_app; apply in_or_app; right; left; reflexivity).
  split; [rewrite <- len_ds; apply (dec_keys_lt two ign src dst ds p q Hk)|].
  assert (Hfi : c05_find_if q (ifs p) = (s, r)) by (apply find_if_in; [apply ifs_keys|rewrite E; apply in_or_app; right; left; reflexivity]).
  unfold c05_dec_ifs in Hfi. fold (dec_ifs two ign src dst ds p) in Hfi. rewrite dec_find in Hfi. unfold dec_lists in Hfi.
  destruct (dec_nb two ds p q); [reflexivity|]. inversion Hfi; subst s r. simpl in B. simpl in Ez. rewrite B in Ez. discriminate.
Qed.

Lemma P_oracle_backward : forall p, p < P ->
  Permutation (c05_g_pair_calls false ifs Tc szs szd p)
              (c05_spec_scatter_bwd two ign As At dec (map Tc (seq 0 P)) p).
Proof.
  intros p Hp. apply Permutation_sym. unfold c05_spec_scatter_bwd, c05_g_pair_calls.
  set (G := fun q => flat_map (fun ee => c05_block_calls (c05_ie_l (fst ee)) (nth (c05_ie_l (snd ee)) (nth q (map Tc (seq 0 P)) []) []))
                              (c05_spec_pairs ign As At (c05_src_of dec p) (c05_tgt_of dec q))).
  eapply perm_trans.
  - apply (perm_flat_map_sub nat c05_call G Nat.eq_dec (c05_spec_neighbours two dec p) (map fst (c05_recvs false (c05_g_cm ifs szs szd p)))).
    + unfold c05_spec_neighbours. apply NoDup_filter. apply seq_NoDup.
    + apply (recvs_keys false ifs szs szd ifs_keys p).
    + intros q Hqin. destruct (recv_key_is_neighbour_bwd p q Hqin) as [Hlt Hnb]. unfold c05_spec_neighbours. apply filter_In. split; [apply in_seq; lia|].
      unfold dec_nb in Hnb. apply andb_true_iff in Hnb. tauto.
    + intros q Hqin Hn. unfold c05_spec_neighbours in Hqin. apply filter_In in Hqin. destruct Hqin as [Hqs Hc]. apply in_seq in Hqs.
      assert (Hlt : q < P) by lia.
      assert (Hnb : dec_nb two ds p q = true) by (unfold dec_nb; rewrite len_ds; destruct (Nat.ltb_spec q P); [exact Hc|lia]).
      unfold G. rewrite (nth_map_seq _ Tc P q [] Hlt). rewrite <- (sender_calls_bwd p q Hp Hlt Hnb).
      destruct (recv_key_or_zero false ifs Tc Sc szs szd ifs_keys) with (q := p) (p := q) as [Hin|Hz]; try (intros; reflexivity); [apply paired_bwd|contradiction|].
      pose proof (paired_bwd q p) as HF. rewrite msgsize_sum in Hz.
      induction HF as [|l l' a b Hsz _ IH]; [reflexivity|]. simpl in *.
      assert (Hl0 : c05_getsize (Sc p) l' = 0) by lia.
      rewrite IH by lia. rewrite app_nil_r.
      unfold c05_getsize in Hsz, Hl0. rewrite Hl0 in Hsz. destruct (nth l (Tc q) []); [reflexivity|discriminate].
  - apply Permutation_refl'. apply flat_map_ext_in'. intros q Hqin.
    destruct (recv_key_is_neighbour_bwd p q Hqin) as [Hlt Hnb].
    unfold G. rewrite (nth_map_seq _ Tc P q [] Hlt). symmetry. apply (sender_calls_bwd p q Hp Hlt Hnb).
Qed.

(* ---- the oracle's interface map is Interface::build's *)
Lemma filter_flat_map : forall A B (f : B -> bool) (g : A -> list B) l, filter f (flat_map g l) = flat_map (fun x => filter f (g x)) l.
Proof. induction l as [|x t IH]; simpl; [reflexivity|]. rewrite filter_app, IH. reflexivity. Qed.
Lemma flat_map_filter_cond : forall A B (c : A -> bool) (g : A -> list B) l, flat_map g (filter c l) = flat_map (fun x => if c x then g x else []) l.
Proof. induction l as [|x t IH]; simpl; [reflexivity|]. destruct (c x); simpl; rewrite IH; reflexivity. Qed.

Lemma P_oracle_interface : forall p, p < P -> c05_spec_interface two ign As At dec p = ifs p.
Proof.
  intros p Hp. unfold c05_spec_interface, c05_spec_neighbours, c05_dec_ifs, c05_iface_def, c05_strip, c05_remote_of.
  rewrite flat_map_filter_cond, map_flat_map, filter_flat_map, len_ds.
  apply flat_map_ext_in'. intros q Hq. apply in_seq in Hq.
  assert (Hnbq : dec_nb two ds p q = (two || negb (q =? p))) by (unfold dec_nb; rewrite len_ds; destruct (Nat.ltb_spec q P); [reflexivity|lia]).
  destruct (two || negb (q =? p)) eqn:Ec.
  - assert (Es : negb two && (q =? p) = false) by (destruct two, (q =? p); simpl in *; congruence). rewrite Es.
    assert (Hnbp : dec_nb two ds q p = true) by (rewrite nb_sym; [exact Hnbq|lia|exact Hp]).
    (* the two kept lists in the oracle's form *)
    destruct (lists_as_pairs p q Hnbq) as [[E1 _]|E]; [|congruence].
    destruct (lists_as_pairs q p Hnbp) as [[_ E2]|E]; [|congruence].
    unfold dec_lists in E1, E2. rewrite Hnbq in E1, E2. simpl in E1, E2.
    unfold c05_spec_send, c05_spec_recv. rewrite <- E1, <- E2. unfold dec_sl, dec_rl.
    set (sl := c05_join (c05_published ign (fst (nth p ds ([], [])))) (c05_published ign (snd (nth q ds ([], []))))).
    set (rl := c05_join (c05_published ign (snd (nth p ds ([], [])))) (c05_published ign (fst (nth q ds ([], []))))).
    destruct (c05_is_nil sl && c05_is_nil rl) eqn:En; simpl.
    + apply andb_true_iff in En. destruct En as [En1 En2]. destruct sl; [|discriminate]. destruct rl; [|discriminate]. reflexivity.
    + destruct (c05_is_nil (map c05_re_l (c05_keep true src dst sl)) && c05_is_nil (map c05_re_l (c05_keep false src dst rl))); reflexivity.
  - assert (Es : negb two && (q =? p) = true) by (destruct two, (q =? p); simpl in *; congruence). rewrite Es. reflexivity.
Qed.
End Oracle.
