(* C05 — proofs, part 6: the executable all-ranks function c05_phase (what the extracted driver runs) under the global hypotheses. *)
From Coq Require Import List Arith Bool PeanoNat NArith Lia Permutation.
From DuneV Require Import C05_Model C05_Spec C05_Proofs_Comm C05_Proofs_Deliv C05_Proofs_Glue.
Import ListNotations.

Lemma recv_loop_ext : forall add fwd cm m1 m2, (forall p, m1 p = m2 p) ->
  forall order pending d log, c05_recv_loop add fwd cm m1 pending order d log = c05_recv_loop add fwd cm m2 pending order d log.
Proof.
  intros add fwd cm m1 m2 H. induction order as [|q t IH]; intros pending d log; simpl; [reflexivity|].
  destruct (find _ pending) as [[q' size]|]; [|reflexivity]. rewrite H. destruct (m2 q) as [m|]; [|reflexivity].
  destruct (negb (length m =? size)); [reflexivity|].
  destruct (c05_scatter add d _ m log) as [d' log']. apply IH.
Qed.

Lemma nth_error_map_seq : forall A (f : nat -> A) P p, nth_error (map f (seq 0 P)) p = if p <? P then Some (f p) else None.
Proof.
  intros A f P p. destruct (Nat.ltb_spec p P) as [Hlt|Hge].
  - rewrite nth_error_map, nth_error_nth' with (d := 0) by (rewrite seq_length; exact Hlt). rewrite seq_nth by exact Hlt. reflexivity.
  - apply nth_error_None. rewrite map_length, seq_length. exact Hge.
Qed.

Lemma nth_map_seq : forall A (f : nat -> A) P q d, q < P -> nth q (map f (seq 0 P)) d = f q.
Proof.
  intros A f P q d H. rewrite (nth_indep _ d (f 0)) by (rewrite map_length, seq_length; exact H).
  rewrite map_nth, seq_nth by exact H. reflexivity.
Qed.

Section Phase.
Variable fwd : bool.
Variable P : nat.
Variable ifs : nat -> c05_imap.
Variable gd sd : nat -> c05_data.
Variable szs szd : nat -> nat -> nat.
Hypothesis keys : forall p, NoDup (map fst (ifs p)).
Hypothesis ranks : forall p q, In q (map fst (ifs p)) -> q < P.
Hypothesis outside : forall p, P <= p -> ifs p = [].
Hypothesis send_layout : forall p e l, In e (ifs p) -> In l (c05_sendside fwd (snd e)) -> (if fwd then szs p else szd p) l = c05_getsize (gd p) l.
Hypothesis recv_layout : forall p e l, In e (ifs p) -> In l (c05_recvside fwd (snd e)) -> (if fwd then szd p else szs p) l = c05_getsize (sd p) l.
Hypothesis paired : forall p q,
  Forall2 (fun l l' => c05_getsize (gd p) l = c05_getsize (sd q) l') (c05_g_sendlist fwd ifs p q) (c05_g_recvlist fwd ifs q p).

Let cms := map (c05_g_cm ifs szs szd) (seq 0 P).
Let gdata := map gd (seq 0 P).
Let sdata := map sd (seq 0 P).

Lemma msg_agree : forall p q, c05_msg fwd cms gdata p q = c05_g_msg fwd ifs gd szs szd p q.
Proof.
  intros p q. unfold c05_msg, cms, gdata. rewrite !nth_error_map_seq.
  destruct (Nat.ltb_spec p P) as [Hlt|Hge].
  - assert (E : c05_cm_ifs (c05_g_cm ifs szs szd p) = ifs p) by (unfold c05_g_cm; rewrite comm_build_spec; reflexivity).
    rewrite E. reflexivity.
  - unfold c05_g_msg, c05_g_cm. rewrite (outside p Hge). reflexivity.
Qed.

Lemma sends_are_msgs : forall p s, In s (c05_sends fwd (c05_g_cm ifs szs szd p) (c05_gather fwd (ifs p) (gd p))) ->
  c05_g_msg fwd ifs gd szs szd p (fst s) = Some (snd s) /\ In (fst s) (map fst (ifs p)).
Proof.
  intros p [q m] Hin. simpl. split.
  - unfold c05_g_msg. rewrite (find_key _ _ q m); [reflexivity| |exact Hin].
    unfold c05_sends. apply nodup_flat_map_keys.
    + intros e. destruct (c05_mi_size (c05_sendinfo fwd (snd e)) =? 0); [left; reflexivity|right; eexists; reflexivity].
    + unfold c05_g_cm. rewrite comm_build_spec. simpl. apply minfos_keys. apply keys.
  - unfold c05_sends in Hin. apply in_flat_map in Hin. destruct Hin as [[q' mi] [Hmi Hx]]. simpl in Hx.
    destruct (c05_mi_size (c05_sendinfo fwd mi) =? 0); [contradiction|]. destruct Hx as [Hx|[]]. inversion Hx; subst q'.
    unfold c05_g_cm in Hmi. rewrite comm_build_spec in Hmi. simpl in Hmi. destruct mi as [ms mr].
    destruct (minfos_def_in _ _ _ _ _ _ _ _ Hmi) as [pre [s [r [post [E _]]]]]. rewrite E, map_app. apply in_or_app; right; left; reflexivity.
Qed.

Lemma sends_matched_true : c05_sends_matched fwd cms gdata = true.
Proof.
  unfold c05_sends_matched. apply forallb_forall. intros p Hp. apply in_seq in Hp.
  unfold cms in Hp. rewrite map_length, seq_length in Hp.
  unfold cms, gdata. rewrite !nth_error_map_seq. destruct (Nat.ltb_spec p P); [|lia].
  apply forallb_forall. intros s Hs.
  assert (E : c05_cm_ifs (c05_g_cm ifs szs szd p) = ifs p) by (unfold c05_g_cm; rewrite comm_build_spec; reflexivity).
  rewrite E in Hs. destruct (sends_are_msgs p s Hs) as [Hm Hk].
  rewrite nth_error_map_seq. destruct (Nat.ltb_spec (fst s) P) as [_|Hge]; [|specialize (ranks p (fst s) Hk); lia].
  apply existsb_exists.
  pose proof (P_sends_matched fwd ifs gd sd szs szd keys send_layout recv_layout paired p (fst s) (snd s) Hm) as Hin.
  apply in_map_iff in Hin. destruct Hin as [r [Hr Hin]]. exists r. split; [exact Hin|]. rewrite Hr. apply Nat.eqb_refl.
Qed.

(* the extracted all-ranks function returns C05_Ok on every rank, for every choice of completion orders, with exactly the
   matched-pair calls *)
Lemma P_phase : forall add orders q, q < P ->
  Permutation (nth q orders []) (map fst (c05_recvs fwd (c05_g_cm ifs szs szd q))) ->
  exists d' log',
    nth q (c05_phase add fwd cms gdata sdata orders) C05_Stuck = C05_Ok d' log' /\
    Permutation log' (c05_g_pair_calls fwd ifs gd szs szd q) /\
    d' = c05_apply_calls add (sd q) log' /\ c05_shape d' = c05_shape (sd q).
Proof.
  intros add orders q Hq HP.
  destruct (P_end_to_end fwd ifs gd sd szs szd keys send_layout recv_layout paired add q (nth q orders []) HP) as [d' [log' [H1 H2]]].
  exists d', log'. split; [|exact H2].
  unfold c05_phase.
  assert (Hlen : length cms = P) by (unfold cms; rewrite map_length, seq_length; reflexivity).
  rewrite Hlen.
  rewrite nth_map_seq by exact Hq.
  unfold cms at 1. rewrite nth_error_map_seq. destruct (Nat.ltb_spec q P); [|lia].
  rewrite sends_matched_true. simpl.
  assert (Hsd : nth q sdata [] = sd q) by (unfold sdata; apply nth_map_seq; exact Hq).
  rewrite Hsd. rewrite (recv_loop_ext add fwd _ _ (fun p => c05_g_msg fwd ifs gd szs szd p q)) by (intros p; apply msg_agree).
  exact H1.
Qed.

End Phase.
