(* C05 — proofs, part 5: the stand-in for RemoteIndices (c05_remote_of / c05_join) satisfies the hypothesis of C05_pairing
   for index sets that are sorted by global index with pairwise distinct globals. *)
From Coq Require Import List Arith Bool PeanoNat NArith Lia Permutation Sorted.
From DuneV Require Import C05_Model C05_Spec C05_Proofs.
Import ListNotations.

Definition c05_gsorted (s : c05_iset) : Prop := StronglySorted (fun a b => c05_ie_g a < c05_ie_g b) s.

Lemma lookup_none : forall g s, (forall e, In e s -> c05_ie_g e <> g) -> c05_lookup g s = None.
Proof.
  induction s as [|x t IH]; intros H; simpl; [reflexivity|].
  destruct (Nat.eqb_spec (c05_ie_g x) g) as [E|_]; [exfalso; apply (H x); [left; reflexivity|exact E]|].
  apply IH. intros e He. apply H. right; exact He.
Qed.

Lemma join_skip : forall L x R, (forall e, In e L -> c05_ie_g e <> c05_ie_g x) -> c05_join L (x :: R) = c05_join L R.
Proof.
  intros L x R H. unfold c05_join. induction L as [|e t IH]; simpl; [reflexivity|].
  destruct (Nat.eqb_spec (c05_ie_g x) (c05_ie_g e)) as [E|_]; [exfalso; apply (H e); [left; reflexivity|symmetry; exact E]|].
  f_equal. apply IH. intros e' He'. apply H. right; exact He'.
Qed.

Lemma join_head_absent : forall a A R, (forall r, In r R -> c05_ie_g r <> c05_ie_g a) -> c05_join (a :: A) R = c05_join A R.
Proof. intros a A R H. unfold c05_join. simpl. fold (c05_lookup (c05_ie_g a) R). rewrite lookup_none by exact H. reflexivity. Qed.

Lemma sorted_tail_gt : forall a A, c05_gsorted (a :: A) -> forall e, In e A -> c05_ie_g a < c05_ie_g e.
Proof. intros a A H e He. inversion H as [|? ? _ HF]; subst. rewrite Forall_forall in HF. apply HF; exact He. Qed.

Lemma sorted_tail : forall a A, c05_gsorted (a :: A) -> c05_gsorted A.
Proof. intros a A H. inversion H; assumption. Qed.

Lemma join_cons_shared : forall a A b R, c05_lookup (c05_ie_g a) R = Some b ->
  c05_join (a :: A) R = {| c05_re_attr := c05_ie_a b; c05_re_g := c05_ie_g a; c05_re_l := c05_ie_l a; c05_re_a := c05_ie_a a |} :: c05_join A R.
Proof. intros a A b R H. unfold c05_join. simpl. rewrite H. reflexivity. Qed.

Lemma lookup_head : forall g b R, c05_ie_g b = g -> c05_lookup g (b :: R) = Some b.
Proof. intros g b R H. unfold c05_lookup. simpl. rewrite H, Nat.eqb_refl. reflexivity. Qed.

Lemma join_nil_r : forall L, c05_join L [] = [].
Proof. unfold c05_join. induction L as [|e t IH]; simpl; [reflexivity|exact IH]. Qed.

(* the receive list of q for p mirrors the send list of p for q *)
Lemma P_join_mirror : forall A B, c05_gsorted A -> c05_gsorted B -> Forall2 c05_mirror (c05_join A B) (c05_join B A).
Proof.
  intros A B. remember (length A + length B) as n eqn:Hn. revert A B Hn.
  induction n as [n IH] using lt_wf_ind. intros A B Hn SA SB.
  destruct A as [|a A'].
  - rewrite join_nil_r. constructor.
  - destruct B as [|b B'].
    + rewrite join_nil_r. constructor.
    + destruct (lt_eq_lt_dec (c05_ie_g a) (c05_ie_g b)) as [[Hlt|Heq]|Hgt].
      * (* a is not shared *)
        rewrite (join_head_absent a A' (b :: B')).
        2:{ intros r [Hr|Hr]; [subst r; lia|]. pose proof (sorted_tail_gt b B' SB r Hr). lia. }
        rewrite (join_skip (b :: B') a A').
        2:{ intros e [He|He]; [subst e; lia|]. pose proof (sorted_tail_gt b B' SB e He). lia. }
        apply (IH (length A' + length (b :: B'))); [simpl in *; lia|reflexivity|eapply sorted_tail; eauto|exact SB].
      * (* shared global: one entry on each side *)
        assert (E1 : c05_join (a :: A') (b :: B') =
                     {| c05_re_attr := c05_ie_a b; c05_re_g := c05_ie_g a; c05_re_l := c05_ie_l a; c05_re_a := c05_ie_a a |} :: c05_join A' B').
        { rewrite (join_cons_shared a A' b (b :: B')) by (apply lookup_head; lia). f_equal.
          apply join_skip. intros e He. pose proof (sorted_tail_gt a A' SA e He). lia. }
        assert (E2 : c05_join (b :: B') (a :: A') =
                     {| c05_re_attr := c05_ie_a a; c05_re_g := c05_ie_g b; c05_re_l := c05_ie_l b; c05_re_a := c05_ie_a b |} :: c05_join B' A').
        { rewrite (join_cons_shared b B' a (a :: A')) by (apply lookup_head; lia). f_equal.
          apply join_skip. intros e He. pose proof (sorted_tail_gt b B' SB e He). lia. }
        rewrite E1, E2. constructor; [repeat split; simpl; auto|].
        apply (IH (length A' + length B')); [simpl in *; lia|reflexivity|eapply sorted_tail; eauto|eapply sorted_tail; eauto].
      * rewrite (join_skip (a :: A') b B').
        2:{ intros e [He|He]; [subst e; lia|]. pose proof (sorted_tail_gt a A' SA e He). lia. }
        rewrite (join_head_absent b B' (a :: A')).
        2:{ intros r [Hr|Hr]; [subst r; lia|]. pose proof (sorted_tail_gt a A' SA r Hr). lia. }
        apply (IH (length (a :: A') + length B')); [simpl in *; lia|reflexivity|exact SA|eapply sorted_tail; eauto].
Qed.

Lemma published_sorted : forall ign s, c05_gsorted s -> c05_gsorted (c05_published ign s).
Proof.
  intros ign s H. unfold c05_published. induction H as [|a l _ IH HF]; simpl; [constructor|].
  destruct (ign || c05_ie_pub a); [|exact IH]. constructor; [exact IH|].
  rewrite Forall_forall in *. intros x Hx. apply filter_In in Hx. apply HF. tauto.
Qed.

(* the join is ascending in the global index (a sub-sequence of the local set) *)
Lemma join_globals_sorted : forall A B, c05_gsorted A -> StronglySorted lt (map c05_re_g (c05_join A B)).
Proof.
  intros A B H. unfold c05_join. induction H as [|a l _ IH HF]; simpl; [constructor|].
  destruct (c05_lookup (c05_ie_g a) B); simpl; [|exact IH]. constructor; [exact IH|].
  rewrite Forall_forall in *. intros g Hg. apply in_map_iff in Hg. destruct Hg as [r [Hr Hin]]. subst g.
  apply in_flat_map in Hin. destruct Hin as [e [He Hin]]. specialize (HF e He).
  destruct (c05_lookup (c05_ie_g e) B); simpl in Hin; [|contradiction]. destruct Hin as [Hin|[]]. subst r. simpl. exact HF.
Qed.

(* endResize's sort yields a strictly ascending set when the globals are pairwise distinct *)
Lemma insert_in : forall e s x, In x (c05_insert e s) <-> x = e \/ In x s.
Proof.
  induction s as [|y t IH]; intros x; simpl; [split; intros [H|H]; auto; contradiction|].
  destruct (c05_ie_g e <=? c05_ie_g y); simpl.
  - split; intros [H|[H|H]]; auto.
  - rewrite IH. split; intros [H|[H|H]]; auto.
Qed.

Lemma insert_sorted : forall e s, c05_gsorted s -> (forall x, In x s -> c05_ie_g x <> c05_ie_g e) -> c05_gsorted (c05_insert e s).
Proof.
  intros e s H. induction H as [|y t Ht IH HF]; intros Hne; simpl; [repeat constructor|].
  rewrite Forall_forall in HF.
  destruct (Nat.leb_spec (c05_ie_g e) (c05_ie_g y)) as [Hle|Hgt].
  - assert (c05_ie_g y <> c05_ie_g e) by (apply Hne; left; reflexivity).
    constructor; [constructor; [exact Ht|apply Forall_forall; exact HF]|].
    apply Forall_forall. intros x [Hx|Hx]; [subst x; lia|]. specialize (HF x Hx). lia.
  - constructor; [apply IH; intros x Hx; apply Hne; right; exact Hx|].
    apply Forall_forall. intros x Hx. apply insert_in in Hx. destruct Hx as [->|Hx]; [lia|apply HF; exact Hx].
Qed.

Lemma sort_in : forall s x, In x (c05_sort s) <-> In x s.
Proof. induction s as [|e t IH]; intros x; simpl; [tauto|]. rewrite insert_in, IH. split; intros [H|H]; auto. Qed.

Lemma P_sort_sorted : forall s, NoDup (map c05_ie_g s) -> c05_gsorted (c05_sort s).
Proof.
  induction s as [|e t IH]; intros ND; simpl; [constructor|]. inversion ND; subst.
  apply insert_sorted; [apply IH; assumption|].
  intros x Hx Heq. apply (proj1 (sort_in t x)) in Hx. apply H1. rewrite <- Heq. apply in_map. exact Hx.
Qed.

(* the hypothesis of C05_pairing holds for the remote index lists of any two ranks of any decomposition with one entry per
   global index: send list of p for q (own source /\ remote target) vs receive list of q for p (own target /\ remote source) *)
Lemma P_pairing_instance : forall ign S T, NoDup (map c05_ie_g S) -> NoDup (map c05_ie_g T) ->
  Forall2 c05_mirror (c05_join (c05_published ign (c05_sort S)) (c05_published ign (c05_sort T)))
                     (c05_join (c05_published ign (c05_sort T)) (c05_published ign (c05_sort S))) /\
  StronglySorted lt (map c05_re_g (c05_join (c05_published ign (c05_sort S)) (c05_published ign (c05_sort T)))).
Proof.
  intros ign S T HS HT. split.
  - apply P_join_mirror; apply published_sorted; apply P_sort_sorted; assumption.
  - apply join_globals_sorted. apply published_sorted. apply P_sort_sorted. assumption.
Qed.

(* ------------------------------------------------------------------ interface of the stand-in remote lists = the documentation's sets *)
Lemma find_filter : forall A (p f : A -> bool) l, find p (filter f l) = find (fun x => p x && f x) l.
Proof.
  induction l as [|x t IH]; simpl; [reflexivity|].
  destruct (f x) eqn:Ef; simpl.
  - rewrite andb_true_r. destruct (p x); [reflexivity|exact IH].
  - rewrite andb_false_r. exact IH.
Qed.

(* i^s_{p->q}: send side = the matched pairs of (own source set, remote target set), enumerated over the own source set *)
Lemma P_interface_doc_send : forall ign src dst S T,
  map c05_re_l (c05_keep true src dst (c05_join (c05_published ign S) (c05_published ign T))) =
  map (fun ee => c05_ie_l (fst ee)) (c05_spec_pairs ign (c05_contains src) (c05_contains dst) S T).
Proof.
  intros ign src dst S T. unfold c05_keep, c05_join, c05_spec_pairs, c05_published.
  induction S as [|e S' IH]; simpl; [reflexivity|].
  destruct (ign || c05_ie_pub e) eqn:Ep; simpl.
  - rewrite filter_app, !map_app, IH. f_equal.
    unfold c05_lookup. rewrite find_filter.
    destruct (find (fun x => (c05_ie_g x =? c05_ie_g e) && (ign || c05_ie_pub x)) T) as [r|]; simpl.
    + destruct (c05_contains src (c05_ie_a e)); simpl; [|reflexivity].
      destruct (c05_contains dst (c05_ie_a r)); reflexivity.
    + destruct (c05_contains src (c05_ie_a e)); reflexivity.
  - exact IH.
Qed.

Lemma P_interface_doc_recv : forall ign src dst S T,
  map c05_re_l (c05_keep false src dst (c05_join (c05_published ign T) (c05_published ign S))) =
  map (fun ee => c05_ie_l (snd ee)) (c05_spec_pairs_t ign (c05_contains src) (c05_contains dst) S T).
Proof.
  intros ign src dst S T. unfold c05_keep, c05_join, c05_spec_pairs_t, c05_published.
  induction T as [|e T' IH]; simpl; [reflexivity|].
  destruct (ign || c05_ie_pub e) eqn:Ep; simpl.
  - rewrite filter_app, !map_app, IH. f_equal.
    unfold c05_lookup. rewrite find_filter.
    destruct (find (fun x => (c05_ie_g x =? c05_ie_g e) && (ign || c05_ie_pub x)) S) as [r|]; simpl.
    + destruct (c05_contains dst (c05_ie_a e)); simpl; [|reflexivity].
      destruct (c05_contains src (c05_ie_a r)); reflexivity.
    + destruct (c05_contains dst (c05_ie_a e)); reflexivity.
  - exact IH.
Qed.

(* ------------------------------------------------------------------ keys: the maps are ascending in the process number (std::map) *)
Lemma flat_map_seq_keys : forall A (f : nat -> list (nat * A)) n start,
  (forall q x, In x (f q) -> fst x = q) -> (forall q, length (f q) <= 1) ->
  StronglySorted lt (map fst (flat_map f (seq start n))).
Proof.
  intros A f n. induction n as [|n IH]; intros start Hk Hl; simpl; [constructor|].
  rewrite map_app.
  assert (Hrest : Forall (fun k => start < k) (map fst (flat_map f (seq (S start) n)))).
  { apply Forall_forall. intros k Hin. apply in_map_iff in Hin. destruct Hin as [x [Hx Hin]]. subst k.
    apply in_flat_map in Hin. destruct Hin as [q [Hq Hin]]. apply in_seq in Hq. rewrite (Hk q x Hin). lia. }
  pose proof (Hl start) as Hl0. destruct (f start) as [|x [|y r]] eqn:E; simpl in *; [apply IH; assumption| |lia].
  constructor; [apply IH; assumption|].
  rewrite (Hk start x) by (rewrite E; left; reflexivity). exact Hrest.
Qed.

Lemma remote_keys_sorted : forall two ign dec p, StronglySorted lt (map fst (c05_remote_of two ign dec p)).
Proof.
  intros two ign dec p. unfold c05_remote_of. apply flat_map_seq_keys.
  - intros q x Hin. destruct (negb two && (q =? p)); [contradiction|].
    match type of Hin with In _ (if ?c then _ else _) => destruct c end; [contradiction|].
    destruct Hin as [Hin|[]]. subst x. reflexivity.
  - intros q. destruct (negb two && (q =? p)); simpl; [lia|].
    match goal with |- context [if ?c then _ else _] => destruct c end; simpl; lia.
Qed.

Lemma iface_keys_sorted : forall src dst rm m, StronglySorted lt (map fst rm) ->
  c05_interface_build src dst rm = Some m -> StronglySorted lt (map fst m).
Proof.
  intros src dst rm m HS H. rewrite P_interface_spec in H. inversion H; subst m. clear H.
  unfold c05_iface_def, c05_strip.
  induction rm as [|[q [sl rl]] t IH]; simpl in *; [constructor|].
  inversion HS as [|? ? HS' HF]; subst. specialize (IH HS').
  match goal with |- context [if ?c then _ else _] => destruct c end; simpl; [|exact IH].
  constructor; [exact IH|]. rewrite Forall_forall in *. intros k Hk.
  apply in_map_iff in Hk. destruct Hk as [[k' v] [Hk Hin]]. simpl in Hk; subst k'.
  apply filter_In in Hin. destruct Hin as [Hin _]. apply in_map_iff in Hin. destruct Hin as [[k2 v2] [E Hin]]. inversion E; subst.
  apply HF. apply in_map_iff. exists (k, v2). split; [reflexivity|exact Hin].
Qed.

Lemma sorted_lt_nodup : forall l, StronglySorted lt l -> NoDup l.
Proof.
  induction 1 as [|a l _ IH HF]; constructor; [|exact IH]. intros Hin. rewrite Forall_forall in HF. specialize (HF a Hin). lia.
Qed.

(* ------------------------------------------------------------------ the two enumerations of the matched pairs agree *)
Lemma flat_map_ext_in' : forall A B (f g : A -> list B) l, (forall x, In x l -> f x = g x) -> flat_map f l = flat_map g l.
Proof.
  intros A B f g l H. induction l as [|x t IH]; simpl; [reflexivity|].
  rewrite H by (left; reflexivity). f_equal. apply IH. intros y Hy. apply H. right; exact Hy.
Qed.

Section PairsAgree.
Variable ign : bool.
Variables As At : nat -> bool.
Local Notation pubf := (fun e : c05_ientry => ign || c05_ie_pub e).

Lemma find_none_g : forall g (L : c05_iset), (forall e, In e L -> c05_ie_g e <> g) ->
  find (fun e => (c05_ie_g e =? g) && pubf e) L = None.
Proof.
  induction L as [|x t IH]; intros H; simpl; [reflexivity|].
  destruct (Nat.eqb_spec (c05_ie_g x) g) as [E|_]; [exfalso; apply (H x); [left; reflexivity|exact E]|]. simpl.
  apply IH. intros e He. apply H. right; exact He.
Qed.

(* dropping from the searched set an entry whose global no enumerated entry has *)
Lemma pairs_skip_T : forall (S : c05_iset) x T, (forall e, In e S -> c05_ie_g e <> c05_ie_g x) ->
  c05_spec_pairs ign As At S (x :: T) = c05_spec_pairs ign As At S T.
Proof.
  intros S x T H. unfold c05_spec_pairs. apply flat_map_ext_in'. intros e He. simpl.
  destruct (Nat.eqb_spec (c05_ie_g x) (c05_ie_g e)) as [E|_]; [exfalso; apply (H e He); symmetry; exact E|]. reflexivity.
Qed.
Lemma pairs_t_skip_S : forall (T : c05_iset) x S, (forall e, In e T -> c05_ie_g e <> c05_ie_g x) ->
  c05_spec_pairs_t ign As At (x :: S) T = c05_spec_pairs_t ign As At S T.
Proof.
  intros T x S H. unfold c05_spec_pairs_t. apply flat_map_ext_in'. intros e He. simpl.
  destruct (Nat.eqb_spec (c05_ie_g x) (c05_ie_g e)) as [E|_]; [exfalso; apply (H e He); symmetry; exact E|]. reflexivity.
Qed.
(* dropping an enumerated entry that has no partner *)
Lemma pairs_head_absent : forall a S T, (forall e, In e T -> c05_ie_g e <> c05_ie_g a) ->
  c05_spec_pairs ign As At (a :: S) T = c05_spec_pairs ign As At S T.
Proof.
  intros a S T H. unfold c05_spec_pairs. simpl. rewrite (find_none_g (c05_ie_g a) T H).
  destruct (pubf a && As (c05_ie_a a)); reflexivity.
Qed.
Lemma pairs_t_head_absent : forall b S T, (forall e, In e S -> c05_ie_g e <> c05_ie_g b) ->
  c05_spec_pairs_t ign As At S (b :: T) = c05_spec_pairs_t ign As At S T.
Proof.
  intros b S T H. unfold c05_spec_pairs_t. simpl. rewrite (find_none_g (c05_ie_g b) S H).
  destruct (pubf b && At (c05_ie_a b)); reflexivity.
Qed.

Lemma P_pairs_agree : forall S T, c05_gsorted S -> c05_gsorted T ->
  c05_spec_pairs ign As At S T = c05_spec_pairs_t ign As At S T.
Proof.
  intros S T. remember (length S + length T) as n eqn:Hn. revert S T Hn.
  induction n as [n IH] using lt_wf_ind. intros S T Hn SS ST.
  destruct S as [|a S'].
  - unfold c05_spec_pairs, c05_spec_pairs_t. simpl. clear. induction T as [|b T' IHT]; simpl; [reflexivity|].
    rewrite <- IHT. destruct (pubf b && At (c05_ie_a b)); reflexivity.
  - destruct T as [|b T'].
    + unfold c05_spec_pairs, c05_spec_pairs_t. simpl flat_map at 2. clear. generalize (a :: S'). intros l.
      induction l as [|x t IHt]; simpl in *; [reflexivity|].
      rewrite IHt. destruct ((ign || c05_ie_pub x) && As (c05_ie_a x)); reflexivity.
    + destruct (lt_eq_lt_dec (c05_ie_g a) (c05_ie_g b)) as [[Hlt|Heq]|Hgt].
      * rewrite (pairs_head_absent a S' (b :: T')).
        2:{ intros e [He|He]; [subst e; lia|]. pose proof (sorted_tail_gt b T' ST e He). lia. }
        rewrite (pairs_t_skip_S (b :: T') a S').
        2:{ intros e [He|He]; [subst e; lia|]. pose proof (sorted_tail_gt b T' ST e He). lia. }
        apply (IH (length S' + length (b :: T'))); [simpl in *; lia|reflexivity|eapply sorted_tail; eauto|exact ST].
      * (* shared global: the same single pair (or none) on both sides, then the tails *)
        assert (E1 : c05_spec_pairs ign As At (a :: S') (b :: T') =
                     (if pubf a && As (c05_ie_a a) then if pubf b then if At (c05_ie_a b) then [(a, b)] else [] else [] else [])
                     ++ c05_spec_pairs ign As At S' T').
        { change (c05_spec_pairs ign As At (a :: S') (b :: T')) with
            ((if pubf a && As (c05_ie_a a) then
                match find (fun e' => (c05_ie_g e' =? c05_ie_g a) && pubf e') (b :: T') with
                | Some e' => if At (c05_ie_a e') then [(a, e')] else [] | None => [] end else [])
             ++ c05_spec_pairs ign As At S' (b :: T')).
          rewrite (pairs_skip_T S' b T') by (intros e He; pose proof (sorted_tail_gt a S' SS e He); lia).
          f_equal. destruct (pubf a && As (c05_ie_a a)); [|reflexivity].
          simpl find. replace (c05_ie_g b =? c05_ie_g a) with true by (symmetry; apply Nat.eqb_eq; lia). simpl.
          destruct (ign || c05_ie_pub b) eqn:Eb; simpl; [reflexivity|].
          rewrite (find_none_g (c05_ie_g a) T'); [reflexivity|].
          intros e He. pose proof (sorted_tail_gt b T' ST e He). lia. }
        assert (E2 : c05_spec_pairs_t ign As At (a :: S') (b :: T') =
                     (if pubf b && At (c05_ie_a b) then if pubf a then if As (c05_ie_a a) then [(a, b)] else [] else [] else [])
                     ++ c05_spec_pairs_t ign As At S' T').
        { change (c05_spec_pairs_t ign As At (a :: S') (b :: T')) with
            ((if pubf b && At (c05_ie_a b) then
                match find (fun e => (c05_ie_g e =? c05_ie_g b) && pubf e) (a :: S') with
                | Some e => if As (c05_ie_a e) then [(e, b)] else [] | None => [] end else [])
             ++ c05_spec_pairs_t ign As At (a :: S') T').
          rewrite (pairs_t_skip_S T' a S') by (intros e He; pose proof (sorted_tail_gt b T' ST e He); lia).
          f_equal. destruct (pubf b && At (c05_ie_a b)); [|reflexivity].
          simpl find. replace (c05_ie_g a =? c05_ie_g b) with true by (symmetry; apply Nat.eqb_eq; lia). simpl.
          destruct (ign || c05_ie_pub a) eqn:Ea; simpl; [reflexivity|].
          rewrite (find_none_g (c05_ie_g b) S'); [reflexivity|].
          intros e He. pose proof (sorted_tail_gt a S' SS e He). lia. }
        rewrite E1, E2. f_equal.
        -- destruct (ign || c05_ie_pub a), (As (c05_ie_a a)), (ign || c05_ie_pub b), (At (c05_ie_a b)); reflexivity.
        -- apply (IH (length S' + length T')); [simpl in *; lia|reflexivity|eapply sorted_tail; eauto|eapply sorted_tail; eauto].
      * rewrite (pairs_skip_T (a :: S') b T').
        2:{ intros e [He|He]; [subst e; lia|]. pose proof (sorted_tail_gt a S' SS e He). lia. }
        rewrite (pairs_t_head_absent b (a :: S') T').
        2:{ intros e [He|He]; [subst e; lia|]. pose proof (sorted_tail_gt a S' SS e He). lia. }
        apply (IH (length (a :: S') + length T')); [simpl in *; lia|reflexivity|exact SS|eapply sorted_tail; eauto].
Qed.
End PairsAgree.
