(* C05 — proofs, part 11: repeated use — any sequence of forward/backward communications with any policies and completion
   orders on communicators built once. *)
From Coq Require Import List Arith Bool PeanoNat NArith Lia Permutation.
From DuneV Require Import C05_Model C05_Spec C05_Proofs_Comm C05_Proofs_Deliv C05_Proofs_Glue C05_Proofs_Dec.
Import ListNotations.

Lemma getsize_of_shape : forall d d' l, c05_shape d = c05_shape d' -> c05_getsize d l = c05_getsize d' l.
Proof. intros d d' l H. rewrite !getsize_shape, H. reflexivity. Qed.

Section Seq.
Variable ifs : nat -> c05_imap.
Variables Sc0 Tc0 : nat -> c05_data.
Variables szs szd : nat -> nat -> nat.
Hypothesis keys : forall p, NoDup (map fst (ifs p)).
Hypothesis layoutS : forall p e l, In e (ifs p) -> In l (fst (snd e)) -> szs p l = c05_getsize (Sc0 p) l.
Hypothesis layoutT : forall p e l, In e (ifs p) -> In l (snd (snd e)) -> szd p l = c05_getsize (Tc0 p) l.
Hypothesis paired : forall p q,
  Forall2 (fun l l' => c05_getsize (Sc0 p) l = c05_getsize (Tc0 q) l') (c05_g_sendlist true ifs p q) (c05_g_recvlist true ifs q p).

Definition seq_inv (st : (nat -> c05_data) * (nat -> c05_data)) : Prop :=
  forall p, c05_shape (fst st p) = c05_shape (Sc0 p) /\ c05_shape (snd st p) = c05_shape (Tc0 p).

Lemma seq_phase_ok : forall st ph, seq_inv st -> c05_ph_orders_ok ifs szs szd ph ->
  forall q, exists d' log',
    c05_seq_result ifs szs szd st ph q = C05_Ok d' log' /\
    Permutation log' (c05_g_pair_calls (c05_ph_fwd ph) ifs (if c05_ph_fwd ph then fst st else snd st) szs szd q) /\
    c05_shape d' = c05_shape ((if c05_ph_fwd ph then snd st else fst st) q).
Proof.
  intros [Sc Tc] [fwd add ord] Inv Hord q. unfold c05_seq_result. simpl in *.
  assert (IS : forall p l, c05_getsize (Sc p) l = c05_getsize (Sc0 p) l) by (intros; apply getsize_of_shape; apply Inv).
  assert (IT : forall p l, c05_getsize (Tc p) l = c05_getsize (Tc0 p) l) by (intros; apply getsize_of_shape; apply Inv).
  destruct (P_end_to_end fwd ifs (if fwd then Sc else Tc) (if fwd then Tc else Sc) szs szd keys) with (add := add) (q := q) (order := ord q)
    as [d' [log' [H1 [H2 [H3 H4]]]]].
  - intros p e l He Hl. destruct fwd; simpl in *; [rewrite IS; apply (layoutS p e l He Hl)|rewrite IT; apply (layoutT p e l He Hl)].
  - intros p e l He Hl. destruct fwd; simpl in *; [rewrite IT; apply (layoutT p e l He Hl)|rewrite IS; apply (layoutS p e l He Hl)].
  - intros p p'. destruct fwd; simpl.
    + eapply Forall2_imp; [|apply (paired p p')]. intros a b E. simpl. rewrite IS, IT. exact E.
    + pose proof (Forall2_flip _ _ _ _ _ (paired p' p)) as F. unfold c05_g_sendlist, c05_g_recvlist in *. simpl in *.
      eapply Forall2_imp; [|exact F]. intros a b E. simpl in E. rewrite IS, IT. symmetry. exact E.
  - apply Hord.
  - exists d', log'. split; [exact H1|]. split; [exact H2|exact H4].
Qed.

Lemma seq_step_inv : forall st ph, seq_inv st -> c05_ph_orders_ok ifs szs szd ph -> seq_inv (c05_seq_step ifs szs szd st ph).
Proof.
  intros st ph Inv Hord p. unfold c05_seq_step.
  destruct (seq_phase_ok st ph Inv Hord p) as [d' [log' [H1 [_ H4]]]].
  destruct (c05_ph_fwd ph); simpl; rewrite H1; simpl; split; try apply Inv; rewrite H4; apply Inv.
Qed.

Lemma seq_run_inv : forall phs st, seq_inv st -> Forall (c05_ph_orders_ok ifs szs szd) phs -> seq_inv (c05_seq_run ifs szs szd phs st).
Proof.
  induction phs as [|ph t IH]; intros st Inv HF; simpl; [exact Inv|].
  inversion HF; subst. apply IH; [apply seq_step_inv; assumption|assumption].
Qed.

(* C05_repeated_use: in ANY sequence of communications on the same communicators, every single one returns on every rank
   with exactly the matched-pair calls of the containers as they are at that moment, and the layouts never change *)
Lemma P_repeated_use : forall h ph rest, Forall (c05_ph_orders_ok ifs szs szd) (h ++ ph :: rest) ->
  let st := c05_seq_run ifs szs szd h (Sc0, Tc0) in
  seq_inv st /\
  forall q, exists d' log',
    c05_seq_result ifs szs szd st ph q = C05_Ok d' log' /\
    Permutation log' (c05_g_pair_calls (c05_ph_fwd ph) ifs (if c05_ph_fwd ph then fst st else snd st) szs szd q) /\
    c05_shape d' = c05_shape ((if c05_ph_fwd ph then snd st else fst st) q).
Proof.
  intros h ph rest HF st.
  apply Forall_app in HF. destruct HF as [Hh Hr]. inversion Hr; subst.
  assert (Inv : seq_inv st) by (apply seq_run_inv; [intros p; split; reflexivity|exact Hh]).
  split; [exact Inv|]. apply seq_phase_ok; assumption.
Qed.
End Seq.
