(* C05 — the abstract statement: interface sets i^s, i^t of doc/comm/communication.tex as set comprehensions over the
   decomposition, and "every value gathered at a source entry reaches the scatter of its matching target entry exactly
   once and nothing else does".  Executable: the same functions are the oracle of checks/C05.py. *)
From Coq Require Import List Arith Bool PeanoNat NArith Permutation Sorted.
From DuneV Require Import C05_Model.
Import ListNotations.

(* ------------------------------------------------------------------ matched pairs of two index sets *)
(* (e, e') with e in the SOURCE set S (published, attribute in As), e' in the TARGET set T (published, attribute in At),
   same global index; enumerated in the order of S.  Index sets are sorted by global index, so this is global order. *)
Definition c05_spec_pairs (ign : bool) (As At : nat -> bool) (S T : c05_iset) : list (c05_ientry * c05_ientry) :=
  flat_map (fun e =>
    if (ign || c05_ie_pub e) && As (c05_ie_a e) then
      match find (fun e' => (c05_ie_g e' =? c05_ie_g e) && (ign || c05_ie_pub e')) T with
      | Some e' => if At (c05_ie_a e') then [(e, e')] else []
      | None => [] end
    else []) S.

(* the same matched pairs enumerated in the order of the TARGET set (equal to c05_spec_pairs for sorted sets with one entry
   per global index: both are ascending in the shared global, see C05_pairing / C05_pairing_hypothesis_holds) *)
Definition c05_spec_pairs_t (ign : bool) (As At : nat -> bool) (S T : c05_iset) : list (c05_ientry * c05_ientry) :=
  flat_map (fun e' =>
    if (ign || c05_ie_pub e') && At (c05_ie_a e') then
      match find (fun e => (c05_ie_g e =? c05_ie_g e') && (ign || c05_ie_pub e)) S with
      | Some e => if As (c05_ie_a e) then [(e, e')] else []
      | None => [] end
    else []) T.

Definition c05_src_of (dec : c05_decomp) (p : nat) : c05_iset := c05_sort (fst (nth p dec ([], []))).
Definition c05_tgt_of (dec : c05_decomp) (p : nat) : c05_iset := c05_sort (snd (nth p dec ([], []))).

(* i^s_{p->q}: local indices (on p) of the source entries of p matched with target entries of q;
   i^t_{p<-q}: local indices (on p) of the target entries of p matched with source entries of q *)
Definition c05_spec_send (ign : bool) (As At : nat -> bool) (dec : c05_decomp) (p q : nat) : list nat :=
  map (fun ee => c05_ie_l (fst ee)) (c05_spec_pairs ign As At (c05_src_of dec p) (c05_tgt_of dec q)).
Definition c05_spec_recv (ign : bool) (As At : nat -> bool) (dec : c05_decomp) (p q : nat) : list nat :=
  map (fun ee => c05_ie_l (snd ee)) (c05_spec_pairs ign As At (c05_src_of dec q) (c05_tgt_of dec p)).

(* neighbours: every other rank, and the rank itself iff there are two index sets *)
Definition c05_spec_neighbours (two : bool) (dec : c05_decomp) (p : nat) : list nat :=
  filter (fun q => two || negb (q =? p)) (seq 0 (length dec)).

Definition c05_spec_interface (two ign : bool) (As At : nat -> bool) (dec : c05_decomp) (p : nat) : c05_imap :=
  flat_map (fun q => let s := c05_spec_send ign As At dec p q in let r := c05_spec_recv ign As At dec p q in
                     if c05_is_nil s && c05_is_nil r then [] else [(q, (s, r))]) (c05_spec_neighbours two dec p).

(* ------------------------------------------------------------------ delivery *)
(* the scatter calls rank q must see in a forward communication: for every sender p and matched pair (e,e'), every
   component j of the source block data_p[l(e)] arrives at (l(e'), j) *)
Definition c05_spec_scatter_fwd (two ign : bool) (As At : nat -> bool) (dec : c05_decomp) (gdata : list c05_data) (q : nat)
  : list c05_call :=
  flat_map (fun p => flat_map (fun ee => c05_block_calls (c05_ie_l (snd ee)) (nth (c05_ie_l (fst ee)) (nth p gdata []) []))
                              (c05_spec_pairs ign As At (c05_src_of dec p) (c05_tgt_of dec q)))
           (c05_spec_neighbours two dec q).
(* backward: roles exchanged; rank p sees, for every q and matched pair (e,e'), the target block of q at its source entry *)
Definition c05_spec_scatter_bwd (two ign : bool) (As At : nat -> bool) (dec : c05_decomp) (gdata : list c05_data) (p : nat)
  : list c05_call :=
  flat_map (fun q => flat_map (fun ee => c05_block_calls (c05_ie_l (fst ee)) (nth (c05_ie_l (snd ee)) (nth q gdata []) []))
                              (c05_spec_pairs ign As At (c05_src_of dec p) (c05_tgt_of dec q)))
           (c05_spec_neighbours two dec p).

(* the container a multiset of scatter calls must produce.  add: old + sum of the values; copy: the value if exactly one
   call hits the position, unchanged if none, and None (= "one of the values", completion-order dependent) otherwise *)
Definition c05_calls_at (calls : list c05_call) (l j : nat) : list N :=
  map snd (filter (fun c => (fst (fst c) =? l) && (snd (fst c) =? j)) calls).
Definition c05_spec_value (add : bool) (old : N) (vs : list N) : option N :=
  if add then Some (fold_left N.add vs old)
  else match vs with [] => Some old | [v] => Some v | _ => None end.
Definition c05_spec_final (add : bool) (d0 : c05_data) (calls : list c05_call) : list (list (option N)) :=
  map (fun lb => map (fun jv => c05_spec_value add (snd jv) (c05_calls_at calls (fst lb) (fst jv)))
                     (combine (seq 0 (length (snd lb))) (snd lb)))
      (combine (seq 0 (length d0)) d0).

(* ------------------------------------------------------------------ statements used by the theorems *)
(* C04's conclusion, as a relation between the send list of p for q and the receive list of q for p:
   same globals in the same order, attributes mirrored *)
Definition c05_mirror (r r' : c05_rentry) : Prop :=
  c05_re_g r = c05_re_g r' /\ c05_re_attr r = c05_re_a r' /\ c05_re_a r = c05_re_attr r'.

(* the entries a side of the interface keeps (the definition of i^s / i^t on a remote index list) *)
Definition c05_keep (send : bool) (src dst : c05_flagset) (l : list c05_rentry) : list c05_rentry :=
  filter (fun r => if send then c05_contains src (c05_re_a r) && c05_contains dst (c05_re_attr r)
                   else c05_contains dst (c05_re_a r) && c05_contains src (c05_re_attr r)) l.

Definition c05_wf_data (d : c05_data) (info : list nat) : Prop := forall l, In l info -> l < length d.

(* the interface map the definition gives for a remote index map (per neighbour: kept entries' local indices; strip) *)
Definition c05_iface_def (src dst : c05_flagset) (rm : c05_rmap) : c05_imap :=
  c05_strip (map (fun e => (fst e, (map c05_re_l (c05_keep true src dst (fst (snd e))),
                                    map c05_re_l (c05_keep false src dst (snd (snd e)))))) rm).

(* ------------------------------------------------------------------ vocabulary of the delivery theorems *)
Definition c05_shape (d : c05_data) : list nat := map (@length N) d.                    (* block sizes = the "layout" *)
Definition c05_get (d : c05_data) (l j : nat) : N := nth j (nth l d []) 0%N.
Definition c05_valid (d : c05_data) (l j : nat) : Prop := l < length d /\ j < length (nth l d []).
(* the (local index, subindex) positions an interface list addresses, in scatter/gather order *)
Definition c05_positions (sh : list nat) (info : list nat) : list (nat * nat) :=
  flat_map (fun l => map (pair l) (seq 0 (nth l sh 0))) info.
(* the scatter calls a message produces on a list *)
Definition c05_calls_of (sh : list nat) (info : list nat) (m : list N) : list c05_call := combine (c05_positions sh info) m.
Definition c05_apply_calls (add : bool) (d : c05_data) (cs : list c05_call) : c05_data :=
  fold_left (fun d c => c05_upd add d (fst (fst c)) (snd (fst c)) (snd c)) cs d.
(* all scatter calls a rank must perform in one phase: for every outstanding receive, the message of that process on its list *)
Definition c05_expected_calls (fwd : bool) (cm : c05_comm) (msgs : nat -> option (list N)) (sh : list nat) : list c05_call :=
  flat_map (fun p => c05_calls_of sh (c05_recvside fwd (c05_find_if p (c05_cm_ifs cm)))
                                  (match msgs p with Some m => m | None => [] end))
           (map fst (c05_recvs fwd cm)).
(* every posted receive is matched by a message of exactly the posted size, which is the size the scatter consumes *)
Definition c05_matched (fwd : bool) (cm : c05_comm) (msgs : nat -> option (list N)) (sh : list nat) : Prop :=
  forall p size, In (p, size) (c05_recvs fwd cm) ->
    exists m, msgs p = Some m /\ length m = size /\
              size = length (c05_positions sh (c05_recvside fwd (c05_find_if p (c05_cm_ifs cm)))).

(* values a list contributes to the gather buffer *)
Definition c05_block (d : c05_data) (info : list nat) : list N := flat_map (fun l => nth l d []) info.

(* ------------------------------------------------------------------ the whole machine (all ranks) in one phase *)
(* ifs p = interface map of rank p; szs p / szd p = the block sizes build() read from the source / target container of p;
   gdata p = the container rank p gathers from in this phase, sdata p = the one it scatters into *)
Definition c05_g_cm (ifs : nat -> c05_imap) (szs szd : nat -> nat -> nat) (p : nat) : c05_comm :=
  c05_comm_build (szs p) (szd p) (ifs p).
Definition c05_g_sendlist (fwd : bool) (ifs : nat -> c05_imap) (p q : nat) : list nat := c05_sendside fwd (c05_find_if q (ifs p)).
Definition c05_g_recvlist (fwd : bool) (ifs : nat -> c05_imap) (q p : nat) : list nat := c05_recvside fwd (c05_find_if p (ifs q)).
(* the message p posts for q (None: no Issend) *)
Definition c05_g_msg (fwd : bool) (ifs : nat -> c05_imap) (gdata : nat -> c05_data) (szs szd : nat -> nat -> nat) (p q : nat)
  : option (list N) :=
  match find (fun e => fst e =? q) (c05_sends fwd (c05_g_cm ifs szs szd p) (c05_gather fwd (ifs p) (gdata p))) with
  | Some e => Some (snd e) | None => None end.
(* the calls rank q must see: for every sender p and k, every component of the block of p's k-th send entry for q at the same
   component of q's k-th receive entry for p *)
Definition c05_g_pair_calls (fwd : bool) (ifs : nat -> c05_imap) (gdata : nat -> c05_data) (szs szd : nat -> nat -> nat) (q : nat)
  : list c05_call :=
  flat_map (fun p => flat_map (fun ll => c05_block_calls (snd ll) (nth (fst ll) (gdata p) []))
                              (combine (c05_g_sendlist fwd ifs p q) (c05_g_recvlist fwd ifs q p)))
           (map fst (c05_recvs fwd (c05_g_cm ifs szs szd q))).

(* one receive transition of a rank: MPI_Waitany reports ANY outstanding receive whose message exists *)
Record c05_rstate := { c05_rs_pending : list (nat * nat); c05_rs_data : c05_data; c05_rs_log : list c05_call }.
Inductive c05_step (add fwd : bool) (cm : c05_comm) (msgs : nat -> option (list N)) : c05_rstate -> c05_rstate -> Prop :=
| C05_step_recv : forall st q size m d' log',
    In (q, size) (c05_rs_pending st) -> msgs q = Some m -> length m = size ->
    c05_scatter add (c05_rs_data st) (c05_recvside fwd (c05_find_if q (c05_cm_ifs cm))) m (c05_rs_log st) = (d', log') ->
    c05_step add fwd cm msgs st
      {| c05_rs_pending := filter (fun e => negb (fst e =? q)) (c05_rs_pending st); c05_rs_data := d'; c05_rs_log := log' |}.
Inductive c05_steps (add fwd : bool) (cm : c05_comm) (msgs : nat -> option (list N)) : c05_rstate -> c05_rstate -> Prop :=
| C05_steps_refl : forall st, c05_steps add fwd cm msgs st st
| C05_steps_cons : forall a b c, c05_step add fwd cm msgs a b -> c05_steps add fwd cm msgs b c -> c05_steps add fwd cm msgs a c.

(* ------------------------------------------------------------------ DatatypeCommunicator: the unbuffered machine, all interleavings
   sT p q / rT q p = the datatype p sends to q with / q receives from p with.  A transfer (p,q) is atomic: it reads the cells of
   sT p q from p's send container AS IT IS AT THAT MOMENT and stores them into the cells of rT q p of q's receive container.
   same = true : every rank sends from and receives into ONE container (state R); same = false : it sends from G, which is never
   written.  A schedule is any list of transfers. *)
Definition c05_dt_step (same : bool) (sT rT : nat -> nat -> c05_dtype) (G : nat -> c05_data) (R : nat -> c05_data) (pq : nat * nat)
  : nat -> c05_data :=
  fun r => if r =? snd pq
           then c05_dt_unpack (R r) (rT (snd pq) (fst pq)) (c05_dt_pack (if same then R (fst pq) else G (fst pq)) (sT (fst pq) (snd pq)))
           else R r.
Definition c05_dt_run (same : bool) (sT rT : nat -> nat -> c05_dtype) (G : nat -> c05_data) (sched : list (nat * nat)) (R : nat -> c05_data)
  : nat -> c05_data := fold_left (c05_dt_step same sT rT G) sched R.
(* the senders of the transfers to rank r, in schedule order *)
Definition c05_dt_senders (sched : list (nat * nat)) (r : nat) : list nat := map fst (filter (fun pq => snd pq =? r) sched).
(* the MPI precondition: on every rank, no cell is both sent from and received into (only matters for one container) *)
Definition c05_dt_nonoverlap (sT rT : nat -> nat -> c05_dtype) : Prop :=
  forall r q p c, In c (c05_typemap (sT r q)) -> ~ In c (c05_typemap (rT r p)).

(* ------------------------------------------------------------------ repeated use of one communicator on two container families
   A phase = (direction, policy, completion order per rank); the communicators (c05_g_cm ifs szs szd) are built once. *)
Record c05_phase_spec := { c05_ph_fwd : bool; c05_ph_add : bool; c05_ph_orders : nat -> list nat }.
Definition c05_ok_data (r : c05_result) (dflt : c05_data) : c05_data := match r with C05_Ok d _ => d | _ => dflt end.
Definition c05_seq_result (ifs : nat -> c05_imap) (szs szd : nat -> nat -> nat) (st : (nat -> c05_data) * (nat -> c05_data))
           (ph : c05_phase_spec) (q : nat) : c05_result :=
  let fwd := c05_ph_fwd ph in
  let gd := if fwd then fst st else snd st in let sd := if fwd then snd st else fst st in
  c05_recv_loop (c05_ph_add ph) fwd (c05_g_cm ifs szs szd q) (fun p => c05_g_msg fwd ifs gd szs szd p q)
                (c05_recvs fwd (c05_g_cm ifs szs szd q)) (c05_ph_orders ph q) (sd q) [].
Definition c05_seq_step (ifs : nat -> c05_imap) (szs szd : nat -> nat -> nat) (st : (nat -> c05_data) * (nat -> c05_data))
           (ph : c05_phase_spec) : (nat -> c05_data) * (nat -> c05_data) :=
  if c05_ph_fwd ph then (fst st, fun q => c05_ok_data (c05_seq_result ifs szs szd st ph q) (snd st q))
  else (fun q => c05_ok_data (c05_seq_result ifs szs szd st ph q) (fst st q), snd st).
Definition c05_seq_run (ifs : nat -> c05_imap) (szs szd : nat -> nat -> nat) (phs : list c05_phase_spec)
           (st : (nat -> c05_data) * (nat -> c05_data)) := fold_left (c05_seq_step ifs szs szd) phs st.
Definition c05_ph_orders_ok (ifs : nat -> c05_imap) (szs szd : nat -> nat -> nat) (ph : c05_phase_spec) : Prop :=
  forall q, Permutation (c05_ph_orders ph q) (map fst (c05_recvs (c05_ph_fwd ph) (c05_g_cm ifs szs szd q))).

(* ------------------------------------------------------------------ buffer layout; interfaces of a raw decomposition *)
Definition c05_iv_send (x : nat * (c05_minfo * c05_minfo)) : nat * nat := (c05_mi_start (fst (snd x)), c05_mi_size (fst (snd x))).
Definition c05_iv_recv (x : nat * (c05_minfo * c05_minfo)) : nat * nat := (c05_mi_start (snd (snd x)), c05_mi_size (snd (snd x))).
Definition c05_layout_ok (ivs : list (nat * nat)) (lo hi : nat) : Prop :=
  StronglySorted (fun a b => fst a + snd a <= fst b) ivs /\
  Forall (fun a => lo <= fst a /\ fst a + snd a <= hi) ivs /\
  list_sum (map snd ivs) = hi - lo.


Definition c05_sorted_decomp (dec : c05_decomp) : c05_decomp := map (fun st => (c05_sort (fst st), c05_sort (snd st))) dec.
Definition c05_dec_ifs (two ign : bool) (src dst : c05_flagset) (dec : c05_decomp) (p : nat) : c05_imap :=
  c05_iface_def src dst (c05_remote_of two ign (c05_sorted_decomp dec) p).


(* ------------------------------------------------------------------ round 6: which communicator an object carries
   Interface::communicator() after a history of operations on an object constructed with communicator comm0 is the
   communicator of the RemoteIndices of the LAST build() (comm0 if there was none); earlier builds, the constructor
   argument, free() and strip() are irrelevant. *)
Fixpoint c05_spec_last_comm (comm0 : c05_mpicomm) (h : list c05_icop) : c05_mpicomm :=
  match h with
  | [] => comm0
  | C05_ICBuild _ _ _ ricomm :: t => c05_spec_last_comm ricomm t
  | _ :: t => c05_spec_last_comm comm0 t
  end.
(* the history with the communicators forgotten (the object of C05_interface_history) *)
Definition c05_icop_forget (op : c05_icop) : c05_iop :=
  match op with C05_ICBuild s d rm _ => C05_IBuild s d rm | C05_ICFree => C05_IFree | C05_ICStrip => C05_IStrip end.
Definition c05_bcop_forget (op : c05_bcop) : c05_bop :=
  match op with C05_BCBuild szs szd i => C05_BBuild szs szd (c05_ic_map i) | C05_BCFree => C05_BFree | C05_BCCommunicate => C05_BCommunicate end.

(* per rank: everything that happened to the Interface and the BufferedCommunicator object of that rank before the
   build() calls that count, and the inputs of those *)
Record c05_rank_hist := {
  c05_rh_comm0 : c05_mpicomm;              (* constructor argument of the Interface *)
  c05_rh_ihist : list c05_icop;            (* earlier life of the Interface object (other remote indices, other communicators) *)
  c05_rh_bhist : list c05_bcop;            (* earlier life of the BufferedCommunicator object *)
  c05_rh_szs : nat -> nat; c05_rh_szd : nat -> nat;
  c05_rh_rm : c05_rmap }.
Definition c05_rh_interface (built : list nat) (src dst : c05_flagset) (r : c05_rank_hist) : c05_icobj :=
  c05_icobj_run (c05_rh_comm0 r) (c05_rh_ihist r ++ [C05_ICFree; C05_ICBuild src dst (c05_rh_rm r) (Some built)]).
Definition c05_rh_communicator (built : list nat) (src dst : c05_flagset) (n : nat) (r : c05_rank_hist) : c05_bcobj :=
  c05_bcobj_run (c05_rh_bhist r ++ C05_BCBuild (c05_rh_szs r) (c05_rh_szd r) (c05_rh_interface built src dst r) :: repeat C05_BCCommunicate n).
