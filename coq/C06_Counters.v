(* C06 — the outstanding-request counters of the progress loops (size_to_send/size_to_recv in communicateSizes,
   no_to_send/no_to_recv in communicateVariableSize): initialised by std::count_if over the request vectors and
   decremented by what checkAndContinue returns.  Theorem: along every execution of a valid variable-size case the
   counters equal the number of non-null requests of the process, so "while(no_to_send+no_to_recv)" ends exactly when
   all requests of the process are null -- the condition the transition system (c06_ready_to_switch, c06_returned) uses. *)
From Coq Require Import List Arith Bool PeanoNat Lia.
From DuneV Require Import C06_Model C06_Spec C06_Proofs.
Import ListNotations.

Definition counters_exact (k : c06_counters) (c : c06_cfg) : Prop :=
  forall p, k p = (c06_count_send p (c_links c), c06_count_recv p (c_links c)).

(* ---- counting lemmas *)
Lemma count_upd : forall (f : c06_link -> bool) j l l' ls, nth_error ls j = Some l ->
  length (filter f (c06_upd j l' ls)) + (if f l then 1 else 0) = length (filter f ls) + (if f l' then 1 else 0).
Proof.
  induction j; intros l l' ls N; destruct ls as [|h t]; simpl in *; try discriminate.
  - inversion N; subst. destruct (f l), (f l'); simpl; lia.
  - specialize (IHj _ l' _ N). destruct (f h); simpl; lia.
Qed.

Lemma count_map_same : forall (f : c06_link -> bool) g ls, (forall l, f (g l) = f l) -> length (filter f (map g ls)) = length (filter f ls).
Proof. induction ls; simpl; intros H; auto. rewrite H. destruct (f a); simpl; rewrite IHls; auto. Qed.

(* a completed send whose tracker is not finished is followed by a new, non-null request *)
Lemma VInv_senddone_posts : forall buf en ri l, c06_link_ok_var buf en ri = true -> VInv buf en ri l ->
  l_sreq l = SDone -> c06_sfin (l_s l) = false -> exists s' m sent, c06_send_setup buf (l_s l) = (s', SPosted m, sent).
Proof.
  intros buf en ri l Ok [Fs I] Sq Sf.
  assert (G : forall (Sync : c06_S -> c06_R -> Prop),
             (forall s r, Sync s r -> c06_sfin s = false -> exists m s', c06_pack buf s = (m, s') /\ m <> [] /\ Sync s' (c06_unpack buf m r)) ->
             (exists r0, Sync (l_s l) r0) -> exists s' m sent, c06_send_setup buf (l_s l) = (s', SPosted m, sent)).
  { intros Sync H2 [r0 Sy]. destruct (H2 _ _ Sy Sf) as [m [s' [P [N _]]]]. unfold c06_send_setup. rewrite P.
    destruct m; [congruence|eauto]. }
  destruct (l_sph l) eqn:Sp, (l_rph l) eqn:Rp.
  - apply (G _ (var_H2 buf (c06_spec_link en ri))). unfold LInv in I. rewrite Sq in I. destruct (l_rreq l); [destruct I|destruct I|]; eauto.
  - destruct I as [[sent E] _]. rewrite Sq in E. unfold c06_send_setup in E. destruct (c06_pack buf _) as [m s1].
    destruct m; inversion E.
  - destruct I as [Sf' _]. congruence.
  - apply (G _ (size_H2 buf en ri)). unfold LInv in I. rewrite Sq in I. destruct (l_rreq l); [destruct I|destruct I|]; eauto.
Qed.

Lemma switch_link_halves : forall buf fx q l,
  l_src (c06_switch_link buf fx q l) = l_src l /\ l_dst (c06_switch_link buf fx q l) = l_dst l /\
  (l_src l <> q -> l_sreq (c06_switch_link buf fx q l) = l_sreq l) /\
  (l_dst l <> q -> l_rreq (c06_switch_link buf fx q l) = l_rreq l).
Proof.
  intros. unfold c06_switch_link.
  set (l1 := if l_src l =? q then match c06_lstep buf fx l LSwitchS with Some x => x | None => l end else l).
  assert (A : l_src l1 = l_src l /\ l_dst l1 = l_dst l /\ (l_src l <> q -> l_sreq l1 = l_sreq l) /\ l_rreq l1 = l_rreq l).
  { unfold l1. destruct (l_src l =? q) eqn:E.
    - apply Nat.eqb_eq in E. destruct (c06_lstep buf fx l LSwitchS) as [x|] eqn:S; [|repeat split; auto].
      destruct l as [src dst s sq sph r rq rph fs snt]. unfold c06_lstep in S; simpl in *.
      destruct sph; try discriminate. destruct sq; try discriminate.
      destruct (c06_send_setup buf (c06_sswitch s)) as [[? ?] ?]. inversion S; subst; simpl. repeat split; auto. intros; congruence.
    - repeat split; auto. }
  destruct A as [A1 [A2 [A3 A4]]]. destruct (l_dst l1 =? q) eqn:E.
  - apply Nat.eqb_eq in E. destruct (c06_lstep buf fx l1 LSwitchR) as [x|] eqn:S.
    + assert (B : l_src x = l_src l1 /\ l_dst x = l_dst l1 /\ l_sreq x = l_sreq l1).
      { destruct l1 as [src dst s sq sph r rq rph fs snt]. unfold c06_lstep in S; simpl in *.
        destruct rph; try discriminate. destruct rq; try discriminate. destruct fs; try discriminate; inversion S; subst; simpl; auto. }
      destruct B as [B1 [B2 B3]]. repeat split; try congruence.
      intros H. rewrite B3. auto.
    + repeat split; auto.
  - repeat split; auto.
Qed.

(* the counters track the number of non-null requests along every step of a valid variable-size execution *)
Lemma P_counters_step : forall buf ds c e c' k, GInvV buf ds c -> c06_gstep c e = Some c' ->
  counters_exact k c -> counters_exact (c06_counters_step c e c' k) c'.
Proof.
  intros buf ds c e c' k [Hb [Hf [F P]]] H K p. destruct e as [j le|q].
  - destruct (gstep_link_inv _ _ _ _ H) as [l [l' [N [E ->]]]]. rewrite Hb, Hf in E. simpl c_links.
    destruct (Forall2_nth _ _ _ _ _ _ _ F N) as [d [Nd [Okd I]]].
    destruct (lstep_ends _ _ _ _ _ E) as [Es Ed].
    pose proof (count_upd (fun l => (l_src l =? p) && c06_snonnull l) j l l' _ N) as Cs.
    pose proof (count_upd (fun l => (l_dst l =? p) && c06_rnonnull l) j l l' _ N) as Cr.
    cbv beta in Cs, Cr. rewrite Es in Cs. rewrite Ed in Cr.
    destruct le.
    + (* Match *) simpl. rewrite (K p). unfold c06_count_send, c06_count_recv.
      destruct l as [src dst s sq sph r rq rph fs snt]. unfold c06_lstep in E; simpl in E.
      destruct sq; try discriminate. destruct rq; try discriminate. inversion E; subst. simpl in *.
      f_equal; [destruct (src =? p)|destruct (dst =? p)]; simpl in *; lia.
    + (* SendDone *) unfold c06_counters_step. rewrite N.
      destruct l as [src dst s sq sph r rq rph fs snt]. unfold c06_lstep in E; simpl in E. destruct sq; try discriminate.
      simpl l_s. destruct (c06_sfin s) eqn:Sf.
      * inversion E; subst. simpl in *. rewrite ?Sf. cbv beta. rewrite Nat.eqb_sym.
        destruct (src =? p) eqn:Q; simpl in *; rewrite (K p); unfold c06_count_send, c06_count_recv; simpl; f_equal; try lia.
        all: destruct (dst =? p); destruct rq; simpl in *; lia.
      * destruct (VInv_senddone_posts _ _ _ _ Okd I eq_refl Sf) as [s' [m [sent Se]]]. simpl in Se. rewrite Se in E. inversion E; subst.
        simpl in *. rewrite ?Sf. rewrite (K p). unfold c06_count_send, c06_count_recv.
        f_equal; [destruct (src =? p)|destruct (dst =? p); destruct rq]; simpl in *; lia.
    + (* RecvDone *) cbn [c06_counters_step c_links]. rewrite (nth_error_upd_same _ _ _ _ _ N).
      destruct l as [src dst s sq sph r rq rph fs snt]. unfold c06_lstep in E; simpl in E. destruct rq; try discriminate.
      inversion E; subst. simpl l_r. simpl l_dst. unfold c06_recv_setup in *. simpl in *.
      destruct (c06_rfin (c06_unpack _ m r)) eqn:Rf; simpl in *.
      * rewrite Nat.eqb_sym. destruct (dst =? p) eqn:Q; simpl in *; rewrite (K p); unfold c06_count_send, c06_count_recv; simpl; f_equal; try lia.
        all: destruct (src =? p); destruct sq; simpl in *; lia.
      * rewrite (K p). unfold c06_count_send, c06_count_recv. f_equal; [destruct (src =? p); destruct sq|destruct (dst =? p)]; simpl in *; lia.
    + simpl in H. discriminate.
    + exfalso. pose proof (VInv_fs _ _ _ _ I) as Fs. simpl in H. rewrite N, Fs in H. discriminate.
    + exfalso. pose proof (VInv_fs _ _ _ _ I) as Fs. unfold c06_lstep in E. rewrite Fs in E. discriminate.
  - simpl in H. destruct (nth_error (c_phase c) q) as [[|]|]; try discriminate.
    destruct (forallb (c06_ready_to_switch q) (c_links c)); [|discriminate]. inversion H; subst. simpl.
    destruct (p =? q) eqn:Q.
    + apply Nat.eqb_eq in Q. subst. reflexivity.
    + apply Nat.eqb_neq in Q. rewrite (K p). unfold c06_count_send, c06_count_recv. f_equal; symmetry; apply count_map_same; intros l;
        destruct (switch_link_halves (c_buf c) (c_fixnew c) q l) as [A [B [C D]]]; rewrite ?A, ?B.
      * destruct (l_src l =? p) eqn:Sp; auto. apply Nat.eqb_eq in Sp. unfold c06_snonnull. rewrite C; auto. congruence.
      * destruct (l_dst l =? p) eqn:Dp; auto. apply Nat.eqb_eq in Dp. unfold c06_rnonnull. rewrite D; auto. congruence.
Qed.

Lemma filter_nil_all : forall (A : Type) (f : A -> bool) ls, (forall l, In l ls -> f l = false) -> filter f ls = [].
Proof. induction ls as [|a t IH]; simpl; intros H; auto. rewrite (H a (or_introl eq_refl)). apply IH. intros l Hl. apply H. right; auto. Qed.

(* hence "while(no_to_send+no_to_recv)" is left exactly when all requests of the process are null *)
Lemma P_counters_zero : forall k c p, counters_exact k c ->
  (fst (k p) + snd (k p) = 0 <->
   forall l, In l (c_links c) -> (l_src l = p -> l_sreq l = SNull) /\ (l_dst l = p -> l_rreq l = RNull)).
Proof.
  intros k c p K. rewrite (K p). simpl. unfold c06_count_send, c06_count_recv. split.
  - intros H l Hl.
    assert (A : filter (fun l => (l_src l =? p) && c06_snonnull l) (c_links c) = []) by (apply length_zero_iff_nil; lia).
    assert (B : filter (fun l => (l_dst l =? p) && c06_rnonnull l) (c_links c) = []) by (apply length_zero_iff_nil; lia).
    split; intros E.
    + destruct (l_sreq l) eqn:Q; auto; exfalso;
        (assert (X : In l (filter (fun l => (l_src l =? p) && c06_snonnull l) (c_links c)))
           by (apply filter_In; split; auto; unfold c06_snonnull; rewrite Q, E, Nat.eqb_refl; reflexivity));
        rewrite A in X; destruct X.
    + destruct (l_rreq l) eqn:Q; auto; exfalso;
        (assert (X : In l (filter (fun l => (l_dst l =? p) && c06_rnonnull l) (c_links c)))
           by (apply filter_In; split; auto; unfold c06_rnonnull; rewrite Q, E, Nat.eqb_refl; reflexivity));
        rewrite B in X; destruct X.
  - intros H.
    assert (A : filter (fun l => (l_src l =? p) && c06_snonnull l) (c_links c) = []).
    { apply filter_nil_all. intros l Hl. destruct (H l Hl) as [Hs _]. destruct (l_src l =? p) eqn:E; simpl; auto.
      apply Nat.eqb_eq in E. unfold c06_snonnull. rewrite (Hs E). reflexivity. }
    assert (B : filter (fun l => (l_dst l =? p) && c06_rnonnull l) (c_links c) = []).
    { apply filter_nil_all. intros l Hl. destruct (H l Hl) as [_ Hr]. destruct (l_dst l =? p) eqn:E; simpl; auto.
      apply Nat.eqb_eq in E. unfold c06_rnonnull. rewrite (Hr E). reflexivity. }
    rewrite A, B. reflexivity.
Qed.

Fixpoint c06_exec_k (c : c06_cfg) (k : c06_counters) (evs : list c06_event) : option (c06_cfg * c06_counters) :=
  match evs with
  | [] => Some (c, k)
  | e :: t => match c06_gstep c e with Some c' => c06_exec_k c' (c06_counters_step c e c' k) t | None => None end
  end.

Lemma P_counters_exec : forall buf ds evs c k c' k', GInvV buf ds c -> counters_exact k c ->
  c06_exec_k c k evs = Some (c', k') -> counters_exact k' c' /\ c06_exec c evs = Some c'.
Proof.
  induction evs as [|e t IH]; simpl; intros c k c' k' I K H.
  - inversion H; subst. auto.
  - destruct (c06_gstep c e) as [c1|] eqn:E; [|discriminate].
    eapply IH; [eapply GInvV_step; eauto|eapply P_counters_step; eauto|exact H].
Qed.

Lemma P_counters_var : forall buf ds np evs c' k',
  Forall (fun d => c06_link_ok_var buf (v_entries d) (v_ridx d) = true /\ v_src d < np /\ v_dst d < np) ds ->
  c06_exec_k (var_cfg buf ds np) (c06_counters_init (var_cfg buf ds np)) evs = Some (c', k') ->
  forall p, fst (k' p) + snd (k' p) = 0 <->
            forall l, In l (c_links c') -> (l_src l = p -> l_sreq l = SNull) /\ (l_dst l = p -> l_rreq l = RNull).
Proof.
  intros buf ds np evs c' k' Ok H p.
  destruct (P_counters_exec buf ds evs _ _ _ _ (GInvV_init buf ds np Ok) (fun q => eq_refl) H) as [K _].
  apply P_counters_zero. exact K.
Qed.

Lemma run_k_S : forall f sched c k, c06_run_k (S f) sched c k =
  match c06_enabled c with
  | [] => (c, true, k)
  | e0 :: es =>
      let n := S (length es) in
      let '(choice, sched') := match sched with [] => (0, []) | x :: t => (x mod n, t) end in
      match c06_gstep c (nth choice (e0 :: es) e0) with
      | Some c' => c06_run_k f sched' c' (c06_counters_step c (nth choice (e0 :: es) e0) c' k)
      | None => (c, false, k)
      end
  end.
Proof. reflexivity. Qed.

Lemma run_k_fst : forall fuel sched c k, fst (c06_run_k fuel sched c k) = c06_run fuel sched c.
Proof.
  induction fuel as [|f IH]; intros sched c k; [reflexivity|]. rewrite run_S, run_k_S.
  destruct (c06_enabled c) as [|e0 es]; [reflexivity|]. destruct sched as [|x t]; cbv zeta beta iota.
  - destruct (c06_gstep c (nth 0 (e0 :: es) e0)); [apply IH|reflexivity].
  - destruct (c06_gstep c (nth (x mod S (length es)) (e0 :: es) e0)); [apply IH|reflexivity].
Qed.

Lemma run_k_exec : forall fuel sched c k, exists evs,
  c06_exec_k c k evs = Some (fst (fst (c06_run_k fuel sched c k)), snd (c06_run_k fuel sched c k)).
Proof.
  induction fuel as [|f IH]; intros sched c k; [exists []; reflexivity|]. rewrite run_k_S.
  destruct (c06_enabled c) as [|e0 es]; [exists []; reflexivity|]. destruct sched as [|x t]; cbv zeta beta iota.
  - destruct (c06_gstep c (nth 0 (e0 :: es) e0)) as [c'|] eqn:G; [|exists []; reflexivity].
    destruct (IH [] c' (c06_counters_step c (nth 0 (e0 :: es) e0) c' k)) as [evs E].
    exists (nth 0 (e0 :: es) e0 :: evs). cbn [c06_exec_k]. rewrite G. exact E.
  - destruct (c06_gstep c (nth (x mod S (length es)) (e0 :: es) e0)) as [c'|] eqn:G; [|exists []; reflexivity].
    destruct (IH t c' (c06_counters_step c (nth (x mod S (length es)) (e0 :: es) e0) c' k)) as [evs E].
    exists (nth (x mod S (length es)) (e0 :: es) e0 :: evs). cbn [c06_exec_k]. rewrite G. exact E.
Qed.

(* at the end of every run of a valid variable-size case all counters are zero: every process leaves its last loop *)
Lemma P_counters_run : forall buf ds np sched,
  Forall (fun d => c06_link_ok_var buf (v_entries d) (v_ridx d) = true /\ v_src d < np /\ v_dst d < np) ds ->
  let c0 := var_cfg buf ds np in
  let k := snd (c06_run_k (c06_case_fuel c0) sched c0 (c06_counters_init c0)) in
  forall p, k p = (0, 0).
Proof.
  intros buf ds np sched Ok c0 k p.
  destruct (run_k_exec (c06_case_fuel c0) sched c0 (c06_counters_init c0)) as [evs E]. fold k in E.
  destruct (P_counters_exec buf ds evs _ _ _ _ (GInvV_init buf ds np Ok) (fun q => eq_refl) E) as [K Ex].
  rewrite run_k_fst in *.
  destruct (P_terminates (c06_case_fuel c0) sched c0 (P_case_fuel c0)) as [St En].
  destruct (P_delivery_var buf ds np evs _ Ok Ex En) as [R _].
  assert (Z : fst (k p) + snd (k p) = 0).
  { apply (P_counters_zero _ _ p K). intros l Hl. unfold c06_returned in R. apply andb_prop in R. destruct R as [R _].
    rewrite forallb_forall in R. specialize (R l Hl). unfold c06_link_quiet in R.
    destruct (l_sreq l); try discriminate. destruct (l_rreq l); try discriminate. auto. }
  destruct (k p) as [a b]. simpl in Z. f_equal; lia.
Qed.
