(* Extraction of the C06 model and oracle for the correspondence check (ExtrOcamlBasic only; nat stays Peano). *)
From Coq Require Import Extraction ExtrOcamlBasic.
From Coq Require Import List Arith NArith.
From DuneV Require Import C06_Model C06_Model_Params C06_Spec.
Extraction Language OCaml.
Extraction "c06_model.ml" c06_init c06_run c06_returned c06_log c06_case_fuel c06_spec_case c06_nonzero c06_enabled
  c06_link_ok_var c06_link_ok_fixed c06_some_positive c06_ctor_buf c06_case_ok_var c06_case_ok_fixed c06_observe
  c06_vsc_ctor c06_vsc_copy c06_vsc_assign c06_channels_separate c06_pack c06_send_setup c06_run_k c06_counters_init c06_vsc_move c06_vsc_swap.
