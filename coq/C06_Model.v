(* C06 — executable model of dune/common/parallel/variablesizecommunicator.hh (definitions only).

   Messages are lists of nat (data items and the size_t sizes of the size pre-exchange alike).
   A *link* is one ordered pair sender p -> receiver q in the chosen direction; it owns the send tracker,
   send buffer and send request of p for q, and the receive tracker, buffer and request of q for p
   (private duplicated communicator, fixed tags: nothing else can match these requests).

   Send trackers are kept as the list of the gathered entries still to be sent (index_ = number already
   consumed); receive trackers as the list of (local index, learned size) pairs still to be scattered.

   c06_fixnew = false : the code as it is in the tree   (receive tracker is NOT advanced over zero-size
                        indices before the first data receive is posted)
   c06_fixnew = true  : the code after fixes/C06-1.patch (skipZeroIndices() before the first post). *)
From Coq Require Import List Arith Bool PeanoNat NArith.
Import ListNotations.

Definition c06_msg := list nat.
Definition c06_call := (nat * nat * list nat)%type.      (* scatter(buffer, index, n): (index, n, the n items read) *)

(* ------------------------------------------------------------------ trackers, pack, unpack *)

(* InterfaceTracker::skipZeroIndices on a tracker that has sizes_ (receive side, variable mode) *)
Fixpoint c06_skip_zero (l : list (nat * nat)) : list (nat * nat) :=
  match l with
  | (_, 0) :: t => c06_skip_zero t
  | _ => l
  end.

(* SetupSendRequest: "while(!tracker.finished() && !handle.size(tracker.index())) tracker.moveToNextIndex();" *)
Fixpoint c06_skip_send_zero (l : list (list nat)) : list (list nat) :=
  match l with
  | [] :: t => c06_skip_send_zero t
  | _ => l
  end.

(* PackEntries, fixed branch: noIndices = min(buffer.size()/fixedSize, indicesLeft()) whole entries *)
Definition c06_pack_fixed (buf fixed : nat) (rem : list (list nat)) : c06_msg * list (list nat) :=
  let n := Nat.min (buf / fixed) (length rem) in
  (concat (firstn n rem), skipn n rem).

(* PackEntries, variable branch: while(!finished) if(hasSpaceForItems(size(index))) gather, move on; else break.
   pos = buffer position (items already written) *)
Fixpoint c06_pack_var (buf pos : nat) (rem : list (list nat)) : c06_msg * list (list nat) :=
  match rem with
  | [] => ([], [])
  | e :: t =>
      if pos + length e <=? buf
      then let (m, l') := c06_pack_var buf (pos + length e) t in (e ++ m, l')
      else ([], rem)
  end.

(* send tracker + what the handle will gather *)
Record c06_S := mkS {
  s_fixed : nat;                      (* tracker.fixedSize; 0 = variable *)
  s_left : list (list nat);           (* gathered entries of the indices not yet packed *)
  s_next : list (list nat)            (* size phase only: the data entries for the data phase *)
}.

(* SetupSendRequest<DataHandle>: buffer.reset(); size = PackEntries(...); skip zero-size; message (nil: no Issend) *)
Definition c06_pack (buf : nat) (s : c06_S) : c06_msg * c06_S :=
  let (m, l) := if s_fixed s =? 0 then c06_pack_var buf 0 (s_left s) else c06_pack_fixed buf (s_fixed s) (s_left s) in
  (m, mkS (s_fixed s) (c06_skip_send_zero l) (s_next s)).

Definition c06_sfin (s : c06_S) : bool := match s_left s with [] => true | _ => false end.

(* receive side *)
Inductive c06_R :=
| RWaitFixed (own : nat) (ridx : list nat)                       (* fixed mode, fixedSize not yet received; own: the value the receive
                                                                    tracker was constructed with in setupInterfaceTrackers (the RECEIVER's
                                                                    handle.size(...)), which MPI_Irecv(&(iter->fixedSize), ...) overwrites *)
| RFix (fixed : nat) (rem : list nat) (log : list c06_call)     (* fixed mode, data *)
| RSz (nleft : nat) (learned : list nat) (ridx : list nat)       (* size phase: SizeDataHandle tracker + sizes_ learned so far *)
| RVar (rem : list (nat * nat)) (log : list c06_call)           (* variable mode, data *)
| RBad (why : nat).                                              (* 1: assert(!tracker.finished()) would fail; 2: fuel *)

(* UnpackEntries, fixed branch: n whole entries of `fixed` items *)
Fixpoint c06_scatter_fixed (fixed n : nat) (b : list nat) (rem : list nat) (log : list c06_call)
  : list nat * list c06_call :=
  match n, rem with
  | S n', i :: t => c06_scatter_fixed fixed n' (skipn fixed b) t (log ++ [(i, fixed, firstn fixed b)])
  | _, _ => (rem, log)
  end.

(* UnpackEntries, variable branch: for(unpacked=0; unpacked<count;) { scatter(index, size); unpacked+=size; moveToNextIndex(); } *)
Fixpoint c06_unpack_var (fuel count unpacked : nat) (b : list nat) (rem : list (nat * nat)) (log : list c06_call)
  : option (option (list (nat * nat) * list c06_call)) :=      (* None: fuel; Some None: assertion; Some (Some _) *)
  if count <=? unpacked then Some (Some (rem, log)) else
  match fuel with
  | 0 => None
  | S f =>
    match rem with
    | [] => Some None
    | (i, sz) :: t => c06_unpack_var f count (unpacked + sz) (skipn sz b) (c06_skip_zero t) (log ++ [(i, sz, firstn sz b)])
    end
  end.

(* buffer_func(handle, tracker, buffer[, count]); tracker.skipZeroIndices();   on a completed receive *)
Definition c06_unpack (buf : nat) (m : c06_msg) (r : c06_R) : c06_R :=
  match r with
  | RFix fixed rem log =>
      let (l, g) := c06_scatter_fixed fixed (Nat.min (buf / fixed) (length rem)) m rem log in RFix fixed l g
  | RSz nleft learned ridx =>                                     (* UnpackSizeEntries: std::copy of noIndices sizes *)
      let n := Nat.min buf nleft in RSz (nleft - n) (learned ++ firstn n m) ridx
  | RVar rem log =>
      match c06_unpack_var (S (length rem)) (length m) 0 m rem log with
      | Some (Some (l, g)) => RVar (c06_skip_zero l) g
      | Some None => RBad 1
      | None => RBad 2
      end
  | RWaitFixed _ _ => RBad 1
  | RBad w => RBad w
  end.

(* tracker.finished() / indicesLeft()==0 of the receive tracker that owns the current main-channel request *)
Definition c06_rfin (r : c06_R) : bool :=
  match r with
  | RWaitFixed _ _ => true
  | RFix _ [] _ => true
  | RSz 0 _ _ => true
  | RVar [] _ => true
  | RBad _ => true
  | _ => false
  end.

(* second phase of the receive side.  v: the fixedSize received on tag 933881 (fixed mode).
   variable mode: the data tracker gets the learned sizes_; with the fix it is advanced over zero sizes first *)
Definition c06_rswitch (fixnew : bool) (v : nat) (r : c06_R) : c06_R :=
  match r with
  | RWaitFixed _ ridx => RFix v ridx []           (* tracker.fixedSize is now what the SENDER announced; the own value is gone *)
  | RSz _ learned ridx => let l := combine ridx learned in RVar (if fixnew then c06_skip_zero l else l) []
  | _ => r
  end.

(* second phase of the send side (variable mode): the data tracker *)
Definition c06_sswitch (s : c06_S) : c06_S := mkS 0 (s_next s) [].

(* ------------------------------------------------------------------ one link *)

Inductive c06_sreq := SNull | SPosted (m : c06_msg) | SDone.      (* MPI_REQUEST_NULL / Issend pending / matched, not yet reported *)
Inductive c06_rreq := RNull | RPosted | RDone (m : c06_msg).      (* MPI_REQUEST_NULL / Irecv pending / filled, not yet reported *)
Inductive c06_fsreq := FsNone | FsPending (v : nat) | FsMatched (v : nat) | FsDone.   (* the fixedSize scalar, tag 933881 *)

Record c06_link := mkL {
  l_src : nat; l_dst : nat;
  l_s : c06_S; l_sreq : c06_sreq; l_sph : bool;       (* sender half; sph: already in its last phase *)
  l_r : c06_R; l_rreq : c06_rreq; l_rph : bool;       (* receiver half *)
  l_fs : c06_fsreq;
  l_sent : list nat                                   (* lengths of the messages sent so far (deep observation) *)
}.

(* comm_func = SetupSendRequest *)
Definition c06_send_setup (buf : nat) (s : c06_S) : c06_S * c06_sreq * list nat :=
  let (m, s') := c06_pack buf s in
  match m with [] => (s', SNull, []) | _ => (s', SPosted m, [length m]) end.

(* comm_func = SetupRecvRequest: if(tracker.indicesLeft()) MPI_Irecv *)
Definition c06_recv_setup (r : c06_R) : c06_rreq := if c06_rfin r then RNull else RPosted.

Inductive c06_levent := LMatch | LSendDone | LRecvDone | LSwitchS | LSwitchR | LFsMatch.

Definition c06_lstep (buf : nat) (fixnew : bool) (l : c06_link) (e : c06_levent) : option c06_link :=
  match e with
  | LMatch =>
      match l_sreq l, l_rreq l with
      | SPosted m, RPosted => Some (mkL (l_src l) (l_dst l) (l_s l) SDone (l_sph l) (l_r l) (RDone m) (l_rph l) (l_fs l) (l_sent l))
      | _, _ => None
      end
  | LSendDone =>      (* checkAndContinue on the send requests: if(!finished) SetupSendRequest *)
      match l_sreq l with
      | SDone =>
          if c06_sfin (l_s l)
          then Some (mkL (l_src l) (l_dst l) (l_s l) SNull (l_sph l) (l_r l) (l_rreq l) (l_rph l) (l_fs l) (l_sent l))
          else let '(s', q, sent) := c06_send_setup buf (l_s l) in
               Some (mkL (l_src l) (l_dst l) s' q (l_sph l) (l_r l) (l_rreq l) (l_rph l) (l_fs l) (l_sent l ++ sent))
      | _ => None
      end
  | LRecvDone =>      (* checkAndContinue on the receive requests: unpack; skipZeroIndices; if(!finished) SetupRecvRequest *)
      match l_rreq l with
      | RDone m =>
          let r' := c06_unpack buf m (l_r l) in
          Some (mkL (l_src l) (l_dst l) (l_s l) (l_sreq l) (l_sph l) r' (c06_recv_setup r') (l_rph l) (l_fs l) (l_sent l))
      | _ => None
      end
  | LSwitchS =>       (* variable mode: the sending process leaves communicateSizes and sets up the data sends *)
      match l_sph l, l_sreq l with
      | false, SNull =>
          let '(s', q, sent) := c06_send_setup buf (c06_sswitch (l_s l)) in
          Some (mkL (l_src l) (l_dst l) s' q true (l_r l) (l_rreq l) (l_rph l) (l_fs l) (l_sent l ++ sent))
      | _, _ => None
      end
  | LSwitchR =>       (* variable mode: the receiving process sets up the data receives;
                         fixed mode: the fixedSize scalar is reported and the first data receive is set up *)
      match l_rph l, l_rreq l with
      | false, RNull =>
          match l_fs l with
          | FsPending _ => None
          | FsMatched v =>
              let r' := c06_rswitch fixnew v (l_r l) in
              Some (mkL (l_src l) (l_dst l) (l_s l) (l_sreq l) (l_sph l) r' (c06_recv_setup r') true FsDone (l_sent l))
          | _ =>
              let r' := c06_rswitch fixnew 0 (l_r l) in
              Some (mkL (l_src l) (l_dst l) (l_s l) (l_sreq l) (l_sph l) r' (c06_recv_setup r') true (l_fs l) (l_sent l))
          end
      | _, _ => None
      end
  | LFsMatch =>
      match l_fs l with
      | FsPending v => Some (mkL (l_src l) (l_dst l) (l_s l) (l_sreq l) (l_sph l) (l_r l) (l_rreq l) (l_rph l) (FsMatched v) (l_sent l))
      | _ => None
      end
  end.

(* initial link states.  entries: what gather produces for the k-th send index; ridx: the receive index list *)
Definition c06_link_init_fixed (buf src dst fixed own : nat) (entries : list (list nat)) (ridx : list nat) : c06_link :=
  (* fixed: tracker.fixedSize of the SEND tracker of src for dst (announced on tag 933881);
     own:   tracker.fixedSize the RECEIVE tracker of dst for src starts with (dst's own value) *)
  let '(s', q, sent) := c06_send_setup buf (mkS fixed entries []) in
  mkL src dst s' q true (RWaitFixed own ridx) RNull false (FsPending fixed) sent.

Definition c06_link_init_var (buf src dst : nat) (entries : list (list nat)) (ridx : list nat) : c06_link :=
  (* communicateSizes: SizeDataHandle has fixed size 1 and gathers handle.size(i) *)
  let '(s', q, sent) := c06_send_setup buf (mkS 1 (map (fun e => [length e]) entries) entries) in
  let r := RSz (length ridx) [] ridx in
  mkL src dst s' q false r (c06_recv_setup r) false FsNone sent.

(* ------------------------------------------------------------------ the global system *)

Record c06_cfg := mkC {
  c_buf : nat; c_fixnew : bool;
  c_links : list c06_link;
  c_phase : list bool                 (* per process: has rem communicateSizes (variable mode); fixed mode: all true *)
}.

Inductive c06_event :=
| GLink (k : nat) (e : c06_levent)    (* e in {LMatch, LSendDone, LRecvDone, LFsMatch}; LSwitchR only for the fixed-size scalar *)
| GSwitch (p : nat).                  (* process p: size loop finished -> set up data sends and receives *)

Fixpoint c06_upd {A} (k : nat) (x : A) (l : list A) : list A :=
  match l, k with
  | [], _ => []
  | _ :: t, 0 => x :: t
  | h :: t, S k' => h :: c06_upd k' x t
  end.

Definition c06_ready_to_switch (p : nat) (l : c06_link) : bool :=
  (if l_src l =? p then (negb (l_sph l) && match l_sreq l with SNull => true | _ => false end) else true) &&
  (if l_dst l =? p then (negb (l_rph l) && match l_rreq l with RNull => true | _ => false end) else true).

Definition c06_switch_link (buf : nat) (fixnew : bool) (p : nat) (l : c06_link) : c06_link :=
  let l1 := if l_src l =? p then match c06_lstep buf fixnew l LSwitchS with Some x => x | None => l end else l in
  if l_dst l1 =? p then match c06_lstep buf fixnew l1 LSwitchR with Some x => x | None => l1 end else l1.

Definition c06_gstep (c : c06_cfg) (e : c06_event) : option c06_cfg :=
  match e with
  | GLink k LSwitchS => None
  | GLink k le =>
      match nth_error (c_links c) k with
      | None => None
      | Some l =>
          (* LSwitchR as a link event is the report of the fixedSize scalar only *)
          match le, l_fs l with
          | LSwitchR, FsMatched _ | LMatch, _ | LSendDone, _ | LRecvDone, _ | LFsMatch, _ =>
              match c06_lstep (c_buf c) (c_fixnew c) l le with
              | Some l' => Some (mkC (c_buf c) (c_fixnew c) (c06_upd k l' (c_links c)) (c_phase c))
              | None => None
              end
          | _, _ => None
          end
      end
  | GSwitch p =>
      match nth_error (c_phase c) p with
      | Some false =>
          if forallb (c06_ready_to_switch p) (c_links c)
          then Some (mkC (c_buf c) (c_fixnew c) (map (c06_switch_link (c_buf c) (c_fixnew c) p) (c_links c)) (c06_upd p true (c_phase c)))
          else None
      | _ => None
      end
  end.

Definition c06_levents := [LMatch; LSendDone; LRecvDone; LSwitchR; LFsMatch].

Definition c06_all_events (c : c06_cfg) : list c06_event :=
  flat_map (fun k => map (GLink k) c06_levents) (seq 0 (length (c_links c))) ++ map GSwitch (seq 0 (length (c_phase c))).

Definition c06_enabled (c : c06_cfg) : list c06_event :=
  filter (fun e => match c06_gstep c e with Some _ => true | None => false end) (c06_all_events c).

(* run under a schedule: sched supplies the choice among the enabled events (index taken modulo their number;
   an exhausted schedule chooses the first).  Stops when nothing is enabled or fuel runs out. *)
Fixpoint c06_run (fuel : nat) (sched : list nat) (c : c06_cfg) : c06_cfg * bool (* true: stopped because nothing enabled *) :=
  match fuel with
  | 0 => (c, false)
  | S f =>
      match c06_enabled c with
      | [] => (c, true)
      | e0 :: es =>
          let n := S (length es) in
          let '(choice, sched') := match sched with [] => (0, []) | x :: t => (x mod n, t) end in
          match c06_gstep c (nth choice (e0 :: es) e0) with
          | Some c' => c06_run f sched' c'
          | None => (c, false)
          end
      end
  end.

(* every process has returned from forward()/backward(): all requests null, all halves in the last phase,
   no fixedSize scalar outstanding (MPI_Waitall on size_send_req, no_size_to_recv == 0) *)
Definition c06_link_quiet (l : c06_link) : bool :=
  match l_sreq l, l_rreq l, l_fs l with
  | SNull, RNull, (FsNone | FsDone) => l_sph l && l_rph l
  | _, _, _ => false
  end.

Definition c06_returned (c : c06_cfg) : bool := forallb c06_link_quiet (c_links c) && forallb (fun b => b) (c_phase c).

Definition c06_log (l : c06_link) : list c06_call :=
  match l_r l with RFix _ _ g => g | RVar _ g => g | _ => [] end.

(* fuel that suffices for every schedule (see C06_Proofs: each event decreases a measure bounded by this) *)
Definition c06_link_fuel (entries : list (list nat)) : nat := 8 * (2 * length entries + 4).

(* ------------------------------------------------------------------ building the initial configuration of a case *)

(* one entry of a rank's interface map: rank p, neighbour q, (first, second) index lists *)
Record c06_entry := mkE { e_p : nat; e_q : nat; e_first : list nat; e_second : list nat }.

Definition c06_send_list (backward : bool) (e : c06_entry) := if backward then e_second e else e_first e.
Definition c06_recv_list (backward : bool) (e : c06_entry) := if backward then e_first e else e_second e.

Fixpoint c06_find_entry (p q : nat) (es : list c06_entry) : option c06_entry :=
  match es with
  | [] => None
  | e :: t => if (e_p e =? p) && (e_q e =? q) then Some e else c06_find_entry p q t
  end.

(* what the recording handle of rank p gathers for local index i when it reports n items there:
   tagged items (rank, index, k) coded as ((p*ni + i)*w + k mod w) *)
Fixpoint c06_gather_from (base w cur n : nat) : list nat :=
  match n with
  | 0 => []
  | S n' => (base + cur) :: c06_gather_from base w (if S cur =? w then 0 else S cur) n'
  end.
(* item k of the entry is coded base + (k mod w): for entries of at most w items this is the injective coding
   (p*ni+i)*w + k; longer entries (the cases with an index larger than the default buffer) repeat with period w, which
   keeps the numbers small -- the driver renders item k of a call by its position *)
Definition c06_gather (ni w p i n : nat) : list nat := c06_gather_from ((p * ni + i) * w) w 0 n.

Definition c06_size_of (sizes : list (list nat)) (p i : nat) : nat := nth i (nth p sizes []) 0.

(* setupInterfaceTrackers, fixed handle: fixedsize starts at 1 and is overwritten by handle.size(send[0]) of every
   non-empty send list met so far in map order (it is an int carried across the loop) *)
Fixpoint c06_fixed_sizes (backward : bool) (sizes : list (list nat)) (cur : nat) (mine : list c06_entry) : list nat :=
  match mine with
  | [] => []
  | e :: t =>
      let cur' := match c06_send_list backward e with i :: _ => c06_size_of sizes (e_p e) i | [] => cur end in
      cur' :: c06_fixed_sizes backward sizes cur' t
  end.

(* entries of rank p in map (key) order; the case lists them in that order *)
Definition c06_entries_of (p : nat) (es : list c06_entry) : list c06_entry := filter (fun e => e_p e =? p) es.

(* the fixedsize rank q's setupInterfaceTrackers hands to BOTH trackers of its map entry for neighbour p (send and receive
   tracker get the same value): the receive tracker of q for p starts with it.  0: q has no such entry *)
Fixpoint c06_lookup_fixed (p : nat) (l : list (c06_entry * nat)) : nat :=
  match l with
  | [] => 0
  | (e, f) :: t => if e_q e =? p then f else c06_lookup_fixed p t
  end.
Definition c06_own_fixed (backward : bool) (sizes : list (list nat)) (es : list c06_entry) (q p : nat) : nat :=
  let mine := c06_entries_of q es in c06_lookup_fixed p (combine mine (c06_fixed_sizes backward sizes 1 mine)).

Definition c06_links_of_rank (variable backward : bool) (buf ni w : nat) (sizes : list (list nat)) (es : list c06_entry) (p : nat)
  : list (option c06_link) :=
  let mine := c06_entries_of p es in
  let fx := c06_fixed_sizes backward sizes 1 mine in
  map (fun ef : c06_entry * nat =>
         let (e, f) := ef in
         match c06_find_entry (e_q e) p es with
         | None => None
         | Some e' =>
             let sidx := c06_send_list backward e in
             let ridx := c06_recv_list backward e' in
             let entries := map (fun i => c06_gather ni w p i (c06_size_of sizes p i)) sidx in
             if variable then Some (c06_link_init_var buf p (e_q e) entries ridx)
             else Some (c06_link_init_fixed buf p (e_q e) f (c06_own_fixed backward sizes es (e_q e) p) entries ridx)
         end) (combine mine fx).

Fixpoint c06_all_some {A} (l : list (option A)) : option (list A) :=
  match l with
  | [] => Some []
  | None :: _ => None
  | Some x :: t => match c06_all_some t with Some r => Some (x :: r) | None => None end
  end.

(* None: the interface maps are not symmetric (precondition of the property) *)
Definition c06_init (variable backward fixnew : bool) (buf ni w np : nat) (sizes : list (list nat)) (es : list c06_entry)
  : option c06_cfg :=
  match c06_all_some (flat_map (c06_links_of_rank variable backward buf ni w sizes es) (seq 0 np)) with
  | None => None
  | Some ls => Some (mkC buf fixnew ls (repeat (negb variable) np))
  end.

Definition c06_case_fuel (c : c06_cfg) : nat :=
  fold_right (fun l acc => 8 * (2 * (length (s_left (l_s l)) + length (s_next (l_s l))) + 6) + acc) (2 * length (c_phase c) + 8) (c_links c).

(* ------------------------------------------------------------------ the constructors *)
(* maxBufferSize_ as set by the constructor used: explicit max_buffer_size argument (constructors from
   (MPI_Comm, map, size) and (Interface, size)), else the macro DUNE_PARALLEL_MAX_COMMUNICATION_BUFFER_SIZE if the
   translation unit defines it, else the literal default re-read from the source.  Copy construction and copy
   assignment copy maxBufferSize_ and the interface pointer and duplicate the communicator: same configuration. *)
Definition c06_ctor_buf_d (dflt : nat) (explicit macro : option nat) : nat :=      (* dflt: see C06_Model_Params.v *)
  match explicit with
  | Some b => b
  | None => match macro with Some m => m | None => dflt end
  end.

(* ------------------------------------------------------------------ the communicator object and its special members *)
(* what a VariableSizeCommunicator holds: maxBufferSize_, the pointer to the interface map (an identity, not a copy)
   and its own duplicate of the MPI communicator (every MPI_Comm_dup yields a context no other object has: `fresh`) *)
Record c06_vsc := mkVSC { vsc_buf : nat; vsc_iface : nat; vsc_comm : nat }.

(* the six constructors: (comm|Interface) x (no size | macro | explicit size) *)
Definition c06_vsc_ctor_d (dflt : nat) (explicit macro : option nat) (iface fresh : nat) : c06_vsc :=
  mkVSC (c06_ctor_buf_d dflt explicit macro) iface fresh.

(* VariableSizeCommunicator(const VariableSizeCommunicator& other) *)
Definition c06_vsc_copy (other : c06_vsc) (fresh : nat) : c06_vsc := mkVSC (vsc_buf other) (vsc_iface other) fresh.

(* operator=: "if(this == &other) return *this;" else copy the two members, free the own communicator, dup the other's *)
Definition c06_vsc_assign (this other : c06_vsc) (same_object : bool) (fresh : nat) : c06_vsc :=
  if same_object then this else mkVSC (vsc_buf other) (vsc_iface other) fresh.

(* the two point-to-point channels of a link are told apart by their tags *)
Definition c06_channels_separate_t (tag_size tag_data tag_size_recv tag_data_recv : N) : bool :=
  negb (N.eqb tag_size tag_data) && N.eqb tag_size tag_size_recv && N.eqb tag_data tag_data_recv.

(* ------------------------------------------------------------------ the outstanding-request counters of the progress loops
   (size_to_send/size_to_recv in communicateSizes, no_to_send/no_to_recv in communicateVariableSize) *)
Definition c06_snonnull (l : c06_link) : bool := match l_sreq l with SNull => false | _ => true end.
Definition c06_rnonnull (l : c06_link) : bool := match l_rreq l with RNull => false | _ => true end.

(* std::count_if(send_requests.begin(), send_requests.end(), req != MPI_REQUEST_NULL) of process p *)
Definition c06_count_send (p : nat) (ls : list c06_link) : nat := length (filter (fun l => (l_src l =? p) && c06_snonnull l) ls).
Definition c06_count_recv (p : nat) (ls : list c06_link) : nat := length (filter (fun l => (l_dst l =? p) && c06_rnonnull l) ls).

Definition c06_counters := nat -> nat * nat.       (* process -> (no_to_send, no_to_recv) *)

(* counter -= checkAndContinue(...): a completed request counts as finished iff its tracker is finished (send: before
   repacking; receive: after unpacking and skipZeroIndices); entering the next loop recounts *)
Definition c06_counters_step (c : c06_cfg) (e : c06_event) (c' : c06_cfg) (k : c06_counters) : c06_counters :=
  match e with
  | GLink j LSendDone =>
      match nth_error (c_links c) j with
      | Some l => if c06_sfin (l_s l) then fun p => if p =? l_src l then (fst (k p) - 1, snd (k p)) else k p else k
      | None => k
      end
  | GLink j LRecvDone =>
      match nth_error (c_links c') j with
      | Some l' => if c06_rfin (l_r l') then fun p => if p =? l_dst l' then (fst (k p), snd (k p) - 1) else k p else k
      | None => k
      end
  | GSwitch q => fun p => if p =? q then (c06_count_send q (c_links c'), c06_count_recv q (c_links c')) else k p
  | _ => k
  end.


(* the whole execution: counters initialised by count_if when the size loop starts, updated by the loop arithmetic *)
Definition c06_counters_init (c : c06_cfg) : c06_counters := fun p => (c06_count_send p (c_links c), c06_count_recv p (c_links c)).


(* the runner with the counters carried along (what the driver executes) *)
Fixpoint c06_run_k (fuel : nat) (sched : list nat) (c : c06_cfg) (k : c06_counters) : c06_cfg * bool * c06_counters :=
  match fuel with
  | 0 => (c, false, k)
  | S f =>
      match c06_enabled c with
      | [] => (c, true, k)
      | e0 :: es =>
          let n := S (length es) in
          let '(choice, sched') := match sched with [] => (0, []) | x :: t => (x mod n, t) end in
          match c06_gstep c (nth choice (e0 :: es) e0) with
          | Some c' => c06_run_k f sched' c' (c06_counters_step c (nth choice (e0 :: es) e0) c' k)
          | None => (c, false, k)
          end
      end
  end.


(* construction from an rvalue: the class declares a copy constructor, a copy assignment and a destructor and therefore has
   no implicit move members -- `VariableSizeCommunicator m(std::move(o))` is the copy constructor *)
Definition c06_vsc_move (other : c06_vsc) (fresh : nat) : c06_vsc := c06_vsc_copy other fresh.

(* std::swap(a, b) = { T tmp(std::move(a)); a = std::move(b); b = std::move(tmp); } with the members above; returns (a, b) *)
Definition c06_vsc_swap (a b : c06_vsc) (f1 f2 f3 : nat) : c06_vsc * c06_vsc :=
  let tmp := c06_vsc_move a f1 in
  let a' := c06_vsc_assign a b false f2 in
  let b' := c06_vsc_assign b tmp false f3 in
  (a', b').
