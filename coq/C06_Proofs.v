(* C06 — lemmas and proofs. *)
From Coq Require Import List Arith Bool PeanoNat Lia.
From DuneV Require Import C06_Model C06_Spec.
Import ListNotations.

(* ------------------------------------------------------------------ F-C06-1: the witness *)
(* one link 0 -> 1, variable-size handle, three indices of size 0, buffer of 4 items *)
Definition c06_witness_cfg (fixnew : bool) : c06_cfg :=
  mkC 4 fixnew [c06_link_init_var 4 0 1 [[]; []; []] [0; 1; 2]] [false; false].

Lemma P_progress_refuted :
  exists c, fst (c06_run 100 [] (c06_witness_cfg false)) = c /\
            c06_enabled c = [] /\ c06_returned c = false /\
            (exists l, c_links c = [l] /\ l_rreq l = RPosted /\ l_sreq l = SNull).
Proof. eexists. split; [vm_compute; reflexivity|]. vm_compute. repeat split. eexists. repeat split. Qed.

Lemma P_witness_fixed_code_returns :
  let c := fst (c06_run 100 [] (c06_witness_cfg true)) in c06_enabled c = [] /\ c06_returned c = true.
Proof. vm_compute. split; reflexivity. Qed.

(* ------------------------------------------------------------------ termination: every event decreases a measure *)

Definition mu_s (q : c06_sreq) : nat := match q with SNull => 0 | SPosted _ => 3 | SDone => 1 end.
Definition mu_r (q : c06_rreq) : nat := match q with RNull => 0 | RPosted => 0 | RDone _ => 1 end.
Definition mu_fs (q : c06_fsreq) : nat := match q with FsPending _ => 2 | FsMatched _ => 1 | _ => 0 end.

Definition c06_mu (l : c06_link) : nat :=
  4 * (length (s_left (l_s l)) + length (s_next (l_s l))) + mu_s (l_sreq l) + mu_r (l_rreq l)
  + (if l_sph l then 0 else 5) + (if l_rph l then 0 else 3) + mu_fs (l_fs l).

Lemma skip_send_zero_len : forall l, length (c06_skip_send_zero l) <= length l.
Proof. induction l as [|e t IH]; simpl; auto. destruct e; simpl; lia. Qed.

Lemma pack_var_len : forall buf l pos m l', c06_pack_var buf pos l = (m, l') ->
  length l' <= length l /\ (m <> [] -> length l' < length l).
Proof.
  induction l as [|e t IH]; simpl; intros pos m l' H.
  - inversion H; subst. simpl. split; [lia|congruence].
  - destruct (pos + length e <=? buf).
    + destruct (c06_pack_var buf (pos + length e) t) as [m1 l1] eqn:E. inversion H; subst.
      destruct (IH _ _ _ E) as [A B]. split; simpl; lia.
    + inversion H; subst. simpl. split; [lia|congruence].
Qed.

Lemma pack_fixed_len : forall buf f l m l', c06_pack_fixed buf f l = (m, l') ->
  length l' <= length l /\ (m <> [] -> length l' < length l).
Proof.
  unfold c06_pack_fixed. intros buf f l m l' H. inversion H; subst. rewrite skipn_length. split; [lia|].
  intros Hm. destruct (Nat.min (buf / f) (length l)) eqn:E; [simpl in Hm; congruence|].
  assert (S n <= length l) by lia. lia.
Qed.

Lemma pack_len : forall buf s m s', c06_pack buf s = (m, s') ->
  s_next s' = s_next s /\ length (s_left s') <= length (s_left s) /\ (m <> [] -> length (s_left s') < length (s_left s)).
Proof.
  unfold c06_pack. intros buf s m s' H.
  destruct (s_fixed s =? 0).
  - destruct (c06_pack_var buf 0 (s_left s)) as [m1 l1] eqn:E. inversion H; subst. simpl.
    destruct (pack_var_len _ _ _ _ _ E) as [A B]. pose proof (skip_send_zero_len l1). repeat split; try lia. intros Hm; specialize (B Hm); lia.
  - destruct (c06_pack_fixed buf (s_fixed s) (s_left s)) as [m1 l1] eqn:E. inversion H; subst. simpl.
    destruct (pack_fixed_len _ _ _ _ _ E) as [A B]. pose proof (skip_send_zero_len l1). repeat split; try lia. intros Hm; specialize (B Hm); lia.
Qed.

Lemma send_setup_mu : forall buf s s' q sent, c06_send_setup buf s = (s', q, sent) ->
  s_next s' = s_next s /\ 4 * length (s_left s') + mu_s q <= 4 * length (s_left s).
Proof.
  unfold c06_send_setup. intros buf s s' q sent H. destruct (c06_pack buf s) as [m s1] eqn:E.
  destruct (pack_len _ _ _ _ E) as [A [B C]].
  destruct m; inversion H; subst; simpl; split; auto; try lia.
  assert (n :: m <> []) by congruence. specialize (C H0). lia.
Qed.

Lemma P_link_event_decreases : forall buf fixnew l e l', c06_lstep buf fixnew l e = Some l' -> c06_mu l' < c06_mu l.
Proof.
  intros buf fixnew l e l' H. destruct l as [src dst s sq sph r rq rph fs sent]. unfold c06_lstep in H; simpl in H.
  destruct e.
  - destruct sq; try discriminate. destruct rq; try discriminate. inversion H; subst. unfold c06_mu; simpl. lia.
  - destruct sq; try discriminate. destruct (c06_sfin s) eqn:F.
    + inversion H; subst. unfold c06_mu; simpl. lia.
    + destruct (c06_send_setup buf s) as [[s1 q1] sent1] eqn:E. inversion H; subst.
      destruct (send_setup_mu _ _ _ _ _ E) as [A B]. unfold c06_mu; simpl. rewrite A.
      lia.
  - destruct rq; try discriminate. inversion H; subst. unfold c06_mu, c06_recv_setup; simpl.
    destruct (c06_rfin (c06_unpack buf m r)); simpl; lia.
  - destruct sph; try discriminate. destruct sq; try discriminate.
    destruct (c06_send_setup buf (c06_sswitch s)) as [[s1 q1] sent1] eqn:E. inversion H; subst.
    destruct (send_setup_mu _ _ _ _ _ E) as [A B]. unfold c06_mu; simpl. rewrite A. unfold c06_sswitch in *; simpl in *. lia.
  - destruct rph; try discriminate. destruct rq; try discriminate.
    destruct fs; try discriminate; inversion H; subst; unfold c06_mu, c06_recv_setup; simpl;
      match goal with |- context [c06_rfin ?x] => destruct (c06_rfin x) end; simpl; lia.
  - destruct fs; try discriminate. inversion H; subst. unfold c06_mu; simpl. lia.
Qed.

Definition c06_pending (ph : list bool) : nat := length (filter negb ph).
Definition c06_gmu (c : c06_cfg) : nat := list_sum (map c06_mu (c_links c)) + c06_pending (c_phase c).

Lemma sum_upd : forall (A : Type) (f : A -> nat) l k x y, nth_error l k = Some x ->
  list_sum (map f (c06_upd k y l)) + f x = list_sum (map f l) + f y.
Proof.
  induction l as [|h t IH]; intros k x y H; destruct k; simpl in *; try discriminate.
  - inversion H; subst. lia.
  - specialize (IH _ _ y H). lia.
Qed.

Lemma pending_upd : forall ph p, nth_error ph p = Some false -> S (c06_pending (c06_upd p true ph)) = c06_pending ph.
Proof.
  unfold c06_pending. induction ph as [|h t IH]; intros p H; destruct p; simpl in *; try discriminate.
  - inversion H; subst. simpl. reflexivity.
  - specialize (IH _ H). destruct h; simpl; lia.
Qed.

Lemma switch_link_mu : forall buf fixnew p l, c06_mu (c06_switch_link buf fixnew p l) <= c06_mu l.
Proof.
  intros. unfold c06_switch_link.
  set (l1 := if l_src l =? p then match c06_lstep buf fixnew l LSwitchS with Some x => x | None => l end else l).
  assert (A : c06_mu l1 <= c06_mu l).
  { unfold l1. destruct (l_src l =? p); [|lia]. destruct (c06_lstep buf fixnew l LSwitchS) eqn:E; [|lia].
    apply P_link_event_decreases in E. lia. }
  destruct (l_dst l1 =? p); [|lia]. destruct (c06_lstep buf fixnew l1 LSwitchR) eqn:E; [|lia].
  apply P_link_event_decreases in E. lia.
Qed.

Lemma sum_map_le : forall (A : Type) (f : A -> nat) (g : A -> A) l, (forall x, f (g x) <= f x) ->
  list_sum (map f (map g l)) <= list_sum (map f l).
Proof. induction l; simpl; intros; auto. specialize (H a) as Ha. specialize (IHl H). lia. Qed.

Lemma P_event_decreases : forall c e c', c06_gstep c e = Some c' -> c06_gmu c' < c06_gmu c.
Proof.
  intros c e c' H. destruct e as [k le|p]; simpl in H.
  - assert (G : exists l l', nth_error (c_links c) k = Some l /\ c06_lstep (c_buf c) (c_fixnew c) l le = Some l' /\
                             c' = mkC (c_buf c) (c_fixnew c) (c06_upd k l' (c_links c)) (c_phase c)).
    { destruct (nth_error (c_links c) k) as [l|] eqn:N; [|destruct le; discriminate].
      destruct le; try discriminate.
      - destruct (c06_lstep (c_buf c) (c_fixnew c) l LMatch) as [l'|] eqn:E; [|discriminate]. inversion H; subst; eauto.
      - destruct (c06_lstep (c_buf c) (c_fixnew c) l LSendDone) as [l'|] eqn:E; [|discriminate]. inversion H; subst; eauto.
      - destruct (c06_lstep (c_buf c) (c_fixnew c) l LRecvDone) as [l'|] eqn:E; [|discriminate]. inversion H; subst; eauto.
      - destruct (l_fs l); try discriminate.
        destruct (c06_lstep (c_buf c) (c_fixnew c) l LSwitchR) as [l'|] eqn:E; [|discriminate]. inversion H; subst; eauto.
      - destruct (c06_lstep (c_buf c) (c_fixnew c) l LFsMatch) as [l'|] eqn:E; [|discriminate]. inversion H; subst; eauto. }
    destruct G as [l [l' [N [E C]]]]. subst c'. unfold c06_gmu; simpl.
    pose proof (sum_upd _ c06_mu _ _ _ l' N). apply P_link_event_decreases in E. lia.
  - destruct (nth_error (c_phase c) p) as [[|]|] eqn:N; try discriminate.
    destruct (forallb (c06_ready_to_switch p) (c_links c)); try discriminate. inversion H; subst. unfold c06_gmu; simpl.
    pose proof (pending_upd _ _ N).
    pose proof (sum_map_le _ c06_mu (c06_switch_link (c_buf c) (c_fixnew c) p) (c_links c) (switch_link_mu _ _ _)). lia.
Qed.

Lemma enabled_sound : forall c e, In e (c06_enabled c) -> exists c', c06_gstep c e = Some c'.
Proof.
  unfold c06_enabled. intros c e H. apply filter_In in H. destruct H as [_ H].
  destruct (c06_gstep c e); [eauto|discriminate].
Qed.

Lemma run_S : forall f sched c, c06_run (S f) sched c =
  match c06_enabled c with
  | [] => (c, true)
  | e0 :: es =>
      let n := S (length es) in
      let '(choice, sched') := match sched with [] => (0, []) | x :: t => (x mod n, t) end in
      match c06_gstep c (nth choice (e0 :: es) e0) with
      | Some c' => c06_run f sched' c'
      | None => (c, false)
      end
  end.
Proof. reflexivity. Qed.

(* every schedule terminates: with fuel above the measure the run stops because no event is enabled *)
Lemma P_terminates : forall fuel sched c, c06_gmu c < fuel ->
  let r := c06_run fuel sched c in snd r = true /\ c06_enabled (fst r) = [].
Proof.
  induction fuel as [|f IH]; intros sched c Hm; [lia|]. cbv zeta. rewrite run_S.
  destruct (c06_enabled c) as [|e0 es] eqn:En; [simpl; auto|].
  assert (Hall : forall choice sched', match c06_gstep c (nth choice (e0 :: es) e0) with
                                       | Some c' => snd (c06_run f sched' c') = true /\ c06_enabled (fst (c06_run f sched' c')) = []
                                       | None => False end).
  { intros choice sched'.
    assert (Hin : In (nth choice (e0 :: es) e0) (c06_enabled c)).
    { rewrite En. destruct (Nat.lt_ge_cases choice (length (e0 :: es))) as [Hl|Hl].
      - apply nth_In; auto.
      - rewrite nth_overflow by auto. left; auto. }
    destruct (enabled_sound _ _ Hin) as [c' Hs]. rewrite Hs.
    apply IH. apply P_event_decreases in Hs. lia. }
  destruct sched as [|x t].
  - specialize (Hall 0 []). cbv zeta beta iota. destruct (c06_gstep c (nth 0 (e0 :: es) e0)); [exact Hall|contradiction].
  - specialize (Hall (x mod S (length es)) t). cbv zeta beta iota.
    destruct (c06_gstep c (nth (x mod S (length es)) (e0 :: es) e0)); [exact Hall|contradiction].
Qed.

(* and a schedule can be as long and as adversarial as it likes: the number of events it can fire is bounded *)
Fixpoint c06_exec (c : c06_cfg) (evs : list c06_event) : option c06_cfg :=
  match evs with
  | [] => Some c
  | e :: t => match c06_gstep c e with Some c' => c06_exec c' t | None => None end
  end.

Lemma P_exec_bounded : forall evs c c', c06_exec c evs = Some c' -> length evs + c06_gmu c' <= c06_gmu c.
Proof.
  induction evs as [|e t IH]; simpl; intros c c' H.
  - inversion H; subst; lia.
  - destruct (c06_gstep c e) as [c1|] eqn:E; [|discriminate]. apply P_event_decreases in E. specialize (IH _ _ H). lia.
Qed.

Lemma mu_bound : forall l, c06_mu l <= 4 * (length (s_left (l_s l)) + length (s_next (l_s l))) + 14.
Proof.
  intros l. unfold c06_mu. destruct (l_sreq l), (l_rreq l), (l_sph l), (l_rph l), (l_fs l); simpl; lia.
Qed.

Lemma filter_len : forall (A : Type) (f : A -> bool) l, length (filter f l) <= length l.
Proof. induction l; simpl; auto. destruct (f a); simpl; lia. Qed.

(* the fuel the driver uses exceeds the measure of every configuration *)
Lemma P_case_fuel : forall c, c06_gmu c < c06_case_fuel c.
Proof.
  intros c. unfold c06_gmu, c06_case_fuel, c06_pending. pose proof (filter_len _ negb (c_phase c)).
  assert (forall ls k, list_sum (map c06_mu ls) + k <=
     fold_right (fun l acc => 8 * (2 * (length (s_left (l_s l)) + length (s_next (l_s l))) + 6) + acc) k ls).
  { unfold list_sum. induction ls as [|l t IH]; intros k; cbn [map fold_right]; [lia|]. specialize (IH k). pose proof (mu_bound l). lia. }
  specialize (H0 (c_links c) (2 * length (c_phase c) + 8)). lia.
Qed.

(* ------------------------------------------------------------------ one phase of one link, all schedules *)
(* Sync s r: "send tracker s and receive tracker r are at the same place of the index list, and what r has
   scattered so far plus what s still has to send is what the spec demands".  The three phases (fixed-size
   data, size exchange, variable-size data) instantiate it below. *)
Section LinkPhase.
  Variables (buf : nat) (fixnew : bool).
  Variable Sync : c06_S -> c06_R -> Prop.
  Hypothesis H1 : forall s r, Sync s r -> c06_sfin s = c06_rfin r.
  Hypothesis H2 : forall s r, Sync s r -> c06_sfin s = false ->
     exists m s', c06_pack buf s = (m, s') /\ m <> [] /\ Sync s' (c06_unpack buf m r).

  Definition LInv (l : c06_link) : Prop :=
    match l_sreq l, l_rreq l with
    | SPosted m, RPosted => m <> [] /\ Sync (l_s l) (c06_unpack buf m (l_r l))
    | SDone, RDone m => Sync (l_s l) (c06_unpack buf m (l_r l))
    | SPosted m', RDone m => m' <> [] /\ c06_rfin (c06_unpack buf m (l_r l)) = false /\
                             Sync (l_s l) (c06_unpack buf m' (c06_unpack buf m (l_r l)))
    | SNull, RDone m => Sync (l_s l) (c06_unpack buf m (l_r l)) /\ c06_sfin (l_s l) = true
    | SDone, RPosted => Sync (l_s l) (l_r l) /\ c06_rfin (l_r l) = false
    | SDone, RNull => Sync (l_s l) (l_r l) /\ c06_rfin (l_r l) = true
    | SNull, RNull => Sync (l_s l) (l_r l) /\ c06_sfin (l_s l) = true
    | SNull, RPosted => False
    | SPosted _, RNull => False
    end.

  Definition phase_event (e : c06_levent) : bool :=
    match e with LMatch | LSendDone | LRecvDone => true | _ => false end.

  Lemma LInv_step : forall l e l', LInv l -> phase_event e = true -> c06_lstep buf fixnew l e = Some l' -> LInv l'.
  Proof.
    intros l e l' I Pe H. destruct l as [src dst s sq sph r rq rph fs sent]. unfold LInv in I; simpl in I.
    destruct e; try discriminate; unfold c06_lstep in H; simpl in H.
    - (* Match *) destruct sq; try discriminate. destruct rq; try discriminate. inversion H; subst. unfold LInv; simpl. tauto.
    - (* SendDone *) destruct sq; try discriminate. destruct (c06_sfin s) eqn:F.
      + inversion H; subst. unfold LInv; simpl. destruct rq; [tauto| |tauto].
        destruct I as [Sy Rf]. rewrite (H1 _ _ Sy) in F. congruence.
      + assert (G : forall r0, Sync s r0 -> exists m s', c06_send_setup buf s = (s', SPosted m, [length m]) /\ m <> [] /\ Sync s' (c06_unpack buf m r0)).
        { intros r0 Sy. destruct (H2 _ _ Sy F) as [m [s' [P [N Sy']]]]. exists m, s'. unfold c06_send_setup. rewrite P.
          destruct m; [congruence|auto]. }
        destruct rq.
        * destruct I as [Sy Rf]. rewrite (H1 _ _ Sy) in F. congruence.
        * destruct I as [Sy Rf]. destruct (G _ Sy) as [m [s' [E [N Sy']]]]. rewrite E in H. inversion H; subst. unfold LInv; simpl. auto.
        * destruct (G _ I) as [m' [s' [E [N Sy']]]]. rewrite E in H. inversion H; subst. unfold LInv; simpl.
          repeat split; auto. rewrite <- (H1 _ _ I). exact F.
    - (* RecvDone *) destruct rq; try discriminate. inversion H; subst. unfold LInv, c06_recv_setup; simpl. destruct sq.
      + destruct I as [Sy Sf]. rewrite <- (H1 _ _ Sy), Sf. auto.
      + destruct I as [N [Rf Sy]]. rewrite Rf. auto.
      + destruct (c06_rfin (c06_unpack buf m r)) eqn:Rf; auto.
  Qed.

  (* progress inside the phase: unless both requests are null (and then both trackers are finished, in sync),
     a completion event is enabled *)
  Lemma LInv_progress : forall l, LInv l ->
    (exists e l', phase_event e = true /\ c06_lstep buf fixnew l e = Some l') \/
    (l_sreq l = SNull /\ l_rreq l = RNull /\ Sync (l_s l) (l_r l) /\ c06_sfin (l_s l) = true /\ c06_rfin (l_r l) = true).
  Proof.
    intros l I. destruct l as [src dst s sq sph r rq rph fs sent]. unfold LInv in I; simpl in *.
    destruct sq, rq; try contradiction.
    - right. destruct I as [Sy Sf]. repeat split; auto. rewrite <- (H1 _ _ Sy). auto.
    - left. exists LRecvDone. eexists. split; [reflexivity|]. unfold c06_lstep; simpl. reflexivity.
    - left. exists LMatch. eexists. split; [reflexivity|]. unfold c06_lstep; simpl. reflexivity.
    - left. exists LRecvDone. eexists. split; [reflexivity|]. unfold c06_lstep; simpl. reflexivity.
    - left. exists LSendDone. unfold c06_lstep; simpl. destruct (c06_sfin s); [|destruct (c06_send_setup buf s) as [[? ?] ?]]; eexists; split; reflexivity.
    - left. exists LSendDone. unfold c06_lstep; simpl. destruct (c06_sfin s); [|destruct (c06_send_setup buf s) as [[? ?] ?]]; eexists; split; reflexivity.
    - left. exists LSendDone. unfold c06_lstep; simpl. destruct (c06_sfin s); [|destruct (c06_send_setup buf s) as [[? ?] ?]]; eexists; split; reflexivity.
  Qed.

  Fixpoint lexec (l : c06_link) (evs : list c06_levent) : option c06_link :=
    match evs with
    | [] => Some l
    | e :: t => if phase_event e then match c06_lstep buf fixnew l e with Some l' => lexec l' t | None => None end else None
    end.

  Lemma LInv_exec : forall evs l l', LInv l -> lexec l evs = Some l' -> LInv l'.
  Proof.
    induction evs as [|e t IH]; simpl; intros l l' I H; [inversion H; subst; auto|].
    destruct (phase_event e) eqn:Pe; [|discriminate]. destruct (c06_lstep buf fixnew l e) as [l1|] eqn:E; [|discriminate].
    eapply IH; [|exact H]. eapply LInv_step; eauto.
  Qed.

  (* how a phase starts (setupRequests for sends and receives) *)
  Definition InitOK (s0 : c06_S) (r0 : c06_R) : Prop :=
    let (m, s1) := c06_pack buf s0 in
    match m with
    | [] => Sync s1 r0 /\ c06_sfin s1 = true /\ c06_rfin r0 = true
    | _ => c06_rfin r0 = false /\ Sync s1 (c06_unpack buf m r0)
    end.

  Lemma LInv_init : forall s0 r0 src dst sph rph fs, InitOK s0 r0 ->
    let '(s1, q, sent) := c06_send_setup buf s0 in LInv (mkL src dst s1 q sph r0 (c06_recv_setup r0) rph fs sent).
  Proof.
    intros s0 r0 src dst sph rph fs I. unfold InitOK in I. unfold c06_send_setup. destruct (c06_pack buf s0) as [m s1].
    destruct m as [|x m]; unfold LInv, c06_recv_setup; simpl.
    - destruct I as [Sy [Sf Rf]]. rewrite Rf. auto.
    - destruct I as [Rf Sy]. rewrite Rf. split; [congruence|auto].
  Qed.
End LinkPhase.

(* ------------------------------------------------------------------ list facts *)
Definition calls_of (rl : list nat) (sl : list (list nat)) : list c06_call :=
  map (fun ie : nat * list nat => (fst ie, length (snd ie), snd ie)) (combine rl sl).

Lemma combine_firstn_skipn : forall (A B : Type) n (a : list A) (b : list B),
  combine a b = combine (firstn n a) (firstn n b) ++ combine (skipn n a) (skipn n b).
Proof.
  induction n; intros a b; simpl; auto. destruct a; simpl; auto. destruct b; simpl; auto.
  - rewrite combine_nil. reflexivity.
  - f_equal. apply IHn.
Qed.

Lemma calls_of_split : forall n rl sl, calls_of rl sl = calls_of (firstn n rl) (firstn n sl) ++ calls_of (skipn n rl) (skipn n sl).
Proof. intros. unfold calls_of. rewrite <- map_app. f_equal. apply combine_firstn_skipn. Qed.

Lemma firstn_app_exact : forall (A : Type) (a b : list A), firstn (length a) (a ++ b) = a.
Proof. induction a; simpl; intros; auto. f_equal; auto. Qed.
Lemma skipn_app_exact : forall (A : Type) (a b : list A), skipn (length a) (a ++ b) = b.
Proof. induction a; simpl; intros; auto. Qed.

Lemma firstn_app_len : forall (A : Type) k (a b : list A), length a = k -> firstn k (a ++ b) = a.
Proof. intros; subst; apply firstn_app_exact. Qed.
Lemma skipn_app_len : forall (A : Type) k (a b : list A), length a = k -> skipn k (a ++ b) = b.
Proof. intros; subst; apply skipn_app_exact. Qed.

Lemma in_skipn : forall (A : Type) n (l : list A) x, In x (skipn n l) -> In x l.
Proof. induction n; simpl; intros l x H; auto. destruct l; simpl in *; auto. Qed.

Lemma skip_send_zero_id : forall l, (forall e, In e l -> e <> []) -> c06_skip_send_zero l = l.
Proof. destruct l as [|e t]; simpl; auto. intros H. destruct e; auto. exfalso. apply (H []); auto. Qed.

(* ------------------------------------------------------------------ phase instance 1: fixed-size data *)
Section FixedPhase.
  Variables (buf f : nat) (all : list c06_call).

  Definition Sync_fixed (s : c06_S) (r : c06_R) : Prop :=
    exists rl log, r = RFix f rl log /\ s_fixed s = f /\ 1 <= f /\ f <= buf /\ length (s_left s) = length rl /\
      (forall e, In e (s_left s) -> length e = f) /\ log ++ calls_of rl (s_left s) = all.

  Lemma scatter_fixed_spec : forall n sl rl log b, length sl = length rl -> n <= length sl ->
    (forall e, In e sl -> length e = f) ->
    c06_scatter_fixed f n (concat (firstn n sl) ++ b) rl log = (skipn n rl, log ++ calls_of (firstn n rl) (firstn n sl)).
  Proof.
    induction n; intros sl rl log b L N A.
    - simpl. destruct rl; rewrite app_nil_r; reflexivity.
    - destruct sl as [|e sl]; [simpl in N; lia|]. destruct rl as [|i rl]; [discriminate|].
      simpl. rewrite <- app_assoc. assert (Le : length e = f) by (apply A; left; auto).
      rewrite (firstn_app_len _ _ _ _ Le), (skipn_app_len _ _ _ _ Le).
      rewrite IHn; simpl in *; try lia; auto. rewrite <- app_assoc. unfold calls_of. simpl. rewrite Le. reflexivity.
  Qed.

  Lemma fixed_H1 : forall s r, Sync_fixed s r -> c06_sfin s = c06_rfin r.
  Proof.
    intros s r [rl [log [-> [_ [_ [_ [L _]]]]]]]. unfold c06_sfin. simpl.
    destruct (s_left s), rl; simpl in *; auto; discriminate.
  Qed.

  Lemma fixed_H2 : forall s r, Sync_fixed s r -> c06_sfin s = false ->
     exists m s', c06_pack buf s = (m, s') /\ m <> [] /\ Sync_fixed s' (c06_unpack buf m r).
  Proof.
    intros s r [rl [log [-> [Fx [F1 [Fb [L [A E]]]]]]]] Sf.
    unfold c06_pack. rewrite Fx. destruct (f =? 0) eqn:F0; [apply Nat.eqb_eq in F0; lia|].
    unfold c06_pack_fixed. set (n := Nat.min (buf / f) (length (s_left s))).
    assert (D : 1 <= buf / f) by (apply Nat.div_le_lower_bound; lia).
    unfold c06_sfin in Sf. destruct (s_left s) as [|e0 t0] eqn:SL; [discriminate|].
    assert (N1 : 1 <= n) by (unfold n; simpl; lia).
    assert (Nl : n <= length (e0 :: t0)) by (unfold n; lia).
    eexists. eexists. split; [reflexivity|]. split.
    - destruct n as [|n']; [lia|]. simpl. assert (length e0 = f) by (apply A; left; auto). destruct e0; simpl in *; [lia|congruence].
    - rewrite skip_send_zero_id.
      2:{ intros e He Hn. apply in_skipn in He. apply A in He. subst e. simpl in He. lia. }
      unfold Sync_fixed. simpl. fold n.
      replace (Nat.min (buf / f) (length rl)) with n by (unfold n; simpl; simpl in L; lia).
      rewrite <- (app_nil_r (concat (firstn n (e0 :: t0)))).
      rewrite scatter_fixed_spec; auto.
      exists (skipn n rl), (log ++ calls_of (firstn n rl) (firstn n (e0 :: t0))).
      repeat split; auto.
      + rewrite !skipn_length. lia.
      + intros e He. apply in_skipn in He. auto.
      + rewrite <- app_assoc. rewrite <- calls_of_split. exact E.
  Qed.
End FixedPhase.

(* ------------------------------------------------------------------ phase instance 2: variable-size data *)
Lemma skip_zero_len : forall l, length (c06_skip_zero l) <= length l.
Proof. induction l as [|[i n] t IH]; simpl; auto. destruct n; simpl; lia. Qed.

Lemma skip_zero_idem : forall l, c06_skip_zero (c06_skip_zero l) = c06_skip_zero l.
Proof. induction l as [|[i n] t IH]; simpl; auto. destruct n; simpl; auto. Qed.

Lemma skip_zero_head : forall i n t, c06_skip_zero ((i, n) :: t) = (i, n) :: t -> n <> 0.
Proof.
  intros i n t H Hn. subst n. simpl in H. pose proof (skip_zero_len t). rewrite H in H0. simpl in H0. lia.
Qed.

Lemma nonzero_app : forall a b, c06_nonzero (a ++ b) = c06_nonzero a ++ c06_nonzero b.
Proof. intros. unfold c06_nonzero. apply filter_app. Qed.

Lemma nonzero_idem : forall a, c06_nonzero (c06_nonzero a) = c06_nonzero a.
Proof.
  unfold c06_nonzero. induction a as [|c t IH]; simpl; auto.
  destruct (negb (snd (fst c) =? 0)) eqn:E; simpl; [rewrite E; f_equal|]; auto.
Qed.

Lemma skip_both_map : forall a b, map (@length nat) a = map snd b ->
  map (@length nat) (c06_skip_send_zero a) = map snd (c06_skip_zero b).
Proof.
  induction a as [|e t IH]; intros [|[i n] rt] H; simpl in *; try discriminate; auto.
  inversion H; subst. destruct e; simpl; auto; try (f_equal; auto).
Qed.

Lemma skip_both_calls : forall a b, map (@length nat) a = map snd b ->
  c06_nonzero (calls_of (map fst (c06_skip_zero b)) (c06_skip_send_zero a)) = c06_nonzero (calls_of (map fst b) a).
Proof.
  induction a as [|e t IH]; intros [|[i n] rt] H; simpl in *; try discriminate; auto.
  inversion H; subst. destruct e; simpl; auto. apply IH; auto.
Qed.

Section VarPhase.
  Variable buf : nat.

  Lemma var_round : forall sl rl pos m l', c06_pack_var buf pos sl = (m, l') -> map (@length nat) sl = map snd rl ->
    forall fuel unp b log, length (c06_skip_zero rl) < fuel ->
    exists j, l' = skipn j sl /\
      c06_unpack_var fuel (unp + length m) unp (m ++ b) (c06_skip_zero rl) log =
        Some (Some (c06_skip_zero (skipn j rl), log ++ c06_nonzero (calls_of (map fst (firstn j rl)) (firstn j sl)))).
  Proof.
    induction sl as [|e t IH]; intros rl pos m l' P M fuel unp b log Fu.
    - simpl in P. inversion P; subst. destruct rl; [|discriminate]. exists 0. split; auto. simpl.
      destruct fuel; simpl; rewrite Nat.add_0_r, Nat.leb_refl; rewrite app_nil_r; reflexivity.
    - destruct rl as [|[i n] rt]; [discriminate|]. simpl in M. inversion M as [[Hn Mt]]. simpl in P.
      destruct (pos + length e <=? buf) eqn:Fit.
      + destruct (c06_pack_var buf (pos + length e) t) as [m1 l1] eqn:P1. inversion P; subst m l'. clear P.
        destruct e as [|x e'].
        * (* zero-size entry: packed as nothing, skipped by the receiver *)
          simpl in Hn. subst n. change ([] ++ m1) with m1. simpl c06_skip_zero at 1.
          assert (Fu' : length (c06_skip_zero rt) < fuel) by (simpl in Fu; lia).
          destruct (IH rt _ _ _ P1 Mt fuel unp b log Fu') as [j [Hl Hu]]. exists (S j). split; [exact Hl|].
          simpl app in Hu. rewrite Hu. simpl. reflexivity.
        * simpl length in Hn. subst n. simpl c06_skip_zero at 1.
          destruct fuel as [|f]; [lia|]. assert (Fu' : length (c06_skip_zero rt) < f) by (pose proof (skip_zero_len rt); simpl in Fu; lia).
          destruct (IH rt _ _ _ P1 Mt f (unp + S (length e')) b (log ++ [(i, S (length e'), x :: e')]) Fu') as [j [Hl Hu]].
          exists (S j). split; [exact Hl|].
          cbn [c06_unpack_var].
          replace (unp + length ((x :: e') ++ m1) <=? unp) with false.
          2:{ symmetry. apply Nat.leb_gt. rewrite app_length. simpl. lia. }
          rewrite <- app_assoc.
          rewrite (firstn_app_len _ (S (length e')) (x :: e') (m1 ++ b) eq_refl).
          rewrite (skipn_app_len _ (S (length e')) (x :: e') (m1 ++ b) eq_refl).
          replace (unp + length ((x :: e') ++ m1)) with (unp + S (length e') + length m1) by (rewrite app_length; simpl; lia).
          rewrite Hu. simpl. rewrite <- app_assoc. reflexivity.
      + inversion P; subst m l'. exists 0. split; auto. simpl.
        rewrite Nat.add_0_r. destruct fuel; simpl; rewrite Nat.leb_refl, app_nil_r; reflexivity.
  Qed.
End VarPhase.

Section VarPhase2.
  Variables (buf : nat) (all : list c06_call).

  Definition Sync_var (s : c06_S) (r : c06_R) : Prop :=
    exists rl log, r = RVar rl log /\ s_fixed s = 0 /\ map (@length nat) (s_left s) = map snd rl /\
      c06_skip_zero rl = rl /\ (forall e, In e (s_left s) -> length e <= buf) /\
      c06_nonzero (log ++ calls_of (map fst rl) (s_left s)) = all.

  Lemma var_H1 : forall s r, Sync_var s r -> c06_sfin s = c06_rfin r.
  Proof.
    intros s r [rl [log [-> [_ [M _]]]]]. unfold c06_sfin. simpl.
    destruct (s_left s), rl; simpl in *; auto; discriminate.
  Qed.

  Lemma in_skip_send_zero : forall l e, In e (c06_skip_send_zero l) -> In e l.
  Proof. induction l as [|x t IH]; simpl; intros e H; auto. destruct x; auto. Qed.

  (* one round: what the sender packs is exactly what the receiver unpacks (same block of indices, zero sizes
     included); afterwards both trackers stand at the same index again *)
  Lemma var_round_sync0 : forall nx sl rl log m l', map (@length nat) sl = map snd rl ->
    (forall e, In e sl -> length e <= buf) ->
    c06_nonzero (log ++ calls_of (map fst rl) sl) = all ->
    c06_pack_var buf 0 sl = (m, l') ->
    Sync_var (mkS 0 (c06_skip_send_zero l') nx) (c06_unpack buf m (RVar (c06_skip_zero rl) log)) /\
    (m <> [] -> c06_skip_zero rl <> []).
  Proof.
    intros nx sl rl log m l' M A E P.
    destruct (var_round buf sl rl 0 m l' P M (S (length (c06_skip_zero rl))) 0 [] log) as [j [Hl Hu]]; [lia|].
    rewrite app_nil_r in Hu. simpl plus in Hu. split.
    2:{ intros Hm Hz. rewrite Hz in Hu. simpl in Hu. destruct m; [congruence|]. simpl in Hu. discriminate. }
    unfold c06_unpack. rewrite Hu. subst l'.
    assert (Mj : map (@length nat) (skipn j sl) = map snd (skipn j rl)) by (rewrite <- !skipn_map; congruence).
    eexists. eexists. split; [reflexivity|]. simpl. repeat split.
    - rewrite skip_zero_idem. apply skip_both_map; auto.
    - rewrite !skip_zero_idem. reflexivity.
    - intros e He. apply in_skip_send_zero in He. apply in_skipn in He. auto.
    - rewrite skip_zero_idem. rewrite <- E.
      rewrite (calls_of_split j (map fst rl) sl). rewrite !nonzero_app, nonzero_idem.
      rewrite skip_both_calls by auto. rewrite firstn_map, skipn_map. rewrite app_assoc. reflexivity.
  Qed.

  Lemma var_round_sync : forall nx sl rl log m l', map (@length nat) sl = map snd rl -> c06_skip_zero rl = rl ->
    (forall e, In e sl -> length e <= buf) ->
    c06_nonzero (log ++ calls_of (map fst rl) sl) = all ->
    c06_pack_var buf 0 sl = (m, l') ->
    Sync_var (mkS 0 (c06_skip_send_zero l') nx) (c06_unpack buf m (RVar rl log)).
  Proof.
    intros nx sl rl log m l' M Z A E P. rewrite <- Z. eapply var_round_sync0; eauto.
  Qed.

  Lemma var_H2 : forall s r, Sync_var s r -> c06_sfin s = false ->
     exists m s', c06_pack buf s = (m, s') /\ m <> [] /\ Sync_var s' (c06_unpack buf m r).
  Proof.
    intros s r [rl [log [-> [Fx [M [Z [A E]]]]]]] Sf.
    unfold c06_pack. rewrite Fx. simpl.
    destruct (c06_pack_var buf 0 (s_left s)) as [m l'] eqn:P.
    eexists. eexists. split; [reflexivity|]. split.
    - unfold c06_sfin in Sf. destruct (s_left s) as [|e0 t0] eqn:SL; [discriminate|].
      destruct rl as [|[i0 n0] rt]; [discriminate|]. simpl in M. inversion M as [[Hn Mt]].
      apply skip_zero_head in Z. simpl in P.
      assert (Fit : length e0 <=? buf = true) by (apply Nat.leb_le; apply A; left; auto).
      rewrite Fit in P. destruct (c06_pack_var buf (length e0) t0) as [m1 l1]. inversion P; subst.
      destruct e0; simpl in *; [lia|congruence].
    - eapply var_round_sync; eauto.
  Qed.
End VarPhase2.

(* ------------------------------------------------------------------ start of the variable-size data phase *)
Lemma map_snd_combine : forall (A B : Type) (a : list A) (b : list B), length a = length b -> map snd (combine a b) = b.
Proof. induction a; destruct b; simpl; intros; try discriminate; auto. f_equal; auto. Qed.
Lemma map_fst_combine : forall (A B : Type) (a : list A) (b : list B), length a = length b -> map fst (combine a b) = a.
Proof. induction a; destruct b; simpl; intros; try discriminate; auto. f_equal; auto. Qed.

Lemma pack_var_nil : forall buf sl l', (forall e, In e sl -> length e <= buf) -> c06_pack_var buf 0 sl = ([], l') ->
  l' = [] /\ forall e, In e sl -> e = [].
Proof.
  induction sl as [|e t IH]; simpl; intros l' A P.
  - inversion P; subst. split; auto. intros e [].
  - assert (Fit : length e <=? buf = true) by (apply Nat.leb_le; apply A; left; auto).
    rewrite Fit in P. destruct (c06_pack_var buf (length e) t) as [m1 l1] eqn:P1. inversion P; subst.
    destruct e; [|discriminate]. simpl in *. subst m1.
    destruct (IH l' (fun e H => A e (or_intror H)) P1) as [L E]. split; auto. intros e [<-|H]; auto.
Qed.

Lemma unpack_var_empty_msg : forall buf l g, c06_unpack buf [] (RVar l g) = RVar (c06_skip_zero l) g.
Proof. intros. unfold c06_unpack. simpl. reflexivity. Qed.

(* code after fixes/C06-1: the receive tracker is advanced over zero sizes before the first post *)
Lemma var_init_new : forall buf entries ridx, length entries = length ridx -> (forall e, In e entries -> length e <= buf) ->
  InitOK buf (Sync_var buf (c06_spec_link entries ridx)) (mkS 0 entries [])
         (c06_rswitch true 0 (RSz 0 (map (@length nat) entries) ridx)).
Proof.
  intros buf entries ridx L A. unfold InitOK, c06_pack. simpl.
  destruct (c06_pack_var buf 0 entries) as [m l'] eqn:P.
  set (rl0 := combine ridx (map (@length nat) entries)).
  assert (Ms : map (@length nat) entries = map snd rl0) by (unfold rl0; rewrite map_snd_combine; auto; rewrite map_length; auto).
  assert (Mf : map fst rl0 = ridx) by (unfold rl0; rewrite map_fst_combine; auto; rewrite map_length; auto).
  assert (E : c06_nonzero ([] ++ calls_of (map fst rl0) entries) = c06_spec_link entries ridx) by (rewrite Mf; reflexivity).
  destruct (var_round_sync0 buf _ [] entries rl0 [] m l' Ms A E P) as [Sy Nz].
  destruct m as [|x m'].
  - destruct (pack_var_nil _ _ _ A P) as [-> _]. rewrite unpack_var_empty_msg, skip_zero_idem in Sy.
    split; [exact Sy|]. split; [reflexivity|]. change (c06_rfin (RVar (c06_skip_zero rl0) []) = true).
    rewrite <- (var_H1 _ _ _ _ Sy). reflexivity.
  - split; [|exact Sy]. assert (c06_skip_zero rl0 <> []) by (apply Nz; congruence).
    simpl. destruct (c06_skip_zero rl0); [congruence|reflexivity].
Qed.

(* ------------------------------------------------------------------ consequences at the end of a phase *)
Lemma LInv_final : forall buf fixnew (Sync : c06_S -> c06_R -> Prop) (H1 : forall s r, Sync s r -> c06_sfin s = c06_rfin r) l,
  LInv buf Sync l -> (forall e, phase_event e = true -> c06_lstep buf fixnew l e = None) ->
  l_sreq l = SNull /\ l_rreq l = RNull /\ Sync (l_s l) (l_r l) /\ c06_sfin (l_s l) = true /\ c06_rfin (l_r l) = true.
Proof.
  intros buf fixnew Sync H1 l I St. destruct (LInv_progress buf fixnew Sync H1 l I) as [[e [l' [Pe E]]]|R]; auto.
  rewrite (St e Pe) in E. discriminate.
Qed.

Lemma Sync_var_final : forall buf all s r, Sync_var buf all s r -> c06_rfin r = true ->
  exists log, r = RVar [] log /\ c06_nonzero log = all.
Proof.
  intros buf all s r [rl [log [-> [_ [M [_ [_ E]]]]]]] Rf. destruct rl; [|discriminate].
  exists log. split; auto. destruct (s_left s); [|discriminate]. simpl in E. rewrite app_nil_r in E. exact E.
Qed.

Lemma Sync_fixed_final : forall buf f all s r, Sync_fixed buf f all s r -> c06_rfin r = true ->
  exists log, r = RFix f [] log /\ log = all.
Proof.
  intros buf f all s r [rl [log [-> [_ [_ [_ [L [_ E]]]]]]]] Rf. destruct rl; [|discriminate].
  exists log. split; auto. destruct (s_left s); [|discriminate]. simpl in E. rewrite app_nil_r in E. exact E.
Qed.

(* ------------------------------------------------------------------ fixed-size mode: the whole life of a link *)
Section FixedLink.
  Variables (buf f : nat) (fixnew : bool) (entries : list (list nat)) (ridx : list nat).
  Hypothesis OK : c06_link_ok_fixed buf f entries ridx = true.

  Let all := calls_of ridx entries.

  Lemma ok_fixed_facts : length entries = length ridx /\ (forall e, In e entries -> length e = f) /\ 1 <= f /\ f <= buf.
  Proof.
    pose proof OK as O. unfold c06_link_ok_fixed in O. rewrite !andb_true_iff in O. destruct O as [[[O1 O2] O3] O4].
    apply Nat.eqb_eq in O1. apply Nat.leb_le in O3, O4. repeat split; auto.
    intros e He. rewrite forallb_forall in O2. apply Nat.eqb_eq. auto.
  Qed.

  Lemma fixed_sync0 : Sync_fixed buf f all (mkS f entries []) (RFix f ridx []).
  Proof.
    destruct ok_fixed_facts as [L [A [F1 Fb]]]. exists ridx, []. simpl. repeat split; auto.
  Qed.

  Lemma fixed_initok : InitOK buf (Sync_fixed buf f all) (mkS f entries []) (RFix f ridx []).
  Proof.
    pose proof fixed_sync0 as Sy. destruct ok_fixed_facts as [L [A [F1 Fb]]].
    unfold InitOK. destruct (c06_sfin (mkS f entries [])) eqn:Sf.
    - unfold c06_sfin in Sf. simpl in Sf. destruct entries as [|e t]; [|discriminate]. destruct ridx; [|discriminate].
      unfold c06_pack. simpl. destruct (f =? 0) eqn:F0; [apply Nat.eqb_eq in F0; lia|].
      unfold c06_pack_fixed. simpl. rewrite Nat.min_0_r. simpl. repeat split; auto.
    - destruct (fixed_H2 _ _ _ _ _ Sy Sf) as [m [s' [P [N Sy']]]]. rewrite P. destruct m; [congruence|].
      split; auto. rewrite <- (fixed_H1 _ _ _ _ _ Sy). exact Sf.
  Qed.

  Definition l0 (src dst own : nat) := c06_link_init_fixed buf src dst f own entries ridx.

  Definition FInv (l : c06_link) : Prop :=
    l_sph l = true /\
    ((l_rph l = false /\ (l_fs l = FsPending f \/ l_fs l = FsMatched f) /\ l_rreq l = RNull /\ (exists own, l_r l = RWaitFixed own ridx) /\
      exists sent, c06_send_setup buf (mkS f entries []) = (l_s l, l_sreq l, sent))
     \/ (l_rph l = true /\ l_fs l = FsDone /\ LInv buf (Sync_fixed buf f all) l)).

  Lemma FInv_init : forall src dst own, FInv (l0 src dst own).
  Proof.
    intros. unfold l0, c06_link_init_fixed. destruct (c06_send_setup buf (mkS f entries [])) as [[s1 q] sent] eqn:E.
    split; [reflexivity|]. left. simpl. repeat split; eauto.
  Qed.

  Lemma FInv_step : forall l e l', FInv l -> c06_lstep buf fixnew l e = Some l' -> FInv l'.
  Proof.
    intros l e l' [Sp [[Rp [Fs [Rq [[own Rr] [sent E]]]]]|[Rp [Fs I]]]] H.
    - (* before the fixedSize scalar has been reported *)
      destruct l as [src dst s sq sph r rq rph fs snt]. simpl in *. subst.
      pose proof fixed_initok as IO. pose proof (LInv_init buf (Sync_fixed buf f all) _ _ src dst true true FsDone IO) as LI.
      rewrite E in LI.
      assert (Q : sq = SNull \/ exists m, sq = SPosted m).
      { unfold c06_send_setup in E. destruct (c06_pack buf (mkS f entries [])) as [m s1]. destruct m; inversion E; subst; eauto. }
      destruct e; unfold c06_lstep in H; simpl in H.
      + destruct sq; try discriminate.
      + destruct Q as [->|[m ->]]; discriminate.
      + discriminate.
      + discriminate.
      + destruct Fs as [->| ->]; [discriminate|]. inversion H; subst. split; [reflexivity|]. right. simpl.
        repeat split; auto.
      + destruct Fs as [->| ->]; [|discriminate]. inversion H; subst. split; [reflexivity|]. left. simpl. repeat split; eauto.
    - destruct (phase_event e) eqn:Pe.
      + pose proof (LInv_step buf fixnew _ (fixed_H1 buf f all) (fixed_H2 buf f all) _ _ _ I Pe H) as I'.
        destruct l as [src dst s sq sph r rq rph fs snt]. simpl in *. subst.
        destruct e; try discriminate; unfold c06_lstep in H; simpl in H.
        * destruct sq; try discriminate; destruct rq; try discriminate; inversion H; subst; split; auto; right; auto.
        * destruct sq; try discriminate. destruct (c06_sfin s).
          -- inversion H; subst; split; auto; right; auto.
          -- destruct (c06_send_setup buf s) as [[? ?] ?]. inversion H; subst; split; auto; right; auto.
        * destruct rq; try discriminate. inversion H; subst; split; auto; right; auto.
      + destruct l as [src dst s sq sph r rq rph fs snt]. simpl in *. subst.
        destruct e; try discriminate; unfold c06_lstep in H; simpl in H; discriminate.
  Qed.

  (* when nothing can happen on the link any more, both processes are done with it and the scatter log is the spec *)
  Lemma FInv_final : forall l, FInv l -> (forall e, c06_lstep buf fixnew l e = None) ->
    c06_link_quiet l = true /\ c06_log l = all.
  Proof.
    intros l [Sp [[Rp [Fs [Rq [[own Rr] _]]]]|[Rp [Fs I]]]] St.
    - exfalso. destruct l as [src dst s sq sph r rq rph fs snt]. simpl in *. subst.
      destruct Fs as [->| ->].
      + specialize (St LFsMatch). unfold c06_lstep in St. simpl in St. discriminate.
      + specialize (St LSwitchR). unfold c06_lstep in St. simpl in St. discriminate.
    - destruct (LInv_final buf fixnew _ (fixed_H1 buf f all) l I (fun e _ => St e)) as [A [B [Sy [Sf Rf]]]].
      destruct (Sync_fixed_final _ _ _ _ _ Sy Rf) as [log [Er El]].
      unfold c06_link_quiet, c06_log. rewrite A, B, Fs, Sp, Rp, Er. auto.
  Qed.
End FixedLink.

(* ------------------------------------------------------------------ the global system in fixed-size mode is the product of its links *)
(* d_f: the size the sender announces; d_own: the value the receiver's tracker starts with (the receiver's own size) *)
Record c06_fdesc := mkFD { d_src : nat; d_dst : nat; d_f : nat; d_own : nat; d_entries : list (list nat); d_ridx : list nat }.

Definition fixed_cfg (buf : nat) (fixnew : bool) (ds : list c06_fdesc) (np : nat) : c06_cfg :=
  mkC buf fixnew (map (fun d => c06_link_init_fixed buf (d_src d) (d_dst d) (d_f d) (d_own d) (d_entries d) (d_ridx d)) ds) (repeat true np).

Definition FRel (buf : nat) (d : c06_fdesc) (l : c06_link) : Prop :=
  c06_link_ok_fixed buf (d_f d) (d_entries d) (d_ridx d) = true /\ FInv buf (d_f d) (d_entries d) (d_ridx d) l.

Definition GInvF (ds : list c06_fdesc) (c : c06_cfg) : Prop :=
  Forall2 (FRel (c_buf c)) ds (c_links c) /\ forallb (fun b => b) (c_phase c) = true.

Lemma Forall2_upd : forall (A B : Type) (R : A -> B -> Prop) la lb k a b b',
  Forall2 R la lb -> nth_error la k = Some a -> nth_error lb k = Some b -> R a b' -> Forall2 R la (c06_upd k b' lb).
Proof.
  intros A B R la lb k a b b' F. revert k. induction F; intros k Ha Hb Hr; destruct k; simpl in *; try discriminate.
  - inversion Ha; subst. constructor; auto.
  - constructor; auto; try (eapply IHF; eauto).
Qed.

Lemma Forall2_nth : forall (A B : Type) (R : A -> B -> Prop) la lb k b,
  Forall2 R la lb -> nth_error lb k = Some b -> exists a, nth_error la k = Some a /\ R a b.
Proof.
  intros A B R la lb k b F. revert k. induction F; intros k Hb; destruct k; simpl in *; try discriminate.
  - inversion Hb; subst. eauto.
  - eauto.
Qed.

Lemma forallb_nth_false : forall ph p, forallb (fun b : bool => b) ph = true -> nth_error ph p = Some false -> False.
Proof. induction ph; intros p H N; destruct p; simpl in *; try discriminate.
  - inversion N; subst. discriminate.
  - apply andb_prop in H. destruct H. eauto.
Qed.

Lemma gstep_link_inv : forall c k le c', c06_gstep c (GLink k le) = Some c' ->
  exists l l', nth_error (c_links c) k = Some l /\ c06_lstep (c_buf c) (c_fixnew c) l le = Some l' /\
               c' = mkC (c_buf c) (c_fixnew c) (c06_upd k l' (c_links c)) (c_phase c).
Proof.
  intros c k le c' H. simpl in H.
  destruct (nth_error (c_links c) k) as [l|] eqn:N; [|destruct le; discriminate].
  destruct le; try discriminate.
  - destruct (c06_lstep (c_buf c) (c_fixnew c) l LMatch) as [l'|] eqn:E; [|discriminate]. inversion H; subst; eauto.
  - destruct (c06_lstep (c_buf c) (c_fixnew c) l LSendDone) as [l'|] eqn:E; [|discriminate]. inversion H; subst; eauto.
  - destruct (c06_lstep (c_buf c) (c_fixnew c) l LRecvDone) as [l'|] eqn:E; [|discriminate]. inversion H; subst; eauto.
  - destruct (l_fs l); try discriminate.
    destruct (c06_lstep (c_buf c) (c_fixnew c) l LSwitchR) as [l'|] eqn:E; [|discriminate]. inversion H; subst; eauto.
  - destruct (c06_lstep (c_buf c) (c_fixnew c) l LFsMatch) as [l'|] eqn:E; [|discriminate]. inversion H; subst; eauto.
Qed.

Lemma GInvF_init : forall buf fixnew ds np,
  Forall (fun d => c06_link_ok_fixed buf (d_f d) (d_entries d) (d_ridx d) = true) ds -> GInvF ds (fixed_cfg buf fixnew ds np).
Proof.
  intros buf fixnew ds np H. split; simpl.
  - induction H; simpl; constructor; auto. split; auto. apply FInv_init.
  - induction np; simpl; auto.
Qed.

Lemma GInvF_step : forall ds c e c', GInvF ds c -> c06_gstep c e = Some c' -> GInvF ds c'.
Proof.
  intros ds c e c' [F P] H. destruct e as [k le|p].
  - destruct (gstep_link_inv _ _ _ _ H) as [l [l' [N [E ->]]]]. split; simpl; auto.
    destruct (Forall2_nth _ _ _ _ _ _ _ F N) as [d [Nd [Ok I]]].
    eapply Forall2_upd; eauto. split; auto. eapply FInv_step; eauto.
  - simpl in H. destruct (nth_error (c_phase c) p) as [[|]|] eqn:N; try discriminate.
    exfalso. eapply forallb_nth_false; eauto.
Qed.

Lemma GInvF_exec : forall ds evs c c', GInvF ds c -> c06_exec c evs = Some c' -> GInvF ds c'.
Proof.
  induction evs as [|e t IH]; simpl; intros c c' I H; [inversion H; subst; auto|].
  destruct (c06_gstep c e) as [c1|] eqn:E; [|discriminate]. eapply IH; [|exact H]. eapply GInvF_step; eauto.
Qed.

Lemma in_all_events : forall c k le, k < length (c_links c) -> In le c06_levents -> In (GLink k le) (c06_all_events c).
Proof.
  intros c k le Hk Hl. unfold c06_all_events. apply in_or_app. left. apply in_flat_map. exists k. split.
  - apply in_seq. lia.
  - apply in_map. exact Hl.
Qed.

Lemma not_enabled : forall c e, c06_enabled c = [] -> In e (c06_all_events c) -> c06_gstep c e = None.
Proof.
  intros c e En Hin. destruct (c06_gstep c e) eqn:G; auto. exfalso.
  assert (In e (c06_enabled c)) by (unfold c06_enabled; apply filter_In; split; auto; rewrite G; auto).
  rewrite En in H. destruct H.
Qed.

Lemma nth_error_upd_len : forall (A : Type) k (x : A) l, length (c06_upd k x l) = length l.
Proof. induction k; destruct l; simpl; auto. Qed.

(* C06 for fixed-size handles, all schedules: whatever events fire in whatever order, when nothing is enabled any
   more every process has returned and every link's scatter log is the spec *)
Lemma P_delivery_fixed : forall buf fixnew ds np evs c',
  Forall (fun d => c06_link_ok_fixed buf (d_f d) (d_entries d) (d_ridx d) = true) ds ->
  c06_exec (fixed_cfg buf fixnew ds np) evs = Some c' -> c06_enabled c' = [] ->
  c06_returned c' = true /\
  Forall2 (fun d l => c06_nonzero (c06_log l) = c06_spec_link (d_entries d) (d_ridx d) /\ l_src l = l_src l) ds (c_links c').
Proof.
  intros buf fixnew ds np evs c' Ok Ex En.
  pose proof (GInvF_exec ds evs _ _ (GInvF_init buf fixnew ds np Ok) Ex) as [F P].
  assert (Hb : c_buf c' = buf /\ c_fixnew c' = fixnew).
  { assert (G : forall evs0 c, c06_exec c evs0 = Some c' -> c_buf c' = c_buf c /\ c_fixnew c' = c_fixnew c).
    { induction evs0 as [|e t IH]; simpl; intros c H; [inversion H; auto|].
      destruct (c06_gstep c e) as [c1|] eqn:E; [|discriminate]. destruct (IH _ H) as [A B]. rewrite A, B.
      destruct e as [k le|p].
      - destruct (gstep_link_inv _ _ _ _ E) as [l [l' [_ [_ ->]]]]. auto.
      - simpl in E. destruct (nth_error (c_phase c) p) as [[|]|]; try discriminate.
        destruct (forallb (c06_ready_to_switch p) (c_links c)); inversion E; subst; auto. }
    apply (G evs _ Ex). }
  destruct Hb as [Hb Hf].
  assert (Q : Forall2 (fun d l => c06_link_quiet l = true /\ c06_log l = calls_of (d_ridx d) (d_entries d)) ds (c_links c')).
  { assert (Hk : forall k l, nth_error (c_links c') k = Some l -> forall le, c06_lstep buf fixnew l le = None \/ (le = LSwitchS) \/ (le = LSwitchR /\ forall v, l_fs l <> FsMatched v)).
    { intros k l N le. assert (Kl : k < length (c_links c')) by (apply nth_error_Some; congruence).
      destruct le; auto.
      - left. pose proof (not_enabled c' (GLink k LMatch) En (in_all_events c' k LMatch Kl ltac:(simpl; auto 6))) as G.
        cbn -[c06_lstep] in G. rewrite N, Hb, Hf in G. destruct (c06_lstep buf fixnew l LMatch); [discriminate|auto].
      - left. pose proof (not_enabled c' (GLink k LSendDone) En (in_all_events c' k LSendDone Kl ltac:(simpl; auto 6))) as G.
        cbn -[c06_lstep] in G. rewrite N, Hb, Hf in G. destruct (c06_lstep buf fixnew l LSendDone); [discriminate|auto].
      - left. pose proof (not_enabled c' (GLink k LRecvDone) En (in_all_events c' k LRecvDone Kl ltac:(simpl; auto 6))) as G.
        cbn -[c06_lstep] in G. rewrite N, Hb, Hf in G. destruct (c06_lstep buf fixnew l LRecvDone); [discriminate|auto].
      - pose proof (not_enabled c' (GLink k LSwitchR) En (in_all_events c' k LSwitchR Kl ltac:(simpl; auto 6))) as G.
        cbn -[c06_lstep] in G. rewrite N, Hb, Hf in G. destruct (l_fs l) eqn:Fs; try (right; right; split; [auto|intros ?; discriminate]).
        left. destruct (c06_lstep buf fixnew l LSwitchR); [discriminate|auto].
      - left. pose proof (not_enabled c' (GLink k LFsMatch) En (in_all_events c' k LFsMatch Kl ltac:(simpl; auto 6))) as G.
        cbn -[c06_lstep] in G. rewrite N, Hb, Hf in G. destruct (c06_lstep buf fixnew l LFsMatch); [discriminate|auto]. }
    rewrite Hb in F. clear - F Hk.
    assert (G : forall ds ls, Forall2 (FRel buf) ds ls ->
      (forall l, In l ls -> forall le, c06_lstep buf fixnew l le = None \/ le = LSwitchS \/ (le = LSwitchR /\ forall v, l_fs l <> FsMatched v)) ->
      Forall2 (fun d l => c06_link_quiet l = true /\ c06_log l = calls_of (d_ridx d) (d_entries d)) ds ls).
    { induction 1; intros Hs; constructor.
      - destruct H as [Ok I]. apply (FInv_final buf (d_f x) fixnew (d_entries x) (d_ridx x) y I).
        intros le. destruct (Hs y (or_introl eq_refl) le) as [A|[->|[-> Nf]]]; [exact A| |].
        + destruct I as [Sp _]. unfold c06_lstep. rewrite Sp. reflexivity.
        + destruct I as [Sp [[Rp [Fs [Rq _]]]|[Rp _]]].
          * unfold c06_lstep. rewrite Rp, Rq. destruct Fs as [Fs|Fs]; rewrite Fs; [reflexivity|]. exfalso. eapply Nf; eauto.
          * unfold c06_lstep. rewrite Rp. reflexivity.
      - apply IHForall2. intros l1 Hl. apply Hs. right; auto. }
    apply G; auto. intros l Hl le. apply In_nth_error in Hl. destruct Hl as [k N]. eapply Hk; eauto. }
  split.
  - unfold c06_returned. rewrite P, andb_true_r. clear - Q. induction Q; simpl; auto. destruct H as [-> _]. auto.
  - clear - Q. induction Q; constructor; auto. destruct H as [_ ->]. split; reflexivity.
Qed.

(* ------------------------------------------------------------------ phase instance 3: the size exchange (communicateSizes) *)
Section SizePhase.
  Variables (buf : nat) (data : list (list nat)) (ridx : list nat).

  Definition Sync_size (s : c06_S) (r : c06_R) : Prop :=
    exists rest learned, s = mkS 1 (map (fun e : list nat => [length e]) rest) data /\ r = RSz (length rest) learned ridx /\
      learned ++ map (@length nat) rest = map (@length nat) data /\ 1 <= buf.

  Lemma concat_single : forall l : list (list nat), concat (map (fun e => [length e]) l) = map (@length nat) l.
  Proof. induction l; simpl; auto. f_equal; auto. Qed.

  Lemma size_H1 : forall s r, Sync_size s r -> c06_sfin s = c06_rfin r.
  Proof. intros s r [rest [learned [-> [-> _]]]]. unfold c06_sfin. simpl. destruct rest; reflexivity. Qed.

  Lemma size_H2 : forall s r, Sync_size s r -> c06_sfin s = false ->
     exists m s', c06_pack buf s = (m, s') /\ m <> [] /\ Sync_size s' (c06_unpack buf m r).
  Proof.
    intros s r [rest [learned [-> [-> [E B]]]]] Sf. unfold c06_sfin in Sf. simpl in Sf.
    destruct rest as [|e0 t0] eqn:Re; [discriminate|]. rewrite <- Re in *.
    unfold c06_pack. simpl s_fixed. simpl Nat.eqb. cbv iota. unfold c06_pack_fixed. simpl s_left. rewrite Nat.div_1_r, map_length.
    set (n := Nat.min buf (length rest)).
    assert (N1 : 1 <= n) by (unfold n; subst rest; simpl; lia).
    eexists. eexists. split; [reflexivity|]. split.
    - rewrite firstn_map, concat_single. subst rest. destruct n; [lia|]. simpl. congruence.
    - rewrite skip_send_zero_id.
      2:{ intros e He Hn. apply in_skipn in He. apply in_map_iff in He. destruct He as [x [Hx _]]. subst e. discriminate. }
      unfold Sync_size. exists (skipn n rest), (learned ++ map (@length nat) (firstn n rest)).
      rewrite firstn_map, concat_single, skipn_map. simpl. fold n. split; [reflexivity|]. split.
      + f_equal.
        * rewrite skipn_length. reflexivity.
        * f_equal. apply firstn_all2. rewrite map_length, firstn_length. lia.
      + split; auto. rewrite <- app_assoc, <- map_app, firstn_skipn. exact E.
  Qed.

  Lemma Sync_size_final : forall s r, Sync_size s r -> c06_rfin r = true ->
    r = RSz 0 (map (@length nat) data) ridx /\ c06_sswitch s = mkS 0 data [].
  Proof.
    intros s r [rest [learned [-> [-> [E B]]]]] Rf. destruct rest; [|discriminate]. simpl in *. rewrite app_nil_r in E. subst learned.
    split; reflexivity.
  Qed.

  Lemma size_initok : length data = length ridx -> 1 <= buf ->
    InitOK buf Sync_size (mkS 1 (map (fun e : list nat => [length e]) data) data) (RSz (length ridx) [] ridx).
  Proof.
    intros L B.
    assert (Sy : Sync_size (mkS 1 (map (fun e : list nat => [length e]) data) data) (RSz (length ridx) [] ridx)).
    { exists data, []. rewrite L. repeat split; auto. }
    unfold InitOK. destruct (c06_sfin (mkS 1 (map (fun e : list nat => [length e]) data) data)) eqn:Sf.
    - unfold c06_sfin in Sf. simpl in Sf. destruct data; [|discriminate]. destruct ridx; [|discriminate].
      unfold c06_pack, c06_pack_fixed. simpl. rewrite Nat.min_0_r. simpl. repeat split; auto.
    - destruct (size_H2 _ _ Sy Sf) as [m [s' [P [N Sy']]]]. rewrite P. destruct m; [congruence|].
      split; auto. rewrite <- (size_H1 _ _ Sy). exact Sf.
  Qed.
End SizePhase.

(* ------------------------------------------------------------------ per-phase statements for one link, all schedules *)
Lemma ok_var_facts : forall buf entries ridx, c06_link_ok_var buf entries ridx = true ->
  length entries = length ridx /\ (forall e, In e entries -> length e <= buf) /\ 1 <= buf.
Proof.
  intros buf entries ridx O. unfold c06_link_ok_var in O. rewrite !andb_true_iff in O. destruct O as [[O1 O2] O3].
  apply Nat.eqb_eq in O1. apply Nat.leb_le in O3. repeat split; auto.
  intros e He. rewrite forallb_forall in O2. apply Nat.leb_le. auto.
Qed.

Definition phase_outcome (buf : nat) (fixnew : bool) (l' : c06_link) (Final : c06_link -> Prop) : Prop :=
  (exists e l'', phase_event e = true /\ c06_lstep buf fixnew l' e = Some l'') \/
  (l_sreq l' = SNull /\ l_rreq l' = RNull /\ Final l').

(* size exchange: whatever the order of completions, the phase cannot get stuck, and when it is over the receiver
   has learned exactly the sizes of the sender's entries and the sender is ready for the data phase *)
Lemma P_size_phase : forall buf fixnew entries ridx src dst evs l',
  c06_link_ok_var buf entries ridx = true ->
  lexec buf fixnew (c06_link_init_var buf src dst entries ridx) evs = Some l' ->
  phase_outcome buf fixnew l' (fun l' => l_r l' = RSz 0 (map (@length nat) entries) ridx /\ c06_sswitch (l_s l') = mkS 0 entries []).
Proof.
  intros buf fixnew entries ridx src dst evs l' O Ex. destruct (ok_var_facts _ _ _ O) as [L [A B]].
  pose proof (LInv_init buf (Sync_size buf entries ridx) _ _ src dst false false FsNone (size_initok buf entries ridx L B)) as I0.
  unfold c06_link_init_var in Ex.
  destruct (c06_send_setup buf (mkS 1 (map (fun e : list nat => [length e]) entries) entries)) as [[s1 q] sent].
  pose proof (LInv_exec buf fixnew _ (size_H1 buf entries ridx) (size_H2 buf entries ridx) _ _ _ I0 Ex) as I.
  destruct (LInv_progress buf fixnew _ (size_H1 buf entries ridx) _ I) as [[e [l2 [Pe E]]]|[Sq [Rq [Sy [Sf Rf]]]]].
  - left; eauto.
  - right. repeat split; auto; apply (Sync_size_final _ _ _ _ _ Sy Rf).
Qed.

(* variable-size data phase, code after fixes/C06-1 *)
Lemma P_delivery_var_phase : forall buf fixnew entries ridx src dst sph rph fs evs l',
  c06_link_ok_var buf entries ridx = true ->
  (let '(s1, q, sent) := c06_send_setup buf (mkS 0 entries []) in
   let r0 := c06_rswitch true 0 (RSz 0 (map (@length nat) entries) ridx) in
   lexec buf fixnew (mkL src dst s1 q sph r0 (c06_recv_setup r0) rph fs sent) evs) = Some l' ->
  phase_outcome buf fixnew l' (fun l' => exists log, l_r l' = RVar [] log /\ c06_nonzero log = c06_spec_link entries ridx).
Proof.
  intros buf fixnew entries ridx src dst sph rph fs evs l' O Ex. destruct (ok_var_facts _ _ _ O) as [L [A B]].
  pose proof (LInv_init buf (Sync_var buf (c06_spec_link entries ridx)) _ _ src dst sph rph fs (var_init_new buf entries ridx L A)) as I0.
  destruct (c06_send_setup buf (mkS 0 entries [])) as [[s1 q] sent].
  pose proof (LInv_exec buf fixnew _ (var_H1 buf _) (var_H2 buf _) _ _ _ I0 Ex) as I.
  destruct (LInv_progress buf fixnew _ (var_H1 buf _) _ I) as [[e [l2 [Pe E]]]|[Sq [Rq [Sy [Sf Rf]]]]].
  - left; eauto.
  - right. repeat split; auto. eapply Sync_var_final; eauto.
Qed.

(* ------------------------------------------------------------------ variable-size mode: the whole life of a link
   (code after fixes/C06-1).  The two processes of a link leave the size loop independently (each when ALL its
   links are done, a per-process barrier): the link machine allows LSwitchS / LSwitchR at any moment the respective
   half has a null request, which over-approximates every barrier.  Four regimes by (l_sph, l_rph). *)
Lemma lstep_phase_pres : forall buf fixnew l e l', phase_event e = true -> c06_lstep buf fixnew l e = Some l' ->
  l_sph l' = l_sph l /\ l_rph l' = l_rph l /\ l_fs l' = l_fs l.
Proof.
  intros buf fixnew l e l' Pe H. destruct l as [src dst s sq sph r rq rph fs snt].
  destruct e; try discriminate; unfold c06_lstep in H; simpl in H.
  - destruct sq; try discriminate; destruct rq; try discriminate; inversion H; subst; auto.
  - destruct sq; try discriminate. destruct (c06_sfin s).
    + inversion H; subst; auto.
    + destruct (c06_send_setup buf s) as [[? ?] ?]. inversion H; subst; auto.
  - destruct rq; try discriminate. inversion H; subst; auto.
Qed.

Section VarLink.
  Variables (buf : nat) (entries : list (list nat)) (ridx : list nat).
  Hypothesis OK : c06_link_ok_var buf entries ridx = true.

  Let spec := c06_spec_link entries ridx.
  Let R1fin := RSz 0 (map (@length nat) entries) ridx.
  Let r2 := c06_rswitch true 0 R1fin.
  Let s2 := mkS 0 entries [].
  Let SyS := Sync_size buf entries ridx.
  Let SyV := Sync_var buf spec.

  Definition VInv (l : c06_link) : Prop :=
    l_fs l = FsNone /\
    match l_sph l, l_rph l with
    | false, false => LInv buf SyS l
    | true, true => LInv buf SyV l
    | true, false => (exists sent, c06_send_setup buf s2 = (l_s l, l_sreq l, sent)) /\
                     ((exists m, l_rreq l = RDone m /\ c06_unpack buf m (l_r l) = R1fin) \/ (l_rreq l = RNull /\ l_r l = R1fin))
    | false, true => c06_sfin (l_s l) = true /\ c06_sswitch (l_s l) = s2 /\ (l_sreq l = SDone \/ l_sreq l = SNull) /\
                     l_r l = r2 /\ l_rreq l = c06_recv_setup r2
    end.

  Lemma VInv_init : forall src dst, VInv (c06_link_init_var buf src dst entries ridx).
  Proof.
    intros. destruct (ok_var_facts _ _ _ OK) as [L [A B]].
    pose proof (LInv_init buf SyS _ _ src dst false false FsNone (size_initok buf entries ridx L B)) as I0.
    unfold c06_link_init_var.
    destruct (c06_send_setup buf (mkS 1 (map (fun e : list nat => [length e]) entries) entries)) as [[s1 q] sent].
    split; [reflexivity|]. simpl. exact I0.
  Qed.

  Lemma size_done : forall s r, SyS s r -> c06_sfin s = true -> r = R1fin /\ c06_sswitch s = s2.
  Proof.
    intros s r Sy Sf. apply (Sync_size_final _ _ _ _ _ Sy). rewrite <- (size_H1 _ _ _ _ _ Sy). exact Sf.
  Qed.

  Lemma data_start : forall src dst sph rph fs s1 q sent snt', c06_send_setup buf s2 = (s1, q, sent) ->
    LInv buf SyV (mkL src dst s1 q sph r2 (c06_recv_setup r2) rph fs snt').
  Proof.
    intros. destruct (ok_var_facts _ _ _ OK) as [L [A B]].
    pose proof (LInv_init buf SyV _ _ src dst sph rph fs (var_init_new buf entries ridx L A)) as I0.
    fold s2 in I0. rewrite H in I0. exact I0.
  Qed.

  Lemma VInv_step : forall l e l', VInv l -> c06_lstep buf true l e = Some l' -> VInv l'.
  Proof.
    intros l e l' [Fs I] H. destruct (phase_event e) eqn:Pe.
    - (* completion events *)
      destruct (lstep_phase_pres _ _ _ _ _ Pe H) as [Ps [Pr Pf]].
      destruct (l_sph l) eqn:Sp, (l_rph l) eqn:Rp.
      + split; [congruence|]. rewrite Ps, Pr. eapply LInv_step; eauto using var_H1, var_H2.
      + (* sender already in the data phase, receiver still in the size loop *)
        destruct I as [[sent E] Rc]. destruct l as [src dst s sq sph r rq rph fs snt]. simpl in *. subst.
        assert (Q : sq = SNull \/ exists m, sq = SPosted m).
        { unfold c06_send_setup in E. destruct (c06_pack buf s2) as [m s1]. destruct m; inversion E; subst; eauto. }
        destruct e; try discriminate; unfold c06_lstep in H; simpl in H.
        * destruct Q as [->|[m ->]]; try discriminate. destruct Rc as [[m0 [-> _]]|[-> _]]; simpl in H; discriminate.
        * destruct Q as [->|[m ->]]; discriminate.
        * destruct Rc as [[m0 [-> U]]|[-> _]]; [|discriminate]. inversion H; subst. split; [reflexivity|]. simpl.
          split; eauto. right. rewrite U. split; reflexivity.
      + (* receiver already in the data phase, sender has not yet noticed / left the size loop *)
        destruct I as [Sf [Sw [Sq [Rr Rq]]]]. destruct l as [src dst s sq sph r rq rph fs snt]. simpl in *. subst.
        destruct e; try discriminate; unfold c06_lstep in H; simpl in H.
        * destruct Sq as [->| ->]; discriminate.
        * destruct Sq as [->| ->]; [|discriminate]. rewrite Sf in H. inversion H; subst. split; [reflexivity|]. simpl. auto.
        * unfold c06_recv_setup in H. destruct (c06_rfin r2); discriminate.
      + split; [congruence|]. rewrite Ps, Pr. eapply LInv_step; eauto using size_H1, size_H2.
    - destruct l as [src dst s sq sph r rq rph fs snt]. simpl in *. subst.
      destruct e; try discriminate; unfold c06_lstep in H; simpl in H; try discriminate.
      + (* the sending process leaves the size loop *)
        destruct sph; [discriminate|]. destruct sq; try discriminate.
        destruct (c06_send_setup buf (c06_sswitch s)) as [[s1 q] sent] eqn:E. inversion H; subst. split; [reflexivity|]. simpl.
        destruct rph.
        * destruct I as [Sf [Sw [Sq [Rr Rq]]]]. subst. rewrite Sw in E. eapply data_start; eauto.
        * unfold LInv in I; simpl in I. destruct rq; try contradiction.
          -- destruct I as [Sy Sf]. destruct (size_done _ _ Sy Sf) as [-> Sw]. rewrite Sw in E. split; eauto.
          -- destruct I as [Sy Sf]. destruct (size_done _ _ Sy Sf) as [U Sw]. rewrite Sw in E. split; eauto.
      + (* the receiving process leaves the size loop *)
        destruct rph; [discriminate|]. destruct rq; try discriminate. inversion H; subst. split; [reflexivity|]. simpl.
        destruct sph.
        * destruct I as [[sent E] [[m [Q _]]|[_ ->]]]; [discriminate|]. eapply data_start; eauto.
        * unfold LInv in I; simpl in I. destruct sq; try contradiction.
          -- destruct I as [Sy Sf]. destruct (size_done _ _ Sy Sf) as [-> Sw]. repeat split; auto.
          -- destruct I as [Sy Rf]. assert (Sf : c06_sfin s = true) by (rewrite (size_H1 _ _ _ _ _ Sy); exact Rf).
             destruct (size_done _ _ Sy Sf) as [-> Sw]. repeat split; auto.
  Qed.

  Fixpoint lexec_all (l : c06_link) (evs : list c06_levent) : option c06_link :=
    match evs with
    | [] => Some l
    | e :: t => match c06_lstep buf true l e with Some l' => lexec_all l' t | None => None end
    end.

  Lemma VInv_exec : forall evs l l', VInv l -> lexec_all l evs = Some l' -> VInv l'.
  Proof.
    induction evs as [|e t IH]; simpl; intros l l' I H; [inversion H; subst; auto|].
    destruct (c06_lstep buf true l e) as [l1|] eqn:E; [|discriminate]. eapply IH; [|exact H]. eapply VInv_step; eauto.
  Qed.

  (* no completion event enabled => every half that is still in the size loop has a null request, i.e. its process
     is not kept in the loop by this link (this is what makes the per-process barrier pass) *)
  Lemma VInv_ready : forall l, VInv l -> (forall e, phase_event e = true -> c06_lstep buf true l e = None) ->
    (l_sph l = false -> l_sreq l = SNull) /\ (l_rph l = false -> l_rreq l = RNull).
  Proof.
    intros l [Fs I] St. destruct (l_sph l) eqn:Sp, (l_rph l) eqn:Rp; split; try discriminate; intros _.
    - destruct I as [_ [[m [Q _]]|[Q _]]]; auto. specialize (St LRecvDone eq_refl). unfold c06_lstep in St. rewrite Q in St. discriminate.
    - destruct I as [_ [_ [[Q|Q] _]]]; auto. specialize (St LSendDone eq_refl). unfold c06_lstep in St. rewrite Q in St.
      destruct (c06_sfin (l_s l)); [discriminate|]. destruct (c06_send_setup buf (l_s l)) as [[? ?] ?]. discriminate.
    - destruct (LInv_final buf true _ (size_H1 buf entries ridx) l I St) as [A _]. exact A.
    - destruct (LInv_final buf true _ (size_H1 buf entries ridx) l I St) as [_ [B _]]. exact B.
  Qed.

  (* when no event at all is enabled on the link (completion or switch), both processes are done with it and the
     receiver's scatter log, zero-length calls dropped, is the spec *)
  Lemma VInv_final : forall l, VInv l -> (forall e, c06_lstep buf true l e = None) ->
    c06_link_quiet l = true /\ c06_nonzero (c06_log l) = spec.
  Proof.
    intros l I St. pose proof (VInv_ready l I (fun e _ => St e)) as [Rs Rr]. destruct I as [Fs I].
    destruct (l_sph l) eqn:Sp, (l_rph l) eqn:Rp.
    - destruct (LInv_final buf true _ (var_H1 buf spec) l I (fun e _ => St e)) as [A [B [Sy [Sf Rf]]]].
      destruct (Sync_var_final _ _ _ _ Sy Rf) as [log [Er El]].
      unfold c06_link_quiet, c06_log. rewrite A, B, Fs, Sp, Rp, Er. auto.
    - exfalso. specialize (Rr eq_refl). specialize (St LSwitchR). unfold c06_lstep in St. rewrite Rp, Rr, Fs in St. discriminate.
    - exfalso. specialize (Rs eq_refl). specialize (St LSwitchS). unfold c06_lstep in St. rewrite Sp, Rs in St.
      destruct (c06_send_setup buf (c06_sswitch (l_s l))) as [[? ?] ?]. discriminate.
    - exfalso. specialize (Rs eq_refl). specialize (St LSwitchS). unfold c06_lstep in St. rewrite Sp, Rs in St.
      destruct (c06_send_setup buf (c06_sswitch (l_s l))) as [[? ?] ?]. discriminate.
  Qed.
End VarLink.

(* ------------------------------------------------------------------ variable-size mode: the global system *)
Record c06_vdesc := mkVD { v_src : nat; v_dst : nat; v_entries : list (list nat); v_ridx : list nat }.

Definition var_cfg (buf : nat) (ds : list c06_vdesc) (np : nat) : c06_cfg :=
  mkC buf true (map (fun d => c06_link_init_var buf (v_src d) (v_dst d) (v_entries d) (v_ridx d)) ds) (repeat false np).

Definition VRel (buf : nat) (d : c06_vdesc) (l : c06_link) : Prop :=
  c06_link_ok_var buf (v_entries d) (v_ridx d) = true /\ VInv buf (v_entries d) (v_ridx d) l.

Definition phase_ok (ph : list bool) (l : c06_link) : Prop :=
  nth_error ph (l_src l) = Some (l_sph l) /\ nth_error ph (l_dst l) = Some (l_rph l).

Definition GInvV (buf : nat) (ds : list c06_vdesc) (c : c06_cfg) : Prop :=
  c_buf c = buf /\ c_fixnew c = true /\ Forall2 (VRel buf) ds (c_links c) /\ Forall (phase_ok (c_phase c)) (c_links c).

Lemma lstep_ends : forall buf fixnew l e l', c06_lstep buf fixnew l e = Some l' -> l_src l' = l_src l /\ l_dst l' = l_dst l.
Proof.
  intros buf fixnew l e l' H. destruct l as [src dst s sq sph r rq rph fs snt]. destruct e; unfold c06_lstep in H; simpl in H.
  - destruct sq; try discriminate; destruct rq; try discriminate; inversion H; subst; auto.
  - destruct sq; try discriminate. destruct (c06_sfin s); [inversion H; subst; auto|].
    destruct (c06_send_setup buf s) as [[? ?] ?]. inversion H; subst; auto.
  - destruct rq; try discriminate. inversion H; subst; auto.
  - destruct sph; try discriminate. destruct sq; try discriminate.
    destruct (c06_send_setup buf (c06_sswitch s)) as [[? ?] ?]. inversion H; subst; auto.
  - destruct rph; try discriminate. destruct rq; try discriminate. destruct fs; try discriminate; inversion H; subst; auto.
  - destruct fs; try discriminate. inversion H; subst; auto.
Qed.

Lemma Forall_upd : forall (A : Type) (P : A -> Prop) k x l, Forall P l -> P x -> Forall P (c06_upd k x l).
Proof. induction k; intros x l F Px; destruct l; simpl; auto; inversion F; subst; constructor; auto. Qed.

Lemma nth_error_upd_same : forall (A : Type) k (x y : A) l, nth_error l k = Some y -> nth_error (c06_upd k x l) k = Some x.
Proof. induction k; intros x y l H; destruct l; simpl in *; try discriminate; eauto. Qed.

Lemma nth_error_upd_other : forall (A : Type) k j (x : A) l, j <> k -> nth_error (c06_upd k x l) j = nth_error l j.
Proof. induction k; intros j x l H; destruct l, j; simpl in *; auto; try lia; try (apply IHk; lia). Qed.

Lemma GInvV_init : forall buf ds np,
  Forall (fun d => c06_link_ok_var buf (v_entries d) (v_ridx d) = true /\ v_src d < np /\ v_dst d < np) ds ->
  GInvV buf ds (var_cfg buf ds np).
Proof.
  intros buf ds np H. repeat split; simpl; auto.
  - induction H as [|d t [Ok _] _ IH]; simpl; constructor; auto. split; auto. apply VInv_init; auto.
  - assert (R : forall k, k < np -> nth_error (repeat false np) k = Some false).
    { clear. induction np; intros k Hk; [lia|]. destruct k; simpl; auto. apply IHnp. lia. }
    induction H as [|d t [Ok [A B]] _ IH]; simpl; constructor; auto.
    unfold phase_ok, c06_link_init_var. destruct (c06_send_setup buf _) as [[? ?] ?]. simpl. split; apply R; auto.
Qed.

Lemma VInv_fs : forall buf en ri l, VInv buf en ri l -> l_fs l = FsNone.
Proof. intros buf en ri l [F _]. exact F. Qed.

Lemma switch_link_ok : forall buf en ri p l, VInv buf en ri l -> c06_link_ok_var buf en ri = true ->
  c06_ready_to_switch p l = true ->
  (l_src l = p -> l_sph l = false) -> (l_dst l = p -> l_rph l = false) ->
  let l' := c06_switch_link buf true p l in
  VInv buf en ri l' /\ l_src l' = l_src l /\ l_dst l' = l_dst l /\
  l_sph l' = (if l_src l =? p then true else l_sph l) /\ l_rph l' = (if l_dst l =? p then true else l_rph l).
Proof.
  intros buf en ri p l I Ok Rd Hs Hr. unfold c06_switch_link, c06_ready_to_switch in *.
  apply andb_prop in Rd. destruct Rd as [Rd1 Rd2].
  (* sender half *)
  assert (A : exists l1, (if l_src l =? p then match c06_lstep buf true l LSwitchS with Some x => x | None => l end else l) = l1 /\
              VInv buf en ri l1 /\ l_src l1 = l_src l /\ l_dst l1 = l_dst l /\ l_rph l1 = l_rph l /\ l_rreq l1 = l_rreq l /\
              l_sph l1 = (if l_src l =? p then true else l_sph l)).
  { destruct (l_src l =? p) eqn:Es.
    - apply andb_prop in Rd1. destruct Rd1 as [Sp Sq].
      destruct l as [src dst s sq sph r rq rph fs snt]. simpl in *. destruct sph; [discriminate|]. destruct sq; try discriminate.
      destruct (c06_send_setup buf (c06_sswitch s)) as [[s1 q] sent] eqn:E.
      unfold c06_lstep. simpl.
      eexists. split; [reflexivity|]. split; [|simpl; repeat split; auto].
      eapply (VInv_step buf en ri Ok _ LSwitchS); [exact I|]. unfold c06_lstep. simpl. rewrite E. reflexivity.
    - eexists. split; [reflexivity|]. split; [exact I|repeat split; auto]. }
  destruct A as [l1 [E1 [I1 [S1 [D1 [Rp1 [Rq1 Sp1]]]]]]]. rewrite E1. cbv zeta. rewrite D1.
  destruct (l_dst l =? p) eqn:Ed.
  - rewrite <- Rp1, <- Rq1 in Rd2. rewrite <- Sp1, <- S1, <- D1. clear E1 Sp1 S1 D1 Rp1 Rq1 Hs Hr Rd1 I.
    apply andb_prop in Rd2. destruct Rd2 as [Rp Rq]. pose proof (VInv_fs _ _ _ _ I1) as F1.
    destruct l1 as [src dst s sq sph r rq rph fs snt]. simpl in *. subst fs.
    destruct rph; [discriminate|]. destruct rq; try discriminate.
    split; [|repeat split; auto].
    eapply (VInv_step buf en ri Ok _ LSwitchR); [exact I1|]. unfold c06_lstep. simpl. reflexivity.
  - split; [exact I1|repeat split; auto].
Qed.

Lemma GInvV_step : forall buf ds c e c', GInvV buf ds c -> c06_gstep c e = Some c' -> GInvV buf ds c'.
Proof.
  intros buf ds c e c' [Hb [Hf [F P]]] H. destruct e as [k le|p].
  - destruct (gstep_link_inv _ _ _ _ H) as [l [l' [N [E ->]]]]. rewrite Hb, Hf in E. repeat split; simpl; auto.
    + destruct (Forall2_nth _ _ _ _ _ _ _ F N) as [d [Nd [Ok I]]].
      eapply Forall2_upd; eauto. split; auto. eapply VInv_step; eauto.
    + destruct (Forall2_nth _ _ _ _ _ _ _ F N) as [d [Nd [Ok I]]].
      apply Forall_upd; auto. rewrite Forall_forall in P. pose proof N as N'. apply nth_error_In in N'. specialize (P _ N').
      destruct (lstep_ends _ _ _ _ _ E) as [Es Ed]. unfold phase_ok in *. rewrite Es, Ed.
      destruct (phase_event le) eqn:Pe.
      * destruct (lstep_phase_pres _ _ _ _ _ Pe E) as [A [B _]]. rewrite A, B. exact P.
      * exfalso. pose proof (VInv_fs _ _ _ _ I) as Fs. simpl in H.
        destruct le; try discriminate.
        -- rewrite N, Fs in H. discriminate.
        -- unfold c06_lstep in E. rewrite Fs in E. discriminate.
  - simpl in H. destruct (nth_error (c_phase c) p) as [[|]|] eqn:N; try discriminate.
    destruct (forallb (c06_ready_to_switch p) (c_links c)) eqn:Rd; try discriminate. inversion H; subst. clear H.
    rewrite forallb_forall in Rd. rewrite Forall_forall in P.
    assert (G : forall ds ls, Forall2 (VRel (c_buf c)) ds ls -> (forall l, In l ls -> In l (c_links c)) ->
      Forall2 (VRel (c_buf c)) ds (map (c06_switch_link (c_buf c) true p) ls) /\
      Forall (phase_ok (c06_upd p true (c_phase c))) (map (c06_switch_link (c_buf c) true p) ls)).
    { induction 1 as [|d l ds' ls' [Ok I] F' IH]; intros Sub; simpl; [split; constructor|].
      destruct (IH (fun l0 Hl => Sub l0 (or_intror Hl))) as [IH1 IH2].
      assert (Hl : In l (c_links c)) by (apply Sub; left; auto).
      destruct (P _ Hl) as [Ps Pr].
      assert (Hs : l_src l = p -> l_sph l = false) by (intros <-; congruence).
      assert (Hr : l_dst l = p -> l_rph l = false) by (intros <-; congruence).
      destruct (switch_link_ok _ _ _ p l I Ok (Rd _ Hl) Hs Hr) as [I' [Es [Ed [Sp Rp]]]].
      split; constructor; auto.
      - split; auto.
      - unfold phase_ok. rewrite Es, Ed, Sp, Rp. split.
        + destruct (l_src l =? p) eqn:Q.
          * apply Nat.eqb_eq in Q. rewrite Q. eapply nth_error_upd_same; eauto.
          * apply Nat.eqb_neq in Q. rewrite nth_error_upd_other; auto.
        + destruct (l_dst l =? p) eqn:Q.
          * apply Nat.eqb_eq in Q. rewrite Q. eapply nth_error_upd_same; eauto.
          * apply Nat.eqb_neq in Q. rewrite nth_error_upd_other; auto. }
    rewrite Hf. destruct (G ds (c_links c)) as [G1 G2]; auto.
    repeat split; simpl; auto.
Qed.

Lemma GInvV_exec : forall buf ds evs c c', GInvV buf ds c -> c06_exec c evs = Some c' -> GInvV buf ds c'.
Proof.
  induction evs as [|e t IH]; simpl; intros c c' I H; [inversion H; subst; auto|].
  destruct (c06_gstep c e) as [c1|] eqn:E; [|discriminate]. eapply IH; [|exact H]. eapply GInvV_step; eauto.
Qed.

Lemma forallb_id_nth : forall ph, (forall p, nth_error ph p = Some false -> False) -> forallb (fun b : bool => b) ph = true.
Proof.
  induction ph as [|b t IH]; intros H; simpl; auto. destruct b.
  - simpl. apply IH. intros p Hp. apply (H (S p)). exact Hp.
  - exfalso. apply (H 0). reflexivity.
Qed.

(* C06 for variable-size handles (code after fixes/C06-1), all schedules: whatever completion events and process
   switches fire in whatever order, when nothing is enabled any more every process has returned and every link's
   scatter log (zero-length calls dropped) is the spec *)
Lemma P_delivery_var : forall buf ds np evs c',
  Forall (fun d => c06_link_ok_var buf (v_entries d) (v_ridx d) = true /\ v_src d < np /\ v_dst d < np) ds ->
  c06_exec (var_cfg buf ds np) evs = Some c' -> c06_enabled c' = [] ->
  c06_returned c' = true /\
  Forall2 (fun d l => c06_nonzero (c06_log l) = c06_spec_link (v_entries d) (v_ridx d)) ds (c_links c').
Proof.
  intros buf ds np evs c' Ok Ex En.
  destruct (GInvV_exec buf ds evs _ _ (GInvV_init buf ds np Ok) Ex) as [Hb [Hf [F P]]].
  (* no completion event is enabled on any link *)
  assert (Hk : forall l, In l (c_links c') -> forall e, phase_event e = true -> c06_lstep buf true l e = None).
  { intros l Hl e Pe. apply In_nth_error in Hl. destruct Hl as [k N].
    assert (Kl : k < length (c_links c')) by (apply nth_error_Some; congruence).
    destruct e; try discriminate.
    - pose proof (not_enabled c' (GLink k LMatch) En (in_all_events c' k LMatch Kl ltac:(simpl; auto 6))) as G.
      cbn -[c06_lstep] in G. rewrite N, Hb, Hf in G. destruct (c06_lstep buf true l LMatch); [discriminate|auto].
    - pose proof (not_enabled c' (GLink k LSendDone) En (in_all_events c' k LSendDone Kl ltac:(simpl; auto 6))) as G.
      cbn -[c06_lstep] in G. rewrite N, Hb, Hf in G. destruct (c06_lstep buf true l LSendDone); [discriminate|auto].
    - pose proof (not_enabled c' (GLink k LRecvDone) En (in_all_events c' k LRecvDone Kl ltac:(simpl; auto 6))) as G.
      cbn -[c06_lstep] in G. rewrite N, Hb, Hf in G. destruct (c06_lstep buf true l LRecvDone); [discriminate|auto]. }
  assert (HI : forall l, In l (c_links c') -> exists d, VRel buf d l).
  { clear - F. induction F; intros l0 Hl0; [destruct Hl0|]. destruct Hl0 as [<-|Hl]; eauto. }
  (* hence no process is still in the size loop: its barrier would be open *)
  assert (Ph : forall p, nth_error (c_phase c') p = Some false -> False).
  { intros p N.
    assert (Kp : p < length (c_phase c')) by (apply nth_error_Some; congruence).
    assert (Hin : In (GSwitch p) (c06_all_events c')).
    { unfold c06_all_events. apply in_or_app. right. apply in_map. apply in_seq. lia. }
    pose proof (not_enabled c' (GSwitch p) En Hin) as G. simpl in G. rewrite N in G.
    assert (R : forallb (c06_ready_to_switch p) (c_links c') = true).
    { apply forallb_forall. intros l Hl. destruct (HI l Hl) as [d [Okd I]].
      destruct (VInv_ready _ _ _ l I (Hk l Hl)) as [Rs Rr].
      rewrite Forall_forall in P. destruct (P l Hl) as [Ps Pr].
      unfold c06_ready_to_switch. apply andb_true_intro. split.
      - destruct (l_src l =? p) eqn:Q; auto. apply Nat.eqb_eq in Q. rewrite Q, N in Ps.
        assert (Sp : l_sph l = false) by congruence. rewrite Sp, (Rs Sp). reflexivity.
      - destruct (l_dst l =? p) eqn:Q; auto. apply Nat.eqb_eq in Q. rewrite Q, N in Pr.
        assert (Rp : l_rph l = false) by congruence. rewrite Rp, (Rr Rp). reflexivity. }
    rewrite R in G. discriminate. }
  pose proof (forallb_id_nth _ Ph) as Pall.
  assert (Q : Forall2 (fun d l => c06_link_quiet l = true /\ c06_nonzero (c06_log l) = c06_spec_link (v_entries d) (v_ridx d)) ds (c_links c')).
  { rewrite Forall_forall in P.
    assert (G : forall ds ls, Forall2 (VRel buf) ds ls -> (forall l, In l ls -> In l (c_links c')) ->
       Forall2 (fun d l => c06_link_quiet l = true /\ c06_nonzero (c06_log l) = c06_spec_link (v_entries d) (v_ridx d)) ds ls).
    { induction 1 as [|d l ds' ls' [Okd I] F' IH]; intros Sub; constructor.
      - assert (Hl : In l (c_links c')) by (apply Sub; left; auto).
        destruct (P l Hl) as [Ps Pr].
        assert (Sp : l_sph l = true).
        { destruct (l_sph l) eqn:X; auto. exfalso. eapply Ph; eauto. }
        assert (Rp : l_rph l = true).
        { destruct (l_rph l) eqn:X; auto. exfalso. eapply Ph; eauto. }
        apply (VInv_final buf (v_entries d) (v_ridx d) l I).
        intros e. destruct (phase_event e) eqn:Pe; [apply Hk; auto|].
        pose proof (VInv_fs _ _ _ _ I) as Fs.
        destruct e; try discriminate; unfold c06_lstep; rewrite ?Sp, ?Rp, ?Fs; reflexivity.
      - apply IH. intros l0 Hl0. apply Sub. right; auto. }
    apply G; auto. }
  split.
  - unfold c06_returned. rewrite Pall, andb_true_r. clear - Q. induction Q; simpl; auto. destruct H as [-> _]. auto.
  - clear - Q. induction Q; constructor; auto. destruct H as [_ ->]. reflexivity.
Qed.

(* ------------------------------------------------------------------ the configurations the driver runs are var_cfg's,
   and the oracle c06_spec_case is c06_spec_link mapped over the same link descriptions *)
Lemma all_some_map : forall (A B : Type) (h : A -> B) (l : list (option A)),
  c06_all_some (map (option_map h) l) = option_map (map h) (c06_all_some l).
Proof.
  induction l as [|[a|] t IH]; simpl; auto. rewrite IH. destruct (c06_all_some t); reflexivity.
Qed.

Lemma flat_map_map_inner : forall (A B C : Type) (h : B -> C) (D : A -> list B) (ps : list A),
  flat_map (fun p => map h (D p)) ps = map h (flat_map D ps).
Proof. induction ps; simpl; auto. rewrite IHps, map_app. reflexivity. Qed.

Lemma map_combine_fst : forall (A B C : Type) (g : A -> C) (a : list A) (b : list B), length a = length b ->
  map (fun ab : A * B => g (fst ab)) (combine a b) = map g a.
Proof. induction a; destruct b; simpl; intros; try discriminate; auto. f_equal; auto. Qed.

Lemma fixed_sizes_len : forall backward sizes cur mine, length (c06_fixed_sizes backward sizes cur mine) = length mine.
Proof. intros backward sizes cur mine. revert cur. induction mine; simpl; intros; auto. Qed.

Definition c06_vdescs_rank (backward : bool) (ni w : nat) (sizes : list (list nat)) (es : list c06_entry) (p : nat)
  : list (option c06_vdesc) :=
  map (fun e : c06_entry =>
         match c06_find_entry (e_q e) p es with
         | None => None
         | Some e' => Some (mkVD p (e_q e) (map (fun i => c06_gather ni w p i (c06_size_of sizes p i)) (c06_send_list backward e))
                                 (c06_recv_list backward e'))
         end) (c06_entries_of p es).

Definition c06_vdescs backward ni w np sizes es := c06_all_some (flat_map (c06_vdescs_rank backward ni w sizes es) (seq 0 np)).

Lemma init_var_eq : forall backward fixnew buf ni w np sizes es,
  c06_init true backward fixnew buf ni w np sizes es =
  option_map (fun ds => mkC buf fixnew (map (fun d => c06_link_init_var buf (v_src d) (v_dst d) (v_entries d) (v_ridx d)) ds) (repeat false np))
             (c06_vdescs backward ni w np sizes es).
Proof.
  intros. unfold c06_init, c06_vdescs.
  assert (L : forall p, c06_links_of_rank true backward buf ni w sizes es p =
                        map (option_map (fun d => c06_link_init_var buf (v_src d) (v_dst d) (v_entries d) (v_ridx d)))
                            (c06_vdescs_rank backward ni w sizes es p)).
  { intros p. unfold c06_links_of_rank, c06_vdescs_rank. rewrite map_map.
    rewrite <- (map_combine_fst _ _ _ (fun e : c06_entry => option_map _ match c06_find_entry (e_q e) p es with None => None | Some e' => Some _ end)
                  (c06_entries_of p es) (c06_fixed_sizes backward sizes 1 (c06_entries_of p es))) by (rewrite fixed_sizes_len; reflexivity).
    apply map_ext. intros [e f]. simpl. destruct (c06_find_entry (e_q e) p es); reflexivity. }
  rewrite (flat_map_ext _ _ L). rewrite flat_map_map_inner, all_some_map.
  destruct (c06_all_some (flat_map (c06_vdescs_rank backward ni w sizes es) (seq 0 np))); reflexivity.
Qed.

Lemma spec_case_eq : forall backward ni w np sizes es,
  c06_spec_case backward ni w np sizes es =
  option_map (map (fun d => (v_src d, v_dst d, c06_spec_link (v_entries d) (v_ridx d)))) (c06_vdescs backward ni w np sizes es).
Proof.
  intros. unfold c06_spec_case, c06_vdescs.
  assert (S : forall p, c06_spec_rank backward ni w sizes es p =
                        map (option_map (fun d => (v_src d, v_dst d, c06_spec_link (v_entries d) (v_ridx d))))
                            (c06_vdescs_rank backward ni w sizes es p)).
  { intros p. unfold c06_spec_rank, c06_vdescs_rank. rewrite map_map. apply map_ext. intros e.
    destruct (c06_find_entry (e_q e) p es); reflexivity. }
  rewrite (flat_map_ext _ _ S). rewrite flat_map_map_inner, all_some_map. reflexivity.
Qed.

Lemma P_init_is_var_cfg : forall backward fixnew buf ni w np sizes es c,
  c06_init true backward fixnew buf ni w np sizes es = Some c ->
  exists ds, c = mkC buf fixnew (map (fun d => c06_link_init_var buf (v_src d) (v_dst d) (v_entries d) (v_ridx d)) ds) (repeat false np) /\
    c06_spec_case backward ni w np sizes es = Some (map (fun d => (v_src d, v_dst d, c06_spec_link (v_entries d) (v_ridx d))) ds).
Proof.
  intros backward fixnew buf ni w np sizes es c H. rewrite init_var_eq in H. rewrite spec_case_eq.
  destruct (c06_vdescs backward ni w np sizes es) as [ds|]; [|discriminate]. simpl in *. inversion H; subst. exists ds. split; reflexivity.
Qed.
