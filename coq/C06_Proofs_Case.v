(* C06 — second proofs file: total correctness of the runner under every schedule, the case-level statement (what the
   driver runs, with the property's precondition as an executable predicate instead of per-link hypotheses),
   exactly-once/in-order corollaries, what happens outside the precondition. *)
From Coq Require Import List Arith Bool PeanoNat Lia.
From DuneV Require Import C06_Model C06_Spec C06_Proofs.
Import ListNotations.

Lemma Forall2_weaken : forall (A B : Type) (P Q : A -> B -> Prop) la lb, (forall a b, P a b -> Q a b) -> Forall2 P la lb -> Forall2 Q la lb.
Proof. intros A B P Q la lb H F. induction F; constructor; auto. Qed.

(* ------------------------------------------------------------------ the runner only performs executions *)
Lemma run_exec : forall fuel sched c, exists evs, c06_exec c evs = Some (fst (c06_run fuel sched c)).
Proof.
  induction fuel as [|f IH]; intros sched c; [exists []; reflexivity|]. rewrite run_S.
  destruct (c06_enabled c) as [|e0 es]; [exists []; reflexivity|].
  destruct sched as [|x t]; cbv zeta beta iota.
  - destruct (c06_gstep c (nth 0 (e0 :: es) e0)) as [c'|] eqn:G; [|exists []; reflexivity].
    destruct (IH [] c') as [evs E]. exists (nth 0 (e0 :: es) e0 :: evs). cbn [c06_exec]. rewrite G. exact E.
  - destruct (c06_gstep c (nth (x mod S (length es)) (e0 :: es) e0)) as [c'|] eqn:G; [|exists []; reflexivity].
    destruct (IH t c') as [evs E]. exists (nth (x mod S (length es)) (e0 :: es) e0 :: evs). cbn [c06_exec]. rewrite G. exact E.
Qed.

(* total correctness, variable-size handles: under EVERY schedule the run stops, every process has returned and
   every link delivered the spec *)
Lemma P_run_delivers_var : forall buf ds np sched,
  Forall (fun d => c06_link_ok_var buf (v_entries d) (v_ridx d) = true /\ v_src d < np /\ v_dst d < np) ds ->
  let c0 := var_cfg buf ds np in
  let r := c06_run (c06_case_fuel c0) sched c0 in
  snd r = true /\ c06_returned (fst r) = true /\
  Forall2 (fun d l => c06_nonzero (c06_log l) = c06_spec_link (v_entries d) (v_ridx d)) ds (c_links (fst r)).
Proof.
  intros buf ds np sched Ok c0 r.
  destruct (P_terminates (c06_case_fuel c0) sched c0 (P_case_fuel c0)) as [St En].
  destruct (run_exec (c06_case_fuel c0) sched c0) as [evs Ex].
  destruct (P_delivery_var buf ds np evs _ Ok Ex En) as [R L]. auto.
Qed.

Lemma P_run_delivers_fixed : forall buf fixnew ds np sched,
  Forall (fun d => c06_link_ok_fixed buf (d_f d) (d_entries d) (d_ridx d) = true) ds ->
  let c0 := fixed_cfg buf fixnew ds np in
  let r := c06_run (c06_case_fuel c0) sched c0 in
  snd r = true /\ c06_returned (fst r) = true /\
  Forall2 (fun d l => c06_nonzero (c06_log l) = c06_spec_link (d_entries d) (d_ridx d)) ds (c_links (fst r)).
Proof.
  intros buf fixnew ds np sched Ok c0 r.
  destruct (P_terminates (c06_case_fuel c0) sched c0 (P_case_fuel c0)) as [St En].
  destruct (run_exec (c06_case_fuel c0) sched c0) as [evs Ex].
  destruct (P_delivery_fixed buf fixnew ds np evs _ Ok Ex En) as [R L]. repeat split; auto.
  eapply Forall2_weaken; [|exact L]. intros a b [H _]. exact H.
Qed.

(* progress: every reachable configuration in which some process has not returned enables an event *)
Lemma P_progress_var : forall buf ds np evs c,
  Forall (fun d => c06_link_ok_var buf (v_entries d) (v_ridx d) = true /\ v_src d < np /\ v_dst d < np) ds ->
  c06_exec (var_cfg buf ds np) evs = Some c -> c06_returned c = false -> c06_enabled c <> [].
Proof.
  intros buf ds np evs c Ok Ex Nr En. destruct (P_delivery_var buf ds np evs c Ok Ex En) as [R _]. congruence.
Qed.

Lemma P_progress_fixed : forall buf fixnew ds np evs c,
  Forall (fun d => c06_link_ok_fixed buf (d_f d) (d_entries d) (d_ridx d) = true) ds ->
  c06_exec (fixed_cfg buf fixnew ds np) evs = Some c -> c06_returned c = false -> c06_enabled c <> [].
Proof.
  intros buf fixnew ds np evs c Ok Ex Nr En. destruct (P_delivery_fixed buf fixnew ds np evs c Ok Ex En) as [R _]. congruence.
Qed.

(* ------------------------------------------------------------------ the case-level statement *)
Lemma all_some_spec : forall (A : Type) (l : list (option A)) ds, c06_all_some l = Some ds -> Forall2 (fun o d => o = Some d) l ds.
Proof.
  induction l as [|[a|] t IH]; simpl; intros ds H; try discriminate.
  - inversion H; constructor.
  - destruct (c06_all_some t) as [r|]; [|discriminate]. inversion H; subst. constructor; auto.
Qed.

Lemma all_some_total : forall (A : Type) (l : list (option A)), (forall o, In o l -> o <> None) -> exists ds, c06_all_some l = Some ds.
Proof.
  induction l as [|[a|] t IH]; simpl; intros H.
  - eauto.
  - destruct IH as [r E]; [intros o Ho; apply H; auto|]. rewrite E. eauto.
  - exfalso. apply (H None); auto.
Qed.

Lemma Forall2_some_forall : forall (A : Type) (P : A -> Prop) l ds, Forall2 (fun o d => o = Some d) l ds ->
  (forall o, In o l -> exists d, o = Some d /\ P d) -> Forall P ds.
Proof.
  intros A P l ds F. induction F; intros H'; constructor.
  - destruct (H' x (or_introl eq_refl)) as [d [E Pd]]. congruence.
  - apply IHF. intros o Ho. apply H'. right; auto.
Qed.

Lemma gather_len : forall ni w p i n, length (c06_gather ni w p i n) = n.
Proof.
  intros. unfold c06_gather. generalize 0 as cur. induction n; intros cur; simpl; auto.
Qed.

Lemma vdescs_rank_ok : forall backward buf ni w np sizes es p o,
  c06_case_ok_var backward buf np sizes es = true -> p < np -> In o (c06_vdescs_rank backward ni w sizes es p) ->
  exists d, o = Some d /\ c06_link_ok_var buf (v_entries d) (v_ridx d) = true /\ v_src d < np /\ v_dst d < np.
Proof.
  intros backward buf ni w np sizes es p o Ok Hp Hin. unfold c06_case_ok_var in Ok. apply andb_prop in Ok. destruct Ok as [B Ok].
  unfold c06_vdescs_rank in Hin. apply in_map_iff in Hin. destruct Hin as [e [Ho He]].
  unfold c06_entries_of in He. apply filter_In in He. destruct He as [He Ep]. apply Nat.eqb_eq in Ep.
  rewrite forallb_forall in Ok. specialize (Ok e He). unfold c06_entry_ok_var in Ok. rewrite Ep in Ok.
  apply andb_prop in Ok. destruct Ok as [Ok Sz]. apply andb_prop in Ok. destruct Ok as [Q Fe]. apply Nat.ltb_lt in Q.
  destruct (c06_find_entry (e_q e) p es) as [e'|]; [|discriminate]. apply Nat.eqb_eq in Fe.
  eexists. split; [symmetry; exact Ho|]. simpl. repeat split; auto.
  unfold c06_link_ok_var. rewrite map_length, Fe, Nat.eqb_refl, B. simpl. rewrite andb_true_r.
  apply forallb_forall. intros x Hx. apply in_map_iff in Hx. destruct Hx as [i [<- Hi]]. rewrite gather_len.
  rewrite forallb_forall in Sz. apply Sz. exact Hi.
Qed.

Lemma link_init_var_ends : forall buf s d en ri, l_src (c06_link_init_var buf s d en ri) = s /\ l_dst (c06_link_init_var buf s d en ri) = d.
Proof. intros. unfold c06_link_init_var. destruct (c06_send_setup buf _) as [[? ?] ?]. split; reflexivity. Qed.

Lemma map_upd_same : forall (A B : Type) (f : A -> B) k x y l, nth_error l k = Some y -> f x = f y -> map f (c06_upd k x l) = map f l.
Proof. induction k; intros x y l N E; destruct l; simpl in *; try discriminate; auto. inversion N; subst. rewrite E; auto. f_equal. eapply IHk; eauto. Qed.

Lemma switch_link_ends : forall buf fx p l, l_src (c06_switch_link buf fx p l) = l_src l /\ l_dst (c06_switch_link buf fx p l) = l_dst l.
Proof.
  intros. unfold c06_switch_link.
  set (l1 := if l_src l =? p then match c06_lstep buf fx l LSwitchS with Some x => x | None => l end else l).
  assert (A : l_src l1 = l_src l /\ l_dst l1 = l_dst l).
  { unfold l1. destruct (l_src l =? p); auto. destruct (c06_lstep buf fx l LSwitchS) eqn:E; auto. eapply lstep_ends; eauto. }
  destruct A as [A1 A2]. destruct (l_dst l1 =? p); auto.
  destruct (c06_lstep buf fx l1 LSwitchR) eqn:E; auto. destruct (lstep_ends _ _ _ _ _ E) as [B1 B2]. split; congruence.
Qed.

Lemma gstep_ends : forall c e c', c06_gstep c e = Some c' ->
  map l_src (c_links c') = map l_src (c_links c) /\ map l_dst (c_links c') = map l_dst (c_links c).
Proof.
  intros c e c' H. destruct e as [k le|p].
  - destruct (gstep_link_inv _ _ _ _ H) as [l [l' [N [E ->]]]]. simpl. destruct (lstep_ends _ _ _ _ _ E) as [A B].
    split; eapply map_upd_same; eauto.
  - simpl in H. destruct (nth_error (c_phase c) p) as [[|]|]; try discriminate.
    destruct (forallb (c06_ready_to_switch p) (c_links c)); [|discriminate]. inversion H; subst. simpl.
    rewrite !map_map. split; apply map_ext; intros l; apply switch_link_ends.
Qed.

Lemma exec_ends : forall evs c c', c06_exec c evs = Some c' ->
  map l_src (c_links c') = map l_src (c_links c) /\ map l_dst (c_links c') = map l_dst (c_links c).
Proof.
  induction evs as [|e t IH]; simpl; intros c c' H; [inversion H; auto|].
  destruct (c06_gstep c e) as [c1|] eqn:E; [|discriminate]. destruct (IH _ _ H) as [A B]. destruct (gstep_ends _ _ _ E) as [A1 B1].
  split; congruence.
Qed.

Lemma observe_eq : forall ds ls,
  map l_src ls = map v_src ds -> map l_dst ls = map v_dst ds ->
  Forall2 (fun d l => c06_nonzero (c06_log l) = c06_spec_link (v_entries d) (v_ridx d)) ds ls ->
  map (fun l => (l_src l, l_dst l, c06_nonzero (c06_log l))) ls =
  map (fun d => (v_src d, v_dst d, c06_spec_link (v_entries d) (v_ridx d))) ds.
Proof.
  intros ds ls S D F. revert S D. induction F; simpl; intros S D; auto.
  inversion S; inversion D. rewrite H, H1, H3. f_equal. auto.
Qed.

(* C06 at the level of a whole case, variable-size handles: if the case satisfies the property's precondition then the
   configuration exists and, under EVERY schedule, the run stops with all processes returned and the observation
   (per ordered pair the scatter calls with >= 1 item) equal to the spec -- forward and backward alike *)
Lemma P_case_delivery_var : forall backward buf ni w np sizes es,
  c06_case_ok_var backward buf np sizes es = true ->
  exists c0, c06_init true backward true buf ni w np sizes es = Some c0 /\
    forall sched, let r := c06_run (c06_case_fuel c0) sched c0 in
      snd r = true /\ c06_returned (fst r) = true /\ Some (c06_observe (fst r)) = c06_spec_case backward ni w np sizes es.
Proof.
  intros backward buf ni w np sizes es Ok.
  assert (T : exists ds, c06_vdescs backward ni w np sizes es = Some ds).
  { apply all_some_total. intros o Ho. apply in_flat_map in Ho. destruct Ho as [p [Hp Ho]]. apply in_seq in Hp.
    destruct (vdescs_rank_ok backward buf ni w np sizes es p o Ok) as [d [E _]]; auto; try lia. congruence. }
  destruct T as [ds E]. rewrite init_var_eq, spec_case_eq, E. simpl. eexists. split; [reflexivity|]. intros sched.
  assert (Okd : Forall (fun d => c06_link_ok_var buf (v_entries d) (v_ridx d) = true /\ v_src d < np /\ v_dst d < np) ds).
  { eapply Forall2_some_forall; [apply all_some_spec; exact E|]. intros o Ho. apply in_flat_map in Ho. destruct Ho as [p [Hp Ho]].
    apply in_seq in Hp. eapply vdescs_rank_ok; eauto. lia. }
  pose proof (P_run_delivers_var buf ds np sched Okd) as R. cbv zeta in R. fold (var_cfg buf ds np).
  destruct R as [St [Rt L]]. cbv zeta. repeat split; auto.
  destruct (run_exec (c06_case_fuel (var_cfg buf ds np)) sched (var_cfg buf ds np)) as [evs Ex].
  destruct (exec_ends _ _ _ Ex) as [Hs Hd]. f_equal. unfold c06_observe. apply observe_eq; auto.
  - rewrite Hs. unfold var_cfg. simpl. rewrite map_map. apply map_ext. intros d. apply link_init_var_ends.
  - rewrite Hd. unfold var_cfg. simpl. rewrite map_map. apply map_ext. intros d. apply link_init_var_ends.
Qed.

(* ------------------------------------------------------------------ the same for fixed-size handles *)
Definition c06_fdescs_rank (backward : bool) (ni w : nat) (sizes : list (list nat)) (es : list c06_entry) (p : nat)
  : list (option c06_fdesc) :=
  let mine := c06_entries_of p es in
  map (fun ef : c06_entry * nat =>
         let (e, f) := ef in
         match c06_find_entry (e_q e) p es with
         | None => None
         | Some e' => Some (mkFD p (e_q e) f (c06_own_fixed backward sizes es (e_q e) p)
                                 (map (fun i => c06_gather ni w p i (c06_size_of sizes p i)) (c06_send_list backward e))
                                 (c06_recv_list backward e'))
         end) (combine mine (c06_fixed_sizes backward sizes 1 mine)).

Definition c06_fdescs backward ni w np sizes es := c06_all_some (flat_map (c06_fdescs_rank backward ni w sizes es) (seq 0 np)).

Lemma init_fixed_eq : forall backward fixnew buf ni w np sizes es,
  c06_init false backward fixnew buf ni w np sizes es = option_map (fun ds => fixed_cfg buf fixnew ds np) (c06_fdescs backward ni w np sizes es).
Proof.
  intros. unfold c06_init, c06_fdescs, fixed_cfg.
  assert (L : forall p, c06_links_of_rank false backward buf ni w sizes es p =
                        map (option_map (fun d => c06_link_init_fixed buf (d_src d) (d_dst d) (d_f d) (d_own d) (d_entries d) (d_ridx d)))
                            (c06_fdescs_rank backward ni w sizes es p)).
  { intros p. unfold c06_links_of_rank, c06_fdescs_rank. rewrite map_map. apply map_ext. intros [e f].
    destruct (c06_find_entry (e_q e) p es); reflexivity. }
  rewrite (flat_map_ext _ _ L). rewrite flat_map_map_inner, all_some_map.
  destruct (c06_all_some (flat_map (c06_fdescs_rank backward ni w sizes es) (seq 0 np))); reflexivity.
Qed.

Lemma spec_case_eq_fixed : forall backward ni w np sizes es,
  c06_spec_case backward ni w np sizes es =
  option_map (map (fun d => (d_src d, d_dst d, c06_spec_link (d_entries d) (d_ridx d)))) (c06_fdescs backward ni w np sizes es).
Proof.
  intros. unfold c06_spec_case, c06_fdescs.
  assert (S : forall p, c06_spec_rank backward ni w sizes es p =
                        map (option_map (fun d => (d_src d, d_dst d, c06_spec_link (d_entries d) (d_ridx d))))
                            (c06_fdescs_rank backward ni w sizes es p)).
  { intros p. unfold c06_spec_rank, c06_fdescs_rank. rewrite map_map.
    rewrite <- (map_combine_fst _ _ _ (fun e : c06_entry => match c06_find_entry (e_q e) p es with None => None | Some e' => Some _ end)
                  (c06_entries_of p es) (c06_fixed_sizes backward sizes 1 (c06_entries_of p es))) by (rewrite fixed_sizes_len; reflexivity).
    apply map_ext. intros [e f]. simpl. destruct (c06_find_entry (e_q e) p es); reflexivity. }
  rewrite (flat_map_ext _ _ S). rewrite flat_map_map_inner, all_some_map. reflexivity.
Qed.

Lemma fdescs_rank_ok : forall backward buf ni w np sizes es p o,
  c06_case_ok_fixed backward buf np sizes es = true -> p < np -> In o (c06_fdescs_rank backward ni w sizes es p) ->
  exists d, o = Some d /\ c06_link_ok_fixed buf (d_f d) (d_entries d) (d_ridx d) = true.
Proof.
  intros backward buf ni w np sizes es p o Ok Hp Hin. unfold c06_case_ok_fixed in Ok. rewrite forallb_forall in Ok.
  assert (Hs : In p (seq 0 np)) by (apply in_seq; lia). specialize (Ok p Hs). unfold c06_rank_ok_fixed in Ok.
  rewrite forallb_forall in Ok. unfold c06_fdescs_rank in Hin. apply in_map_iff in Hin. destruct Hin as [[e f] [Ho He]].
  specialize (Ok _ He). simpl in Ok. rewrite !andb_true_iff in Ok. destruct Ok as [[[[Q Fe] Sz] F1] Fb].
  destruct (c06_find_entry (e_q e) p es) as [e'|]; [|discriminate]. apply Nat.eqb_eq in Fe.
  eexists. split; [symmetry; exact Ho|]. cbn [d_f d_entries d_ridx]. unfold c06_link_ok_fixed. rewrite !andb_true_iff. repeat split; auto.
  - rewrite map_length, Fe. apply Nat.eqb_refl.
  - apply forallb_forall. intros x Hx. apply in_map_iff in Hx. destruct Hx as [i [<- Hi]]. rewrite gather_len.
    rewrite forallb_forall in Sz. apply Sz. exact Hi.
Qed.

Lemma link_init_fixed_ends : forall buf s d f o en ri, l_src (c06_link_init_fixed buf s d f o en ri) = s /\ l_dst (c06_link_init_fixed buf s d f o en ri) = d.
Proof. intros. unfold c06_link_init_fixed. destruct (c06_send_setup buf _) as [[? ?] ?]. split; reflexivity. Qed.

Lemma observe_eq_gen : forall (D : Type) (fs fd : D -> nat) (sp : D -> list c06_call) ds ls,
  map l_src ls = map fs ds -> map l_dst ls = map fd ds ->
  Forall2 (fun d l => c06_nonzero (c06_log l) = sp d) ds ls ->
  map (fun l => (l_src l, l_dst l, c06_nonzero (c06_log l))) ls = map (fun d => (fs d, fd d, sp d)) ds.
Proof.
  intros D fs fd sp ds ls S Dd F. revert S Dd. induction F; simpl; intros S Dd; auto.
  inversion S; inversion Dd. rewrite H, H1, H3. f_equal. auto.
Qed.

Lemma P_case_delivery_fixed : forall backward fixnew buf ni w np sizes es,
  c06_case_ok_fixed backward buf np sizes es = true ->
  exists c0, c06_init false backward fixnew buf ni w np sizes es = Some c0 /\
    forall sched, let r := c06_run (c06_case_fuel c0) sched c0 in
      snd r = true /\ c06_returned (fst r) = true /\ Some (c06_observe (fst r)) = c06_spec_case backward ni w np sizes es.
Proof.
  intros backward fixnew buf ni w np sizes es Ok.
  assert (T : exists ds, c06_fdescs backward ni w np sizes es = Some ds).
  { apply all_some_total. intros o Ho. apply in_flat_map in Ho. destruct Ho as [p [Hp Ho]]. apply in_seq in Hp.
    destruct (fdescs_rank_ok backward buf ni w np sizes es p o Ok) as [d [E _]]; auto; try lia. congruence. }
  destruct T as [ds E]. rewrite init_fixed_eq, spec_case_eq_fixed, E. simpl. eexists. split; [reflexivity|]. intros sched.
  assert (Okd : Forall (fun d => c06_link_ok_fixed buf (d_f d) (d_entries d) (d_ridx d) = true) ds).
  { eapply Forall2_some_forall; [apply all_some_spec; exact E|]. intros o Ho. apply in_flat_map in Ho. destruct Ho as [p [Hp Ho]].
    apply in_seq in Hp. eapply fdescs_rank_ok; eauto. lia. }
  pose proof (P_run_delivers_fixed buf fixnew ds np sched Okd) as R. cbv zeta in R.
  destruct R as [St [Rt L]]. cbv zeta. repeat split; auto.
  destruct (run_exec (c06_case_fuel (fixed_cfg buf fixnew ds np)) sched (fixed_cfg buf fixnew ds np)) as [evs Ex].
  destruct (exec_ends _ _ _ Ex) as [Hs Hd]. f_equal. unfold c06_observe. apply observe_eq_gen; auto.
  - rewrite Hs. unfold fixed_cfg. simpl. rewrite map_map. apply map_ext. intros d. apply link_init_fixed_ends.
  - rewrite Hd. unfold fixed_cfg. simpl. rewrite map_map. apply map_ext. intros d. apply link_init_fixed_ends.
Qed.

(* ------------------------------------------------------------------ exactly once, in order *)
Lemma spec_items : forall entries ridx, length entries = length ridx ->
  concat (map snd (c06_spec_link entries ridx)) = concat entries /\
  map (fun c : c06_call => snd (fst c)) (c06_spec_link entries ridx) = filter (fun n => negb (n =? 0)) (map (@length nat) entries) /\
  Forall (fun c : c06_call => snd (fst c) = length (snd c) /\ snd (fst c) <> 0) (c06_spec_link entries ridx).
Proof.
  unfold c06_spec_link, c06_nonzero. induction entries as [|e t IH]; intros [|i rt] L; simpl in *; try discriminate; auto.
  destruct (IH rt ltac:(lia)) as [A [B C]]. destruct e as [|x e']; simpl.
  - auto.
  - rewrite A, B. repeat split; auto. constructor; auto. simpl. split; auto.
Qed.

(* ------------------------------------------------------------------ outside the precondition: an index larger than the buffer
   is NOT rejected; it is never sent (the sender's request stays null while its tracker is not finished) *)
Lemma P_oversize_never_packed : forall buf e t nx, buf < length e ->
  c06_pack buf (mkS 0 (e :: t) nx) = ([], mkS 0 (e :: t) nx) /\
  c06_send_setup buf (mkS 0 (e :: t) nx) = (mkS 0 (e :: t) nx, SNull, []).
Proof.
  intros buf e t nx H.
  assert (P : c06_pack buf (mkS 0 (e :: t) nx) = ([], mkS 0 (e :: t) nx)).
  { unfold c06_pack. simpl. replace (length e <=? buf) with false by (symmetry; apply Nat.leb_gt; exact H).
    simpl. destruct e; [simpl in H; lia|reflexivity]. }
  split; auto. unfold c06_send_setup. rewrite P. reflexivity.
Qed.

Definition c06_oversize_cfg : c06_cfg := var_cfg 2 [mkVD 0 1 [[7; 8; 9]] [0]] 2.

Lemma P_oversize_stuck :
  let c := fst (c06_run (c06_case_fuel c06_oversize_cfg) [] c06_oversize_cfg) in
  c06_enabled c = [] /\ c06_returned c = false /\ map c06_log (c_links c) = [[]].
Proof. vm_compute. repeat split. Qed.

(* ------------------------------------------------------------------ backward is forward on the transposed interface *)
Definition c06_swap (e : c06_entry) : c06_entry := mkE (e_p e) (e_q e) (e_second e) (e_first e).

Lemma find_entry_swap : forall p q es, c06_find_entry p q (map c06_swap es) = option_map c06_swap (c06_find_entry p q es).
Proof. induction es as [|e t IH]; simpl; auto. destruct ((e_p e =? p) && (e_q e =? q)); auto. Qed.

Lemma entries_of_swap : forall p es, c06_entries_of p (map c06_swap es) = map c06_swap (c06_entries_of p es).
Proof. unfold c06_entries_of. induction es as [|e t IH]; simpl; auto. destruct (e_p e =? p); simpl; rewrite IH; auto. Qed.

Lemma fixed_sizes_swap : forall sizes mine cur, c06_fixed_sizes true sizes cur mine = c06_fixed_sizes false sizes cur (map c06_swap mine).
Proof. induction mine as [|e t IH]; simpl; intros; auto. rewrite IH. reflexivity. Qed.

Lemma combine_map_l : forall (A B C : Type) (f : A -> C) (a : list A) (b : list B),
  combine (map f a) b = map (fun ab : A * B => (f (fst ab), snd ab)) (combine a b).
Proof. induction a; destruct b; simpl; auto. f_equal; auto. Qed.

Lemma lookup_fixed_swap : forall p (l : list (c06_entry * nat)),
  c06_lookup_fixed p (map (fun ab : c06_entry * nat => (c06_swap (fst ab), snd ab)) l) = c06_lookup_fixed p l.
Proof. induction l as [|[e f] t IH]; simpl; auto. rewrite IH. reflexivity. Qed.

Lemma own_fixed_swap : forall sizes es q p, c06_own_fixed true sizes es q p = c06_own_fixed false sizes (map c06_swap es) q p.
Proof. intros. unfold c06_own_fixed. rewrite entries_of_swap, <- fixed_sizes_swap, combine_map_l, lookup_fixed_swap. reflexivity. Qed.

Lemma links_of_rank_swap : forall variable buf ni w sizes es p,
  c06_links_of_rank variable true buf ni w sizes es p = c06_links_of_rank variable false buf ni w sizes (map c06_swap es) p.
Proof.
  intros. unfold c06_links_of_rank. rewrite entries_of_swap, <- fixed_sizes_swap, combine_map_l, map_map.
  apply map_ext. intros [e f]. simpl. rewrite find_entry_swap, <- own_fixed_swap. destruct (c06_find_entry (e_q e) p es); reflexivity.
Qed.

Lemma P_backward_is_forward_transposed : forall variable fixnew buf ni w np sizes es,
  c06_init variable true fixnew buf ni w np sizes es = c06_init variable false fixnew buf ni w np sizes (map c06_swap es) /\
  c06_spec_case true ni w np sizes es = c06_spec_case false ni w np sizes (map c06_swap es).
Proof.
  intros. split.
  - unfold c06_init. rewrite (flat_map_ext _ _ (links_of_rank_swap variable buf ni w sizes es)). reflexivity.
  - unfold c06_spec_case. f_equal. apply flat_map_ext. intros p. unfold c06_spec_rank. rewrite entries_of_swap, map_map.
    apply map_ext. intros e. simpl. rewrite find_entry_swap. destruct (c06_find_entry (e_q e) p es); reflexivity.
Qed.

