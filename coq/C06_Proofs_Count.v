(* C06 — the item count handed to scatter in the fixed-size protocol (round 6).
   UnpackEntries, fixed branch: handle.scatter(buffer, tracker.index(), tracker.fixedSize), and tracker.fixedSize of a receive
   tracker is, once receiveSizeAndSetupReceive has set up the first data receive, the value the SENDING peer announced on tag
   933881 -- whatever the receiver's own handle.size() says (the value the tracker was constructed with, RWaitFixed own).
   Proved as an invariant of the link / global transition systems: no precondition on sizes, lists or buffer. *)
From Coq Require Import List Arith Bool PeanoNat Lia.
From DuneV Require Import C06_Model C06_Spec C06_Proofs C06_Proofs_Case.
Import ListNotations.

Definition c06_count_is (f : nat) (c : c06_call) : Prop := snd (fst c) = f.

Definition CInv (f : nat) (l : c06_link) : Prop :=
  (l_rph l = false /\ l_rreq l = RNull /\ (l_fs l = FsPending f \/ l_fs l = FsMatched f) /\
   exists own ridx, l_r l = RWaitFixed own ridx)
  \/ (exists rem log, l_r l = RFix f rem log /\ Forall (c06_count_is f) log).

Lemma scatter_fixed_counts : forall f n b rem log, Forall (c06_count_is f) log ->
  Forall (c06_count_is f) (snd (c06_scatter_fixed f n b rem log)).
Proof.
  induction n; simpl; intros b rem log H; auto. destruct rem as [|i t]; auto.
  apply IHn. apply Forall_app. split; auto. constructor; [reflexivity|constructor].
Qed.

Lemma CInv_init : forall buf src dst f own entries ridx, CInv f (c06_link_init_fixed buf src dst f own entries ridx).
Proof.
  intros. unfold c06_link_init_fixed. destruct (c06_send_setup buf (mkS f entries [])) as [[s1 q] sent].
  left. simpl. repeat split; eauto.
Qed.

Lemma CInv_step : forall buf fixnew f l e l', CInv f l -> c06_lstep buf fixnew l e = Some l' -> CInv f l'.
Proof.
  intros buf fixnew f l e l' [[Rp [Rq [Fs [own [ridx Rr]]]]]|[rem [log [Rr Fl]]]] H;
    destruct l as [src dst s sq sph r rq rph fs snt]; simpl in *; subst.
  - (* the receiver has not been told the size yet: no receive can be posted, matched or completed *)
    destruct e; unfold c06_lstep in H; simpl in H.
    + destruct sq; discriminate.
    + destruct sq; try discriminate. destruct (c06_sfin s).
      * inversion H; subst. left. simpl. repeat split; eauto.
      * destruct (c06_send_setup buf s) as [[? ?] ?]. inversion H; subst. left. simpl. repeat split; eauto.
    + discriminate.
    + destruct sph; try discriminate. destruct sq; try discriminate.
      destruct (c06_send_setup buf (c06_sswitch s)) as [[? ?] ?]. inversion H; subst. left. simpl. repeat split; eauto.
    + destruct Fs as [->| ->]; [discriminate|]. inversion H; subst. right. simpl. eauto.
    + destruct Fs as [->| ->]; [|discriminate]. inversion H; subst. left. simpl. repeat split; eauto.
  - (* the size has arrived: every scatter call appended from now on carries it *)
    destruct e; unfold c06_lstep in H; simpl in H.
    + destruct sq; try discriminate. destruct rq; try discriminate. inversion H; subst. right. simpl. eauto.
    + destruct sq; try discriminate. destruct (c06_sfin s).
      * inversion H; subst. right. simpl. eauto.
      * destruct (c06_send_setup buf s) as [[? ?] ?]. inversion H; subst. right. simpl. eauto.
    + destruct rq; try discriminate. inversion H; subst. right. simpl.
      pose proof (scatter_fixed_counts f (Nat.min (buf / f) (length rem)) m rem log Fl) as S.
      destruct (c06_scatter_fixed f (Nat.min (buf / f) (length rem)) m rem log) as [l0 g]. simpl in S. eauto.
    + destruct sph; try discriminate. destruct sq; try discriminate.
      destruct (c06_send_setup buf (c06_sswitch s)) as [[? ?] ?]. inversion H; subst. right. simpl. eauto.
    + destruct rph; try discriminate. destruct rq; try discriminate.
      destruct fs; try discriminate; inversion H; subst; right; simpl; eauto.
    + destruct fs; try discriminate. inversion H; subst. right. simpl. eauto.
Qed.

Lemma CInv_log : forall f l, CInv f l -> Forall (c06_count_is f) (c06_log l).
Proof.
  intros f l [[_ [_ [_ [own [ridx Rr]]]]]|[rem [log [Rr Fl]]]]; unfold c06_log; rewrite Rr; auto.
Qed.

(* one link on its own, every event sequence (phase events and switches alike) *)
Fixpoint c06_lexec_any (buf : nat) (fixnew : bool) (l : c06_link) (evs : list c06_levent) : option c06_link :=
  match evs with
  | [] => Some l
  | e :: t => match c06_lstep buf fixnew l e with Some l' => c06_lexec_any buf fixnew l' t | None => None end
  end.

Lemma P_fixed_count_link : forall buf fixnew src dst f own entries ridx evs l',
  c06_lexec_any buf fixnew (c06_link_init_fixed buf src dst f own entries ridx) evs = Some l' ->
  Forall (c06_count_is f) (c06_log l').
Proof.
  intros buf fixnew src dst f own entries ridx evs l' H. apply CInv_log.
  pose proof (CInv_init buf src dst f own entries ridx) as I. revert I H.
  generalize (c06_link_init_fixed buf src dst f own entries ridx). induction evs as [|e t IH]; simpl; intros l I H.
  - inversion H; subst; auto.
  - destruct (c06_lstep buf fixnew l e) as [l1|] eqn:E; [|discriminate]. eapply IH; [|exact H]. eapply CInv_step; eauto.
Qed.

(* the global system *)
Definition GInvC (ds : list c06_fdesc) (c : c06_cfg) : Prop := Forall2 (fun d l => CInv (d_f d) l) ds (c_links c).

Lemma Forall2_map_r_same : forall (A B : Type) (R : A -> B -> Prop) (g : B -> B) la lb,
  Forall2 R la lb -> (forall a b, R a b -> R a (g b)) -> Forall2 R la (map g lb).
Proof. intros A B R g la lb F H. induction F; simpl; constructor; auto. Qed.

Lemma CInv_switch_link : forall buf fixnew p f l, CInv f l -> CInv f (c06_switch_link buf fixnew p l).
Proof.
  intros buf fixnew p f l I. unfold c06_switch_link.
  set (l1 := if l_src l =? p then match c06_lstep buf fixnew l LSwitchS with Some x => x | None => l end else l).
  assert (I1 : CInv f l1).
  { unfold l1. destruct (l_src l =? p); auto. destruct (c06_lstep buf fixnew l LSwitchS) eqn:E; auto. eapply CInv_step; eauto. }
  destruct (l_dst l1 =? p); auto. destruct (c06_lstep buf fixnew l1 LSwitchR) eqn:E; auto. eapply CInv_step; eauto.
Qed.

Lemma GInvC_step : forall ds c e c', GInvC ds c -> c06_gstep c e = Some c' -> GInvC ds c'.
Proof.
  intros ds c e c' G H. destruct e as [k le|p].
  - destruct (gstep_link_inv _ _ _ _ H) as [l [l' [N [E ->]]]]. unfold GInvC in *. simpl.
    destruct (Forall2_nth _ _ _ _ _ _ _ G N) as [d [Nd R]].
    eapply Forall2_upd; eauto. eapply CInv_step; eauto.
  - simpl in H. destruct (nth_error (c_phase c) p) as [[|]|]; try discriminate.
    destruct (forallb (c06_ready_to_switch p) (c_links c)); [|discriminate]. inversion H; subst. unfold GInvC in *. simpl.
    apply Forall2_map_r_same; auto. intros d l. apply CInv_switch_link.
Qed.

Lemma GInvC_exec : forall ds evs c c', GInvC ds c -> c06_exec c evs = Some c' -> GInvC ds c'.
Proof.
  induction evs as [|e t IH]; simpl; intros c c' G H.
  - inversion H; subst; auto.
  - destruct (c06_gstep c e) as [c1|] eqn:E; [|discriminate]. eapply IH; [|exact H]. eapply GInvC_step; eauto.
Qed.

Lemma GInvC_init : forall buf fixnew ds np, GInvC ds (fixed_cfg buf fixnew ds np).
Proof. intros. unfold GInvC, fixed_cfg. simpl. induction ds; simpl; constructor; auto. apply CInv_init. Qed.

Lemma Forall2_weaken : forall (A B : Type) (R1 R2 : A -> B -> Prop) la lb,
  (forall a b, R1 a b -> R2 a b) -> Forall2 R1 la lb -> Forall2 R2 la lb.
Proof. intros A B R1 R2 la lb H F. induction F; constructor; auto. Qed.

Lemma P_fixed_count_global : forall buf fixnew ds np evs c',
  c06_exec (fixed_cfg buf fixnew ds np) evs = Some c' ->
  Forall2 (fun d l => Forall (c06_count_is (d_f d)) (c06_log l)) ds (c_links c').
Proof.
  intros buf fixnew ds np evs c' H. pose proof (GInvC_exec ds evs _ _ (GInvC_init buf fixnew ds np) H) as G.
  unfold GInvC in G. eapply Forall2_weaken; [|exact G]. intros d l. apply CInv_log.
Qed.

(* at the level of a case: the size announced on the link p -> q is the one rank p's setupInterfaceTrackers computed
   (c06_fixed_sizes on p's map entries), and d_own is what rank q computed for its entry for p *)
Lemma P_case_fixed_count : forall backward fixnew buf ni w np sizes es c0,
  c06_init false backward fixnew buf ni w np sizes es = Some c0 ->
  exists ds, c06_fdescs backward ni w np sizes es = Some ds /\
    forall fuel sched, Forall2 (fun d l => Forall (c06_count_is (d_f d)) (c06_log l)) ds (c_links (fst (c06_run fuel sched c0))).
Proof.
  intros backward fixnew buf ni w np sizes es c0 H. rewrite init_fixed_eq in H.
  destruct (c06_fdescs backward ni w np sizes es) as [ds|]; [|discriminate]. simpl in H. inversion H; subst.
  exists ds. split; auto. intros fuel sched.
  destruct (run_exec fuel sched (fixed_cfg buf fixnew ds np)) as [evs Ex]. eapply P_fixed_count_global; eauto.
Qed.

(* the receiver's own size is never looked at: two links that differ only in it behave identically *)
Definition c06_erase_own_r (r : c06_R) : c06_R := match r with RWaitFixed _ ridx => RWaitFixed 0 ridx | _ => r end.
Definition c06_erase_own (l : c06_link) : c06_link :=
  mkL (l_src l) (l_dst l) (l_s l) (l_sreq l) (l_sph l) (c06_erase_own_r (l_r l)) (l_rreq l) (l_rph l) (l_fs l) (l_sent l).

Lemma erase_unpack : forall buf m r, c06_erase_own_r (c06_unpack buf m r) = c06_unpack buf m (c06_erase_own_r r).
Proof.
  intros buf m r. destruct r; unfold c06_unpack; cbn [c06_erase_own_r]; try reflexivity.
  - destruct (c06_scatter_fixed _ _ _ _ _); reflexivity.
  - destruct (c06_unpack_var _ _ _ _ _ _) as [[[? ?]|]|]; reflexivity.
Qed.

Lemma erase_rfin : forall r, c06_rfin (c06_erase_own_r r) = c06_rfin r.
Proof. destruct r; reflexivity. Qed.

Lemma erase_rswitch : forall fixnew v r, c06_erase_own_r (c06_rswitch fixnew v r) = c06_rswitch fixnew v (c06_erase_own_r r).
Proof. intros. destruct r; reflexivity. Qed.

Lemma erase_recv_setup : forall r, c06_recv_setup (c06_erase_own_r r) = c06_recv_setup r.
Proof. intros. unfold c06_recv_setup. rewrite erase_rfin. reflexivity. Qed.

Lemma P_own_size_irrelevant_step : forall buf fixnew l e,
  c06_lstep buf fixnew (c06_erase_own l) e = option_map c06_erase_own (c06_lstep buf fixnew l e).
Proof.
  intros buf fixnew [src dst s sq sph r rq rph fs snt] e. unfold c06_erase_own. destruct e; unfold c06_lstep; simpl.
  - destruct sq; auto. destruct rq; auto.
  - destruct sq; auto. destruct (c06_sfin s); auto. destruct (c06_send_setup buf s) as [[? ?] ?]. reflexivity.
  - destruct rq; auto. simpl. unfold c06_erase_own. simpl. rewrite erase_unpack, <- erase_unpack, erase_recv_setup. reflexivity.
  - destruct sph; auto. destruct sq; auto. destruct (c06_send_setup buf (c06_sswitch s)) as [[? ?] ?]. reflexivity.
  - destruct rph; auto. destruct rq; auto.
    destruct fs; simpl; unfold c06_erase_own; simpl; auto; rewrite erase_rswitch, <- erase_rswitch, erase_recv_setup; reflexivity.
  - destruct fs; auto.
Qed.

Lemma P_own_size_irrelevant : forall buf fixnew src dst f own1 own2 entries ridx evs,
  option_map c06_log (c06_lexec_any buf fixnew (c06_link_init_fixed buf src dst f own1 entries ridx) evs) =
  option_map c06_log (c06_lexec_any buf fixnew (c06_link_init_fixed buf src dst f own2 entries ridx) evs).
Proof.
  intros.
  assert (E : forall evs l, c06_lexec_any buf fixnew (c06_erase_own l) evs = option_map c06_erase_own (c06_lexec_any buf fixnew l evs)).
  { induction evs0 as [|e t IH]; simpl; intros l; auto. rewrite P_own_size_irrelevant_step.
    destruct (c06_lstep buf fixnew l e); simpl; auto. }
  assert (L : forall l, c06_log (c06_erase_own l) = c06_log l).
  { intros l. unfold c06_log, c06_erase_own. simpl. destruct (l_r l); reflexivity. }
  assert (I : c06_erase_own (c06_link_init_fixed buf src dst f own1 entries ridx) = c06_erase_own (c06_link_init_fixed buf src dst f own2 entries ridx)).
  { unfold c06_link_init_fixed. destruct (c06_send_setup buf (mkS f entries [])) as [[? ?] ?]. reflexivity. }
  assert (O : forall l, option_map c06_log (c06_lexec_any buf fixnew l evs) = option_map c06_log (c06_lexec_any buf fixnew (c06_erase_own l) evs)).
  { intros l. rewrite E. destruct (c06_lexec_any buf fixnew l evs); simpl; auto. rewrite L. reflexivity. }
  rewrite (O (c06_link_init_fixed buf src dst f own1 entries ridx)), (O (c06_link_init_fixed buf src dst f own2 entries ridx)), I. reflexivity.
Qed.
