(* C06 -- lemmas about the definitions that depend on constants re-read from the source. *)
From Coq Require Import List Arith Bool PeanoNat NArith.
From DuneV Require Import Params_gen C06_Model C06_Model_Params C06_Spec C06_Proofs.
Import ListNotations.

(* ------------------------------------------------------------------ the communicator object *)
Lemma P_vsc_members : forall explicit macro iface f1 f2 f3 this,
  let a := c06_vsc_ctor explicit macro iface f1 in
  (vsc_buf (c06_vsc_copy a f2) = vsc_buf a /\ vsc_iface (c06_vsc_copy a f2) = iface /\ vsc_comm (c06_vsc_copy a f2) = f2) /\
  (vsc_buf (c06_vsc_assign this a false f3) = vsc_buf a /\ vsc_iface (c06_vsc_assign this a false f3) = iface /\
   vsc_comm (c06_vsc_assign this a false f3) = f3) /\
  c06_vsc_assign a a true f3 = a /\
  vsc_buf a = c06_ctor_buf explicit macro.
Proof. intros. repeat split. Qed.

Lemma P_tags_distinct : c06_channels_separate = true.
Proof. vm_compute. reflexivity. Qed.

Lemma P_ctor_buf_cases : forall b m, c06_ctor_buf (Some b) m = b /\ c06_ctor_buf None (Some b) = b /\
  c06_ctor_buf None None = N.to_nat c06_param_default_buffer.
Proof. intros. repeat split. Qed.

Lemma P_vsc_move_swap : forall a b f1 f2 f3,
  (vsc_buf (c06_vsc_move a f1) = vsc_buf a /\ vsc_iface (c06_vsc_move a f1) = vsc_iface a /\ vsc_comm (c06_vsc_move a f1) = f1) /\
  (let (a', b') := c06_vsc_swap a b f1 f2 f3 in
   vsc_buf a' = vsc_buf b /\ vsc_iface a' = vsc_iface b /\ vsc_buf b' = vsc_buf a /\ vsc_iface b' = vsc_iface a /\
   vsc_comm a' = f2 /\ vsc_comm b' = f3).
Proof. intros. repeat split. Qed.
